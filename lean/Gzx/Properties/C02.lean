/-
  C02 — Data Matrix: what is written is what is read (codeword level).
  Property theorems only; helper lemmas live in Gzx/Proofs/DM*.lean.
  Model: Gzx/Model/DMHighLevel.lean (decoder `decLoop`/`decodeText`, encoder `encodeHL`), tied to
  datamatrix/decoder/decoded_bit_stream_parser.go and datamatrix/encoder/*.go by the `c02` correspondence
  suites (dm-dec, dm-hl, dm-la) and by Obligations/C02.lean (character tables, randomisation kernels).

  The look-ahead (`HighLevelEncoder_lookAheadTest`, float arithmetic) is an arbitrary oracle
  `la : message → position → current mode → mode` in the encoder theorems; `laExactR ρ` is its exact integer model
  with the float rounding `ρ` explicit (every theorem about it holds for every `ρ`).
-/
import Gzx.Proofs.DMTotalAB
import Gzx.Proofs.DMMidstream
import Gzx.Proofs.DMRoundTripGen
import Gzx.Properties.C08
import Gzx.Model.RS
import Gzx.Proofs.DMCompose
import Gzx.Proofs.DMLookAhead
import Gzx.Proofs.DMEdifactEOD
namespace Gzx.Properties.C02
open Gzx Gzx.DMHighLevel

/-! ## codec lemmas: encoder arithmetic and decoder arithmetic are inverse (all inputs) -/

/-- ASCII digit pairs: the codeword `130 + 10·d1 + d2` written for two digits decodes to exactly those two
    digit characters. -/
theorem ascii_digit_pair_inv (d1 d2 : Nat) (h1 : isDigit d1 = true) (h2 : isDigit d2 = true) :
    130 ≤ (d1 - 48) * 10 + (d2 - 48) + 130 ∧ (d1 - 48) * 10 + (d2 - 48) + 130 ≤ 229 ∧
    digitPair ((d1 - 48) * 10 + (d2 - 48) + 130 - 130) = [d1, d2] := by
  simp only [isDigit, Bool.and_eq_true, decide_eq_true_eq] at h1 h2
  have h := digitPair_digits (d1 - 48) (d2 - 48) (by omega) (by omega)
  have e1 : 48 + (d1 - 48) = d1 := by omega
  have e2 : 48 + (d2 - 48) = d2 := by omega
  rw [e1, e2] at h
  refine ⟨by omega, by omega, ?_⟩
  have : (d1 - 48) * 10 + (d2 - 48) + 130 - 130 = (d1 - 48) * 10 + (d2 - 48) := by omega
  rw [this, h]

example : digitPair (137 - 130) = [48, 55] := by decide    -- "07"

/-- C40 / Text / X12 packing: `parseTwoBytes ∘ c40EncodeToCodewords = id` on every triple of values < 40
    (both codewords are bytes). -/
theorem c40_pack_inv (c1 c2 c3 : Nat) (h1 : c1 < 40) (h2 : c2 < 40) (h3 : c3 < 40) :
    ∃ b1 b2, packTriplet c1 c2 c3 = [b1, b2] ∧ b1 < 256 ∧ b2 < 256 ∧
      parseTwoBytes b1 b2 = ((c1 : Int), (c2 : Int), (c3 : Int)) :=
  ⟨_, _, rfl, by omega, by omega, parseTwoBytes_pack c1 c2 c3 h1 h2 h3⟩

example : packTriplet 39 39 39 = [250, 0] ∧ parseTwoBytes 250 0 = (39, 39, 39) := by decide

/-- C40: for every byte value `c` the values `c40EncodeChar` produces (basic set, shift 1/2/3, upper shift
    for 128..255) are all < 40, and the decoder's value automaton started in its initial state emits exactly
    `c` and is back in the initial state (tables = ISO 16022 Annex C; tied to the code by
    `Obligations.C02.gen_tables_are_reference`). -/
theorem c40_char_inv (c : Nat) (hc : c < 256) : charRoundTrips refTables false c = true :=
  c40_chars_roundtrip ⟨c, hc⟩

/-- Text: the same for `textEncodeChar` and the Text tables. -/
theorem text_char_inv (c : Nat) (hc : c < 256) : charRoundTrips refTables true c = true :=
  text_chars_roundtrip ⟨c, hc⟩

example : cEncodeChar false 233 = [1, 30, 2, 9] := by decide   -- 'é' in C40: shift 2, upper shift, shift 3, 'i'
example : cEncodeChar true 233 = [1, 30, 22] := by decide      -- 'é' in Text: shift 2, upper shift, 'i'

/-- X12: the encoder accepts exactly the X12-native characters, maps them to values < 40, and the decoder's
    value table maps those back; every other byte is rejected by the encoder. -/
theorem x12_char_inv (c : Nat) (hc : c < 256) : x12RoundTrips c = true :=
  x12_chars_roundtrip ⟨c, hc⟩

/-- EDIFACT characters: the encoder accepts exactly 0x20..0x5E, the 6-bit value is never the unlatch value
    31, and the decoder's `value | 0x40 if bit 5 clear` restores the character. -/
theorem edifact_char_inv (c : Nat) (hc : c < 256) : edifactRoundTrips c = true :=
  edifact_chars_roundtrip ⟨c, hc⟩

/-- EDIFACT packing: four 6-bit values ↦ three bytes ↦ the same four values. -/
theorem edifact_pack_inv (c1 c2 c3 c4 : Nat) (h1 : c1 < 64) (h2 : c2 < 64) (h3 : c3 < 64) (h4 : c4 < 64) :
    ∃ b1 b2 b3, edifactWord c1 c2 c3 c4 = [b1, b2, b3] ∧ b1 < 256 ∧ b2 < 256 ∧ b3 < 256 ∧
      edifactUnpack b1 b2 b3 = [c1, c2, c3, c4] :=
  edifactUnpack_word c1 c2 c3 c4 h1 h2 h3 h4

/-- Base 256: the 255-state randomisation is undone by the decoder for every byte at every position. -/
theorem base256_randomize_inv (b p : Nat) (hb : b < 256) :
    rand255 b p < 256 ∧ unrand255 (rand255 b p) p = b :=
  ⟨rand255_lt b p hb, unrand255_rand255 b p hb⟩

/-- Pad codewords: the 253-state pad value is never 129 (so only the first pad codeword is 129) and is a
    byte in 1..254. -/
theorem pad253_range (p : Nat) : 1 ≤ rand253 p ∧ rand253 p ≤ 254 ∧ rand253 p ≠ 129 :=
  rand253_range p

/-- Whatever follows the first pad codeword is ignored by the decoder. -/
theorem decoder_stops_at_pad (T : Tables) (a : Acc) (up : Bool) (off : Nat) (rest : List Nat) :
    decLoop T (129 :: rest) 0 up off a = .ok a := by
  simp [decLoop]

/-! ## the segment invariant, ASCII encodation (every look-ahead oracle) -/

/-- `dm_encoder_invariant` (ASCII steps): if the decoder run on the codewords written so far yields exactly
    the characters consumed so far and is in ASCII state — whatever codewords follow — then after a data step
    of the ASCII encoder (digit pair / ASCII character / upper shift + character) the same holds again, the
    position has advanced, and message, hints and symbol are untouched.  `la` is arbitrary. -/
theorem dm_encoder_invariant_ascii (T : Tables) (la : LookAhead) (c c' : Ctx) (a : Acc)
    (hbytes : ∀ x ∈ c.msg, x < 256) (hI : Inv T c a)
    (h : asciiEncode la c = .ok c') (hno : c'.newEnc = none) :
    ∃ a', Inv T c' a' ∧ a'.trailer = a.trailer ∧ c.pos < c'.pos := by
  obtain ⟨a', hI', ht, _, hpos, _⟩ := ascii_step_inv hbytes hI h hno
  exact ⟨a', hI', ht, by rcases hpos with h1 | ⟨h2, _⟩ <;> omega⟩

/-- the invariant holds initially, also with a macro 05 / 06 header (codeword 236 / 237, seven characters
    consumed, trailer pending) -/
theorem dm_encoder_invariant_init (T : Tables) (msg : List Nat) (cfg : Cfg) :
    ∃ a, Inv T (initCtx msg cfg) a :=
  let ⟨a, h, _⟩ := initCtx_inv T msg cfg
  ⟨a, h⟩

/-- `base256_length_inv`: the decoder reads back the length field the encoder writes — one byte for 1..249
    data bytes, two bytes (`len/250+249`, `len%250`) for 250..1555, and 0 = "to the end of the symbol" — and
    un-randomises exactly the data bytes, at every offset, whatever follows an explicit-length segment. -/
theorem base256_length_inv (data suf : List Nat) (off : Nat) (a : Acc) (hd : ∀ x ∈ data, x < 256) :
    (1 ≤ data.length → data.length ≤ 249 →
      b256Seg (rand255All (data.length :: data) (off + 1) ++ suf) off a
        = .ok (a.push256All data, 1 + data.length)) ∧
    (250 ≤ data.length → data.length ≤ 1555 →
      b256Seg (rand255All ((data.length / 250 + 249) :: (data.length % 250) :: data) (off + 1) ++ suf) off a
        = .ok (a.push256All data, 2 + data.length)) ∧
    b256Seg (rand255All (0 :: data) (off + 1)) off a = .ok (a.push256All data, 1 + data.length) :=
  ⟨b256Seg_len1 data suf off a hd, b256Seg_len2 data suf off a hd, b256Seg_toEnd data off a hd⟩

/-- `dm_encoder_invariant` (Base 256): a whole call of the Base-256 encoder, started right after the latch
    231, consumes at least one character and either re-establishes the invariant (explicit length field) or
    ends the message with the symbol exactly full and the whole stream decoding to the message consumed
    (length 0).  `la` and the symbol table are arbitrary. -/
theorem dm_encoder_invariant_base256 (T : Tables) (syms : List SymbolInfo) (la : LookAhead) (c c' : Ctx) (a : Acc)
    (hbytes : ∀ x ∈ c.msg, x < 256) (hL : Latched256 T c a) (hle : c.pos ≤ c.total) (hmore : c.hasMore = true)
    (hnew : c.newEnc = none) (h : b256Encode syms la c = .ok c') :
    ∃ a', a'.trailer = a.trailer ∧ c.pos < c'.pos ∧
      (Inv T c' a' ∨ (c'.hasMore = false ∧ Exact T c' a')) := by
  obtain ⟨a', ht, _, _, _, hp, _, _, hres⟩ := b256_step_inv hbytes hL hle hmore hnew h
  exact ⟨a', ht, hp, hres⟩

/-- `c40_segment_inv` / `text_segment_inv`: if the decoder is in ASCII state after `cw`, then after
    `cw ++ [latch] ++ triplets ++ [254]`, where the triplets pack the values of whole characters `chars`
    (any bytes; the value count a multiple of three), it has appended exactly `chars` and is in ASCII state
    again — whatever codewords follow, including none (the "one byte left" rule lets a final 254 through). -/
theorem c40_segment_inv (text : Bool) (cw : List Nat) (a : Acc) (h : DecodesTo refTables cw a)
    (chars : List Nat) (hb : ∀ c ∈ chars, c < 256) (k : Nat) (hl : (cVals text chars).length = 3 * k) :
    DecodesTo refTables (cw ++ [if text then 239 else 230] ++ (writeTriplets (cVals text chars)).1 ++ [254])
      (a.pushAll chars).endSeg :=
  decodesTo_c40 text h chars hb k hl

/-- `x12_segment_inv`: the same for an X12 segment (latch 238) of complete triplets of X12 values. -/
theorem x12_segment_inv (T : Tables) (cw : List Nat) (a : Acc) (h : DecodesTo T cw a) (hp : a.pend = 0)
    (k : Nat) (vals chars : List Nat) (hl : vals.length = 3 * k) (hv : ∀ v ∈ vals, v < 40)
    (hc : x12Chars vals = .ok chars) (hch : ∀ c ∈ chars, c < 128) :
    DecodesTo T (cw ++ [238] ++ (writeTriplets vals).1 ++ [254]) (a.pushAll chars) :=
  decodesTo_x12 h hp k vals chars hl hv hc hch

example : (writeTriplets (cVals false [65, 66, 67])).1 = [89, 233] := by decide      -- "ABC" in C40
example : decodeText refTables [230, 89, 233, 254, 66] = .ok [65, 66, 67, 65] := by decide

/-- `dm_encoder_invariant` (C40 / Text, leaving in mid-stream): when the C40 or Text encoder stops with
    complete triplets buffered and characters still to come, `c40HandleEOD` writes the triplets and the unlatch
    and the invariant holds again, at the same position.  (The end-of-message branches of `c40HandleEOD` and
    the backtracking are NOT covered by a theorem.) -/
theorem dm_encoder_invariant_c40_midstream (syms : List SymbolInfo) (text : Bool) (c c' : Ctx) (a : Acc)
    (chars buf : List Nat) (hB : Buffered text c a chars buf) (hb : ∀ x ∈ chars, x < 256)
    (k : Nat) (h3 : buf.length = 3 * k) (hmore : c.hasMore = true)
    (h : c40HandleEOD syms c buf = .ok c') :
    Inv refTables c' (a.pushAll chars).endSeg ∧ c'.pos = c.pos :=
  let ⟨hI, hp, _, _⟩ := c40HandleEOD_midstream hB hb k h3 hmore h
  ⟨hI, hp⟩

/-- `dm_encoder_invariant` (X12, whole call): for every look-ahead oracle that satisfies the end-of-message
    condition `LaX12Safe` (it does not keep or enter X12 for a final triplet that is followed by exactly one
    extended character), a whole call of the X12 encoder started right after the latch 238 — triplets written
    as they complete, look-ahead exit, rewind of the incomplete triplet and `x12HandleEOD` — either fails, or
    ends with the invariant (unlatch written), or in a tail state: the symbol is exactly used up, or has one
    codeword left for the one remaining character, which takes one ASCII codeword. -/
theorem dm_encoder_invariant_x12 (T : Tables) (syms : List SymbolInfo) (la : LookAhead) (c c' : Ctx) (a : Acc)
    (hL : LatchedM T X12 238 la c a) (hle : c.pos ≤ c.total) (hnew : c.newEnc = none)
    (hsafe : LaX12Safe la c) (h : x12Encode syms la c = .ok c') :
    ∃ a', a'.trailer = a.trailer ∧ c.pos ≤ c'.pos ∧ c'.newEnc = some ASCII ∧
      (Inv T c' a' ∨ ∃ k, k ≤ 1 ∧ Tail T c' a' k) := by
  obtain ⟨a', h1, _, _, _, h5, _, h7, h8⟩ := x12_step_post hL hle hnew hsafe h
  exact ⟨a', h1, h5, h7, h8⟩

/-- `dm_encoder_invariant` (C40 / Text, whole call): for EVERY look-ahead oracle, a whole call of the C40 or
    Text encoder started right after the latch — buffering, look-ahead exit, the (repaired) end-of-message
    backtracking and all branches of `c40HandleEOD` (two values left: shift-1 pad; one value left and one
    codeword free: last character to ASCII; complete triplets; with or without unlatch) — either fails, or
    ends with the invariant, or in a tail state (symbol exactly used up / one codeword left for the last
    character, which is not an extended one). -/
theorem dm_encoder_invariant_c40 (text : Bool) (syms : List SymbolInfo) (la : LookAhead) (c c' : Ctx) (a : Acc)
    (hbytes : ∀ x ∈ c.msg, x < 256)
    (hL : LatchedM refTables (if text then TEXT else C40) (if text then 239 else 230) la c a)
    (hle : c.pos ≤ c.total) (hm : c.hasMore = true) (hnew : c.newEnc = none)
    (h : c40Encode syms la text c = .ok c') :
    ∃ a', a'.trailer = a.trailer ∧ c.pos ≤ c'.pos ∧ c'.newEnc = some ASCII ∧
      (Inv refTables c' a' ∨ ∃ k, k ≤ 1 ∧ Tail refTables c' a' k) := by
  obtain ⟨a', h1, _, _, _, h5, _, h7, h8⟩ := c40_step_post hbytes hL hle hm hnew h
  exact ⟨a', h1, h5, h7, h8⟩

/-- `edifact_segment_inv`: if the decoder is in ASCII state after `cw0`, then after `cw0 ++ [240] ++ quadruples` of
    EDIFACT-native characters `chars` (any multiple of four)
      * followed by at most two codewords it has appended `chars` and reads those codewords in ASCII (the "two or
        fewer bytes left" rule — what the encoder relies on when it omits the unlatch);
      * followed by the one-codeword unlatch 124 it is back in ASCII provided AT LEAST TWO more codewords follow;
      * followed by three characters + unlatch (one full group) it is back in ASCII whatever follows. -/
theorem edifact_segment_inv (T : Tables) (cw0 : List Nat) (a : Acc) (h : DecodesTo T cw0 a) (hp : a.pend = 0)
    (k : Nat) (chars : List Nat) (hl : chars.length = 4 * k) (hn : ∀ c ∈ chars, isNativeEDIFACT c = true) :
    DecK T (cw0 ++ [240] ++ (writeQuads (chars.map ediVal)).1) (a.pushAll chars) 2 ∧
    DecFrom T 2 (cw0 ++ [240] ++ (writeQuads (chars.map ediVal)).1 ++ edifactPack [31]) (a.pushAll chars) ∧
    (∀ c1 c2 c3, isNativeEDIFACT c1 = true → isNativeEDIFACT c2 = true → isNativeEDIFACT c3 = true →
      DecFrom T 0 (cw0 ++ [240] ++ (writeQuads (chars.map ediVal)).1 ++
        edifactPack [ediVal c1, ediVal c2, ediVal c3, 31]) ((a.pushAll chars).pushAll [c1, c2, c3])) :=
  ⟨edifact_segment_open h hp k chars hl hn, edifact_closed1 h hp k chars hl hn,
   fun c1 c2 c3 h1 h2 h3 => edifact_closed4 h hp k chars hl hn c1 c2 c3 h1 h2 h3⟩

example : (writeQuads ([65, 66, 67, 68].map ediVal)).1 = [4, 32, 196] ∧ edifactPack [31] = [124] := by decide
example : decodeText refTables [240, 4, 32, 196, 124, 142, 129, 56] = .ok [65, 66, 67, 68, 49, 50] := by decide
/-- with only ONE codeword behind it the unlatch 124 is read as the ASCII character '{' -/
example : decodeText refTables [240, 4, 32, 196, 124, 142] = .ok [65, 66, 67, 68, 123, 49, 50] := by decide

/-- `dm_encoder_invariant` (EDIFACT, whole call — `EdifactEncoder.encode` with `edifactHandleEOD` after the repair
    7bca761): for EVERY look-ahead oracle and every symbol table, a call started right after the latch 240 either
    fails or ends in ASCII mode with exactly the characters consumed so far decoded (`a'`), in one of five states
    (`EdiPost`):
      closed   unlatch inside full codewords (two or three buffered characters + 31): invariant, whatever follows;
      tail     NO unlatch, the symbol has `k ≤ 2` codewords left and the rest of the message needs at most `k`
               codewords in ASCII (the condition the repair made exact: extended characters count twice);
      rewound  end of message, one or two characters buffered, fewer than three codewords left: nothing written for
               them, position rewound, symbol forgotten — they are re-encoded in ASCII and the symbol the encoder
               had picked for them leaves at most two codewords behind the last quadruple;
      endpad   end of message, unlatch written in `3 - j` codewords (`j ≤ 2`) and the symbol has at least `j` more;
      mid      the look-ahead left EDIFACT in mid-stream and the one-codeword unlatch 124 was written: it is read as
               unlatch iff at least two more codewords follow in the FINAL symbol.
    Only `mid` (and, through symbol re-selection, `rewound`) refers to what happens later; this is the global argument
    that keeps EDIFACT out of the composed round trip (see `dm_roundtrip_edifact_needs_symbol_gap`). -/
theorem dm_encoder_invariant_edifact (T : Tables) (syms : List SymbolInfo) (la : LookAhead) (c c' : Ctx) (a : Acc)
    (hL : LatchedM T EDIFACT 240 la c a) (hle : c.pos ≤ c.total) (hnew : c.newEnc = none)
    (h : edifactEncode syms la c = .ok c') :
    ∃ a', a'.trailer = a.trailer ∧ c.pos ≤ c'.pos ∧ c'.pos ≤ c'.total ∧ c'.newEnc = some ASCII ∧
      a'.rev.reverse = c'.msg.take c'.pos ∧ a'.pend = 0 ∧ EdiPost T syms c c' a' := by
  obtain ⟨a', h1, _, _, _, h5, h6, h7, h8, h9, h10⟩ := edifact_step_post hL hle hnew h
  exact ⟨a', h1, h5, h6, h7, h8, h9, h10⟩

/-- in a tail state the ASCII encoder (oracle staying in ASCII) uses up the free codewords: the tail shrinks -/
theorem dm_encoder_invariant_tail (T : Tables) (la : LookAhead) (c c' : Ctx) (a : Acc) (k : Nat)
    (hbytes : ∀ x ∈ c.msg, x < 256) (hT : Tail T c a k) (hm : c.hasMore = true) (hle : c.pos ≤ c.total)
    (htr : TrailerOK c) (hla : la c.msg c.pos ASCII = ASCII) (h : asciiEncode la c = .ok c') :
    ∃ a' k', Tail T c' a' k' ∧ k' < k ∧ c.pos < c'.pos := by
  obtain ⟨a', k', h1, h2, _, _, h5, _, _⟩ := ascii_step_tail hbytes hT hm hle htr hla h
  exact ⟨a', k', h1, h2, h5⟩

/-! ## round trip -/

/-
  Full statement (kept visible; NOT proved, and FALSE for an arbitrary oracle — see `dm_roundtrip_needs_x12_tail` —
  and, once EDIFACT is admitted, FALSE for some symbol tables — see `dm_roundtrip_edifact_needs_symbol_gap`):

    theorem dm_roundtrip (syms) (la : LookAhead) (msg) (cfg) (cw) (hb : ∀ x ∈ msg, x < 256) :
        encodeHL syms la msg cfg = .ok cw → decodeText refTables cw = .ok msg

  Proved:
    * `dm_roundtrip_five_modes_partial` / `…_on_partial`: every encoding that uses ASCII, C40, Text, X12 and Base-256
      encodation in any combination, every symbol table, every hint configuration, for every look-ahead ORACLE with
        `LaNoEdifactOn la msg`  along this message it never proposes EDIFACT from ASCII,
        `LaTailAscii`           with one character left it stays in ASCII,
        `LaX12Tail`             it neither keeps nor enters X12 for a last triplet followed by one extended character.
    * `la_tail_ascii`, `la_x12_tail`: the last two are THEOREMS for the real look-ahead — exact arithmetic in units
      of 1/12 under EVERY float rounding (`laExactR ρ`; the harness ties `HighLevelEncoder_lookAheadTest` to it
      decision by decision) — hence `dm_roundtrip_real_lookahead_partial` (only `LaNoEdifactOn` left) and
      `dm_roundtrip_no_edifact_window` (no oracle hypothesis at all for messages without four consecutive
      EDIFACT-native characters).
    * `dm_encoder_invariant_edifact`: the EDIFACT encoder as a whole call incl. every branch of `edifactHandleEOD`,
      for every oracle and table: five end states.
  Missing for dropping `LaNoEdifactOn`: the COMPOSITION of the EDIFACT end states with the rest of the run.
    - `mid` (one-codeword unlatch 124 written in mid-stream) is decoded as unlatch only if at least two codewords
      follow in the FINAL symbol.  That needs (a) the other four encoders' invariants re-proved from "decoder is in
      ASCII state for continuations of length ≥ 2" instead of "for every continuation", and (b) an invariant about
      symbol re-selection (`ResetSymbolInfo` in the C40 backtracking / EDIFACT rewind): the final symbol is never
      smaller than what the EDIFACT call assumed, plus a table condition — consecutive admissible capacities differ
      by at least 2 (`dm_roundtrip_edifact_needs_symbol_gap` shows it is necessary; ISO/IEC 16022 satisfies it).
    - `tail` / `rewound` leave up to TWO characters to the ASCII encoder: `LaTailAscii` must cover two remaining
      characters (`dm_roundtrip_edifact_needs_tail2`), and `rewound` needs ascending capacities.
  EDIFACT is covered end to end by exact-codeword correspondence and by the oracle on the real code.
-/

/-- `dm_roundtrip`, five encoders (ASCII, C40, Text, X12, Base 256): for every symbol table, every hint
    configuration, every message of bytes and every look-ahead oracle with the three stated properties, the
    codewords `encodeHL` returns (padding included) decode to exactly the message. -/
theorem dm_roundtrip_five_modes_partial (syms : List SymbolInfo) (la : LookAhead) (msg : List Nat) (cfg : Cfg)
    (cw : List Nat) (hNoE : LaNoEdifact la)
    (hTA : LaTailAscii la msg (initCtx msg cfg).total) (hXT : LaX12Tail la msg (initCtx msg cfg).total)
    (hb : ∀ x ∈ msg, x < 256) (h : encodeHL syms la msg cfg = .ok cw) :
    decodeText refTables cw = .ok msg :=
  roundtrip_gen syms la msg cfg cw hNoE hTA hXT hb h

/-- the same with the EDIFACT condition for THIS message only: along the message the oracle never proposes
    EDIFACT from ASCII (`LaNoEdifactOn`); strictly weaker than `LaNoEdifact` -/
theorem dm_roundtrip_five_modes_on_partial (syms : List SymbolInfo) (la : LookAhead) (msg : List Nat) (cfg : Cfg)
    (cw : List Nat) (hNoE : LaNoEdifactOn la msg)
    (hTA : LaTailAscii la msg (initCtx msg cfg).total) (hXT : LaX12Tail la msg (initCtx msg cfg).total)
    (hb : ∀ x ∈ msg, x < 256) (h : encodeHL syms la msg cfg = .ok cw) :
    decodeText refTables cw = .ok msg :=
  roundtrip_gen_on syms la msg cfg cw hNoE hTA hXT hb h

/-! ### the real look-ahead: exact arithmetic up to float rounding

  `laExactR ρ` (Model/DMHighLevel.lean Part 5) is `HighLevelEncoder_lookAheadTest` computed with exact counts in
  units of 1/12, where `ρ` says at which steps the float64 sum of thirds of the C40 / Text / X12 count came out
  above an integer (so that `math.Ceil` is one higher).  `LaFloatLike la`: every decision of `la` is the decision
  of `laExactR ρ` for some `ρ`.  The harness establishes this for the real function decision by decision (suite
  dm-la, op `laxr`: it recomputes the float64 sums next to the exact ones, checks that they differ only in that
  way, and compares the real decision with `laExactR` under the observed `ρ`); plain exact arithmetic
  (`laExact = laExactR noBump`) decides differently in ≈ 0.16 % of the sampled calls. -/

/-- `LaTailAscii` is a THEOREM for the exact look-ahead under every float rounding: with one character left
    (followed by the macro trailer RS EOT, if the message is a macro 05/06 message) it answers ASCII from ASCII -/
theorem la_tail_ascii (ρ : Bump) (msg : List Nat) (cfg : Cfg) :
    LaTailAscii (laExactR ρ) msg (initCtx msg cfg).total :=
  laExactR_tail_ascii ρ msg _ (totOK_initCtx msg cfg)

/-- `LaX12Tail` is a THEOREM for the exact look-ahead under every float rounding: for three characters followed by
    one extended character at the end of the message (plus macro trailer) it answers X12 neither from X12 nor from
    ASCII — wherever steps R / K look, the ASCII count is strictly below the X12 count -/
theorem la_x12_tail (ρ : Bump) (msg : List Nat) (cfg : Cfg) :
    LaX12Tail (laExactR ρ) msg (initCtx msg cfg).total :=
  laExactR_x12_tail ρ msg _ (totOK_initCtx msg cfg)

/-- the condition an EDIFACT segment without unlatch needs (`dm_roundtrip_edifact_needs_tail2`) also holds for the
    exact look-ahead under every float rounding: with two non-extended characters left (plus macro trailer) it
    answers ASCII from ASCII -/
theorem la_tail2_ascii (ρ : Bump) (msg : List Nat) (cfg : Cfg) :
    LaTail2Ascii (laExactR ρ) msg (initCtx msg cfg).total :=
  laExactR_tail2_ascii ρ msg _ (totOK_initCtx msg cfg)

/-- `dm_roundtrip` for every look-ahead that is exact arithmetic up to float rounding (`LaFloatLike`, in particular
    `laExact` and every `laExactR ρ`): the two end-of-message conditions are discharged; what remains is
    `LaNoEdifactOn la msg` — along this message the look-ahead never proposes EDIFACT from ASCII (e.g. the message
    has no four consecutive EDIFACT-native characters: `la_no_edifact_of_no_quad`). -/
theorem dm_roundtrip_real_lookahead_partial (syms : List SymbolInfo) (la : LookAhead) (hla : LaFloatLike la)
    (msg : List Nat) (cfg : Cfg) (cw : List Nat) (hNoE : LaNoEdifactOn la msg)
    (hb : ∀ x ∈ msg, x < 256) (h : encodeHL syms la msg cfg = .ok cw) :
    decodeText refTables cw = .ok msg := by
  obtain ⟨hTA, hXT⟩ := floatLike_tail_conditions la hla msg _ (totOK_initCtx msg cfg)
  exact roundtrip_gen_on syms la msg cfg cw hNoE hTA hXT hb h

/-- a sufficient condition for `LaNoEdifactOn`: if every window of four consecutive characters of the message
    contains a character EDIFACT cannot encode, the exact look-ahead never proposes EDIFACT (its whole-group guard
    answers ASCII when four characters follow; with at most three EDIFACT-native characters left before the end
    the ASCII count is minimal), whatever the float rounding -/
theorem la_no_edifact_of_no_quad (la : LookAhead) (hla : LaFloatLike la) (msg : List Nat)
    (H : ∀ p, p + 4 ≤ msg.length → ((msg.drop p).take 4).all isNativeEDIFACT = false) :
    LaNoEdifactOn la msg := by
  intro p
  obtain ⟨ρ, hρ⟩ := hla msg p ASCII
  rw [hρ]
  exact laExactR_no_edifact ρ msg H p

/-- `dm_roundtrip` WITHOUT any oracle hypothesis for messages that have no four consecutive EDIFACT-native
    characters (0x20..0x5E), every symbol table and hint configuration: for every look-ahead that is exact
    arithmetic up to float rounding, what `encodeHL` returns decodes to exactly the message. -/
theorem dm_roundtrip_no_edifact_window (syms : List SymbolInfo) (la : LookAhead) (hla : LaFloatLike la)
    (msg : List Nat) (cfg : Cfg) (cw : List Nat)
    (H : ∀ p, p + 4 ≤ msg.length → ((msg.drop p).take 4).all isNativeEDIFACT = false)
    (hb : ∀ x ∈ msg, x < 256) (h : encodeHL syms la msg cfg = .ok cw) :
    decodeText refTables cw = .ok msg :=
  dm_roundtrip_real_lookahead_partial syms la hla msg cfg cw (la_no_edifact_of_no_quad la hla msg H) hb h

example : LaFloatLike laExact := fun _ _ _ => ⟨noBump, rfl⟩
example (ρ : Bump) : LaFloatLike (laExactR ρ) := fun _ _ _ => ⟨ρ, rfl⟩
/-- table used by the examples: symbols of 4, 8 and 1558 data codewords -/
def exSyms : List SymbolInfo := [⟨false, 4, 5, 8, 8, 1⟩, ⟨false, 8, 7, 10, 10, 1⟩, ⟨false, 1558, 620, 22, 22, 36⟩]

/-- non-vacuity for the exact look-ahead: "abcdefghi" is latched to Text at once (three triplets, unlatch fills the
    8-codeword symbol), "ABCDEFGHIJ" to C40 (three triplets, last character in ASCII without unlatch: tail state) -/
example : encodeHL exSyms laExact [97, 98, 99, 100, 101, 102, 103, 104, 105] {} =
    .ok [239, 89, 233, 109, 36, 128, 95, 254] := by decide +kernel
example : encodeHL exSyms laExact [65, 66, 67, 68, 69, 70, 71, 72, 73, 74] {} =
    .ok [230, 89, 233, 109, 36, 128, 95, 75] := by decide +kernel
example : decodeText refTables [230, 89, 233, 109, 36, 128, 95, 75] = .ok [65, 66, 67, 68, 69, 70, 71, 72, 73, 74] := by
  decide +kernel
/-- non-vacuity: an oracle that latches C40 at the start ("ABCDEFG": two triplets, unlatch, 'G' in ASCII) -/
example : encodeHL exSyms (fun _ pos mode => if mode = ASCII then (if pos = 0 then C40 else ASCII) else mode)
    [65, 66, 67, 68, 69, 70, 71] {} = .ok [230, 89, 233, 109, 36, 254, 72, 129] := by decide
example : decodeText refTables [230, 89, 233, 109, 36, 254, 72, 129] = .ok [65, 66, 67, 68, 69, 70, 71] := by decide
/-- ... and one that latches X12: two triplets fill all but two codewords, unlatch, rest in ASCII -/
example : encodeHL exSyms (fun _ pos mode => if mode = ASCII then (if pos = 0 then X12 else ASCII) else mode)
    [65, 42, 67, 13, 69, 70, 71, 72] {} = .ok [238, 87, 185, 2, 228, 254, 72, 73] := by decide
example : decodeText refTables [238, 87, 185, 2, 228, 254, 72, 73] = .ok [65, 42, 67, 13, 69, 70, 71, 72] := by decide

/-- the X12 end-of-message condition is necessary: this oracle enters X12 for "***" followed by 'é' and leaves
    it right before 'é' with one codeword free; `x12HandleEOD` writes no unlatch, 'é' takes two codewords, the
    symbol grows and the decoder reads on in X12 — the codewords decode to other text. -/
theorem dm_roundtrip_needs_x12_tail :
    ∃ (la : LookAhead) (cw : List Nat), encodeHL exSyms la [42, 42, 42, 233] {} = .ok cw ∧
      decodeText refTables cw ≠ .ok [42, 42, 42, 233] :=
  ⟨fun _ pos mode => if mode = ASCII then (if pos = 0 then X12 else ASCII)
      else if mode = X12 then (if pos = 3 then ASCII else X12) else ASCII,
   [238, 6, 106, 235, 106, 129, 161, 56], by decide, by decide⟩

/-- an oracle that enters EDIFACT at the start and leaves it after the first quadruple -/
def laEdifactOnce : LookAhead := fun _ pos mode =>
  if mode = ASCII then (if pos = 0 then EDIFACT else ASCII)
  else if mode = EDIFACT then (if pos = 4 then ASCII else EDIFACT) else mode

/-- WITH EDIFACT THE ROUND TRIP IS FALSE FOR SOME SYMBOL TABLES: two admissible symbols whose capacities differ by
    one (5 and 6 codewords; ISO/IEC 16022 has no such pair).  "ABCD12": one quadruple, the oracle leaves EDIFACT, one
    codeword is free but "12" is counted as two → unlatch 124 written → the digit pair makes the symbol grow to 6
    codewords, exactly ONE behind the unlatch → the decoder reads 124 as '{'.  So any theorem that admits EDIFACT
    needs a hypothesis on the symbol table (consecutive capacities differ by at least 2, and — for `rewound` —
    capacities ascend) in addition to oracle conditions. -/
theorem dm_roundtrip_edifact_needs_symbol_gap :
    ∃ (syms : List SymbolInfo) (cw : List Nat), encodeHL syms laEdifactOnce [65, 66, 67, 68, 49, 50] {} = .ok cw ∧
      decodeText refTables cw ≠ .ok [65, 66, 67, 68, 49, 50] :=
  ⟨[⟨false, 5, 7, 10, 10, 1⟩, ⟨false, 6, 7, 10, 10, 1⟩, ⟨false, 1558, 620, 22, 22, 36⟩],
   [240, 4, 32, 196, 124, 142], by decide, by decide⟩

/-- the same message and oracle with capacities 5, 8 (as in ISO/IEC 16022): two codewords follow, it decodes -/
example : encodeHL [⟨false, 5, 7, 10, 10, 1⟩, ⟨false, 8, 10, 12, 12, 1⟩] laEdifactOnce [65, 66, 67, 68, 49, 50] {} =
    .ok [240, 4, 32, 196, 124, 142, 129, 56] := by decide

/-- after an EDIFACT segment that ends WITHOUT unlatch, up to TWO characters are left to the ASCII encoder: an
    oracle that latches C40 there (allowed by `LaTailAscii`, which only speaks about ONE remaining character) breaks
    the round trip — "ABCDab" in a 6-codeword symbol.  With EDIFACT, `LaTailAscii` has to cover two remaining
    characters. -/
theorem dm_roundtrip_edifact_needs_tail2 :
    ∃ (la : LookAhead) (cw : List Nat), LaTailAscii la [65, 66, 67, 68, 97, 98] 6 ∧
      encodeHL [⟨false, 6, 7, 10, 10, 1⟩, ⟨false, 12, 12, 14, 14, 1⟩] la [65, 66, 67, 68, 97, 98] {} = .ok cw ∧
      decodeText refTables cw ≠ .ok [65, 66, 67, 68, 97, 98] :=
  ⟨fun _ pos mode => if mode = ASCII then (if pos = 0 then EDIFACT else if pos = 4 then C40 else ASCII)
      else if mode = EDIFACT then (if pos = 4 then ASCII else EDIFACT) else mode,
   [240, 4, 32, 196, 230, 12, 169, 254, 99, 129, 251, 147],
   by intro p hp; have : p = 5 := by omega
      subst this; decide,
   by decide, by decide⟩

/-- `dm_roundtrip`, ASCII + Base-256 part. -/
theorem dm_roundtrip_ascii_base256_partial (T : Tables) (syms : List SymbolInfo) (la : LookAhead)
    (hla : LaAB la) (msg : List Nat) (cfg : Cfg) (cw : List Nat)
    (hb : ∀ x ∈ msg, x < 256) (h : encodeHL syms la msg cfg = .ok cw) :
    decodeText T cw = .ok msg :=
  roundtrip_ab T syms la hla msg cfg cw hb h

/-- the ASCII-only special case: a look-ahead oracle that never leaves ASCII -/
theorem dm_roundtrip_ascii_partial (T : Tables) (syms : List SymbolInfo) (la : LookAhead)
    (hla : ∀ m p, la m p ASCII = ASCII) (msg : List Nat) (cfg : Cfg) (cw : List Nat)
    (hb : ∀ x ∈ msg, x < 256) (h : encodeHL syms la msg cfg = .ok cw) :
    decodeText T cw = .ok msg :=
  roundtrip_ascii T syms la hla msg cfg cw hb h

/-! ## whole symbol: composition with the low-level models of C08 -/

/-- `dm_symbol_roundtrip_partial`: text → `encodeHL` → reference symbol of C08 (reference ECC, interleaving,
    Annex-F placement, finder/clock framing; any of the 30 ECC-200 sizes whose capacity equals the number of
    codewords, 144x144 with its 8+2 unequal blocks included) → `Decoder.Decode` model: version by dimensions,
    data-region extraction, codeword reading, de-interleaving, Reed-Solomon decoding of every block (C04 model
    decoder over GF(256)/0x12D), de-interlacing copy, `decodeText` — returns exactly the text.
    The Reed-Solomon step is a THEOREM: every reference block `data_b ++ ecc_b` has zero syndromes
    (C08 `blocks_are_rs_codewords` / `eccBlock_zero_syndromes`), so C04's `rs_decode_clean` returns it unchanged.
    `_partial` only because of the hypotheses on the look-ahead ORACLE inherited from
    `dm_roundtrip_five_modes_partial`: `LaNoEdifact`, `LaTailAscii`, `LaX12Tail`. -/
theorem dm_symbol_roundtrip_partial (syms : List SymbolInfo) (la : LookAhead) (msg : List Nat) (cfg : Cfg)
    (cw : List Nat) (hNoE : LaNoEdifact la)
    (hTA : LaTailAscii la msg (initCtx msg cfg).total) (hXT : LaX12Tail la msg (initCtx msg cfg).total)
    (hb : ∀ x ∈ msg, x < 256) (h : encodeHL syms la msg cfg = .ok cw)
    (p : DMRef.Sym × Nat) (hp : p ∈ DMRef.table7.zipIdx) (hn : cw.length = p.1.nData) :
    (∃ v grid raw blocks,
      DMDec.newBitMatrixParser DMDec.versions ⟨p.1.cols, p.1.rows, (DMRef.symbolBits p.1 cw).flatten.toArray⟩
        = .ok (v, grid) ∧
      DMDec.readCodewords v grid = .ok raw ∧
      DMDec.getDataBlocks raw v = .ok blocks ∧
      (∀ nb ∈ blocks, RS.decode GF.dataMatrix256 nb.2 p.1.blkErr = .ok nb.2) ∧
      DMDec.resultBytes blocks = .ok cw ∧
      decodeText refTables cw = .ok msg) ∧
    DMDec.decodeMatrix refTables ⟨p.1.cols, p.1.rows, (DMRef.symbolBits p.1 cw).flatten.toArray⟩ = .ok msg := by
  have hcwb := encodeHL_bytes syms la msg cfg cw hNoE hTA hXT hb h
  have hrt := roundtrip_gen syms la msg cfg cw hNoE hTA hXT hb h
  have hs := Gzx.Properties.C08.zipIdx_mem_table7 p hp
  have hchain := Gzx.Properties.C08.decoder_inverts_reference_symbol p hp cw hn hcwb
  simp only at hchain
  obtain ⟨h1, h2, h3, h4⟩ := hchain
  constructor
  · refine ⟨_, _, _, _, h1, h2, h3, ?_, h4, hrt⟩
    intro nb hnb
    simp only [List.mem_map] at hnb
    obtain ⟨b, hbm, rfl⟩ := hnb
    exact DMProofs.block_clean p.1 hs cw hn hcwb b (List.mem_range.1 hbm)
  · unfold DMDec.decodeMatrix
    have := DMProofs.decodeMatrixBytes_tolerates p hp cw hn hcwb (DMRef.codewords p.1 cw)
      (DMProofs.codewords_length p.1 cw hn) (DMProofs.codewords_bytes p.1 cw hcwb)
      (fun b _ => by rw [DMProofs.hamming_self]; omega)
    unfold DMRef.symbolBits
    rw [this]
    exact hrt

/-- the Reed-Solomon step in isolation, for every row of Table 7, every byte vector of the symbol's capacity
    and every block: C04's decoder model returns the reference block unchanged (was hypothesis `hRS`) -/
theorem dm_reference_blocks_decode_clean (s : DMRef.Sym) (hs : s ∈ DMRef.table7) (d : List Nat)
    (hd : d.length = s.nData) (hb : ∀ x ∈ d, x < 256) (b : Nat) (hbB : b < s.blocks) :
    RS.decode GF.dataMatrix256 (DMRef.blockData s d b ++ DMRef.blockEcc s d b) s.blkErr
      = .ok (DMRef.blockData s d b ++ DMRef.blockEcc s d b) :=
  DMProofs.block_clean s hs d hd hb b hbB

/-- non-vacuity: for "A12" = [66, 142, 129] in the 10x10 symbol the reference block is
    [66, 142, 129, 170, 115, 225, 118, 63] and the Reed-Solomon decoder model returns it unchanged -/
example : RS.decode GF.dataMatrix256 [66, 142, 129, 170, 115, 225, 118, 63] 5
    = .ok [66, 142, 129, 170, 115, 225, 118, 63] := by decide +kernel
example : DMRef.blockData (DMRef.table7.getD 0 default) [66, 142, 129] 0 ++
    DMRef.blockEcc (DMRef.table7.getD 0 default) [66, 142, 129] 0 = [66, 142, 129, 170, 115, 225, 118, 63] := by
  decide +kernel
/-- the oracle hypotheses are satisfiable together with the symbol hypotheses: the all-ASCII oracle, "A12",
    the one-row table {10x10: 3 data codewords} -/
example : LaNoEdifact (fun _ _ _ => ASCII) ∧ LaTailAscii (fun _ _ _ => ASCII) [65, 49, 50] 3 ∧
    LaX12Tail (fun _ _ _ => ASCII) [65, 49, 50] 3 :=
by
  refine ⟨?_, ?_, ?_⟩
  · intro m p; show (ASCII : Nat) ≠ EDIFACT; decide
  · intro p _; rfl
  · intro p ch _ _ _; exact ⟨by show (ASCII : Nat) ≠ X12; decide, by show (ASCII : Nat) ≠ X12; decide⟩

/-! ## termination -/

/-
  Full statement (FALSE for an arbitrary oracle, see `dm_terminates_fails_for_some_oracle`; NOT proved for the real
  look-ahead; for the real code termination is watchdog-backed, plus an exhaustive sweep of all strings of length
  ≤ 5 / ≤ 6 over one representative per character class — harness `dm-term`, 433 160 strings in the quick tier, no
  hang):

    theorem dm_terminates (syms) (ρ) (msg) (cfg) : encodeHL syms (laExactR ρ) msg cfg ≠ .error .fuel

  Progress per encoder call (all proved above / in Proofs):
    ASCII data step            position strictly increases            (`dm_encoder_invariant_ascii`)
    ASCII latch                position unchanged, mode switches once (`ascii_latch_gen`)
    Base 256                   position strictly increases            (`dm_encoder_invariant_base256`)
    X12                        position never decreases; +3 per complete triplet, +0 if fewer than three
                               characters could be taken              (`dm_encoder_invariant_x12`)
    C40 / Text                 position never decreases; +0 if the end-of-message backtracking removes every
                               character it had taken                 (`dm_encoder_invariant_c40`)
    EDIFACT                    position never decreases; +4 per quadruple, +0 if at most two characters were
                               buffered at the end of the message and rewound (`dm_encoder_invariant_edifact`)
  Hence the ONLY loop that has to be excluded is: ASCII latch to m ∈ {C40, Text, X12, EDIFACT} at position p, the
  call of encoder m consumes nothing, back in ASCII at p the look-ahead answers m again.  What is missing, exactly:
    X12      consumes nothing iff fewer than three characters remain; `laExactR` answers X12 from ASCII only if
             the next three characters exist and are X12-native (guard + `asciiTailOK`-style check) — not assembled.
    EDIFACT  consumes nothing iff at most two characters remain (rewound); with at most three EDIFACT-native
             characters left `laExactR` answers ASCII (`ediTail_checked`) — not assembled.
    C40/Text consumes nothing iff EVERY character up to the end of the message is backtracked, i.e. the value
             counts are (1 or 4), 3, 3, …, 3 [, 1 or 4]; the characters with three values are extended ones, each costs
             the ASCII count 2 and the C40/Text count 8/3, so `laExactR` never prefers C40/Text there (with four or
             more such characters step R answers Base 256, with fewer step K answers ASCII or Base 256).  The
             characterisation of "consumes nothing" needs a refinement of `c40_step_post` (the backtracking loop's
             exit condition on the value-count residues) that is not proved.
  No message on which the loop occurs is known: none in the exhaustive sweep, none in any generated case.
-/

/-- an oracle that always answers "C40" from ASCII: for the message "é" the C40 encoder takes 'é' (four
    values), backtracks it, writes latch + unlatch, and the dispatch loop never advances: out of fuel. -/
theorem dm_terminates_fails_for_some_oracle :
    ∃ la : LookAhead, encodeHL exSyms la [233] {} = .error .fuel :=
  ⟨fun _ _ mode => if mode = ASCII then C40 else mode, by decide⟩


/-- `dm_terminates`, ASCII + Base-256 part: for every oracle proposing only these two modes the dispatch loop
    finishes within its fuel `4·|msg| + 8` and nothing panics: the result is a codeword list or a
    WriterException (no admissible symbol is large enough / a Base-256 run longer than 1555). -/
theorem dm_terminates_ascii_base256_partial (syms : List SymbolInfo) (la : LookAhead) (hla : LaAB la)
    (msg : List Nat) (cfg : Cfg) :
    encodeHL syms la msg cfg = .error .writer ∨ ∃ cw, encodeHL syms la msg cfg = .ok cw :=
  encode_total_ab syms la hla msg cfg

/-- non-vacuity of the error branch: nothing fits a table whose only symbol holds 3 codewords -/
example : encodeHL [⟨false, 3, 5, 8, 8, 1⟩] (fun _ _ _ => ASCII) [65, 66, 67, 68] {} = .error .writer := by decide

/-- non-vacuity: with the one-row table {10x10: 3 data codewords} "A12" encodes to [66, 142, 129] -/
example : encodeHL [⟨false, 3, 5, 8, 8, 1⟩] (fun _ _ _ => ASCII) [65, 49, 50] {} = .ok [66, 142, 129] := by
  decide
example : decodeText refTables [66, 142, 129] = .ok [65, 49, 50] := by decide
/-- a macro-05 message: header and trailer are represented by the single codeword 236 -/
example : encodeHL [⟨false, 5, 7, 10, 10, 1⟩] (fun _ _ _ => ASCII) [91, 41, 62, 30, 48, 53, 29, 65, 30, 4] {}
    = .ok [236, 66, 129, 220, 115] := by decide
example : decodeText refTables [236, 66, 129, 220, 115] = .ok [91, 41, 62, 30, 48, 53, 29, 65, 30, 4] := by decide
/-- an oracle that sends everything to Base 256: "\x80\x81\x82" fills a 5-codeword symbol exactly
    (latch, length 0, three data bytes) — the D5 witness — and decodes -/
example : LaAB (fun _ _ _ => BASE256) := fun _ _ _ => Or.inr rfl
example : encodeHL [⟨false, 5, 7, 10, 10, 1⟩] (fun _ _ _ => BASE256) [128, 129, 130] {}
    = .ok [231, 44, 65, 216, 110] := by decide
example : decodeText refTables [231, 44, 65, 216, 110] = .ok [128, 129, 130] := by decide

end Gzx.Properties.C02
