/-
  C02 — Data Matrix, `dm_fits_encodes` (wp dmenc, item c): the part with a closed form.
  Full statement (NOT proved; on the real code it is the `fits` clause of the C02 oracle):

    dm_fits_encodes : if the encoder's own un-hinted encoding of the message has at most as many codewords as the
                      largest symbol the hints admit, `encodeHL` with the hints returns codewords.

  Missing for it: the encoding depends on the hints (the end-of-data rules of C40/Text, X12, EDIFACT and Base 256 look
  at the free space of the current symbol), so "same length with and without hints" is itself a whole-run invariant;
  and a closed form of the un-hinted length exists only where the look-ahead's choice is known.  Proved here:
    * `dm_fits_encodes_ascii_partial`: for a message without macro envelope on which the look-ahead keeps ASCII
      encodation, `encodeHL` returns the ASCII encodation `asciiCws msg` (digit pairs, upper shift) padded to the first
      admissible symbol that holds it, and a WriterException exactly when there is none — every table, every hint;
    * `dm_fits_encodes_digits`: for ALL-DIGIT messages this applies to every float-like look-ahead (the real one):
      the message is encoded iff an admissible symbol holds `⌈n/2⌉` codewords (the "digit-body rule" of the oracle).
-/
import Gzx.Proofs.DMFits
import Gzx.Properties.C02Term
namespace Gzx.Properties.C02
open Gzx Gzx.DMHighLevel

theorem dm_fits_encodes_ascii_partial (syms : List SymbolInfo) (la : LookAhead) (msg : List Nat) (cfg : Cfg)
    (hplain : initCtx msg cfg = { msg := msg, cfg := cfg })
    (hla : ∀ p, p < msg.length → ¬ digitRun (msg.drop p) ≥ 2 → la msg p ASCII = ASCII) :
    (∀ s, lookup syms cfg (asciiCws msg).length = some s →
      encodeHL syms la msg cfg = .ok (asciiCws msg ++ padding (asciiCws msg).length s.cap)) ∧
    (lookup syms cfg (asciiCws msg).length = none → encodeHL syms la msg cfg = .error .writer) ∧
    ((∃ s ∈ syms, admissible cfg s = true ∧ (asciiCws msg).length ≤ s.cap) → ∃ cw, encodeHL syms la msg cfg = .ok cw) := by
  have h := encodeHL_ascii syms la msg cfg hplain hla
  refine ⟨fun s hs => by rw [h, hs], fun hn => by rw [h, hn], ?_⟩
  rintro ⟨s, hmem, hadm, hcap⟩
  cases hl : lookup syms cfg (asciiCws msg).length with
  | some s' => exact ⟨_, by rw [h, hl]⟩
  | none =>
    exfalso
    unfold lookup at hl
    have := List.find?_eq_none.mp hl s hmem
    simp [hadm, hcap] at this

/-- all-digit messages, the real look-ahead: encoded iff an admissible symbol holds `⌈n/2⌉` codewords -/
theorem dm_fits_encodes_digits (syms : List SymbolInfo) (la : LookAhead) (hla : LaFloatLike la) (msg : List Nat)
    (cfg : Cfg) (hne : msg ≠ []) (hd : ∀ x ∈ msg, isDigit x = true) :
    ((∃ s ∈ syms, admissible cfg s = true ∧ (msg.length + 1) / 2 ≤ s.cap) → ∃ cw, encodeHL syms la msg cfg = .ok cw) ∧
    ((∀ s ∈ syms, admissible cfg s = true → ¬ (msg.length + 1) / 2 ≤ s.cap) → encodeHL syms la msg cfg = .error .writer) := by
  obtain ⟨d, r, hm⟩ : ∃ d r, msg = d :: r := by
    cases msg with
    | nil => exact absurd rfl hne
    | cons d r => exact ⟨d, r, rfl⟩
  have hplain := initCtx_plain_of_digit msg cfg d r hm (hd d (by rw [hm]; simp))
  have hlen := asciiCws_digits_length msg.length msg (Nat.le_refl _) hd
  obtain ⟨_, h2, h3⟩ := dm_fits_encodes_ascii_partial syms la msg cfg hplain (digits_la hla msg hd)
  rw [hlen] at h2 h3
  refine ⟨h3, fun hall => h2 ?_⟩
  unfold lookup
  rw [List.find?_eq_none]
  intro s hs
  have := hall s hs
  cases hadm : admissible cfg s with
  | false => simp
  | true => simp [this hadm]

/-- non-vacuity: "12345" needs three codewords: the 3-codeword symbol takes it, a table starting at 2 does not exist
    here — with only a 2-codeword symbol it is refused -/
example : encodeHL termSyms laExact [49, 50, 51, 52, 53] {} = .ok [142, 164, 54] := by decide +kernel
example : encodeHL [⟨false, 2, 5, 8, 8, 1⟩] laExact [49, 50, 51, 52, 53] {} = .error .writer := by decide +kernel
example : asciiCws [49, 50, 51, 52, 53] = [142, 164, 54] := by decide
example : asciiCws [65, 233, 49, 50] = [66, 235, 106, 142] := by decide

end Gzx.Properties.C02
