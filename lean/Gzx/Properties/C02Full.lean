/-
  C02 — Data Matrix, `dm_roundtrip` with ALL six encodation modes under the REAL look-ahead (wp dmenc, item b).
  Property theorems only; proofs in Gzx/Proofs/DMSwap, DMEdiCall, DMSymB, DMFullAux, DMFullMid, DMFullRun,
  DMFullDispatch, DMFullRoundTrip.

  Hypotheses, all of them necessary or about the trusted link to float64:
    * `LaFloatLike la` — the look-ahead is exact arithmetic up to float rounding (C02 `laxr` correspondence);
    * `tableOK syms`   — capacities ascend along the symbol table and two different capacities differ by at least two
                         codewords (necessary: `dm_roundtrip_edifact_needs_symbol_gap`; a per-run obligation for the
                         library's table: `Obligations.C02Full.gen_symbols_tableOK`);
    * the message is a list of bytes.
  No hypothesis excludes EDIFACT any more (`LaNoEdifactOn` is gone).
-/
import Gzx.Proofs.DMFullRoundTrip
import Gzx.Properties.C02Term
namespace Gzx.Properties.C02
open Gzx Gzx.DMHighLevel

/-- `dm_roundtrip` in full: every encoding `encodeHL` returns — ASCII, C40, Text, X12, EDIFACT and Base 256 in any
    combination, macro 05/06 header, padding, every shape / min / max hint — decodes to exactly the message. -/
theorem dm_roundtrip_real_lookahead (syms : List SymbolInfo) (htab : tableOK syms = true) (la : LookAhead)
    (hla : LaFloatLike la) (msg : List Nat) (cfg : Cfg) (cw : List Nat) (hb : ∀ x ∈ msg, x < 256)
    (h : encodeHL syms la msg cfg = .ok cw) : decodeText refTables cw = .ok msg :=
  roundtrip_full syms htab la hla msg cfg cw hb h

/-- termination and round trip together: `EncodeHighLevel` refuses with a WriterException or returns codewords (all
    bytes) that decode to exactly the message -/
theorem dm_encode_total_and_correct (syms : List SymbolInfo) (htab : tableOK syms = true) (la : LookAhead)
    (hla : LaFloatLike la) (msg : List Nat) (cfg : Cfg) (hb : ∀ x ∈ msg, x < 256) :
    encodeHL syms la msg cfg = .error .writer ∨
    ∃ cw, encodeHL syms la msg cfg = .ok cw ∧ (∀ x ∈ cw, x < 256) ∧ decodeText refTables cw = .ok msg := by
  rcases encodeHL_total syms la hla msg cfg hb with ⟨cw, h⟩ | h
  · exact Or.inr ⟨cw, h, encodeHL_bytes_all syms la msg cfg cw hb h, roundtrip_full syms htab la hla msg cfg cw hb h⟩
  · exact Or.inl h

/-- `dm_symbol_roundtrip`, the whole symbol, WITHOUT oracle hypotheses: text → `encodeHL` → reference symbol of C08
    (ECC, interleaving, Annex-F placement, finder / clock framing; any of the 30 sizes whose capacity equals the
    number of codewords) → `Decoder.Decode` model (version by dimensions, data-region extraction, codeword reading,
    de-interleaving, Reed-Solomon decoding of every block, `decodeText`) returns exactly the text. -/
theorem dm_symbol_roundtrip (syms : List SymbolInfo) (htab : tableOK syms = true) (la : LookAhead)
    (hla : LaFloatLike la) (msg : List Nat) (cfg : Cfg) (cw : List Nat) (hb : ∀ x ∈ msg, x < 256)
    (h : encodeHL syms la msg cfg = .ok cw)
    (p : DMRef.Sym × Nat) (hp : p ∈ DMRef.table7.zipIdx) (hn : cw.length = p.1.nData) :
    DMDec.decodeMatrix refTables ⟨p.1.cols, p.1.rows, (DMRef.symbolBits p.1 cw).flatten.toArray⟩ = .ok msg := by
  have hcwb := encodeHL_bytes_all syms la msg cfg cw hb h
  have hrt := roundtrip_full syms htab la hla msg cfg cw hb h
  unfold DMDec.decodeMatrix
  have := DMProofs.decodeMatrixBytes_tolerates p hp cw hn hcwb (DMRef.codewords p.1 cw)
    (DMProofs.codewords_length p.1 cw hn) (DMProofs.codewords_bytes p.1 cw hcwb)
    (fun b _ => by rw [DMProofs.hamming_self]; omega)
  unfold DMRef.symbolBits
  rw [this]
  exact hrt

/-- the table of the examples satisfies the table condition … -/
example : tableOK termSyms = true := by decide
/-- … and so does the table of the other C02 examples; for the library's own table this is the per-run obligation
    `Obligations.C02Full.gen_symbols_tableOK` -/
example : tableOK exSyms = true := by decide

/-- non-vacuity: messages that DO go through EDIFACT under the exact look-ahead.  "@@@@@@@@12": two quadruples, the
    look-ahead leaves EDIFACT, the one-codeword unlatch 124 is written in mid-stream (the `mid` state: two more
    codewords follow — the digit pair and a pad codeword) -/
example : encodeHL termSyms laExact [64, 64, 64, 64, 64, 64, 64, 64, 49, 50] {} =
    .ok [240, 0, 0, 0, 0, 0, 0, 124, 142, 129, 251, 147] := by decide +kernel
example : decodeText refTables [240, 0, 0, 0, 0, 0, 0, 124, 142, 129, 251, 147] =
    .ok [64, 64, 64, 64, 64, 64, 64, 64, 49, 50] := by decide +kernel
/-- "@@@@@@@@@@": two quadruples, then two characters + unlatch in three codewords at the end of the message -/
example : encodeHL termSyms laExact [64, 64, 64, 64, 64, 64, 64, 64, 64, 64] {} =
    .ok [240, 0, 0, 0, 0, 0, 0, 0, 7, 192, 129, 147] := by decide +kernel
example : decodeText refTables [240, 0, 0, 0, 0, 0, 0, 0, 7, 192, 129, 147] =
    .ok [64, 64, 64, 64, 64, 64, 64, 64, 64, 64] := by decide +kernel
/-- the table condition is needed (the counterexample table of `dm_roundtrip_edifact_needs_symbol_gap` violates it) -/
example : tableOK [⟨false, 5, 7, 10, 10, 1⟩, ⟨false, 6, 7, 10, 10, 1⟩, ⟨false, 1558, 620, 22, 22, 36⟩] = false := by
  decide

end Gzx.Properties.C02
