/-
  C02 — Data Matrix, clause "… or the rendered image read in pure-barcode mode, returns exactly that text"
  (work package imgpath2d).  Property theorems only; proofs in Gzx/Proofs/Image2D.lean (geometry of the read-off)
  and Gzx/Proofs/Image2DBin.lean (image → luminance → binariser, from C17).

  The chain, every link a model tied to /repo by its own correspondence suite, composed in Gzx/Model/ImagePath2D.lean
  and tied as a whole by the `c02img` commands (harness/zz_imgpath2d_dm.go):

    text → EncodeHighLevel → reference symbol (C08)                       dm_symbol_roundtrip (C02Full)
         → convertByteMatrixToBitMatrix(matrix, width, height)            C14 renderDM_* (both size branches)
         → BitMatrix as image.Image → NewLuminanceSourceFromImage → HybridBinarizer.GetBlackMatrix   C17
         → DataMatrixReader.Decode(PURE_BARCODE): extractPureBits (integer moduleSize) → Decoder.Decode

  Image-size conditions imposed by the binarisers: from 40x40 pixels up the local method is used and the result is
  unconditional; below 40 pixels in either dimension the global histogram method may answer NotFound (which the Data
  Matrix reader wraps into a ReaderException) — then, and only then, the image is not read; it is never misread.
-/
import Gzx.Proofs.Image2D
import Gzx.Proofs.Image2DBin
import Gzx.Proofs.Image2DGlobal
import Gzx.Properties.C14
import Gzx.Properties.C02Full
import Gzx.Properties.C06PureRead
namespace Gzx.Properties.C02Image
open Gzx Gzx.Det Gzx.Det.Pure Gzx.Render Gzx.Image2D Gzx.ImagePath
open Gzx.Properties.C14 (dmScale dmOut renderDM_pixel renderDM_quiet renderDM_eq)
open Gzx.Properties.C06PureRead (toGrid)

/-! ## 1. `extractPureBits` on a rendered symbol is the module matrix -/

/-- What the code uses of the symbol (datamatrix_reader.go): module (0,0) dark — `GetTopLeftOnBit` finds the
    symbol's corner; module (1,0) light — the run `moduleSize` measures along the top row ends after one module
    (the alternating track); module (mw-1, mh-1) dark — `GetBottomRightOnBit` finds the opposite corner (the solid
    bottom row of the "L"); at least two columns. -/
structure DMFinderFacts (mw mh : Nat) (m : Nat → Nat → Bool) : Prop where
  cols : 2 ≤ mw
  rows : 1 ≤ mh
  topLeft : m 0 0 = true
  track : m 1 0 = false
  bottomRight : m (mw - 1) (mh - 1) = true

/-- the Data Matrix rendering of `m` shows `m` (C14, both size branches) -/
theorem renderDM_shows (mw mh : Nat) (m : Nat → Nat → Bool) (reqW reqH : Int) (hw : 1 ≤ mw) (hh : 1 ≤ mh) :
    ∃ img, renderDM mw mh m reqW reqH = .ok img ∧
      img.w = dmOut mw mh reqW reqH reqW mw ∧ img.h = dmOut mw mh reqW reqH reqH mh ∧
      ∀ bm : Img, SameAsImage bm img →
        Shows bm mw mh m (dmScale mw mh reqW reqH) (padOf img.w mw (dmScale mw mh reqW reqH))
          (padOf img.h mh (dmScale mw mh reqW reqH)) := by
  have heq := renderDM_eq mw mh m reqW reqH hw hh
  obtain ⟨img, himg, hpx⟩ := renderDM_pixel mw mh m reqW reqH hw hh
  obtain ⟨hs1, f1, f2, -, p1, p2, c1, c2, c3, c4⟩ := renderDM_quiet mw mh reqW reqH hw hh
  rw [heq] at himg
  cases himg
  refine ⟨_, heq, rfl, rfl, ?_⟩
  intro bm ⟨bw, bh, bpx⟩
  dsimp only at hpx bw bh bpx ⊢
  exact {
    s_pos := hs1, padX_nonneg := p1, padY_nonneg := p2
    fitX := by rw [bw]; omega
    fitY := by rw [bh]; omega
    pix := by
      intro x y hin
      rw [bpx x y hin]
      exact hpx x y }

theorem bitImage_same (img : Render.Image) : SameAsImage (bitImage img) img := ⟨rfl, rfl, fun _ _ _ => rfl⟩

/-- **`dm_extractPureBits_rendered`** — for the C14 rendering (`convertByteMatrixToBitMatrix`, any requested width and
    height: scaled and centred when the symbol fits, the bare symbol otherwise) of ANY module matrix with the three
    finder facts the code uses, `extractPureBits` returns exactly the module matrix: dimensions `mw x mh`, cell
    `(i, j)` = module `(i, j)`.  Holds for the code as it is (`rdGo`) and with an unguarded `Get` (`rdStrict`). -/
theorem dm_extractPureBits_rendered (mw mh : Nat) (m : Nat → Nat → Bool) (reqW reqH : Int)
    (hm : DMFinderFacts mw mh m) :
    ∃ img, renderDM mw mh m reqW reqH = .ok img ∧
      DM.extractPureBits (bitImage img).rdGo (bitImage img) = .ok { w := mw, h := mh, rows := matrixRows mw mh m } ∧
      DM.extractPureBits (bitImage img).rdStrict (bitImage img) = .ok { w := mw, h := mh, rows := matrixRows mw mh m } := by
  obtain ⟨img, himg, _, _, hshow⟩ := renderDM_shows mw mh m reqW reqH (by have := hm.cols; omega) hm.rows
  have hs := hshow (bitImage img) (bitImage_same img)
  exact ⟨img, himg,
    dm_extract_shows hs (reads_rdGo _) hm.cols hm.rows hm.topLeft hm.track hm.bottomRight,
    dm_extract_shows hs (reads_rdStrict _) hm.cols hm.rows hm.topLeft hm.track hm.bottomRight⟩

/-- the same through the image → luminance → binariser steps: whenever the bitmap yields a black matrix, the
    read-off is the module matrix; it always does from 40x40 pixels up (local method) and, below, whenever one of the
    pixels the global method samples (rows `H·k/5`, k = 1..4, columns `W/5 .. 4W/5 − 1`) is white (`WhiteSample`) -/
theorem dm_extractPureBits_binarised (mw mh : Nat) (m : Nat → Nat → Bool) (reqW reqH : Int)
    (hm : DMFinderFacts mw mh m) :
    ∃ img, renderDM mw mh m reqW reqH = .ok img ∧
      (blackMatrix img = .error .notFound ∨
        ∃ bm, blackMatrix img = .ok bm ∧
          DM.extractPureBits bm.rdGo bm = .ok { w := mw, h := mh, rows := matrixRows mw mh m }) ∧
      (40 ≤ img.w ∧ 40 ≤ img.h ∨ WhiteSample img → ∃ bm, blackMatrix img = .ok bm ∧
          DM.extractPureBits bm.rdGo bm = .ok { w := mw, h := mh, rows := matrixRows mw mh m }) := by
  have hw1 : 1 ≤ mw := by have := hm.cols; omega
  obtain ⟨img, himg, ew, eh, hshow⟩ := renderDM_shows mw mh m reqW reqH hw1 hm.rows
  obtain ⟨hs1, f1, f2, -⟩ := renderDM_quiet mw mh reqW reqH hw1 hm.rows
  have e1 : (1 : Int) * (mw : Int) ≤ dmScale mw mh reqW reqH * (mw : Int) :=
    Int.mul_le_mul_of_nonneg_right hs1 (by omega)
  have e2 : (1 : Int) * (mh : Int) ≤ dmScale mw mh reqW reqH * (mh : Int) :=
    Int.mul_le_mul_of_nonneg_right hs1 (by omega)
  have hW : 1 ≤ img.w := by rw [ew]; have := hm.cols; omega
  have hH : 1 ≤ img.h := by rw [eh]; have := hm.rows; omega
  have ext : ∀ bm, SameAsImage bm img →
      DM.extractPureBits bm.rdGo bm = .ok { w := mw, h := mh, rows := matrixRows mw mh m } := fun bm hbm =>
    dm_extract_shows (hshow bm hbm) (reads_rdGo _) hm.cols hm.rows hm.topLeft hm.track hm.bottomRight
  refine ⟨img, himg, ?_, ?_⟩
  · rcases blackMatrix_any img hW hH with h | ⟨bm, hb, hs⟩
    · exact Or.inl h
    · exact Or.inr ⟨bm, hb, ext bm hs⟩
  · rintro (⟨h40w, h40h⟩ | hwhite)
    · obtain ⟨bm, hb, hs⟩ := blackMatrix_local img h40w h40h
      exact ⟨bm, hb, ext bm hs⟩
    · obtain ⟨bm, hb, hs⟩ := blackMatrix_white img hW hH hwhite
      exact ⟨bm, hb, ext bm hs⟩

/-- **the pure-barcode image path IS the matrix path** — for ANY module matrix with the three finder facts (a symbol
    of any encoder, also a damaged one), any requested size (both renderer branches), any matrix decoder `decode`:
    rendering, handing the BitMatrix over as an image, binarising and reading with PURE_BARCODE gives exactly what
    `decode` gives on the module matrix itself (result or fault) whenever the image is at least 40x40 pixels or one of
    the pixels the global method samples is white; in every case that, or the binariser's NotFound wrapped as
    ReaderException. -/
theorem dm_image_path_eq_matrix_path {α : Type} (mw mh : Nat) (m : Nat → Nat → Bool) (reqW reqH : Int)
    (hm : DMFinderFacts mw mh m) (decode : Bits → Res α) :
    ∃ img, renderDM mw mh m reqW reqH = .ok img ∧
      img.w = dmOut mw mh reqW reqH reqW mw ∧ img.h = dmOut mw mh reqW reqH reqH mh ∧
      (40 ≤ img.w ∧ 40 ≤ img.h ∨ WhiteSample img →
        dmImagePath mw mh m reqW reqH decode = liftRes (decode { w := mw, h := mh, rows := matrixRows mw mh m })) ∧
      (dmImagePath mw mh m reqW reqH decode = liftRes (decode { w := mw, h := mh, rows := matrixRows mw mh m }) ∨
        dmImagePath mw mh m reqW reqH decode = .error (.reader .notFound)) := by
  obtain ⟨img, himg, hany, hbig⟩ := dm_extractPureBits_binarised mw mh m reqW reqH hm
  obtain ⟨_, himg', ew, eh, _⟩ := renderDM_shows mw mh m reqW reqH (by have := hm.cols; omega) hm.rows
  rw [himg] at himg'; cases himg'
  have ok_of : ∀ bm, blackMatrix img = .ok bm →
      DM.extractPureBits bm.rdGo bm = .ok { w := mw, h := mh, rows := matrixRows mw mh m } →
      dmImagePath mw mh m reqW reqH decode = liftRes (decode { w := mw, h := mh, rows := matrixRows mw mh m }) := by
    intro bm hbm hex
    unfold dmImagePath
    rw [himg]
    simp only [dmRead, hbm, hex]
    cases decode { w := mw, h := mh, rows := matrixRows mw mh m } <;> rfl
  refine ⟨img, himg, ew, eh, ?_, ?_⟩
  · intro hc
    obtain ⟨bm, hbm, hex⟩ := hbig hc
    exact ok_of bm hbm hex
  · rcases hany with hnf | ⟨bm, hbm, hex⟩
    · right
      unfold dmImagePath
      rw [himg]
      simp only [dmRead, hnf]
    · left; exact ok_of bm hbm hex

/-- … and the condition is exact: below 40 pixels on an axis and with NO white pixel among the sampled ones the image is
    refused — the binariser's NotFound wrapped as ReaderException — whatever the symbol -/
theorem dm_image_path_refused {α : Type} (mw mh : Nat) (m : Nat → Nat → Bool) (reqW reqH : Int)
    (hw : 1 ≤ mw) (hh : 1 ≤ mh) (decode : Bits → Res α) :
    ∀ img, renderDM mw mh m reqW reqH = .ok img → (img.w < 40 ∨ img.h < 40) → ¬ WhiteSample img →
      dmImagePath mw mh m reqW reqH decode = .error (.reader .notFound) := by
  intro img himg hsmall hno
  obtain ⟨img', himg', ew, eh, _⟩ := renderDM_shows mw mh m reqW reqH hw hh
  rw [himg] at himg'; cases himg'
  obtain ⟨hs1, f1, f2, -⟩ := renderDM_quiet mw mh reqW reqH hw hh
  have e1 : (1 : Int) * (mw : Int) ≤ dmScale mw mh reqW reqH * (mw : Int) :=
    Int.mul_le_mul_of_nonneg_right hs1 (by omega)
  have e2 : (1 : Int) * (mh : Int) ≤ dmScale mw mh reqW reqH * (mh : Int) :=
    Int.mul_le_mul_of_nonneg_right hs1 (by omega)
  have hnf := blackMatrix_no_white img (by rw [ew]; omega) (by rw [eh]; omega) hsmall hno
  unfold dmImagePath
  rw [himg]
  simp only [dmRead, hnf]

/-! ## 2. the composed image round trip -/

/-- module (column `i`, row `j`) of the symbol (C08 framing and placement) that carries the full codeword sequence
    `full` (data + error codewords, possibly damaged) -/
def symModule (s : DMRef.Sym) (full : List Nat) : Nat → Nat → Bool := fun i j =>
  DMRef.symbolModule s (DMRef.mappingBits s.mapRows s.mapCols full) j i

/-- … of the reference symbol for the data codewords `d` -/
def refModule (s : DMRef.Sym) (d : List Nat) : Nat → Nat → Bool := symModule s (DMRef.codewords s d)

theorem symModule_rows (s : DMRef.Sym) (full : List Nat) :
    matrixRows s.cols s.rows (symModule s full) = DMRef.symbolOfCodewords s full := rfl

theorem refModule_rows (s : DMRef.Sym) (d : List Nat) :
    matrixRows s.cols s.rows (refModule s d) = DMRef.symbolBits s d := rfl

/-- the framing facts of Table 7 that make the symbol's corners what the reader expects -/
def frameOK (s : DMRef.Sym) : Bool :=
  decide (2 ≤ s.cols) && decide (1 ≤ s.rows) && decide ((s.rows - 1) % (s.regRows + 2) = s.regRows + 1) &&
  decide (1 < s.regCols + 2)

theorem table7_frameOK : DMRef.table7.all frameOK = true := by decide

/-- every symbol of the 30 sizes — whatever its codewords — has the three finder facts: corner of the "L", second
    module of the top track light, right end of the solid bottom row -/
theorem symModule_finder (s : DMRef.Sym) (hs : s ∈ DMRef.table7) (full : List Nat) :
    DMFinderFacts s.cols s.rows (symModule s full) := by
  have h := List.all_eq_true.1 table7_frameOK s hs
  simp only [frameOK, Bool.and_eq_true, decide_eq_true_eq] at h
  obtain ⟨⟨⟨h1, h2⟩, h3⟩, h4⟩ := h
  refine ⟨h1, h2, ?_, ?_, ?_⟩
  · simp [symModule, DMRef.symbolModule]
  · have : 1 % (s.regCols + 2) = 1 := Nat.mod_eq_of_lt h4
    simp [symModule, DMRef.symbolModule, this]
  · simp only [symModule, DMRef.symbolModule, h3, if_true]
    split <;> rfl

theorem refModule_finder (s : DMRef.Sym) (hs : s ∈ DMRef.table7) (d : List Nat) :
    DMFinderFacts s.cols s.rows (refModule s d) := symModule_finder s hs _

/-- the model of `DataMatrixReader.Decode(bitmap, {PURE_BARCODE})` after the renderer, with the C02 matrix decoder,
    for the symbol carrying the codeword sequence `full` -/
def dmImageDecodeCw (s : DMRef.Sym) (full : List Nat) (reqW reqH : Int) : Except ReadFault (List Nat) :=
  dmImagePath s.cols s.rows (symModule s full) reqW reqH
    (fun b => DMDec.decodeMatrix DMHighLevel.refTables (toGrid b))

/-- … for the reference symbol of the data codewords `d` -/
def dmImageDecode (s : DMRef.Sym) (d : List Nat) (reqW reqH : Int) : Except ReadFault (List Nat) :=
  dmImageDecodeCw s (DMRef.codewords s d) reqW reqH

/-- whatever a matrix-level theorem says about `Decoder.Decode` on the symbol that carries `full` — the clean round
    trip, the error-tolerance theorems of C05 — holds of the image path of that symbol -/
theorem dm_image_of_matrix_result (s : DMRef.Sym) (hs : s ∈ DMRef.table7) (full : List Nat) (want : List Nat)
    (hsym : DMDec.decodeMatrix DMHighLevel.refTables
      ⟨s.cols, s.rows, (DMRef.symbolOfCodewords s full).flatten.toArray⟩ = .ok want) (reqW reqH : Int) :
    (40 ≤ dmOut s.cols s.rows reqW reqH reqW s.cols → 40 ≤ dmOut s.cols s.rows reqW reqH reqH s.rows →
      dmImageDecodeCw s full reqW reqH = .ok want) ∧
    ((∀ img, renderDM s.cols s.rows (symModule s full) reqW reqH = .ok img → WhiteSample img) →
      dmImageDecodeCw s full reqW reqH = .ok want) ∧
    (dmImageDecodeCw s full reqW reqH = .ok want ∨ dmImageDecodeCw s full reqW reqH = .error (.reader .notFound)) := by
  obtain ⟨img, himg, ew, eh, hbig, hany⟩ := dm_image_path_eq_matrix_path s.cols s.rows (symModule s full) reqW reqH
    (symModule_finder s hs full) (fun b => DMDec.decodeMatrix DMHighLevel.refTables (toGrid b))
  have hdec : DMDec.decodeMatrix DMHighLevel.refTables
      (toGrid { w := s.cols, h := s.rows, rows := matrixRows s.cols s.rows (symModule s full) }) = .ok want := by
    simp only [toGrid, Int.toNat_natCast, symModule_rows]
    exact hsym
  simp only [hdec, liftRes] at hbig hany
  refine ⟨?_, ?_, hany⟩
  · intro a b
    exact hbig (Or.inl ⟨by rw [ew]; exact a, by rw [eh]; exact b⟩)
  · intro hwhite
    exact hbig (Or.inr (hwhite img himg))

/-- **`dm_image_pure_roundtrip`** — text → `EncodeHighLevel` (every mode, hint configuration, macro header, the real
    look-ahead up to float rounding) → reference symbol of any of the 30 sizes → `convertByteMatrixToBitMatrix` with
    ANY requested width and height (both branches: scaled and centred / bare symbol) → image → luminances →
    `HybridBinarizer` → `DataMatrixReader.Decode(PURE_BARCODE)` (extractPureBits → `Decoder.Decode` model):
      * returns exactly the text whenever the image is at least 40x40 pixels (local binariser), and for smaller images
        (global histogram fallback) whenever one of the sampled pixels of the rendering is white (`WhiteSample`: what
        the global method needs — and all it needs — on a pure black/white picture);
      * in every case returns exactly the text or fails with the wrapped NotFoundException of the binariser
        (ReaderException) — no other outcome, in particular never another text.
    Image size: `dmOut … reqW cols x dmOut … reqH rows` = the request when the symbol fits in both directions, the
    bare symbol otherwise. -/
theorem dm_image_pure_roundtrip (syms : List DMHighLevel.SymbolInfo) (htab : DMHighLevel.tableOK syms = true)
    (la : DMHighLevel.LookAhead) (hla : DMHighLevel.LaFloatLike la) (msg : List Nat) (cfg : DMHighLevel.Cfg)
    (cw : List Nat) (hb : ∀ x ∈ msg, x < 256) (h : DMHighLevel.encodeHL syms la msg cfg = .ok cw)
    (p : DMRef.Sym × Nat) (hp : p ∈ DMRef.table7.zipIdx) (hn : cw.length = p.1.nData) (reqW reqH : Int) :
    (40 ≤ dmOut p.1.cols p.1.rows reqW reqH reqW p.1.cols → 40 ≤ dmOut p.1.cols p.1.rows reqW reqH reqH p.1.rows →
      dmImageDecode p.1 cw reqW reqH = .ok msg) ∧
    ((∀ img, renderDM p.1.cols p.1.rows (refModule p.1 cw) reqW reqH = .ok img → WhiteSample img) →
      dmImageDecode p.1 cw reqW reqH = .ok msg) ∧
    (dmImageDecode p.1 cw reqW reqH = .ok msg ∨ dmImageDecode p.1 cw reqW reqH = .error (.reader .notFound)) :=
  dm_image_of_matrix_result p.1 (C08.zipIdx_mem_table7 p hp) (DMRef.codewords p.1 cw) msg
    (C02.dm_symbol_roundtrip syms htab la hla msg cfg cw hb h p hp hn) reqW reqH

/-- **the image of a DAMAGED symbol** (C05 at image level): the symbol carries a codeword sequence `raw` (bytes, the
    symbol's total length) that differs from the written one in at most ⌊blkErr/2⌋ codewords of every interleaved
    Reed-Solomon block; its rendering at any requested size, read in pure-barcode mode, still gives exactly the text
    (40x40 pixels up, or a white sample), and in every case the text or the binariser's wrapped NotFound.  The finder
    / clock modules are part of the framing, not of `raw`: module damage inside the finder is outside this statement. -/
theorem dm_image_tolerates_block_errors (syms : List DMHighLevel.SymbolInfo) (htab : DMHighLevel.tableOK syms = true)
    (la : DMHighLevel.LookAhead) (hla : DMHighLevel.LaFloatLike la) (msg : List Nat) (cfg : DMHighLevel.Cfg)
    (cw : List Nat) (hb : ∀ x ∈ msg, x < 256) (h : DMHighLevel.encodeHL syms la msg cfg = .ok cw)
    (p : DMRef.Sym × Nat) (hp : p ∈ DMRef.table7.zipIdx) (hn : cw.length = p.1.nData)
    (raw : List Nat) (hl : raw.length = p.1.total) (hrb : ∀ x ∈ raw, x < 256)
    (hdist : ∀ b, b < p.1.blocks →
      2 * Properties.C04.hamming (DMProofs.blockOfStream p.1 (DMRef.codewords p.1 cw) b) (DMProofs.blockOfStream p.1 raw b) ≤ p.1.blkErr)
    (reqW reqH : Int) :
    (40 ≤ dmOut p.1.cols p.1.rows reqW reqH reqW p.1.cols → 40 ≤ dmOut p.1.cols p.1.rows reqW reqH reqH p.1.rows →
      dmImageDecodeCw p.1 raw reqW reqH = .ok msg) ∧
    ((∀ img, renderDM p.1.cols p.1.rows (symModule p.1 raw) reqW reqH = .ok img → WhiteSample img) →
      dmImageDecodeCw p.1 raw reqW reqH = .ok msg) ∧
    (dmImageDecodeCw p.1 raw reqW reqH = .ok msg ∨ dmImageDecodeCw p.1 raw reqW reqH = .error (.reader .notFound)) := by
  have hcwb := DMHighLevel.encodeHL_bytes_all syms la msg cfg cw hb h
  have hrt := C02.dm_roundtrip_real_lookahead syms htab la hla msg cfg cw hb h
  refine dm_image_of_matrix_result p.1 (C08.zipIdx_mem_table7 p hp) raw msg ?_ reqW reqH
  unfold DMDec.decodeMatrix
  rw [DMProofs.decodeMatrixBytes_tolerates p hp cw hn hcwb raw hl hrb hdist]
  exact hrt

/-! ## non-vacuity -/

/-- a 4x3 "symbol" with the three finder facts -/
def toy : Nat → Nat → Bool := fun i j => (i == 0) || (j == 2) || (i == 2 && j == 0)

example : DMFinderFacts 4 3 toy := ⟨by decide, by decide, by decide, by decide, by decide⟩

/-- fits: 13x8 request → scale 2, pads 2 and 1 … -/
example : (renderDM 4 3 toy 13 8).toOption.map (fun img => DM.extractPureBits (bitImage img).rdGo (bitImage img)) =
    some (.ok { w := 4, h := 3, rows := [[true, false, true, false], [true, false, false, false], [true, true, true, true]] }) := by
  decide +kernel
/-- … too small a request: the bare symbol -/
example : (renderDM 4 3 toy 2 9).toOption.map (fun img => DM.extractPureBits (bitImage img).rdStrict (bitImage img)) =
    some (.ok { w := 4, h := 3, rows := [[true, false, true, false], [true, false, false, false], [true, true, true, true]] }) := by
  decide +kernel
/-- the track fact is needed: with module (1,0) dark the measured module size is 2s and a 2x1 matrix is read -/
example : (renderDM 4 3 (fun i j => toy i j || (i == 1 && j == 0)) 0 0).toOption.map
      (fun img => (DM.extractPureBits (bitImage img).rdGo (bitImage img)).toOption.map (fun b => (b.w, b.h))) =
    some (some (1, 1)) := by decide +kernel

/-- the white-sample condition holds of the 4x3 toy at 13x8 (rows 1, 3, 4, 6; columns 2..9) … -/
example : (renderDM 4 3 toy 13 8).toOption.map (fun img => img.px 4 1) = some false := by decide
/-- … and is needed: a picture whose sampled pixels are all black is refused by the global method (NotFound) -/
example : Binarizer.hybridSets (lumOfRows (List.replicate 5 (List.replicate 5 true))) 5 5 = .error .notFound := by decide +kernel

/-! ## the size condition cannot be dropped for Data Matrix: a REAL symbol whose small renderings are not read

    "z\x1ax" (bytes 7A 1A 78) is encoded as the codewords 123 27 121 in the 10x10 symbol.  In that symbol the 24 modules
    of rows 2, 4, 6, 8 x columns 2..7 are all dark — exactly the pixels the global histogram method samples in the
    bare 10x10 rendering and in the 20x20 and 30x30 renderings (pitch 2 and 3) — so the histogram has a single peak and
    `GetBlackMatrix` answers NotFound, which `DataMatrixReader.Decode` wraps into a ReaderException.  From 40x40 pixels
    (local method) the same symbol reads.  Found by exhaustive search over the 2^24 data-codeword triples of the 10x10
    symbol (two solutions: this one and "`;57"); replayed on the real code by the `img2d-dm` witnesses
    (known finding `img2d-dm-image-roundtrip:global:ERR:reader`).  Unlike QR (`C01Image.qr_render_big_or_white`), a
    Data Matrix symbol has no quiet zone and no light function module among the sampled pixels. -/

/-- the 10x10 symbol of Table 7 -/
def sym10 : DMRef.Sym := ⟨10, 10, 8, 8, 1, 3, 5, 3, 5, 1⟩

theorem witness_encoded :
    DMHighLevel.encodeHL C02.termSyms DMHighLevel.laExact [122, 26, 120] {} = .ok [123, 27, 121] := by decide +kernel

set_option maxRecDepth 100000 in
/-- bare symbol, pitch 2, pitch 3: not read (the binariser's NotFound, wrapped) -/
theorem dm_image_small_counterexample :
    dmImageDecode sym10 [123, 27, 121] 0 0 = .error (.reader .notFound) ∧
    dmImageDecode sym10 [123, 27, 121] 20 20 = .error (.reader .notFound) ∧
    dmImageDecode sym10 [123, 27, 121] 30 30 = .error (.reader .notFound) := by
  refine ⟨by decide +kernel, by decide +kernel, by decide +kernel⟩

/-- … while at 40x40 pixels it is read: the instance of `dm_image_pure_roundtrip` -/
theorem dm_image_witness_40 : dmImageDecode sym10 [123, 27, 121] 40 40 = .ok [122, 26, 120] :=
  (dm_image_pure_roundtrip C02.termSyms (by decide) DMHighLevel.laExact (fun _ _ _ => ⟨DMHighLevel.noBump, rfl⟩)
    [122, 26, 120] {} [123, 27, 121] (by decide) witness_encoded (sym10, 0) (by decide) (by decide) 40 40).1
    (by decide) (by decide)

end Gzx.Properties.C02Image
