/-
  C02 — Data Matrix, `dm_terminates` / totality of `EncodeHighLevel` under the REAL look-ahead (wp dmenc).
  Property theorems only; the proofs are in Gzx/Proofs/DMTerm{C40,XE,LA,Dispatch}.lean.
  Model: Gzx/Model/DMHighLevel.lean (`encodeHL`, tied to datamatrix/encoder/*.go by the `c02` suites dm-hl, dm-la).

  `LaFloatLike la`: every decision of `la` is the decision of the exact look-ahead `laExactR ρ` (integer arithmetic
  in units of 1/12) under SOME float rounding `ρ` — what `HighLevelEncoder_lookAheadTest` is by the `laxr`
  correspondence (specs/C02.json, trusted base).  Nothing else is assumed: the symbol table, the hints and the
  message are arbitrary (the message a list of bytes).
-/
import Gzx.Proofs.DMTermDispatch
import Gzx.Properties.C02
namespace Gzx.Properties.C02
open Gzx Gzx.DMHighLevel

/-! ## every mode encoder is total (any look-ahead oracle, any symbol table) -/

/-- a whole call of the C40 (`text = false`) or Text encoder — buffering, look-ahead exit, the end-of-message
    backtracking loop and every branch of `c40HandleEOD` — returns a context or a WriterException: no panic
    (index, slice, nil symbol, position below zero), never out of fuel.  Every oracle, every table. -/
theorem dm_c40_total (text : Bool) (syms : List SymbolInfo) (la : LookAhead) (c : Ctx)
    (hle : c.pos ≤ c.total) (hm : c.hasMore = true) (hnew : c.newEnc = none) :
    Clean (c40Encode syms la text c) :=
  (c40Encode_total hle hm hnew).1

/-- the same for the X12 encoder incl. `x12HandleEOD` (rewind of an incomplete triplet) -/
theorem dm_x12_total (syms : List SymbolInfo) (la : LookAhead) (c : Ctx) (hle : c.pos ≤ c.total)
    (hnew : c.newEnc = none) : Clean (x12Encode syms la c) :=
  (x12Encode_total hle hnew).1

/-- the same for the EDIFACT encoder incl. every branch of `edifactHandleEOD` (symbol re-selection, rewind) -/
theorem dm_edifact_total (syms : List SymbolInfo) (la : LookAhead) (c : Ctx) (hle : c.pos ≤ c.total)
    (hnew : c.newEnc = none) : Clean (edifactEncode syms la c) :=
  (edifactEncode_total hle hnew).1

example : Clean (c40Encode exSyms (fun _ _ m => m) false { msg := [65, 66, 67, 68], cfg := {} }) := by
  apply dm_c40_total <;> decide
/-- the error branch is real: nothing fits a table whose only symbol holds 4 codewords … -/
example : (c40Encode [⟨false, 4, 5, 8, 8, 1⟩] (fun _ _ m => m) false
    { msg := [65, 66, 67, 68, 69, 70, 71, 72, 73], cfg := {} }).map (·.cw) = .error .writer := by decide
/-- … and X12 / EDIFACT reject characters they cannot encode (an oracle may send them there; the real one does not) -/
example : (x12Encode exSyms (fun _ _ m => m) { msg := [65, 66, 97], cfg := {} }).map (·.cw) = .error .writer := by
  decide
example : (edifactEncode exSyms (fun _ _ m => m) { msg := [65, 66, 97, 65], cfg := {} }).map (·.cw) = .error .writer := by
  decide

/-! ## the progress of one dispatch iteration -/

/-- C40 / Text: a successful call keeps message and hints, signals ASCII, never moves backwards — and if it has
    NOT advanced, it has taken every character up to the end of the message and backtracked all of them: every
    proper prefix of the rest of the message has `1 (mod 3)` values and the whole rest not `0 (mod 3)`
    (`NoConsume`: the value counts are (1 or 4), 3, …, 3, (1, 3 or 4)).  Every oracle, every table. -/
theorem dm_c40_progress (text : Bool) (syms : List SymbolInfo) (la : LookAhead) (c c' : Ctx)
    (hle : c.pos ≤ c.total) (hm : c.hasMore = true) (hnew : c.newEnc = none)
    (h : c40Encode syms la text c = .ok c') :
    c'.msg = c.msg ∧ c'.skipAtEnd = c.skipAtEnd ∧ c'.cfg = c.cfg ∧ c'.newEnc = some ASCII ∧
    c.pos ≤ c'.pos ∧ c'.pos ≤ c'.total ∧ (c'.pos = c.pos → NoConsume text c) :=
  (c40Encode_total hle hm hnew).2 c' h

/-- X12: the same; a call that has not advanced found at most two characters left -/
theorem dm_x12_progress (syms : List SymbolInfo) (la : LookAhead) (c c' : Ctx)
    (hle : c.pos ≤ c.total) (hnew : c.newEnc = none) (h : x12Encode syms la c = .ok c') :
    c'.msg = c.msg ∧ c'.skipAtEnd = c.skipAtEnd ∧ c'.cfg = c.cfg ∧ c'.newEnc = some ASCII ∧
    c.pos ≤ c'.pos ∧ c'.pos ≤ c'.total ∧ (c'.pos = c.pos → c.remaining ≤ 2) :=
  (x12Encode_total hle hnew).2 c' h

/-- EDIFACT: the same; a call that has not advanced found at most two characters left (and rewound them) -/
theorem dm_edifact_progress (syms : List SymbolInfo) (la : LookAhead) (c c' : Ctx)
    (hle : c.pos ≤ c.total) (hnew : c.newEnc = none) (h : edifactEncode syms la c = .ok c') :
    c'.msg = c.msg ∧ c'.skipAtEnd = c.skipAtEnd ∧ c'.cfg = c.cfg ∧ c'.newEnc = some ASCII ∧
    c.pos ≤ c'.pos ∧ c'.pos ≤ c'.total ∧ (c'.pos = c.pos → c.remaining ≤ 2) :=
  (edifactEncode_total hle hnew).2 c' h

/-- the C40 call that consumes nothing is real (oracle latching C40 for "é": four values, all backtracked) -/
example : (c40Encode exSyms (fun _ _ m => m) false { msg := [233], cfg := {}, cw := [230] }).map (·.pos) = .ok 0 := by
  decide

/-! ## what the real look-ahead guarantees -/

/-- the look-ahead never proposes C40 (Text) from ASCII at a position from which the C40 (Text) encoder would
    backtrack everything: on such a run the ASCII count never exceeds the C40, Text, X12 and EDIFACT counts, so
    steps R and K answer ASCII or Base 256 — for every float rounding, with or without macro trailer -/
theorem la_never_proposes_backtracked_c40 (la : LookAhead) (hla : LaFloatLike la) (text : Bool) (c : Ctx)
    (hb : ∀ x ∈ c.msg, x < 256) (ht : TotOK c.msg c.total) (hm : c.hasMore = true) (hN : NoConsume text c) :
    la c.msg c.pos ASCII ≠ (if text then TEXT else C40) :=
  fun h => la_consumes_c40 hla hb ht hm h hN

/-- the look-ahead never proposes X12 or EDIFACT from ASCII when at most two characters are left -/
theorem la_never_proposes_short_x12_edifact (la : LookAhead) (hla : LaFloatLike la) (c : Ctx)
    (ht : TotOK c.msg c.total) (hm : c.hasMore = true) (hr : c.remaining ≤ 2) :
    la c.msg c.pos ASCII ≠ X12 ∧ la c.msg c.pos ASCII ≠ EDIFACT :=
  ⟨fun h => la_consumes_x12_edi hla ht hm (Or.inl h) hr, fun h => la_consumes_x12_edi hla ht hm (Or.inr h) hr⟩

/-- non-vacuity: "A" + four times "Á" + "B" is such a run (value counts 1, 3, 3, 3, 3, 1); the exact look-ahead
    answers Base 256 there -/
example : laExact [65, 193, 193, 193, 193, 66] 0 ASCII = BASE256 := by decide +kernel

/-! ## `dm_terminates` -/

/-- `dm_terminates`, in full: for EVERY message of bytes, every symbol table, every hint configuration and every
    look-ahead that is exact arithmetic up to float rounding (`LaFloatLike`, e.g. `laExact` and every `laExactR ρ`),
    `encodeHL` neither runs out of its fuel `4·|msg| + 8` (the dispatch loop of `EncodeHighLevel` terminates:
    `2·remaining + [mode = ASCII]` decreases with every iteration) nor panics: it returns codewords or a
    WriterException.  (False for an arbitrary oracle: `dm_terminates_fails_for_some_oracle`.) -/
theorem dm_terminates (syms : List SymbolInfo) (la : LookAhead) (hla : LaFloatLike la) (msg : List Nat) (cfg : Cfg)
    (hb : ∀ x ∈ msg, x < 256) :
    encodeHL syms la msg cfg ≠ .error .fuel ∧ (∀ s, encodeHL syms la msg cfg ≠ .error (.panic s)) ∧
    (encodeHL syms la msg cfg = .error .writer ∨ ∃ cw, encodeHL syms la msg cfg = .ok cw) := by
  have h := encodeHL_total syms la hla msg cfg hb
  exact ⟨h.ne_fuel, h.ne_panic, by rcases h with ⟨cw, e⟩ | e; exact Or.inr ⟨cw, e⟩; exact Or.inl e⟩

/-- the exact look-ahead itself -/
theorem dm_terminates_exact (syms : List SymbolInfo) (ρ : Bump) (msg : List Nat) (cfg : Cfg)
    (hb : ∀ x ∈ msg, x < 256) : Clean (encodeHL syms (laExactR ρ) msg cfg) :=
  encodeHL_total syms (laExactR ρ) (fun _ _ _ => ⟨ρ, rfl⟩) msg cfg hb

/-- table used by the examples -/
def termSyms : List SymbolInfo := [⟨false, 3, 5, 8, 8, 1⟩, ⟨false, 5, 7, 10, 10, 1⟩, ⟨false, 8, 10, 12, 12, 1⟩,
  ⟨false, 12, 12, 14, 14, 1⟩, ⟨false, 1558, 620, 22, 22, 36⟩]

/-- non-vacuity — the message on which the always-C40 oracle loops is encoded by the exact look-ahead … -/
example : encodeHL termSyms laExact [233] {} = .ok [235, 106, 129] := by decide +kernel
/-- … and messages that go through EDIFACT, X12, Text and (macro 05) C40 under the exact look-ahead -/
example : encodeHL termSyms laExact [64, 64, 64, 64, 64, 64, 64, 64, 64] {} = .ok [240, 0, 0, 0, 0, 0, 0, 65] := by
  decide +kernel
example : encodeHL termSyms laExact [42, 42, 42, 42, 42, 42, 42, 42, 42, 42] {} = .ok [238, 6, 106, 6, 106, 6, 106, 43] := by
  decide +kernel
example : encodeHL termSyms laExact [97, 98, 99, 100, 101, 102, 103] {} = .ok [239, 89, 233, 109, 36, 254, 104, 129] := by
  decide +kernel
example : encodeHL termSyms laExact [91, 41, 62, 30, 48, 53, 29, 65, 66, 67, 68, 69, 70, 71, 72, 30, 4] {} =
    .ok [236, 230, 89, 233, 109, 36, 128, 73] := by decide +kernel
/-- the WriterException branch: nothing fits -/
example : encodeHL [⟨false, 3, 5, 8, 8, 1⟩] laExact [65, 66, 67, 68, 69, 70, 71, 72] {} = .error .writer := by
  decide +kernel

end Gzx.Properties.C02
