import Gzx.Model.OneD
namespace Gzx.Properties.C03
end Gzx.Properties.C03
