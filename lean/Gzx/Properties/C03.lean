/-
  C03 — 1-D symbologies: a written barcode reads back as the same content and format.
  Property theorems only (helper lemmas: Gzx/Proofs/OneD.lean).
  Model: Gzx/Model/OneD.lean, tied to /repo/oned by the `c03` correspondence suite; pattern tables are
  parameters (`Tables`), the regenerated tables of /repo are shown equal to `refTables` and well-formed in
  Obligations/C03.lean.
-/
import Gzx.Proofs.OneD
import Gzx.Properties.C10
set_option linter.unusedSimpArgs false
namespace Gzx.Properties.C03
open Gzx Gzx.CheckDigit Gzx.OneD

/-! ### full-ASCII escaping (Code 39 extended mode, Code 93) -/

/-- Clause "Code 39 incl. full ASCII … reads back as exactly that content", escaping layer:
    `code39DecodeExtended ∘ code39TryToConvertToExtendedMode = id` on every ASCII string (0..127). -/
theorem ext39_inv (cs : List Nat) (h : ∀ c ∈ cs, c < 128) :
    ∃ e, code39Escape cs = .ok e ∧ code39Unescape e = .ok cs := by
  induction cs with
  | nil => exact ⟨[], rfl, rfl⟩
  | cons c cs ih =>
    obtain ⟨e2, h2, hu2⟩ := ih (fun x hx => h x (by simp [hx]))
    obtain ⟨e1, h1, hu1⟩ := unescape39_escape1 c (h c (by simp)) e2
    refine ⟨e1 ++ e2, ?_, ?_⟩
    · simp [code39Escape, h1, h2, bind, Except.bind, pure, Except.pure]
    · rw [hu1, hu2]; rfl

/-- the same for Code 93: `code93DecodeExtended ∘ code93ConvertToExtended = id` on ASCII 0..127 -/
theorem ext93_inv (cs : List Nat) (h : ∀ c ∈ cs, c < 128) :
    ∃ e, code93Escape cs = .ok e ∧ code93Unescape e = .ok cs := by
  induction cs with
  | nil => exact ⟨[], rfl, rfl⟩
  | cons c cs ih =>
    obtain ⟨e2, h2, hu2⟩ := ih (fun x hx => h x (by simp [hx]))
    obtain ⟨e1, h1, hu1⟩ := unescape93_escape1 c (h c (by simp)) e2
    refine ⟨e1 ++ e2, ?_, ?_⟩
    · simp [code93Escape, h1, h2, bind, Except.bind, pure, Except.pure]
    · rw [hu1, hu2]; rfl

/-- bytes ≥ 128 cannot be escaped: both writers refuse them (clause "characters outside the alphabet are rejected") -/
theorem ext_rejects_non_ascii (c : Nat) (hc : 128 ≤ c) :
    code39Escape1 c = .error .writer ∧ code93Escape1 c = .error .writer := by
  constructor
  · unfold code39Escape1
    repeat (rw [if_neg (by omega)])
  · unfold code93Escape1
    repeat (rw [if_neg (by omega)])

/-! ### module level: the pattern tables are inverted exactly -/

/-- Clause "Code 128 … reads back", module layer: for every table of 106 six-element patterns and a seven-element
    STOP pattern with positive widths, pairwise distinct, the module pattern the writer draws for symbol
    characters `body ++ [STOP]` is split back into exactly these characters (run lengths in groups of six, table
    lookup), i.e. module-level reading = symbol-level reading of what was drawn. -/
theorem code128_ideal_decode_encode (T : Tables) (hT : WF128 T.code128 = true) (body : List Nat)
    (hb : ∀ c ∈ body, c < 106) :
    ∃ mods, code128Draw T (body ++ [106]) = .ok mods ∧
      code128Ideal T mods = code128ReadCodes (body ++ [106]) := by
  simp only [WF128, Bool.and_eq_true, beq_iff_eq, decide_eq_true_eq] at hT
  obtain ⟨⟨⟨hlen, h6⟩, h7⟩, hnd⟩ := hT
  generalize hP : T.code128 = P at *
  let W := body.map (fun c => P.getD c [])
  let stop := P.getD 106 []
  have hW : ∀ p ∈ W, p.length = 6 ∧ ∀ w ∈ p, 0 < w := by
    intro p hp
    obtain ⟨c, hc, rfl⟩ := List.mem_map.mp hp
    have := take_all_getD P 106 _ h6 c (hb c hc) (by have := hb c hc; omega)
    simp only [Bool.and_eq_true, beq_iff_eq, List.all_eq_true, decide_eq_true_eq] at this
    exact this
  have hstop : stop.length = 7 ∧ ∀ w ∈ stop, 0 < w := by
    have hm : stop ∈ P.drop 106 := by
      have : (P.drop 106)[0]'(by rw [List.length_drop]; omega) = stop := by
        simp [stop, List.getD_eq_getElem?_getD, List.getElem?_eq_getElem (show 106 < P.length by omega)]
      rw [← this]; exact List.getElem_mem _
    have := List.all_eq_true.mp h7 _ hm
    simp only [Bool.and_eq_true, beq_iff_eq, List.all_eq_true, decide_eq_true_eq] at this
    exact this
  have hdraw : code128Draw T (body ++ [106]) = .ok (appendPattern (W.flatten ++ stop) true) := by
    unfold code128Draw
    rw [hP]
    have hm : (body ++ [106]).mapM (nth P) = .ok ((body ++ [106]).map (fun c => P.getD c [])) := by
      apply mapM_ok
      intro c hc
      simp only [List.mem_append, List.mem_singleton] at hc
      apply nth_getD
      rcases hc with hc | rfl
      · have := hb c hc; omega
      · omega
    simp only [hm, bind, Except.bind, pure, Except.pure, List.map_append, List.map_cons, List.map_nil,
      List.flatten_append, List.flatten_cons, List.flatten_nil, List.append_nil, List.map_map]
    have he : ∀ p ∈ W, p.length % 2 = 0 := fun p hp => by have := (hW p hp).1; omega
    have := flatten_map_appendPattern W true he
    simp only [W, List.map_map] at this
    rw [this]
    exact congrArg _ (appendPattern_even_append _ _ true (flatten_length_even W he))
  refine ⟨_, hdraw, ?_⟩
  -- the reading side
  have hRpos : ∀ w ∈ W.flatten ++ stop, 0 < w := by
    intro w hw
    simp only [List.mem_append, List.mem_flatten] at hw
    rcases hw with ⟨p, hp, hwp⟩ | hw
    · exact (hW p hp).2 w hwp
    · exact hstop.2 w hw
  have hRne : W.flatten ++ stop ≠ [] := by
    intro e
    have := congrArg List.length e
    simp only [List.length_append, hstop.1, List.length_nil] at this; omega
  have hhead := appendPattern_head _ true hRne hRpos
  have hruns := runs_appendPattern _ true hRpos
  have hWlen : W.flatten.length = 6 * body.length := by
    have := flatten_length_const W 6 (fun p hp => (hW p hp).1)
    simpa [W] using this
  have htake : (W.flatten ++ stop).take ((W.flatten ++ stop).length - 7) = W.flatten := by
    have : (W.flatten ++ stop).length - 7 = W.flatten.length := by simp [hstop.1]
    rw [this, List.take_left']
    rfl
  have hdrop : (W.flatten ++ stop).drop ((W.flatten ++ stop).length - 7) = stop := by
    have : (W.flatten ++ stop).length - 7 = W.flatten.length := by simp [hstop.1]
    rw [this, List.drop_left']
    rfl
  have hchunks := chunks_exact 6 (by omega) W (fun p hp => (hW p hp).1)
  have hidx : W.mapM (patLookup P) = .ok body := by
    have h1 := mapM_ok (patLookup P) (fun p => (patIndex? p P).getD 0) W (by
      intro p hp
      obtain ⟨c, hc, rfl⟩ := List.mem_map.mp hp
      unfold patLookup
      rw [patIndex?_getD P hnd c (by have := hb c hc; omega)]
      rfl)
    rw [h1]
    congr 1
    simp only [W, List.map_map]
    conv => rhs; rw [← List.map_id body]
    apply List.map_congr_left
    intro c hc
    show (patIndex? (P.getD c []) P).getD 0 = id c
    rw [patIndex?_getD P hnd c (by have := hb c hc; omega)]
    rfl
  have hstopIdx : patIndex? stop P = some 106 := patIndex?_getD P hnd 106 (by omega)
  unfold code128Ideal
  rw [hP]
  simp only [hhead, hruns, ne_eq, not_true_eq_false, if_false, bind, Except.bind]
  have h7' : ¬ (W.flatten ++ stop).length < 7 := by simp [hstop.1]
  simp only [h7', if_false, htake, hdrop, hWlen]
  have h6' : 6 * body.length % 6 = 0 := by omega
  simp only [h6', not_true_eq_false, if_false]
  rw [← hWlen, hchunks, hidx]
  simp only [hstopIdx]

/-- Clause "ITF … reads back", module layer: for every table of ten distinct five-element patterns and positive
    guards, the module pattern drawn for a digit string of even length is split back into exactly these digits
    (guards recognised, ten runs per pair de-interleaved, table lookup) and then judged by the reader's length rule. -/
theorem itf_ideal_decode_encode (T : Tables) (hT : WFITF T = true) (allowed : List Nat) (ds : List Nat)
    (hd : ∀ d ∈ ds, d < 10) (heven : ds.length % 2 = 0) :
    ∃ mods, itfDraw T ds = .ok mods ∧ itfIdeal T allowed mods = itfReadDigits allowed ds := by
  simp only [WFITF, Bool.and_eq_true, beq_iff_eq, decide_eq_true_eq, List.all_eq_true] at hT
  obtain ⟨⟨⟨⟨⟨⟨hlen, hpat⟩, hnd⟩, hsl⟩, hsp⟩, hel⟩, hep⟩ := hT
  generalize hW : T.itfWriter = W at *
  generalize hS : T.itfStart = start at *
  generalize hE : T.itfEnd = stop at *
  have hpatD : ∀ d, d < 10 → (W.getD d []).length = 5 ∧ ∀ w ∈ W.getD d [], 0 < w := by
    intro d hd10
    have hm : W.getD d [] ∈ W := by
      have : W.getD d [] = W[d]'(by omega) := by
        simp [List.getD_eq_getElem?_getD, List.getElem?_eq_getElem (show d < W.length by omega)]
      rw [this]; exact List.getElem_mem _
    have := hpat _ hm
    exact ⟨this.1, this.2⟩
  let enc : Nat × Nat → List Nat := fun p => interleave (W.getD p.1 []) (W.getD p.2 [])
  let pairsW := (itfPairs ds).map enc
  have hpairs : ∀ p ∈ itfPairs ds, p.1 < 10 ∧ p.2 < 10 := fun p hp =>
    ⟨hd _ (itfPairs_mem ds p hp).1, hd _ (itfPairs_mem ds p hp).2⟩
  have hpW : ∀ c ∈ pairsW, c.length = 10 ∧ ∀ w ∈ c, 0 < w := by
    intro c hc
    obtain ⟨p, hp, rfl⟩ := List.mem_map.mp hc
    have h1 := hpatD p.1 (hpairs p hp).1
    have h2 := hpatD p.2 (hpairs p hp).2
    refine ⟨by simp only [enc]; rw [interleave_length _ _ (by omega)]; omega, ?_⟩
    intro w hw
    rcases interleave_mem _ _ w hw with h | h
    · exact h1.2 w h
    · exact h2.2 w h
  have hdraw : itfDraw T ds = .ok (appendPattern (start ++ pairsW.flatten ++ stop) true) := by
    unfold itfDraw
    rw [hW, hS, hE]
    have hm : (itfPairs ds).mapM (itfPairDraw W) = .ok ((itfPairs ds).map (fun p => appendPattern (enc p) true)) := by
      apply mapM_ok
      intro p hp
      have h1 := (hpairs p hp).1
      have h2 := (hpairs p hp).2
      simp only [itfPairDraw, nth_getD W p.1 (by omega), nth_getD W p.2 (by omega), bind, Except.bind, pure, Except.pure, enc]
    simp only [hm, bind, Except.bind, pure, Except.pure]
    have he : ∀ c ∈ pairsW, c.length % 2 = 0 := fun c hc => by have := (hpW c hc).1; omega
    have hfl := flatten_map_appendPattern pairsW true he
    simp only [pairsW, List.map_map] at hfl
    have hfl' : (List.map (fun p => appendPattern (enc p) true) (itfPairs ds)).flatten
        = appendPattern (List.map enc (itfPairs ds)).flatten true := hfl
    rw [hfl']
    congr 1
    rw [appendPattern_even_append _ _ true (by omega), appendPattern_even_append _ _ true (by
      simp only [List.length_append]
      have := flatten_length_even pairsW he
      simp only [pairsW] at this
      omega)]
  refine ⟨_, hdraw, ?_⟩
  have hRpos : ∀ w ∈ start ++ pairsW.flatten ++ stop, 0 < w := by
    intro w hw
    simp only [List.mem_append, List.mem_flatten] at hw
    rcases hw with (hw | ⟨c, hc, hwc⟩) | hw
    · have := hsp w hw; simpa using this
    · exact (hpW c hc).2 w hwc
    · have := hep w hw; simpa using this
  have hRne : start ++ pairsW.flatten ++ stop ≠ [] := by
    intro e
    have := congrArg List.length e
    simp only [List.length_append, hsl, hel, List.length_nil] at this; omega
  have hhead := appendPattern_head _ true hRne hRpos
  have hruns := runs_appendPattern _ true hRpos
  have hflen : pairsW.flatten.length = 10 * pairsW.length := flatten_length_const pairsW 10 (fun c hc => (hpW c hc).1)
  have hRlen : (start ++ pairsW.flatten ++ stop).length = pairsW.flatten.length + 7 := by
    simp only [List.length_append, hsl, hel]; omega
  have htake4 : (start ++ pairsW.flatten ++ stop).take 4 = start := by
    rw [List.append_assoc, ← hsl, List.take_left']; rfl
  have hdrop3 : (start ++ pairsW.flatten ++ stop).drop ((start ++ pairsW.flatten ++ stop).length - 3) = stop := by
    have : (start ++ pairsW.flatten ++ stop).length - 3 = (start ++ pairsW.flatten).length := by
      simp only [List.length_append, hel]; omega
    rw [this, List.drop_left']; rfl
  have hbody : ((start ++ pairsW.flatten ++ stop).drop 4).take ((start ++ pairsW.flatten ++ stop).length - 7)
      = pairsW.flatten := by
    have h1 : (start ++ pairsW.flatten ++ stop).drop 4 = pairsW.flatten ++ stop := by
      rw [List.append_assoc, ← hsl, List.drop_left']; rfl
    rw [h1, hRlen, Nat.add_sub_cancel, List.take_left']; rfl
  have hchunks := chunks_exact 10 (by omega) pairsW (fun c hc => (hpW c hc).1)
  have hdec : pairsW.mapM (itfPairRead W) = .ok ((itfPairs ds).map (fun p => [p.1, p.2])) := by
    have h1 := mapM_ok (itfPairRead W)
      (fun c => [(patIndex? (deinterleave c).1 W).getD 0, (patIndex? (deinterleave c).2 W).getD 0]) pairsW (by
        intro c hc
        obtain ⟨p, hp, rfl⟩ := List.mem_map.mp hc
        have h1 := (hpairs p hp).1
        have h2 := (hpairs p hp).2
        have hl : (W.getD p.1 []).length = (W.getD p.2 []).length := by
          rw [(hpatD _ h1).1, (hpatD _ h2).1]
        simp only [itfPairRead, enc, deinterleave_interleave _ _ hl, patLookup, patIndex?_getD W hnd p.1 (by omega),
          patIndex?_getD W hnd p.2 (by omega), bind, Except.bind, pure, Except.pure, Option.getD_some])
    rw [h1]
    congr 1
    simp only [pairsW, List.map_map]
    apply List.map_congr_left
    intro p hp
    have h1 := (hpairs p hp).1
    have h2 := (hpairs p hp).2
    have hl : (W.getD p.1 []).length = (W.getD p.2 []).length := by
      rw [(hpatD _ h1).1, (hpatD _ h2).1]
    simp only [Function.comp, enc, deinterleave_interleave _ _ hl, patIndex?_getD W hnd p.1 (by omega),
      patIndex?_getD W hnd p.2 (by omega), Option.getD_some]
  unfold itfIdeal
  rw [hW, hS, hE]
  simp only [hhead, hruns, ne_eq, not_true_eq_false, if_false, bind, Except.bind, pure, Except.pure]
  have hc1 : ¬ ((start ++ pairsW.flatten ++ stop).length < 7 ∨ ¬ (start ++ pairsW.flatten ++ stop).take 4 = start ∨
      ¬ (start ++ pairsW.flatten ++ stop).drop ((start ++ pairsW.flatten ++ stop).length - 3) = stop) := by
    rw [htake4, hdrop3, hRlen]; simp
  simp only [hc1, if_false, hbody]
  have hc2 : pairsW.flatten.length % 10 = 0 := by rw [hflen]; omega
  simp only [hc2, not_true_eq_false, if_false, hchunks, hdec, itfPairs_flatten ds heven]


/-! ### Code 128 code-set automaton -/

/-- all sequences of at most `n` character classes: digit pair "12", single digit "7", upper-case "A",
    lower-case "a", control character 0x01 — the classes `code128ChooseCode` distinguishes -/
def classSeqs : Nat → List (List Nat)
  | 0 => [[]]
  | n + 1 => [] :: (classSeqs n).flatMap (fun s => [[49, 50] ++ s, [55] ++ s, [65] ++ s, [97] ++ s, [1] ++ s])

/-- FULL STATEMENT (not proved in general): for every ASCII content of 1..80 characters and every forced code set
    the content is admissible for, `code128ReadCodes (code128Codes content forced) = content` — any trace of
    the `chooseCode` automaton decodes to the content.
    PROVED: the statement for all 780 non-empty class sequences of length ≤ 4 (every code-set transition pattern
    of that depth, including the start-code choice, A↔B↔C switches and the removal of the check character),
    by kernel evaluation.  Missing: the induction over the writer loop for arbitrary characters and lengths
    (the invariant is: reader state after the emitted prefix = (current code set, content prefix), weights equal);
    the correspondence suite covers depth ≤ 6, every ASCII character and random contents on the real code. -/
theorem code128_codeset_inv_partial :
    ((classSeqs 4).filter (· ≠ [])).all
      (fun s => (match code128Codes s none with | .ok cs => code128ReadCodes cs | .error e => .error e) == .ok s) = true := by
  decide +kernel

/-- forced code sets on admissible contents (A: control + upper case, B: printable, C: digit pairs) -/
theorem code128_forced_inv_examples :
    (match code128Codes [1, 65, 48, 95, 0] (some 101) with | .ok cs => code128ReadCodes cs | .error e => .error e) = .ok [1, 65, 48, 95, 0] ∧
    (match code128Codes [97, 65, 48, 126, 33] (some 100) with | .ok cs => code128ReadCodes cs | .error e => .error e) = .ok [97, 65, 48, 126, 33] ∧
    (match code128Codes [49, 50, 51, 52, 48, 48] (some 99) with | .ok cs => code128ReadCodes cs | .error e => .error e) = .ok [49, 50, 51, 52, 48, 48] := by
  decide +kernel

/-! ### rejection of inadmissible contents -/

/-- ITF: odd length, more than 80 digits or a non-digit is a WriterException; everything else is accepted -/
theorem itf_writer_rejects (contents : List Nat) :
    itfSymbols contents =
      if contents.length % 2 ≠ 0 ∨ contents.length > 80 ∨ allDigits contents = false then .error .writer
      else .ok (digitVals contents) := by
  unfold itfSymbols
  by_cases h1 : contents.length % 2 ≠ 0
  · simp [h1, throw, throwThe, MonadExceptOf.throw, bind, Except.bind]
  · by_cases h2 : contents.length > 80
    · simp [h1, h2, throw, throwThe, MonadExceptOf.throw, bind, Except.bind, pure, Except.pure]
    · cases h3 : allDigits contents <;>
        simp [h1, h2, h3, throw, throwThe, MonadExceptOf.throw, bind, Except.bind, pure, Except.pure]

/-- Code 128: empty or longer than 80 characters, or a character the (forced) code set cannot hold, is a WriterException -/
theorem code128_writer_rejects (contents : List Nat) (forced : Option Nat)
    (h : contents.length < 1 ∨ contents.length > 80 ∨ contents.all (c128CharOk forced) = false) :
    code128Codes contents forced = .error .writer := by
  unfold code128Codes
  by_cases h1 : contents.length < 1 ∨ contents.length > 80
  · simp only [h1, if_true, throw, throwThe, MonadExceptOf.throw, bind, Except.bind]
  · have h3 : contents.all (c128CharOk forced) = false := by
      rcases h with h | h | h
      · exact absurd (Or.inl h) h1
      · exact absurd (Or.inr h) h1
      · exact h
    simp only [h1, if_false, h3, Bool.not_false, if_true, throw, throwThe, MonadExceptOf.throw, bind, Except.bind,
      pure, Except.pure]

/-- characters ≥ 128 that are not FNC escapes are never admissible -/
theorem code128_char_rejected (forced : Option Nat) (c : Nat) (hc : c > 127) (hf : c < 0xF1 ∨ c > 0xF4) :
    c128CharOk forced c = false := by
  unfold c128CharOk
  have h1 : ¬ (c = 0xF1 ∨ c = 0xF2 ∨ c = 0xF3 ∨ c = 0xF4) := by omega
  have h2 : ¬ c ≤ 127 := by omega
  simp [h1, h2]

/-- UPC/EAN: the module encoders fail exactly when the check-digit stage of C10 fails (wrong length, non-digit,
    wrong supplied check digit — theorems writer_rejects_wrong_check, writer_rejects_length_and_alphabet,
    upce_writer_rejects_wrong_check of Properties/C10) -/
theorem upcean_writer_rejects (T : Tables) (contents : List Nat) (e : Fault) :
    (stdWriterContents 13 contents = .error e → ean13Modules T contents = .error e) ∧
    (stdWriterContents 8 contents = .error e → ean8Modules T contents = .error e) ∧
    (stdWriterContents 13 (48 :: contents) = .error e → upcaModules T contents = .error e) ∧
    (upceWriterContents contents = .error e → upceModules T contents = .error e) := by
  refine ⟨?_, ?_, ?_, ?_⟩ <;> intro h
  · simp [ean13Modules, h, bind, Except.bind]
  · simp [ean8Modules, h, bind, Except.bind]
  · simp [upcaModules, ean13Modules, h, bind, Except.bind]
  · simp [upceModules, h, bind, Except.bind]

/-! ### writer ∘ reader -/

/-- Clause "ITF: even digit strings of the reader's accepted lengths … read(write(c)) == c": composition of the writer
    (validation, interleaving, drawing) with the module-level reader, for every accepted content. -/
theorem itf_read_write (T : Tables) (hT : WFITF T = true) (allowed : List Nat) (contents : List Nat)
    (hdig : allDigits contents = true) (heven : contents.length % 2 = 0) (hlen : contents.length ≤ 80)
    (hallowed : allowed.contains contents.length = true ∨ contents.length > allowed.foldl max 0) :
    ∃ mods, itfModules T contents = .ok mods ∧ itfIdeal T allowed mods = .ok contents := by
  have hsym : itfSymbols contents = .ok (digitVals contents) := by
    rw [itf_writer_rejects]
    have : ¬ (contents.length % 2 ≠ 0 ∨ contents.length > 80 ∨ allDigits contents = false) := by
      simp [heven, hdig]; omega
    rw [if_neg this]
  have hdl : (digitVals contents).length = contents.length := by simp [digitVals]
  obtain ⟨mods, hdraw, hideal⟩ := itf_ideal_decode_encode T hT allowed (digitVals contents)
    (digitVals_lt contents hdig) (by rw [hdl]; exact heven)
  refine ⟨mods, ?_, ?_⟩
  · simp only [itfModules, hsym, bind, Except.bind]
    exact hdraw
  · rw [hideal]
    unfold itfReadDigits
    simp only [hdl]
    have : (allowed.contains contents.length = true ∨ contents.length > allowed.foldl max 0) := hallowed
    rw [if_pos this, digitVals_roundtrip contents hdig]

/-- Clause "Code 39 incl. full-ASCII … reads back as exactly that content", symbol layer: whatever symbol characters
    the Code 39 writer chooses for a non-empty ASCII content (plain when every character is in the 43-character
    alphabet, full-ASCII escapes otherwise), the matching reader mode (plain / extended) returns the content. -/
theorem code39_read_write (T : Tables) (contents syms : List Nat) (hne : contents ≠ [])
    (hascii : ∀ c ∈ contents, c < 128) (h : code39Symbols T contents = .ok syms) :
    code39ReadSymbols T syms (!(contents.all (fun c => (indexOf? c T.code39Alphabet).isSome))) = .ok contents := by
  unfold code39Symbols at h
  simp only [bind, Except.bind, pure, Except.pure, throw, throwThe, MonadExceptOf.throw] at h
  split at h
  · cases h
  · by_cases hall : contents.all (fun c => (indexOf? c T.code39Alphabet).isSome) = true
    · simp only [hall, if_true] at h
      have hchars := mapM_alphaIndex_nth _ _ _ h
      unfold code39ReadSymbols
      simp only [hchars, bind, Except.bind, pure, Except.pure, hall, Bool.not_true]
      have : contents.isEmpty = false := by cases contents <;> simp_all
      simp [this]
    · have hall' : contents.all (fun c => (indexOf? c T.code39Alphabet).isSome) = false := by
        simpa using hall
      obtain ⟨e, he, hu⟩ := ext39_inv contents hascii
      simp only [hall', Bool.false_eq_true, if_false, he] at h
      split at h
      · cases h
      · have hchars := mapM_alphaIndex_nth _ _ _ h
        unfold code39ReadSymbols
        simp only [hchars, bind, Except.bind, pure, Except.pure, hall', Bool.not_false]
        have : e.isEmpty = false := by
          cases e with
          | nil => simp [code39Unescape] at hu; exact absurd hu hne
          | cons _ _ => rfl
        simp [this, hu]

/-- Clause "Code 93: ASCII 0-127 … reads back", symbol layer: the characters the Code 93 writer draws for an ASCII
    content (escapes, C and K) pass the reader's checksum test and unescape to the content. -/
theorem code93_read_write (T : Tables) (contents syms : List Nat)
    (hascii : ∀ c ∈ contents, c < 128) (h : code93Symbols T contents = .ok syms) :
    code93ReadSymbols T syms = .ok contents := by
  unfold code93Symbols at h
  obtain ⟨e, he, hu⟩ := ext93_inv contents hascii
  simp only [he, bind, Except.bind, pure, Except.pure, throw, throwThe, MonadExceptOf.throw] at h
  split at h
  · cases h
  · split at h
    · cases h
    · rename_i vals hvals
      cases h
      have hchars := mapM_alphaIndex_nth _ _ _ hvals
      unfold code93ReadSymbols
      have hl : ¬ (vals ++ [(c93Checks vals).1, (c93Checks vals).2]).length < 2 := by simp
      have htake : (vals ++ [(c93Checks vals).1, (c93Checks vals).2]).take
          ((vals ++ [(c93Checks vals).1, (c93Checks vals).2]).length - 2) = vals := by
        have : (vals ++ [(c93Checks vals).1, (c93Checks vals).2]).length - 2 = vals.length := by simp
        rw [this, List.take_left']; rfl
      simp only [hl, if_false, bind, Except.bind, pure, Except.pure, throw, throwThe, MonadExceptOf.throw,
        Properties.C10.code93_writer_checks_accepted vals, htake, hchars, hu]

end Gzx.Properties.C03
