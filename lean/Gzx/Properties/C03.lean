/-
  C03 — 1-D symbologies: a written barcode reads back as the same content and format.
  Property theorems only (helper lemmas: Gzx/Proofs/OneD.lean).
  Model: Gzx/Model/OneD.lean, tied to /repo/oned by the `c03` correspondence suite; pattern tables are
  parameters (`Tables`), the regenerated tables of /repo are shown equal to `refTables` and well-formed in
  Obligations/C03.lean.
-/
import Gzx.Proofs.OneD
import Gzx.Proofs.UpceanWrite
import Gzx.Proofs.OneDCodabar
import Gzx.Properties.C10
set_option linter.unusedSimpArgs false
namespace Gzx.Properties.C03
open Gzx Gzx.CheckDigit Gzx.OneD

/-! ### full-ASCII escaping (Code 39 extended mode, Code 93) -/

/-- Clause "Code 39 incl. full ASCII … reads back as exactly that content", escaping layer:
    `code39DecodeExtended ∘ code39TryToConvertToExtendedMode = id` on every ASCII string (0..127). -/
theorem ext39_inv (cs : List Nat) (h : ∀ c ∈ cs, c < 128) :
    ∃ e, code39Escape cs = .ok e ∧ code39Unescape e = .ok cs := by
  induction cs with
  | nil => exact ⟨[], rfl, rfl⟩
  | cons c cs ih =>
    obtain ⟨e2, h2, hu2⟩ := ih (fun x hx => h x (by simp [hx]))
    obtain ⟨e1, h1, hu1⟩ := unescape39_escape1 c (h c (by simp)) e2
    refine ⟨e1 ++ e2, ?_, ?_⟩
    · simp [code39Escape, h1, h2, bind, Except.bind, pure, Except.pure]
    · rw [hu1, hu2]; rfl

/-- the same for Code 93: `code93DecodeExtended ∘ code93ConvertToExtended = id` on ASCII 0..127 -/
theorem ext93_inv (cs : List Nat) (h : ∀ c ∈ cs, c < 128) :
    ∃ e, code93Escape cs = .ok e ∧ code93Unescape e = .ok cs := by
  induction cs with
  | nil => exact ⟨[], rfl, rfl⟩
  | cons c cs ih =>
    obtain ⟨e2, h2, hu2⟩ := ih (fun x hx => h x (by simp [hx]))
    obtain ⟨e1, h1, hu1⟩ := unescape93_escape1 c (h c (by simp)) e2
    refine ⟨e1 ++ e2, ?_, ?_⟩
    · simp [code93Escape, h1, h2, bind, Except.bind, pure, Except.pure]
    · rw [hu1, hu2]; rfl

/-- bytes ≥ 128 cannot be escaped: both writers refuse them (clause "characters outside the alphabet are rejected") -/
theorem ext_rejects_non_ascii (c : Nat) (hc : 128 ≤ c) :
    code39Escape1 c = .error .writer ∧ code93Escape1 c = .error .writer := by
  constructor
  · unfold code39Escape1
    repeat (rw [if_neg (by omega)])
  · unfold code93Escape1
    repeat (rw [if_neg (by omega)])

/-! ### module level: the pattern tables are inverted exactly -/

/-- Clause "Code 128 … reads back", module layer: for every table of 106 six-element patterns and a seven-element
    STOP pattern with positive widths, pairwise distinct, the module pattern the writer draws for symbol
    characters `body ++ [STOP]` is split back into exactly these characters (run lengths in groups of six, table
    lookup), i.e. module-level reading = symbol-level reading of what was drawn. -/
theorem code128_ideal_decode_encode (T : Tables) (hT : WF128 T.code128 = true) (body : List Nat)
    (hb : ∀ c ∈ body, c < 106) :
    ∃ mods, code128Draw T (body ++ [106]) = .ok mods ∧
      code128Ideal T mods = code128ReadCodes (body ++ [106]) := by
  simp only [WF128, Bool.and_eq_true, beq_iff_eq, decide_eq_true_eq] at hT
  obtain ⟨⟨⟨hlen, h6⟩, h7⟩, hnd⟩ := hT
  generalize hP : T.code128 = P at *
  let W := body.map (fun c => P.getD c [])
  let stop := P.getD 106 []
  have hW : ∀ p ∈ W, p.length = 6 ∧ ∀ w ∈ p, 0 < w := by
    intro p hp
    obtain ⟨c, hc, rfl⟩ := List.mem_map.mp hp
    have := take_all_getD P 106 _ h6 c (hb c hc) (by have := hb c hc; omega)
    simp only [Bool.and_eq_true, beq_iff_eq, List.all_eq_true, decide_eq_true_eq] at this
    exact this
  have hstop : stop.length = 7 ∧ ∀ w ∈ stop, 0 < w := by
    have hm : stop ∈ P.drop 106 := by
      have : (P.drop 106)[0]'(by rw [List.length_drop]; omega) = stop := by
        simp [stop, List.getD_eq_getElem?_getD, List.getElem?_eq_getElem (show 106 < P.length by omega)]
      rw [← this]; exact List.getElem_mem _
    have := List.all_eq_true.mp h7 _ hm
    simp only [Bool.and_eq_true, beq_iff_eq, List.all_eq_true, decide_eq_true_eq] at this
    exact this
  have hdraw : code128Draw T (body ++ [106]) = .ok (appendPattern (W.flatten ++ stop) true) := by
    unfold code128Draw
    rw [hP]
    have hm : (body ++ [106]).mapM (nth P) = .ok ((body ++ [106]).map (fun c => P.getD c [])) := by
      apply mapM_ok
      intro c hc
      simp only [List.mem_append, List.mem_singleton] at hc
      apply nth_getD
      rcases hc with hc | rfl
      · have := hb c hc; omega
      · omega
    simp only [hm, bind, Except.bind, pure, Except.pure, List.map_append, List.map_cons, List.map_nil,
      List.flatten_append, List.flatten_cons, List.flatten_nil, List.append_nil, List.map_map]
    have he : ∀ p ∈ W, p.length % 2 = 0 := fun p hp => by have := (hW p hp).1; omega
    have := flatten_map_appendPattern W true he
    simp only [W, List.map_map] at this
    rw [this]
    exact congrArg _ (appendPattern_even_append _ _ true (flatten_length_even W he))
  refine ⟨_, hdraw, ?_⟩
  -- the reading side
  have hRpos : ∀ w ∈ W.flatten ++ stop, 0 < w := by
    intro w hw
    simp only [List.mem_append, List.mem_flatten] at hw
    rcases hw with ⟨p, hp, hwp⟩ | hw
    · exact (hW p hp).2 w hwp
    · exact hstop.2 w hw
  have hRne : W.flatten ++ stop ≠ [] := by
    intro e
    have := congrArg List.length e
    simp only [List.length_append, hstop.1, List.length_nil] at this; omega
  have hhead := appendPattern_head _ true hRne hRpos
  have hruns := runs_appendPattern _ true hRpos
  have hWlen : W.flatten.length = 6 * body.length := by
    have := flatten_length_const W 6 (fun p hp => (hW p hp).1)
    simpa [W] using this
  have htake : (W.flatten ++ stop).take ((W.flatten ++ stop).length - 7) = W.flatten := by
    have : (W.flatten ++ stop).length - 7 = W.flatten.length := by simp [hstop.1]
    rw [this, List.take_left']
    rfl
  have hdrop : (W.flatten ++ stop).drop ((W.flatten ++ stop).length - 7) = stop := by
    have : (W.flatten ++ stop).length - 7 = W.flatten.length := by simp [hstop.1]
    rw [this, List.drop_left']
    rfl
  have hchunks := chunks_exact 6 (by omega) W (fun p hp => (hW p hp).1)
  have hidx : W.mapM (patLookup P) = .ok body := by
    have h1 := mapM_ok (patLookup P) (fun p => (patIndex? p P).getD 0) W (by
      intro p hp
      obtain ⟨c, hc, rfl⟩ := List.mem_map.mp hp
      unfold patLookup
      rw [patIndex?_getD P hnd c (by have := hb c hc; omega)]
      rfl)
    rw [h1]
    congr 1
    simp only [W, List.map_map]
    conv => rhs; rw [← List.map_id body]
    apply List.map_congr_left
    intro c hc
    show (patIndex? (P.getD c []) P).getD 0 = id c
    rw [patIndex?_getD P hnd c (by have := hb c hc; omega)]
    rfl
  have hstopIdx : patIndex? stop P = some 106 := patIndex?_getD P hnd 106 (by omega)
  unfold code128Ideal
  rw [hP]
  simp only [hhead, hruns, ne_eq, not_true_eq_false, if_false, bind, Except.bind]
  have h7' : ¬ (W.flatten ++ stop).length < 7 := by simp [hstop.1]
  simp only [h7', if_false, htake, hdrop, hWlen]
  have h6' : 6 * body.length % 6 = 0 := by omega
  simp only [h6', not_true_eq_false, if_false]
  rw [← hWlen, hchunks, hidx]
  simp only [hstopIdx]

/-- Clause "ITF … reads back", module layer: for every table of ten distinct five-element patterns and positive
    guards, the module pattern drawn for a digit string of even length is split back into exactly these digits
    (guards recognised, ten runs per pair de-interleaved, table lookup) and then judged by the reader's length rule. -/
theorem itf_ideal_decode_encode (T : Tables) (hT : WFITF T = true) (allowed : List Nat) (ds : List Nat)
    (hd : ∀ d ∈ ds, d < 10) (heven : ds.length % 2 = 0) :
    ∃ mods, itfDraw T ds = .ok mods ∧ itfIdeal T allowed mods = itfReadDigits allowed ds := by
  simp only [WFITF, Bool.and_eq_true, beq_iff_eq, decide_eq_true_eq, List.all_eq_true] at hT
  obtain ⟨⟨⟨⟨⟨⟨hlen, hpat⟩, hnd⟩, hsl⟩, hsp⟩, hel⟩, hep⟩ := hT
  generalize hW : T.itfWriter = W at *
  generalize hS : T.itfStart = start at *
  generalize hE : T.itfEnd = stop at *
  have hpatD : ∀ d, d < 10 → (W.getD d []).length = 5 ∧ ∀ w ∈ W.getD d [], 0 < w := by
    intro d hd10
    have hm : W.getD d [] ∈ W := by
      have : W.getD d [] = W[d]'(by omega) := by
        simp [List.getD_eq_getElem?_getD, List.getElem?_eq_getElem (show d < W.length by omega)]
      rw [this]; exact List.getElem_mem _
    have := hpat _ hm
    exact ⟨this.1, this.2⟩
  let enc : Nat × Nat → List Nat := fun p => interleave (W.getD p.1 []) (W.getD p.2 [])
  let pairsW := (itfPairs ds).map enc
  have hpairs : ∀ p ∈ itfPairs ds, p.1 < 10 ∧ p.2 < 10 := fun p hp =>
    ⟨hd _ (itfPairs_mem ds p hp).1, hd _ (itfPairs_mem ds p hp).2⟩
  have hpW : ∀ c ∈ pairsW, c.length = 10 ∧ ∀ w ∈ c, 0 < w := by
    intro c hc
    obtain ⟨p, hp, rfl⟩ := List.mem_map.mp hc
    have h1 := hpatD p.1 (hpairs p hp).1
    have h2 := hpatD p.2 (hpairs p hp).2
    refine ⟨by simp only [enc]; rw [interleave_length _ _ (by omega)]; omega, ?_⟩
    intro w hw
    rcases interleave_mem _ _ w hw with h | h
    · exact h1.2 w h
    · exact h2.2 w h
  have hdraw : itfDraw T ds = .ok (appendPattern (start ++ pairsW.flatten ++ stop) true) := by
    unfold itfDraw
    rw [hW, hS, hE]
    have hm : (itfPairs ds).mapM (itfPairDraw W) = .ok ((itfPairs ds).map (fun p => appendPattern (enc p) true)) := by
      apply mapM_ok
      intro p hp
      have h1 := (hpairs p hp).1
      have h2 := (hpairs p hp).2
      simp only [itfPairDraw, nth_getD W p.1 (by omega), nth_getD W p.2 (by omega), bind, Except.bind, pure, Except.pure, enc]
    simp only [hm, bind, Except.bind, pure, Except.pure]
    have he : ∀ c ∈ pairsW, c.length % 2 = 0 := fun c hc => by have := (hpW c hc).1; omega
    have hfl := flatten_map_appendPattern pairsW true he
    simp only [pairsW, List.map_map] at hfl
    have hfl' : (List.map (fun p => appendPattern (enc p) true) (itfPairs ds)).flatten
        = appendPattern (List.map enc (itfPairs ds)).flatten true := hfl
    rw [hfl']
    congr 1
    rw [appendPattern_even_append _ _ true (by omega), appendPattern_even_append _ _ true (by
      simp only [List.length_append]
      have := flatten_length_even pairsW he
      simp only [pairsW] at this
      omega)]
  refine ⟨_, hdraw, ?_⟩
  have hRpos : ∀ w ∈ start ++ pairsW.flatten ++ stop, 0 < w := by
    intro w hw
    simp only [List.mem_append, List.mem_flatten] at hw
    rcases hw with (hw | ⟨c, hc, hwc⟩) | hw
    · have := hsp w hw; simpa using this
    · exact (hpW c hc).2 w hwc
    · have := hep w hw; simpa using this
  have hRne : start ++ pairsW.flatten ++ stop ≠ [] := by
    intro e
    have := congrArg List.length e
    simp only [List.length_append, hsl, hel, List.length_nil] at this; omega
  have hhead := appendPattern_head _ true hRne hRpos
  have hruns := runs_appendPattern _ true hRpos
  have hflen : pairsW.flatten.length = 10 * pairsW.length := flatten_length_const pairsW 10 (fun c hc => (hpW c hc).1)
  have hRlen : (start ++ pairsW.flatten ++ stop).length = pairsW.flatten.length + 7 := by
    simp only [List.length_append, hsl, hel]; omega
  have htake4 : (start ++ pairsW.flatten ++ stop).take 4 = start := by
    rw [List.append_assoc, ← hsl, List.take_left']; rfl
  have hdrop3 : (start ++ pairsW.flatten ++ stop).drop ((start ++ pairsW.flatten ++ stop).length - 3) = stop := by
    have : (start ++ pairsW.flatten ++ stop).length - 3 = (start ++ pairsW.flatten).length := by
      simp only [List.length_append, hel]; omega
    rw [this, List.drop_left']; rfl
  have hbody : ((start ++ pairsW.flatten ++ stop).drop 4).take ((start ++ pairsW.flatten ++ stop).length - 7)
      = pairsW.flatten := by
    have h1 : (start ++ pairsW.flatten ++ stop).drop 4 = pairsW.flatten ++ stop := by
      rw [List.append_assoc, ← hsl, List.drop_left']; rfl
    rw [h1, hRlen, Nat.add_sub_cancel, List.take_left']; rfl
  have hchunks := chunks_exact 10 (by omega) pairsW (fun c hc => (hpW c hc).1)
  have hdec : pairsW.mapM (itfPairRead W) = .ok ((itfPairs ds).map (fun p => [p.1, p.2])) := by
    have h1 := mapM_ok (itfPairRead W)
      (fun c => [(patIndex? (deinterleave c).1 W).getD 0, (patIndex? (deinterleave c).2 W).getD 0]) pairsW (by
        intro c hc
        obtain ⟨p, hp, rfl⟩ := List.mem_map.mp hc
        have h1 := (hpairs p hp).1
        have h2 := (hpairs p hp).2
        have hl : (W.getD p.1 []).length = (W.getD p.2 []).length := by
          rw [(hpatD _ h1).1, (hpatD _ h2).1]
        simp only [itfPairRead, enc, deinterleave_interleave _ _ hl, patLookup, patIndex?_getD W hnd p.1 (by omega),
          patIndex?_getD W hnd p.2 (by omega), bind, Except.bind, pure, Except.pure, Option.getD_some])
    rw [h1]
    congr 1
    simp only [pairsW, List.map_map]
    apply List.map_congr_left
    intro p hp
    have h1 := (hpairs p hp).1
    have h2 := (hpairs p hp).2
    have hl : (W.getD p.1 []).length = (W.getD p.2 []).length := by
      rw [(hpatD _ h1).1, (hpatD _ h2).1]
    simp only [Function.comp, enc, deinterleave_interleave _ _ hl, patIndex?_getD W hnd p.1 (by omega),
      patIndex?_getD W hnd p.2 (by omega), Option.getD_some]
  unfold itfIdeal
  rw [hW, hS, hE]
  simp only [hhead, hruns, ne_eq, not_true_eq_false, if_false, bind, Except.bind, pure, Except.pure]
  have hc1 : ¬ ((start ++ pairsW.flatten ++ stop).length < 7 ∨ ¬ (start ++ pairsW.flatten ++ stop).take 4 = start ∨
      ¬ (start ++ pairsW.flatten ++ stop).drop ((start ++ pairsW.flatten ++ stop).length - 3) = stop) := by
    rw [htake4, hdrop3, hRlen]; simp
  simp only [hc1, if_false, hbody]
  have hc2 : pairsW.flatten.length % 10 = 0 := by rw [hflen]; omega
  simp only [hc2, not_true_eq_false, if_false, hchunks, hdec, itfPairs_flatten ds heven]


/-! ### Code 128 code-set automaton -/

/-- all sequences of at most `n` character classes: digit pair "12", single digit "7", upper-case "A",
    lower-case "a", control character 0x01 — the classes `code128ChooseCode` distinguishes -/
def classSeqs : Nat → List (List Nat)
  | 0 => [[]]
  | n + 1 => [] :: (classSeqs n).flatMap (fun s => [[49, 50] ++ s, [55] ++ s, [65] ++ s, [97] ++ s, [1] ++ s])

/-- Clause "Code 128: ASCII 0-127 up to 80 chars incl. digit runs that trigger code set C and control characters
    that trigger code set A … read(write(c)) == c", symbol layer, FULL: whatever sequence of code sets the
    `chooseCode` look-ahead automaton selects for an ASCII content, the symbol characters the writer emits (start
    code, data, code-set switches, mod-103 check character, STOP) are decoded by the reader's state machine —
    including its treatment of the check character as data and its removal afterwards — to exactly the content. -/
theorem code128_codeset_inv (contents codes : List Nat) (hascii : ∀ c ∈ contents, c < 128)
    (h : code128Codes contents none = .ok codes) : code128ReadCodes codes = .ok contents := by
  unfold code128Codes at h
  simp only [bind, Except.bind, pure, Except.pure, throw, throwThe, MonadExceptOf.throw] at h
  split at h
  · cases h
  · split at h
    · cases h
    · split at h
      · cases h
      · rename_i emitted hloop
        cases h
        cases contents with
        | nil => simp [c128Loop] at hloop; subst hloop; rename_i hlen _ ; simp at hlen
        | cons c rest =>
          have hc : c < 128 := hascii c (by simp)
          have adm := chooseCode_adm c rest 0 hc
          obtain ⟨f, hfuel⟩ : ∃ f, 2 * (c :: rest).length + 2 = f + 1 := ⟨2 * (c :: rest).length + 1, by omega⟩
          rw [hfuel] at hloop
          simp only [c128Loop] at hloop
          have hn0 : ¬ chooseCode (c :: rest) 0 = 0 := by rcases adm.1 with h | h | h <;> omega
          simp only [hn0, if_false, if_true] at hloop
          obtain ⟨em, hem, hmv, hrd⟩ := loop_spec _ (c :: rest) false (chooseCode (c :: rest) 0) _ emitted hascii adm.1
            (Or.inr (Or.inr (chooseCode_idem c rest hc))) hloop
          subst hem
          generalize hn : chooseCode (c :: rest) 0 = n0 at *
          -- the start code and the reader's initial state
          generalize hst : (if n0 = 101 then 103 else if n0 = 100 then 104 else 105) = st at *
          have hst' : (st = 103 ∧ n0 = 101) ∨ (st = 104 ∧ n0 = 100) ∨ (st = 105 ∧ n0 = 99) := by
            rcases adm.1 with h | h | h <;> subst h <;> simp at hst <;> omega
          simp only [List.reverse_cons, List.reverse_nil, List.nil_append, List.cons_append, List.map_cons,
            List.map_append]
          have hsum : c128WriterSum ((st, false) :: em) 0 1 = (st + wsumFrom 1 (em.map (·.1))) % 103 := by
            simp only [c128WriterSum, Bool.false_eq_true, if_false]
            rw [writerSum_moved em _ 1 hmv]; simp
          rw [hsum]
          unfold code128ReadCodes
          have hstart : ¬ (st ≠ 103 ∧ st ≠ 104 ∧ st ≠ 105) := by omega
          simp only [hstart, if_false]
          have hcs0 : (if st = 103 then 101 else if st = 104 then 100 else 99) = n0 := by
            rcases hst' with ⟨h1, h2⟩ | ⟨h1, h2⟩ | ⟨h1, h2⟩ <;> subst h1 <;> subst h2 <;> simp
          rw [hcs0]
          have hs0 : StOk ⟨n0, [], true, false, false, false, 0, 0, st, 0⟩ n0 [] st 0 0 := by simp [StOk]
          obtain ⟨s', cs', cd', hrun, hs', hcs'⟩ := hrd _ _ _ _ _ hs0 [(st + wsumFrom 1 (em.map (·.1))) % 103, 106]
          simp only [Nat.zero_add, List.append_nil] at hs' hrun
          obtain ⟨s2, hrun2, hck, hcase⟩ := run_check_stop s' cs' _ _ _ cd' hs' hcs'
          have hrunAll : c128Run (List.map (fun x => x.1) em ++ [(st + wsumFrom 1 (em.map (·.1))) % 103, 106])
              ⟨n0, [], true, false, false, false, 0, 0, st, 0⟩ = .ok s2 := by rw [hrun, hrun2]
          rw [hrunAll]
          simp only [hck, ne_eq, not_true_eq_false, if_false]
          rcases hcase with ⟨hp, hres⟩ | ⟨hp, pr, hres, hlen⟩
          · simp [hp, hres]
          · have hlr : (s2.result.reverse).length = (c :: rest).length + pr.length := by
              rw [hres]; simp; omega
            have hk : pr.length = (if s2.codeSet = 99 then 2 else 1) := hlen
            simp only [hp, if_true]
            have hne : ¬ s2.result.reverse.length = 0 := by rw [hlr]; simp
            have hge : ¬ s2.result.reverse.length < (if s2.codeSet = 99 then 2 else 1) := by rw [hlr, ← hk]; omega
            simp only [hne, hge, if_false]
            congr 1
            rw [hlr, ← hk, Nat.add_sub_cancel, hres]
            simp only [List.reverse_append, List.reverse_reverse]
            rw [List.take_left']
            simp


/-- non-vacuity / regression: the identity evaluated by the kernel on all 780 non-empty sequences of at most four
    character classes (digit pair, digit, upper case, lower case, control) — every start-code choice and every
    A/B/C switch pattern of that depth -/
theorem code128_codeset_inv_depth4 :
    ((classSeqs 4).filter (· ≠ [])).all
      (fun s => (match code128Codes s none with | .ok cs => code128ReadCodes cs | .error e => .error e) == .ok s) = true := by
  decide +kernel

/-- forced code sets (FORCE_CODE_SET hint) on admissible contents — A: control + upper case, B: printable,
    C: digit pairs: evaluated instances (the general statement is `code128_forced_inv` below) -/
theorem code128_forced_inv_examples :
    (match code128Codes [1, 65, 48, 95, 0] (some 101) with | .ok cs => code128ReadCodes cs | .error e => .error e) = .ok [1, 65, 48, 95, 0] ∧
    (match code128Codes [97, 65, 48, 126, 33] (some 100) with | .ok cs => code128ReadCodes cs | .error e => .error e) = .ok [97, 65, 48, 126, 33] ∧
    (match code128Codes [49, 50, 51, 52, 48, 48] (some 99) with | .ok cs => code128ReadCodes cs | .error e => .error e) = .ok [49, 50, 51, 52, 48, 48] := by
  decide +kernel

/-! ### rejection of inadmissible contents -/

/-- ITF: odd length, more than 80 digits or a non-digit is a WriterException; everything else is accepted -/
theorem itf_writer_rejects (contents : List Nat) :
    itfSymbols contents =
      if contents.length % 2 ≠ 0 ∨ contents.length > 80 ∨ allDigits contents = false then .error .writer
      else .ok (digitVals contents) := by
  unfold itfSymbols
  by_cases h1 : contents.length % 2 ≠ 0
  · simp [h1, throw, throwThe, MonadExceptOf.throw, bind, Except.bind]
  · by_cases h2 : contents.length > 80
    · simp [h1, h2, throw, throwThe, MonadExceptOf.throw, bind, Except.bind, pure, Except.pure]
    · cases h3 : allDigits contents <;>
        simp [h1, h2, h3, throw, throwThe, MonadExceptOf.throw, bind, Except.bind, pure, Except.pure]

/-- Code 128: empty or longer than 80 characters, or a character the (forced) code set cannot hold, is a WriterException -/
theorem code128_writer_rejects (contents : List Nat) (forced : Option Nat)
    (h : contents.length < 1 ∨ contents.length > 80 ∨ contents.all (c128CharOk forced) = false) :
    code128Codes contents forced = .error .writer := by
  unfold code128Codes
  by_cases h1 : contents.length < 1 ∨ contents.length > 80
  · simp only [h1, if_true, throw, throwThe, MonadExceptOf.throw, bind, Except.bind]
  · have h3 : contents.all (c128CharOk forced) = false := by
      rcases h with h | h | h
      · exact absurd (Or.inl h) h1
      · exact absurd (Or.inr h) h1
      · exact h
    simp only [h1, if_false, h3, Bool.not_false, if_true, throw, throwThe, MonadExceptOf.throw, bind, Except.bind,
      pure, Except.pure]

/-- characters ≥ 128 that are not FNC escapes are never admissible -/
theorem code128_char_rejected (forced : Option Nat) (c : Nat) (hc : c > 127) (hf : c < 0xF1 ∨ c > 0xF4) :
    c128CharOk forced c = false := by
  unfold c128CharOk
  have h1 : ¬ (c = 0xF1 ∨ c = 0xF2 ∨ c = 0xF3 ∨ c = 0xF4) := by omega
  have h2 : ¬ c ≤ 127 := by omega
  simp [h1, h2]

/-- UPC/EAN: the module encoders fail exactly when the check-digit stage of C10 fails (wrong length, non-digit,
    wrong supplied check digit — theorems writer_rejects_wrong_check, writer_rejects_length_and_alphabet,
    upce_writer_rejects_wrong_check of Properties/C10) -/
theorem upcean_writer_rejects (T : Tables) (contents : List Nat) (e : Fault) :
    (stdWriterContents 13 contents = .error e → ean13Modules T contents = .error e) ∧
    (stdWriterContents 8 contents = .error e → ean8Modules T contents = .error e) ∧
    (stdWriterContents 13 (48 :: contents) = .error e → upcaModules T contents = .error e) ∧
    (upceWriterContents contents = .error e → upceModules T contents = .error e) := by
  refine ⟨?_, ?_, ?_, ?_⟩ <;> intro h
  · simp [ean13Modules, h, bind, Except.bind]
  · simp [ean8Modules, h, bind, Except.bind]
  · simp [upcaModules, ean13Modules, h, bind, Except.bind]
  · simp [upceModules, h, bind, Except.bind]

/-! ### writer ∘ reader -/

/-- Clause "ITF: even digit strings of the reader's accepted lengths … read(write(c)) == c": composition of the writer
    (validation, interleaving, drawing) with the module-level reader, for every accepted content. -/
theorem itf_read_write (T : Tables) (hT : WFITF T = true) (allowed : List Nat) (contents : List Nat)
    (hdig : allDigits contents = true) (heven : contents.length % 2 = 0) (hlen : contents.length ≤ 80)
    (hallowed : allowed.contains contents.length = true ∨ contents.length > allowed.foldl max 0) :
    ∃ mods, itfModules T contents = .ok mods ∧ itfIdeal T allowed mods = .ok contents := by
  have hsym : itfSymbols contents = .ok (digitVals contents) := by
    rw [itf_writer_rejects]
    have : ¬ (contents.length % 2 ≠ 0 ∨ contents.length > 80 ∨ allDigits contents = false) := by
      simp [heven, hdig]; omega
    rw [if_neg this]
  have hdl : (digitVals contents).length = contents.length := by simp [digitVals]
  obtain ⟨mods, hdraw, hideal⟩ := itf_ideal_decode_encode T hT allowed (digitVals contents)
    (digitVals_lt contents hdig) (by rw [hdl]; exact heven)
  refine ⟨mods, ?_, ?_⟩
  · simp only [itfModules, hsym, bind, Except.bind]
    exact hdraw
  · rw [hideal]
    unfold itfReadDigits
    simp only [hdl]
    have : (allowed.contains contents.length = true ∨ contents.length > allowed.foldl max 0) := hallowed
    rw [if_pos this, digitVals_roundtrip contents hdig]

/-- Clause "Code 39 incl. full-ASCII … reads back as exactly that content", symbol layer: whatever symbol characters
    the Code 39 writer chooses for a non-empty ASCII content (plain when every character is in the 43-character
    alphabet, full-ASCII escapes otherwise), the matching reader mode (plain / extended) returns the content. -/
theorem code39_read_write (T : Tables) (contents syms : List Nat) (hne : contents ≠ [])
    (hascii : ∀ c ∈ contents, c < 128) (h : code39Symbols T contents = .ok syms) :
    code39ReadSymbols T syms (!(contents.all (fun c => (indexOf? c T.code39Alphabet).isSome))) = .ok contents := by
  unfold code39Symbols at h
  simp only [bind, Except.bind, pure, Except.pure, throw, throwThe, MonadExceptOf.throw] at h
  split at h
  · cases h
  · by_cases hall : contents.all (fun c => (indexOf? c T.code39Alphabet).isSome) = true
    · simp only [hall, if_true] at h
      have hchars := mapM_alphaIndex_nth _ _ _ h
      unfold code39ReadSymbols
      simp only [hchars, bind, Except.bind, pure, Except.pure, hall, Bool.not_true]
      have : contents.isEmpty = false := by cases contents <;> simp_all
      simp [this]
    · have hall' : contents.all (fun c => (indexOf? c T.code39Alphabet).isSome) = false := by
        simpa using hall
      obtain ⟨e, he, hu⟩ := ext39_inv contents hascii
      simp only [hall', Bool.false_eq_true, if_false, he] at h
      split at h
      · cases h
      · have hchars := mapM_alphaIndex_nth _ _ _ h
        unfold code39ReadSymbols
        simp only [hchars, bind, Except.bind, pure, Except.pure, hall', Bool.not_false]
        have : e.isEmpty = false := by
          cases e with
          | nil => simp [code39Unescape] at hu; exact absurd hu hne
          | cons _ _ => rfl
        simp [this, hu]

/-- Clause "Code 93: ASCII 0-127 … reads back", symbol layer: the characters the Code 93 writer draws for an ASCII
    content (escapes, C and K) pass the reader's checksum test and unescape to the content. -/
theorem code93_read_write (T : Tables) (contents syms : List Nat)
    (hascii : ∀ c ∈ contents, c < 128) (h : code93Symbols T contents = .ok syms) :
    code93ReadSymbols T syms = .ok contents := by
  unfold code93Symbols at h
  obtain ⟨e, he, hu⟩ := ext93_inv contents hascii
  simp only [he, bind, Except.bind, pure, Except.pure, throw, throwThe, MonadExceptOf.throw] at h
  split at h
  · cases h
  · split at h
    · cases h
    · rename_i vals hvals
      cases h
      have hchars := mapM_alphaIndex_nth _ _ _ hvals
      unfold code93ReadSymbols
      have hl : ¬ (vals ++ [(c93Checks vals).1, (c93Checks vals).2]).length < 2 := by simp
      have htake : (vals ++ [(c93Checks vals).1, (c93Checks vals).2]).take
          ((vals ++ [(c93Checks vals).1, (c93Checks vals).2]).length - 2) = vals := by
        have : (vals ++ [(c93Checks vals).1, (c93Checks vals).2]).length - 2 = vals.length := by simp
        rw [this, List.take_left']; rfl
      simp only [hl, if_false, bind, Except.bind, pure, Except.pure, throw, throwThe, MonadExceptOf.throw,
        Properties.C10.code93_writer_checks_accepted vals, htake, hchars, hu]

/-- Clause "Code 128 … read(write(c)) == c", writer to module pattern to reader: for every well-formed pattern table
    and every ASCII content the writer accepts (no forced code set), the module pattern it draws is read back, at
    module level (run lengths, table lookup, the reader's state machine and checksum test), as the content. -/
theorem code128_read_write (T : Tables) (hT : WF128 T.code128 = true) (contents : List Nat) (mods : List Bool)
    (hascii : ∀ c ∈ contents, c < 128) (h : code128Modules T contents none = .ok mods) :
    code128Ideal T mods = .ok contents := by
  unfold code128Modules at h
  simp only [bind, Except.bind] at h
  split at h
  · cases h
  · rename_i codes hcodes
    have hread := code128_codeset_inv contents codes hascii hcodes
    -- shape of the code list: everything before STOP is below 106
    have hshape : ∃ body, codes = body ++ [106] ∧ ∀ c ∈ body, c < 106 := by
      unfold code128Codes at hcodes
      simp only [bind, Except.bind, pure, Except.pure, throw, throwThe, MonadExceptOf.throw] at hcodes
      split at hcodes
      · cases hcodes
      · split at hcodes
        · cases hcodes
        · split at hcodes
          · cases hcodes
          · rename_i emitted hloop
            cases hcodes
            cases contents with
            | nil => simp [c128Loop] at hloop; subst hloop; rename_i hlen _; simp at hlen
            | cons c rest =>
              have hc : c < 128 := hascii c (by simp)
              have adm := chooseCode_adm c rest 0 hc
              obtain ⟨f, hfuel⟩ : ∃ f, 2 * (c :: rest).length + 2 = f + 1 := ⟨2 * (c :: rest).length + 1, by omega⟩
              rw [hfuel] at hloop
              simp only [c128Loop] at hloop
              have hn0 : ¬ chooseCode (c :: rest) 0 = 0 := by rcases adm.1 with h | h | h <;> omega
              simp only [hn0, if_false, if_true] at hloop
              have hlt := loop_idx_lt f (c :: rest) false (chooseCode (c :: rest) 0) _ emitted hascii adm.1
                (by intro e he
                    simp only [List.mem_singleton] at he
                    subst he
                    simp; split <;> (try split) <;> omega) hloop
              refine ⟨emitted.map (·.1) ++ [c128WriterSum emitted 0 1], by simp, ?_⟩
              intro x hx
              simp only [List.mem_append, List.mem_map, List.mem_singleton] at hx
              rcases hx with ⟨e, he, rfl⟩ | rfl
              · exact hlt e he
              · have : c128WriterSum emitted 0 1 < 103 := c128WriterSum_lt emitted 0 1
                omega
    obtain ⟨body, rfl, hb⟩ := hshape
    obtain ⟨mods', hdraw, hideal⟩ := code128_ideal_decode_encode T hT body hb
    rw [hdraw] at h
    cases h
    rw [hideal, hread]

/-- Clause "Code 128 … and each forced code set": with the FORCE_CODE_SET hint (A, B or C) every ASCII content the
    writer accepts for that set is emitted entirely in that set and decoded by the reader's state machine to
    exactly the content. -/
theorem code128_forced_inv (f : Nat) (hf : f = 99 ∨ f = 100 ∨ f = 101) (contents codes : List Nat)
    (hascii : ∀ c ∈ contents, c < 128) (h : code128Codes contents (some f) = .ok codes) :
    code128ReadCodes codes = .ok contents := by
  unfold code128Codes at h
  simp only [bind, Except.bind, pure, Except.pure, throw, throwThe, MonadExceptOf.throw] at h
  split at h
  · cases h
  · split at h
    · cases h
    · rename_i hall
      split at h
      · cases h
      · rename_i emitted hloop
        cases h
        have hok : ∀ c ∈ contents, c128CharOk (some f) c = true := by
          have : contents.all (c128CharOk (some f)) = true := by simpa using hall
          exact List.all_eq_true.mp this
        cases contents with
        | nil => exfalso; simp_all
        | cons c rest =>
          obtain ⟨fu, hfuel⟩ : ∃ fu, 2 * (c :: rest).length + 2 = fu + 1 := ⟨2 * (c :: rest).length + 1, by omega⟩
          rw [hfuel] at hloop
          simp only [c128Loop] at hloop
          have hn0 : ¬ f = 0 := by omega
          simp only [hn0, if_false, if_true] at hloop
          obtain ⟨em, hem, hmv, _, hrd⟩ := loop_spec_forced f hf fu (c :: rest) false _ emitted hascii hok
            (Or.inr trivial) hloop
          subst hem
          generalize hst : (if f = 101 then 103 else if f = 100 then 104 else 105) = st at *
          have hst' : (st = 103 ∧ f = 101) ∨ (st = 104 ∧ f = 100) ∨ (st = 105 ∧ f = 99) := by
            rcases hf with h | h | h <;> subst h <;> simp at hst <;> omega
          simp only [List.reverse_cons, List.reverse_nil, List.nil_append, List.cons_append, List.map_cons,
            List.map_append]
          have hsum : c128WriterSum ((st, false) :: em) 0 1 = (st + wsumFrom 1 (em.map (·.1))) % 103 := by
            simp only [c128WriterSum, Bool.false_eq_true, if_false]
            rw [writerSum_moved em _ 1 hmv]; simp
          rw [hsum]
          unfold code128ReadCodes
          have hstart : ¬ (st ≠ 103 ∧ st ≠ 104 ∧ st ≠ 105) := by omega
          simp only [hstart, if_false]
          have hcs0 : (if st = 103 then 101 else if st = 104 then 100 else 99) = f := by
            rcases hst' with ⟨h1, h2⟩ | ⟨h1, h2⟩ | ⟨h1, h2⟩ <;> subst h1 <;> subst h2 <;> simp
          rw [hcs0]
          have hs0 : StOk ⟨f, [], true, false, false, false, 0, 0, st, 0⟩ f [] st 0 0 := by simp [StOk]
          obtain ⟨s', cd', hrun, hs'⟩ := hrd _ _ _ _ _ hs0 [(st + wsumFrom 1 (em.map (·.1))) % 103, 106]
          simp only [Nat.zero_add, List.append_nil] at hs' hrun
          obtain ⟨s2, hrun2, hck, hcase⟩ := run_check_stop s' f _ _ _ cd' hs' hf
          have hrunAll : c128Run (List.map (fun x => x.1) em ++ [(st + wsumFrom 1 (em.map (·.1))) % 103, 106])
              ⟨f, [], true, false, false, false, 0, 0, st, 0⟩ = .ok s2 := by rw [hrun, hrun2]
          rw [hrunAll]
          simp only [hck, ne_eq, not_true_eq_false, if_false]
          rcases hcase with ⟨hp, hres⟩ | ⟨hp, pr, hres, hlen⟩
          · simp [hp, hres]
          · have hlr : (s2.result.reverse).length = (c :: rest).length + pr.length := by
              rw [hres]; simp; omega
            have hk : pr.length = (if s2.codeSet = 99 then 2 else 1) := hlen
            simp only [hp, if_true]
            have hne : ¬ s2.result.reverse.length = 0 := by rw [hlr]; simp
            have hge : ¬ s2.result.reverse.length < (if s2.codeSet = 99 then 2 else 1) := by rw [hlr, ← hk]; omega
            simp only [hne, hge, if_false]
            congr 1
            rw [hlr, ← hk, Nat.add_sub_cancel, hres]
            simp only [List.reverse_append, List.reverse_reverse]
            rw [List.take_left']
            simp

/-! ### Codabar -/

/-- Clause "Codabar … reads back", module layer: for every table of twenty pairwise distinct 7-bit words, the module
    pattern drawn for the alphabet indices `idx` (start, data…, stop; 7 elements narrow = 1 / wide = 2 modules and a
    narrow gap between characters) is split back into exactly these indices and then judged by the reader's guard and
    length rules. -/
theorem codabar_ideal_decode_encode (T : Tables) (hT : WFCodabar T = true) (idx : List Nat)
    (hidx : ∀ i ∈ idx, i < 20) (hne : idx ≠ []) :
    codabarIdeal T (codabarDraw (idx.map (fun i => T.codabarEnc.getD i 0))) = codabarReadSymbols T idx :=
  codabar_ideal_core T hT idx hidx hne

/-- Clause "Codabar: digits and - $ : / . + between start/stop characters A-D (also written T N * E or in lower case;
    A…A is added when the content has no guards) … read(write(c)) == c without the guards": for every table of twenty
    pairwise distinct 7-bit words over the standard alphabet, every content the writer accepts (`codabarFull contents
    = ok full`, `full` = the characters drawn incl. guards) with at least two data characters (the reader refuses
    shorter symbols) is drawn as a module pattern that the module-level reader returns as exactly the data characters
    between the guards. -/
theorem codabar_read_write (T : Tables) (hT : WFCodabar T = true) (hA : T.codabarAlphabet = refTables.codabarAlphabet)
    (contents full : List Nat) (h : codabarFull contents = .ok full) (hlen : full.length > 3) :
    ∃ mods, codabarModules T contents = .ok mods ∧ codabarIdeal T mods = .ok ((full.drop 1).dropLast) :=
  codabar_read_write_core T hT hA contents full h hlen

/-! ### the UPC/EAN row decoder returns only verified numbers -/

/-- Clause (C10) "Readers never return a symbol whose check characters do not verify", on the row-decoder model:
    whatever pixel row is given, any text `decodeRow` returns has passed `checkChecksum` — for EAN-13 / EAN-8 the
    mod-10 test, for UPC-E the mod-10 test of the expansion, for UPC-A the EAN-13 test of "0"+text.
    By inspection of the control flow: the checksum test is the last gate before the result. -/
theorem reader_result_verifies (T : Tables) (k : EanKind) (row : List Bool) (text : List Nat)
    (h : decodeRow T k row = .ok text) :
    readerAccept (if k = .upca then .ean13 else k) (if k = .upca then 48 :: text else text) = .ok () := by
  unfold decodeRow at h
  simp only [bind, Except.bind] at h
  split at h
  · cases h
  · rename_i sg hsg
    unfold decodeWithStart at h
    cases k <;>
      simp only [bind, Except.bind, pure, Except.pure, throw, throwThe, MonadExceptOf.throw, reduceCtorEq,
        if_false, if_true] at h ⊢
    · -- ean13
      split at h
      · cases h
      · split at h
        · cases h
        · split at h
          · cases h
          · split at h
            · cases h
            · split at h
              · cases h
              · rename_i hacc; cases h; exact hacc
    · -- ean8
      split at h
      · cases h
      · split at h
        · cases h
        · split at h
          · cases h
          · split at h
            · cases h
            · split at h
              · cases h
              · rename_i hacc; cases h; exact hacc
    · -- upca
      split at h
      · cases h
      · split at h
        · cases h
        · split at h
          · cases h
          · split at h
            · cases h
            · split at h
              · cases h
              · rename_i hacc
                split at h
                · rename_i rest hres
                  cases h
                  rw [← hres]; exact hacc
                · cases h
    · -- upce
      split at h
      · cases h
      · split at h
        · cases h
        · split at h
          · cases h
          · split at h
            · cases h
            · split at h
              · cases h
              · rename_i hacc; cases h; exact hacc

/-! ### the faithful row decoder reads what the UPC/EAN writers wrote -/

/-- Clause "EAN-13 / EAN-8 / UPC-A / UPC-E: read(write(c)) == c (with the check digit appended when the writer
    computed it), same format", FULL on the row-decoder model, at every scale:
    for every table `T` that is well-formed (`WFUpcEan`: ten L patterns of four positive widths summing to 7, the twenty
    L/G patterns pairwise distinct, guards non-empty with positive widths and alternating colours, the UPC-E reader's
    end pattern = the writer's, parity tables of pairwise distinct 6-bit words — discharged for the regenerated tables
    of /repo in Obligations/C03.lean), every symbology `k`, every content the writer accepts (`writerContents k contents
    = ok full`, `full` = the digit string incl. check digit), the writer draws a module pattern `mods`, and for every
    scale `s ≥ 1` (pixels per module) and quiet zones `lq ≥ s·|start guard|` on the left, `rq > s·|end guard|` on the
    right (start guard 3 modules; end guard 3 modules, 6 for UPC-E) the row decoder as coded — start-guard search with its
    quiet-zone test, best-match digit decoding over exact PatternMatchVariance with both thresholds, middle / end guard
    search, right quiet-zone test, parity decoding, checksum — returns exactly `full` (UPC-A: `full` without the "0"
    the writer prepended).  These quiet-zone conditions are exactly what the code tests (`start - (end-start) >= 0`
    and white; `quietEnd = end + (end-start) < size` and white), so they are necessary as well. -/
theorem upcean_read_write (T : Tables) (hT : WFUpcEan T = true) (k : EanKind) (contents full : List Nat)
    (hw : writerContents k contents = .ok full) :
    ∃ mods, upceanModules T k contents = .ok mods ∧
      ∀ (lq s rq : Nat), 1 ≤ s → lq ≥ s * OneD.sumL T.startEnd → rq > s * OneD.sumL (endGuardOf T k) →
        decodeRow T k (paddedRow lq s rq mods) = .ok (upceanCanonical k full) :=
  upcean_read_write_core T hT k contents full hw

/-- the same through the writer's own rendering (`onedWriter_renderResult`, one pixel row): at EVERY requested width
    the rendered row is read back, provided the margin (in modules) is at least twice the start guard and more than
    twice the end guard — 7 for EAN-13 / EAN-8 / UPC-A (their default margin is 9), 13 for UPC-E (default 9: the
    known finding, see the counterexample below). -/
theorem upcean_read_write_rendered (T : Tables) (hT : WFUpcEan T = true) (k : EanKind) (contents full : List Nat)
    (hw : writerContents k contents = .ok full) (width margin : Nat)
    (hm1 : margin ≥ 2 * OneD.sumL T.startEnd) (hm2 : margin ≥ 2 * OneD.sumL (endGuardOf T k) + 1) :
    ∃ mods row, upceanModules T k contents = .ok mods ∧ renderRow mods width margin = .ok row ∧
      decodeRow T k row = .ok (upceanCanonical k full) :=
  upcean_rendered_core T hT k contents full hw width margin hm1 hm2

/-- the right quiet-zone hypothesis cannot be weakened: with `rq = s·|end guard|` the same row is refused
    (EAN-8 "12345670", scale 1, 3 white pixels on the right) -/
theorem upcean_right_quiet_zone_needed :
    (ean8Modules refTables (digitBytes [1, 2, 3, 4, 5, 6, 7])).bind
      (fun m => decodeRow refTables .ean8 (paddedRow 3 1 3 m)) = .error .notFound := by decide +kernel

/-! ### non-vacuity and evaluated end-to-end instances -/
example : WF128 refTables.code128 = true := by decide +kernel
example : WFUpcEan refTables = true := by decide +kernel
example : OneD.sumL refTables.startEnd = 3 ∧ OneD.sumL (endGuardOf refTables .ean13) = 3 ∧ OneD.sumL (endGuardOf refTables .upce) = 6 := by decide
example : writerContents .ean13 (digitBytes [4, 0, 0, 6, 3, 8, 1, 3, 3, 3, 9, 3]) = .ok (digitBytes [4, 0, 0, 6, 3, 8, 1, 3, 3, 3, 9, 3, 1]) := by decide
example : writerContents .upce (digitBytes [0, 1, 2, 3, 4, 5, 6]) = .ok (digitBytes [0, 1, 2, 3, 4, 5, 6, 5]) := by decide
/-- an instance of `upcean_read_write` run by the kernel: EAN-8 at 3 px/module, quiet zones 9 and 10 -/
example : (ean8Modules refTables (digitBytes [1, 2, 3, 4, 5, 6, 7])).bind
    (fun m => decodeRow refTables .ean8 (paddedRow 9 3 10 m)) = .ok (digitBytes [1, 2, 3, 4, 5, 6, 7, 0]) := by decide +kernel
example : WFITF refTables = true := by decide
example : WFCodabar refTables = true := by decide
example : codabarFull (bytesOf "12-34") = .ok (bytesOf "A12-34A") ∧ codabarFull (bytesOf "t12*") = .ok (bytesOf "t12*") := by decide
example : (codabarModules refTables (bytesOf "t12*")).bind (codabarIdeal refTables) = .ok (bytesOf "12") := by decide +kernel
example : code128Codes [65, 49, 50, 51, 52, 97] none = .ok [104, 33, 99, 12, 34, 100, 65, 58, 106] := by decide +kernel
example : code128ReadCodes [104, 33, 99, 12, 34, 100, 65, 58, 106] = .ok [65, 49, 50, 51, 52, 97] := by decide +kernel
example : code39Symbols refTables [65, 97] = .ok [10, 41, 10] := by decide
example : code39ReadSymbols refTables [10, 41, 10] true = .ok [65, 97] := by decide
example : (itfModules refTables (digitBytes [1, 2, 3, 4, 5, 6])).bind (itfIdeal refTables [6, 8, 10, 12, 14])
    = .ok (digitBytes [1, 2, 3, 4, 5, 6]) := by decide +kernel
/-- EAN-13 "4006381333931": writer → default rendering (margin 9) → row decoder model, inside the kernel -/
example : ((ean13Modules refTables (digitBytes [4, 0, 0, 6, 3, 8, 1, 3, 3, 3, 9, 3])).bind (fun m => renderRow m 0 9)).bind
    (decodeRow refTables .ean13) = .ok (digitBytes [4, 0, 0, 6, 3, 8, 1, 3, 3, 3, 9, 3, 1]) := by decide +kernel
/-- the same symbol at 2 px / module through the multi-format dispatch without hint: EAN_13 -/
example : ((ean13Modules refTables (digitBytes [4, 0, 0, 6, 3, 8, 1, 3, 3, 3, 9, 3])).bind (fun m => renderRow m 208 9)).bind
    (multiDecodeRow refTables []) = .ok (.ean13, digitBytes [4, 0, 0, 6, 3, 8, 1, 3, 3, 3, 9, 3, 1]) := by decide +kernel
/-- KNOWN FINDING on the model (mirrors the code): UPC-E "0000000" rendered with the default margin 9 is NOT read
    back — the right quiet zone (5 px) is narrower than the 6-module end guard the reader insists on … -/
example : ((upceModules refTables (digitBytes [0, 0, 0, 0, 0, 0, 0])).bind (fun m => renderRow m 0 9)).bind
    (decodeRow refTables .upce) = .error .notFound := by decide +kernel
/-- … while with margin 14 (7 px on the right) it is -/
example : ((upceModules refTables (digitBytes [0, 0, 0, 0, 0, 0, 0])).bind (fun m => renderRow m 0 14)).bind
    (decodeRow refTables .upce) = .ok (digitBytes [0, 0, 0, 0, 0, 0, 0, 0]) := by decide +kernel

end Gzx.Properties.C03
