/-
  C03 — 1-D symbologies: a written barcode reads back as the same content and format.
  Property theorems only (helper lemmas: Gzx/Proofs/OneD.lean).
  Model: Gzx/Model/OneD.lean, tied to /repo/oned by the `c03` correspondence suite; pattern tables are
  parameters (`Tables`), the regenerated tables of /repo are shown equal to `refTables` and well-formed in
  Obligations/C03.lean.
-/
import Gzx.Proofs.OneD
import Gzx.Properties.C10
set_option linter.unusedSimpArgs false
namespace Gzx.Properties.C03
open Gzx Gzx.CheckDigit Gzx.OneD

/-! ### full-ASCII escaping (Code 39 extended mode, Code 93) -/

/-- Clause "Code 39 incl. full ASCII … reads back as exactly that content", escaping layer:
    `code39DecodeExtended ∘ code39TryToConvertToExtendedMode = id` on every ASCII string (0..127). -/
theorem ext39_inv (cs : List Nat) (h : ∀ c ∈ cs, c < 128) :
    ∃ e, code39Escape cs = .ok e ∧ code39Unescape e = .ok cs := by
  induction cs with
  | nil => exact ⟨[], rfl, rfl⟩
  | cons c cs ih =>
    obtain ⟨e2, h2, hu2⟩ := ih (fun x hx => h x (by simp [hx]))
    obtain ⟨e1, h1, hu1⟩ := unescape39_escape1 c (h c (by simp)) e2
    refine ⟨e1 ++ e2, ?_, ?_⟩
    · simp [code39Escape, h1, h2, bind, Except.bind, pure, Except.pure]
    · rw [hu1, hu2]; rfl

/-- the same for Code 93: `code93DecodeExtended ∘ code93ConvertToExtended = id` on ASCII 0..127 -/
theorem ext93_inv (cs : List Nat) (h : ∀ c ∈ cs, c < 128) :
    ∃ e, code93Escape cs = .ok e ∧ code93Unescape e = .ok cs := by
  induction cs with
  | nil => exact ⟨[], rfl, rfl⟩
  | cons c cs ih =>
    obtain ⟨e2, h2, hu2⟩ := ih (fun x hx => h x (by simp [hx]))
    obtain ⟨e1, h1, hu1⟩ := unescape93_escape1 c (h c (by simp)) e2
    refine ⟨e1 ++ e2, ?_, ?_⟩
    · simp [code93Escape, h1, h2, bind, Except.bind, pure, Except.pure]
    · rw [hu1, hu2]; rfl

/-- bytes ≥ 128 cannot be escaped: both writers refuse them (clause "characters outside the alphabet are rejected") -/
theorem ext_rejects_non_ascii (c : Nat) (hc : 128 ≤ c) :
    code39Escape1 c = .error .writer ∧ code93Escape1 c = .error .writer := by
  constructor
  · unfold code39Escape1
    repeat (rw [if_neg (by omega)])
  · unfold code93Escape1
    repeat (rw [if_neg (by omega)])

/-! ### module level: the pattern tables are inverted exactly -/

/-- Clause "Code 128 … reads back", module layer: for every table of 106 six-element patterns and a seven-element
    STOP pattern with positive widths, pairwise distinct, the module pattern the writer draws for symbol
    characters `body ++ [STOP]` is split back into exactly these characters (run lengths in groups of six, table
    lookup), i.e. module-level reading = symbol-level reading of what was drawn. -/
theorem code128_ideal_decode_encode (T : Tables) (hT : WF128 T.code128 = true) (body : List Nat)
    (hb : ∀ c ∈ body, c < 106) :
    ∃ mods, code128Draw T (body ++ [106]) = .ok mods ∧
      code128Ideal T mods = code128ReadCodes (body ++ [106]) := by
  simp only [WF128, Bool.and_eq_true, beq_iff_eq, decide_eq_true_eq] at hT
  obtain ⟨⟨⟨hlen, h6⟩, h7⟩, hnd⟩ := hT
  generalize hP : T.code128 = P at *
  let W := body.map (fun c => P.getD c [])
  let stop := P.getD 106 []
  have hW : ∀ p ∈ W, p.length = 6 ∧ ∀ w ∈ p, 0 < w := by
    intro p hp
    obtain ⟨c, hc, rfl⟩ := List.mem_map.mp hp
    have := take_all_getD P 106 _ h6 c (hb c hc) (by have := hb c hc; omega)
    simp only [Bool.and_eq_true, beq_iff_eq, List.all_eq_true, decide_eq_true_eq] at this
    exact this
  have hstop : stop.length = 7 ∧ ∀ w ∈ stop, 0 < w := by
    have hm : stop ∈ P.drop 106 := by
      have : (P.drop 106)[0]'(by rw [List.length_drop]; omega) = stop := by
        simp [stop, List.getD_eq_getElem?_getD, List.getElem?_eq_getElem (show 106 < P.length by omega)]
      rw [← this]; exact List.getElem_mem _
    have := List.all_eq_true.mp h7 _ hm
    simp only [Bool.and_eq_true, beq_iff_eq, List.all_eq_true, decide_eq_true_eq] at this
    exact this
  have hdraw : code128Draw T (body ++ [106]) = .ok (appendPattern (W.flatten ++ stop) true) := by
    unfold code128Draw
    rw [hP]
    have hm : (body ++ [106]).mapM (nth P) = .ok ((body ++ [106]).map (fun c => P.getD c [])) := by
      apply mapM_ok
      intro c hc
      simp only [List.mem_append, List.mem_singleton] at hc
      apply nth_getD
      rcases hc with hc | rfl
      · have := hb c hc; omega
      · omega
    simp only [hm, bind, Except.bind, pure, Except.pure, List.map_append, List.map_cons, List.map_nil,
      List.flatten_append, List.flatten_cons, List.flatten_nil, List.append_nil, List.map_map]
    have he : ∀ p ∈ W, p.length % 2 = 0 := fun p hp => by have := (hW p hp).1; omega
    have := flatten_map_appendPattern W true he
    simp only [W, List.map_map] at this
    rw [this]
    exact congrArg _ (appendPattern_even_append _ _ true (flatten_length_even W he))
  refine ⟨_, hdraw, ?_⟩
  -- the reading side
  have hRpos : ∀ w ∈ W.flatten ++ stop, 0 < w := by
    intro w hw
    simp only [List.mem_append, List.mem_flatten] at hw
    rcases hw with ⟨p, hp, hwp⟩ | hw
    · exact (hW p hp).2 w hwp
    · exact hstop.2 w hw
  have hRne : W.flatten ++ stop ≠ [] := by
    intro e
    have := congrArg List.length e
    simp only [List.length_append, hstop.1, List.length_nil] at this; omega
  have hhead := appendPattern_head _ true hRne hRpos
  have hruns := runs_appendPattern _ true hRpos
  have hWlen : W.flatten.length = 6 * body.length := by
    have := flatten_length_const W 6 (fun p hp => (hW p hp).1)
    simpa [W] using this
  have htake : (W.flatten ++ stop).take ((W.flatten ++ stop).length - 7) = W.flatten := by
    have : (W.flatten ++ stop).length - 7 = W.flatten.length := by simp [hstop.1]
    rw [this, List.take_left']
    rfl
  have hdrop : (W.flatten ++ stop).drop ((W.flatten ++ stop).length - 7) = stop := by
    have : (W.flatten ++ stop).length - 7 = W.flatten.length := by simp [hstop.1]
    rw [this, List.drop_left']
    rfl
  have hchunks := chunks_exact 6 (by omega) W (fun p hp => (hW p hp).1)
  have hidx : W.mapM (patLookup P) = .ok body := by
    have h1 := mapM_ok (patLookup P) (fun p => (patIndex? p P).getD 0) W (by
      intro p hp
      obtain ⟨c, hc, rfl⟩ := List.mem_map.mp hp
      unfold patLookup
      rw [patIndex?_getD P hnd c (by have := hb c hc; omega)]
      rfl)
    rw [h1]
    congr 1
    simp only [W, List.map_map]
    conv => rhs; rw [← List.map_id body]
    apply List.map_congr_left
    intro c hc
    show (patIndex? (P.getD c []) P).getD 0 = id c
    rw [patIndex?_getD P hnd c (by have := hb c hc; omega)]
    rfl
  have hstopIdx : patIndex? stop P = some 106 := patIndex?_getD P hnd 106 (by omega)
  unfold code128Ideal
  rw [hP]
  simp only [hhead, hruns, ne_eq, not_true_eq_false, if_false, bind, Except.bind]
  have h7' : ¬ (W.flatten ++ stop).length < 7 := by simp [hstop.1]
  simp only [h7', if_false, htake, hdrop, hWlen]
  have h6' : 6 * body.length % 6 = 0 := by omega
  simp only [h6', not_true_eq_false, if_false]
  rw [← hWlen, hchunks, hidx]
  simp only [hstopIdx]

/-! ### Code 128 code-set automaton -/

/-- all sequences of at most `n` character classes: digit pair "12", single digit "7", upper-case "A",
    lower-case "a", control character 0x01 — the classes `code128ChooseCode` distinguishes -/
def classSeqs : Nat → List (List Nat)
  | 0 => [[]]
  | n + 1 => [] :: (classSeqs n).flatMap (fun s => [[49, 50] ++ s, [55] ++ s, [65] ++ s, [97] ++ s, [1] ++ s])

/-- FULL STATEMENT (not proved in general): for every ASCII content of 1..80 characters and every forced code set
    the content is admissible for, `code128ReadCodes (code128Codes content forced) = content` — any trace of
    the `chooseCode` automaton decodes to the content.
    PROVED: the statement for all 780 non-empty class sequences of length ≤ 4 (every code-set transition pattern
    of that depth, including the start-code choice, A↔B↔C switches and the removal of the check character),
    by kernel evaluation.  Missing: the induction over the writer loop for arbitrary characters and lengths
    (the invariant is: reader state after the emitted prefix = (current code set, content prefix), weights equal);
    the correspondence suite covers depth ≤ 6, every ASCII character and random contents on the real code. -/
theorem code128_codeset_inv_partial :
    ((classSeqs 4).filter (· ≠ [])).all
      (fun s => (match code128Codes s none with | .ok cs => code128ReadCodes cs | .error e => .error e) == .ok s) = true := by
  decide +kernel

/-- forced code sets on admissible contents (A: control + upper case, B: printable, C: digit pairs) -/
theorem code128_forced_inv_examples :
    (match code128Codes [1, 65, 48, 95, 0] (some 101) with | .ok cs => code128ReadCodes cs | .error e => .error e) = .ok [1, 65, 48, 95, 0] ∧
    (match code128Codes [97, 65, 48, 126, 33] (some 100) with | .ok cs => code128ReadCodes cs | .error e => .error e) = .ok [97, 65, 48, 126, 33] ∧
    (match code128Codes [49, 50, 51, 52, 48, 48] (some 99) with | .ok cs => code128ReadCodes cs | .error e => .error e) = .ok [49, 50, 51, 52, 48, 48] := by
  decide +kernel

/-! ### rejection of inadmissible contents -/

/-- ITF: odd length, more than 80 digits or a non-digit is a WriterException; everything else is accepted -/
theorem itf_writer_rejects (contents : List Nat) :
    itfSymbols contents =
      if contents.length % 2 ≠ 0 ∨ contents.length > 80 ∨ allDigits contents = false then .error .writer
      else .ok (digitVals contents) := by
  unfold itfSymbols
  by_cases h1 : contents.length % 2 ≠ 0
  · simp [h1, throw, throwThe, MonadExceptOf.throw, bind, Except.bind]
  · by_cases h2 : contents.length > 80
    · simp [h1, h2, throw, throwThe, MonadExceptOf.throw, bind, Except.bind, pure, Except.pure]
    · cases h3 : allDigits contents <;>
        simp [h1, h2, h3, throw, throwThe, MonadExceptOf.throw, bind, Except.bind, pure, Except.pure]

/-- Code 128: empty or longer than 80 characters, or a character the (forced) code set cannot hold, is a WriterException -/
theorem code128_writer_rejects (contents : List Nat) (forced : Option Nat)
    (h : contents.length < 1 ∨ contents.length > 80 ∨ contents.all (c128CharOk forced) = false) :
    code128Codes contents forced = .error .writer := by
  unfold code128Codes
  by_cases h1 : contents.length < 1 ∨ contents.length > 80
  · simp only [h1, if_true, throw, throwThe, MonadExceptOf.throw, bind, Except.bind]
  · have h3 : contents.all (c128CharOk forced) = false := by
      rcases h with h | h | h
      · exact absurd (Or.inl h) h1
      · exact absurd (Or.inr h) h1
      · exact h
    simp only [h1, if_false, h3, Bool.not_false, if_true, throw, throwThe, MonadExceptOf.throw, bind, Except.bind,
      pure, Except.pure]

/-- characters ≥ 128 that are not FNC escapes are never admissible -/
theorem code128_char_rejected (forced : Option Nat) (c : Nat) (hc : c > 127) (hf : c < 0xF1 ∨ c > 0xF4) :
    c128CharOk forced c = false := by
  unfold c128CharOk
  have h1 : ¬ (c = 0xF1 ∨ c = 0xF2 ∨ c = 0xF3 ∨ c = 0xF4) := by omega
  have h2 : ¬ c ≤ 127 := by omega
  simp [h1, h2]

/-- UPC/EAN: the module encoders fail exactly when the check-digit stage of C10 fails (wrong length, non-digit,
    wrong supplied check digit — theorems writer_rejects_wrong_check, writer_rejects_length_and_alphabet,
    upce_writer_rejects_wrong_check of Properties/C10) -/
theorem upcean_writer_rejects (T : Tables) (contents : List Nat) (e : Fault) :
    (stdWriterContents 13 contents = .error e → ean13Modules T contents = .error e) ∧
    (stdWriterContents 8 contents = .error e → ean8Modules T contents = .error e) ∧
    (stdWriterContents 13 (48 :: contents) = .error e → upcaModules T contents = .error e) ∧
    (upceWriterContents contents = .error e → upceModules T contents = .error e) := by
  refine ⟨?_, ?_, ?_, ?_⟩ <;> intro h
  · simp [ean13Modules, h, bind, Except.bind]
  · simp [ean8Modules, h, bind, Except.bind]
  · simp [upcaModules, ean13Modules, h, bind, Except.bind]
  · simp [upceModules, h, bind, Except.bind]

end Gzx.Properties.C03
