/-
  C03 / C09 (wp imgpath1d) — the WHOLE image path of the 1-D symbologies as theorems about ONE composed model
  (Gzx/Model/Image1D.lean): writer front end → module pattern → `onedWriter_renderResult` → BitMatrix as image.Image →
  luminance source → `NewBinaryBitmap(HybridBinarizer | GlobalHistogramBinarizer)` → `OneDReader.Decode` → `DecodeRow`.

  Binariser facts used (Gzx/Proofs/Image1DBin.lean, on top of C17): `OneDReader` only ever calls `GetBlackRow`, which both
  binarisers answer with the row method of GlobalHistogramBinarizer; every pixel row of a rendered symbol is bilevel
  (0 / 255) with both colours present, so the 32-bucket histogram has exactly two populated buckets (0 and 31), the
  contrast test passes, the black-point estimate lies in [8, 240] (strictly between the peaks), and the -1 4 -1 filter
  reproduces every interior pixel; the two border pixels are never set — hence the margin condition `≥ 2` modules
  (then at least one white pixel on either side), on top of the reader's own quiet-zone demand.
  Height: every requested height ≥ 0 works (the renderer draws at least one row; the scan starts on row ⌊h/2⌋).
-/
import Gzx.Proofs.Image1DPath
import Gzx.Properties.C03Row128
import Gzx.Properties.C03Row39
import Gzx.Properties.C03RowFull
namespace Gzx.Properties.C03Image
open Gzx Gzx.OneD Gzx.Image1D Gzx.Image1DPath Gzx.WriterFrontend

/-! ## Code 128 -/

theorem code128_has_bar (T : Tables) (hT : Row128.wfRow128B T.code128 = true) (contents : List Nat) (mods : List Bool)
    (hascii : ∀ c ∈ contents, c < 128) (h : code128Modules T contents none = .ok mods) : true ∈ mods := by
  apply Classical.byContradiction
  intro hno
  obtain ⟨o1, h1, _, _, l1, _⟩ := C03Row128.code128_row_read_write T hT contents mods hascii h 1 1 2 (by omega)
  obtain ⟨o2, h2, _, _, l2, _⟩ := C03Row128.code128_row_read_write T hT contents mods hascii h 2 1 1 (by omega)
  rw [paddedRow_allwhite_shift mods hno, h2] at h1
  cases h1
  omega

/-- **`oned_image_read_write_code128`** — C03 for Code 128 through the whole image path: every ASCII content the
    (un-hinted) writer accepts, every requested width and height ≥ 0, every margin ≥ 2 modules (hint absent = the
    default 10), either binariser, TRY_HARDER or not: `Code128Reader.Decode` on the bitmap of the written image
    returns the content and format CODE_128, found upright on the first scanned row ⌊h/2⌋, no ORIENTATION. -/
theorem oned_image_read_write_code128 (E : Env) (hT : Row128.wfRow128B E.T.code128 = true) (contents : List Nat)
    (mods : List Bool) (hascii : ∀ c ∈ contents, c < 128) (h : code128Modules E.T contents none = .ok mods)
    (width height : Nat) (margin : Option Nat) (hm : 2 ≤ margin.getD 10) (binz : Binz) (ext39 th : Bool) :
    imagePath E .code128 contents width height (margin.map Int.ofNat) none .upright binz ext39 th =
      .ok ⟨.code128, contents, max 1 height / 2, false, false, none⟩ := by
  have hbar := code128_has_bar E.T hT contents mods hascii h
  have hne : contents ≠ [] := by
    intro e; subst e
    simp [code128Modules, code128Codes, bind, Except.bind, throw, throwThe, MonadExceptOf.throw] at h
  have hlen : ¬ (contents.length < 1 ∨ contents.length > 80) := by
    intro hc
    unfold code128Modules code128Codes at h
    simp only [bind, Except.bind, throw, throwThe, MonadExceptOf.throw, if_pos hc] at h
    cases h
  have hcore : (code128Writer List.length (fun c h => code128Modules E.T c (forcedOf h))).core contents
      (hintsOf (margin.map Int.ofNat) none) = .ok mods := by
    simp only [code128Writer, plainWriter, code128Core, hlen, if_false, hintsOf, Option.map_none, forcedOf]
    exact h
  have hm' : (margin.map Int.ofNat).getD (10 : Int) = ((margin.getD 10 : Nat) : Int) := by cases margin <;> simp
  obtain ⟨img, res, himg, hdec, hP⟩ := path_upright
    (fun (_ : Int) row => Row128.decodeRow Row128.exactDom E.T.code128 row false) mods hbar width height (margin.getD 10) hm
    binz th (fun o => o.text = contents)
    (fun lq s rq _ hs _ _ _ => by
      obtain ⟨o, ho, ht, _⟩ := C03Row128.code128_row_read_write E.T hT contents mods hascii h lq s rq hs
      exact ⟨o, ho, ht⟩)
  unfold imagePath writeImage
  simp only [Sym.fmt]
  rw [encode1D_render _ (show (0 : Int) ≤ 10 by decide) contents hne _ (show [fmtCODE_128].contains fmtCODE_128 = true by decide)
    width height margin none mods hcore]
  simp only [code128Writer, plainWriter]
  rw [hm', himg]
  simp only [Pic.pose, readImage, hdec, Except.map]
  rw [hP]

end Gzx.Properties.C03Image
