/-
  C03 / C09 (wp imgpath1d) — the WHOLE image path of the 1-D symbologies as theorems about ONE composed model
  (Gzx/Model/Image1D.lean): writer front end → module pattern → `onedWriter_renderResult` → BitMatrix as image.Image →
  luminance source → `NewBinaryBitmap(HybridBinarizer | GlobalHistogramBinarizer)` → `OneDReader.Decode` → `DecodeRow`.

  Binariser facts used (Gzx/Proofs/Image1DBin.lean, on top of C17): `OneDReader` only ever calls `GetBlackRow`, which both
  binarisers answer with the row method of GlobalHistogramBinarizer; every pixel row of a rendered symbol is bilevel
  (0 / 255) with both colours present, so the 32-bucket histogram has exactly two populated buckets (0 and 31), the
  contrast test passes, the black-point estimate lies in [8, 240] (strictly between the peaks), and the -1 4 -1 filter
  reproduces every interior pixel; the two border pixels are never set — hence the margin condition `≥ 2` modules
  (then at least one white pixel on either side), on top of the reader's own quiet-zone demand.
  Height: every requested height ≥ 0 works (the renderer draws at least one row; the scan starts on row ⌊h/2⌋).
-/
import Gzx.Proofs.Image1DPath
import Gzx.Properties.C03Row128
import Gzx.Properties.C03Row39
import Gzx.Properties.C03RowFull
import Gzx.Proofs.Image1DWhite
namespace Gzx.Properties.C03Image
open Gzx Gzx.OneD Gzx.Image1D Gzx.Image1DPath Gzx.WriterFrontend

/-! ## Code 128 -/

theorem code128_has_bar (T : Tables) (hT : Row128.wfRow128B T.code128 = true) (contents : List Nat) (mods : List Bool)
    (hascii : ∀ c ∈ contents, c < 128) (h : code128Modules T contents none = .ok mods) : true ∈ mods := by
  apply Classical.byContradiction
  intro hno
  obtain ⟨o1, h1, _, _, l1, _⟩ := C03Row128.code128_row_read_write T hT contents mods hascii h 1 1 2 (by omega)
  obtain ⟨o2, h2, _, _, l2, _⟩ := C03Row128.code128_row_read_write T hT contents mods hascii h 2 1 1 (by omega)
  rw [paddedRow_allwhite_shift mods hno, h2] at h1
  cases h1
  omega

theorem mapGetD (margin : Option Nat) (d : Nat) : (margin.map Int.ofNat).getD (d : Int) = ((margin.getD d : Nat) : Int) := by
  cases margin <;> simp

theorem code128_readable (E : Env) (hT : Row128.wfRow128B E.T.code128 = true) (contents : List Nat)
    (mods : List Bool) (hascii : ∀ c ∈ contents, c < 128) (h : code128Modules E.T contents none = .ok mods)
    (width height : Nat) (margin : Option Nat) (hm : 2 ≤ margin.getD 10) (ext39 : Bool) :
    Readable E .code128 ext39 contents width height margin none contents mods (margin.getD 10) := by
  have hne : contents ≠ [] := by
    intro e; subst e
    simp [code128Modules, code128Codes, bind, Except.bind, throw, throwThe, MonadExceptOf.throw] at h
  have hlen : ¬ (contents.length < 1 ∨ contents.length > 80) := by
    intro hc
    unfold code128Modules code128Codes at h
    simp only [bind, Except.bind, throw, throwThe, MonadExceptOf.throw, if_pos hc] at h
    cases h
  have hcore : (code128Writer List.length (fun c h => code128Modules E.T c (forcedOf h))).core contents
      (hintsOf (margin.map Int.ofNat) none) = .ok mods := by
    simp only [code128Writer, plainWriter, code128Core, hlen, if_false, hintsOf, Option.map_none, forcedOf]
    exact h
  refine ⟨hm, code128_has_bar E.T hT contents mods hascii h, ?_, ?_⟩
  · unfold writeImage
    simp only [Sym.fmt]
    rw [encode1D_render _ (show (0 : Int) ≤ 10 by decide) contents hne _ (show [fmtCODE_128].contains fmtCODE_128 = true by decide)
      width height margin none mods hcore]
    simp only [code128Writer, plainWriter]
    rw [show ((10 : Int)) = ((10 : Nat) : Int) from rfl, mapGetD]
  · intro lq s rq _ hs _ _ _
    obtain ⟨o, ho, ht, _⟩ := C03Row128.code128_row_read_write E.T hT contents mods hascii h lq s rq hs
    exact ⟨(.code128, contents), by simp only [scanSym, rowRead, ho, Except.map, ht], rfl⟩

/-- **`oned_image_read_write_code128`** — C03 for Code 128 through the whole image path: every ASCII content the
    (un-hinted) writer accepts, every requested width and height ≥ 0, every margin ≥ 2 modules (hint absent = the
    default 10), either binariser, TRY_HARDER or not: `Code128Reader.Decode` on the bitmap of the written image
    returns the content and format CODE_128, found upright on the first scanned row ⌊h/2⌋, no ORIENTATION. -/
theorem oned_image_read_write_code128 (E : Env) (hT : Row128.wfRow128B E.T.code128 = true) (contents : List Nat)
    (mods : List Bool) (hascii : ∀ c ∈ contents, c < 128) (h : code128Modules E.T contents none = .ok mods)
    (width height : Nat) (margin : Option Nat) (hm : 2 ≤ margin.getD 10) (binz : Binz) (ext39 th : Bool) :
    imagePath E .code128 contents width height (margin.map Int.ofNat) none .upright binz ext39 th =
      .ok ⟨.code128, contents, max 1 height / 2, false, false, none⟩ :=
  upright_of_readable (code128_readable E hT contents mods hascii h width height margin hm ext39) binz th

/-- the same under each FORCE_CODE_SET hint ("A" = 101, "B" = 100, "C" = 99) -/
theorem code128_forced_readable (E : Env) (hT : Row128.wfRow128B E.T.code128 = true) (f : Nat)
    (hf : f = 99 ∨ f = 100 ∨ f = 101) (contents : List Nat)
    (mods : List Bool) (hascii : ∀ c ∈ contents, c < 128) (h : code128Modules E.T contents (some f) = .ok mods)
    (width height : Nat) (margin : Option Nat) (hm : 2 ≤ margin.getD 10) (ext39 : Bool) :
    Readable E .code128 ext39 contents width height margin (some f) contents mods (margin.getD 10) := by
  have hne : contents ≠ [] := by
    intro e; subst e
    simp [code128Modules, code128Codes, bind, Except.bind, throw, throwThe, MonadExceptOf.throw] at h
  have hlen : ¬ (contents.length < 1 ∨ contents.length > 80) := by
    intro hc
    unfold code128Modules code128Codes at h
    simp only [bind, Except.bind, throw, throwThe, MonadExceptOf.throw, if_pos hc] at h
    cases h
  have hcore : (code128Writer List.length (fun c h => code128Modules E.T c (forcedOf h))).core contents
      (hintsOf (margin.map Int.ofNat) (some f)) = .ok mods := by
    rcases hf with rfl | rfl | rfl <;>
      (simp [code128Writer, plainWriter, code128Core, hintsOf, forcedOf, h]; exact ⟨hne, by omega⟩)
  have hbar : true ∈ mods := by
    apply Classical.byContradiction
    intro hno
    obtain ⟨o, ho, _⟩ := C03Row128.code128_row_read_write_forced E.T hT f hf contents mods hascii h 1 1 1 (by omega)
    rw [paddedRow_allwhite _ _ _ _ hno, Image1DWhite.code128_white] at ho
    cases ho
  refine ⟨hm, hbar, ?_, ?_⟩
  · unfold writeImage
    simp only [Sym.fmt]
    rw [encode1D_render _ (show (0 : Int) ≤ 10 by decide) contents hne _ (show [fmtCODE_128].contains fmtCODE_128 = true by decide)
      width height margin (some f) mods hcore]
    simp only [code128Writer, plainWriter]
    rw [show ((10 : Int)) = ((10 : Nat) : Int) from rfl, mapGetD]
  · intro lq s rq _ hs _ _ _
    obtain ⟨o, ho, ht, _⟩ := C03Row128.code128_row_read_write_forced E.T hT f hf contents mods hascii h lq s rq hs
    exact ⟨(.code128, contents), by simp only [scanSym, rowRead, ho, Except.map, ht], rfl⟩

/-- **`oned_image_read_write_code128_forced`** — "and each forced code set": the same through the whole image path -/
theorem oned_image_read_write_code128_forced (E : Env) (hT : Row128.wfRow128B E.T.code128 = true) (f : Nat)
    (hf : f = 99 ∨ f = 100 ∨ f = 101) (contents : List Nat)
    (mods : List Bool) (hascii : ∀ c ∈ contents, c < 128) (h : code128Modules E.T contents (some f) = .ok mods)
    (width height : Nat) (margin : Option Nat) (hm : 2 ≤ margin.getD 10) (binz : Binz) (ext39 th : Bool) :
    imagePath E .code128 contents width height (margin.map Int.ofNat) (some f) .upright binz ext39 th =
      .ok ⟨.code128, contents, max 1 height / 2, false, false, none⟩ :=
  upright_of_readable (code128_forced_readable E hT f hf contents mods hascii h width height margin hm ext39) binz th

/-! ## Code 93 -/

theorem code93_has_bar (T : Tables) (hT : Row39.WF93Row T = true) (contents : List Nat) (mods : List Bool)
    (hascii : ∀ c ∈ contents, c < 128) (h : code93Modules T contents = .ok mods) : true ∈ mods := by
  apply Classical.byContradiction
  intro hno
  have h1 := C03Row39.code93_row_read_write T hT contents mods hascii h 1 1 2 (by omega)
  have h2 := C03Row39.code93_row_read_write T hT contents mods hascii h 2 1 1 (by omega)
  rw [paddedRow_allwhite_shift mods hno, h2] at h1
  injection h1 with h1
  injection h1 with _ h1 _
  omega

theorem code93_readable (E : Env) (hT : Row39.WF93Row E.T = true) (contents : List Nat)
    (mods : List Bool) (hne : contents ≠ []) (hascii : ∀ c ∈ contents, c < 128) (h : code93Modules E.T contents = .ok mods)
    (width height : Nat) (margin : Option Nat) (hm : 2 ≤ margin.getD 10) (ext39 : Bool) :
    Readable E .code93 ext39 contents width height margin none contents mods (margin.getD 10) := by
  refine ⟨hm, code93_has_bar E.T hT contents mods hascii h, ?_, ?_⟩
  · unfold writeImage
    simp only [Sym.fmt]
    rw [encode1D_render _ (show (0 : Int) ≤ 10 by decide) contents hne _ (show [fmtCODE_93].contains fmtCODE_93 = true by decide)
      width height margin none mods h]
    simp only [code93Writer, plainWriter]
    rw [show ((10 : Int)) = ((10 : Nat) : Int) from rfl, mapGetD]
  · intro lq s rq _ hs _ _ _
    have := C03Row39.code93_row_read_write E.T hT contents mods hascii h lq s rq (by omega)
    exact ⟨(.code93, contents), by simp only [scanSym, rowRead, this, Except.map], rfl⟩

/-- **`oned_image_read_write_code93`** — every non-empty ASCII content the Code 93 writer accepts, every width / height
    ≥ 0, margin ≥ 2, either binariser, TRY_HARDER or not: content and CODE_93 from the first scanned row, no orientation. -/
theorem oned_image_read_write_code93 (E : Env) (hT : Row39.WF93Row E.T = true) (contents : List Nat)
    (mods : List Bool) (hne : contents ≠ []) (hascii : ∀ c ∈ contents, c < 128) (h : code93Modules E.T contents = .ok mods)
    (width height : Nat) (margin : Option Nat) (hm : 2 ≤ margin.getD 10) (binz : Binz) (ext39 th : Bool) :
    imagePath E .code93 contents width height (margin.map Int.ofNat) none .upright binz ext39 th =
      .ok ⟨.code93, contents, max 1 height / 2, false, false, none⟩ :=
  upright_of_readable (code93_readable E hT contents mods hne hascii h width height margin hm ext39) binz th

/-! ## Code 39 -/

theorem code39_has_bar (T : Tables) (hT : Row39.WF39Row T = true) (contents : List Nat) (mods : List Bool)
    (hne : contents ≠ []) (hascii : ∀ c ∈ contents, c < 128) (h : code39Modules T contents = .ok mods) : true ∈ mods := by
  apply Classical.byContradiction
  intro hno
  have h1 := C03Row39.code39_row_read_write T hT contents mods hne hascii h 1 1 2 (by omega) (by omega)
  have h2 := C03Row39.code39_row_read_write T hT contents mods hne hascii h 2 1 1 (by omega) (by omega)
  rw [paddedRow_allwhite_shift mods hno, h2] at h1
  injection h1 with h1
  injection h1 with _ h1 _
  omega

/-- the reader mode that matches what the Code 39 writer did: full-ASCII iff some character is outside the alphabet -/
def ext39Of (T : Tables) (contents : List Nat) : Bool :=
  !(contents.all (fun c => (CheckDigit.indexOf? c T.code39Alphabet).isSome))

theorem code39_readable (E : Env) (hT : Row39.WF39Row E.T = true) (contents : List Nat)
    (mods : List Bool) (hne : contents ≠ []) (hascii : ∀ c ∈ contents, c < 128) (h : code39Modules E.T contents = .ok mods)
    (width height : Nat) (hw31 : width ≤ 2147483647) (margin : Option Nat) (hm : 2 ≤ margin.getD 10) :
    Readable E .code39 (ext39Of E.T contents) contents width height margin none contents mods (margin.getD 10) := by
  refine ⟨hm, code39_has_bar E.T hT contents mods hne hascii h, ?_, ?_⟩
  · unfold writeImage
    simp only [Sym.fmt]
    rw [encode1D_render _ (show (0 : Int) ≤ 10 by decide) contents hne _ (show [fmtCODE_39].contains fmtCODE_39 = true by decide)
      width height margin none mods h]
    simp only [code39Writer, plainWriter]
    rw [show ((10 : Int)) = ((10 : Nat) : Int) from rfl, mapGetD]
  · intro lq s rq _ hs _ _ hsw
    have := C03Row39.code39_row_read_write E.T hT contents mods hne hascii h lq s rq (by omega) (by omega)
    exact ⟨(.code39, contents), by simp only [scanSym, rowRead, ext39Of, this, Except.map], rfl⟩

/-- **`oned_image_read_write_code39`** — every non-empty ASCII content the Code 39 writer accepts (plain when all its
    characters are alphabet characters, full-ASCII escapes otherwise), read by the Code 39 reader in the matching
    mode (`extendedMode` iff the writer had to escape), every width ≤ 2^31-1 (the classifier's `math.MaxInt32`) and
    height ≥ 0, margin ≥ 2, either binariser, TRY_HARDER or not. -/
theorem oned_image_read_write_code39 (E : Env) (hT : Row39.WF39Row E.T = true) (contents : List Nat)
    (mods : List Bool) (hne : contents ≠ []) (hascii : ∀ c ∈ contents, c < 128) (h : code39Modules E.T contents = .ok mods)
    (width height : Nat) (hw31 : width ≤ 2147483647) (margin : Option Nat) (hm : 2 ≤ margin.getD 10) (binz : Binz) (th : Bool) :
    imagePath E .code39 contents width height (margin.map Int.ofNat) none .upright binz (ext39Of E.T contents) th =
      .ok ⟨.code39, contents, max 1 height / 2, false, false, none⟩ :=
  upright_of_readable (code39_readable E hT contents mods hne hascii h width height hw31 margin hm) binz th

/-! ## Codabar -/

theorem codabar_readable (E : Env) (hT : Row39.WFCbRow E.T = true) (contents full : List Nat)
    (hne : contents ≠ []) (h : codabarFull contents = .ok full) (hlen : full.length > 3)
    (width height : Nat) (hw31 : width ≤ 2147483647) (margin : Option Nat) (hm : 2 ≤ margin.getD 10) (ext39 : Bool) :
    ∃ mods, codabarModules E.T contents = .ok mods ∧
      Readable E .codabar ext39 contents width height margin none ((full.drop 1).dropLast) mods (margin.getD 10) := by
  obtain ⟨mods, hmods, _⟩ := C03Row39.codabar_row_read_write E.T hT contents full h hlen 1 1 1 (by omega) (by omega)
    (by omega) (by omega)
  have hrow : ∀ lq s rq, 0 < s → s ≤ 2147483647 → 0 < lq → 0 < rq →
      Row39.cbDecodeRow E.T false (paddedRow lq s rq mods) = .ok ⟨(full.drop 1).dropLast, 2 * lq, 2 * (lq + s * mods.length)⟩ := by
    intro lq s rq h1 h2 h3 h4
    obtain ⟨mods', hmods', hd⟩ := C03Row39.codabar_row_read_write E.T hT contents full h hlen lq s rq h1 h2 h3 h4
    rw [hmods] at hmods'; cases hmods'; exact hd
  have hbar : true ∈ mods := by
    apply Classical.byContradiction
    intro hno
    have h1 := hrow 1 1 2 (by omega) (by omega) (by omega) (by omega)
    have h2 := hrow 2 1 1 (by omega) (by omega) (by omega) (by omega)
    rw [paddedRow_allwhite_shift mods hno, h2] at h1
    injection h1 with h1
    injection h1 with _ h1 _
    omega
  refine ⟨mods, hmods, hm, hbar, ?_, ?_⟩
  · unfold writeImage
    simp only [Sym.fmt]
    rw [encode1D_render _ (show (0 : Int) ≤ 10 by decide) contents hne _ (show [fmtCODABAR].contains fmtCODABAR = true by decide)
      width height margin none mods hmods]
    simp only [codabarWriter, plainWriter]
    rw [show ((10 : Int)) = ((10 : Nat) : Int) from rfl, mapGetD]
  · intro lq s rq _ hs hmarg hlq hsw
    have h2s : 2 * s ≤ margin.getD 10 * s := Nat.mul_le_mul_right s hm
    have := hrow lq s rq (by omega) (by omega) (by omega) (by omega)
    exact ⟨(.codabar, (full.drop 1).dropLast), by simp only [scanSym, rowRead, this, Except.map], rfl⟩

/-- **`oned_image_read_write_codabar`** — every content the Codabar writer accepts with at least two data characters
    (fewer: the reader's MIN_CHARACTER_LENGTH refuses, `codabar_row_short_refused`), every start/stop pair: the data
    characters between the guards come back, format CODABAR. -/
theorem oned_image_read_write_codabar (E : Env) (hT : Row39.WFCbRow E.T = true) (contents full : List Nat)
    (hne : contents ≠ []) (h : codabarFull contents = .ok full) (hlen : full.length > 3)
    (width height : Nat) (hw31 : width ≤ 2147483647) (margin : Option Nat) (hm : 2 ≤ margin.getD 10)
    (binz : Binz) (ext39 th : Bool) :
    imagePath E .codabar contents width height (margin.map Int.ofNat) none .upright binz ext39 th =
      .ok ⟨.codabar, (full.drop 1).dropLast, max 1 height / 2, false, false, none⟩ := by
  obtain ⟨mods, _, hR⟩ := codabar_readable E hT contents full hne h hlen width height hw31 margin hm ext39
  exact upright_of_readable hR binz th

/-! ## ITF -/

theorem itf_readable (E : Env) (hWF : RowITF.wfRowITFB E.T E.I = true)
    (hdef : E.I.defaultAllowed = [6, 8, 10, 12, 14]) (contents : List Nat)
    (hdig : CheckDigit.allDigits contents = true) (heven : contents.length % 2 = 0) (h6 : 6 ≤ contents.length)
    (hlen : contents.length ≤ 80) (width height : Nat) (margin : Option Nat) (hm : 2 ≤ margin.getD 10) (ext39 : Bool) :
    ∃ mods, itfModules E.T contents = .ok mods ∧
      Readable E .itf ext39 contents width height margin none contents mods (margin.getD 10) := by
  have hok : RowITF.lengthOK ((none : Option (List Int)).getD E.I.defaultAllowed) contents.length = true := by
    simp only [Option.getD_none, hdef]; exact C03Row128.itf_default_lengths _ h6 heven
  obtain ⟨mods, hmods, _⟩ := C03Row128.itf_row_read_write E.T E.I hWF contents hdig heven hlen none hok 1 1 1 (by omega)
  have hrow : ∀ lq s rq, 1 ≤ s → ∃ o, RowITF.decodeRow Row128.exactDom E.I (paddedRow lq s rq mods) none = .ok o ∧
      o.text = contents ∧ o.p0 = lq + s * OneD.sumL E.T.itfStart := by
    intro lq s rq h1
    obtain ⟨mods', hmods', hd⟩ := C03Row128.itf_row_read_write E.T E.I hWF contents hdig heven hlen none hok lq s rq h1
    rw [hmods] at hmods'; cases hmods'; exact ⟨_, hd, rfl, rfl⟩
  have hbar : true ∈ mods := by
    apply Classical.byContradiction
    intro hno
    obtain ⟨o1, h1, _, p1⟩ := hrow 1 1 2 (by omega)
    obtain ⟨o2, h2, _, p2⟩ := hrow 2 1 1 (by omega)
    rw [paddedRow_allwhite_shift mods hno, h2] at h1
    cases h1
    omega
  have hne : contents ≠ [] := by intro e; subst e; simp at h6
  refine ⟨mods, hmods, hm, hbar, ?_, ?_⟩
  · unfold writeImage
    simp only [Sym.fmt]
    rw [encode1D_render _ (show (0 : Int) ≤ 10 by decide) contents hne _ (show [fmtITF].contains fmtITF = true by decide)
      width height margin none mods hmods]
    simp only [itfWriter, plainWriter]
    rw [show ((10 : Int)) = ((10 : Nat) : Int) from rfl, mapGetD]
  · intro lq s rq _ hs _ _ _
    obtain ⟨o, ho, ht, _⟩ := hrow lq s rq hs
    exact ⟨(.itf, contents), by simp only [scanSym, rowRead, ho, Except.map, ht], rfl⟩

/-- **`oned_image_read_write_itf`** — every even digit string of 6..80 digits (the lengths the un-hinted reader admits). -/
theorem oned_image_read_write_itf (E : Env) (hWF : RowITF.wfRowITFB E.T E.I = true)
    (hdef : E.I.defaultAllowed = [6, 8, 10, 12, 14]) (contents : List Nat)
    (hdig : CheckDigit.allDigits contents = true) (heven : contents.length % 2 = 0) (h6 : 6 ≤ contents.length)
    (hlen : contents.length ≤ 80) (width height : Nat) (margin : Option Nat) (hm : 2 ≤ margin.getD 10)
    (binz : Binz) (ext39 th : Bool) :
    imagePath E .itf contents width height (margin.map Int.ofNat) none .upright binz ext39 th =
      .ok ⟨.itf, contents, max 1 height / 2, false, false, none⟩ := by
  obtain ⟨mods, _, hR⟩ := itf_readable E hWF hdef contents hdig heven h6 hlen width height margin hm ext39
  exact upright_of_readable hR binz th

/-! ## EAN-13, EAN-8, UPC-A, UPC-E -/

theorem upc_allwhite (T : Tables) (k : CheckDigit.EanKind) (N : Nat) :
    OneD.decodeRow T k (List.replicate N false) = .error .notFound := by
  have hw : ∀ b ∈ List.replicate N false, b = false := fun b hb => (List.mem_replicate.mp hb).2
  have hg : findStartGuardPattern T (List.replicate N false) = .error .notFound := by
    unfold findStartGuardPattern
    simp only [findStartLoop, findGuardPattern, Bool.false_eq_true, if_false, Row39.getNextSet_white _ hw,
      Nat.min_self, List.drop_length, guardLoop]
  unfold OneD.decodeRow
  rw [hg]
  rfl

theorem upc_has_bar (T : Tables) (hT : OneD.WFUpcEan T = true) (k : CheckDigit.EanKind) (contents full : List Nat)
    (hw : CheckDigit.writerContents k contents = .ok full) (mods : List Bool)
    (hmods : upceanModules T k contents = .ok mods) : true ∈ mods := by
  apply Classical.byContradiction
  intro hno
  obtain ⟨mods', hm', hrd⟩ := Properties.C03.upcean_read_write T hT k contents full hw
  rw [hmods] at hm'; cases hm'
  have := hrd (OneD.sumL T.startEnd) 1 (OneD.sumL (endGuardOf T k) + 1) (by omega) (by omega) (by omega)
  rw [paddedRow_allwhite _ _ _ _ hno, upc_allwhite] at this
  cases this

theorem upc_nonempty (k : CheckDigit.EanKind) (contents full : List Nat)
    (hw : CheckDigit.writerContents k contents = .ok full) : contents ≠ [] := by
  intro e; subst e
  cases k <;> simp [CheckDigit.writerContents, CheckDigit.stdWriterContents, CheckDigit.upceWriterContents] at hw

/-- the UPC/EAN row decoder on the renderer's geometry: the quiet-zone conditions of the row theorem follow from the
    margin bounds (`margin ≥ 2·|start guard|`, `margin ≥ 2·|end guard| + 1`, in modules) at every width -/
theorem upc_rows (E : Env) (hT : OneD.WFUpcEan E.T = true) (wf : Gzx.Proofs.OneDRowExtTotal.wfRow E.T E.X = true)
    (k : CheckDigit.EanKind) (contents full : List Nat) (hw : CheckDigit.writerContents k contents = .ok full)
    (margin : Nat) (hm1 : margin ≥ 2 * OneD.sumL E.T.startEnd) (hm2 : margin ≥ 2 * OneD.sumL (endGuardOf E.T k) + 1) :
    ∃ mods, upceanModules E.T k contents = .ok mods ∧ true ∈ mods ∧
      ∀ (lq s rq : Nat) (rn : Int), 1 ≤ s → margin * s ≤ lq + rq → lq = (lq + rq) / 2 →
        ∃ res, upcRow E k rn (paddedRow lq s rq mods) = .ok res ∧ res.text = upceanCanonical k full ∧ res.format = k := by
  obtain ⟨mods, hmods, hrd⟩ := C03RowFull.upcean_read_write_full E.T E.X hT wf k contents full hw
  refine ⟨mods, hmods, upc_has_bar E.T hT k contents full hw mods hmods, ?_⟩
  intro lq s rq rn hs hmarg hlq
  have a1 : 2 * OneD.sumL E.T.startEnd * s ≤ margin * s := Nat.mul_le_mul_right s hm1
  have a2 : (2 * OneD.sumL (endGuardOf E.T k) + 1) * s ≤ margin * s := Nat.mul_le_mul_right s hm2
  rw [Nat.mul_assoc] at a1
  rw [Nat.add_mul, Nat.mul_assoc, Nat.one_mul] at a2
  have c1 : s * OneD.sumL E.T.startEnd = OneD.sumL E.T.startEnd * s := Nat.mul_comm _ _
  have c2 : s * OneD.sumL (endGuardOf E.T k) = OneD.sumL (endGuardOf E.T k) * s := Nat.mul_comm _ _
  exact hrd lq s rq rn false false hs (by omega) (by omega)

theorem ean13_readable (E : Env) (hT : OneD.WFUpcEan E.T = true) (wf : Gzx.Proofs.OneDRowExtTotal.wfRow E.T E.X = true)
    (contents full : List Nat) (hw : CheckDigit.writerContents .ean13 contents = .ok full)
    (width height : Nat) (margin : Option Nat) (hm : 2 ≤ margin.getD 9)
    (hm2 : margin.getD 9 ≥ 2 * OneD.sumL E.T.startEnd + 1) (ext39 : Bool) :
    ∃ mods, ean13Modules E.T contents = .ok mods ∧
      Readable E .ean13 ext39 contents width height margin none full mods (margin.getD 9) := by
  obtain ⟨mods, hmods, hbar, hrd⟩ := upc_rows E hT wf .ean13 contents full hw (margin.getD 9) (by omega) hm2
  refine ⟨mods, hmods, hm, hbar, ?_, ?_⟩
  · unfold writeImage
    simp only [Sym.fmt]
    rw [encode1D_render _ (show (0 : Int) ≤ 9 by decide) contents (upc_nonempty _ _ _ hw) _
      (show [fmtEAN_13].contains fmtEAN_13 = true by decide) width height margin none mods hmods]
    simp only [ean13Writer, upcEanWriter]
    rw [show ((9 : Int)) = ((9 : Nat) : Int) from rfl, mapGetD]
  · intro lq s rq rn hs hmarg hlq _
    obtain ⟨r, hr, ht, hf⟩ := hrd lq s rq rn hs hmarg hlq
    exact ⟨(.ean13, full), by simp only [scanSym, rowRead, hr, Except.map, ht, hf, Sym.ofEan, upceanCanonical], rfl⟩

/-- **`oned_image_read_write_ean13`** — every 12- or 13-digit content the EAN-13 writer accepts, every width / height
    ≥ 0, every margin ≥ 2·|guard| + 1 modules (= 7 for the standard guards; the default 9 qualifies), either
    binariser, TRY_HARDER or not: the 13 digits (check digit appended) and EAN_13, first scanned row, no orientation. -/
theorem oned_image_read_write_ean13 (E : Env) (hT : OneD.WFUpcEan E.T = true) (wf : Gzx.Proofs.OneDRowExtTotal.wfRow E.T E.X = true)
    (contents full : List Nat) (hw : CheckDigit.writerContents .ean13 contents = .ok full)
    (width height : Nat) (margin : Option Nat) (hm : 2 ≤ margin.getD 9)
    (hm2 : margin.getD 9 ≥ 2 * OneD.sumL E.T.startEnd + 1) (binz : Binz) (ext39 th : Bool) :
    imagePath E .ean13 contents width height (margin.map Int.ofNat) none .upright binz ext39 th =
      .ok ⟨.ean13, full, max 1 height / 2, false, false, none⟩ := by
  obtain ⟨mods, _, hR⟩ := ean13_readable E hT wf contents full hw width height margin hm hm2 ext39
  exact upright_of_readable hR binz th

theorem ean8_readable (E : Env) (hT : OneD.WFUpcEan E.T = true) (wf : Gzx.Proofs.OneDRowExtTotal.wfRow E.T E.X = true)
    (contents full : List Nat) (hw : CheckDigit.writerContents .ean8 contents = .ok full)
    (width height : Nat) (margin : Option Nat) (hm : 2 ≤ margin.getD 9)
    (hm2 : margin.getD 9 ≥ 2 * OneD.sumL E.T.startEnd + 1) (ext39 : Bool) :
    ∃ mods, ean8Modules E.T contents = .ok mods ∧
      Readable E .ean8 ext39 contents width height margin none full mods (margin.getD 9) := by
  obtain ⟨mods, hmods, hbar, hrd⟩ := upc_rows E hT wf .ean8 contents full hw (margin.getD 9) (by omega) hm2
  refine ⟨mods, hmods, hm, hbar, ?_, ?_⟩
  · unfold writeImage
    simp only [Sym.fmt]
    rw [encode1D_render _ (show (0 : Int) ≤ 9 by decide) contents (upc_nonempty _ _ _ hw) _
      (show [fmtEAN_8].contains fmtEAN_8 = true by decide) width height margin none mods hmods]
    simp only [ean8Writer, upcEanWriter]
    rw [show ((9 : Int)) = ((9 : Nat) : Int) from rfl, mapGetD]
  · intro lq s rq rn hs hmarg hlq _
    obtain ⟨r, hr, ht, hf⟩ := hrd lq s rq rn hs hmarg hlq
    exact ⟨(.ean8, full), by simp only [scanSym, rowRead, hr, Except.map, ht, hf, Sym.ofEan, upceanCanonical], rfl⟩

/-- **`oned_image_read_write_ean8`** — 7 or 8 digits; margin ≥ 7 for the standard guards. -/
theorem oned_image_read_write_ean8 (E : Env) (hT : OneD.WFUpcEan E.T = true) (wf : Gzx.Proofs.OneDRowExtTotal.wfRow E.T E.X = true)
    (contents full : List Nat) (hw : CheckDigit.writerContents .ean8 contents = .ok full)
    (width height : Nat) (margin : Option Nat) (hm : 2 ≤ margin.getD 9)
    (hm2 : margin.getD 9 ≥ 2 * OneD.sumL E.T.startEnd + 1) (binz : Binz) (ext39 th : Bool) :
    imagePath E .ean8 contents width height (margin.map Int.ofNat) none .upright binz ext39 th =
      .ok ⟨.ean8, full, max 1 height / 2, false, false, none⟩ := by
  obtain ⟨mods, _, hR⟩ := ean8_readable E hT wf contents full hw width height margin hm hm2 ext39
  exact upright_of_readable hR binz th

theorem upce_readable (E : Env) (hT : OneD.WFUpcEan E.T = true) (wf : Gzx.Proofs.OneDRowExtTotal.wfRow E.T E.X = true)
    (contents full : List Nat) (hw : CheckDigit.writerContents .upce contents = .ok full)
    (width height : Nat) (margin : Option Nat) (hm : 2 ≤ margin.getD 9)
    (hm1 : margin.getD 9 ≥ 2 * OneD.sumL E.T.startEnd)
    (hm2 : margin.getD 9 ≥ 2 * OneD.sumL E.T.upceMiddleEnd + 1) (ext39 : Bool) :
    ∃ mods, upceModules E.T contents = .ok mods ∧
      Readable E .upce ext39 contents width height margin none full mods (margin.getD 9) := by
  obtain ⟨mods, hmods, hbar, hrd⟩ := upc_rows E hT wf .upce contents full hw (margin.getD 9) hm1 hm2
  refine ⟨mods, hmods, hm, hbar, ?_, ?_⟩
  · unfold writeImage
    simp only [Sym.fmt]
    rw [encode1D_render _ (show (0 : Int) ≤ 9 by decide) contents (upc_nonempty _ _ _ hw) _
      (show [fmtUPC_E].contains fmtUPC_E = true by decide) width height margin none mods hmods]
    simp only [upcEWriter, upcEanWriter]
    rw [show ((9 : Int)) = ((9 : Nat) : Int) from rfl, mapGetD]
  · intro lq s rq rn hs hmarg hlq _
    obtain ⟨r, hr, ht, hf⟩ := hrd lq s rq rn hs hmarg hlq
    exact ⟨(.upce, full), by simp only [scanSym, rowRead, hr, Except.map, ht, hf, Sym.ofEan, upceanCanonical], rfl⟩

/-- **`oned_image_read_write_upce`** — UPC-E: the reader's end guard is 6 modules wide, so the margin must be at least
    2·6 + 1 = 13 modules: the writer's DEFAULT margin (9) does not qualify — the known finding is this boundary
    (`upce_default_margin_not_read` below). -/
theorem oned_image_read_write_upce (E : Env) (hT : OneD.WFUpcEan E.T = true) (wf : Gzx.Proofs.OneDRowExtTotal.wfRow E.T E.X = true)
    (contents full : List Nat) (hw : CheckDigit.writerContents .upce contents = .ok full)
    (width height : Nat) (margin : Option Nat) (hm : 2 ≤ margin.getD 9)
    (hm1 : margin.getD 9 ≥ 2 * OneD.sumL E.T.startEnd)
    (hm2 : margin.getD 9 ≥ 2 * OneD.sumL E.T.upceMiddleEnd + 1) (binz : Binz) (ext39 th : Bool) :
    imagePath E .upce contents width height (margin.map Int.ofNat) none .upright binz ext39 th =
      .ok ⟨.upce, full, max 1 height / 2, false, false, none⟩ := by
  obtain ⟨mods, _, hR⟩ := upce_readable E hT wf contents full hw width height margin hm hm1 hm2 ext39
  exact upright_of_readable hR binz th

theorem upca_readable (E : Env) (hT : OneD.WFUpcEan E.T = true) (wf : Gzx.Proofs.OneDRowExtTotal.wfRow E.T E.X = true)
    (contents full : List Nat) (hw : CheckDigit.writerContents .upca contents = .ok full)
    (width height : Nat) (margin : Option Nat) (hm : 2 ≤ margin.getD 9)
    (hm2 : margin.getD 9 ≥ 2 * OneD.sumL E.T.startEnd + 1) (ext39 : Bool) :
    ∃ mods, upcaModules E.T contents = .ok mods ∧
      Readable E .upca ext39 contents width height margin none (full.drop 1) mods (margin.getD 9) := by
  have hw13 : CheckDigit.writerContents .ean13 (48 :: contents) = .ok full := hw
  obtain ⟨mods, hmods, hbar, hrd⟩ := upc_rows E hT wf .ean13 (48 :: contents) full hw13 (margin.getD 9) (by omega) hm2
  obtain ⟨t, hfull⟩ := OneD.std_prefix 13 _ full hw13
  refine ⟨mods, hmods, hm, hbar, ?_, ?_⟩
  · unfold writeImage
    simp only [Sym.fmt, upcAWriter, encodeUPCA, ne_eq, not_true_eq_false, if_false]
    rw [encode1D_render _ (show (0 : Int) ≤ 9 by decide) (48 :: contents) (by simp) _
      (show [fmtEAN_13].contains fmtEAN_13 = true by decide) width height margin none mods hmods]
    simp only [ean13Writer, upcEanWriter]
    rw [show ((9 : Int)) = ((9 : Nat) : Int) from rfl, mapGetD]
  · intro lq s rq rn hs hmarg hlq _
    obtain ⟨r, hr, ht, hf⟩ := hrd lq s rq rn hs hmarg hlq
    refine ⟨(.ean13, full), by simp only [scanSym, rowRead, hr, Except.map, ht, hf, Sym.ofEan, upceanCanonical], ?_⟩
    simp only [finishRead, OneDRowExt.maybeReturnResult, hfull, List.cons_append, if_true, Except.map, Sym.ofEan,
      List.drop_succ_cons, List.drop_zero]

/-- **`oned_image_read_write_upca`** — UPC-A: the writer draws the EAN-13 symbol of "0" + contents, `upcAReader.Decode`
    scans with the EAN-13 reader and strips the "0" (`maybeReturnResult`): the 12 digits and UPC_A come back. -/
theorem oned_image_read_write_upca (E : Env) (hT : OneD.WFUpcEan E.T = true) (wf : Gzx.Proofs.OneDRowExtTotal.wfRow E.T E.X = true)
    (contents full : List Nat) (hw : CheckDigit.writerContents .upca contents = .ok full)
    (width height : Nat) (margin : Option Nat) (hm : 2 ≤ margin.getD 9)
    (hm2 : margin.getD 9 ≥ 2 * OneD.sumL E.T.startEnd + 1) (binz : Binz) (ext39 th : Bool) :
    imagePath E .upca contents width height (margin.map Int.ofNat) none .upright binz ext39 th =
      .ok ⟨.upca, full.drop 1, max 1 height / 2, false, false, none⟩ := by
  obtain ⟨mods, _, hR⟩ := upca_readable E hT wf contents full hw width height margin hm hm2 ext39
  exact upright_of_readable hR binz th

/-! ## boundaries and non-vacuity (evaluated by the kernel on the reference tables = the regenerated ones, Obligations) -/

/-- **UPC-E default margin: the known finding as a proved boundary.**  Written with default settings ("0123456", margin
    hint absent = 9 < 13) the image is NOT read back by the UPC-E reader (either binariser) … -/
theorem upce_default_margin_not_read :
    imagePath refEnv .upce (bytesOf "0123456") 0 1 none none .upright .hybrid false false = .error .notFound ∧
    imagePath refEnv .upce (bytesOf "0123456") 0 1 none none .upright .global false true = .error .notFound ∧
    imagePath refEnv .upce (bytesOf "0123456") 0 1 (some 12) none .upright .hybrid false false = .error .notFound := by
  decide +kernel

/-- … and with margin 13, the bound of `oned_image_read_write_upce`, it is -/
example : imagePath refEnv .upce (bytesOf "0123456") 0 1 (some 13) none .upright .hybrid false false =
    .ok ⟨.upce, bytesOf "01234565", 0, false, false, none⟩ := by decide +kernel

/-- **the binariser's border pixels: margin 2 is needed.**  With margin 1 at the natural width the left padding is 0, the
    first bar starts on pixel 0, `GetBlackRow` never sets pixel 0 — the symbol is not read; with margin 2 it is. -/
theorem margin_two_needed :
    imagePath refEnv .code128 [65, 49, 50, 51, 52, 97] 0 1 (some 1) none .upright .hybrid false false = .error .notFound ∧
    imagePath refEnv .code128 [65, 49, 50, 51, 52, 97] 0 1 (some 2) none .upright .hybrid false false =
      .ok ⟨.code128, [65, 49, 50, 51, 52, 97], 0, false, false, none⟩ := by
  decide +kernel

/-- the table hypotheses hold for the reference tables -/
example : Row128.wfRow128B refEnv.T.code128 = true ∧ RowITF.wfRowITFB refEnv.T refEnv.I = true ∧
    refEnv.I.defaultAllowed = [6, 8, 10, 12, 14] := by decide +kernel
example : Row39.WF93Row refEnv.T = true ∧ Row39.WF39Row refEnv.T = true ∧ Row39.WFCbRow refEnv.T = true := by decide +kernel
example : OneD.WFUpcEan refEnv.T = true ∧ Gzx.Proofs.OneDRowExtTotal.wfRow refEnv.T refEnv.X = true := by decide +kernel
/-- margin bounds: 7 (EAN-13 / EAN-8 / UPC-A), 13 (UPC-E) for the reference guards; the default 9 meets the first only -/
example : 2 * OneD.sumL refEnv.T.startEnd + 1 = 7 ∧ 2 * OneD.sumL refEnv.T.upceMiddleEnd + 1 = 13 := by decide
example : imagePath refEnv .code128 [49, 50, 51, 52] 0 1 none (some 100) .upright .global false false =
    .ok ⟨.code128, [49, 50, 51, 52], 0, false, false, none⟩ := by decide +kernel
/-- content hypotheses are satisfiable, and the theorems' conclusions on concrete instances -/
example : code128Modules refEnv.T [65, 49, 50, 51, 52, 97] none ≠ .error .writer := by decide +kernel
example : CheckDigit.writerContents .ean13 (bytesOf "590123412345") = .ok (bytesOf "5901234123457") := by decide
example : imagePath refEnv .ean13 (bytesOf "590123412345") 0 7 none none .upright .global false false =
    .ok ⟨.ean13, bytesOf "5901234123457", 3, false, false, none⟩ := by decide +kernel
example : imagePath refEnv .upca (bytesOf "01234567890") 200 2 (some 7) none .upright .hybrid false true =
    .ok ⟨.upca, bytesOf "012345678905", 1, false, false, none⟩ := by decide +kernel
example : imagePath refEnv .ean8 (bytesOf "9638507") 0 0 none none .upright .hybrid false false =
    .ok ⟨.ean8, bytesOf "96385074", 0, false, false, none⟩ := by decide +kernel
example : imagePath refEnv .code39 (bytesOf "a") 0 3 (some 2) none .upright .global (ext39Of refEnv.T (bytesOf "a")) false =
    .ok ⟨.code39, bytesOf "a", 1, false, false, none⟩ := by decide +kernel
example : imagePath refEnv .code93 (bytesOf "a~") 100 1 none none .upright .hybrid false false =
    .ok ⟨.code93, bytesOf "a~", 0, false, false, none⟩ := by decide +kernel
example : imagePath refEnv .itf (bytesOf "123456") 0 4 (some 2) none .upright .hybrid false true =
    .ok ⟨.itf, bytesOf "123456", 2, false, false, none⟩ := by decide +kernel
example : codabarFull (bytesOf "B1-$D") = .ok (bytesOf "B1-$D") := by decide
example : imagePath refEnv .codabar (bytesOf "B1-$D") 0 1 none none .upright .hybrid false false =
    .ok ⟨.codabar, bytesOf "1-$", 0, false, false, none⟩ := by decide +kernel

end Gzx.Properties.C03Image
