/-
  C03 (wp imgpath1d) — "… and where applicable by the multi-format UPC/EAN reader": the image path with
  `NewMultiFormatUPCEANReader(hints).Decode(bitmap, hints)` (model `imagePathMulti`, Gzx/Model/Image1D.lean; the
  `DecodeRow` loop over the sub-readers is `OneDRowExt.multiDecodeRow`).
  * POSSIBLE_FORMATS = [the symbol's own format]: content and format as with the matching reader — all four kinds;
  * no POSSIBLE_FORMATS: an EAN-13 symbol is EAN_13; a UPC-A symbol is reported as EAN_13 "0" + content (the first
    sub-reader is the EAN-13 reader and UPC_A was not asked for — the rule the library's own tests pin down).
  (EAN-8 / UPC-E without a hint need "the EAN-13 sub-reader refuses the symbol", which the row theorems do not state.)
-/
import Gzx.Properties.C03Image
import Gzx.Properties.C03Multi
namespace Gzx.Properties.C03ImageMulti
open Gzx Gzx.OneD Gzx.Image1D Gzx.Image1DPath Gzx.Image1DScan Gzx.CheckDigit Gzx.OneDRowExt Gzx.Properties.C03Image

/-- the first sub-reader's success is the multi-format reader's result (an EAN-13 result is left alone unless UPC_A
    was asked for) -/
theorem multi_first {V : Type} (O : VarOps V) (T : OneD.Tables) (X : ExtTables) (k : EanKind) (post : List EanKind)
    (rn : Int) (row : List Bool) (h : Hints) (res : RowResult)
    (hk : (OneDRowExt.decodeRow O T X k rn row h).2 = .ok res) (hne : res.text ≠ [])
    (hcan : res.format = .ean13 → h.canUPCA = false) :
    (OneDRowExt.multiDecodeRow O T X (k :: post) rn row h).2 = .ok res := by
  unfold OneDRowExt.decodeRow at hk
  unfold OneDRowExt.multiDecodeRow
  cases hsg : OneD.notFoundOf (findStartGuardPattern O T row) with
  | error e => rw [hsg] at hk; cases hk
  | ok sg =>
    rw [hsg] at hk
    simp only [] at hk ⊢
    rw [C03Multi.multiLoopA_ok_head (fun k => readerWithStart O T X k rn row h sg) h.canUPCA k post res [] hk]
    simp only [C03Multi.present]
    by_cases hf : res.format = .ean13
    · rw [if_pos hf, hcan hf]
      cases ht : res.text with
      | nil => exact absurd ht hne
      | cons c rest => simp
    · rw [if_neg hf]

/-- rendering → bitmap → scan with the multi-format reader -/
theorem multi_upright {E : Env} {sym : Sym} {ext39 : Bool} {contents : List Nat} {width height : Nat}
    {margin forced : Option Nat} {canonical : List Nat} {mods : List Bool} {m : Nat}
    (hR : Readable E sym ext39 contents width height margin forced canonical mods m)
    (formats : List (Option EanKind)) (out : Sym × List Nat)
    (hread : ∀ (lq s rq : Nat) (rn : Int), 1 ≤ s → m * s ≤ lq + rq → lq = (lq + rq) / 2 → s ≤ max 1 width →
      multiRow E formats rn (paddedRow lq s rq mods) = .ok out)
    (binz : Binz) (th : Bool) :
    imagePathMulti E sym contents width height (margin.map Int.ofNat) forced .upright binz formats th =
      .ok ⟨out.1, out.2, max 1 height / 2, false, false, none⟩ := by
  obtain ⟨img, res, himg, hdec, hP⟩ := path_upright (multiRow E formats) mods hR.bar width height m hR.margin_ge
    binz th (fun t => t = out) (fun lq s rq rn h1 h2 h3 h4 => ⟨out, hread lq s rq rn h1 h2 h3 h4, rfl⟩)
  unfold imagePathMulti
  rw [hR.write, himg]
  simp only [Pic.pose, readImageMulti, hdec, Except.map, hP]

/-- the UPC/EAN row decoder (any hint flags) on the renderer's geometry -/
theorem upc_rows_hints (E : Env) (hT : OneD.WFUpcEan E.T = true) (wf : Gzx.Proofs.OneDRowExtTotal.wfRow E.T E.X = true)
    (k : EanKind) (contents full : List Nat) (hw : writerContents k contents = .ok full)
    (margin : Nat) (hm1 : margin ≥ 2 * OneD.sumL E.T.startEnd) (hm2 : margin ≥ 2 * OneD.sumL (endGuardOf E.T k) + 1)
    (mods : List Bool) (hmods : upceanModules E.T k contents = .ok mods) (canUPCA : Bool) :
    ∀ (lq s rq : Nat) (rn : Int), 1 ≤ s → margin * s ≤ lq + rq → lq = (lq + rq) / 2 →
      ∃ res, (OneDRowExt.decodeRow VarOps.exact E.T E.X k rn (paddedRow lq s rq mods) { canUPCA := canUPCA }).2 = .ok res ∧
        res.text = upceanCanonical k full ∧ res.format = k := by
  obtain ⟨mods', hmods', hrd⟩ := C03RowFull.upcean_read_write_full E.T E.X hT wf k contents full hw
  rw [hmods] at hmods'; cases hmods'
  intro lq s rq rn hs hmarg hlq
  have a1 : 2 * OneD.sumL E.T.startEnd * s ≤ margin * s := Nat.mul_le_mul_right s hm1
  have a2 : (2 * OneD.sumL (endGuardOf E.T k) + 1) * s ≤ margin * s := Nat.mul_le_mul_right s hm2
  rw [Nat.mul_assoc] at a1
  rw [Nat.add_mul, Nat.mul_assoc, Nat.one_mul] at a2
  have c1 : s * OneD.sumL E.T.startEnd = OneD.sumL E.T.startEnd * s := Nat.mul_comm _ _
  have c2 : s * OneD.sumL (endGuardOf E.T k) = OneD.sumL (endGuardOf E.T k) * s := Nat.mul_comm _ _
  exact hrd lq s rq rn false canUPCA hs (by omega) (by omega)

theorem full_ne_nil (k : EanKind) (contents full : List Nat) (hw : writerContents k contents = .ok full) : full ≠ [] := by
  intro e; subst e
  cases k
  · obtain ⟨fd, h1, h2, _⟩ := OneD.std_full 13 (by omega) (by omega) _ _ hw
    cases fd <;> simp [digitBytes] at h1 h2
  · obtain ⟨fd, h1, h2, _⟩ := OneD.std_full 8 (by omega) (by omega) _ _ hw
    cases fd <;> simp [digitBytes] at h1 h2
  · obtain ⟨fd, h1, h2, _⟩ := OneD.std_full 13 (by omega) (by omega) _ _ hw
    cases fd <;> simp [digitBytes] at h1 h2
  · obtain ⟨fd, h1, h2, _⟩ := OneD.upce_full _ _ hw
    cases fd <;> simp [digitBytes] at h1 h2

/-- **EAN-13 / EAN-8 / UPC-E through the multi-format reader with POSSIBLE_FORMATS = [own format]** (also: EAN-13 with
    no hint at all, `formats = []`) -/
theorem oned_image_read_write_multi_ean13 (E : Env) (hT : OneD.WFUpcEan E.T = true)
    (wf : Gzx.Proofs.OneDRowExtTotal.wfRow E.T E.X = true)
    (contents full : List Nat) (hw : writerContents .ean13 contents = .ok full)
    (width height : Nat) (margin : Option Nat) (hm : 2 ≤ margin.getD 9)
    (hm2 : margin.getD 9 ≥ 2 * OneD.sumL E.T.startEnd + 1) (formats : List (Option EanKind))
    (hf : formats = [some .ean13] ∨ formats = []) (binz : Binz) (th : Bool) :
    imagePathMulti E .ean13 contents width height (margin.map Int.ofNat) none .upright binz formats th =
      .ok ⟨.ean13, full, max 1 height / 2, false, false, none⟩ := by
  obtain ⟨mods, hmods, hR⟩ := ean13_readable E hT wf contents full hw width height margin hm hm2 false
  have hrows := upc_rows_hints E hT wf .ean13 contents full hw (margin.getD 9) (by omega) hm2 mods hmods false
  refine multi_upright hR formats (.ean13, full) ?_ binz th
  intro lq s rq rn h1 h2 h3 _
  obtain ⟨res, hres, ht, hfm⟩ := hrows lq s rq rn h1 h2 h3
  have hne : res.text ≠ [] := by rw [ht]; exact full_ne_nil _ _ _ hw
  rcases hf with rfl | rfl
  · have := multi_first VarOps.exact E.T E.X .ean13 [] rn _ { canUPCA := false } res hres hne (fun _ => rfl)
    simp only [multiRow, multiReaders, List.filterMap_cons, id, List.filterMap_nil, List.isEmpty_cons,
      Bool.false_eq_true, if_false]
    rw [show ([some EanKind.ean13].contains (some EanKind.upca)) = false by decide, this]
    simp [Except.map, hfm, ht, Sym.ofEan, upceanCanonical]
  · have := multi_first VarOps.exact E.T E.X .ean13 [.ean8, .upce] rn _ { canUPCA := false } res hres hne (fun _ => rfl)
    simp only [multiRow, multiReaders, List.filterMap_nil, List.isEmpty_nil, if_true]
    rw [show (([] : List (Option EanKind)).contains (some EanKind.upca)) = false by decide, this]
    simp [Except.map, hfm, ht, Sym.ofEan, upceanCanonical]

theorem oned_image_read_write_multi_ean8 (E : Env) (hT : OneD.WFUpcEan E.T = true)
    (wf : Gzx.Proofs.OneDRowExtTotal.wfRow E.T E.X = true)
    (contents full : List Nat) (hw : writerContents .ean8 contents = .ok full)
    (width height : Nat) (margin : Option Nat) (hm : 2 ≤ margin.getD 9)
    (hm2 : margin.getD 9 ≥ 2 * OneD.sumL E.T.startEnd + 1) (binz : Binz) (th : Bool) :
    imagePathMulti E .ean8 contents width height (margin.map Int.ofNat) none .upright binz [some .ean8] th =
      .ok ⟨.ean8, full, max 1 height / 2, false, false, none⟩ := by
  obtain ⟨mods, hmods, hR⟩ := ean8_readable E hT wf contents full hw width height margin hm hm2 false
  have hrows := upc_rows_hints E hT wf .ean8 contents full hw (margin.getD 9) (by omega) hm2 mods hmods false
  refine multi_upright hR _ (.ean8, full) ?_ binz th
  intro lq s rq rn h1 h2 h3 _
  obtain ⟨res, hres, ht, hfm⟩ := hrows lq s rq rn h1 h2 h3
  have hne : res.text ≠ [] := by rw [ht]; exact full_ne_nil _ _ _ hw
  have := multi_first VarOps.exact E.T E.X .ean8 [] rn _ { canUPCA := false } res hres hne (fun _ => rfl)
  simp only [multiRow, multiReaders, List.filterMap_cons, id, List.filterMap_nil, List.isEmpty_cons,
    Bool.false_eq_true, if_false]
  rw [show ([some EanKind.ean8].contains (some EanKind.upca)) = false by decide, this]
  simp [Except.map, hfm, ht, Sym.ofEan, upceanCanonical]

theorem oned_image_read_write_multi_upce (E : Env) (hT : OneD.WFUpcEan E.T = true)
    (wf : Gzx.Proofs.OneDRowExtTotal.wfRow E.T E.X = true)
    (contents full : List Nat) (hw : writerContents .upce contents = .ok full)
    (width height : Nat) (margin : Option Nat) (hm : 2 ≤ margin.getD 9)
    (hm1 : margin.getD 9 ≥ 2 * OneD.sumL E.T.startEnd)
    (hm2 : margin.getD 9 ≥ 2 * OneD.sumL E.T.upceMiddleEnd + 1) (binz : Binz) (th : Bool) :
    imagePathMulti E .upce contents width height (margin.map Int.ofNat) none .upright binz [some .upce] th =
      .ok ⟨.upce, full, max 1 height / 2, false, false, none⟩ := by
  obtain ⟨mods, hmods, hR⟩ := upce_readable E hT wf contents full hw width height margin hm hm1 hm2 false
  have hrows := upc_rows_hints E hT wf .upce contents full hw (margin.getD 9) hm1 hm2 mods hmods false
  refine multi_upright hR _ (.upce, full) ?_ binz th
  intro lq s rq rn h1 h2 h3 _
  obtain ⟨res, hres, ht, hfm⟩ := hrows lq s rq rn h1 h2 h3
  have hne : res.text ≠ [] := by rw [ht]; exact full_ne_nil _ _ _ hw
  have := multi_first VarOps.exact E.T E.X .upce [] rn _ { canUPCA := false } res hres hne (fun _ => rfl)
  simp only [multiRow, multiReaders, List.filterMap_cons, id, List.filterMap_nil, List.isEmpty_cons,
    Bool.false_eq_true, if_false]
  rw [show ([some EanKind.upce].contains (some EanKind.upca)) = false by decide, this]
  simp [Except.map, hfm, ht, Sym.ofEan, upceanCanonical]

/-- **UPC-A through the multi-format reader**: with POSSIBLE_FORMATS = [UPC_A] the 12 digits as UPC_A; with no hint the
    symbol is reported as EAN_13 "0" + the 12 digits (the first sub-reader is the EAN-13 reader, UPC_A was not asked for). -/
theorem oned_image_read_write_multi_upca (E : Env) (hT : OneD.WFUpcEan E.T = true)
    (wf : Gzx.Proofs.OneDRowExtTotal.wfRow E.T E.X = true)
    (contents full : List Nat) (hw : writerContents .upca contents = .ok full)
    (width height : Nat) (margin : Option Nat) (hm : 2 ≤ margin.getD 9)
    (hm2 : margin.getD 9 ≥ 2 * OneD.sumL E.T.startEnd + 1) (binz : Binz) (th : Bool) :
    imagePathMulti E .upca contents width height (margin.map Int.ofNat) none .upright binz [some .upca] th =
      .ok ⟨.upca, full.drop 1, max 1 height / 2, false, false, none⟩ ∧
    imagePathMulti E .upca contents width height (margin.map Int.ofNat) none .upright binz [] th =
      .ok ⟨.ean13, full, max 1 height / 2, false, false, none⟩ := by
  obtain ⟨mods, hmods, hR⟩ := upca_readable E hT wf contents full hw width height margin hm hm2 false
  have hw13 : writerContents .ean13 (48 :: contents) = .ok full := hw
  constructor
  · have hrows := upc_rows_hints E hT wf .upca contents full hw (margin.getD 9) (by omega) hm2 mods hmods true
    refine multi_upright hR _ (.upca, full.drop 1) ?_ binz th
    intro lq s rq rn h1 h2 h3 _
    obtain ⟨res, hres, ht, hfm⟩ := hrows lq s rq rn h1 h2 h3
    obtain ⟨t, hfull⟩ := OneD.std_prefix 13 _ full hw13
    have hne : res.text ≠ [] := by
      rw [ht, upceanCanonical, hfull]
      obtain ⟨fd, h1', h2', _⟩ := OneD.std_full 13 (by omega) (by omega) _ _ hw13
      intro hd
      have := congrArg List.length hd
      rw [← hfull, h1'] at this
      simp [digitBytes] at this
      omega
    have := multi_first VarOps.exact E.T E.X .upca [] rn _ { canUPCA := true } res hres hne
      (fun h => by rw [hfm] at h; cases h)
    simp only [multiRow, multiReaders, List.filterMap_cons, id, List.filterMap_nil, List.isEmpty_cons,
      Bool.false_eq_true, if_false]
    rw [show ([some EanKind.upca].contains (some EanKind.upca)) = true by decide, this]
    simp [Except.map, hfm, ht, Sym.ofEan, upceanCanonical]
  · have hrows := upc_rows_hints E hT wf .ean13 (48 :: contents) full hw13 (margin.getD 9) (by omega) hm2 mods hmods false
    refine multi_upright hR _ (.ean13, full) ?_ binz th
    intro lq s rq rn h1 h2 h3 _
    obtain ⟨res, hres, ht, hfm⟩ := hrows lq s rq rn h1 h2 h3
    have hne : res.text ≠ [] := by rw [ht]; exact full_ne_nil .ean13 _ _ hw13
    have := multi_first VarOps.exact E.T E.X .ean13 [.ean8, .upce] rn _ { canUPCA := false } res hres hne (fun _ => rfl)
    simp only [multiRow, multiReaders, List.filterMap_nil, List.isEmpty_nil, if_true]
    rw [show (([] : List (Option EanKind)).contains (some EanKind.upca)) = false by decide, this]
    simp [Except.map, hfm, ht, Sym.ofEan, upceanCanonical]

/-! ### evaluated instances -/
example : imagePathMulti refEnv .upca (bytesOf "01234567890") 0 1 none none .upright .hybrid [] false =
    .ok ⟨.ean13, bytesOf "0012345678905", 0, false, false, none⟩ := by decide +kernel
example : imagePathMulti refEnv .upca (bytesOf "01234567890") 0 1 none none .upright .global [some .upca] false =
    .ok ⟨.upca, bytesOf "012345678905", 0, false, false, none⟩ := by decide +kernel
example : imagePathMulti refEnv .ean8 (bytesOf "9638507") 0 1 none none .upright .hybrid [] false =
    .ok ⟨.ean8, bytesOf "96385074", 0, false, false, none⟩ := by decide +kernel

end Gzx.Properties.C03ImageMulti
