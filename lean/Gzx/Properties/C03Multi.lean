/-
  C03 (wp rowsrest) — the multi-format UPC/EAN reader: which sub-reader's result is returned, and as which format.

  Model: `OneDRowExt.multiLoopA` / `multiDecodeRow` / `multiReaders` (Gzx/Model/OneDRowExt.lean) — the loop of
  `multiFormatUPCEANReader.DecodeRow` over ABSTRACT sub-readers (`sub k` = what `decodeRowWithStartRange` of the
  sub-reader of kind `k` returns, together with the result-point callbacks it made) and the constructor's reading of
  POSSIBLE_FORMATS.  The theorems below are general (every row, every sub-reader behaviour); they replace the
  evaluated instances of Properties/C03.lean.  Tied to the code by suites `rowsrest-upc-row` (C06) and
  `rowsrest-multi` (C03).
-/
import Gzx.Proofs.OneDRowExtTotal3
namespace Gzx.Properties.C03Multi
open Gzx Gzx.CheckDigit Gzx.OneDRowExt Gzx.Proofs.OneDRowExtTotal
open Gzx.OneD (Tables refTables isReaderErr)

/-- the UPC-A presentation of an EAN-13 result whose text is `c :: rest` -/
def asUPCA (res : RowResult) (rest : List Nat) : RowResult := { res with text := rest, format := .upca }

/-- what the loop does with the result of the first sub-reader that succeeds -/
def present (canUPCA : Bool) (res : RowResult) : Res RowResult :=
  if res.format = .ean13 then
    match res.text with
    | [] => .error (.panic "index out of range [0]")
    | c :: rest => if c = 48 ∧ canUPCA then .ok (asUPCA res rest) else .ok res
  else .ok res

theorem multiLoopA_ok_head (sub : EanKind → Trace × Res RowResult) (canUPCA : Bool) (k : EanKind)
    (post : List EanKind) (res : RowResult) (t : Trace) (hk : (sub k).2 = .ok res) :
    multiLoopA sub canUPCA (k :: post) t = (t ++ (sub k).1, present canUPCA res) := by
  unfold multiLoopA
  simp only [hk, present]
  by_cases hf : res.format = .ean13
  · simp only [hf, if_true]
    cases ht : res.text with
    | nil => rfl
    | cons c rest =>
      simp only []
      split <;> rfl
  · simp only [hf, if_false]

/-- **Dispatch, general form.**  If every sub-reader before `k` fails with a ReaderException and the sub-reader `k`
    returns `res`, the multi-format reader returns exactly `res` — the first success, later sub-readers are not
    consulted — except that an EAN-13 result starting with '0' is re-labelled UPC-A (leading '0' dropped, points and
    metadata kept) when POSSIBLE_FORMATS of the call contains UPC_A.  The callbacks are those of the consulted
    sub-readers, in order. -/
theorem multi_returns_first_success (sub : EanKind → Trace × Res RowResult) (canUPCA : Bool)
    (pre : List EanKind) (k : EanKind) (post : List EanKind) (res : RowResult) (t : Trace)
    (hpre : ∀ j ∈ pre, ∃ e, (sub j).2 = .error e ∧ isReaderErr e = true) (hk : (sub k).2 = .ok res) :
    multiLoopA sub canUPCA (pre ++ k :: post) t =
      (t ++ (pre.map (fun j => (sub j).1)).flatten ++ (sub k).1, present canUPCA res) := by
  induction pre generalizing t with
  | nil =>
    simp only [List.nil_append, List.map_nil, List.flatten_nil, List.append_nil]
    exact multiLoopA_ok_head sub canUPCA k post res t hk
  | cons j pre ih =>
    obtain ⟨e, he, hre⟩ := hpre j (by simp)
    simp only [List.cons_append]
    unfold multiLoopA
    simp only [he, hre, if_true]
    rw [ih (t ++ (sub j).1) (fun i hi => hpre i (by simp [hi]))]
    simp [List.append_assoc]

/-- all sub-readers fail with ReaderExceptions: NotFoundException -/
theorem multi_all_fail (sub : EanKind → Trace × Res RowResult) (canUPCA : Bool) (ks : List EanKind) (t : Trace)
    (h : ∀ j ∈ ks, ∃ e, (sub j).2 = .error e ∧ isReaderErr e = true) :
    (multiLoopA sub canUPCA ks t).2 = .error .notFound := by
  induction ks generalizing t with
  | nil => rfl
  | cons j ks ih =>
    obtain ⟨e, he, hre⟩ := h j (by simp)
    unfold multiLoopA
    simp only [he, hre, if_true]
    exact ih _ (fun i hi => h i (by simp [hi]))

/-- the constructor: without any UPC/EAN entry in POSSIBLE_FORMATS the sub-readers are EAN-13, EAN-8, UPC-E in
    that order; otherwise exactly the UPC/EAN entries, in order, duplicates kept -/
theorem multiReaders_default (fs : List (Option EanKind)) (h : ∀ f ∈ fs, f = none) :
    multiReaders fs = [.ean13, .ean8, .upce] := by
  unfold multiReaders
  have : fs.filterMap id = [] := by
    rw [List.filterMap_eq_nil_iff]
    intro f hf; rw [h f hf]; rfl
  simp [this]

theorem multiReaders_listed (fs : List (Option EanKind)) (k : EanKind) (h : some k ∈ fs) :
    multiReaders fs = fs.filterMap id := by
  unfold multiReaders
  have : fs.filterMap id ≠ [] := by
    intro hn
    rw [List.filterMap_eq_nil_iff] at hn
    have := hn (some k) h
    simp at this
  simp [this]

/-! ## a symbol the EAN-13 sub-reader accepts: which format comes back -/

section Ean13Symbol
variable (sub : EanKind → Trace × Res RowResult) (res : RowResult) (c : Nat) (rest : List Nat)
variable (h13 : (sub .ean13).2 = .ok res) (hfmt : res.format = .ean13) (htext : res.text = c :: rest)
-- the UPC-A sub-reader is `maybeReturnResult` of the EAN-13 sub-reader (upca_reader.go)
variable (hA : (sub .upca).2 = maybeReturnResult (sub .ean13).2)

include h13 hfmt htext hA in
/-- **UPC-A / EAN-13 rule, general form.**  For any non-empty list of EAN-13 / UPC-A sub-readers (any order,
    duplicates allowed) and a symbol the EAN-13 reader accepts as `c :: rest`:
    * `c = '0'` (a UPC-A symbol): returned as UPC_A without the leading '0' iff UPC_A is in the call's
      POSSIBLE_FORMATS or the first sub-reader is the UPC-A reader, otherwise as EAN_13 with all 13 digits;
    * `c ≠ '0'`: returned as EAN_13 if an EAN-13 sub-reader is in the list, otherwise NotFoundException. -/
theorem multi_ean13_symbol (canUPCA : Bool) (rs : List EanKind) (hrs : ∀ k ∈ rs, k = .ean13 ∨ k = .upca)
    (hne : rs ≠ []) (t : Trace) :
    (multiLoopA sub canUPCA rs t).2 =
      if c = 48 then
        (if canUPCA ∨ rs.head? = some .upca then .ok (asUPCA res rest) else .ok res)
      else
        (if EanKind.ean13 ∈ rs then .ok res else .error .notFound) := by
  induction rs generalizing t with
  | nil => exact absurd rfl hne
  | cons k ks ih =>
    unfold multiLoopA
    rcases hrs k (by simp) with rfl | rfl
    · -- EAN-13 sub-reader first
      simp only [h13, hfmt, htext, if_true]
      by_cases hc : c = 48
      · simp only [hc, true_and, if_true]
        cases canUPCA <;> simp [asUPCA]
      · simp [hc]
    · -- UPC-A sub-reader first
      simp only [hA, h13, maybeReturnResult, htext]
      by_cases hc : c = 48
      · simp [hc, asUPCA]
      · simp only [hc, if_false]
        simp only [isReaderErr, if_true]
        cases ks with
        | nil => simp [multiLoopA]
        | cons k2 ks2 =>
          rw [ih (fun k hk => hrs k (by simp [hk])) (by simp)]
          simp [hc]

end Ean13Symbol

/-! ## the concrete reader -/

/-- the sub-readers of the concrete model satisfy the hypothesis `hA` of `multi_ean13_symbol` -/
theorem readerWithStart_upca {V : Type} (O : VarOps V) (T : Tables) (X : ExtTables) (rn : Int) (row : List Bool)
    (h : Hints) (sg : Nat × Nat) :
    (readerWithStart O T X .upca rn row h sg).2 = maybeReturnResult (readerWithStart O T X .ean13 rn row h sg).2 := rfl

/-- **No POSSIBLE_FORMATS** (or none of the four UPC/EAN formats in it): a symbol the EAN-13 reader accepts is
    returned as EAN_13 with all its digits — also a UPC-A symbol ("0" + 12 digits), as the library's tests pin down —
    as long as the call's POSSIBLE_FORMATS does not name UPC_A either. -/
theorem multi_default_ean13 {V : Type} (O : VarOps V) (T : Tables) (X : ExtTables) (wf : wfRow T X = true) (rn : Int)
    (row : List Bool) (h : Hints) (hcan : h.canUPCA = false) (sg : Nat × Nat) (res : RowResult)
    (hsg : OneD.notFoundOf (findStartGuardPattern O T row) = .ok sg)
    (h13 : (decodeWithStart O T X .ean13 rn row h sg).2 = .ok res)
    (fs : List (Option EanKind)) (hfs : ∀ f ∈ fs, f = none) :
    (multiDecodeRow O T X (multiReaders fs) rn row h).2 = .ok res := by
  have hs := decodeWithStart_sat O T X (wfRow_iff wf) .ean13 rn row h sg
  rw [h13] at hs
  have h8 : 8 ≤ res.text.length := hs.1
  have hfmt : res.format = .ean13 := hs.2.1
  unfold multiDecodeRow
  rw [hsg, multiReaders_default fs hfs]
  simp only []
  have := multi_returns_first_success (fun k => readerWithStart O T X k rn row h sg) h.canUPCA [] .ean13 [.ean8, .upce] res []
    (by simp) h13
  simp only [List.nil_append] at this
  rw [this]
  simp only [present, hfmt, hcan, if_true]
  cases ht : res.text with
  | nil => rw [ht] at h8; simp at h8
  | cons c rest => simp

/-- **POSSIBLE_FORMATS = EAN-13 and/or UPC-A entries** (constructor and call see the same list `fs`, non-empty, any
    order): a symbol the EAN-13 reader accepts as `c :: rest` comes back
    * as UPC_A `rest` when `c = '0'` and UPC_A is listed,
    * as EAN_13 `c :: rest` when `c = '0'` and UPC_A is not listed, or `c ≠ '0'` and EAN_13 is listed,
    * as NotFoundException when `c ≠ '0'` and only UPC_A is listed. -/
theorem multi_hinted_ean13_upca {V : Type} (O : VarOps V) (T : Tables) (X : ExtTables) (rn : Int)
    (row : List Bool) (h : Hints) (sg : Nat × Nat) (res : RowResult) (c : Nat) (rest : List Nat)
    (hsg : OneD.notFoundOf (findStartGuardPattern O T row) = .ok sg)
    (h13 : (decodeWithStart O T X .ean13 rn row h sg).2 = .ok res) (hfmt : res.format = .ean13)
    (htext : res.text = c :: rest)
    (rs : List EanKind) (hrs : ∀ k ∈ rs, k = .ean13 ∨ k = .upca) (hne : rs ≠ [])
    (hcan : h.canUPCA = decide (EanKind.upca ∈ rs)) :
    (multiDecodeRow O T X rs rn row h).2 =
      if c = 48 then (if EanKind.upca ∈ rs then .ok (asUPCA res rest) else .ok res)
      else (if EanKind.ean13 ∈ rs then .ok res else .error .notFound) := by
  unfold multiDecodeRow
  rw [hsg]
  simp only []
  rw [multi_ean13_symbol (fun k => readerWithStart O T X k rn row h sg) res c rest h13 hfmt htext
    (readerWithStart_upca O T X rn row h sg) h.canUPCA rs hrs hne []]
  by_cases hc : c = 48
  · simp only [hc, if_true]
    by_cases hu : EanKind.upca ∈ rs
    · simp [hcan, hu]
    · have hh : rs.head? ≠ some .upca := by
        intro hh
        cases rs with
        | nil => simp at hh
        | cons a as => simp at hh; subst hh; simp at hu
      simp [hcan, hu, hh]
  · simp [hc]

/-! ### non-vacuity: the three cases on rows drawn by the writer model (exact-arithmetic instance, run by the kernel) -/

/-- UPC-A "01234567890" + check digit 5, one pixel per module, quiet zones 5 and 5 -/
def upcaRow : List Bool :=
  match OneD.upcaModules refTables (OneD.bytesOf "01234567890") with
  | .ok m => OneD.paddedRow 5 1 5 m
  | .error _ => []

def ean13Row : List Bool :=
  match OneD.ean13Modules refTables (OneD.bytesOf "400638133393") with
  | .ok m => OneD.paddedRow 5 1 5 m
  | .error _ => []

def outcome (r : Trace × Res RowResult) : Option (EanKind × List Nat) := r.2.toOption.map (fun x => (x.format, x.text))

/-- no POSSIBLE_FORMATS: EAN_13 with the leading '0' -/
example : outcome (multiDecodeRow VarOps.exact refTables refExt (multiReaders []) 0 upcaRow {}) =
    some (.ean13, OneD.bytesOf "0012345678905") := by decide +kernel
/-- POSSIBLE_FORMATS = [UPC_A]: UPC_A, twelve digits -/
example : outcome (multiDecodeRow VarOps.exact refTables refExt (multiReaders [some .upca]) 0 upcaRow { canUPCA := true }) =
    some (.upca, OneD.bytesOf "012345678905") := by decide +kernel
/-- POSSIBLE_FORMATS = [EAN_13, UPC_A]: the EAN-13 sub-reader succeeds first and its result is re-labelled -/
example : outcome (multiDecodeRow VarOps.exact refTables refExt (multiReaders [some .ean13, none, some .upca]) 0 upcaRow
    { canUPCA := true }) = some (.upca, OneD.bytesOf "012345678905") := by decide +kernel
/-- an EAN-13 symbol not starting with '0' under POSSIBLE_FORMATS = [UPC_A]: not found … -/
example : outcome (multiDecodeRow VarOps.exact refTables refExt (multiReaders [some .upca]) 0 ean13Row { canUPCA := true }) =
    none := by decide +kernel
/-- … and with EAN_13 listed after UPC_A: EAN_13 -/
example : outcome (multiDecodeRow VarOps.exact refTables refExt (multiReaders [some .upca, some .ean13]) 0 ean13Row
    { canUPCA := true }) = some (.ean13, OneD.bytesOf "4006381333931") := by decide +kernel
example : multiReaders [none, some .ean8, some .ean8, none, some .upca] = [.ean8, .ean8, .upca] := by decide

end Gzx.Properties.C03Multi
