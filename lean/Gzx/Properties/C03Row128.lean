/-
  C03 (wp oned128) — "Code 128 … the image rendered with default settings or any larger width, height or margin is read by
  the matching reader as exactly that content", on the ROW DECODER AS CODED (Gzx/Model/OneDRow128.lean: start-pattern search
  with its quiet-zone test, best-match decodeCode over exact PatternMatchVariance with both thresholds, the code-set /
  checksum loop, stop pattern and trailing quiet-zone test), exact interpretation of the float arithmetic.

  Table hypothesis `wfRow128B` (107 rows; six positive widths, STOP seven; pairwise distinct also when cut to the six
  counted elements; every cut row sums to 11 modules) is decidable and discharged for the table regenerated from /repo in
  Obligations/C03Row128.lean.  It implies "every pattern row is the unique best match of its own exact multiples, with
  margin": an exact multiple scores 0 < 1/4, every other row a positive value or +Inf (`bestLoopD_table`).
-/
import Gzx.Proofs.Row128Bridge
import Gzx.Proofs.RowITFAsm
import Gzx.Properties.C03
namespace Gzx.Properties.C03Row128
open Gzx Gzx.OneD Gzx.Row128

/-- Row level = symbol level, FULL: for every well-formed table, every start code, every sequence `body` of symbol
    characters below STOP, every scale `s ≥ 1`, EVERY left and right quiet zone `lq, rq ≥ 0` (the reader's quiet-zone
    tests are clipped to the row: `max(0, …)`, `min(size, …)`) and both values of the ASSUME_GS1 hint, `DecodeRow` on the
    drawn row returns exactly what the symbol-level reader (`readSyms`: the `for !done` state machine, checksum test,
    empty-result test, check-character removal) returns on `start :: body ++ [STOP]`, with rawBytes = those symbol
    characters and result points = middle of the start pattern / middle of the six counted stop elements. -/
theorem code128_row_reads_symbols (P : List (List Nat)) (hWF : wfRow128B P = true) (sc : Nat)
    (hsc : sc = 103 ∨ sc = 104 ∨ sc = 105) (body : List Nat) (hb : ∀ c ∈ body, c < 106) (lq s rq : Nat) (hs : 1 ≤ s)
    (gs1 : Bool) :
    Row128.decodeRow exactDom P (paddedRow lq s rq (appendPattern (fullRuns P (sc :: body ++ [106])) true)) gs1 =
      match readSyms gs1 sc (body ++ [106]) with
      | .error e => .error e
      | .ok (t, m) => .ok { text := t, raw := sc :: body ++ [106], left2 := 2 * lq + s * 11,
                            right2 := 2 * (lq + s * 11 * (body.length + 1)) + s * 11, symMod := m } :=
  decodeRow_symbol P hWF sc hsc body hb lq s rq (by omega) gs1

/-- row level from symbol level: whatever symbol characters `codes` the writer chose (shape: values below STOP, then
    STOP) and drew as `mods`, if the symbol-level reader returns `contents` for them then so does the row decoder on the
    rendered row, at every scale and quiet zone -/
theorem code128_row_of_symbols (T : Tables) (hT : wfRow128B T.code128 = true) (contents codes : List Nat)
    (mods : List Bool) (hread : code128ReadCodes codes = .ok contents)
    (hshape : ∃ body, codes = body ++ [106] ∧ ∀ c ∈ body, c < 106) (hdraw : code128Draw T codes = .ok mods)
    (lq s rq : Nat) (hs : 1 ≤ s) :
    ∃ out, Row128.decodeRow exactDom T.code128 (paddedRow lq s rq mods) false = .ok out ∧
      out.text = contents ∧ out.raw = codes ∧
      out.left2 = 2 * lq + s * 11 ∧ out.right2 = 2 * (lq + s * 11 * (out.raw.length - 1)) + s * 11 := by
  have hWF128 : WF128 T.code128 = true := by
    simp only [wfRow128B, Bool.and_eq_true] at hT
    exact hT.1.1
  obtain ⟨body', rfl, hb'⟩ := hshape
  -- the first symbol character is a start code (else `code128ReadCodes` fails)
  obtain ⟨sc, body, rfl, hsc⟩ : ∃ sc body, body' = sc :: body ∧ (sc = 103 ∨ sc = 104 ∨ sc = 105) := by
    cases body' with
    | nil => simp [code128ReadCodes] at hread
    | cons sc body =>
      refine ⟨sc, body, rfl, ?_⟩
      simp only [List.cons_append, code128ReadCodes] at hread
      split at hread
      · cases hread
      · omega
  have hb : ∀ c ∈ body, c < 106 := fun c hc => hb' c (by simp [hc])
  rw [code128Draw_runs T hWF128 (sc :: body) hb'] at hdraw
  cases hdraw
  have hrow := decodeRow_symbol T.code128 hT sc hsc body hb lq s rq (by omega) false
  rw [List.cons_append] at hread
  have htext := readSyms_text sc hsc (body ++ [106])
  rw [hread] at htext
  cases hrs : readSyms false sc (body ++ [106]) with
  | error e => rw [hrs] at htext; cases htext
  | ok r =>
    obtain ⟨t, m⟩ := r
    rw [hrs] at htext hrow
    simp only [Except.ok.injEq] at htext
    subst htext
    refine ⟨_, hrow, rfl, rfl, rfl, ?_⟩
    have hl : (sc :: body ++ [106]).length - 1 = body.length + 1 := by simp
    simp only [hl]

/-- Clause "Code 128: ASCII 0-127 up to 80 chars incl. digit runs that trigger code set C and control characters that
    trigger code set A … read(write(c)) == c", FULL on the row-decoder model at every scale and every quiet zone:
    for every ASCII content the writer accepts (no forced code set) and the module pattern `mods` it draws, the row
    `lq` white ++ `mods` at `s` px/module ++ `rq` white is read back as exactly `contents`; rawBytes are the symbol
    characters the writer chose (start code … check character, STOP). -/
theorem code128_row_read_write (T : Tables) (hT : wfRow128B T.code128 = true) (contents : List Nat) (mods : List Bool)
    (hascii : ∀ c ∈ contents, c < 128) (h : code128Modules T contents none = .ok mods)
    (lq s rq : Nat) (hs : 1 ≤ s) :
    ∃ out, Row128.decodeRow exactDom T.code128 (paddedRow lq s rq mods) false = .ok out ∧
      out.text = contents ∧ code128Codes contents none = .ok out.raw ∧
      out.left2 = 2 * lq + s * 11 ∧ out.right2 = 2 * (lq + s * 11 * (out.raw.length - 1)) + s * 11 := by
  unfold code128Modules at h
  simp only [bind, Except.bind] at h
  split at h
  · cases h
  · rename_i codes hcodes
    obtain ⟨out, h1, h2, h3, h4, h5⟩ := code128_row_of_symbols T hT contents codes mods
      (Properties.C03.code128_codeset_inv contents codes hascii hcodes) (codes_shape contents codes hascii hcodes) h
      lq s rq hs
    exact ⟨out, h1, h2, by rw [h3]; exact hcodes, h4, h5⟩

/-- Clause "Code 128 … and each forced code set": the same with the FORCE_CODE_SET hint A, B or C -/
theorem code128_row_read_write_forced (T : Tables) (hT : wfRow128B T.code128 = true) (f : Nat)
    (hf : f = 99 ∨ f = 100 ∨ f = 101) (contents : List Nat) (mods : List Bool)
    (hascii : ∀ c ∈ contents, c < 128) (h : code128Modules T contents (some f) = .ok mods)
    (lq s rq : Nat) (hs : 1 ≤ s) :
    ∃ out, Row128.decodeRow exactDom T.code128 (paddedRow lq s rq mods) false = .ok out ∧
      out.text = contents ∧ code128Codes contents (some f) = .ok out.raw := by
  unfold code128Modules at h
  simp only [bind, Except.bind] at h
  split at h
  · cases h
  · rename_i codes hcodes
    obtain ⟨out, h1, h2, h3, _⟩ := code128_row_of_symbols T hT contents codes mods
      (Properties.C03.code128_forced_inv f hf contents codes hascii hcodes)
      (codes_shape_forced f hf contents codes hascii hcodes) h lq s rq hs
    exact ⟨out, h1, h2, by rw [h3]; exact hcodes⟩

/-- the same through the writer's own rendering (`onedWriter_renderResult`, one pixel row): at EVERY requested width and
    EVERY margin ≥ 0 (the default is 10) the rendered row is read back -/
theorem code128_row_read_write_rendered (T : Tables) (hT : wfRow128B T.code128 = true) (contents : List Nat)
    (mods : List Bool) (hascii : ∀ c ∈ contents, c < 128) (h : code128Modules T contents none = .ok mods)
    (width margin : Nat) :
    ∃ row out, renderRow mods width margin = .ok row ∧ Row128.decodeRow exactDom T.code128 row false = .ok out ∧
      out.text = contents := by
  -- a symbol has at least the 13 modules of STOP, so `fullWidth ≠ 0` and `multiple ≥ 1`
  have hlen : 0 < mods.length := by
    obtain ⟨out, hout, _⟩ := code128_row_read_write T hT contents mods hascii h 0 1 0 (by omega)
    cases hm : mods with
    | nil =>
      rw [hm] at hout
      have : Row128.decodeRow exactDom T.code128 (paddedRow 0 1 0 []) false = .error .notFound := by
        simp [paddedRow, scaleRow, Row128.decodeRow, findStartPattern, getNextSet, startLoop]
      rw [this] at hout; cases hout
    | cons b bs => simp
  have hfw : 0 < mods.length + margin := by omega
  have hm1 : 1 ≤ max width (mods.length + margin) / (mods.length + margin) :=
    (Nat.le_div_iff_mul_le hfw).mpr (by rw [Nat.one_mul]; exact Nat.le_max_right _ _)
  obtain ⟨out, hout, htext, _⟩ := code128_row_read_write T hT contents mods hascii h
    ((max width (mods.length + margin) - mods.length * (max width (mods.length + margin) / (mods.length + margin))) / 2)
    (max width (mods.length + margin) / (mods.length + margin))
    (max width (mods.length + margin)
      - (max width (mods.length + margin) - mods.length * (max width (mods.length + margin) / (mods.length + margin))) / 2
      - mods.length * (max width (mods.length + margin) / (mods.length + margin)))
    hm1
  exact ⟨_, out, renderRow_padded mods width margin (by omega), hout, htext⟩

/-! ### ITF -/

/-- Clause "ITF: even digit strings of the reader's accepted lengths 6,8,..,14 and >14 up to 80 … read(write(c)) == c",
    FULL on the row-decoder model (Gzx/Model/OneDRowITF.lean: decodeStart with skipWhiteSpace / findGuardPattern /
    narrowLineWidth / validateQuietZone, decodeEnd on the REVERSED row trying the 2x end pattern first, decodeMiddle with
    RecordPattern of ten runs, the split into bars and spaces, decodeDigit best match over the twenty reader patterns with
    the equal-variance rule, the length rule), exact interpretation, at every scale `s ≥ 1` and EVERY quiet zone
    `lq, rq ≥ 0` (validateQuietZone only demands the pixels that exist), for every ALLOWED_LENGTHS value admitting the
    length: the row is read back as exactly `contents`, result points = end of the start pattern / start of the end
    pattern.  Table hypothesis `wfRowITFB` (decidable; per-run obligation): reader start = writer start; reader rows
    10..19 = the writer's patterns; the twenty reader rows pairwise non-proportional, five positive widths; the writer's
    end pattern reversed scores below 0.38 against the reader's first (2x) reversed end pattern. -/
theorem itf_row_read_write (Tw : Tables) (Tr : RowITF.ItfT) (hWF : RowITF.wfRowITFB Tw Tr = true) (contents : List Nat)
    (hdig : CheckDigit.allDigits contents = true) (heven : contents.length % 2 = 0) (hlen : contents.length ≤ 80)
    (allowed : Option (List Int)) (hok : RowITF.lengthOK (allowed.getD Tr.defaultAllowed) contents.length = true)
    (lq s rq : Nat) (hs : 1 ≤ s) :
    ∃ mods, itfModules Tw contents = .ok mods ∧
      RowITF.decodeRow exactDom Tr (paddedRow lq s rq mods) allowed =
        .ok { text := contents, p0 := lq + s * OneD.sumL Tw.itfStart,
              p1 := (paddedRow lq s rq mods).length - (rq + s * OneD.sumL Tw.itfEnd) } := by
  have hsym : itfSymbols contents = .ok (digitVals contents) := by
    rw [Properties.C03.itf_writer_rejects]
    have : ¬ (contents.length % 2 ≠ 0 ∨ contents.length > 80 ∨ CheckDigit.allDigits contents = false) := by
      simp [heven, hdig]; omega
    rw [if_neg this]
  have hdl : (digitVals contents).length = contents.length := by simp [digitVals]
  obtain ⟨mods, hdraw, hdec⟩ := RowITF.itf_row_core Tw Tr hWF (digitVals contents) (digitVals_lt contents hdig)
    (by rw [hdl]; exact heven) allowed (by rw [hdl]; exact hok) lq s rq (by omega)
  refine ⟨mods, ?_, ?_⟩
  · simp only [itfModules, hsym, bind, Except.bind]
    exact hdraw
  · rw [hdec]
    have : (digitVals contents).map (48 + ·) = contents := by
      have h1 := digitVals_roundtrip contents hdig
      have h2 : (digitVals contents).map (48 + ·) = (digitVals contents).map (· + 48) := by
        apply List.map_congr_left; intro a _; omega
      rw [h2, h1]
    rw [this]

/-- the reader's default list admits every even length from 6 on -/
theorem itf_default_lengths (n : Nat) (h6 : 6 ≤ n) (heven : n % 2 = 0) : RowITF.lengthOK [6, 8, 10, 12, 14] n = true := by
  by_cases h14 : n ≤ 14
  · have : n = 6 ∨ n = 8 ∨ n = 10 ∨ n = 12 ∨ n = 14 := by omega
    rcases this with rfl | rfl | rfl | rfl | rfl <;> decide
  · have h1 : ¬ ((n : Int) = 6) := by omega
    have h2 : ¬ ((n : Int) = 8) := by omega
    have h3 : ¬ ((n : Int) = 10) := by omega
    have h4 : ¬ ((n : Int) = 12) := by omega
    have h5 : ¬ ((n : Int) = 14) := by omega
    simp [RowITF.lengthOK, RowITF.lengthLoop, h1, h2, h3, h4, h5]
    omega

/-- through the writer's own rendering: at EVERY requested width and EVERY margin ≥ 0 the rendered row of an accepted
    content of 6..80 digits is read back (no hint) -/
theorem itf_row_read_write_rendered (Tw : Tables) (Tr : RowITF.ItfT) (hWF : RowITF.wfRowITFB Tw Tr = true)
    (hdef : Tr.defaultAllowed = [6, 8, 10, 12, 14]) (contents : List Nat)
    (hdig : CheckDigit.allDigits contents = true) (heven : contents.length % 2 = 0) (h6 : 6 ≤ contents.length)
    (hlen : contents.length ≤ 80) (width margin : Nat) :
    ∃ mods row out, itfModules Tw contents = .ok mods ∧ renderRow mods width margin = .ok row ∧
      RowITF.decodeRow exactDom Tr row none = .ok out ∧ out.text = contents := by
  have hok : RowITF.lengthOK ((none : Option (List Int)).getD Tr.defaultAllowed) contents.length = true := by
    simp only [Option.getD_none, hdef]; exact itf_default_lengths _ h6 heven
  obtain ⟨mods, hm, _⟩ := itf_row_read_write Tw Tr hWF contents hdig heven hlen none hok 0 1 0 (by omega)
  -- the symbol has at least the start and end patterns
  have hmlen : 0 < mods.length := by
    obtain ⟨_, hst, _, _⟩ := RowITF.wfRowITF_facts Tw Tr hWF
    have hwf := (RowITF.wfRowITF_facts Tw Tr hWF).1
    have hdraw := RowITF.itfDraw_runs Tw hwf (digitVals contents) (digitVals_lt contents hdig)
    have hsym : itfSymbols contents = .ok (digitVals contents) := by
      rw [Properties.C03.itf_writer_rejects]
      have : ¬ (contents.length % 2 ≠ 0 ∨ contents.length > 80 ∨ CheckDigit.allDigits contents = false) := by
        simp [heven, hdig]; omega
      rw [if_neg this]
    simp only [itfModules, hsym, bind, Except.bind, hdraw] at hm
    cases hm
    simp only [WFITF, Bool.and_eq_true, beq_iff_eq, decide_eq_true_eq, List.all_eq_true] at hwf
    obtain ⟨⟨⟨⟨⟨⟨_, _⟩, _⟩, hsl⟩, hsp⟩, _⟩, _⟩ := hwf
    rw [length_appendPattern, sumL_append, sumL_append]
    have : 0 < OneD.sumL Tw.itfStart := sumL_pos _ (by intro e; rw [e] at hsl; simp at hsl) (fun x hx => by simpa using hsp x hx)
    omega
  have hfw : 0 < mods.length + margin := by omega
  have hm1 : 1 ≤ max width (mods.length + margin) / (mods.length + margin) :=
    (Nat.le_div_iff_mul_le hfw).mpr (by rw [Nat.one_mul]; exact Nat.le_max_right _ _)
  obtain ⟨mods', hm', hdec⟩ := itf_row_read_write Tw Tr hWF contents hdig heven hlen none hok
    ((max width (mods.length + margin) - mods.length * (max width (mods.length + margin) / (mods.length + margin))) / 2)
    (max width (mods.length + margin) / (mods.length + margin))
    (max width (mods.length + margin)
      - (max width (mods.length + margin) - mods.length * (max width (mods.length + margin) / (mods.length + margin))) / 2
      - mods.length * (max width (mods.length + margin) / (mods.length + margin)))
    hm1
  rw [hm] at hm'
  cases hm'
  exact ⟨mods, _, _, hm, renderRow_padded mods width margin (by omega), hdec, rfl⟩

/-! ### non-vacuity and evaluated instances -/
example : RowITF.wfRowITFB refTables RowITF.refItfT = true := by decide +kernel
/-- "123456" at 3 px/module with no quiet zone at all -/
example : (itfModules refTables (CheckDigit.digitBytes [1, 2, 3, 4, 5, 6])).bind
    (fun m => (RowITF.decodeRow exactDom RowITF.refItfT (paddedRow 0 3 0 m) none).map (·.text))
    = .ok (CheckDigit.digitBytes [1, 2, 3, 4, 5, 6]) := by decide +kernel

example : wfRow128B refTables.code128 = true := by decide +kernel
/-- "A1234a" (code sets B, C, B) at 2 px/module, no left quiet zone at all, 1 white pixel on the right -/
example : (code128Modules refTables [65, 49, 50, 51, 52, 97] none).bind
    (fun m => (Row128.decodeRow exactDom refTables.code128 (paddedRow 0 2 1 m) false).map (fun o => (o.text, o.raw)))
    = .ok ([65, 49, 50, 51, 52, 97], [104, 33, 99, 12, 34, 100, 65, 58, 106]) := by decide +kernel

end Gzx.Properties.C03Row128
