/-
  C03 (wp oned128) — "Code 128 … the image rendered with default settings or any larger width, height or margin is read by
  the matching reader as exactly that content", on the ROW DECODER AS CODED (Gzx/Model/OneDRow128.lean: start-pattern search
  with its quiet-zone test, best-match decodeCode over exact PatternMatchVariance with both thresholds, the code-set /
  checksum loop, stop pattern and trailing quiet-zone test), exact interpretation of the float arithmetic.

  Table hypothesis `wfRow128B` (107 rows; six positive widths, STOP seven; pairwise distinct also when cut to the six
  counted elements; every cut row sums to 11 modules) is decidable and discharged for the table regenerated from /repo in
  Obligations/C03Row128.lean.  It implies "every pattern row is the unique best match of its own exact multiples, with
  margin": an exact multiple scores 0 < 1/4, every other row a positive value or +Inf (`bestLoopD_table`).
-/
import Gzx.Proofs.Row128Bridge
import Gzx.Properties.C03
namespace Gzx.Properties.C03Row128
open Gzx Gzx.OneD Gzx.Row128

/-- Row level = symbol level, FULL: for every well-formed table, every start code, every sequence `body` of symbol
    characters below STOP, every scale `s ≥ 1`, EVERY left and right quiet zone `lq, rq ≥ 0` (the reader's quiet-zone
    tests are clipped to the row: `max(0, …)`, `min(size, …)`) and both values of the ASSUME_GS1 hint, `DecodeRow` on the
    drawn row returns exactly what the symbol-level reader (`readSyms`: the `for !done` state machine, checksum test,
    empty-result test, check-character removal) returns on `start :: body ++ [STOP]`, with rawBytes = those symbol
    characters and result points = middle of the start pattern / middle of the six counted stop elements. -/
theorem code128_row_reads_symbols (P : List (List Nat)) (hWF : wfRow128B P = true) (sc : Nat)
    (hsc : sc = 103 ∨ sc = 104 ∨ sc = 105) (body : List Nat) (hb : ∀ c ∈ body, c < 106) (lq s rq : Nat) (hs : 1 ≤ s)
    (gs1 : Bool) :
    Row128.decodeRow exactDom P (paddedRow lq s rq (appendPattern (fullRuns P (sc :: body ++ [106])) true)) gs1 =
      match readSyms gs1 sc (body ++ [106]) with
      | .error e => .error e
      | .ok (t, m) => .ok { text := t, raw := sc :: body ++ [106], left2 := 2 * lq + s * 11,
                            right2 := 2 * (lq + s * 11 * (body.length + 1)) + s * 11, symMod := m } :=
  decodeRow_symbol P hWF sc hsc body hb lq s rq (by omega) gs1

/-- Clause "Code 128: ASCII 0-127 up to 80 chars incl. digit runs that trigger code set C and control characters that
    trigger code set A … read(write(c)) == c", FULL on the row-decoder model at every scale and every quiet zone:
    for every ASCII content the writer accepts (no forced code set) and the module pattern `mods` it draws, the row
    `lq` white ++ `mods` at `s` px/module ++ `rq` white is read back as exactly `contents`; rawBytes are the symbol
    characters the writer chose (start code … check character, STOP). -/
theorem code128_row_read_write (T : Tables) (hT : wfRow128B T.code128 = true) (contents : List Nat) (mods : List Bool)
    (hascii : ∀ c ∈ contents, c < 128) (h : code128Modules T contents none = .ok mods)
    (lq s rq : Nat) (hs : 1 ≤ s) :
    ∃ out, Row128.decodeRow exactDom T.code128 (paddedRow lq s rq mods) false = .ok out ∧
      out.text = contents ∧ code128Codes contents none = .ok out.raw ∧
      out.left2 = 2 * lq + s * 11 ∧ out.right2 = 2 * (lq + s * 11 * (out.raw.length - 1)) + s * 11 := by
  have hWF128 : WF128 T.code128 = true := by
    simp only [wfRow128B, Bool.and_eq_true] at hT
    exact hT.1.1
  unfold code128Modules at h
  simp only [bind, Except.bind] at h
  split at h
  · cases h
  · rename_i codes hcodes
    have hread := Properties.C03.code128_codeset_inv contents codes hascii hcodes
    obtain ⟨body', rfl, hb'⟩ := codes_shape contents _ hascii hcodes
    -- the first symbol character is a start code (else `code128ReadCodes` fails)
    obtain ⟨sc, body, rfl, hsc⟩ : ∃ sc body, body' = sc :: body ∧ (sc = 103 ∨ sc = 104 ∨ sc = 105) := by
      cases body' with
      | nil => simp [code128ReadCodes] at hread
      | cons sc body =>
        refine ⟨sc, body, rfl, ?_⟩
        simp only [List.cons_append, code128ReadCodes] at hread
        split at hread
        · cases hread
        · omega
    have hb : ∀ c ∈ body, c < 106 := fun c hc => hb' c (by simp [hc])
    rw [code128Draw_runs T hWF128 (sc :: body) hb'] at h
    cases h
    have hrow := decodeRow_symbol T.code128 hT sc hsc body hb lq s rq (by omega) false
    rw [List.cons_append] at hread
    have htext := readSyms_text sc hsc (body ++ [106])
    rw [hread] at htext
    cases hrs : readSyms false sc (body ++ [106]) with
    | error e => rw [hrs] at htext; cases htext
    | ok r =>
      obtain ⟨t, m⟩ := r
      rw [hrs] at htext hrow
      simp only [Except.ok.injEq] at htext
      subst htext
      refine ⟨_, hrow, rfl, hcodes, rfl, ?_⟩
      have hl : (sc :: body ++ [106]).length - 1 = body.length + 1 := by simp
      simp only [hl]

/-- the same through the writer's own rendering (`onedWriter_renderResult`, one pixel row): at EVERY requested width and
    EVERY margin ≥ 0 (the default is 10) the rendered row is read back -/
theorem code128_row_read_write_rendered (T : Tables) (hT : wfRow128B T.code128 = true) (contents : List Nat)
    (mods : List Bool) (hascii : ∀ c ∈ contents, c < 128) (h : code128Modules T contents none = .ok mods)
    (width margin : Nat) :
    ∃ row out, renderRow mods width margin = .ok row ∧ Row128.decodeRow exactDom T.code128 row false = .ok out ∧
      out.text = contents := by
  -- a symbol has at least the 13 modules of STOP, so `fullWidth ≠ 0` and `multiple ≥ 1`
  have hlen : 0 < mods.length := by
    obtain ⟨out, hout, _⟩ := code128_row_read_write T hT contents mods hascii h 0 1 0 (by omega)
    cases hm : mods with
    | nil =>
      rw [hm] at hout
      have : Row128.decodeRow exactDom T.code128 (paddedRow 0 1 0 []) false = .error .notFound := by
        simp [paddedRow, scaleRow, Row128.decodeRow, findStartPattern, getNextSet, startLoop]
      rw [this] at hout; cases hout
    | cons b bs => simp
  have hfw : 0 < mods.length + margin := by omega
  have hm1 : 1 ≤ max width (mods.length + margin) / (mods.length + margin) :=
    (Nat.le_div_iff_mul_le hfw).mpr (by rw [Nat.one_mul]; exact Nat.le_max_right _ _)
  obtain ⟨out, hout, htext, _⟩ := code128_row_read_write T hT contents mods hascii h
    ((max width (mods.length + margin) - mods.length * (max width (mods.length + margin) / (mods.length + margin))) / 2)
    (max width (mods.length + margin) / (mods.length + margin))
    (max width (mods.length + margin)
      - (max width (mods.length + margin) - mods.length * (max width (mods.length + margin) / (mods.length + margin))) / 2
      - mods.length * (max width (mods.length + margin) / (mods.length + margin)))
    hm1
  exact ⟨_, out, renderRow_padded mods width margin (by omega), hout, htext⟩

/-! ### non-vacuity and evaluated instances -/
example : wfRow128B refTables.code128 = true := by decide +kernel
/-- "A1234a" (code sets B, C, B) at 2 px/module, no left quiet zone at all, 1 white pixel on the right -/
example : (code128Modules refTables [65, 49, 50, 51, 52, 97] none).bind
    (fun m => (Row128.decodeRow exactDom refTables.code128 (paddedRow 0 2 1 m) false).map (fun o => (o.text, o.raw)))
    = .ok ([65, 49, 50, 51, 52, 97], [104, 33, 99, 12, 34, 100, 65, 58, 106]) := by decide +kernel

end Gzx.Properties.C03Row128
