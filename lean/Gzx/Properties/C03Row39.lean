/-
  C03 (work package oned39) — Code 39, Code 93 and Codabar: what the writer draws is read back by the ROW DECODER
  AS CODED (model Gzx/Model/OneDRow39.lean of oned/code39_reader.go, code93_reader.go, codabar_reader.go), at every
  integer scale, for quiet zones down to what the reader demands.  Same pattern as `upcean_read_write`
  (Properties/C03.lean): rows are `paddedRow lq s rq (modules content)` = `lq` white pixels, every module `s`
  pixels wide, `rq` white pixels.  Table hypotheses are decidable and discharged per run for the regenerated
  tables (Obligations/C06Row39.lean).  Helper lemmas: Gzx/Proofs/Row39Read.lean, Row39Code93.lean, …
-/
import Gzx.Proofs.Row39Code93
import Gzx.Proofs.Row39Code39
import Gzx.Proofs.Row39Codabar
import Gzx.Properties.C03
namespace Gzx.Properties.C03Row39
open Gzx Gzx.OneD Gzx.Row39

/-! ## Code 93 -/

/-- Clause "Code 93: ASCII 0-127 … the image rendered … is read by the matching reader as exactly that content",
    on the pixel-level row decoder: for EVERY table set satisfying the decidable `WF93Row`, every ASCII content the
    writer model accepts, every scale `s ≥ 1` and ANY left and right quiet zone (also none: the reader asks for no
    white before the start character and for the termination bar, not white, after the stop character),
    `findAsteriskPattern`, the character loop (`RecordPattern`, `code93ToPattern` with its rounding,
    `patternToChar`), the termination-bar test, `checkChecksums` and `decodeExtended` return exactly the content,
    with result points at the middle of the start character and of the stop character. -/
theorem code93_row_read_write (T : Tables) (hT : WF93Row T = true) (contents : List Nat) (mods : List Bool)
    (hascii : ∀ c ∈ contents, c < 128) (h : code93Modules T contents = .ok mods) (lq s rq : Nat) (hs : 0 < s) :
    c93DecodeRow T (paddedRow lq s rq mods) =
      .ok ⟨contents, 2 * lq + 9 * s, 2 * (lq + s * (mods.length - 10)) + 9 * s⟩ := by
  have f := wf93Facts T hT
  obtain ⟨e, he, hu⟩ := Properties.C03.ext93_inv contents hascii
  unfold code93Modules code93Symbols at h
  simp only [he, bind, Except.bind, pure, Except.pure, throw, throwThe, MonadExceptOf.throw] at h
  split at h
  · cases h
  · rename_i syms hsy
    split at hsy
    · cases hsy
    · split at hsy
      · cases hsy
      · rename_i vals hvals
        cases hsy
        obtain ⟨hlt, hmap⟩ := mapM_alphaIndex_spec T.code93Alphabet e vals hvals
        have hmap' : vals.map (alpha93 T) = e := hmap
        have hno := escape93_no_star contents e he
        have hv47 : ∀ i ∈ vals, i < 47 := by
          intro i hi
          have h48 := hlt i hi
          rw [f.alphaLen] at h48
          by_cases h47 : i = 47
          · exfalso
            apply hno
            rw [← hmap']
            have : alpha93 T 47 ∈ vals.map (alpha93 T) := List.mem_map.mpr ⟨47, by rw [← h47]; exact hi, rfl⟩
            rw [alpha93_star T f] at this
            exact this
          · omega
        have hsyms : ∀ i ∈ vals ++ [(CheckDigit.c93Checks vals).1, (CheckDigit.c93Checks vals).2], i < 47 := by
          intro i hi
          rcases List.mem_append.mp hi with x | x
          · exact hv47 i x
          · have h1 : (CheckDigit.c93Checks vals).1 < 47 := c93Check_lt _ _
            have h2 : (CheckDigit.c93Checks vals).2 < 47 := c93Check_lt _ _
            simp at x; omega
        rw [code93Draw_runs T f _ (fun i hi => by have := hsyms i hi; omega)] at h
        cases h
        have hfacts := runs93_facts T f 1 (by omega) _ (fun i hi => by have := hsyms i hi; omega)
        rw [← runs93u_scale] at hfacts
        have hw47 := f.word 47 (by omega)
        have hodd : (symbol93 T (vals ++ [(CheckDigit.c93Checks vals).1, (CheckDigit.c93Checks vals).2])).length % 2 = 1 := by
          have := hfacts.1
          simp only [symbol93, List.length_append, hw47.1, List.length_map] at this ⊢
          simp; omega
        have hpos : ∀ w ∈ symbol93 T (vals ++ [(CheckDigit.c93Checks vals).1, (CheckDigit.c93Checks vals).2]), 0 < w := by
          intro w hw
          simp only [symbol93, List.mem_append, List.mem_cons, List.not_mem_nil, or_false] at hw
          rcases hw with x | x | x | x
          · exact hw47.2.1 w x
          · have := hfacts.2.2 (1 * w) (List.mem_map.mpr ⟨w, x, rfl⟩); omega
          · exact hw47.2.1 w x
          · omega
        obtain ⟨hrow, hoff, hlen⟩ := paddedRow_rowAt _ lq s rq hs hodd hpos
        rw [c93DecodeRow_core T f s hs _ hsyms _ lq rq hrow hoff,
          c93Finish_written T f vals (fun i hi => by have := hv47 i hi; omega) contents (by rw [hmap']; exact hu)]
        simp only []
        -- the right point, in terms of the module count: 9·(n+2)+1 modules, stop character starts at 9·(n+1)
        have hml : (appendPattern (symbol93 T (vals ++ [(CheckDigit.c93Checks vals).1, (CheckDigit.c93Checks vals).2])) true).length
            = 9 * ((vals ++ [(CheckDigit.c93Checks vals).1, (CheckDigit.c93Checks vals).2]).length + 2) + 1 := by
          rw [length_appendPattern]
          have h9 := r93_sum T f 47 (by omega)
          have hs1 := (runs93_facts T f 1 (by omega) _ (fun i hi => by have := hsyms i hi; omega)).2.1
          rw [← runs93u_scale, sumL_scale] at hs1
          simp only [symbol93, sumL_append, h9, sumL_cons, sumL_nil]
          omega
        rw [hml]
        generalize (vals ++ [(CheckDigit.c93Checks vals).1, (CheckDigit.c93Checks vals).2]).length = n
        have e1 : 9 * (n + 2) + 1 - 10 = 9 * n + 9 := by omega
        have e2 : s * (9 * n + 9) = 9 * s + 9 * s * n := by
          rw [Nat.mul_add, Nat.mul_comm s 9, ← Nat.mul_assoc, Nat.mul_comm s 9]; omega
        rw [e1, e2, Nat.add_assoc]

/-- non-vacuity and tie to the writer model: "A" and the full-ASCII content "a~" at scales 1 and 3 -/
example : (code93Modules refTables [65]).map (fun m => c93DecodeRow refTables (paddedRow 0 1 0 m)) =
    .ok (.ok ⟨[65], 9, 81⟩) := by decide +kernel
example : (code93Modules refTables [97, 126]).map (fun m => c93DecodeRow refTables (paddedRow 2 3 1 m)) =
    .ok (.ok ⟨[97, 126], 31, 409⟩) := by decide +kernel

/-! ## Code 39 -/

/-- the symbol characters the Code 39 writer model chooses are alphabet indices -/
theorem code39Symbols_lt (T : Tables) (contents syms : List Nat) (h : code39Symbols T contents = .ok syms) :
    ∀ i ∈ syms, i < T.code39Alphabet.length := by
  unfold code39Symbols at h
  simp only [bind, Except.bind, pure, Except.pure, throw, throwThe, MonadExceptOf.throw] at h
  split at h
  · cases h
  · by_cases hall : contents.all (fun c => (CheckDigit.indexOf? c T.code39Alphabet).isSome) = true
    · simp only [hall, if_true] at h
      exact (mapM_alphaIndex_spec T.code39Alphabet contents syms h).1
    · have hall' : contents.all (fun c => (CheckDigit.indexOf? c T.code39Alphabet).isSome) = false := by
        simpa using hall
      simp only [hall', Bool.false_eq_true, if_false] at h
      cases he : code39Escape contents with
      | error e => rw [he] at h; cases h
      | ok e =>
        rw [he] at h
        simp only [] at h
        split at h
        · cases h
        · exact (mapM_alphaIndex_spec T.code39Alphabet e syms h).1

/-- Clause "Code 39 incl. full-ASCII … is read by the matching reader as exactly that content", on the pixel-level
    row decoder: for EVERY table set satisfying the decidable `WF39Row`, every non-empty ASCII content the writer
    model accepts (plain when all characters are alphabet characters, full-ASCII escapes otherwise, read with the
    matching reader mode, no check digit), every scale `1 ≤ s ≤ 2^31-1` and ANY left and right quiet zone of white
    pixels (also none: the reader's 50 % white tests look at most to the row's ends),
    `code39FindAsteriskPattern` with its white test, the character loop (`RecordPattern`,
    `code39ToNarrowWidePattern`, `patternToChar`), the trailing white test and `decodeExtended` return exactly the
    content, with result points at the middle of the start and of the stop character.
    (`s ≤ 2^31-1`: the literal `math.MaxInt32` in the classifier; cf. `code39_classifier_needs_bound`.) -/
theorem code39_row_read_write (T : Tables) (hT : WF39Row T = true) (contents : List Nat) (mods : List Bool)
    (hne : contents ≠ []) (hascii : ∀ c ∈ contents, c < 128) (h : code39Modules T contents = .ok mods)
    (lq s rq : Nat) (hs : 0 < s) (hs31 : s ≤ 2147483647) :
    c39DecodeRow T false (!(contents.all (fun c => (CheckDigit.indexOf? c T.code39Alphabet).isSome)))
        (paddedRow lq s rq mods) =
      .ok ⟨contents, 2 * lq + 12 * s, 2 * (lq + s * (mods.length - 12)) + 12 * s⟩ := by
  have f := wf39Facts T hT
  unfold code39Modules at h
  simp only [bind, Except.bind] at h
  split at h
  · cases h
  · rename_i syms hsy
    have hread := Properties.C03.code39_read_write T contents syms hne hascii hsy
    have hlt : ∀ i ∈ syms, i < 43 := by
      intro i hi
      have := code39Symbols_lt T contents syms hsy i hi
      rw [f.alphaLen] at this
      exact this
    rw [code39Draw_runs T f syms hlt] at h
    cases h
    have hstar := f.star
    have hwl : ∀ e, (code39Widths e).length = 9 := widths_len
    have hpos1 : ∀ e, word39Ok e = true → ∀ w ∈ code39Widths e, 0 < w := by
      intro e he w hw
      have := (word39_facts 1 e (by omega) (by omega) he).2.2 (1 * w) (List.mem_map.mpr ⟨w, hw, rfl⟩)
      omega
    have hodd : (symbol39 T syms).length % 2 = 1 := by
      have hev : (syms.map (fun i => code39Widths (enc39 T i) ++ [1])).flatten.length % 2 = 0 := by
        apply flatten_length_even
        intro p hp
        obtain ⟨i, _, rfl⟩ := List.mem_map.mp hp
        simp [widths_len]
      simp only [symbol39, List.length_append, hwl, List.length_cons, List.length_nil]
      omega
    have hpos : ∀ w ∈ symbol39 T syms, 0 < w := by
      intro w hw
      simp only [symbol39, List.mem_append, List.mem_cons, List.not_mem_nil, or_false, List.mem_flatten,
        List.mem_map] at hw
      rcases hw with (x | x) | ⟨l, ⟨i, hi, rfl⟩, x⟩ | x
      · exact hpos1 _ hstar w x
      · omega
      · rcases List.mem_append.mp x with y | y
        · exact hpos1 _ (f.word i (hlt i hi)) w y
        · simp at y; omega
      · exact hpos1 _ hstar w x
    obtain ⟨hrow, hoff, hlen⟩ := paddedRow_rowAt _ lq s rq hs hodd hpos
    have hwhite : ∀ a, a ≤ lq → isRangeWhite (paddedRow lq s rq (appendPattern (symbol39 T syms) true)) a lq = true := by
      intro a ha
      unfold paddedRow
      rw [List.append_assoc]
      exact isRangeWhite_prefix lq _ a lq ha (Nat.le_refl _)
    rw [c39DecodeRow_core T f s hs hs31 syms hlt false _ _ lq rq hrow hoff hwhite,
      c39Finish_symbols T f syms hlt _ contents hread]
    simp only []
    -- the right point in terms of the module count: 13·(n+1) + 12 modules, the stop character starts at 13·(n+1)
    have hml : (appendPattern (symbol39 T syms) true).length = 13 * (syms.length + 1) + 12 := by
      rw [length_appendPattern]
      have h12 : ∀ e, word39Ok e = true → sumL (code39Widths e) = 12 := by
        intro e he
        have := (word39_facts 1 e (by omega) (by omega) he).2.1
        rw [sumL_scale] at this; omega
      have hfl : ∀ (idx : List Nat), (∀ i ∈ idx, i < 43) →
          sumL (idx.map (fun i => code39Widths (enc39 T i) ++ [1])).flatten = 13 * idx.length := by
        intro idx
        induction idx with
        | nil => intro _; simp [sumL_nil]
        | cons i idx ih =>
          intro hh
          simp only [List.map_cons, List.flatten_cons, sumL_append, sumL_cons, sumL_nil, List.length_cons]
          rw [h12 _ (f.word i (hh i (by simp))), ih (fun j hj => hh j (by simp [hj]))]
          omega
      simp only [symbol39, sumL_append, sumL_cons, sumL_nil, h12 _ hstar, hfl syms hlt]
      omega
    rw [hml]
    generalize syms.length = n
    have e1 : 13 * (n + 1) + 12 - 12 = 13 * n + 13 := by omega
    have e2 : s * (13 * n + 13) = 13 * s + 13 * s * n := by
      rw [Nat.mul_add, Nat.mul_comm s 13, ← Nat.mul_assoc, Nat.mul_comm s 13]; omega
    rw [e1, e2, Nat.add_assoc]

/-- non-vacuity and tie to the writer model: "A" (plain) and "a" (full ASCII "+A", extended reader) -/
example : (code39Modules refTables [65]).map (fun m => c39DecodeRow refTables false false (paddedRow 0 1 0 m)) =
    .ok (.ok ⟨[65], 12, 64⟩) := by decide +kernel
example : (code39Modules refTables [97]).map (fun m => c39DecodeRow refTables false true (paddedRow 3 2 5 m)) =
    .ok (.ok ⟨[97], 30, 186⟩) := by decide +kernel

/-! ## Codabar -/

/-- Clause "Codabar: ≥ 2 data characters with every start/stop pair … is read by the matching reader as exactly that
    content", on the pixel-level row decoder: for EVERY table set satisfying the decidable `WFCbRow` (twenty distinct
    7-bit words, none with four wide bars or three wide spaces, over the standard alphabet), every content the writer
    model accepts (`codabarFull contents = ok full`: guards A-D / T N * E / lower case as supplied, or A…A added) with
    at least two data characters, every scale `1 ≤ s ≤ 2^31-1` and at least ONE white pixel on either side
    (`setCounters` starts at the first white pixel; `toNarrowWidePattern` needs a counter after the last bar),
    `setCounters`, `findStartPattern`, the character loop (`toNarrowWidePattern` with its per-parity thresholds),
    the trailing-white test, `validatePattern` (thresholds by exact arithmetic: all stripes are exact multiples),
    the start/stop and length rules return exactly the data characters between the guards, with result points at
    the left edge of the start character and the right edge of the stop character.
    The reader refuses symbols with fewer than two data characters (`codabar_row_short_refused`). -/
theorem codabar_row_read_write (T : Tables) (hT : WFCbRow T = true) (contents full : List Nat)
    (h : codabarFull contents = .ok full) (hlen : full.length > 3)
    (lq s rq : Nat) (hs : 0 < s) (hs31 : s ≤ 2147483647) (hlq : 0 < lq) (hrq : 0 < rq) :
    ∃ mods, codabarModules T contents = .ok mods ∧
      cbDecodeRow T false (paddedRow lq s rq mods) =
        .ok ⟨(full.drop 1).dropLast, 2 * lq, 2 * (lq + s * mods.length)⟩ := by
  have f := cbFacts T hT
  obtain ⟨g, mid, l, rfl, hg, hl, hmid⟩ := codabarFull_spec contents full h
  refine ⟨_, codabarModules_chars T f contents g l mid h hg hl hmid, ?_⟩
  have hcore := cbDecodeRow_core T f s hs hs31 (codabarGuardMap (toUpperByte g)) (codabarGuardMap (toUpperByte l)) mid
    (guard_mem _ hg) (guard_mem _ hl) hg hl
    (fun c hc => ⟨(mid_mem c (hmid c hc)).2, midOk_not_startEnd c (hmid c hc)⟩) false lq rq hlq hrq
  simp only [] at hcore
  rw [hcore]
  have hm : ¬ mid.length ≤ 1 := by simp at hlen; omega
  rw [if_neg hm]
  simp

/-- with the hint RETURN_CODABAR_START_END the text includes the (upper-cased, A-D) guards -/
theorem codabar_row_read_write_with_guards (T : Tables) (hT : WFCbRow T = true) (contents : List Nat)
    (g l : Nat) (mid : List Nat) (h : codabarFull contents = .ok (g :: (mid ++ [l]))) (hlen : mid.length > 1)
    (lq s rq : Nat) (hs : 0 < s) (hs31 : s ≤ 2147483647) (hlq : 0 < lq) (hrq : 0 < rq) :
    ∃ mods, codabarModules T contents = .ok mods ∧
      cbDecodeRow T true (paddedRow lq s rq mods) =
        .ok ⟨codabarGuardMap (toUpperByte g) :: (mid ++ [codabarGuardMap (toUpperByte l)]), 2 * lq,
             2 * (lq + s * mods.length)⟩ := by
  have f := cbFacts T hT
  obtain ⟨g', mid', l', he, hg, hl, hmid⟩ := codabarFull_spec contents _ h
  have e1 : g' = g := by injection he with a _; exact a.symm
  have e2 : mid' ++ [l'] = mid ++ [l] := by injection he with _ b; exact b.symm
  have e3 : mid' = mid ∧ l' = l := by
    have := List.append_inj' e2 rfl
    exact ⟨this.1, by simpa using this.2⟩
  obtain ⟨rfl, rfl⟩ := e3
  subst e1
  refine ⟨_, codabarModules_chars T f contents g' l' mid' h hg hl hmid, ?_⟩
  have hcore := cbDecodeRow_core T f s hs hs31 (codabarGuardMap (toUpperByte g')) (codabarGuardMap (toUpperByte l')) mid'
    (guard_mem _ hg) (guard_mem _ hl) hg hl
    (fun c hc => ⟨(mid_mem c (hmid c hc)).2, midOk_not_startEnd c (hmid c hc)⟩) true lq rq hlq hrq
  simp only [] at hcore
  rw [hcore, if_neg (by omega)]
  simp

/-- fewer than two data characters: written, but refused by the reader's `MIN_CHARACTER_LENGTH` rule — also at row level -/
theorem codabar_row_short_refused (T : Tables) (hT : WFCbRow T = true) (contents : List Nat)
    (g l : Nat) (mid : List Nat) (h : codabarFull contents = .ok (g :: (mid ++ [l]))) (hlen : mid.length ≤ 1)
    (retSE : Bool) (lq s rq : Nat) (hs : 0 < s) (hs31 : s ≤ 2147483647) (hlq : 0 < lq) (hrq : 0 < rq) :
    ∃ mods, codabarModules T contents = .ok mods ∧ cbDecodeRow T retSE (paddedRow lq s rq mods) = .error .notFound := by
  have f := cbFacts T hT
  obtain ⟨g', mid', l', he, hg, hl, hmid⟩ := codabarFull_spec contents _ h
  have e1 : g' = g := by injection he with a _; exact a.symm
  have e2 : mid' ++ [l'] = mid ++ [l] := by injection he with _ b; exact b.symm
  have e3 : mid' = mid ∧ l' = l := by
    have := List.append_inj' e2 rfl
    exact ⟨this.1, by simpa using this.2⟩
  obtain ⟨rfl, rfl⟩ := e3
  subst e1
  refine ⟨_, codabarModules_chars T f contents g' l' mid' h hg hl hmid, ?_⟩
  have hcore := cbDecodeRow_core T f s hs hs31 (codabarGuardMap (toUpperByte g')) (codabarGuardMap (toUpperByte l')) mid'
    (guard_mem _ hg) (guard_mem _ hl) hg hl
    (fun c hc => ⟨(mid_mem c (hmid c hc)).2, midOk_not_startEnd c (hmid c hc)⟩) retSE lq rq hlq hrq
  simp only [] at hcore
  rw [hcore, if_pos hlen]

/-- non-vacuity and tie to the writer model: "12" (guards A…A added), "B1-$D" at scale 3, and a one-character symbol -/
example : (codabarModules refTables [49, 50]).map (fun m => (m.length, cbDecodeRow refTables false (paddedRow 1 1 1 m))) =
    .ok (41, .ok ⟨[49, 50], 2, 84⟩) := by decide +kernel
example : (codabarModules refTables [66, 49, 45, 36, 68]).map (fun m => (m.length, cbDecodeRow refTables false (paddedRow 2 3 1 m))) =
    .ok (51, .ok ⟨[49, 45, 36], 4, 310⟩) := by decide +kernel
example : (codabarModules refTables [49]).map (fun m => cbDecodeRow refTables false (paddedRow 2 3 1 m)) =
    .ok (.error .notFound) := by decide +kernel
/-- the white pixel in front is needed: without it the first bar is not counted -/
example : (codabarModules refTables [49, 50]).map (fun m => cbDecodeRow refTables false (paddedRow 0 1 1 m)) =
    .ok (.error .notFound) := by decide +kernel

/-- non-vacuity of the three table hypotheses: the reference tables (= the regenerated ones, Obligations) satisfy them -/
example : WF93Row refTables = true ∧ WF39Row refTables = true ∧ WFCbRow refTables = true := by decide +kernel

/-! ## accepted reads verify (C10 clause, row level) -/

/-- Clause (C10) "Readers never return a symbol whose check characters do not verify", on the Code 93 row-decoder
    model: whatever pixel row is given, a result is returned only for a character string `s` (data, C, K) that passed
    both `checkOneChecksum` tests; the text is the unescaped data part.  By inspection of the control flow. -/
theorem code93_row_result_verifies (T : Tables) (row : List Bool) (h : Hit) (hr : c93DecodeRow T row = .ok h) :
    ∃ s, 2 ≤ s.length ∧ c93CheckOne T.code93Alphabet s (s.length - 2) 20 = .ok () ∧
      c93CheckOne T.code93Alphabet s (s.length - 1) 15 = .ok () ∧
      OneDPost.c93Ext (s.take (s.length - 2)) [] = .ok h.text := by
  unfold c93DecodeRow at hr
  split at hr
  · cases hr
  · split at hr
    · cases hr
    · simp only [] at hr
      split at hr
      · cases hr
      · rename_i result lastStart lastSize next _
        split at hr
        · cases hr
        · cases hr
        · split at hr
          · cases hr
          · rename_i text hfin
            cases hr
            refine ⟨result, ?_⟩
            unfold c93Finish at hfin
            split at hfin
            · cases hfin
            · rename_i hlen
              split at hfin
              · cases hfin
              · rename_i h1
                split at hfin
                · cases hfin
                · rename_i h2
                  exact ⟨by omega, h1, h2, hfin⟩

/-- the same for Code 39 with `usingCheckDigit`: a result is returned only when the last character equals
    `alphabet[Σ index mod 43]` of the characters before it -/
theorem code39_row_result_verifies (T : Tables) (ext : Bool) (row : List Bool) (h : Hit)
    (hr : c39DecodeRow T true ext row = .ok h) :
    ∃ s last want, s ≠ [] ∧ nth s (s.length - 1) = .ok last ∧
      OneDPost.alphaAt T.code39Alphabet (Int.tmod (OneDPost.sumIdx T.code39Alphabet (s.take (s.length - 1))) 43) = .ok want ∧
      last = want := by
  unfold c39DecodeRow at hr
  split at hr
  · cases hr
  · simp only [] at hr
    split at hr
    · cases hr
    · rename_i result lastStart lastSize next _
      split at hr
      · cases hr
      · split at hr
        · cases hr
        · rename_i text hfin
          unfold c39Finish at hfin
          split at hfin
          · cases hfin
          · rename_i hlen
            simp only [if_true] at hfin
            split at hfin
            · cases hfin
            · rename_i s' hs'
              split at hs'
              · cases hs'
              · cases hs'
              · rename_i last want hl hw
                split at hs'
                · cases hs'
                · rename_i heq
                  exact ⟨result, last, want, by intro e; apply hlen; rw [e]; rfl, hl, hw, by simpa using heq⟩

end Gzx.Properties.C03Row39
