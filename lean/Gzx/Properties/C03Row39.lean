/-
  C03 (work package oned39) — Code 39, Code 93 and Codabar: what the writer draws is read back by the ROW DECODER
  AS CODED (model Gzx/Model/OneDRow39.lean of oned/code39_reader.go, code93_reader.go, codabar_reader.go), at every
  integer scale, for quiet zones down to what the reader demands.  Same pattern as `upcean_read_write`
  (Properties/C03.lean): rows are `paddedRow lq s rq (modules content)` = `lq` white pixels, every module `s`
  pixels wide, `rq` white pixels.  Table hypotheses are decidable and discharged per run for the regenerated
  tables (Obligations/C06Row39.lean).  Helper lemmas: Gzx/Proofs/Row39Read.lean, Row39Code93.lean, …
-/
import Gzx.Proofs.Row39Code93
import Gzx.Properties.C03
namespace Gzx.Properties.C03Row39
open Gzx Gzx.OneD Gzx.Row39

/-! ## Code 93 -/

/-- Clause "Code 93: ASCII 0-127 … the image rendered … is read by the matching reader as exactly that content",
    on the pixel-level row decoder: for EVERY table set satisfying the decidable `WF93Row`, every ASCII content the
    writer model accepts, every scale `s ≥ 1` and ANY left and right quiet zone (also none: the reader asks for no
    white before the start character and for the termination bar, not white, after the stop character),
    `findAsteriskPattern`, the character loop (`RecordPattern`, `code93ToPattern` with its rounding,
    `patternToChar`), the termination-bar test, `checkChecksums` and `decodeExtended` return exactly the content,
    with result points at the middle of the start character and of the stop character. -/
theorem code93_row_read_write (T : Tables) (hT : WF93Row T = true) (contents : List Nat) (mods : List Bool)
    (hascii : ∀ c ∈ contents, c < 128) (h : code93Modules T contents = .ok mods) (lq s rq : Nat) (hs : 0 < s) :
    c93DecodeRow T (paddedRow lq s rq mods) =
      .ok ⟨contents, 2 * lq + 9 * s, 2 * (lq + s * (mods.length - 10)) + 9 * s⟩ := by
  have f := wf93Facts T hT
  obtain ⟨e, he, hu⟩ := Properties.C03.ext93_inv contents hascii
  unfold code93Modules code93Symbols at h
  simp only [he, bind, Except.bind, pure, Except.pure, throw, throwThe, MonadExceptOf.throw] at h
  split at h
  · cases h
  · rename_i syms hsy
    split at hsy
    · cases hsy
    · split at hsy
      · cases hsy
      · rename_i vals hvals
        cases hsy
        obtain ⟨hlt, hmap⟩ := mapM_alphaIndex_spec T.code93Alphabet e vals hvals
        have hmap' : vals.map (alpha93 T) = e := hmap
        have hno := escape93_no_star contents e he
        have hv47 : ∀ i ∈ vals, i < 47 := by
          intro i hi
          have h48 := hlt i hi
          rw [f.alphaLen] at h48
          by_cases h47 : i = 47
          · exfalso
            apply hno
            rw [← hmap']
            have : alpha93 T 47 ∈ vals.map (alpha93 T) := List.mem_map.mpr ⟨47, by rw [← h47]; exact hi, rfl⟩
            rw [alpha93_star T f] at this
            exact this
          · omega
        have hsyms : ∀ i ∈ vals ++ [(CheckDigit.c93Checks vals).1, (CheckDigit.c93Checks vals).2], i < 47 := by
          intro i hi
          rcases List.mem_append.mp hi with x | x
          · exact hv47 i x
          · have h1 : (CheckDigit.c93Checks vals).1 < 47 := c93Check_lt _ _
            have h2 : (CheckDigit.c93Checks vals).2 < 47 := c93Check_lt _ _
            simp at x; omega
        rw [code93Draw_runs T f _ (fun i hi => by have := hsyms i hi; omega)] at h
        cases h
        have hfacts := runs93_facts T f 1 (by omega) _ (fun i hi => by have := hsyms i hi; omega)
        rw [← runs93u_scale] at hfacts
        have hw47 := f.word 47 (by omega)
        have hodd : (symbol93 T (vals ++ [(CheckDigit.c93Checks vals).1, (CheckDigit.c93Checks vals).2])).length % 2 = 1 := by
          have := hfacts.1
          simp only [symbol93, List.length_append, hw47.1, List.length_map] at this ⊢
          simp; omega
        have hpos : ∀ w ∈ symbol93 T (vals ++ [(CheckDigit.c93Checks vals).1, (CheckDigit.c93Checks vals).2]), 0 < w := by
          intro w hw
          simp only [symbol93, List.mem_append, List.mem_cons, List.not_mem_nil, or_false] at hw
          rcases hw with x | x | x | x
          · exact hw47.2.1 w x
          · have := hfacts.2.2 (1 * w) (List.mem_map.mpr ⟨w, x, rfl⟩); omega
          · exact hw47.2.1 w x
          · omega
        obtain ⟨hrow, hoff, hlen⟩ := paddedRow_rowAt _ lq s rq hs hodd hpos
        rw [c93DecodeRow_core T f s hs _ hsyms _ lq rq hrow hoff,
          c93Finish_written T f vals (fun i hi => by have := hv47 i hi; omega) contents (by rw [hmap']; exact hu)]
        simp only []
        -- the right point, in terms of the module count: 9·(n+2)+1 modules, stop character starts at 9·(n+1)
        have hml : (appendPattern (symbol93 T (vals ++ [(CheckDigit.c93Checks vals).1, (CheckDigit.c93Checks vals).2])) true).length
            = 9 * ((vals ++ [(CheckDigit.c93Checks vals).1, (CheckDigit.c93Checks vals).2]).length + 2) + 1 := by
          rw [length_appendPattern]
          have h9 := r93_sum T f 47 (by omega)
          have hs1 := (runs93_facts T f 1 (by omega) _ (fun i hi => by have := hsyms i hi; omega)).2.1
          rw [← runs93u_scale, sumL_scale] at hs1
          simp only [symbol93, sumL_append, h9, sumL_cons, sumL_nil]
          omega
        rw [hml]
        generalize (vals ++ [(CheckDigit.c93Checks vals).1, (CheckDigit.c93Checks vals).2]).length = n
        have e1 : 9 * (n + 2) + 1 - 10 = 9 * n + 9 := by omega
        have e2 : s * (9 * n + 9) = 9 * s + 9 * s * n := by
          rw [Nat.mul_add, Nat.mul_comm s 9, ← Nat.mul_assoc, Nat.mul_comm s 9]; omega
        rw [e1, e2, Nat.add_assoc]

/-- non-vacuity and tie to the writer model: "A" and the full-ASCII content "a~" at scales 1 and 3 -/
example : (code93Modules refTables [65]).map (fun m => c93DecodeRow refTables (paddedRow 0 1 0 m)) =
    .ok (.ok ⟨[65], 9, 81⟩) := by decide +kernel
example : (code93Modules refTables [97, 126]).map (fun m => c93DecodeRow refTables (paddedRow 2 3 1 m)) =
    .ok (.ok ⟨[97, 126], 31, 409⟩) := by decide +kernel

end Gzx.Properties.C03Row39
