/-
  C03 (wp rowsrest) — the round trip through the WHOLE `DecodeRow`.

  `upcean_read_write` (Properties/C03.lean) is about the text-only row decoder of Model/OneD.lean.  Here it is lifted
  to the whole-row model (Model/OneDRowExt.lean: add-on reader, metadata, result points, callbacks, hints): the exact-
  fraction instance of the whole-row model returns the same text as the text-only decoder on EVERY row
  (`decodeRow_text_refines`), hence every accepted content, drawn at any scale with the quiet zones the reader insists
  on, comes back from the full `DecodeRow` with the canonical text AND the reader's format, whatever row number and
  result-point-callback hint (`upcean_read_write_full`).
-/
import Gzx.Proofs.OneDRowExtExact
import Gzx.Properties.C03
import Gzx.Properties.C06RowUPC
namespace Gzx.Properties.C03RowFull
open Gzx Gzx.CheckDigit Gzx.OneDRowExt Gzx.Proofs.OneDRowExtTotal Gzx.Proofs.OneDRowExtExact
open Gzx.OneD (Tables refTables notFoundOf)

/-- **Refinement** (every row, every reader kind): without ALLOWED_EAN_EXTENSIONS the text of the whole-row model,
    run with exact fractions, is the result of `OneD.decodeRow`; errors are the same errors. -/
theorem decodeRow_text_refines (T : Tables) (X : ExtTables) (wf : wfRow T X = true) (k : EanKind) (rn : Int)
    (row : List Bool) (h : Hints) (hext : h.allowedExt = none) :
    (decodeRow VarOps.exact T X k rn row h).2.map (·.text) = OneD.decodeRow T k row := by
  unfold decodeRow OneD.decodeRow
  rw [findStartGuardPattern_exact]
  cases notFoundOf (OneD.findStartGuardPattern T row) with
  | error e => rfl
  | ok sg =>
    simp only [bind, Except.bind]
    exact readerWithStart_text_exact T X (wfRow_iff wf) k rn row h hext sg

/-- **C03 through the whole `DecodeRow`**: for every table set satisfying the round-trip conditions (`WFUpcEan`, per-run
    obligation of C03) and the shape condition (`wfRow`), every content the writer of kind `k` accepts
    (`writerContents k contents = ok full`), every scale `s ≥ 1`, left quiet zone `≥ s·|start guard|` and right quiet
    zone `> s·|end guard|`, every row number and callback hint: the full `DecodeRow` returns a result whose text is the
    canonical content (check digit appended; UPC-A without the "0" the writer prepended) and whose format is `k`. -/
theorem upcean_read_write_full (T : Tables) (X : ExtTables) (hT : OneD.WFUpcEan T = true) (wf : wfRow T X = true)
    (k : EanKind) (contents full : List Nat) (hw : writerContents k contents = .ok full) :
    ∃ mods, OneD.upceanModules T k contents = .ok mods ∧
      ∀ (lq s rq : Nat) (rn : Int) (cb canUPCA : Bool), 1 ≤ s → lq ≥ s * OneD.sumL T.startEnd →
        rq > s * OneD.sumL (OneD.endGuardOf T k) →
        ∃ res, (decodeRow VarOps.exact T X k rn (OneD.paddedRow lq s rq mods) { cb := cb, canUPCA := canUPCA }).2 = .ok res ∧
          res.text = OneD.upceanCanonical k full ∧ res.format = k := by
  obtain ⟨mods, hm, hrd⟩ := Gzx.Properties.C03.upcean_read_write T hT k contents full hw
  refine ⟨mods, hm, fun lq s rq rn cb canUPCA hs hl hr => ?_⟩
  have hro := hrd lq s rq hs hl hr
  have href := decodeRow_text_refines T X wf k rn (OneD.paddedRow lq s rq mods) { cb := cb, canUPCA := canUPCA } rfl
  rw [hro] at href
  cases hres : (decodeRow VarOps.exact T X k rn (OneD.paddedRow lq s rq mods) { cb := cb, canUPCA := canUPCA }).2 with
  | error e => rw [hres] at href; cases href
  | ok res =>
    rw [hres] at href
    refine ⟨res, rfl, by injection href, ?_⟩
    have := (Gzx.Properties.C06RowUPC.upcean_decodeRow_total VarOps.exact T X wf k rn (OneD.paddedRow lq s rq mods)
      { cb := cb, canUPCA := canUPCA }).2 res hres
    exact this.1

/-! ### non-vacuity -/
example : OneD.WFUpcEan refTables = true := by decide +kernel
example : wfRow refTables refExt = true := by decide
example : writerContents .upca (digitBytes [0, 1, 2, 3, 4, 5, 6, 7, 8, 9, 0]) =
    .ok (digitBytes [0, 0, 1, 2, 3, 4, 5, 6, 7, 8, 9, 0, 5]) := by decide
/-- the refinement is about a hint map WITHOUT ALLOWED_EAN_EXTENSIONS: with the hint the whole-row model refuses what
    the text-only decoder accepts (EAN-8 "96385074" without add-on, ALLOWED_EAN_EXTENSIONS = [2]) -/
example : ((decodeRow VarOps.exact refTables refExt .ean8 7 Gzx.Properties.C06RowUPC.ean8Row { allowedExt := some [2] }).2.toOption.map (·.text)) = none ∧
    OneD.decodeRow refTables .ean8 Gzx.Properties.C06RowUPC.ean8Row = .ok (OneD.bytesOf "96385074") := by decide +kernel

end Gzx.Properties.C03RowFull
