/-
  C04 — Reed-Solomon codec and GF(2^m) arithmetic exact up to the design distance.
  Property theorems only; helper lemmas live in Gzx/Proofs/{GF2,GF,Poly,RS}.lean.
  Models: Gzx/Model/GF.lean, Gzx/Model/RS.lean (tied to common/reedsolomon/*.go by the `c04`
  correspondence suite); reference arithmetic: Gzx/Ref/GF.lean (`clmul`, `pmod`).
  Every theorem is parametric in the field `F` with the decidable hypothesis `FieldOK F`
  (`F` is what `NewGenericGF` builds, size a power of two, prim of that degree with constant term 1,
  x of multiplicative order size-1); `Obligations/C04.lean` discharges it for the parameters
  regenerated from /repo on every run.
-/
import Gzx.Proofs.RS
namespace Gzx.Properties.C04
open Gzx Gzx.GF Gzx.RS Gzx.Ref.GF Gzx.Proofs.GF Gzx.Proofs.Poly Gzx.Proofs.RS

/-! ## (a) field arithmetic = polynomial arithmetic modulo the primitive polynomial -/

/-- Clause "multiplication agrees with polynomial arithmetic modulo the field's primitive
    polynomial for all elements": the table-driven `Multiply` is the carry-less product reduced
    modulo `prim`, for every field satisfying `FieldOK` (so GF(4096) like GF(16)) and all elements. -/
theorem gf_mul_eq_clmul_mod (F : GF) (h : FieldOK F) (a b : Nat) (ha : a < F.size) (hb : b < F.size) :
    F.mul a b = .ok (pmod F.prim (clmul a b)) := by
  have := mk'_mul h.2 F.base a b ha hb
  rw [← h.1] at this
  exact this

/-- Clause "inverse": `Inverse(a)` succeeds for every non-zero element and `a * Inverse(a) = 1`
    (both by the table-driven `Multiply` and by the reference product). -/
theorem gf_inv (F : GF) (h : FieldOK F) (a : Nat) (h0 : a ≠ 0) (ha : a < F.size) :
    ∃ v, F.inv a = .ok v ∧ v < F.size ∧ F.mul a v = .ok 1 ∧ pmod F.prim (clmul a v) = 1 := by
  obtain ⟨v, h1, h2, _, h4⟩ := mk'_inv h.2 F.base a h0 ha
  rw [← h.1] at h1
  refine ⟨v, h1, h2, ?_, h4⟩
  rw [gf_mul_eq_clmul_mod F h a v ha h2]
  exact congrArg _ h4

/-- `Inverse(0)` and `Log(0)` are Go's checked `IllegalArgumentException`, not a panic -/
theorem gf_inv_log_zero (F : GF) : F.inv 0 = .error .illegalArg ∧ F.logOf 0 = .error .illegalArg :=
  ⟨rfl, rfl⟩

/-- Clause "exp(log a) == a" for every non-zero element; the logarithm is `< size-1`. -/
theorem gf_exp_log (F : GF) (h : FieldOK F) (a : Nat) (h0 : a ≠ 0) (ha : a < F.size) :
    ∃ l, F.logOf a = .ok l ∧ l < F.size - 1 ∧ F.expAt l = .ok a := by
  have := mk'_log h.2 F.base a h0 ha
  rw [← h.1] at this
  exact this

/-- `log(exp i) == i` for every exponent below the group order; `exp i` is a non-zero element. -/
theorem gf_log_exp (F : GF) (h : FieldOK F) (i : Nat) (hi : i < F.size - 1) :
    ∃ v, F.expAt i = .ok v ∧ v ≠ 0 ∧ v < F.size ∧ F.logOf v = .ok i := by
  have := mk'_exp h.2 F.base i hi
  rw [← h.1] at this
  exact this

/-- Clause "exponent": `Exp(i)` is `x^i` reduced modulo `prim` (long division), for every table index. -/
theorem gf_exp_eq_pow_mod (F : GF) (h : FieldOK F) (i : Nat) (hi : i < F.size) :
    F.expAt i = .ok (pmod F.prim (2 ^ i)) := by
  have := exp_get h.2 F.base i hi
  rw [← h.1, pw_eq_pmod h.2] at this
  exact this

/-- outside the table `Exp` is a Go index panic (the model never hides it) -/
theorem gf_exp_out_of_range (F : GF) (h : FieldOK F) (i : Nat) (hi : ¬ i < F.size) :
    ∃ w, F.expAt i = .error (.panic w) := by
  have := exp_get_oob (prim := F.prim) (size := F.size) F.base i hi
  rw [← h.1] at this
  exact this

/-! non-vacuity: the hypotheses hold for the library's fields (all six: `Obligations/C04.lean`) -/
example : FieldOK qrCode256 := fieldOK_mk' (by decide +kernel)
example : FieldOK aztecData12 := fieldOK_mk' (by decide +kernel)
example : qrCode256.mul 0x53 0xCA = .ok (pmod 0x11D (clmul 0x53 0xCA)) :=
  gf_mul_eq_clmul_mod _ (fieldOK_mk' (by decide +kernel)) _ _ (by decide) (by decide)
example : pmod 0x11D (clmul 2 128) = 29 := by decide
/-- a reducible "primitive" polynomial is rejected: x^8+1 -/
example : ¬ ParamsOK 0x101 256 := by decide +kernel
/-- an irreducible but non-primitive polynomial (x^8+x^4+x^3+x+1, AES) is rejected: x has order 51 -/
example : ¬ ParamsOK 0x11B 256 := by decide +kernel


/-! ## (b), (c) Reed-Solomon encoder, clean path of the decoder

Notation of the statements, all over the *reference* arithmetic (`gmul prim a b = pmod prim (clmul a b)`):
`evalH prim a w` is the Horner value at `a` of the polynomial whose coefficients are the word `w`
(first symbol = highest power), `alpha F j = pmod prim (2^j)` is `x^j mod prim`.
The `i`-th syndrome of a word is `evalH F.prim (alpha F (i + F.base)) w`.
Hypothesis `r + F.base ≤ F.size` is implied by the property's `k + r ≤ |F| - 1`, `k ≥ 1`
for the generator bases 0 and 1 the library uses (`shape_ok`). -/

/-- `α^j = x^j mod prim` -/
def alpha (F : GF) (j : Nat) : Nat := pmod F.prim (2 ^ j)

/-- all symbols of the word are field elements -/
def InField (F : GF) (w : List Nat) : Prop := ∀ x, x ∈ w → x < F.size

/-- the word has zero syndromes `S_0 … S_{r-1}` (reference arithmetic) -/
def ZeroSyndromes (F : GF) (w : List Nat) (r : Nat) : Prop :=
  ∀ i, i < r → evalH F.prim (alpha F (i + F.base)) w = 0

theorem alpha_eq_pw (F : GF) (h : FieldOK F) (j : Nat) : alpha F j = pw F.prim F.size j :=
  (pw_eq_pmod h.2 j).symm

/-- the property's shape condition implies the hypothesis used below -/
theorem shape_ok (F : GF) (k r : Nat) (hk : 1 ≤ k) (hn : k + r ≤ F.size - 1) (hb : F.base ≤ 1) :
    r + F.base ≤ F.size := by omega

/-- Clause "encoding leaves the data symbols unchanged and appends parity": for every data length
    `k ≥ 1`, every parity count `r ≥ 1` the field supports and whatever is in the `r` tail slots,
    `Encode` succeeds (no error, no panic, no fuel exhaustion), returns the data symbols unchanged
    followed by exactly `r` parity symbols, all of them field elements. -/
theorem rs_encode_systematic (F : GF) (h : FieldOK F) (data tail : List Nat) (r : Nat)
    (hk : data ≠ []) (hr : 0 < r) (htl : tail.length = r) (hd : InField F data) (hb : r + F.base ≤ F.size) :
    ∃ par, encodeArr F (data ++ tail) r = .ok (data ++ par) ∧ par.length = r ∧ InField F par := by
  obtain ⟨par, h1, h2, h3, _⟩ := encodeArr_spec h data tail r hk hr htl hd hb
  exact ⟨par, h1, h2, h3⟩

/-- the same for the API the other models import: `encode` returns the `r` parity symbols and
    `encodeWord = data ++ encode` -/
theorem rs_encode_api (F : GF) (h : FieldOK F) (data : List Nat) (r : Nat)
    (hk : data ≠ []) (hr : 0 < r) (hd : InField F data) (hb : r + F.base ≤ F.size) :
    ∃ par, encode F data r = .ok par ∧ encodeWord F data r = .ok (data ++ par) ∧ par.length = r ∧
      InField F par := by
  obtain ⟨par, h1, h2, h3, _⟩ := encodeArr_spec h data (List.replicate r 0) r hk hr (by simp) hd hb
  refine ⟨par, ?_, h1, h2, h3⟩
  unfold encode encodeWord
  rw [h1]
  simp [bind, Except.bind]

/-- Clause "… such that the whole word has zero syndromes": every `α^(i+base)`, `i < r`, is a root
    of the encoded word. -/
theorem rs_encode_zero_syndromes (F : GF) (h : FieldOK F) (data : List Nat) (r : Nat)
    (hk : data ≠ []) (hr : 0 < r) (hd : InField F data) (hb : r + F.base ≤ F.size) :
    ∃ w, encodeWord F data r = .ok w ∧ w.length = data.length + r ∧ InField F w ∧ ZeroSyndromes F w r := by
  obtain ⟨par, h1, h2, h3, h4⟩ := encodeArr_spec h data (List.replicate r 0) r hk hr (by simp) hd hb
  refine ⟨data ++ par, h1, by simp [h2], InR.append hd h3, ?_⟩
  intro i hi
  rw [alpha_eq_pw F h]
  exact h4 i hi

/-- the model decoder computes exactly these syndromes (so `ZeroSyndromes` is what `Decode` tests) -/
theorem rs_syndromes_eq (F : GF) (h : FieldOK F) (w : List Nat) (hne : w ≠ []) (hw : InField F w) (r : Nat)
    (hb : r + F.base ≤ F.size) :
    syndromes F (normalize w) r 0 =
      .ok ((List.range' 0 r).map (fun i => evalH F.prim (alpha F (i + F.base)) w)) := by
  rw [syndromes_spec h _ (normalize_ne_nil w) (InR_normalize (size_pos h) w hw) r 0 (by omega)]
  congr 1
  apply List.map_congr_left
  intro i _
  rw [evalH_normalize h.2, alpha_eq_pw F h]

/-- Clause "an uncorrupted word passes through unchanged": a word with zero syndromes is returned as is. -/
theorem rs_decode_clean (F : GF) (h : FieldOK F) (w : List Nat) (r : Nat) (hne : w ≠ []) (hw : InField F w)
    (hb : r + F.base ≤ F.size) (hz : ZeroSyndromes F w r) :
    decode F w r = .ok w := by
  unfold decode
  rw [decodeD_clean h w hne hw r hb (fun i hi => by rw [← alpha_eq_pw F h]; exact hz i hi)]

/-- hence: decoding an encoded word returns it unchanged -/
theorem rs_decode_encode (F : GF) (h : FieldOK F) (data : List Nat) (r : Nat)
    (hk : data ≠ []) (hr : 0 < r) (hd : InField F data) (hb : r + F.base ≤ F.size) :
    ∃ w, encodeWord F data r = .ok w ∧ decode F w r = .ok w := by
  obtain ⟨w, h1, h2, h3, h4⟩ := rs_encode_zero_syndromes F h data r hk hr hd hb
  refine ⟨w, h1, rs_decode_clean F h w r ?_ h3 hb h4⟩
  intro hw
  rw [hw] at h2
  have := List.length_pos_iff.2 hk
  simp at h2; omega

/-! non-vacuity -/
example : encodeWord qrCode256 [32, 91, 11, 120, 209, 114, 220, 77, 67, 64, 236, 17, 236, 17, 236, 17] 10 =
    .ok [32, 91, 11, 120, 209, 114, 220, 77, 67, 64, 236, 17, 236, 17, 236, 17,
         196, 35, 39, 119, 235, 215, 231, 226, 93, 23] := by decide +kernel
example : InField aztecParam [1, 2, 3] ∧ 5 + aztecParam.base ≤ aztecParam.size := by
  refine ⟨?_, by decide⟩
  intro x hx; simp at hx; rcases hx with rfl | rfl | rfl <;> decide

end Gzx.Properties.C04
