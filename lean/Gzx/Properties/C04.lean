/-
  C04 — Reed-Solomon codec and GF(2^m) arithmetic exact up to the design distance.
  Property theorems only; helper lemmas live in Gzx/Proofs/{GF2,GF,Poly,RS}.lean.
  Models: Gzx/Model/GF.lean, Gzx/Model/RS.lean (tied to common/reedsolomon/*.go by the `c04`
  correspondence suite); reference arithmetic: Gzx/Ref/GF.lean (`clmul`, `pmod`).
  Every theorem is parametric in the field `F` with the decidable hypothesis `FieldOK F`
  (`F` is what `NewGenericGF` builds, size a power of two, prim of that degree with constant term 1,
  x of multiplicative order size-1); `Obligations/C04.lean` discharges it for the parameters
  regenerated from /repo on every run.
-/
import Gzx.Proofs.RS
import Gzx.Proofs.MinDist
import Gzx.Proofs.SingleError
import Gzx.Proofs.Total
import Gzx.Proofs.Corrects
namespace Gzx.Properties.C04
open Gzx Gzx.GF Gzx.RS Gzx.Ref.GF Gzx.Proofs.GF Gzx.Proofs.Poly Gzx.Proofs.RS Gzx.Proofs.MinDist Gzx.Proofs.SingleError Gzx.Proofs.Total Gzx.Proofs.Corrects

/-! ## (a) field arithmetic = polynomial arithmetic modulo the primitive polynomial -/

/-- Clause "multiplication agrees with polynomial arithmetic modulo the field's primitive
    polynomial for all elements": the table-driven `Multiply` is the carry-less product reduced
    modulo `prim`, for every field satisfying `FieldOK` (so GF(4096) like GF(16)) and all elements. -/
theorem gf_mul_eq_clmul_mod (F : GF) (h : FieldOK F) (a b : Nat) (ha : a < F.size) (hb : b < F.size) :
    F.mul a b = .ok (pmod F.prim (clmul a b)) := by
  have := mk'_mul h.2 F.base a b ha hb
  rw [← h.1] at this
  exact this

/-- Clause "inverse": `Inverse(a)` succeeds for every non-zero element and `a * Inverse(a) = 1`
    (both by the table-driven `Multiply` and by the reference product). -/
theorem gf_inv (F : GF) (h : FieldOK F) (a : Nat) (h0 : a ≠ 0) (ha : a < F.size) :
    ∃ v, F.inv a = .ok v ∧ v < F.size ∧ F.mul a v = .ok 1 ∧ pmod F.prim (clmul a v) = 1 := by
  obtain ⟨v, h1, h2, _, h4⟩ := mk'_inv h.2 F.base a h0 ha
  rw [← h.1] at h1
  refine ⟨v, h1, h2, ?_, h4⟩
  rw [gf_mul_eq_clmul_mod F h a v ha h2]
  exact congrArg _ h4

/-- `Inverse(0)` and `Log(0)` are Go's checked `IllegalArgumentException`, not a panic -/
theorem gf_inv_log_zero (F : GF) : F.inv 0 = .error .illegalArg ∧ F.logOf 0 = .error .illegalArg :=
  ⟨rfl, rfl⟩

/-- Clause "exp(log a) == a" for every non-zero element; the logarithm is `< size-1`. -/
theorem gf_exp_log (F : GF) (h : FieldOK F) (a : Nat) (h0 : a ≠ 0) (ha : a < F.size) :
    ∃ l, F.logOf a = .ok l ∧ l < F.size - 1 ∧ F.expAt l = .ok a := by
  have := mk'_log h.2 F.base a h0 ha
  rw [← h.1] at this
  exact this

/-- `log(exp i) == i` for every exponent below the group order; `exp i` is a non-zero element. -/
theorem gf_log_exp (F : GF) (h : FieldOK F) (i : Nat) (hi : i < F.size - 1) :
    ∃ v, F.expAt i = .ok v ∧ v ≠ 0 ∧ v < F.size ∧ F.logOf v = .ok i := by
  have := mk'_exp h.2 F.base i hi
  rw [← h.1] at this
  exact this

/-- Clause "exponent": `Exp(i)` is `x^i` reduced modulo `prim` (long division), for every table index. -/
theorem gf_exp_eq_pow_mod (F : GF) (h : FieldOK F) (i : Nat) (hi : i < F.size) :
    F.expAt i = .ok (pmod F.prim (2 ^ i)) := by
  have := exp_get h.2 F.base i hi
  rw [← h.1, pw_eq_pmod h.2] at this
  exact this

/-- outside the table `Exp` is a Go index panic (the model never hides it) -/
theorem gf_exp_out_of_range (F : GF) (h : FieldOK F) (i : Nat) (hi : ¬ i < F.size) :
    ∃ w, F.expAt i = .error (.panic w) := by
  have := exp_get_oob (prim := F.prim) (size := F.size) F.base i hi
  rw [← h.1] at this
  exact this

/-! non-vacuity: the hypotheses hold for the library's fields (all six: `Obligations/C04.lean`) -/
example : FieldOK qrCode256 := fieldOK_mk' (by decide +kernel)
example : FieldOK aztecData12 := fieldOK_mk' (by decide +kernel)
example : qrCode256.mul 0x53 0xCA = .ok (pmod 0x11D (clmul 0x53 0xCA)) :=
  gf_mul_eq_clmul_mod _ (fieldOK_mk' (by decide +kernel)) _ _ (by decide) (by decide)
example : pmod 0x11D (clmul 2 128) = 29 := by decide
/-- a reducible "primitive" polynomial is rejected: x^8+1 -/
example : ¬ ParamsOK 0x101 256 := by decide +kernel
/-- an irreducible but non-primitive polynomial (x^8+x^4+x^3+x+1, AES) is rejected: x has order 51 -/
example : ¬ ParamsOK 0x11B 256 := by decide +kernel


/-! ## (b), (c) Reed-Solomon encoder, clean path of the decoder

Notation of the statements, all over the *reference* arithmetic (`gmul prim a b = pmod prim (clmul a b)`):
`evalH prim a w` is the Horner value at `a` of the polynomial whose coefficients are the word `w`
(first symbol = highest power), `alpha F j = pmod prim (2^j)` is `x^j mod prim`.
The `i`-th syndrome of a word is `evalH F.prim (alpha F (i + F.base)) w`.
Hypothesis `r + F.base ≤ F.size` is implied by the property's `k + r ≤ |F| - 1`, `k ≥ 1`
for the generator bases 0 and 1 the library uses (`shape_ok`). -/

/-- `α^j = x^j mod prim` -/
def alpha (F : GF) (j : Nat) : Nat := pmod F.prim (2 ^ j)

/-- all symbols of the word are field elements -/
def InField (F : GF) (w : List Nat) : Prop := ∀ x, x ∈ w → x < F.size

/-- the word has zero syndromes `S_0 … S_{r-1}` (reference arithmetic) -/
def ZeroSyndromes (F : GF) (w : List Nat) (r : Nat) : Prop :=
  ∀ i, i < r → evalH F.prim (alpha F (i + F.base)) w = 0

theorem alpha_eq_pw (F : GF) (h : FieldOK F) (j : Nat) : alpha F j = pw F.prim F.size j :=
  (pw_eq_pmod h.2 j).symm

/-- the property's shape condition implies the hypothesis used below -/
theorem shape_ok (F : GF) (k r : Nat) (hk : 1 ≤ k) (hn : k + r ≤ F.size - 1) (hb : F.base ≤ 1) :
    r + F.base ≤ F.size := by omega

/-- Clause "encoding leaves the data symbols unchanged and appends parity": for every data length
    `k ≥ 1`, every parity count `r ≥ 1` the field supports and whatever is in the `r` tail slots,
    `Encode` succeeds (no error, no panic, no fuel exhaustion), returns the data symbols unchanged
    followed by exactly `r` parity symbols, all of them field elements. -/
theorem rs_encode_systematic (F : GF) (h : FieldOK F) (data tail : List Nat) (r : Nat)
    (hk : data ≠ []) (hr : 0 < r) (htl : tail.length = r) (hd : InField F data) (hb : r + F.base ≤ F.size) :
    ∃ par, encodeArr F (data ++ tail) r = .ok (data ++ par) ∧ par.length = r ∧ InField F par := by
  obtain ⟨par, h1, h2, h3, _⟩ := encodeArr_spec h data tail r hk hr htl hd hb
  exact ⟨par, h1, h2, h3⟩

/-- the same for the API the other models import: `encode` returns the `r` parity symbols and
    `encodeWord = data ++ encode` -/
theorem rs_encode_api (F : GF) (h : FieldOK F) (data : List Nat) (r : Nat)
    (hk : data ≠ []) (hr : 0 < r) (hd : InField F data) (hb : r + F.base ≤ F.size) :
    ∃ par, encode F data r = .ok par ∧ encodeWord F data r = .ok (data ++ par) ∧ par.length = r ∧
      InField F par := by
  obtain ⟨par, h1, h2, h3, _⟩ := encodeArr_spec h data (List.replicate r 0) r hk hr (by simp) hd hb
  refine ⟨par, ?_, h1, h2, h3⟩
  unfold encode encodeWord
  rw [h1]
  simp [bind, Except.bind]

/-- Clause "… such that the whole word has zero syndromes": every `α^(i+base)`, `i < r`, is a root
    of the encoded word. -/
theorem rs_encode_zero_syndromes (F : GF) (h : FieldOK F) (data : List Nat) (r : Nat)
    (hk : data ≠ []) (hr : 0 < r) (hd : InField F data) (hb : r + F.base ≤ F.size) :
    ∃ w, encodeWord F data r = .ok w ∧ w.length = data.length + r ∧ InField F w ∧ ZeroSyndromes F w r := by
  obtain ⟨par, h1, h2, h3, h4⟩ := encodeArr_spec h data (List.replicate r 0) r hk hr (by simp) hd hb
  refine ⟨data ++ par, h1, by simp [h2], InR.append hd h3, ?_⟩
  intro i hi
  rw [alpha_eq_pw F h]
  exact h4 i hi

/-- the model decoder computes exactly these syndromes (so `ZeroSyndromes` is what `Decode` tests) -/
theorem rs_syndromes_eq (F : GF) (h : FieldOK F) (w : List Nat) (hw : InField F w) (r : Nat)
    (hb : r + F.base ≤ F.size) :
    syndromes F (normalize w) r 0 =
      .ok ((List.range' 0 r).map (fun i => evalH F.prim (alpha F (i + F.base)) w)) := by
  rw [syndromes_spec h _ (normalize_ne_nil w) (InR_normalize (size_pos h) w hw) r 0 (by omega)]
  congr 1
  apply List.map_congr_left
  intro i _
  rw [evalH_normalize h.2, alpha_eq_pw F h]

/-- Clause "an uncorrupted word passes through unchanged": a word with zero syndromes is returned as is. -/
theorem rs_decode_clean (F : GF) (h : FieldOK F) (w : List Nat) (r : Nat) (hne : w ≠ []) (hw : InField F w)
    (hb : r + F.base ≤ F.size) (hz : ZeroSyndromes F w r) :
    decode F w r = .ok w := by
  unfold decode
  rw [decodeD_clean h w hne hw r hb (fun i hi => by rw [← alpha_eq_pw F h]; exact hz i hi)]

/-- hence: decoding an encoded word returns it unchanged -/
theorem rs_decode_encode (F : GF) (h : FieldOK F) (data : List Nat) (r : Nat)
    (hk : data ≠ []) (hr : 0 < r) (hd : InField F data) (hb : r + F.base ≤ F.size) :
    ∃ w, encodeWord F data r = .ok w ∧ decode F w r = .ok w := by
  obtain ⟨w, h1, h2, h3, h4⟩ := rs_encode_zero_syndromes F h data r hk hr hd hb
  refine ⟨w, h1, rs_decode_clean F h w r ?_ h3 hb h4⟩
  intro hw
  rw [hw] at h2
  have := List.length_pos_iff.2 hk
  simp at h2; omega

/-! non-vacuity -/
example : encodeWord aztecParam [5, 10, 3] 4 = .ok [5, 10, 3, 9, 6, 2, 14] := by decide +kernel
example : decode aztecParam [5, 10, 3, 9, 6, 2, 14] 4 = .ok [5, 10, 3, 9, 6, 2, 14] := by decide +kernel
/-- two corrupted symbols of this GF(16) word with 4 parity symbols are restored (instance of `rs_corrects`) -/
example : decode aztecParam [5, 11, 3, 9, 6, 2, 1] 4 = .ok [5, 10, 3, 9, 6, 2, 14] := by decide +kernel
example : InField aztecParam [1, 2, 3] ∧ 5 + aztecParam.base ≤ aztecParam.size := by
  refine ⟨?_, by decide⟩
  intro x hx; simp at hx; rcases hx with rfl | rfl | rfl <;> decide


/-- `Decode` is total on in-range input: for every non-empty word over the field and every parity count the
    field supports it returns a word of the same length over the field, or a `ReedSolomonException`
    (`.checksum`) — never a Go panic, never fuel exhaustion of the two Euclid loops (they terminate). -/
theorem rs_decode_total (F : GF) (h : FieldOK F) (w : List Nat) (r : Nat) (hne : w ≠ []) (hw : InField F w)
    (hb : r + F.base ≤ F.size) :
    (∃ w', decode F w r = .ok w' ∧ InField F w' ∧ w'.length = w.length) ∨ decode F w r = .error .checksum := by
  unfold decode
  rcases decodeD_total h w hne hw r hb with ⟨w', h1, h2, h3⟩ | ⟨e, h1, h2⟩
  · left; rw [h1]; exact ⟨w', rfl, h2, h3⟩
  · right; rw [h1]; exact congrArg _ h2

/-! ## (d) error correction up to the design distance

`rs_corrects` below is the clause "decoding any such word after corruption of at most floor(parity/2) symbol
positions restores it exactly", proved in full for the model decoder: every field with `FieldOK`, generator
base 0 or 1, every code word length `n ≤ size-1`, every parity count `r` the field supports, every error word of
weight `≤ ⌊r/2⌋`.  Proof (Gzx/Proofs/{Conv,Coef,Euclid,KeyEq,Roots,Locator,Sugiyama,Chien,Forney,Corrects}.lean):
the syndromes of `c + e` are the power sums `S_m = Σ Y_l X_l^m` of the error pattern; the model's Euclidean loop
keeps `t·S ≡ r (mod x^R)` and `deg t + deg rLast = R` coefficient-wise; in power-sum form
`(t·S)_m = Σ_l Y_l t(X_l⁻¹) X_l^m` for `m ≥ deg t`, so by the Vandermonde lemma the returned `t` vanishes at every
inverse locator and has degree exactly the number of errors; by the root bound `t = c·Λ` and hence `r = c·Ω`
(key equation for Λ); the Chien loop finds exactly the locators, Forney's formula (with the generator-base
correction) the error values, and the correction loop restores `c`.

Also kept: `rs_syndromes_linear`, `rs_min_distance`, `rs_unique_nearest` (minimum distance r+1: the restored word
is the only code word within ⌊r/2⌋ of the received word) and `rs_corrects_single` (the one-error case, proved
independently by symbolic execution of the decoder). -/

/-- (1) syndromes are linear: the value of `c + e` at any field element is the xor of the values -/
theorem rs_syndromes_linear (F : GF) (h : FieldOK F) (c e : List Nat) (hlen : c.length = e.length)
    (hc : InField F c) (he : InField F e) (a : Nat) :
    evalH F.prim a (List.zipWith (· ^^^ ·) c e) = evalH F.prim a c ^^^ evalH F.prim a e := by
  have := evalFrom_xor h.2 a c e 0 0 hlen (size_pos h) (size_pos h) hc he
  rw [Nat.xor_zero] at this
  exact this

/-- (2) minimum distance `r + 1`: two code words (zero syndromes `S_0 … S_{r-1}`) of the same length
    `n ≤ size - 1` that differ in at most `r` positions are equal -/
theorem rs_min_distance (F : GF) (h : FieldOK F) (c1 c2 : List Nat) (r : Nat)
    (hlen : c1.length = c2.length) (hn : c1.length ≤ F.size - 1) (h1 : InField F c1) (h2 : InField F c2)
    (hz1 : ZeroSyndromes F c1 r) (hz2 : ZeroSyndromes F c2 r)
    (hd : weight (List.zipWith (· ^^^ ·) c1 c2) ≤ r) : c1 = c2 := by
  apply zipWith_xor_all_zero c1 c2 hlen
  apply min_distance h.2 F.base r _ (InR_zipWith_xor h.2 c1 c2 h1 h2) (by simp [← hlen]; exact hn) hd
  intro i hi
  rw [← alpha_eq_pw F h, rs_syndromes_linear F h c1 c2 hlen h1 h2, hz1 i hi, hz2 i hi]
  rfl

/-- (2') unique nearest code word: if a received word `v` is within `t` positions of the code word `c`
    and of the code word `c'`, and `2t ≤ r`, then `c = c'`.  So `encode(d)` is the only code word a
    decoder may return for `encode(d) + e`, `|E| ≤ ⌊r/2⌋`. -/
theorem rs_unique_nearest (F : GF) (h : FieldOK F) (c c' v : List Nat) (r t : Nat)
    (hl1 : c.length = v.length) (hl2 : v.length = c'.length) (hn : c.length ≤ F.size - 1)
    (h1 : InField F c) (h2 : InField F c') (hz1 : ZeroSyndromes F c r) (hz2 : ZeroSyndromes F c' r)
    (hd1 : weight (List.zipWith (· ^^^ ·) c v) ≤ t) (hd2 : weight (List.zipWith (· ^^^ ·) v c') ≤ t)
    (ht : 2 * t ≤ r) : c = c' := by
  apply rs_min_distance F h c c' r (by omega) hn h1 h2 hz1 hz2
  have := weight_triangle c v c' hl1 hl2
  omega

/-- the parity symbols are uniquely determined by the zero-syndrome condition: any `r` symbols `par'` that make
    `data ++ par'` a zero-syndrome word (length ≤ size-1) are the symbols `Encode` appends.  So the clause
    "appends parity such that the whole word has zero syndromes" fixes the encoder's output completely. -/
theorem rs_encode_unique (F : GF) (h : FieldOK F) (data par' : List Nat) (r : Nat)
    (hk : data ≠ []) (hr : 0 < r) (hd : InField F data) (hp : InField F par') (hpl : par'.length = r)
    (hn : data.length + r ≤ F.size - 1) (hb : r + F.base ≤ F.size)
    (hz : ZeroSyndromes F (data ++ par') r) :
    encode F data r = .ok par' := by
  obtain ⟨par, h1, h2, h3, h4⟩ := rs_encode_api F h data r hk hr hd hb
  obtain ⟨w, hw1, _, _, hw4⟩ := rs_encode_zero_syndromes F h data r hk hr hd hb
  rw [h2] at hw1
  have hw : w = data ++ par := (Except.ok.inj hw1).symm
  rw [hw] at hw4
  have heq : data ++ par = data ++ par' := by
    apply rs_min_distance F h (data ++ par) (data ++ par') r (by simp [h3, hpl]) (by simp [h3]; omega)
      (InR.append hd h4) (InR.append hd hp) hw4 hz
    -- the two words agree on the data part
    have hzip : List.zipWith (· ^^^ ·) (data ++ par) (data ++ par') =
        List.zipWith (· ^^^ ·) data data ++ List.zipWith (· ^^^ ·) par par' :=
      List.zipWith_append (by rfl)
    rw [hzip, weight_append, weight_zipWith_self, Nat.zero_add]
    have := weight_le_length (List.zipWith (· ^^^ ·) par par')
    rw [List.length_zipWith, h3, hpl, Nat.min_self] at this
    exact this
  rw [h1, List.append_cancel_left heq]

/-- (3) one corrupted symbol — any position, any non-zero error magnitude — is restored exactly, for every
    code word length `n ≤ size - 1` and every parity count `r ≥ 2` (so `⌊r/2⌋ ≥ 1`), generator base 0 or 1 -/
theorem rs_corrects_single (F : GF) (h : FieldOK F) (hb : F.base ≤ 1) (c : List Nat) (r j e : Nat)
    (hr : 2 ≤ r) (hrb : r + F.base ≤ F.size) (hn : c.length ≤ F.size - 1) (hc : InField F c)
    (hz : ZeroSyndromes F c r) (hj : j < c.length) (he0 : e ≠ 0) (he : e < F.size) :
    decode F (c.set j (c[j] ^^^ e)) r = .ok c := by
  unfold decode
  rw [decodeD_single h hb c r j e hr hrb hn hc (fun i hi => by rw [← alpha_eq_pw F h]; exact hz i hi) hj he0 he]

/-- hence `decode (encode d + e) = encode d` for a single-symbol error `e` -/
theorem rs_decode_encode_single (F : GF) (h : FieldOK F) (hb : F.base ≤ 1) (data : List Nat) (r j e : Nat)
    (hk : data ≠ []) (hr : 2 ≤ r) (hd : InField F data) (hn : data.length + r ≤ F.size - 1)
    (hj : j < data.length + r) (he0 : e ≠ 0) (he : e < F.size) :
    ∃ w, ∃ hw : w.length = data.length + r, encodeWord F data r = .ok w ∧
      decode F (w.set j (w[j]'(by omega) ^^^ e)) r = .ok w := by
  have hrb : r + F.base ≤ F.size := by omega
  obtain ⟨w, h1, h2, h3, h4⟩ := rs_encode_zero_syndromes F h data r hk (by omega) hd hrb
  exact ⟨w, h2, h1, rs_corrects_single F h hb w r j e hr hrb (by omega) h3 h4 (by omega) he0 he⟩

/-! non-vacuity: the hypotheses of the theorems of this section are satisfiable — a concrete GF(16) code word
    (7 symbols, 4 parity symbols), its weight-2 neighbour, and instances with corrupted symbols -/
example : ZeroSyndromes aztecParam [5, 10, 3, 9, 6, 2, 14] 4 := by unfold ZeroSyndromes; decide +kernel
example : InField aztecParam [5, 10, 3, 9, 6, 2, 14] ∧ [5, 10, 3, 9, 6, 2, 14].length ≤ aztecParam.size - 1 ∧
    4 + aztecParam.base ≤ aztecParam.size ∧ aztecParam.base ≤ 1 := by unfold InField; decide +kernel
example : weight (List.zipWith (· ^^^ ·) [5, 10, 3, 9, 6, 2, 14] [5, 11, 3, 9, 6, 2, 1]) = 2 := by decide
/-- the minimum distance is attained: a second code word at distance exactly r + 1 = 5 -/
example : ZeroSyndromes aztecParam [5, 10, 2, 4, 10, 10, 9] 4 ∧
    weight (List.zipWith (· ^^^ ·) [5, 10, 3, 9, 6, 2, 14] [5, 10, 2, 4, 10, 10, 9]) = 5 := by
  unfold ZeroSyndromes; decide +kernel
example : decode aztecParam ([5, 10, 3, 9, 6, 2, 14].set 2 (3 ^^^ 7)) 4 = .ok [5, 10, 3, 9, 6, 2, 14] := by
  decide +kernel

/-- **Clause "decoding any such word after corruption of at most floor(parity/2) symbol positions restores it
    exactly".**  `c` is any code word (zero syndromes `S_0 … S_{r-1}`) of length `n ≤ size-1`, `e` any error word
    of the same length with at most `⌊r/2⌋` non-zero symbols; `Decode(c + e, r)` returns `c`. -/
theorem rs_corrects (F : GF) (h : FieldOK F) (hb : F.base ≤ 1) (c e : List Nat) (r : Nat)
    (hlen : e.length = c.length) (hn : c.length ≤ F.size - 1) (hc : InField F c) (he : InField F e)
    (hz : ZeroSyndromes F c r) (hne : c ≠ []) (hrb : r + F.base ≤ F.size) (hwt : 2 * weight e ≤ r) :
    decode F (List.zipWith (· ^^^ ·) c e) r = .ok c := by
  unfold decode
  rw [decodeD_corrects h hb c e r hlen hn hc he (fun i hi => by rw [← alpha_eq_pw F h]; exact hz i hi) hne hrb hwt]

/-- hence `decode (encode d + e) = encode d` for every data word `d` (`k ≥ 1` symbols), every parity count `r ≥ 1`
    with `k + r ≤ size - 1`, and every error word `e` with at most `⌊r/2⌋` non-zero symbols -/
theorem rs_decode_encode_corrupted (F : GF) (h : FieldOK F) (hb : F.base ≤ 1) (data e : List Nat) (r : Nat)
    (hk : data ≠ []) (hr : 0 < r) (hd : InField F data) (hn : data.length + r ≤ F.size - 1)
    (hel : e.length = data.length + r) (he : InField F e) (hwt : 2 * weight e ≤ r) :
    ∃ w, encodeWord F data r = .ok w ∧ decode F (List.zipWith (· ^^^ ·) w e) r = .ok w := by
  have hrb : r + F.base ≤ F.size := by omega
  obtain ⟨w, h1, h2, h3, h4⟩ := rs_encode_zero_syndromes F h data r hk hr hd hrb
  refine ⟨w, h1, rs_corrects F h hb w e r (by omega) (by omega) h3 he h4 ?_ hrb hwt⟩
  intro hw
  rw [hw] at h2
  have := List.length_pos_iff.2 hk
  simp at h2; omega

/-- number of positions in which two words of equal length differ -/
def hamming (a b : List Nat) : Nat := weight (List.zipWith (· ^^^ ·) a b)

/-- received-word form: any word `v` that differs from the code word `c` in at most `⌊r/2⌋` positions
    decodes to `c` -/
theorem rs_corrects_received (F : GF) (h : FieldOK F) (hb : F.base ≤ 1) (c v : List Nat) (r : Nat)
    (hlen : v.length = c.length) (hn : c.length ≤ F.size - 1) (hc : InField F c) (hv : InField F v)
    (hz : ZeroSyndromes F c r) (hne : c ≠ []) (hrb : r + F.base ≤ F.size) (hd : 2 * hamming c v ≤ r) :
    decode F v r = .ok c := by
  have := rs_corrects F h hb c (List.zipWith (· ^^^ ·) c v) r (by simp [hlen]) hn hc
    (InR_zipWith_xor h.2 c v hc hv) hz hne hrb hd
  rw [zipWith_xor_cancel c v hlen] at this
  exact this

/-! non-vacuity of `rs_corrects`: a GF(16) code word with r = 4 and an error word of weight 2 -/
example : 2 * weight [0, 1, 0, 0, 0, 0, 15] ≤ 4 ∧ ZeroSyndromes aztecParam [5, 10, 3, 9, 6, 2, 14] 4 := by
  unfold ZeroSyndromes; decide +kernel

end Gzx.Properties.C04
