/-
  C04 — Reed-Solomon codec and GF(2^m) arithmetic exact up to the design distance.
  Property theorems only; helper lemmas live in Gzx/Proofs/{GF2,GF,Poly,RS}.lean.
  Models: Gzx/Model/GF.lean, Gzx/Model/RS.lean (tied to common/reedsolomon/*.go by the `c04`
  correspondence suite); reference arithmetic: Gzx/Ref/GF.lean (`clmul`, `pmod`).
  Every theorem is parametric in the field `F` with the decidable hypothesis `FieldOK F`
  (`F` is what `NewGenericGF` builds, size a power of two, prim of that degree with constant term 1,
  x of multiplicative order size-1); `Obligations/C04.lean` discharges it for the parameters
  regenerated from /repo on every run.
-/
import Gzx.Proofs.GF
namespace Gzx.Properties.C04
open Gzx Gzx.GF Gzx.Ref.GF Gzx.Proofs.GF

/-! ## (a) field arithmetic = polynomial arithmetic modulo the primitive polynomial -/

/-- Clause "multiplication agrees with polynomial arithmetic modulo the field's primitive
    polynomial for all elements": the table-driven `Multiply` is the carry-less product reduced
    modulo `prim`, for every field satisfying `FieldOK` (so GF(4096) like GF(16)) and all elements. -/
theorem gf_mul_eq_clmul_mod (F : GF) (h : FieldOK F) (a b : Nat) (ha : a < F.size) (hb : b < F.size) :
    F.mul a b = .ok (pmod F.prim (clmul a b)) := by
  have := mk'_mul h.2 F.base a b ha hb
  rw [← h.1] at this
  exact this

/-- Clause "inverse": `Inverse(a)` succeeds for every non-zero element and `a * Inverse(a) = 1`
    (both by the table-driven `Multiply` and by the reference product). -/
theorem gf_inv (F : GF) (h : FieldOK F) (a : Nat) (h0 : a ≠ 0) (ha : a < F.size) :
    ∃ v, F.inv a = .ok v ∧ v < F.size ∧ F.mul a v = .ok 1 ∧ pmod F.prim (clmul a v) = 1 := by
  obtain ⟨v, h1, h2, _, h4⟩ := mk'_inv h.2 F.base a h0 ha
  rw [← h.1] at h1
  refine ⟨v, h1, h2, ?_, h4⟩
  rw [gf_mul_eq_clmul_mod F h a v ha h2]
  exact congrArg _ h4

/-- `Inverse(0)` and `Log(0)` are Go's checked `IllegalArgumentException`, not a panic -/
theorem gf_inv_log_zero (F : GF) : F.inv 0 = .error .illegalArg ∧ F.logOf 0 = .error .illegalArg :=
  ⟨rfl, rfl⟩

/-- Clause "exp(log a) == a" for every non-zero element; the logarithm is `< size-1`. -/
theorem gf_exp_log (F : GF) (h : FieldOK F) (a : Nat) (h0 : a ≠ 0) (ha : a < F.size) :
    ∃ l, F.logOf a = .ok l ∧ l < F.size - 1 ∧ F.expAt l = .ok a := by
  have := mk'_log h.2 F.base a h0 ha
  rw [← h.1] at this
  exact this

/-- `log(exp i) == i` for every exponent below the group order; `exp i` is a non-zero element. -/
theorem gf_log_exp (F : GF) (h : FieldOK F) (i : Nat) (hi : i < F.size - 1) :
    ∃ v, F.expAt i = .ok v ∧ v ≠ 0 ∧ v < F.size ∧ F.logOf v = .ok i := by
  have := mk'_exp h.2 F.base i hi
  rw [← h.1] at this
  exact this

/-- Clause "exponent": `Exp(i)` is `x^i` reduced modulo `prim` (long division), for every table index. -/
theorem gf_exp_eq_pow_mod (F : GF) (h : FieldOK F) (i : Nat) (hi : i < F.size) :
    F.expAt i = .ok (pmod F.prim (2 ^ i)) := by
  have := exp_get h.2 F.base i hi
  rw [← h.1, pw_eq_pmod h.2] at this
  exact this

/-- outside the table `Exp` is a Go index panic (the model never hides it) -/
theorem gf_exp_out_of_range (F : GF) (h : FieldOK F) (i : Nat) (hi : ¬ i < F.size) :
    ∃ w, F.expAt i = .error (.panic w) := by
  have := exp_get_oob (prim := F.prim) (size := F.size) F.base i hi
  rw [← h.1] at this
  exact this

/-! non-vacuity: the hypotheses hold for the library's fields (all six: `Obligations/C04.lean`) -/
example : FieldOK qrCode256 := fieldOK_mk' (by decide +kernel)
example : FieldOK aztecData12 := fieldOK_mk' (by decide +kernel)
example : qrCode256.mul 0x53 0xCA = .ok (pmod 0x11D (clmul 0x53 0xCA)) :=
  gf_mul_eq_clmul_mod _ (fieldOK_mk' (by decide +kernel)) _ _ (by decide) (by decide)
example : pmod 0x11D (clmul 2 128) = 29 := by decide
/-- a reducible "primitive" polynomial is rejected: x^8+1 -/
example : ¬ ParamsOK 0x101 256 := by decide +kernel
/-- an irreducible but non-primitive polynomial (x^8+x^4+x^3+x+1, AES) is rejected: x has order 51 -/
example : ¬ ParamsOK 0x11B 256 := by decide +kernel

end Gzx.Properties.C04
