import Gzx.Model.RS
import Gzx.Ref.GF
namespace Gzx.Properties.C04
end Gzx.Properties.C04
