/-
  C05 — damaged QR / Data Matrix symbols decode exactly, up to the promised capacity.
  Property theorems only.  Model: Gzx/Model/QRDecoder.lean (tied to qrcode/decoder by the `c01`/`c05`
  correspondence suites); helper lemmas: Gzx/Proofs/QRHamming.lean, Gzx/Proofs/QRInterleave.lean.
-/
import Gzx.Proofs.QRHamming
import Gzx.Proofs.QRInterleave
namespace Gzx.Properties.C05
open Gzx Gzx.QRDec

/-- Clause "up to three flipped bits in each copy of the format information are tolerated", on the
    exact control flow of `doDecodeFormatInformation` / `FormatInformation_DecodeFormatInformation`
    (early exit on an exact match of either copy, best of both copies, threshold 3; the second attempt
    with the mask removed is never needed): for EVERY lookup table whose words pairwise differ in at
    least 7 bits (BCH(15,5); `Obligations.C05.format_lookup_min_distance` checks it for the regenerated
    table), every entry `(w, d)` of it and all error patterns `e₁ e₂` of weight ≤ 3, the two damaged
    copies decode to the data bits `d` of `w`. -/
theorem format_tolerates_3 (T : List (Nat × Nat)) (mask : Nat) (hT : MinDist 7 (T.map (·.1)))
    (w d : Nat) (hw : (w, d) ∈ T) (e₁ e₂ : Nat) (h₁ : popCount 64 e₁ ≤ 3) (h₂ : popCount 64 e₂ ≤ 3) :
    decodeFormatData T mask (w ^^^ e₁) (w ^^^ e₂) = some d := by
  obtain ⟨pre, post, rfl⟩ := List.append_of_mem hw
  simp only [List.map_append, List.map_cons] at hT
  have ⟨hp, hq⟩ := minDist_split hT
  have n1 : numBitsDiffering (w ^^^ e₁) w ≤ 3 := by rw [nbd_xor_left]; exact h₁
  have n2 : numBitsDiffering (w ^^^ e₂) w ≤ 3 := by rw [nbd_xor_left]; exact h₂
  have far : ∀ m, numBitsDiffering m w ≤ 3 → ∀ p : Nat × Nat, (p ∈ pre ∨ p ∈ post) → 4 ≤ numBitsDiffering m p.1 := by
    intro m hm p hp'
    have h7 : 7 ≤ numBitsDiffering w p.1 := by
      rcases hp' with h | h
      · rw [nbd_comm]; exact hp p.1 (List.mem_map_of_mem h)
      · exact hq p.1 (List.mem_map_of_mem h)
    have := far_of_near hm h7
    omega
  unfold decodeFormatData doDecodeFormat
  rw [fmtLoop_before (w ^^^ e₁) (w ^^^ e₂) w d pre post maxInt32 0
    (fun p h => ⟨far _ n1 p (Or.inl h), far _ n2 p (Or.inl h)⟩)
    (fun p h => ⟨far _ n1 p (Or.inr h), far _ n2 p (Or.inr h)⟩) n1 n2 (by decide)]

/-- the same at the level of `FormatInformation_DecodeFormatInformation`'s result: level and mask of `d` -/
theorem format_tolerates_3_info (T : List (Nat × Nat)) (mask : Nat) (hT : MinDist 7 (T.map (·.1)))
    (w d : Nat) (hw : (w, d) ∈ T) (e₁ e₂ : Nat) (h₁ : popCount 64 e₁ ≤ 3) (h₂ : popCount 64 e₂ ≤ 3) :
    decodeFormat T mask (w ^^^ e₁) (w ^^^ e₂) = (do let fi ← formatInfoOf d; pure (some fi)) := by
  unfold decodeFormat
  rw [format_tolerates_3 T mask hT w d hw e₁ e₂ h₁ h₂]
  rfl

/-- non-vacuity: the first four words of the standard's table are 7 apart; word 0x5125 (data 1 = level M,
    mask 1) with bits 0,4,9 flipped in one copy and bits 14,13,2 in the other still decodes to (M, 1) -/
example : MinDist 7 ([(0x5412, 0), (0x5125, 1), (0x5E7C, 2), (0x5B4B, 3)].map (·.1)) := by decide
example : decodeFormat [(0x5412, 0), (0x5125, 1), (0x5E7C, 2), (0x5B4B, 3)] 0x5412
    (0x5125 ^^^ 0x211) (0x5125 ^^^ 0x6004) = .ok (some (.M, 1)) := by decide
/-- and four flipped bits in both copies are beyond the promise: here the result is a different format -/
example : decodeFormat [(0x5412, 0), (0x5125, 1), (0x5E7C, 2), (0x5B4B, 3)] 0x5412
    (0x5125 ^^^ 0x137) (0x5125 ^^^ 0x137) ≠ .ok (some (.M, 1)) := by decide

/-- Clause "up to three flipped bits in each copy of the version information are tolerated":
    `Version_decodeVersionInformation` on a damaged copy of the `i`-th word (version `i+7`) of any table
    with pairwise distance ≥ 8 returns what `Version_GetVersionForNumber(i+7)` returns. -/
theorem version_decode_tolerates_3 (T : Tables) (hT : MinDist 8 T.vdi) (i w : Nat) (hw : T.vdi[i]? = some w)
    (e : Nat) (he : popCount 64 e ≤ 3) :
    decodeVersionInformation T (w ^^^ e) = getVersionForNumber T.versions (i + 7) := by
  have hi : i < T.vdi.length := by
    rcases Nat.lt_or_ge i T.vdi.length with h | h
    · exact h
    · rw [List.getElem?_eq_none h] at hw; cases hw
  have hsplit : T.vdi = T.vdi.take i ++ w :: T.vdi.drop (i + 1) := by
    have hg : T.vdi[i] = w := by
      rw [List.getElem?_eq_getElem hi] at hw; exact Option.some.inj hw
    rw [← hg, ← List.drop_eq_getElem_cons hi, List.take_append_drop]
  have hlen : (T.vdi.take i).length = i := by rw [List.length_take]; omega
  rw [hsplit] at hT
  have ⟨hp, hq⟩ := minDist_split hT
  have n1 : numBitsDiffering (w ^^^ e) w ≤ 3 := by rw [nbd_xor_left]; exact he
  have farP : ∀ t ∈ T.vdi.take i, 4 ≤ numBitsDiffering (w ^^^ e) t := by
    intro t ht
    have h8 : 8 ≤ numBitsDiffering w t := by rw [nbd_comm]; exact hp t ht
    have := far_of_near n1 h8; omega
  have farQ : ∀ t ∈ T.vdi.drop (i + 1), 4 ≤ numBitsDiffering (w ^^^ e) t := by
    intro t ht
    have := far_of_near n1 (hq t ht); omega
  unfold decodeVersionInformation
  rw [hsplit]
  rcases verLoop_before (w ^^^ e) w (T.vdi.take i) (T.vdi.drop (i + 1)) 0 maxInt32 0 farP farQ n1 (by decide) with h | ⟨b, hb, h⟩
  · rw [h, hlen]; simp
  · rw [h, hlen]; simp [hb]

/-- … and at the level of one copy inside `ReadVersion` (decode + dimension check): a copy with ≤ 3
    flipped bits yields the version whose dimension the symbol has -/
theorem version_tolerates_3 (T : Tables) (hT : MinDist 8 T.vdi) (i w : Nat) (hw : T.vdi[i]? = some w)
    (e : Nat) (he : popCount 64 e ≤ 3) (v : VersionInfo)
    (hv : getVersionForNumber T.versions (i + 7) = .ok v) (dim : Nat) (hd : v.dimension = dim) :
    versionCopyOK T dim (w ^^^ e) = some v := by
  unfold versionCopyOK
  rw [version_decode_tolerates_3 T hT i w hw e he, hv]
  simp [hd]

/-- `ReadVersion` control flow (two copies): when the first copy has ≤ 3 flipped bits the version is
    returned (and cached) without consulting the second copy; when the first copy is unusable and
    the second has ≤ 3 flipped bits, the second decides. -/
theorem readVersion_first_copy (T : Tables) (p : Parser) (hc : p.ver = none) (hbig : ¬ (p.m.dim - 17) / 4 ≤ 6)
    (b1 : Nat) (h1 : copyBits p.m p.mirror (versionCoords1 p.m.dim) 0 = .ok b1)
    (v : VersionInfo) (hv : versionCopyOK T p.m.dim b1 = some v) :
    readVersion T p = .ok (v, { p with ver := some v }) := by
  unfold readVersion
  simp only [hc, hbig, if_false]
  rw [h1]
  simp [bind, Except.bind, hv]

theorem readVersion_second_copy (T : Tables) (p : Parser) (hc : p.ver = none) (hbig : ¬ (p.m.dim - 17) / 4 ≤ 6)
    (b1 b2 : Nat) (h1 : copyBits p.m p.mirror (versionCoords1 p.m.dim) 0 = .ok b1)
    (hbad : versionCopyOK T p.m.dim b1 = none)
    (h2 : copyBits p.m p.mirror (versionCoords2 p.m.dim) 0 = .ok b2)
    (v : VersionInfo) (hv : versionCopyOK T p.m.dim b2 = some v) :
    readVersion T p = .ok (v, { p with ver := some v }) := by
  unfold readVersion
  simp only [hc, hbig, if_false]
  rw [h1]
  simp [bind, Except.bind, hbad, h2, hv]

/-! ## corrupted codewords -/

/-- `interleave_deinterleave` (lifting lemma): `DataBlock_GetDataBlocks` inverts the interleaving of
    ISO 18004 7.6 for every short/long block structure (re-exported from Proofs/QRInterleave.lean;
    `Obligations.C05.versions_wf` checks that all 160 entries of the regenerated VERSIONS table have
    such a structure). -/
theorem interleave_deinterleave {d e : Nat} {short long : List (List Nat × List Nat)}
    (w : ShortLong d e short long) (v : VersionInfo) (ec : EC) (eb : ECBlocks)
    (heb : v.ecBlocks[ec.index]? = some eb) (hec : eb.ecPerBlock = e)
    (hshape : blockShapes eb = (short ++ long).map (fun b => (b.1.length, e + b.1.length)))
    (htot : v.totalCodewords = (QRDec.interleave (short ++ long)).length) :
    getDataBlocks (QRDec.interleave (short ++ long)) v ec =
      .ok ((short ++ long).map (fun b => (b.1.length, b.1 ++ b.2))) :=
  QRDec.interleave_deinterleave w v ec eb heb hec hshape htot

/-- Clause "up to floor(ec/2) corrupted codewords of every Reed-Solomon block … still decodes to exactly
    the original": FULL statement (kept for reference)

      qr_tolerates_block_errors :
        (∀ b, number of corrupted codewords of block b ≤ ecPerBlock / 2) →
        decode (corrupt (encode t) faults) = ok t

    PROVED here is the lifting through de-interleaving and per-block correction, with Reed-Solomon
    correction as the NAMED hypothesis `hrs` (it is C04's `rs_corrects` for blocks within
    `e / 2` errors, and C04's `rs_decode_encode` for undamaged blocks) and codeword faults given
    per block (stream positions and block positions correspond through the permutation
    `interleave`, which `interleave_deinterleave` inverts): the corrupted blocks `short' ++ long'` have
    the shape of the written blocks `short ++ long`; then de-interleaving the corrupted stream and
    correcting block by block yields exactly the written data codewords — the input of the
    bit-stream parser, so the decoded text is the original.  Missing for the full statement: the
    matrix layer (`place_read_inv`, owned by C07) and `rs_corrects` itself (owned by C04). -/
theorem qr_tolerates_block_errors_partial (rs : List Nat → Nat → Res (List Nat))
    {d e : Nat} {short long short' long' : List (List Nat × List Nat)}
    (w : ShortLong d e short long) (w' : ShortLong d e short' long')
    (hn1 : short'.length = short.length) (hn2 : long'.length = long.length)
    (v : VersionInfo) (ec : EC) (eb : ECBlocks)
    (heb : v.ecBlocks[ec.index]? = some eb) (hec : eb.ecPerBlock = e)
    (hshape : blockShapes eb = (short ++ long).map (fun b => (b.1.length, e + b.1.length)))
    (htot : v.totalCodewords = (QRDec.interleave (short' ++ long')).length)
    (hrs : ∀ p ∈ (short ++ long).zip (short' ++ long'), rs (p.2.1 ++ p.2.2) e = .ok (p.1.1 ++ p.1.2)) :
    (do let blocks ← getDataBlocks (QRDec.interleave (short' ++ long')) v ec
        correctBlocks rs blocks) = .ok ((short ++ long).flatMap (·.1)) := by
  -- the damaged blocks have the same shape
  have hlenEq : ∀ p ∈ (short ++ long).zip (short' ++ long'), p.2.1.length = p.1.1.length ∧ p.2.2.length = e := by
    intro p hp
    rw [List.zip_append hn1.symm] at hp
    rcases List.mem_append.mp hp with h | h
    · have a := w.hs p.1 (List.of_mem_zip h).1
      have b := w'.hs p.2 (List.of_mem_zip h).2
      omega
    · have a := w.hl p.1 (List.of_mem_zip h).1
      have b := w'.hl p.2 (List.of_mem_zip h).2
      omega
  have hshape' : blockShapes eb = (short' ++ long').map (fun b => (b.1.length, e + b.1.length)) := by
    rw [hshape]
    apply List.ext_getElem?
    intro j
    rw [List.getElem?_map, List.getElem?_map]
    have hl : (short ++ long).length = (short' ++ long').length := by simp [hn1, hn2]
    cases h1 : (short ++ long)[j]? with
    | none =>
      have : (short' ++ long')[j]? = none := by
        rw [List.getElem?_eq_none_iff] at h1 ⊢; omega
      rw [this]
    | some b =>
      have hj : j < (short' ++ long').length := by
        have := (List.getElem?_eq_some_iff.mp h1).1; omega
      have h2 : (short' ++ long')[j]? = some ((short' ++ long')[j]) := List.getElem?_eq_getElem hj
      rw [h2]
      have hz : (b, (short' ++ long')[j]) ∈ (short ++ long).zip (short' ++ long') := by
        apply List.mem_of_getElem? (i := j)
        rw [List.getElem?_zip_eq_some]
        exact ⟨h1, h2⟩
      have := (hlenEq _ hz).1
      simp only [Option.map_some]
      rw [this]
  rw [QRDec.interleave_deinterleave w' v ec eb heb hec hshape' htot]
  simp only [bind, Except.bind]
  apply correctBlocks_map rs (short ++ long) (short' ++ long') (by simp [hn1, hn2])
  intro p hp
  have ⟨a, b⟩ := hlenEq p hp
  refine ⟨a, ?_⟩
  have : (p.2.1 ++ p.2.2).length - p.2.1.length = e := by simp [b]
  rw [this]
  exact hrs p hp

/-- Data Matrix twin — statement only (the Data Matrix decoder model belongs to the work package of
    C02/C08): `dm_tolerates_block_errors : (∀ b, faults in block b ≤ ecPerBlock b / 2) →
    dmDecode (corrupt (dmEncode t) faults) = ok t`.  Its proof is the same lifting: the
    block-by-block step is `QRDec.correctBlocks_map` above (it does not depend on the symbology);
    only the de-interleaving permutation differs (codeword k of the stream belongs to block
    k mod n; for 144x144 the error codewords are rotated by 8 blocks).  On the real code the clause
    is established by the fault enumeration of the `c05` suite over all 30 sizes (exploration). -/
theorem dm_block_correction_step (rs : List Nat → Nat → Res (List Nat)) (orig dmg : List (List Nat × List Nat))
    (hlen : orig.length = dmg.length)
    (h : ∀ p ∈ orig.zip dmg, p.2.1.length = p.1.1.length ∧
        rs (p.2.1 ++ p.2.2) ((p.2.1 ++ p.2.2).length - p.2.1.length) = .ok (p.1.1 ++ p.1.2)) :
    correctBlocks rs (dmg.map (fun b' => (b'.1.length, b'.1 ++ b'.2))) = .ok (orig.flatMap (·.1)) :=
  correctBlocks_map rs orig dmg hlen h

/-- non-vacuity of the block-structure hypothesis: version 5-Q (2 blocks of 15 + 2 blocks of 16 data
    codewords, 18 error-correction codewords each) -/
example : ShortLong 1 1 [([1], [9]), ([2], [8])] [([3, 4], [7])] :=
  ⟨by decide, by decide, by decide⟩
example : QRDec.interleave [([1], [9]), ([2], [8]), ([3, 4], [7])] = [1, 2, 3, 4, 9, 8, 7] := by decide

end Gzx.Properties.C05
