/-
  C05 — damaged QR / Data Matrix symbols decode exactly, up to the promised capacity.
  Property theorems only.  Model: Gzx/Model/QRDecoder.lean (tied to qrcode/decoder by the `c01`/`c05`
  correspondence suites); helper lemmas: Gzx/Proofs/QRHamming.lean, Gzx/Proofs/QRInterleave.lean.
-/
import Gzx.Proofs.QRTolerance
import Gzx.Proofs.QRInterleave
import Gzx.Proofs.QRMatrixRead
import Gzx.Proofs.QRCompTop
import Gzx.Properties.C01
namespace Gzx.Properties.C05
open Gzx Gzx.QRDec

/-- Clause "up to three flipped bits in each copy of the format information are tolerated", on the
    exact control flow of `doDecodeFormatInformation` / `FormatInformation_DecodeFormatInformation`
    (early exit on an exact match of either copy, best of both copies, threshold 3; the second attempt
    with the mask removed is never needed): for EVERY lookup table whose words pairwise differ in at
    least 7 bits (BCH(15,5); `Obligations.C05.format_lookup_min_distance` checks it for the regenerated
    table), every entry `(w, d)` of it and all error patterns `e₁ e₂` of weight ≤ 3, the two damaged
    copies decode to the data bits `d` of `w`. -/
theorem format_tolerates_3 (T : List (Nat × Nat)) (mask : Nat) (hT : MinDist 7 (T.map (·.1)))
    (w d : Nat) (hw : (w, d) ∈ T) (e₁ e₂ : Nat) (h₁ : popCount 64 e₁ ≤ 3) (h₂ : popCount 64 e₂ ≤ 3) :
    decodeFormatData T mask (w ^^^ e₁) (w ^^^ e₂) = some d :=
  decodeFormatData_near T mask hT w d hw e₁ e₂ h₁ h₂

/-- the same at the level of `FormatInformation_DecodeFormatInformation`'s result: level and mask of `d` -/
theorem format_tolerates_3_info (T : List (Nat × Nat)) (mask : Nat) (hT : MinDist 7 (T.map (·.1)))
    (w d : Nat) (hw : (w, d) ∈ T) (e₁ e₂ : Nat) (h₁ : popCount 64 e₁ ≤ 3) (h₂ : popCount 64 e₂ ≤ 3) :
    decodeFormat T mask (w ^^^ e₁) (w ^^^ e₂) = (do let fi ← formatInfoOf d; pure (some fi)) :=
  decodeFormat_near T mask hT w d hw e₁ e₂ h₁ h₂

/-- non-vacuity: the first four words of the standard's table are 7 apart; word 0x5125 (data 1 = level M,
    mask 1) with bits 0,4,9 flipped in one copy and bits 14,13,2 in the other still decodes to (M, 1) -/
example : MinDist 7 ([(0x5412, 0), (0x5125, 1), (0x5E7C, 2), (0x5B4B, 3)].map (·.1)) := by decide
example : decodeFormat [(0x5412, 0), (0x5125, 1), (0x5E7C, 2), (0x5B4B, 3)] 0x5412
    (0x5125 ^^^ 0x211) (0x5125 ^^^ 0x6004) = .ok (some (.M, 1)) := by decide
/-- and four flipped bits in both copies are beyond the promise: here the result is a different format -/
example : decodeFormat [(0x5412, 0), (0x5125, 1), (0x5E7C, 2), (0x5B4B, 3)] 0x5412
    (0x5125 ^^^ 0x137) (0x5125 ^^^ 0x137) ≠ .ok (some (.M, 1)) := by decide

/-- Clause "up to three flipped bits in each copy of the version information are tolerated":
    `Version_decodeVersionInformation` on a damaged copy of the `i`-th word (version `i+7`) of any table
    with pairwise distance ≥ 8 returns what `Version_GetVersionForNumber(i+7)` returns. -/
theorem version_decode_tolerates_3 (T : Tables) (hT : MinDist 8 T.vdi) (i w : Nat) (hw : T.vdi[i]? = some w)
    (e : Nat) (he : popCount 64 e ≤ 3) :
    decodeVersionInformation T (w ^^^ e) = getVersionForNumber T.versions (i + 7) :=
  decodeVersion_near T hT i w hw e he

/-- … and at the level of one copy inside `ReadVersion` (decode + dimension check): a copy with ≤ 3
    flipped bits yields the version whose dimension the symbol has -/
theorem version_tolerates_3 (T : Tables) (hT : MinDist 8 T.vdi) (i w : Nat) (hw : T.vdi[i]? = some w)
    (e : Nat) (he : popCount 64 e ≤ 3) (v : VersionInfo)
    (hv : getVersionForNumber T.versions (i + 7) = .ok v) (dim : Nat) (hd : v.dimension = dim) :
    versionCopyOK T dim (w ^^^ e) = some v :=
  versionCopyOK_near T hT i w hw e he v hv dim hd

/-- `ReadVersion` control flow (two copies): when the first copy has ≤ 3 flipped bits the version is
    returned (and cached) without consulting the second copy; when the first copy is unusable and
    the second has ≤ 3 flipped bits, the second decides. -/
theorem readVersion_first_copy (T : Tables) (p : Parser) (hc : p.ver = none) (hbig : ¬ (p.m.dim - 17) / 4 ≤ 6)
    (b1 : Nat) (h1 : copyBits p.m p.mirror (versionCoords1 p.m.dim) 0 = .ok b1)
    (v : VersionInfo) (hv : versionCopyOK T p.m.dim b1 = some v) :
    readVersion T p = .ok (v, { p with ver := some v }) := by
  unfold readVersion
  simp only [hc, hbig, if_false]
  rw [h1]
  simp [bind, Except.bind, hv]

theorem readVersion_second_copy (T : Tables) (p : Parser) (hc : p.ver = none) (hbig : ¬ (p.m.dim - 17) / 4 ≤ 6)
    (b1 b2 : Nat) (h1 : copyBits p.m p.mirror (versionCoords1 p.m.dim) 0 = .ok b1)
    (hbad : versionCopyOK T p.m.dim b1 = none)
    (h2 : copyBits p.m p.mirror (versionCoords2 p.m.dim) 0 = .ok b2)
    (v : VersionInfo) (hv : versionCopyOK T p.m.dim b2 = some v) :
    readVersion T p = .ok (v, { p with ver := some v }) := by
  unfold readVersion
  simp only [hc, hbig, if_false]
  rw [h1]
  simp [bind, Except.bind, hbad, h2, hv]

/-! ## the same on whole symbols (matrix level) -/

/-- Clause "up to three flipped bits in each copy of the format information", at the level of
    `BitMatrixParser.ReadFormatInformation`: if the modules of the two format areas hold the word `w`
    of a lookup entry with at most three flipped bits each, the parser returns (and caches) the
    level and mask of that entry. -/
theorem format_tolerates_3_symbol (T : Tables) (hT : MinDist 7 (T.fmt.map (·.1))) (p : Parser) (hc : p.fmt = none)
    (w d : Nat) (hw : (w, d) ∈ T.fmt) (hlt : w < 2 ^ 15) (f : EC × Nat) (hf : formatInfoOf d = .ok f)
    (e₁ e₂ : Nat) (b₁ : e₁ < 2 ^ 15) (b₂ : e₂ < 2 ^ 15) (h₁ : popCount 64 e₁ ≤ 3) (h₂ : popCount 64 e₂ ≤ 3)
    (c₁ : formatCoords1.map (cellOf p.m p.mirror) = natToBits 15 (w ^^^ e₁))
    (c₂ : (formatCoords2 p.m.dim).map (cellOf p.m p.mirror) = natToBits 15 (w ^^^ e₂)) :
    readFormatInformation T p = .ok (f, { p with fmt := some f }) := by
  rw [readFormat_reads T p hc (w ^^^ e₁) (w ^^^ e₂) (Nat.xor_lt_two_pow hlt b₁) (Nat.xor_lt_two_pow hlt b₂) c₁ c₂,
    decodeFormat_near T.fmt T.fmtMask hT w d hw e₁ e₂ h₁ h₂, hf]
  rfl

/-- Clause "… and in each copy of the version information", at the level of `ReadVersion` (symbols of
    version ≥ 7): the first copy with at most three flipped bits decides; the second is not consulted. -/
theorem version_tolerates_3_symbol (T : Tables) (hT : MinDist 8 T.vdi) (p : Parser) (hc : p.ver = none)
    (hbig : ¬ (p.m.dim - 17) / 4 ≤ 6) (i w : Nat) (hw : T.vdi[i]? = some w) (hlt : w < 2 ^ 18)
    (e : Nat) (be : e < 2 ^ 18) (he : popCount 64 e ≤ 3) (v : VersionInfo)
    (hv : getVersionForNumber T.versions (i + 7) = .ok v) (hd : v.dimension = p.m.dim)
    (c₁ : (versionCoords1 p.m.dim).map (cellOf p.m p.mirror) = natToBits 18 (w ^^^ e)) :
    readVersion T p = .ok (v, { p with ver := some v }) :=
  readVersion_reads_first T p hc hbig (w ^^^ e) (Nat.xor_lt_two_pow hlt be) c₁ v
    (versionCopyOK_near T hT i w hw e he v hv p.m.dim hd)

/-! ## corrupted codewords -/

/-- `interleave_deinterleave` (lifting lemma): `DataBlock_GetDataBlocks` inverts the interleaving of
    ISO 18004 7.6 for every short/long block structure (re-exported from Proofs/QRInterleave.lean;
    `Obligations.C05.versions_wf` checks that all 160 entries of the regenerated VERSIONS table have
    such a structure). -/
theorem interleave_deinterleave {d e : Nat} {short long : List (List Nat × List Nat)}
    (w : ShortLong d e short long) (v : VersionInfo) (ec : EC) (eb : ECBlocks)
    (heb : v.ecBlocks[ec.index]? = some eb) (hec : eb.ecPerBlock = e)
    (hshape : blockShapes eb = (short ++ long).map (fun b => (b.1.length, e + b.1.length)))
    (htot : v.totalCodewords = (QRDec.interleave (short ++ long)).length) :
    getDataBlocks (QRDec.interleave (short ++ long)) v ec =
      .ok ((short ++ long).map (fun b => (b.1.length, b.1 ++ b.2))) :=
  QRDec.interleave_deinterleave w v ec eb heb hec hshape htot

/-- Clause "up to floor(ec/2) corrupted codewords of every Reed-Solomon block … still decodes to exactly
    the original": FULL statement (kept for reference)

      qr_tolerates_block_errors :
        (∀ b, number of corrupted codewords of block b ≤ ecPerBlock / 2) →
        decode (corrupt (encode t) faults) = ok t

    PROVED here is the lifting through de-interleaving and per-block correction, with Reed-Solomon
    correction as the NAMED hypothesis `hrs` (it is C04's `rs_corrects` for blocks within
    `e / 2` errors, and C04's `rs_decode_encode` for undamaged blocks) and codeword faults given
    per block (stream positions and block positions correspond through the permutation
    `interleave`, which `interleave_deinterleave` inverts): the corrupted blocks `short' ++ long'` have
    the shape of the written blocks `short ++ long`; then de-interleaving the corrupted stream and
    correcting block by block yields exactly the written data codewords — the input of the
    bit-stream parser, so the decoded text is the original.  Missing for the full statement: the
    matrix layer (`place_read_inv`, owned by C07) and `rs_corrects` itself (owned by C04). -/
theorem qr_tolerates_block_errors_partial (rs : List Nat → Nat → Res (List Nat))
    {d e : Nat} {short long short' long' : List (List Nat × List Nat)}
    (w : ShortLong d e short long) (w' : ShortLong d e short' long')
    (hn1 : short'.length = short.length) (hn2 : long'.length = long.length)
    (v : VersionInfo) (ec : EC) (eb : ECBlocks)
    (heb : v.ecBlocks[ec.index]? = some eb) (hec : eb.ecPerBlock = e)
    (hshape : blockShapes eb = (short ++ long).map (fun b => (b.1.length, e + b.1.length)))
    (htot : v.totalCodewords = (QRDec.interleave (short' ++ long')).length)
    (hrs : ∀ p ∈ (short ++ long).zip (short' ++ long'), rs (p.2.1 ++ p.2.2) e = .ok (p.1.1 ++ p.1.2)) :
    (do let blocks ← getDataBlocks (QRDec.interleave (short' ++ long')) v ec
        correctBlocks rs blocks) = .ok ((short ++ long).flatMap (·.1)) := by
  -- the damaged blocks have the same shape
  have hlenEq : ∀ p ∈ (short ++ long).zip (short' ++ long'), p.2.1.length = p.1.1.length ∧ p.2.2.length = e := by
    intro p hp
    rw [List.zip_append hn1.symm] at hp
    rcases List.mem_append.mp hp with h | h
    · have a := w.hs p.1 (List.of_mem_zip h).1
      have b := w'.hs p.2 (List.of_mem_zip h).2
      omega
    · have a := w.hl p.1 (List.of_mem_zip h).1
      have b := w'.hl p.2 (List.of_mem_zip h).2
      omega
  have hshape' : blockShapes eb = (short' ++ long').map (fun b => (b.1.length, e + b.1.length)) := by
    rw [hshape]
    apply List.ext_getElem?
    intro j
    rw [List.getElem?_map, List.getElem?_map]
    have hl : (short ++ long).length = (short' ++ long').length := by simp [hn1, hn2]
    cases h1 : (short ++ long)[j]? with
    | none =>
      have : (short' ++ long')[j]? = none := by
        rw [List.getElem?_eq_none_iff] at h1 ⊢; omega
      rw [this]
    | some b =>
      have hj : j < (short' ++ long').length := by
        have := (List.getElem?_eq_some_iff.mp h1).1; omega
      have h2 : (short' ++ long')[j]? = some ((short' ++ long')[j]) := List.getElem?_eq_getElem hj
      rw [h2]
      have hz : (b, (short' ++ long')[j]) ∈ (short ++ long).zip (short' ++ long') := by
        apply List.mem_of_getElem? (i := j)
        rw [List.getElem?_zip_eq_some]
        exact ⟨h1, h2⟩
      have := (hlenEq _ hz).1
      simp only [Option.map_some]
      rw [this]
  rw [QRDec.interleave_deinterleave w' v ec eb heb hec hshape' htot]
  simp only [bind, Except.bind]
  apply correctBlocks_map rs (short ++ long) (short' ++ long') (by simp [hn1, hn2])
  intro p hp
  have ⟨a, b⟩ := hlenEq p hp
  refine ⟨a, ?_⟩
  have : (p.2.1 ++ p.2.2).length - p.2.1.length = e := by simp [b]
  rw [this]
  exact hrs p hp

/-! ### `qr_tolerates_block_errors`, in full (no Reed-Solomon or placement hypothesis)

The written symbol is the reference symbol of C07 for a payload `bits` (any single- or multi-segment payload
that fits): data codewords `QRRef.terminate …`, blocks `QRComp.refBlocks` (Table 9 split + RS parity), final
sequence = `QRDec.interleave` of the blocks (`QRComp.finalCodewords_eq_interleave`).  A damaged symbol is the
reference symbol whose codeword modules carry the interleaving of RECEIVED blocks: same block shapes, byte
values, and in every block at most `⌊ecPerBlock/2⌋` codewords (data or error-correction) differ from what was
written (`QRComp.Received`; positions of the interleaved stream and of the blocks correspond through the
standard's interleaving 7.6, which is a bijection for a fixed block structure).  The RS decoder is C04's model
`Gzx.RS.decode` over `qrCode256` (`QRComp.rsQR`); its correction capability is C04's `rs_corrects`. -/

/-- **Clause "up to floor(ec/2) corrupted codewords of every Reed-Solomon block still decode to exactly the
    original"** — for every version 1..40, level, mask 0..7, every payload that fits and every such received
    block list: `Decoder.Decode` succeeds on the first attempt and returns exactly what the undamaged symbol
    returns (`Properties.C01.qr_roundtrip_bits`): the parsed content, level, version and the ORIGINAL data
    codewords.  Tables: any tables conforming to the standard (`Obligations.C01.tables_conform` for the
    regenerated ones). -/
theorem qr_tolerates_block_errors (T : Tables) (hT : QRComp.TablesConform T) (hint : ECI.Hint)
    (v : Nat) (h1 : 1 ≤ v) (h40 : v ≤ 40) (ec : QRRef.EC) (mask : Nat) (hm : mask < 8) (bits : List Bool)
    (hfit : bits.length ≤ 8 * QRRef.dataCodewords v ec) (parsed : Parsed)
    (hparse : ∀ tail, Terminated tail → parseStream T.eci (bits ++ tail) v hint = .ok parsed)
    (recv : List (List Nat × List Nat))
    (hrecv : QRComp.Received v ec (QRRef.terminate (QRRef.dataCodewords v ec) bits) recv) :
    decode T QRComp.rsQR hint (QRComp.matrixOf (QRRef.refMatrix v ec mask (QRDec.interleave recv))) =
      .ok ⟨parsed, QRComp.toDecEC ec, v, QRRef.terminate (QRRef.dataCodewords v ec) bits, false⟩ :=
  QRComp.decode_received T hT hint v h1 h40 ec mask hm bits hfit parsed hparse recv hrecv

/-- the undamaged blocks are a (trivial) instance of `Received`: the hypothesis is satisfiable for every symbol,
    and `qr_tolerates_block_errors` contains the clean round trip -/
theorem received_refl (v : Nat) (ec : QRRef.EC) (data : List Nat) (hb : ∀ d ∈ data, d < 256) :
    QRComp.Received v ec data (QRComp.refBlocks v ec data) := by
  refine ⟨rfl, ?_, ?_⟩
  · intro b hbm x hx
    unfold QRComp.refBlocks at hbm
    obtain ⟨blk, hblk, rfl⟩ := List.mem_map.mp hbm
    rcases List.mem_append.mp hx with h | h
    · exact hb x (QRRef.mem_splitBlocks _ _ blk hblk x h)
    · exact QRRef.rsParity_lt blk _ (fun d hd => hb d (QRRef.mem_splitBlocks _ _ blk hblk d hd)) x h
  · intro p hp
    have hpp : p.1 = p.2 := by
      obtain ⟨i, hi⟩ := List.getElem?_of_mem hp
      rw [List.getElem?_zip_eq_some] at hi
      exact Option.some.inj (hi.1.symm.trans hi.2)
    rw [← hpp]
    unfold Gzx.Properties.C04.hamming
    rw [Gzx.Proofs.MinDist.weight_zipWith_self]
    omega

/-- non-vacuity: for the version 1-M symbol of ISO 18004 Annex I the undamaged block satisfies `Received`; a block
    with five of its 26 codewords replaced (the full capacity ⌊10/2⌋) is `QRComp.Examples.recv8_received`, and
    `QRComp.Examples.damaged_annexI_decodes` is the resulting instance of `qr_tolerates_block_errors`
    (Proofs/QRCompExamples.lean) -/
example : QRComp.Received 1 .M [0x10, 0x20, 0x0C, 0x56, 0x61, 0x80, 0xEC, 0x11, 0xEC, 0x11, 0xEC, 0x11, 0xEC, 0x11, 0xEC, 0x11]
    (QRComp.refBlocks 1 .M [0x10, 0x20, 0x0C, 0x56, 0x61, 0x80, 0xEC, 0x11, 0xEC, 0x11, 0xEC, 0x11, 0xEC, 0x11, 0xEC, 0x11]) :=
  received_refl 1 .M _ (by decide)

/-- numeric contents, as an instance: the digits come back from every symbol damaged within the promise -/
theorem qr_tolerates_block_errors_numeric (T : Tables) (hT : QRComp.TablesConform T) (hint : ECI.Hint)
    (v : Nat) (h1 : 1 ≤ v) (h40 : v ≤ 40) (ec : QRRef.EC) (mask : Nat) (hm : mask < 8)
    (ds : List Nat) (hd : ∀ d ∈ ds, d < 10)
    (hfit : QRRef.fitsBits v ec .numeric (QRRef.headerBits none false .numeric).length
      (QRRef.packNumeric ds).length = true)
    (recv : List (List Nat × List Nat))
    (hrecv : QRComp.Received v ec
      (QRRef.dataCodewordsOf v ec (QRRef.headerBits none false .numeric) .numeric ds.length (QRRef.packNumeric ds))
      recv) :
    (decode T QRComp.rsQR hint (QRComp.matrixOf (QRRef.refMatrix v ec mask (QRDec.interleave recv)))).map (·.parsed) =
      .ok ⟨[.raw (ds.map (48 + ·))], [], -1, -1, 1⟩ := by
  have hk := (QRComp.countBits_eq v).1
  have hf : _ ≤ _ := of_decide_eq_true hfit
  have hcount : ds.length < 2 ^ QRRef.countBits .numeric v := by
    have hc := (QRComp.cap_facts v h1 h40 ec).1
    rw [QRComp.packNumeric_length] at hf
    generalize 2 ^ QRRef.countBits .numeric v = P at hc ⊢
    split at hf
    · omega
    · split at hf <;> omega
  rw [qr_tolerates_block_errors T hT hint v h1 h40 ec mask hm
    (QRRef.payloadBits v (QRRef.headerBits none false .numeric) .numeric ds.length (QRRef.packNumeric ds))
    (by rw [Gzx.Properties.C01.payload_length]; exact hf)
    ⟨[.raw (ds.map (48 + ·))], [], -1, -1, 1⟩ ?_ recv hrecv]
  · rfl
  · intro tail ht
    rw [Gzx.Properties.C01.payload_segment v .numeric 0 hk, QRComp.packNumeric_eq]
    exact Gzx.Properties.C01.parse_numeric_stream T.eci v hint ds hd (by rw [← hk]; exact hcount) tail ht

/-- Data Matrix twin — statement only (the Data Matrix decoder model belongs to the work package of
    C02/C08): `dm_tolerates_block_errors : (∀ b, faults in block b ≤ ecPerBlock b / 2) →
    dmDecode (corrupt (dmEncode t) faults) = ok t`.  Its proof is the same lifting: the
    block-by-block step is `QRDec.correctBlocks_map` above (it does not depend on the symbology);
    only the de-interleaving permutation differs (codeword k of the stream belongs to block
    k mod n; for 144x144 the error codewords are rotated by 8 blocks).  On the real code the clause
    is established by the fault enumeration of the `c05` suite over all 30 sizes (exploration). -/
theorem dm_block_correction_step (rs : List Nat → Nat → Res (List Nat)) (orig dmg : List (List Nat × List Nat))
    (hlen : orig.length = dmg.length)
    (h : ∀ p ∈ orig.zip dmg, p.2.1.length = p.1.1.length ∧
        rs (p.2.1 ++ p.2.2) ((p.2.1 ++ p.2.2).length - p.2.1.length) = .ok (p.1.1 ++ p.1.2)) :
    correctBlocks rs (dmg.map (fun b' => (b'.1.length, b'.1 ++ b'.2))) = .ok (orig.flatMap (·.1)) :=
  correctBlocks_map rs orig dmg hlen h

/-- non-vacuity of the block-structure hypothesis: version 5-Q (2 blocks of 15 + 2 blocks of 16 data
    codewords, 18 error-correction codewords each) -/
example : ShortLong 1 1 [([1], [9]), ([2], [8])] [([3, 4], [7])] :=
  ⟨by decide, by decide, by decide⟩
example : QRDec.interleave [([1], [9]), ([2], [8]), ([3, 4], [7])] = [1, 2, 3, 4, 9, 8, 7] := by decide

end Gzx.Properties.C05
