/-
  C05 (work package c01multi) — COMBINED damage of a QR Code symbol: up to three flipped bits in each copy of the format
  information AND in the version information AND up to ⌊ec/2⌋ wrong codewords in every Reed-Solomon block, all at once.
  Property theorems only; proofs in Proofs/QRMultiComb.lean (matrix reads on a damaged matrix, composition) and
  Proofs/QRMultiFlip.lean (damage as a set of flipped modules).  Multi-segment payloads: Properties/C01Multi.lean.
-/
import Gzx.Proofs.QRMultiFlip
import Gzx.Properties.C01Multi
import Gzx.Proofs.QRCompExamples
namespace Gzx.Properties.C05Comb
open Gzx Gzx.QRDec Gzx.ECI Gzx.QRComp
open Gzx.Properties.C01 (refSymbol)

/-- **`qr_tolerates_combined_damage`** — for every version 1..40, level, mask 0..7 and every payload `bits` that fits
    (single- or multi-segment; `parsed` is what the clean stream parses to):
      * the codeword modules carry the interleaving of RECEIVED blocks — in every Reed-Solomon block at most
        ⌊ecPerBlock/2⌋ codewords (data or error correction) differ from what was written (`Received`), and
      * additionally any set `F` of FUNCTION-PATTERN modules is flipped, of which at most three lie in the first copy of
        the format information, at most three in the second copy, and (version ≥ 7) at most three in AT LEAST ONE of the
        two copies of the version information — the other copy of the version information and all finder, timing,
        alignment and dark modules may be flipped at will —,
    then `Decoder.Decode` (model) succeeds on the first attempt and returns exactly what the clean symbol returns: the
    parsed content, the level, the version and the ORIGINAL data codewords.
    (The property's "≤ 3 in each copy of the version information" is a special case of `hv`: `ReadVersion` accepts a
    copy only if it decodes to a version of the symbol's dimension, so an unreadable or misleading first copy cannot
    override a good second one — `QRComp.versionCopyOK_ref`.) -/
theorem qr_tolerates_combined_damage (T : Tables) (hT : TablesConform T) (hint : Hint)
    (v : Nat) (h1 : 1 ≤ v) (h40 : v ≤ 40) (ec : QRRef.EC) (mask : Nat) (hm : mask < 8) (bits : List Bool)
    (hfit : bits.length ≤ 8 * QRRef.dataCodewords v ec) (parsed : Parsed)
    (hparse : ∀ tail, Terminated tail → parseStream T.eci (bits ++ tail) v hint = .ok parsed)
    (recv : List (List Nat × List Nat))
    (hrecv : Received v ec (QRRef.terminate (QRRef.dataCodewords v ec) bits) recv)
    (F : List (Nat × Nat)) (hF : ∀ c ∈ F, QRRef.isFunction v c.1 c.2 = true)
    (hf1 : formatCoords1.countP (F.contains ·) ≤ 3)
    (hf2 : (formatCoords2 (17 + 4 * v)).countP (F.contains ·) ≤ 3)
    (hv : 7 ≤ v → (versionCoords1 (17 + 4 * v)).countP (F.contains ·) ≤ 3 ∨
      (versionCoords2 (17 + 4 * v)).countP (F.contains ·) ≤ 3) :
    decode T rsQR hint (flipCells (matrixOf (QRRef.refMatrix v ec mask (QRDec.interleave recv))) F) =
      .ok ⟨parsed, toDecEC ec, v, QRRef.terminate (QRRef.dataCodewords v ec) bits, false⟩ :=
  decode_damaged T hT hint v h1 h40 ec mask hm bits hfit parsed hparse recv hrecv _
    (damaged_of_flips v h1 h40 ec mask _ F hF hf1 hf2 hv)

/-- "⇒ same result as the clean symbol", literally -/
theorem qr_combined_damage_same_as_clean (T : Tables) (hT : TablesConform T) (hint : Hint)
    (v : Nat) (h1 : 1 ≤ v) (h40 : v ≤ 40) (ec : QRRef.EC) (mask : Nat) (hm : mask < 8) (bits : List Bool)
    (hfit : bits.length ≤ 8 * QRRef.dataCodewords v ec) (parsed : Parsed)
    (hparse : ∀ tail, Terminated tail → parseStream T.eci (bits ++ tail) v hint = .ok parsed)
    (recv : List (List Nat × List Nat))
    (hrecv : Received v ec (QRRef.terminate (QRRef.dataCodewords v ec) bits) recv)
    (F : List (Nat × Nat)) (hF : ∀ c ∈ F, QRRef.isFunction v c.1 c.2 = true)
    (hf1 : formatCoords1.countP (F.contains ·) ≤ 3)
    (hf2 : (formatCoords2 (17 + 4 * v)).countP (F.contains ·) ≤ 3)
    (hv : 7 ≤ v → (versionCoords1 (17 + 4 * v)).countP (F.contains ·) ≤ 3 ∨
      (versionCoords2 (17 + 4 * v)).countP (F.contains ·) ≤ 3) :
    decode T rsQR hint (flipCells (matrixOf (QRRef.refMatrix v ec mask (QRDec.interleave recv))) F) =
      decode T rsQR hint (refSymbol v ec mask bits) := by
  rw [qr_tolerates_combined_damage T hT hint v h1 h40 ec mask hm bits hfit parsed hparse recv hrecv F hF hf1 hf2 hv,
    Gzx.Properties.C01.qr_roundtrip_bits T hT hint v h1 h40 ec mask hm bits hfit parsed hparse]

/-- the general form: ANY matrix of the symbol's dimension that agrees with the reference symbol on the data cells and
    reads, in the two format areas and (version ≥ 7) one of the two version areas, words within three bits of the written
    ones (`QRComp.Damaged`) — whatever its other modules hold -/
theorem qr_tolerates_combined_damage_matrix (T : Tables) (hT : TablesConform T) (hint : Hint)
    (v : Nat) (h1 : 1 ≤ v) (h40 : v ≤ 40) (ec : QRRef.EC) (mask : Nat) (hm : mask < 8) (bits : List Bool)
    (hfit : bits.length ≤ 8 * QRRef.dataCodewords v ec) (parsed : Parsed)
    (hparse : ∀ tail, Terminated tail → parseStream T.eci (bits ++ tail) v hint = .ok parsed)
    (recv : List (List Nat × List Nat))
    (hrecv : Received v ec (QRRef.terminate (QRRef.dataCodewords v ec) bits) recv)
    (m : Matrix) (hD : Damaged v ec mask (QRDec.interleave recv) m) :
    decode T rsQR hint m = .ok ⟨parsed, toDecEC ec, v, QRRef.terminate (QRRef.dataCodewords v ec) bits, false⟩ :=
  decode_damaged T hT hint v h1 h40 ec mask hm bits hfit parsed hparse recv hrecv m hD

/-- **multi-segment symbols under combined damage**: every item list that round-trips (`C01Multi.qr_roundtrip_items`)
    also survives combined damage — the decoder returns the meaning of the list -/
theorem qr_segments_tolerate_combined_damage (T : Tables) (hT : TablesConform T) (hint : Hint)
    (v : Nat) (h1 : 1 ≤ v) (h40 : v ≤ 40) (ec : QRRef.EC) (mask : Nat) (hm : mask < 8)
    (items : List QRMulti.Item) (g : List Nat → Charset)
    (hc : ∀ it ∈ items, it.Content T.eci)
    (hg : ∀ bs ∈ QRMulti.guessed false items, guessCharset T.eci bs hint = .ok (g bs))
    (hfit : (QRMulti.bitsOf v items).length ≤ 8 * QRRef.dataCodewords v ec)
    (recv : List (List Nat × List Nat))
    (hrecv : Received v ec (QRRef.terminate (QRRef.dataCodewords v ec) (QRMulti.bitsOf v items)) recv)
    (F : List (Nat × Nat)) (hF : ∀ c ∈ F, QRRef.isFunction v c.1 c.2 = true)
    (hf1 : formatCoords1.countP (F.contains ·) ≤ 3)
    (hf2 : (formatCoords2 (17 + 4 * v)).countP (F.contains ·) ≤ 3)
    (hv : 7 ≤ v → (versionCoords1 (17 + 4 * v)).countP (F.contains ·) ≤ 3 ∨
      (versionCoords2 (17 + 4 * v)).countP (F.contains ·) ≤ 3) :
    decode T rsQR hint (flipCells (matrixOf (QRRef.refMatrix v ec mask (QRDec.interleave recv))) F) =
      .ok ⟨QRMulti.toParsed (QRMulti.run T.eci g {} items), toDecEC ec, v,
        QRRef.terminate (QRRef.dataCodewords v ec) (QRMulti.bitsOf v items), false⟩ := by
  have hn := QRMulti.countOK_of_fit_all v h1 h40 ec items hfit
  exact qr_tolerates_combined_damage T hT hint v h1 h40 ec mask hm _ hfit _
    (fun tail ht => QRMulti.parseStream_items T.eci v hint g items (fun it hit => ⟨hc it hit, hn it hit⟩) hg tail ht)
    recv hrecv F hF hf1 hf2 hv

/-! ### non-vacuity -/

open Gzx.QRComp.Examples in
/-- version 1-M, ISO 18004 Annex I ("01234567"): FIVE of the 26 codewords replaced (`recv8`, the full capacity
    ⌊10/2⌋), three flipped modules in EACH copy of the format information, and a finder-pattern module, the dark module
    and a timing module flipped on top — all hypotheses hold (decided by the kernel) … -/
def flips1 : List (Nat × Nat) :=
  [(0, 8), (4, 8), (8, 0),  (8, 20), (8, 16), (19, 8),  (3, 3), (8, 13), (10, 6)]

example : (∀ c ∈ flips1, QRRef.isFunction 1 c.1 c.2 = true) ∧
    formatCoords1.countP (flips1.contains ·) = 3 ∧ (formatCoords2 (17 + 4 * 1)).countP (flips1.contains ·) = 3 := by
  decide

open Gzx.QRComp.Examples in
/-- … hence the damaged symbol decodes to the digits and the original data codewords -/
theorem damaged_annexI_combined :
    decode refTables rsQR .none
        (flipCells (matrixOf (QRRef.refMatrix 1 .M 3 (QRDec.interleave recv8))) flips1) =
      .ok ⟨⟨[.raw ([0, 1, 2, 3, 4, 5, 6, 7].map (48 + ·))], [], -1, -1, 1⟩, .M, 1, data8, false⟩ :=
  qr_tolerates_combined_damage refTables refTables_conform .none 1 (by decide) (by decide) .M 3
    (by decide) bits8 (by decide) _ (fun tail ht => by
      have hk := (countBits_eq 1).1
      show parseStream _ (QRRef.payloadBits 1 (QRRef.headerBits none false .numeric) .numeric
        [0, 1, 2, 3, 4, 5, 6, 7].length (QRRef.packNumeric [0, 1, 2, 3, 4, 5, 6, 7]) ++ tail) 1 .none = _
      rw [Gzx.Properties.C01.payload_segment 1 .numeric 0 hk, packNumeric_eq]
      exact Gzx.Properties.C01.parse_numeric_stream _ 1 .none [0, 1, 2, 3, 4, 5, 6, 7] (by decide) (by decide) tail ht)
    recv8 recv8_received flips1 (by decide) (by decide) (by decide) (by intro h; omega)

/-- version 7 (carries version information): three flips in each format copy, three in the first-read copy of the version
    information (the bottom-left 6x3 block … as the decoder's `versionCoords1` enumerates it) and SIX in the other copy -/
def flips7 : List (Nat × Nat) :=
  [(1, 8), (2, 8), (8, 7),  (8, 44), (8, 40), (38, 8),
   (36, 5), (35, 2), (34, 0),
   (5, 36), (4, 36), (3, 35), (2, 35), (1, 34), (0, 34)]

example : (∀ c ∈ flips7, QRRef.isFunction 7 c.1 c.2 = true) ∧
    formatCoords1.countP (flips7.contains ·) = 3 ∧ (formatCoords2 (17 + 4 * 7)).countP (flips7.contains ·) = 3 ∧
    (versionCoords1 (17 + 4 * 7)).countP (flips7.contains ·) = 3 ∧
    (versionCoords2 (17 + 4 * 7)).countP (flips7.contains ·) = 6 := by
  decide

/-- a flip set that ruins the first-read copy of the version information (seven flips) and leaves the other within two -/
def flips7b : List (Nat × Nat) :=
  [(1, 8), (8, 7),  (8, 44), (38, 8), (40, 8),
   (36, 5), (35, 5), (34, 5), (36, 4), (35, 2), (34, 0), (36, 0),
   (5, 36), (0, 34)]

example : (∀ c ∈ flips7b, QRRef.isFunction 7 c.1 c.2 = true) ∧
    (versionCoords1 (17 + 4 * 7)).countP (flips7b.contains ·) = 7 ∧
    (versionCoords2 (17 + 4 * 7)).countP (flips7b.contains ·) = 2 := by
  decide

/-- version 7-Q, alphanumeric "HR:", undamaged codewords (`C05.received_refl`), with `flips7` resp. `flips7b` applied:
    instances of the theorem on a symbol that carries version information -/
theorem damaged_v7_combined (F : List (Nat × Nat)) (hF : F = flips7 ∨ F = flips7b) :
    (decode refTables rsQR .none
        (flipCells (matrixOf (QRRef.refMatrix 7 .Q 5 (QRDec.interleave (refBlocks 7 .Q
          (QRRef.terminate (QRRef.dataCodewords 7 .Q)
            (QRRef.payloadBits 7 (QRRef.headerBits none false .alnum) .alnum 3 (QRRef.packAlnum [17, 27, 44]))))))) F)).map
      (fun d => (d.parsed, d.ec, d.version)) =
      .ok (⟨[.raw [72, 82, 58]], [], -1, -1, 1⟩, .Q, 7) := by
  have hk := (countBits_eq 7).2.1
  rw [qr_tolerates_combined_damage refTables refTables_conform .none 7 (by decide) (by decide) .Q 5 (by decide)
    (QRRef.payloadBits 7 (QRRef.headerBits none false .alnum) .alnum 3 (QRRef.packAlnum [17, 27, 44])) (by decide)
    ⟨[.raw ([17, 27, 44].map alnumCharOf)], [], -1, -1, 1⟩ (fun tail ht => by
      show parseStream _ (QRRef.payloadBits 7 (QRRef.headerBits none false .alnum) .alnum
        [17, 27, 44].length (QRRef.packAlnum [17, 27, 44]) ++ tail) 7 .none = _
      rw [Gzx.Properties.C01.payload_segment 7 .alnum 1 hk, packAlnum_eq]
      exact Gzx.Properties.C01.parse_alnum_stream _ 7 .none [17, 27, 44] (by decide) (by decide) tail ht)
    _ (Gzx.Properties.C05.received_refl 7 .Q _ (terminate_lt _ _)) F
    (by rcases hF with rfl | rfl <;> decide) (by rcases hF with rfl | rfl <;> decide)
    (by rcases hF with rfl | rfl <;> decide)
    (by intro _; rcases hF with rfl | rfl
        · left; decide
        · right; decide)]
  rfl

/-- beyond the promise: FOUR flipped bits in both format copies of a symbol are not covered — here the format
    information is read as a different (level, mask) -/
example : decodeFormat refFmt QRRef.formatMask
    (QRRef.formatWord .M 3 ^^^ 0x137) (QRRef.formatWord .M 3 ^^^ 0x137) ≠ .ok (some (.M, 3)) := by decide +kernel

end Gzx.Properties.C05Comb
