/-
  C05 — Data Matrix half: damaged symbols decode exactly (block-error tolerance), FULL.
  Property theorems only; helper lemmas in Gzx/Proofs/DMCompose.lean (block view of a codeword stream, the glue
  of decoder.go) on top of C08 (reference symbol, low-level decoder chain, "reference blocks are RS code words")
  and C04 (`rs_corrects_received`, proved in full).

  Fault model: the damaged symbol is the symbol that CARRIES an arbitrary byte stream `raw` of the symbol's total
  codeword count (`DMRef.symbolOfCodewords`: Annex-F placement of `raw` + finder/clock framing) — i.e. any set
  of codewords of the reference symbol replaced by arbitrary bytes, the function patterns intact.  Block `b` of a
  stream consists of the codewords at positions `p ≡ b (mod B)` in stream order (`DMProofs.blockOfStream`, the
  standard's interleaving rule; for 144x144 this gives the 8 blocks of 156 and 2 of 155 data codewords with the
  error codewords starting in block 9), and "at most t codewords of block b replaced" is
  `hamming (block b of reference stream) (block b of raw) ≤ t`.
-/
import Gzx.Proofs.DMCompose
import Gzx.Proofs.DMRoundTripGen
namespace Gzx.Properties.C05DM
open Gzx Gzx.DMRef Gzx.DMProofs Gzx.DMHighLevel Gzx.Properties.C04

/-- the block view is what the decoder computes: for each of the 30 sizes (144x144 = version 24 with its special
    branch included) and EVERY codeword stream of the symbol's length, DataBlocks_getDataBlocks returns, per
    block `b`, its data count and the codewords at the stream positions `≡ b (mod B)` in stream order -/
theorem dm_deinterleave_is_block_view : ∀ p ∈ table7.zipIdx, ∀ raw : List Nat, raw.length = p.1.total →
    DMDec.getDataBlocks raw (DMDec.ofSym (p.2 + 1) p.1) =
      .ok ((List.range p.1.blocks).map (fun b => (p.1.dataLen b, blockOfStream p.1 raw b))) := by
  intro p hp raw hl
  exact getDataBlocks_stream (p.2 + 1) p.1 (Gzx.Properties.C08.ecc_interleave_index_inv p hp)
    (posCheck_of_mem p.1 (Gzx.Properties.C08.zipIdx_mem_table7 p hp)) raw hl

/-- block `b` of the reference codeword sequence is `data_b ++ ecc_b` — a code word of C04's Reed-Solomon code
    (zero syndromes at 2^1 … 2^blkErr), non-empty, of length ≤ 255 -/
theorem dm_reference_block_view : ∀ p ∈ table7.zipIdx, ∀ d : List Nat, d.length = p.1.nData →
    (∀ x ∈ d, x < 256) → ∀ b, b < p.1.blocks →
    blockOfStream p.1 (codewords p.1 d) b = blockData p.1 d b ++ blockEcc p.1 d b ∧
    ZeroSyndromes GF.dataMatrix256 (blockOfStream p.1 (codewords p.1 d) b) p.1.blkErr := by
  intro p hp d hd hb b hbB
  have hs := Gzx.Properties.C08.zipIdx_mem_table7 p hp
  have e := blockOfStream_codewords (p.2 + 1) p.1 (Gzx.Properties.C08.ecc_interleave_index_inv p hp)
    (posCheck_of_mem p.1 hs) d hd b hbB
  refine ⟨e, ?_⟩
  rw [e]
  exact (block_is_codeword p.1 hs d hd hb b hbB).2.2.2.2.1

/-- one damaged block: any byte word of the block's length within ⌊blkErr/2⌋ positions of the reference block is
    restored by the Reed-Solomon decoder model (C04 `rs_corrects_received`) -/
theorem dm_block_corrected : ∀ s ∈ table7, ∀ d : List Nat, d.length = s.nData → (∀ x ∈ d, x < 256) →
    ∀ b, b < s.blocks → ∀ v : List Nat, v.length = s.dataLen b + s.blkErr → (∀ x ∈ v, x < 256) →
    2 * hamming (blockData s d b ++ blockEcc s d b) v ≤ s.blkErr →
    RS.decode GF.dataMatrix256 v s.blkErr = .ok (blockData s d b ++ blockEcc s d b) :=
  fun s hs d hd hb b hbB v hvl hvb hdist => block_corrected s hs d hd hb b hbB v hvl hvb hdist

/-- **Clause "up to floor(ec/2) corrupted codewords of every Reed-Solomon block … still decodes to exactly the
    original", Data Matrix, codeword level — FULL.**  For each of the 30 ECC-200 sizes, every data codeword
    vector `d` (bytes) of the symbol's capacity and EVERY byte stream `raw` of the symbol's total length that
    differs from the reference codeword sequence of `d` in at most ⌊blkErr/2⌋ positions of every interleaved
    block: the decoder chain (version by dimensions, data-region extraction, codeword reading, de-interleaving,
    Reed-Solomon correction of each block with C04's decoder model, de-interlacing copy) applied to the symbol
    carrying `raw` reads `raw`, splits it into the damaged blocks, corrects every block to the reference block
    and returns exactly `d`. -/
theorem dm_tolerates_block_errors_codewords : ∀ p ∈ table7.zipIdx, ∀ d : List Nat, d.length = p.1.nData →
    (∀ x ∈ d, x < 256) → ∀ raw : List Nat, raw.length = p.1.total → (∀ x ∈ raw, x < 256) →
    (∀ b, b < p.1.blocks →
      2 * hamming (blockOfStream p.1 (codewords p.1 d) b) (blockOfStream p.1 raw b) ≤ p.1.blkErr) →
    (∃ v grid blocks,
      DMDec.newBitMatrixParser DMDec.versions ⟨p.1.cols, p.1.rows, (symbolOfCodewords p.1 raw).flatten.toArray⟩
        = .ok (v, grid) ∧
      DMDec.readCodewords v grid = .ok raw ∧
      DMDec.getDataBlocks raw v = .ok blocks ∧
      (∀ b, b < p.1.blocks → ∃ nb, blocks[b]? = some nb ∧
        RS.decode GF.dataMatrix256 nb.2 (nb.2.length - nb.1) = .ok (blockData p.1 d b ++ blockEcc p.1 d b)) ∧
      DMDec.decodeCodewordBlocks blocks = .ok d) ∧
    DMDec.decodeMatrixBytes ⟨p.1.cols, p.1.rows, (symbolOfCodewords p.1 raw).flatten.toArray⟩ = .ok d := by
  intro p hp d hd hb raw hl hrb hdist
  have hs := Gzx.Properties.C08.zipIdx_mem_table7 p hp
  have hpc := posCheck_of_mem p.1 hs
  obtain ⟨h1, h2, h3⟩ := chain_of_stream p hp raw hl hrb
  have hdist' : ∀ b, b < p.1.blocks →
      2 * hamming (blockData p.1 d b ++ blockEcc p.1 d b) (blockOfStream p.1 raw b) ≤ p.1.blkErr := by
    intro b hbB
    rw [← blockOfStream_codewords (p.2 + 1) p.1 (Gzx.Properties.C08.ecc_interleave_index_inv p hp) hpc d hd b hbB]
    exact hdist b hbB
  refine ⟨⟨_, _, _, h1, h2, h3, ?_, ?_⟩, decodeMatrixBytes_tolerates p hp d hd hb raw hl hrb hdist⟩
  · intro b hbB
    refine ⟨(p.1.dataLen b, blockOfStream p.1 raw b), ?_, ?_⟩
    · rw [List.getElem?_map, List.getElem?_range hbB]; rfl
    · have hlen := blockOfStream_length p.1 hpc raw b hbB
      simp only
      have hr : (blockOfStream p.1 raw b).length - p.1.dataLen b = p.1.blkErr := by rw [hlen]; omega
      rw [hr]
      exact block_corrected p.1 hs d hd hb b hbB _ hlen (blockOfStream_bytes p.1 raw b hrb) (hdist' b hbB)
  · exact decodeCodewordBlocks_corrects p hp d hd hb (blockOfStream p.1 raw)
      (fun b hbB => blockOfStream_length p.1 hpc raw b hbB)
      (fun b _ => blockOfStream_bytes p.1 raw b hrb) hdist'

/-! ## faults given as a list of (stream position, new byte) -/

/-- **The same clause with the faults given explicitly** as a list of (stream position, replacement byte): if at
    most ⌊blkErr/2⌋ of the listed positions fall into each interleaved block, the decoder chain applied to the
    symbol carrying the damaged stream returns exactly `d`. -/
theorem dm_tolerates_block_errors_faults : ∀ p ∈ table7.zipIdx, ∀ d : List Nat, d.length = p.1.nData →
    (∀ x ∈ d, x < 256) → ∀ fs : List (Nat × Nat), (∀ f ∈ fs, f.2 < 256) →
    (∀ b, b < p.1.blocks → 2 * faultsInBlock p.1 fs b ≤ p.1.blkErr) →
    DMDec.decodeMatrixBytes
      ⟨p.1.cols, p.1.rows, (symbolOfCodewords p.1 (applyFaults (codewords p.1 d) fs)).flatten.toArray⟩ = .ok d := by
  intro p hp d hd hb fs hfb hcount
  have hs := Gzx.Properties.C08.zipIdx_mem_table7 p hp
  have hpc := posCheck_of_mem p.1 hs
  apply decodeMatrixBytes_tolerates p hp d hd hb
  · rw [applyFaults_length]; exact codewords_length p.1 d hd
  · exact applyFaults_bytes _ _ (codewords_bytes p.1 d hb) hfb
  · intro b hbB
    have := hamming_applyFaults_le p.1 hpc b hbB fs (codewords p.1 d)
    have := hcount b hbB
    omega

/-- **Text level** (`dm_tolerates_block_errors`): a message encoded by `encodeHL` (oracle conditions of C02's
    round trip), placed in the symbol whose capacity equals the codeword count, then damaged in at most
    ⌊blkErr/2⌋ codewords of every interleaved block, is decoded by `Decoder.Decode` (model) to exactly the
    message.  The Reed-Solomon and low-level parts carry no hypothesis; the hypotheses on the look-ahead oracle
    are those of `C02.dm_roundtrip_five_modes_partial`. -/
theorem dm_tolerates_block_errors (syms : List SymbolInfo) (la : LookAhead) (msg : List Nat) (cfg : Cfg)
    (cw : List Nat) (hNoE : LaNoEdifact la)
    (hTA : LaTailAscii la msg (initCtx msg cfg).total) (hXT : LaX12Tail la msg (initCtx msg cfg).total)
    (hb : ∀ x ∈ msg, x < 256) (h : encodeHL syms la msg cfg = .ok cw)
    (p : Sym × Nat) (hp : p ∈ table7.zipIdx) (hn : cw.length = p.1.nData)
    (raw : List Nat) (hl : raw.length = p.1.total) (hrb : ∀ x ∈ raw, x < 256)
    (hdist : ∀ b, b < p.1.blocks →
      2 * hamming (blockOfStream p.1 (codewords p.1 cw) b) (blockOfStream p.1 raw b) ≤ p.1.blkErr) :
    DMDec.decodeMatrix refTables ⟨p.1.cols, p.1.rows, (symbolOfCodewords p.1 raw).flatten.toArray⟩ = .ok msg := by
  have hcwb := encodeHL_bytes syms la msg cfg cw hNoE hTA hXT hb h
  unfold DMDec.decodeMatrix
  rw [decodeMatrixBytes_tolerates p hp cw hn hcwb raw hl hrb hdist]
  exact roundtrip_gen syms la msg cfg cw hNoE hTA hXT hb h

/-! ## non-vacuity -/

/-- "A12" in 10x10: reference stream, two damaged codewords (⌊5/2⌋ = 2), and the model decoder restores them -/
example : codewords (table7.getD 0 default) [66, 142, 129] = [66, 142, 129, 170, 115, 225, 118, 63] := by
  decide +kernel
example : hamming (blockOfStream (table7.getD 0 default) [66, 142, 129, 170, 115, 225, 118, 63] 0)
    (blockOfStream (table7.getD 0 default) [66, 0, 129, 170, 255, 225, 118, 63] 0) = 2 := by decide +kernel
example : RS.decode GF.dataMatrix256 [66, 0, 129, 170, 255, 225, 118, 63] 5
    = .ok [66, 142, 129, 170, 115, 225, 118, 63] := by decide +kernel
example : applyFaults [66, 142, 129, 170, 115, 225, 118, 63] [(1, 0), (4, 255)]
    = [66, 0, 129, 170, 255, 225, 118, 63] := by decide
/-- 144x144: block 8 (the ninth) owns stream positions 8, 18, … and the FIRST error codeword (position 1558) -/
example : (blockPositions (table7.getD 23 default) 8).take 2 = [8, 18] ∧
    (blockPositions (table7.getD 23 default) 8)[155]? = some 1558 ∧
    (blockPositions (table7.getD 23 default) 8).length = 155 + 62 := by decide +kernel

end Gzx.Properties.C05DM
