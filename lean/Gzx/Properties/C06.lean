/-
  C06 — decoding is total: any input gives a result or a typed error, never a crash.

  What is PROVED here (over the hand-written models, tied to /repo by the `c06` correspondence suite):
    * `BitSource.ReadBits` (the primitive under the QR and Data Matrix bit-stream parsers) never
      panics, rejects every bad argument with its checked error, returns a value below 2^numBits
      and advances by exactly numBits                                   (bitsource_total & co.)
    * QR `parseECIValue` never panics, yields a designator below 2^21 or FormatException
    * the repaired `code39DecodeExtended` is total: result or FormatException on EVERY string;
      the unrepaired one panics on a trailing escape (defect D15, proved) and agrees with the
      repair everywhere else; the Code 39 / Code 93 post-classification logic (check characters,
      empty symbol, extended decoding) never panics on strings over the symbology's alphabet.
  What is NOT proved here: the QR / Data Matrix / Aztec segment parsers and matrix decoders
  (covered by the C01 / C02 / C11 models of other work packages), and everything in the
  floating-point detectors — those are exercised by the C06 exploration oracle only (partial).
-/
import Gzx.Proofs.BitSource
import Gzx.Proofs.OneDPost
import Gzx.Proofs.TotalQR
import Gzx.Proofs.TotalDM
import Gzx.Proofs.TotalQRFit
import Gzx.Proofs.TotalDMTable
import Gzx.Proofs.TotalOneD
namespace Gzx.Properties.C06
open Gzx Gzx.BitSource Gzx.OneDPost

/-! ## BitSource -/

/-- clause "any numBits outside 1..32 or > available → checked error": IllegalArgumentException, never a panic -/
theorem readBits_checked (s : BitSource) (n : Int) (h : n < 1 ∨ n > 32 ∨ n > available s) :
    readBits s n = .error .illegalArg := by
  unfold readBits
  simp [h]

/-- clause "otherwise a value: result < 2^numBits, position advances exactly, buffer untouched,
    invariant kept" — for every buffer, every reachable offset pair, every numBits -/
theorem readBits_ok (s : BitSource) (hs : WF s) (n : Int) (h1 : 1 ≤ n) (h32 : n ≤ 32)
    (hav : n ≤ available s) :
    ∃ v s', readBits s n = .ok (v, s') ∧ v < 2 ^ n.toNat ∧
      position s' = position s + n.toNat ∧ WF s' ∧ s'.bytes = s.bytes := by
  have hcond : ¬ (n < 1 ∨ n > 32 ∨ n > available s) := by omega
  unfold readBits
  simp only [hcond, if_false]
  have hs' := hs
  obtain ⟨h8, hle, hlt⟩ := hs'
  have havN : n.toNat + s.bitOffset ≤ 8 * (s.bytes.length - s.byteOffset) := by
    unfold available at hav
    omega
  obtain ⟨r, n1, byo, bio, hf, hn1, hr, hpos, hbio, hz, hin, hfit⟩ :=
    readFirst_ok s hs n.toNat (by omega) havN
  simp only [hf]
  obtain ⟨v, s', hrest, hv, hp, hwf, hbytes⟩ := readRest_ok s r n1 byo bio (n.toNat - n1) hr hbio hz hin hfit
  refine ⟨v, s', hrest, ?_, ?_, hwf, hbytes⟩
  · have e : n.toNat - n1 + n1 = n.toNat := by omega
    rw [e] at hv; exact hv
  · rw [hp]; simp only [position]; omega

/-- C06 for `BitSource.ReadBits`: never a panic, for any argument whatsoever -/
theorem bitsource_total (s : BitSource) (hs : WF s) (n : Int) :
    (∀ w, readBits s n ≠ .error (.panic w)) ∧
    ((∃ v s', readBits s n = .ok (v, s') ∧ v < 2 ^ n.toNat ∧ position s' = position s + n.toNat ∧ WF s')
      ∨ readBits s n = .error .illegalArg) := by
  by_cases h : n < 1 ∨ n > 32 ∨ n > available s
  · have := readBits_checked s n h
    exact ⟨fun w => by rw [this]; simp, Or.inr this⟩
  · obtain ⟨v, s', hr, hv, hp, hwf, _⟩ := readBits_ok s hs n (by omega) (by omega) (by omega)
    exact ⟨fun w => by rw [hr]; simp, Or.inl ⟨v, s', hr, hv, hp, hwf⟩⟩

/-- a fresh source satisfies the invariant, so (with `readBits_ok`) every source the library can
    reach does -/
theorem new_WF (bytes : List Nat) : WF (BitSource.new bytes) := by
  simp [WF, BitSource.new]

/-- `Available()` is exactly the number of unread bits -/
theorem available_eq (s : BitSource) (hs : WF s) :
    available s = (8 * s.bytes.length : Int) - (position s : Int) := by
  simp only [available, position]
  omega

-- non-vacuity: concrete reads, aligned and straddling bytes
example : readBits (BitSource.new [0xA5, 0xFF, 0x01]) 3 = .ok (5, ⟨[0xA5, 0xFF, 0x01], 0, 3⟩) := by decide
example : readBits ⟨[0xA5, 0xFF, 0x01], 0, 3⟩ 13 = .ok (0x5FF, ⟨[0xA5, 0xFF, 0x01], 2, 0⟩) := by decide
example : readBits ⟨[0xA5, 0xFF, 0x01], 2, 0⟩ 9 = .error .illegalArg := by decide
example : readBits (BitSource.new []) 1 = .error .illegalArg := by decide

/-! ## QR parseECIValue -/

theorem readBitsF_no_panic (s : BitSource) (hs : WF s) (n : Int) :
    (∃ v s', readBitsF s n = .ok (v, s') ∧ v < 2 ^ n.toNat ∧ WF s') ∨ readBitsF s n = .error .format := by
  unfold readBitsF
  obtain ⟨_, h⟩ := bitsource_total s hs n
  rcases h with ⟨v, s', hr, hv, _, hwf⟩ | he
  · left; exact ⟨v, s', by rw [hr], hv, hwf⟩
  · right; rw [he]

/-- `parseECIValue` is total: a designator below 2^21 (with the source still well-formed) or
    FormatException; never a panic — for any buffer and any reachable read position -/
theorem parseECIValue_total (s : BitSource) (hs : WF s) :
    (∃ v s', parseECIValue s = .ok (v, s') ∧ v < 2 ^ 21 ∧ WF s') ∨ parseECIValue s = .error .format := by
  unfold parseECIValue
  rcases readBitsF_no_panic s hs 8 with ⟨f, s1, h1, hf, hw1⟩ | he
  · simp only [h1]
    have hf8 : f < 256 := by simpa using hf
    by_cases c1 : f &&& 0x80 = 0
    · simp only [c1, if_true]
      left
      refine ⟨_, _, rfl, ?_, hw1⟩
      have : f &&& 0x7F < 2 ^ 7 := Nat.and_lt_two_pow f (by decide : 0x7F < 2 ^ 7)
      omega
    · simp only [c1, if_false]
      by_cases c2 : f &&& 0xC0 = 0x80
      · simp only [c2, if_true]
        rcases readBitsF_no_panic s1 hw1 8 with ⟨g, s2, h2, hg, hw2⟩ | he2
        · simp only [h2]
          left
          refine ⟨_, _, rfl, ?_, hw2⟩
          have ha : f &&& 0x3F < 2 ^ 6 := Nat.and_lt_two_pow f (by decide : 0x3F < 2 ^ 6)
          have hg8 : g < 2 ^ 8 := by simpa using hg
          have := shl_or_lt (f &&& 0x3F) g 6 8 ha hg8
          calc _ < 2 ^ (6 + 8) := this
            _ ≤ 2 ^ 21 := Nat.pow_le_pow_right (by decide) (by decide)
        · simp only [he2]; right; trivial
      · simp only [c2, if_false]
        by_cases c3 : f &&& 0xE0 = 0xC0
        · simp only [c3, if_true]
          rcases readBitsF_no_panic s1 hw1 16 with ⟨g, s2, h2, hg, hw2⟩ | he2
          · simp only [h2]
            left
            refine ⟨_, _, rfl, ?_, hw2⟩
            have ha : f &&& 0x1F < 2 ^ 5 := Nat.and_lt_two_pow f (by decide : 0x1F < 2 ^ 5)
            have hg16 : g < 2 ^ 16 := by simpa using hg
            exact shl_or_lt (f &&& 0x1F) g 5 16 ha hg16
          · simp only [he2]; right; trivial
        · simp only [c3, if_false]; right; trivial
  · simp only [he]; right; trivial

example : parseECIValue (BitSource.new [0x1A]) = .ok (26, ⟨[0x1A], 1, 0⟩) := by decide
example : parseECIValue (BitSource.new [0x83, 0x84]) = .ok (900, ⟨[0x83, 0x84], 2, 0⟩) := by decide
example : parseECIValue (BitSource.new [0xCF, 0x42, 0x3F]) = .ok (999999, ⟨[0xCF, 0x42, 0x3F], 3, 0⟩) := by decide
example : parseECIValue (BitSource.new [0xE0, 0, 0]) = .error .format := by decide
example : parseECIValue (BitSource.new [0x83]) = .error .format := by decide

/-! ## Code 39 extended decoding -/

/-- C06 for the repaired `code39DecodeExtended`: on EVERY input string (any bytes, any length,
    escape characters anywhere including last) the result is a string or FormatException -/
theorem code39_extended_total (s acc : List Nat) :
    (∃ r, c39Ext s acc = .ok r) ∨ c39Ext s acc = .error .format := by
  fun_induction c39Ext s acc <;> first | (left; exact ⟨_, rfl⟩) | (right; rfl) | assumption

/-- in particular never a panic -/
theorem code39_extended_no_panic (s : List Nat) : ∀ w, c39Ext s [] ≠ .error (.panic w) := by
  intro w h
  rcases code39_extended_total s [] with ⟨r, hr⟩ | he
  · rw [hr] at h; cases h
  · rw [he] at h; cases h

/-- defect D15 (unchanged tree): an escape character in last position is an index panic -/
theorem code39_extended_orig_panics :
    c39ExtOrig [43] [] = .error (.panic "index out of range: encoded[i+1]") := by decide

/-- the unrepaired function panics exactly when the repaired one reports the trailing escape;
    wherever the original returns at all, the repair returns the same -/
theorem code39_repair_conservative (s acc : List Nat) :
    (∀ w, c39ExtOrig s acc ≠ .error (.panic w)) → c39Ext s acc = c39ExtOrig s acc := by
  fun_induction c39ExtOrig s acc <;> intro h <;>
    first | exact absurd rfl (h _) | (unfold c39Ext; simp_all; done) | (simp_all [c39Ext]; done)

/-- a string without escape characters is returned unchanged -/
theorem code39_extended_plain (s acc : List Nat) (h : ∀ c ∈ s, c39IsEscape c = false) :
    c39Ext s acc = .ok (acc.reverse ++ s) := by
  induction s generalizing acc with
  | nil => simp [c39Ext]
  | cons c rest ih =>
    have hc : c39IsEscape c = false := h c (by simp)
    unfold c39Ext
    simp only [hc]
    rw [ih (c :: acc) (fun x hx => h x (by simp [hx]))]
    simp

example : c39Ext [43, 65, 66, 47, 90] [] = .ok [97, 66, 58] := by decide   -- "+AB/Z" -> "aB:"
example : c39Ext [65, 43] [] = .error .format := by decide                  -- "A+"
example : c39Ext [37, 48] [] = .error .format := by decide                  -- "%0"

/-! ## Code 39 / Code 93 : the whole post-classification step of DecodeRow -/

/-- Code 39 (repaired): whatever string over the 43-character alphabet the bar classifier produced
    between the asterisks — including the empty one — and whichever of the two flags is set, the
    outcome is a text, NotFound (empty), Checksum or Format; never a panic -/
theorem code39_post_total (ck ext : Bool) (s : List Nat) (h : ∀ c ∈ s, c ∈ c39Alphabet) :
    ∀ w, c39Post ck ext s ≠ .error (.panic w) := by
  intro w
  unfold c39Post
  by_cases h0 : s.length = 0
  · simp [h0]
  · simp only [h0, if_false]
    have hext : ∀ s' : List Nat, (if s'.length = 0 then (.error .notFound : Res (List Nat))
        else if ext = true then c39Ext s' [] else .ok s') ≠ .error (.panic w) := by
      intro s'
      by_cases e0 : s'.length = 0
      · simp [e0]
      · simp only [e0, if_false]
        cases ext
        · simp
        · simp only [if_true]
          exact code39_extended_no_panic s' w
    cases ck
    · simp only [Bool.false_eq_true, if_false]
      exact hext s
    · simp only [if_true]
      have hmax : s.length - 1 < s.length := by omega
      have hget : s[s.length - 1]? = some s[s.length - 1] := List.getElem?_eq_getElem hmax
      have htot : 0 ≤ sumIdx c39Alphabet (s.take (s.length - 1)) :=
        sumIdx_nonneg _ _ (fun c hc => h c (List.mem_of_mem_take hc))
      obtain ⟨want, hw⟩ := alphaAt_tmod_ok c39Alphabet 43 (by decide) (by decide) _ htot
      have hw' : alphaAt c39Alphabet (Int.tmod (sumIdx c39Alphabet (s.take (s.length - 1))) 43) = .ok want := hw
      rw [hget, hw']
      simp only
      by_cases hne : s[s.length - 1] ≠ want
      · simp [hne]
      · simp only [hne, if_false]
        exact hext _

/-- defect found by the C06 oracle (unchanged tree): with the check-digit flag, an empty symbol
    `**` indexes `result[-1]` -/
theorem code39_post_orig_panics_on_empty :
    c39PostOrig true false [] = .error (.panic "index out of range [-1]") := by decide

/-- the alphabet hypothesis is what the classifier guarantees; without it Go's `total % 43` can be
    negative and the model (like the code) indexes out of range -/
example : c39Post true false [1, 1] = .error (.panic "index out of range: negative") := by decide

example : c39Post true true [43, 65, 37] = .error .checksum := by decide
example : c39Post false true [43, 65] = .ok [97] := by decide
example : c39Post true false [] = .error .notFound := by decide

/-- one Code 93 check character never indexes out of range -/
theorem c93CheckOne_no_panic (s : List Nat) (h : ∀ c ∈ s, c ∈ c93Alphabet) (pos wm : Nat) (hp : pos < s.length) :
    ∀ w, c93CheckOne s pos wm ≠ .error (.panic w) := by
  intro w
  unfold c93CheckOne
  have hget : s[pos]? = some s[pos] := List.getElem?_eq_getElem hp
  have htot : 0 ≤ c93Weighted wm (s.take pos).reverse 1 0 :=
    c93Weighted_nonneg wm _ (fun c hc => h c (List.mem_of_mem_take (List.mem_reverse.mp hc))) 1 0 (by omega)
  obtain ⟨want, hw⟩ := alphaAt_tmod_ok c93Alphabet 47 (by decide) (by decide) _ htot
  have hw' : alphaAt c93Alphabet (Int.tmod (c93Weighted wm (s.take pos).reverse 1 0) 47) = .ok want := hw
  simp only [hget, hw']
  by_cases hne : s[pos] ≠ want
  · simp [hne]
  · simp [hne]

theorem code93_extended_total (s acc : List Nat) :
    (∃ r, c93Ext s acc = .ok r) ∨ c93Ext s acc = .error .format := by
  fun_induction c93Ext s acc <;> first | (left; exact ⟨_, rfl⟩) | (right; rfl) | assumption

/-- Code 93: any string over the 47-symbol alphabet between the asterisks gives a text, NotFound
    (fewer than two characters), Checksum or Format; never a panic -/
theorem code93_post_total (s : List Nat) (h : ∀ c ∈ s, c ∈ c93Alphabet) :
    ∀ w, c93Post s ≠ .error (.panic w) := by
  intro w
  unfold c93Post
  by_cases h2 : s.length < 2
  · simp [h2]
  · simp only [h2, if_false]
    have p1 := c93CheckOne_no_panic s h (s.length - 2) 20 (by omega)
    have p2 := c93CheckOne_no_panic s h (s.length - 1) 15 (by omega)
    cases e1 : c93CheckOne s (s.length - 2) 20 with
    | error e => simp only; intro hc; cases hc; exact p1 w e1
    | ok u =>
      cases e2 : c93CheckOne s (s.length - 1) 15 with
      | error e => simp only; intro hc; cases hc; exact p2 w e2
      | ok u2 =>
        simp only
        rcases code93_extended_total (s.take (s.length - 2)) [] with ⟨r, hr⟩ | he
        · rw [hr]; simp
        · rw [he]; simp

example : c93Post [97] = .error .notFound := by decide

/-! ## QR DecodedBitStreamParser (model `Gzx.QRDec.parse`, tied to the code by the `c01 parse` and
     `c06 qrparse` correspondence lines) -/

section QRParse
open Gzx.QRDec Gzx.ECI Gzx.Proofs.TotalQR

/-- C06 for `DecodedBitStreamParser_Decode`, every mode (numeric, alphanumeric, byte, Kanji, Hanzi, ECI,
    FNC1, structured append, terminator, unknown mode nibbles), for EVERY byte string (truncated
    anywhere), every version number (also outside 1..40), every charset hint and every ECI registry:
    a parse result or FormatException — never a panic, never an exhausted loop budget. -/
theorem qr_parse_total (reg : Registry) (bytes : List Nat) (ver : Nat) (hint : Hint) :
    (∃ p, parse reg bytes ver hint = .ok p) ∨ parse reg bytes ver hint = .error .format :=
  parse_fmt reg bytes ver hint

/-- in particular: no panic and no fuel exhaustion -/
theorem qr_parse_no_panic (reg : Registry) (bytes : List Nat) (ver : Nat) (hint : Hint) :
    (∀ w, parse reg bytes ver hint ≠ .error (.panic w)) ∧ parse reg bytes ver hint ≠ .error .fuel := by
  rcases qr_parse_total reg bytes ver hint with ⟨p, h⟩ | h <;> rw [h] <;> exact ⟨fun w => by simp, by simp⟩

-- non-vacuity: a numeric segment "01", a truncated byte segment, an unknown mode nibble, ECI 900
example : (parse [] [0x10, 0x08, 0x08] 1 .none).map (·.segs) = .ok [.raw [48, 49]] := by decide
example : parse [] [0x40, 0x31] 1 .none = .error .format := by decide
example : parse [] [0x60] 1 .none = .error .format := by decide
example : parse [] [0x78, 0x38, 0x40] 1 .none = .error .format := by decide

end QRParse

/-! ## QR Decoder.Decode on arbitrary matrices (model `Gzx.QRDec.decode`, tied to the code by the
     `c01 decode` / `c01 cw` and `c06 qrdecode` correspondence lines) -/

section QRDecode
open Gzx.QRDec Gzx.ECI Gzx.Proofs.TotalQR Gzx.Proofs.TotalQRDec Gzx.Proofs.TotalQRFit

/-- C06 for `qrcode/decoder.Decoder.Decode`: NewBitMatrixParser, ReadVersion, ReadFormatInformation,
    ReadCodewords, DataBlock_GetDataBlocks, correctErrors, DecodedBitStreamParser_Decode and the mirrored
    second attempt, on EVERY square matrix (any dimension ≥ 0, any cells), every charset hint:
    a result, FormatException or ChecksumException — never a panic, never an exhausted loop budget.
    Hypotheses (all decidable facts about DATA, discharged for the tables regenerated from /repo by
    `Obligations.C06.tables_ok` on every run):
      * `wfVersions T.versions` — VERSIONS has 40 entries numbered 1..40 with consistent block lists;
      * `T.versions.all cwFitsB` — every version has room for ≤ totalCodewords codewords (+ < 8 bits)
        outside its function patterns;
    and of the Reed-Solomon block decoder only that it never panics (`rs_decode_total` of C04 for the
    verified RS model on in-range words).  The format / version BCH look-up tables, the mask table and
    the ECI registry may be ARBITRARY. -/
theorem qr_decode_total (T : Tables) (hT : wfVersions T.versions = true) (hfit : T.versions.all cwFitsB = true)
    (rs : List Nat → Nat → Res (List Nat)) (hrs : ∀ cw n w, rs cw n ≠ .error (.panic w))
    (hint : Hint) (m : Matrix) :
    (∃ d, decode T rs hint m = .ok d) ∨ decode T rs hint m = .error .format ∨
      decode T rs hint m = .error .checksum :=
  decode_spec T hT (cwFits_of_check T hfit) rs hrs hint m

theorem qr_decode_no_panic (T : Tables) (hT : wfVersions T.versions = true) (hfit : T.versions.all cwFitsB = true)
    (rs : List Nat → Nat → Res (List Nat)) (hrs : ∀ cw n w, rs cw n ≠ .error (.panic w))
    (hint : Hint) (m : Matrix) :
    (∀ w, decode T rs hint m ≠ .error (.panic w)) ∧ decode T rs hint m ≠ .error .fuel := by
  rcases qr_decode_total T hT hfit rs hrs hint m with ⟨d, h⟩ | h | h <;> rw [h] <;>
    exact ⟨fun w => by simp, by simp⟩

/-- the table hypotheses are what keeps the decoder inside its slices: with a VERSIONS table of 39 entries
    a 177x177 matrix that announces version 40 indexes past the table (model and code alike) -/
example : getVersionForNumber [] 40 = .error (.panic "VERSIONS[versionNumber-1]") := by decide
/-- every matrix whose dimension is not 17+4k, k ≥ 1, is a FormatException whatever the tables are
    (0x0, 1x1, 20x20, 22x22 …) -/
example (T : Tables) (rs : List Nat → Nat → Res (List Nat)) (hint : Hint) (bit : Nat → Nat → Bool) :
    decode T rs hint ⟨22, bit⟩ = .error .format := by simp [decode, newParser, wrapF]
example (T : Tables) (rs : List Nat → Nat → Res (List Nat)) (hint : Hint) (bit : Nat → Nat → Bool) :
    decode T rs hint ⟨0, bit⟩ = .error .format := by simp [decode, newParser, wrapF]

end QRDecode

/-! ## Data Matrix DecodedBitStreamParser (model `Gzx.DMHighLevel.decodeText`, tied to the code by the
     `c02 dm-dec` and `c06 dmparse` correspondence lines) -/

section DMParse
open Gzx.DMHighLevel Gzx.Proofs.TotalQR Gzx.Proofs.TotalDM

/-- C06 for `DecodedBitStreamParser_decode`: for EVERY codeword list (every byte value, streams truncated
    inside a C40/Text/X12 pair, an EDIFACT triple or a Base-256 header, Base-256 lengths pointing past
    the end, an upper shift in last position, the pair (0,0) whose third value is −1) and every
    character tables `T`: a text or FormatException — never a panic. -/
theorem dm_parse_total (T : Tables) (cw : List Nat) :
    (∃ t, decodeText T cw = .ok t) ∨ decodeText T cw = .error .format :=
  decodeText_fmt T cw

/-- the same for text plus symbology modifier -/
theorem dm_parse_full_total (T : Tables) (cw : List Nat) :
    (∃ t, decodeFull T cw = .ok t) ∨ decodeFull T cw = .error .format :=
  decodeFull_fmt T cw

theorem dm_parse_no_panic (T : Tables) (cw : List Nat) : ∀ w, decodeText T cw ≠ .error (.panic w) := by
  intro w
  rcases dm_parse_total T cw with ⟨t, h⟩ | h <;> rw [h] <;> simp

/-- the boundary the proof had to argue about: a C40/Text value of −1 (pair (0,0)) reaches the decoder
    only in shift state 0 or 1, where it is not used as a table index; in shift state 2 or 3 it would be
    an index panic (model and code alike) -/
example : cValueCore refTables true (-1) ⟨2, false⟩ = .error (.panic "index out of range (negative)") := by decide
example : parseTwoBytes 0 0 = (0, 0, -1) := by decide
example : decodeText refTables [239, 0, 2, 0, 0, 66] = .ok [0, 33, 255, 65] := by decide
example : decodeText refTables [230, 0, 0] = .ok [0] := by decide
example : decodeText refTables [231, 100, 1, 2] = .error .format := by decide   -- Base-256 length past the end
example : decodeText refTables [235] = .ok [] := by decide                        -- upper shift in last position
example : decodeText refTables [240, 1, 2] = .ok [0, 1] := by decide              -- EDIFACT tail
example : decodeText refTables [238, 255, 255] = .error .format := by decide
example : decodeText refTables [66, 67] = .ok [65, 66] := by decide

end DMParse

/-! ## Data Matrix matrix chain: NewBitMatrixParser → readCodewords → DataBlocks_getDataBlocks
     (model `Gzx.DMDec`, tied to the code by the `c08` / `c05` / `c06 dmmatrix` correspondence lines) -/

section DMDecode
open Gzx.DMDec Gzx.Proofs.TotalDMDec

/-- C06 for the Data Matrix `BitMatrixParser` on EVERY bit matrix (any width and height, any cells): a matrix
    whose dimensions are not in the version table (odd, < 8, > 144, width/height mismatch, 10x12 …) is a
    FormatException; otherwise the version of those dimensions is found, its data regions are copied without
    leaving the symbol, `readCodewords` (corner cases, Utah shapes, both sweeps) never leaves the mapping
    matrix and returns exactly `totalCodewords` codewords, and `DataBlocks_getDataBlocks` de-interleaves
    them without leaving a block.  Never a panic.
    `tbl` is any version table whose entries satisfy the decidable facts `VersionOK` / `dbOK`
    (`dm_versions_ok`: the decoder's table does). -/
theorem dm_decode_total (tbl : List Version) (hT : ∀ v ∈ tbl, VersionOK v ∧ dbOK v = true)
    (g : BitGrid) (hg : g.bits.size = g.width * g.height) :
    newBitMatrixParser tbl g = .error .format ∨
    ∃ v m cws blocks, newBitMatrixParser tbl g = .ok (v, m) ∧ v ∈ tbl ∧
      v.symbolSizeRows = g.height ∧ v.symbolSizeColumns = g.width ∧
      readCodewords v m = .ok cws ∧ cws.length = v.totalCodewords ∧ getDataBlocks cws v = .ok blocks := by
  rcases newBitMatrixParser_spec tbl (fun v hv => (hT v hv).1) g hg with h | ⟨v, m, h, hm, hr, hc, hmw, hmh, hmc⟩
  · exact Or.inl h
  · have hread := (hT v hm).1.read
    rw [← hmh, ← hmc] at hread
    obtain ⟨cws, hcw, hlen⟩ := readCodewords_spec v m hmw hread
    obtain ⟨blocks, hb⟩ := getDataBlocks_spec v (hT v hm).2 cws hlen
    exact Or.inr ⟨v, m, cws, blocks, h, hm, hr, hc, hcw, hlen, hb⟩

/-- the decoder's own table (ISO/IEC 16022 Table 7 + DMRE; `Obligations.C08.gen_versions_eq` ties it to /repo)
    satisfies the hypotheses -/
theorem dm_versions_ok : ∀ v ∈ versions, VersionOK v ∧ dbOK v = true :=
  fun v hv => ⟨versions_ok v hv, List.all_eq_true.mp versions_db v hv⟩

/-- C06 for the Data Matrix matrix chain with the decoder's table, unconditionally -/
theorem dm_decode_total_versions (g : BitGrid) (hg : g.bits.size = g.width * g.height) :
    newBitMatrixParser versions g = .error .format ∨
    ∃ v m cws blocks, newBitMatrixParser versions g = .ok (v, m) ∧ v ∈ versions ∧
      readCodewords v m = .ok cws ∧ cws.length = v.totalCodewords ∧ getDataBlocks cws v = .ok blocks := by
  rcases dm_decode_total versions dm_versions_ok g hg with h | ⟨v, m, cws, blocks, h1, h2, _, _, h3, h4, h5⟩
  · exact Or.inl h
  · exact Or.inr ⟨v, m, cws, blocks, h1, h2, h3, h4, h5⟩

-- non-vacuity: a 10x10 matrix reaches the success path; 10x12 and 9x9 are FormatExceptions; the
-- representation invariant is needed (a BitGrid with too few cells indexes out of range)
example : (newBitMatrixParser versions ⟨10, 10, Array.replicate 100 true⟩).map (·.1.versionNumber) = .ok 1 := by
  decide +kernel
example : (newBitMatrixParser versions ⟨12, 10, Array.replicate 120 false⟩).map (·.1.versionNumber) =
    .error .format := by decide +kernel
example : (newBitMatrixParser versions ⟨9, 9, Array.replicate 81 false⟩).map (·.1.versionNumber) =
    .error .format := by decide +kernel
example : (newBitMatrixParser versions ⟨10, 10, #[]⟩).map (·.1.versionNumber) =
    .error (.panic "index out of range: bits") := by decide +kernel

end DMDecode

/-! ## UPC/EAN row decoder (model Gzx/Model/OneD.lean, tied to oned/upcean_reader.go by the `c03` suite): first layer -/

section OneDRows
open Gzx.OneD Gzx.Proofs.TotalOneD

/-- C06 for `upceanReader_findGuardPatternWithCounters` on EVERY row (any length ≥ 0, any pixels), from any
    offset, white-first or not, for every guard pattern of at least three runs: a range or
    NotFoundException — the counter shift `counters[2:]` and the variance computation never leave their
    slices.  (PARTIAL for the row decoders as a whole: `decodeRow` — start-guard search with its quiet-zone
    loop, `decodeDigit`, the middle/end guards, check digit — is NOT proved total here; it is covered by the
    C03 correspondence and the C06 row oracle.) -/
theorem upcean_findGuardPattern_total_partial (row : List Bool) (rowOffset : Nat) (whiteFirst : Bool)
    (pattern : List Nat) (h3 : 3 ≤ pattern.length) :
    (∃ r, findGuardPattern row rowOffset whiteFirst pattern = .ok r) ∨
      findGuardPattern row rowOffset whiteFirst pattern = .error .notFound :=
  findGuardPattern_nf row rowOffset whiteFirst pattern h3

/-- the guard patterns of the reference tables (start/end, middle, UPC-E end) have 3, 5 and 6 runs -/
example : 3 ≤ refTables.startEnd.length ∧ 3 ≤ refTables.middle.length ∧ 3 ≤ refTables.upceMiddleEnd.length := by decide
/-- the hypothesis is needed: a two-run pattern makes `counters[2:]` leave the slice -/
example : findGuardPattern [true, true, true, true, false, true, false] 0 false [1, 1] =
    .error (.panic "slice bounds out of range") := by decide
example : findGuardPattern [false, true, false, true, false] 0 false [1, 1, 1] = .ok (1, 4) := by decide
example : findGuardPattern [] 7 true [1, 1, 1] = .error .notFound := by decide

end OneDRows

end Gzx.Properties.C06
