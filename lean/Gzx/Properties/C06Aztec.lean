/-
  C06 (decoding is total) — the Aztec decoder model of property C11 on ARBITRARY input.
  Property theorems only; helper lemmas in Gzx/Proofs/AztecTotal.lean.

  Model: Gzx/Model/AztecDecoder.lean + AztecExtract.lean (aztec/decoder/decoder.go as coded, tied to /repo by
  the `c11` correspondence suite: Decode on reference, damaged and random matrices, HighLevelDecode on
  arbitrary bit vectors) with the Reed-Solomon decoder of property C04 plugged in (Gzx/Model/AztecRS.lean:
  `rsModel`, `decodeFull`).  In the model every Go operation that can panic is a `.error (.panic _)` value
  (§5.1): `matrix.Get` out of range, the division `100*…/numCodewords`, `readCode` past the end of the
  corrected bits, every table / slice index of the Reed-Solomon decoder.  The theorems say that none of these
  is reachable and that the loop of `getEncodedData` terminates within its fuel.
-/
import Gzx.Proofs.AztecTotal
namespace Gzx.Properties.C06Aztec
open Gzx Gzx.AztecDecoder Gzx.AztecTotal

/-- `extractBits`: for EVERY layer count (not only 1..32), compact or full-range, and every module matrix
    with at least `matrixSize` rows of at least `matrixSize` modules, every read coordinate (through the
    alignment map) is inside the matrix: the extraction succeeds. -/
theorem aztec_extractBits_total (m : Matrix) (layers : Nat) (compact : Bool)
    (hm : WellSized m (matrixSize layers compact)) :
    ∃ raw, extractBits m layers compact = .ok raw :=
  extractBits_ok m layers compact hm

/-- … and for layer counts up to 32 it returns exactly `totalBitsInLayer` bits -/
theorem aztec_extractBits_length (m : Matrix) (layers : Nat) (compact : Bool) (raw : List Bool)
    (hl : layers ≤ 32) (h : extractBits m layers compact = .ok raw) :
    raw.length = totalBitsInLayer layers compact := by
  rw [AztecFull.readAll_length m _ raw h]
  exact readPositions_length compact layers hl

/-- `correctBits` with the library's Reed-Solomon decoder, on EVERY bit stream, layer count and data-word
    count: corrected bits or FormatException.  In particular the integer division by `numCodewords` is never
    executed with zero (the Reed-Solomon decoder rejects the empty word first). -/
theorem aztec_correctBits_total (raw : List Bool) (layers nData : Nat) :
    (∃ c, correctBits rsModel raw layers nData = .ok c) ∨
      correctBits rsModel raw layers nData = .error .format :=
  correctBits_total raw layers nData

/-- `correctBits` turns every failure of the Reed-Solomon call into a FormatException, so the previous theorem
    alone would not notice a panic INSIDE the Reed-Solomon decoder.  There is none: for every layer count up to
    32 and the stream `extractBits` delivers, the C04 decoder on the words `correctBits` cuts returns a word
    list or a ReedSolomonException (C04 `rs_decode_total`: the words are field elements, their number fits the
    field chosen by layer count, the Euclid loops terminate). -/
theorem aztec_rs_call_total (m : Matrix) (layers : Nat) (compact : Bool) (raw : List Bool) (nData : Nat)
    (hl : 1 ≤ layers ∧ layers ≤ 32) (h : extractBits m layers compact = .ok raw) :
    (∃ ws, rsModel (codewordSize layers) (receivedWords layers raw)
        (raw.length / codewordSize layers - nData) = .ok ws) ∨
      rsModel (codewordSize layers) (receivedWords layers raw)
        (raw.length / codewordSize layers - nData) = .error .checksum := by
  have hlen := aztec_extractBits_length m layers compact raw hl.2 h
  apply rs_on_received_total raw layers nData
  · rw [hlen]
    have : ∀ (c : Bool) (L : Nat), L ≤ 32 → 1 ≤ L → 0 < totalBitsInLayer L c / codewordSize L := by
      intro c; cases c <;> decide
    exact this compact layers hl.2 hl.1
  · rw [hlen]; exact codeword_count_le compact layers hl.2

/-- `getEncodedData` / `HighLevelDecode` on EVERY bit string, for every content of the five code tables and
    every ECI registry: decoded segments or FormatException.  No panic (`readCode` is never called past the end;
    table indices are checked) and the loop terminates: every iteration consumes at least four bits, so the
    fuel `len + 1` of the model is never exhausted.  (After the repairs `fix: aztec getEncodedData capacity`
    and `fix: aztec unregistered ECI`, which the model mirrors.) -/
theorem aztec_hld_total (T : Tables) (reg : Nat → Bool) (bits : List Bool) :
    (∃ segs, getEncodedData T reg bits = .ok segs) ∨ getEncodedData T reg bits = .error .format :=
  getEncodedData_total T reg bits

/-- **`Decoder.Decode` is total**: for every module matrix at least as large as the symbol that the detector
    result announces, every compact flag, every layer count, every data-block count, every table content and
    ECI registry, the decoder model (with the C04 Reed-Solomon decoder) returns a result or a FormatException —
    exactly one of the two, never a panic, never fuel exhaustion. -/
theorem aztec_decode_total (T : Tables) (reg : Nat → Bool) (m : Matrix) (compact : Bool)
    (nbDatablocks nbLayers : Nat) (hm : WellSized m (matrixSize nbLayers compact)) :
    (∃ d, decodeFull T reg m compact nbDatablocks nbLayers = .ok d) ∨
      decodeFull T reg m compact nbDatablocks nbLayers = .error .format :=
  decode_total T reg m compact nbDatablocks nbLayers hm

/-- the same as an inequality: no panic value, no fuel value -/
theorem aztec_decode_no_panic (T : Tables) (reg : Nat → Bool) (m : Matrix) (compact : Bool)
    (nbDatablocks nbLayers : Nat) (hm : WellSized m (matrixSize nbLayers compact)) :
    (∀ why, decodeFull T reg m compact nbDatablocks nbLayers ≠ .error (.panic why)) ∧
      decodeFull T reg m compact nbDatablocks nbLayers ≠ .error .fuel := by
  rcases aztec_decode_total T reg m compact nbDatablocks nbLayers hm with ⟨d, h⟩ | h <;>
    rw [h] <;> exact ⟨fun _ hc => (by cases hc), fun hc => (by cases hc)⟩

/-- without the size condition the only possible panic is `matrix.Get` out of range in `extractBits`:
    whatever the matrix, the result is a value, a FormatException, or that panic -/
theorem aztec_decode_any_matrix (T : Tables) (reg : Nat → Bool) (m : Matrix) (compact : Bool)
    (nbDatablocks nbLayers : Nat) :
    (∃ d, decodeFull T reg m compact nbDatablocks nbLayers = .ok d) ∨
      decodeFull T reg m compact nbDatablocks nbLayers = .error .format ∨
      (∃ e, extractBits m nbLayers compact = .error e ∧
        decodeFull T reg m compact nbDatablocks nbLayers = .error e) := by
  unfold decodeFull decode
  cases hraw : extractBits m nbLayers compact with
  | error e => exact Or.inr (Or.inr ⟨e, rfl, rfl⟩)
  | ok raw =>
    simp only [bind, Except.bind]
    rcases correctBits_total raw nbLayers nbDatablocks with ⟨c, hc⟩ | hc
    · rw [hc]
      simp only
      rcases getEncodedData_total T reg c.bits with ⟨segs, hs⟩ | hs
      · rw [hs]; exact Or.inl ⟨_, rfl⟩
      · rw [hs]; exact Or.inr (Or.inl rfl)
    · rw [hc]; exact Or.inr (Or.inl rfl)

/-! ### non-vacuity -/

/-- a 15x15 matrix is well sized for a compact 1-layer symbol; the all-light one decodes to a FormatException
    (all-zero codewords), a checked error -/
example : WellSized (List.replicate 15 (List.replicate 15 false)) (matrixSize 1 true) := by
  refine ⟨by decide, ?_⟩
  intro row hrow
  rw [(List.mem_replicate.1 hrow).2]
  decide

/-- a too small matrix is the one way to the `matrix.Get` panic of the model -/
example : extractBits [[true]] 1 true = .error (.panic "matrix.Get: x out of range") := by decide

/-- HighLevelDecode of the empty and of a one-bit message (D10 before its repair) -/
example : getEncodedData AztecLink.refTables (fun _ => false) [] = .ok [] := by decide
example : getEncodedData AztecLink.refTables (fun _ => false) [true] = .ok [] := by decide
/-- FLG(1) with an unregistered ECI digit (D11 before its repair): FormatException -/
example : getEncodedData AztecLink.refTables (fun _ => false)
    [false, false, false, false, false, false, false, false, false, false, false, false, true,
     true, false, true, false] = .error .format := by decide

end Gzx.Properties.C06Aztec
