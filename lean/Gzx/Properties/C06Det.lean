/-
  C06 — decoding is total, part "the locating code (detectors)": panic-freedom and termination of the
  detector models for EVERY image and EVERY interpretation of the float64 operations.

  Models: Gzx/Model/Det*.lean, tied to /repo by the `c06det` correspondence commands
  (harness/zz_c06_det.go).  `image.Get` is a `Reader`:
    * `Img.rdGo`     — the bounds-checked `BitMatrix.Get` of this tree (answers false outside);
    * `Img.rdStrict` — an unguarded `Get`: reading outside `[0,w) × [0,h)` is a panic.
  Theorems named `…_total` are about `rdGo` (the code as it is): no panic, no fuel exhaustion
  (= the loops terminate within the stated bound), result or NotFoundException.  Theorems named
  `…_in_bounds` are about `rdStrict`: the stated part of the algorithm never reads outside the image,
  i.e. it does not rely on the guard inside `Get`.
  Every theorem quantifies over an arbitrary `F` and `o : FOps F` (float64 and its operations as an
  arbitrary interpretation), so nothing depends on rounding, NaN or ±Inf.
-/
import Gzx.Proofs.DetWhiteRect
import Gzx.Proofs.DetQRDetector
import Gzx.Proofs.DetDM
import Gzx.Model.DetAztec
namespace Gzx.Properties.C06Det
open Gzx Gzx.Det

/-! ## common/detector WhiteRectangleDetector -/

/-- `NewWhiteRectangleDetector`: a detector or NotFoundException, for any image size (also 0 or
    negative), any `initSize`, any centre; it is a detector exactly when the initial box lies in the image -/
theorem wrd_new_total (w h initSize x y : Int) :
    (∃ d, WRD.new w h initSize x y = .ok d ∧ 0 ≤ d.upInit ∧ 0 ≤ d.leftInit ∧ d.downInit < h ∧ d.rightInit < w) ∨
    WRD.new w h initSize x y = .error .notFound := by
  unfold WRD.new
  simp only []
  by_cases hc : y - Int.tdiv initSize 2 < 0 ∨ x - Int.tdiv initSize 2 < 0 ∨ y + Int.tdiv initSize 2 ≥ h ∨ x + Int.tdiv initSize 2 ≥ w
  · right; simp [hc]
  · left
    refine ⟨_, by rw [if_neg hc], ?_⟩
    simp only []
    omega

/-- the four points `Detect` returns: black pixels of the image moved by one pixel, hence within one
    pixel of the image -/
def NearImage (img : Img) (pts : List (Int × Int)) : Prop :=
  pts.length = 4 ∧ ∀ p ∈ pts, -1 ≤ p.1 ∧ p.1 ≤ img.w ∧ -1 ≤ p.2 ∧ p.2 ≤ img.h

theorem get_true_inside (img : Img) (x y : Int) (h : img.rdGo x y = .ok true) : img.inside x y := by
  simp only [Img.rdGo, Img.get, Except.ok.injEq] at h
  by_cases ho : img.outside x y = true
  · simp [ho] at h
  · simp only [Img.outside, Bool.or_eq_true, decide_eq_true_eq, not_or] at ho
    exact ⟨by omega, by omega, by omega, by omega⟩

theorem fromBlack_near (img : Img) (pts : List (Int × Int)) (h : WRD.FromBlack img.rdGo pts) : NearImage img pts := by
  obtain ⟨y, z, x, t, hy, hz, hx, ht, hp⟩ := h
  have iy := get_true_inside img _ _ hy
  have iz := get_true_inside img _ _ hz
  have ix := get_true_inside img _ _ hx
  have it := get_true_inside img _ _ ht
  simp only [Img.inside] at iy iz ix it
  rcases hp with hp | hp <;> subst hp <;> refine ⟨rfl, ?_⟩ <;> intro p hp <;>
    simp only [List.mem_cons, List.mem_nil_iff, or_false] at hp <;>
    rcases hp with rfl | rfl | rfl | rfl <;> simp only [] <;> omega

/-- **`Detect` is total** (clause "never panics, returns in bounded time, result xor NotFound" for the
    WhiteRectangleDetector): for every image, every detector state (also one the constructor would have
    refused), every interpretation of the float operations — no panic, the outer loop ends within
    `detectFuel` rounds (each expansion loop within the distance of its border to the image edge), and the
    outcome is four points within one pixel of the image or NotFoundException. -/
theorem wrd_detect_total {F : Type} (o : FOps F) (img : Img) (d : WRD.WR) :
    Sat OnlyNotFound (NearImage img) (WRD.detect o img.rdGo img.w img.h d) := by
  unfold WRD.detect
  have hl := WRD.detectLoop_sat (rdGo_ok img) img.w img.h (WRD.detectFuel img.w img.h (WRD.initSt d)) (WRD.initSt d)
    (Or.inl (fun _ _ => trivial)) (by unfold WRD.detectFuel WRD.measure; omega)
  refine Sat.bind (Sat.mono hl (fun _ h => h.elim) (fun _ h => h)) ?_
  intro r _
  cases r with
  | none => exact rfl
  | some s => exact Sat.mono (WRD.corners_sat o (rdGo_ok img) img.w s) (fun _ h => h) (fun _ h => fromBlack_near img _ h)

/-- constructor + `Detect` as the Data Matrix and Aztec detectors call it -/
theorem wrd_total {F : Type} (o : FOps F) (img : Img) (initSize x y : Int) :
    Sat OnlyNotFound (NearImage img) (WRD.newAndDetect o img.rdGo img.w img.h initSize x y) := by
  unfold WRD.newAndDetect
  rcases wrd_new_total img.w img.h initSize x y with ⟨d, hd, _⟩ | he
  · rw [hd]; exact wrd_detect_total o img d
  · rw [he]; exact rfl

/-- the statement of C06 spelled out: never a panic, never out of fuel -/
theorem wrd_never_panics {F : Type} (o : FOps F) (img : Img) (initSize x y : Int) :
    (∀ why, WRD.newAndDetect o img.rdGo img.w img.h initSize x y ≠ .error (.panic why)) ∧
    WRD.newAndDetect o img.rdGo img.w img.h initSize x y ≠ .error .fuel ∧
    ((∃ pts, WRD.newAndDetect o img.rdGo img.w img.h initSize x y = .ok pts ∧ NearImage img pts) ∨
      WRD.newAndDetect o img.rdGo img.w img.h initSize x y = .error .notFound) := by
  have h := wrd_total o img initSize x y
  refine ⟨h.no_panic onlyNotFound_no_panic, h.no_fuel onlyNotFound_no_fuel, ?_⟩
  cases hr : WRD.newAndDetect o img.rdGo img.w img.h initSize x y with
  | ok pts => rw [hr] at h; exact Or.inl ⟨pts, rfl, h⟩
  | error e => rw [hr] at h; exact Or.inr (by rw [show e = Fault.notFound from h])

/-- **the expansion phase reads only inside the image**: with an UNGUARDED `Get`, from any detector the
    constructor accepts with `initSize ≥ 0` (the callers pass 10 and 15), the whole
    `for aBlackPointFoundOnBorder` loop — every `containsBlackPoint` — runs without a fault, and the box it
    ends with lies inside the image. -/
theorem wrd_expand_in_bounds (img : Img) (initSize x y : Int) (hsz : 0 ≤ initSize) (d : WRD.WR)
    (hd : WRD.new img.w img.h initSize x y = .ok d) :
    Sat NoFault (fun r => ∀ s, r = some s →
        0 ≤ s.left ∧ s.left ≤ s.right ∧ s.right < img.w ∧ 0 ≤ s.up ∧ s.up ≤ s.down ∧ s.down < img.h)
      (WRD.detectLoop img.rdStrict img.w img.h (WRD.detectFuel img.w img.h (WRD.initSt d)) (WRD.initSt d)) := by
  have hhalf : 0 ≤ Int.tdiv initSize 2 := Int.tdiv_nonneg hsz (by decide)
  unfold WRD.new at hd
  simp only [] at hd
  by_cases hc : y - Int.tdiv initSize 2 < 0 ∨ x - Int.tdiv initSize 2 < 0 ∨ y + Int.tdiv initSize 2 ≥ img.h ∨ x + Int.tdiv initSize 2 ≥ img.w
  · simp [hc] at hd
  · simp only [hc, if_false, Except.ok.injEq] at hd
    have e1 : d.leftInit = x - Int.tdiv initSize 2 := by rw [← hd]
    have e2 : d.rightInit = x + Int.tdiv initSize 2 := by rw [← hd]
    have e3 : d.upInit = y - Int.tdiv initSize 2 := by rw [← hd]
    have e4 : d.downInit = y + Int.tdiv initSize 2 := by rw [← hd]
    have hbox : WRD.Box (WRD.initSt d) := ⟨by simp only [WRD.initSt]; omega, by simp only [WRD.initSt]; omega,
      by simp only [WRD.initSt]; omega, by simp only [WRD.initSt]; omega⟩
    have hlim : WRD.InLimits img.w img.h (WRD.initSt d) := ⟨by simp only [WRD.initSt]; omega, by simp only [WRD.initSt]; omega,
      by simp only [WRD.initSt]; omega, by simp only [WRD.initSt]; omega⟩
    refine Sat.mono (WRD.detectLoop_sat (rdStrict_ok img) img.w img.h _ _
      (Or.inr ⟨hbox, hlim, fun x y h => h⟩) (by unfold WRD.detectFuel WRD.measure; omega)) (fun _ h => h) ?_
    intro r hr s hs
    obtain ⟨⟨l1, l2, l3, l4⟩, hb⟩ := hr s hs
    obtain ⟨b1, b2, b3, b4⟩ := hb hbox
    exact ⟨b1, b2, l1, b3, b4, l2⟩

/-! ### non-vacuity: a concrete image on which `Detect` finds its four points, and one where it does not.
    (`toyOps` is an integer interpretation of the float operations — any interpretation will do.) -/

def toyOps : FOps Int where
  ofInt := id
  toInt := id
  add := (· + ·)
  sub := (· - ·)
  mul := (· * ·)
  div := Int.tdiv
  abs := fun a => Int.ofNat a.natAbs
  sqrt := fun a => Int.ofNat (((List.range (a.toNat + 1)).filter (fun k => k * k ≤ a.toNat)).length - 1)
  floor := id
  lt := fun a b => decide (a < b)
  le := fun a b => decide (a ≤ b)
  eq := fun a b => decide (a = b)
  isNaN := fun _ => false
  nan := 0
  maxFloat := 1000000

/-- 12x12, a black 4x4 square at (4..7, 4..7) -/
def squareImg : Img := { w := 12, h := 12, pix := fun x y => decide (4 ≤ x ∧ x ≤ 7 ∧ 4 ≤ y ∧ y ≤ 7) }

example : WRD.newAndDetect toyOps squareImg.rdGo 12 12 2 6 6 = .ok [(5, 5), (5, 6), (6, 5), (6, 6)] := by decide
example : WRD.newAndDetect toyOps squareImg.rdGo 12 12 10 6 6 = .error .notFound := by decide
example : ∃ d, WRD.new 12 12 2 6 6 = .ok d := ⟨_, rfl⟩

/-! ## qrcode/detector -/

/-- the row scan of `FinderPatternFinder.Find` is total: for every image (any width/height, also 0 or
    negative), with or without TRY_HARDER, and every interpretation of the float operations — no panic
    (`stateCount[currentState]` always has `0 ≤ currentState ≤ 4`), and the `for i` loop ends within
    `maxI + 1` rows because the row index grows by at least one per round (`iSkip ≥ 1`; the mid-row skip
    `i += rowSkip - stateCount[2] - iSkip` is taken only when `rowSkip > stateCount[2]`). -/
theorem qr_scan_total {F : Type} (o : FOps F) (img : Img) (tryHarder : Bool) :
    Sat NoFault (fun _ => True) (QR.findScan o img.rdGo img.h img.w tryHarder) :=
  QR.findScan_sat o (rdGo_ok img) img.h img.w tryHarder

/-- `FinderPatternFinder.Find` is total: three patterns or NotFoundException.  The only property of
    float64 used: `math.MaxFloat64 == math.MaxFloat64` (so that `bestPatterns` is non-nil whenever
    `distortion` has been lowered). -/
theorem qr_find_total {F : Type} (o : FOps F) (hmax : QR.MaxEqSelf o) (img : Img) (tryHarder : Bool) :
    Sat OnlyNotFound (fun _ => True) (QR.find o img.rdGo img.h img.w tryHarder) :=
  QR.find_sat o hmax (rdGo_ok img) img.h img.w tryHarder

theorem qr_find_never_panics {F : Type} (o : FOps F) (hmax : QR.MaxEqSelf o) (img : Img) (tryHarder : Bool) :
    (∀ why, QR.find o img.rdGo img.h img.w tryHarder ≠ .error (.panic why)) ∧
    QR.find o img.rdGo img.h img.w tryHarder ≠ .error .fuel :=
  ⟨(qr_find_total o hmax img tryHarder).no_panic onlyNotFound_no_panic,
   (qr_find_total o hmax img tryHarder).no_fuel onlyNotFound_no_fuel⟩

/-- `CrossCheckVertical` / `CrossCheckHorizontal` for ANY start, fixed coordinate, `maxCount`, total (also
    outside the image): a float, never a fault -/
theorem qr_crosscheck_total {F : Type} (o : FOps F) (img : Img) (vertical : Bool) (maxP start q maxCount total : Int) :
    Sat NoFault (fun _ => True) (QR.crossCheck o img.rdGo vertical maxP start q maxCount total) :=
  QR.crossCheck_sat o (rdGo_ok img) vertical maxP start q maxCount total

theorem qr_crosscheck_diagonal_total {F : Type} (o : FOps F) (img : Img) (centerI centerJ : Int) :
    Sat NoFault (fun _ => True) (QR.crossCheckDiagonal o img.rdGo img.h img.w centerI centerJ) :=
  QR.crossCheckDiagonal_sat o (rdGo_ok img) img.h img.w centerI centerJ

/-- `calculateModuleSize` (the Bresenham walks of `sizeOfBlackWhiteBlackRun`, both ways, with the float
    clamps) is total for any three points: each walk takes `max(|dx|,|dy|) + 1` steps -/
theorem qr_module_size_total {F : Type} (o : FOps F) (img : Img) (tl tr bl : QR.FP F) :
    Sat NoFault (fun _ => True) (QR.calculateModuleSize o img.rdGo img.w img.h tl tr bl) :=
  QR.calculateModuleSize_sat o (rdGo_ok img) img.w img.h tl tr bl

/-- `computeDimension`: the `dimension % 4` switch — a dimension that is 1 mod 4 (case 0: +1, case 2: -1),
    NotFoundException for case 3; (a sum below 7 can only come from `int(NaN)`-like float results) -/
theorem qr_compute_dimension {F : Type} (o : FOps F) (tl tr bl : QR.FP F) (ms : F) :
    Sat OnlyNotFound (fun d => Int.tmod d 4 = 1 ∨ d < 7) (QR.computeDimension o tl tr bl ms) :=
  QR.adjustDimension_sat _ _

/-- `findAlignmentInRegion` (clamps + `AlignmentPatternFinder.Find`): a pattern or NotFoundException;
    `stateCount[currentState]` of the alignment scan always has `0 ≤ currentState ≤ 2` -/
theorem qr_alignment_total {F : Type} (o : FOps F) (img : Img) (ms : F) (estX estY : Int) (factor : F) :
    Sat OnlyNotFound (fun _ => True) (QR.findAlignmentInRegion o img.rdGo img.w img.h ms estX estY factor) :=
  QR.findAlignmentInRegion_sat o (rdGo_ok img) img.w img.h ms estX estY factor

/-- **`Detector.Detect` up to the sampling call is total**: finder patterns, module size, dimension,
    provisional version, alignment search — the outcome is NotFoundException, FormatException (a
    dimension no version has) or a located symbol whose dimension is 21..177 and 1 mod 4, so the
    subsequent `SampleGridWithTransform(image, dimension, dimension, …)` (C19) gets positive dimensions. -/
theorem qr_detect_total {F : Type} (o : FOps F) (hmax : QR.MaxEqSelf o) (img : Img) (tryHarder : Bool) :
    Sat QR.NotFoundOrFormat (fun r => Int.tmod r.2.dimension 4 = 1 ∧ 21 ≤ r.2.dimension ∧ r.2.dimension ≤ 177)
      (QR.detect o img.rdGo img.w img.h tryHarder) :=
  QR.detect_sat o hmax (rdGo_ok img) img.w img.h tryHarder

theorem qr_detect_never_panics {F : Type} (o : FOps F) (hmax : QR.MaxEqSelf o) (img : Img) (tryHarder : Bool) :
    (∀ why, QR.detect o img.rdGo img.w img.h tryHarder ≠ .error (.panic why)) ∧
    QR.detect o img.rdGo img.w img.h tryHarder ≠ .error .fuel := by
  have h := qr_detect_total o hmax img tryHarder
  exact ⟨h.no_panic (fun w hw => by rcases hw with hw | hw <;> cases hw),
         h.no_fuel (fun hw => by rcases hw with hw | hw <;> cases hw)⟩

-- non-vacuity of the hypothesis: the toy interpretation satisfies it (IEEE binary64 does as well:
-- MaxFloat64 is not a NaN)
example : QR.MaxEqSelf toyOps := by unfold QR.MaxEqSelf; decide

/-! ## datamatrix/detector -/

/-- `transitionsBetween` for ANY two float points (the detector passes points up to two pixels outside
    the image): a count ≥ 0, no fault; the walk takes `max(|Δx|,|Δy|)` steps.  Hence every divisor
    `float64(tr+1)`, `float64(div+1)` in `shiftPoint` / `correctTopRight` is at least 1. -/
theorem dm_transitions_total {F : Type} (o : FOps F) (img : Img) (p q : FPt F) :
    Sat NoFault (fun r => 0 ≤ r) (DM.transitionsBetween o img.rdGo img.h p q) :=
  DM.transitionsBetween_sat o (rdGo_ok img) img.h p q

/-- **Data Matrix `Detect` up to the sampling call is total**: WhiteRectangleDetector, `detectSolid1/2`
    (`cornerPoints[0..3]` exist: the rectangle detector returns exactly four points),
    `correctTopRight` (nil → NotFoundException), `shiftToModuleCenter`, dimension logic — the outcome is
    NotFoundException or four points with EVEN dimensions ≥ 2 for `sampleGrid` (C19). -/
theorem dm_detect_total {F : Type} (o : FOps F) (img : Img) :
    Sat OnlyNotFound DM.GoodDims (DM.detect o img.rdGo img.w img.h) := by
  unfold DM.detect
  unfold WRD.newFromImage
  rcases wrd_new_total img.w img.h 10 (Int.tdiv img.w 2) (Int.tdiv img.h 2) with ⟨d, hd, _⟩ | he
  · rw [hd]
    show Sat OnlyNotFound _ (WRD.detect o img.rdGo img.w img.h d >>= _)
    refine Sat.bind (wrd_detect_total o img d) ?_
    intro pts hpts
    exact DM.locate_sat o (rdGo_ok img) img.w img.h _ (by rw [List.length_map]; exact hpts.1)
  · rw [he]; exact rfl

theorem dm_detect_never_panics {F : Type} (o : FOps F) (img : Img) :
    (∀ why, DM.detect o img.rdGo img.w img.h ≠ .error (.panic why)) ∧
    DM.detect o img.rdGo img.w img.h ≠ .error .fuel :=
  ⟨(dm_detect_total o img).no_panic onlyNotFound_no_panic, (dm_detect_total o img).no_fuel onlyNotFound_no_fuel⟩

/-! ## aztec/detector (first stage) -/

/-- the model's extra guard `k < stepBound …` in `gfdWalk` never cuts a walk short: for a direction ±1 a
    valid coordinate after `k` steps implies `k < stepBound` -/
theorem az_gfd_guard_redundant (n c d k : Int) (hd : d = 1 ∨ d = -1) (h0 : 0 ≤ c + k * d) (h1 : c + k * d < n) :
    k < AZ.stepBound n c d := by
  unfold AZ.stepBound
  rcases hd with rfl | rfl
  · simp only [if_true]; omega
  · simp only [show ¬ ((-1 : Int) = 1) by decide, if_false, if_true]; omega

theorem az_gfdWalk_total {rd : Reader} (hrd : Total rd) (w h : Int) (color : Bool) (x0 y0 dx dy L : Int) :
    Sat NoFault (fun _ => True) (AZ.gfdWalk rd w h color x0 y0 dx dy L) := by
  unfold AZ.gfdWalk
  refine sat_bind_true (walk_up_guard_total hrd _ _ _ _ L 0 0 (fun p hp => by
    simp only [Bool.and_eq_true, decide_eq_true_eq] at hp; exact hp.1)) ?_
  intro r
  exact Sat.ok trivial

/-- `getFirstDifferent` from ANY start point (inside or outside the image), any colour, any direction:
    a point, no fault; each of its three loops ends within the distance to the image edge -/
theorem az_getFirstDifferent_total (img : Img) (init : Int × Int) (color : Bool) (dx dy : Int) :
    Sat NoFault (fun _ => True) (AZ.getFirstDifferent img.rdGo img.w img.h init color dx dy) := by
  unfold AZ.getFirstDifferent
  simp only []
  refine sat_bind_true (az_gfdWalk_total (rdGo_ok img) _ _ _ _ _ _ _ _) ?_
  intro k1
  refine sat_bind_true (az_gfdWalk_total (rdGo_ok img) _ _ _ _ _ _ _ _) ?_
  intro k2
  refine sat_bind_true (az_gfdWalk_total (rdGo_ok img) _ _ _ _ _ _ _ _) ?_
  intro k3
  exact Sat.ok trivial

attribute [local irreducible] AZ.getFirstDifferent in
theorem az_fallback_total (img : Img) (cx cy : Int) :
    Sat NoFault (fun ps => ps.length = 4) (AZ.fallback img.rdGo img.w img.h cx cy) := by
  unfold AZ.fallback
  refine sat_bind_true (az_getFirstDifferent_total img _ _ _ _) ?_
  intro a
  refine sat_bind_true (az_getFirstDifferent_total img _ _ _ _) ?_
  intro b
  refine sat_bind_true (az_getFirstDifferent_total img _ _ _ _) ?_
  intro c
  refine sat_bind_true (az_getFirstDifferent_total img _ _ _ _) ?_
  intro d
  exact Sat.ok rfl

attribute [local irreducible] AZ.fallback WRD.detect in
theorem az_rectOrFallback_total {F : Type} (o : FOps F) (img : Img) (wr : Res WRD.WR)
    (hwr : Sat OnlyNotFound (fun _ => True) wr) (cx cy : Int) :
    Sat NoFault (fun ps => ps.length = 4) (AZ.rectOrFallback o img.rdGo img.w img.h wr cx cy) := by
  unfold AZ.rectOrFallback
  have hrun : Sat OnlyNotFound (NearImage img) (do let d ← wr; WRD.detect o img.rdGo img.w img.h d) :=
    Sat.bind hwr (fun d _ => wrd_detect_total o img d)
  cases hr : (do let d ← wr; WRD.detect o img.rdGo img.w img.h d) with
  | ok ps => rw [hr] at hrun; exact Sat.ok hrun.1
  | error e =>
    rw [hr] at hrun
    have : e = Fault.notFound := hrun
    subst this
    exact az_fallback_total img cx cy

theorem az_centre_total {F : Type} (o : FOps F) (ps : List (Int × Int)) (sel : Int × Int → Int) (h : ps.length = 4) :
    Sat NoFault (fun _ => True) (AZ.centre o ps sel) := by
  match ps, h with
  | [a, b, c, d], _ => exact Sat.ok trivial

/-- **`getMatrixCenter` is total**: both WhiteRectangleDetector runs (any NotFound — constructor or
    `Detect` — falls back to four `getFirstDifferent` walks from `(cx±7, cy±7)`, which may start outside
    a small image), the `cornerPoints[0..3]` accesses (always four points) and the float averaging. -/
theorem az_matrix_center_total {F : Type} (o : FOps F) (img : Img) :
    Sat NoFault (fun _ => True) (AZ.getMatrixCenter o img.rdGo img.w img.h) := by
  have hnew : ∀ i x y, Sat OnlyNotFound (fun _ => True) (WRD.new img.w img.h i x y) := by
    intro i x y
    rcases wrd_new_total img.w img.h i x y with ⟨d, hd, _⟩ | he
    · rw [hd]; exact Sat.ok trivial
    · rw [he]; exact rfl
  unfold AZ.getMatrixCenter
  refine Sat.bind (az_rectOrFallback_total o img _ (hnew _ _ _) _ _) ?_
  intro ps hps
  refine sat_bind_true (az_centre_total o ps _ hps) ?_
  intro cx
  refine sat_bind_true (az_centre_total o ps _ hps) ?_
  intro cy
  refine Sat.bind (az_rectOrFallback_total o img _ (hnew _ _ _) _ _) ?_
  intro ps2 hps2
  refine sat_bind_true (az_centre_total o ps2 _ hps2) ?_
  intro cx2
  refine sat_bind_true (az_centre_total o ps2 _ hps2) ?_
  intro cy2
  exact Sat.ok trivial

end Gzx.Properties.C06Det
