/-
  C06 — decoding is total, part "the Aztec detector, later stages" (work package detrest): panic-freedom
  and termination of getColor, isWhiteOrBlackRectangle, getBullsEyeCorners, sampleLine, extractParameters
  and of `Detect` up to the `sampler.SampleGrid` call (C19) — for EVERY image and EVERY interpretation
  `FOps` of float64, in the style of Properties/C06Det.lean (which has the first stage, getMatrixCenter /
  getFirstDifferent).  Model: Gzx/Model/DetAztec2.lean, tied to /repo by the `c06rest az*`
  correspondence commands (harness/zz_detrest_az.go).  `image.Get` is `Img.rdGo`, the bounds-checked Get
  of this tree: the detector deliberately probes points up to a few pixels outside the image.
-/
import Gzx.Proofs.DetAztec2
namespace Gzx.Properties.C06DetAz
open Gzx Gzx.Det
open Gzx.Properties.C06Det (toyOps squareImg)

/-- `getColor(p1, p2)` for ANY two points (inside or outside the image, also `p1 = p2`): one of 0, 1, -1;
    the loop runs `int(math.Floor(d))` rounds whatever that number is (a counted loop), no fault -/
theorem az_getColor_total {F : Type} (o : FOps F) (img : Img) (p1 p2 : AZ.IPt) :
    Sat NoFault AZ.IsColor (AZ.getColor o img.rdGo p1 p2) :=
  AZ.getColor_total o (rdGo_ok img) p1 p2

/-- `isWhiteOrBlackRectangle` for ANY four points: a boolean, no fault -/
theorem az_isWhiteOrBlackRectangle_total {F : Type} (o : FOps F) (img : Img) (p1 p2 p3 p4 : AZ.IPt) :
    Sat NoFault (fun _ => True) (AZ.isWhiteOrBlackRectangle o img.rdGo img.w img.h p1 p2 p3 p4) :=
  AZ.isWhiteOrBlackRectangle_total o (rdGo_ok img) img.w img.h p1 p2 p3 p4

/-- **`getBullsEyeCorners` is total** from ANY centre: the ring loop runs at most 8 rounds of four
    `getFirstDifferent` walks; the outcome is NotFoundException or a bull's eye with
    `nbCenterLayers = 5` (compact) or `7` (full) — so `2*nbCenterLayers - 3`, the divisor in `expandSquare`,
    is 7 or 11 and the side length `2*nbCenterLayers` handed to `sampleLine` is 10 or 14 -/
theorem az_bullsEye_total {F : Type} (o : FOps F) (img : Img) (pCenter : AZ.IPt) :
    Sat OnlyNotFound AZ.GoodBullsEye (AZ.getBullsEyeCorners o img.rdGo img.w img.h pCenter) :=
  AZ.getBullsEyeCorners_total o img pCenter

/-- `sampleLine(p1, p2, size)` for ANY float points and ANY size (also ≤ 0): no fault — every shift
    `1 << (size - i - 1)` has a non-negative count because the loop runs `i < size` -/
theorem az_sampleLine_total {F : Type} (o : FOps F) (img : Img) (p1 p2 : FPt F) (size : Int) :
    Sat NoFault (fun _ => True) (AZ.sampleLine o img.rdGo p1 p2 size) :=
  AZ.sampleLine_total o (rdGo_ok img) p1 p2 size

/-- **`extractParameters` is total** for ANY four corner points, any `nbCenterLayers ≥ 1` (the shift
    `side >> (length - 2)` of `getRotation` needs `length = 2*nbCenterLayers ≥ 2`; `getBullsEyeCorners` gives 5
    or 7), either `compact`, ANY expected-corner-bits table and ANY Reed-Solomon decoder (its failure — of
    whatever kind — is answered with NotFoundException): NotFound or `shift ∈ 0..3`, `nbLayers ≥ 1`,
    `nbDataBlocks ≥ 1` -/
theorem az_extractParameters_total {F : Type} (o : FOps F) (img : Img) (expected : List Nat)
    (rs : AztecDecoder.RSDecoder) (c : AZ.Quad F) (nbCenterLayers : Int) (hnb : 1 ≤ nbCenterLayers) (compact : Bool) :
    Sat OnlyNotFound AZ.GoodParams (AZ.extractParameters o img.rdGo img.w img.h expected rs c nbCenterLayers compact) :=
  AZ.extractParameters_total o (rdGo_ok img) img.w img.h expected rs c nbCenterLayers hnb compact

-- non-vacuity of `hnb`, and the necessity of it: with `nbCenterLayers = 0` the model panics as Go would
example : AZ.extractParameters toyOps squareImg.rdGo 12 12 [] (fun _ ws _ => .ok ws) ⟨⟨6, 6⟩, ⟨6, 6⟩, ⟨6, 6⟩, ⟨6, 6⟩⟩ 5 true
    = .error .notFound := by decide
example : AZ.extractParameters toyOps squareImg.rdGo 12 12 [] (fun _ ws _ => .ok ws) ⟨⟨6, 6⟩, ⟨6, 6⟩, ⟨6, 6⟩, ⟨6, 6⟩⟩ 0 true
    = .error (.panic "negative shift amount in getRotation") := by decide

/-- `getDimension()`: at least 15 for `nbLayers ≥ 1`, so `SampleGrid` gets positive dimensions -/
theorem az_dimension_ge (compact : Bool) (nbLayers : Int) (h : 1 ≤ nbLayers) : 15 ≤ AZ.getDimension compact nbLayers :=
  AZ.getDimension_ge compact nbLayers h

example : AZ.getDimension true 1 = 15 ∧ AZ.getDimension false 1 = 19 ∧ AZ.getDimension false 32 = 151 := by decide

/-- **`Detect(isMirror)` up to the sampling call is total**: matrix centre (C06Det), bull's eye,
    optional mirror swap, parameters, the four `bullsEyeCorners[(shift+i)%4]` accesses (always `0..3`),
    dimension and the matrix corner points — NotFoundException or a located symbol with dimension ≥ 15,
    `shift ∈ 0..3`, `nbLayers ≥ 1`, `nbDataBlocks ≥ 1`; never a panic, every loop bounded. -/
theorem az_detect_total {F : Type} (o : FOps F) (img : Img) (expected : List Nat) (rs : AztecDecoder.RSDecoder)
    (isMirror : Bool) :
    Sat OnlyNotFound AZ.GoodLocated (AZ.detect o img.rdGo img.w img.h expected rs isMirror) :=
  AZ.detect_total o img expected rs isMirror

theorem az_detect_never_panics {F : Type} (o : FOps F) (img : Img) (expected : List Nat) (rs : AztecDecoder.RSDecoder)
    (isMirror : Bool) :
    (∀ why, AZ.detect o img.rdGo img.w img.h expected rs isMirror ≠ .error (.panic why)) ∧
    AZ.detect o img.rdGo img.w img.h expected rs isMirror ≠ .error .fuel :=
  ⟨(az_detect_total o img expected rs isMirror).no_panic onlyNotFound_no_panic,
   (az_detect_total o img expected rs isMirror).no_fuel onlyNotFound_no_fuel⟩

/-! ### non-vacuity: concrete runs of the pieces (toy floats) -/

-- a black square: the segment along its top edge is black, a segment across white and black is neither
example : AZ.getColor toyOps squareImg.rdGo (4, 4) (7, 4) = .ok 1 := by decide
example : AZ.getColor toyOps squareImg.rdGo (0, 0) (3, 0) = .ok (-1) := by decide
example : AZ.getColor toyOps squareImg.rdGo (5, 5) (5, 5) = .ok 0 := by decide
example : AZ.sampleLine toyOps squareImg.rdGo ⟨2, 5⟩ ⟨10, 5⟩ 8 = .ok 0b00111100 := by decide +kernel
end Gzx.Properties.C06DetAz
