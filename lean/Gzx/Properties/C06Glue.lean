/-
  C06 — decoding is total, part "the readers' glue" (work package detrest): hint type assertions and the
  error selection of `AztecReader.Decode`.  Models: Gzx/Model/ReaderGlue.lean, tied to /repo by the
  `c06rest glue*` correspondence commands (harness/zz_detrest_glue.go).
-/
import Gzx.Model.ReaderGlue
namespace Gzx.Properties.C06Glue
open Gzx Gzx.Glue

/-- the repaired UPC/EAN hint prologue is total for ANY hint value: absent, a callback, a typed-nil
    callback or a value of any other dynamic type (ignored) -/
theorem upcean_callback_total (hint : Option HintVal) : ∃ b, upceanCallback hint = .ok b := by
  cases hint with
  | none => exact ⟨false, rfl⟩
  | some v => exact ⟨_, rfl⟩

/-- the callback is invoked exactly when a non-nil `ResultPointCallback` was passed -/
theorem upcean_callback_invoked (hint : Option HintVal) :
    upceanCallback hint = .ok true ↔ hint = some (.callback false) := by
  cases hint with
  | none => simp [upceanCallback]
  | some v =>
    cases v with
    | callback isNil => cases isNil <;> simp [upceanCallback, assertCallbackOk]
    | other t => simp [upceanCallback, assertCallbackOk]

/-- on well-typed hints repair and original agree -/
theorem upcean_callback_agrees (isNil : Bool) :
    upceanCallback (some (.callback isNil)) = upceanCallbackOrig (some (.callback isNil)) ∧
    upceanCallback none = upceanCallbackOrig none := by
  cases isNil <;> exact ⟨rfl, rfl⟩

/-- the code as found: a hint of any other dynamic type is a panic (repaired by the `fix:` commit a853f90; the witness
    `NEED_RESULT_POINT_CALLBACK = true` is replayed on the real code by the hint-typing suite) -/
theorem upcean_callback_orig_panics (t : String) : ∃ why, upceanCallbackOrig (some (.other t)) = .error (.panic why) :=
  ⟨_, rfl⟩

example : ¬ ∃ b, upceanCallbackOrig (some (.other "bool")) = .ok b := by
  intro ⟨b, h⟩; cases h

/-- **`AztecReader.Decode` reports only the documented kinds**: for EVERY detector and decoder behaviour the
    outcome is a result, NotFoundException or FormatException — the `WrapReaderException` fall-back and the
    `decoderResult` dereference after a failed second attempt are unreachable -/
theorem aztec_read_kinds {D R : Type} (detect : Bool → Option D) (decode : D → Option R) :
    aztecRead detect decode ≠ .reader := by
  cases h0 : detect false with
  | none =>
    cases h1 : detect true with
    | none => simp [aztecRead, h0, h1]
    | some d1 => cases h2 : decode d1 <;> simp [aztecRead, h0, h1, h2]
  | some d0 =>
    cases h3 : decode d0 with
    | some r => simp [aztecRead, h0, h3]
    | none =>
      cases h1 : detect true with
      | none => simp [aztecRead, h0, h1, h3]
      | some d1 => cases h2 : decode d1 <;> simp [aztecRead, h0, h1, h2, h3]

/-- a result is what the decoder made of the first successful attempt -/
theorem aztec_read_result {D R : Type} (detect : Bool → Option D) (decode : D → Option R) (r : R)
    (h : aztecRead detect decode = .ok r) :
    (∃ d, detect false = some d ∧ decode d = some r) ∨ (∃ d, detect true = some d ∧ decode d = some r) := by
  cases h0 : detect false with
  | none =>
    cases h1 : detect true with
    | none => simp [aztecRead, h0, h1] at h
    | some d1 =>
      cases h2 : decode d1 with
      | none => simp [aztecRead, h0, h1, h2] at h
      | some r' =>
        simp [aztecRead, h0, h1, h2] at h
        exact Or.inr ⟨d1, rfl, by rw [h2, h]⟩
  | some d0 =>
    cases h3 : decode d0 with
    | some r' =>
      simp [aztecRead, h0, h3] at h
      exact Or.inl ⟨d0, rfl, by rw [h3, h]⟩
    | none =>
      cases h1 : detect true with
      | none => simp [aztecRead, h0, h1, h3] at h
      | some d1 =>
        cases h2 : decode d1 with
        | none => simp [aztecRead, h0, h1, h2, h3] at h
        | some r' =>
          simp [aztecRead, h0, h1, h2, h3] at h
          exact Or.inr ⟨d1, rfl, by rw [h2, h]⟩

-- non-vacuity: the four behaviours
example : aztecRead (fun _ => (none : Option Nat)) (fun d => some d) = .notFound := by decide
example : aztecRead (fun _ => some 1) (fun _ => (none : Option Nat)) = .format := by decide
example : aztecRead (fun m => if m then some 2 else none) (fun d => some d) = .ok 2 := by decide
example : aztecRead (fun m => if m then none else some 1) (fun _ => (none : Option Nat)) = .format := by decide

end Gzx.Properties.C06Glue
