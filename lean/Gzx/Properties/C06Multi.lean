/-
  C06 — decoding is total, part "the multi QR reader" (work package detrest):
    multi/qrcode/detector   MultiFinderPatternFinder.FindMulti / selectMultipleBestPatterns, MultiDetector.DetectMulti
    multi/qrcode            processStructuredAppend
  Models: Gzx/Model/DetMulti.lean, Gzx/Model/MultiSA.lean, tied to /repo by the `c06rest m*` / `c06rest sa`
  correspondence commands (harness/zz_detrest_multi.go).  `sort.Slice` is a parameter of the models: the
  theorems hold for EVERY function that returns a permutation of its argument (Go's sort is not stable;
  the harness checks on every run that the observed result is a descending permutation).
-/
import Gzx.Proofs.DetMulti
import Gzx.Proofs.MultiSA
import Gzx.Properties.C06Det
namespace Gzx.Properties.C06Multi
open Gzx Gzx.Det
open Gzx.Properties.C06Det (toyOps squareImg)

/-- `sort` returns a permutation of its argument -/
def IsPermSort {α : Type} (sort : List α → List α) : Prop := ∀ l, (sort l).Perm l

theorem IsPermSort.length {α : Type} {sort : List α → List α} (h : IsPermSort sort) (l : List α) :
    (sort l).length = l.length := (h l).length_eq

/-- the row scan of `FindMulti` is total for every image (any width / height, also 0 or negative), with
    or without TRY_HARDER, every float interpretation: `stateCount[currentState]` always has
    `0 ≤ currentState ≤ 4`, the row loop ends within `maxI` rounds (`iSkip ≥ 3`) -/
theorem multi_scan_total {F : Type} (o : FOps F) (img : Img) (tryHarder : Bool) :
    Sat NoFault (fun _ => True) (Multi.findMultiScan o img.rdGo img.h img.w tryHarder) :=
  Multi.findMultiScan_sat o (rdGo_ok img) img.h img.w tryHarder

/-- **`selectMultipleBestPatterns` never indexes outside `possibleCenters`**, for ANY list of centres
    (any length, any coordinates and module sizes — zero, infinite, NaN), any permutation-returning
    sort and every float interpretation: the three nested loops `i1 < size-2`, `i2 < size-1`, `i3 < size`
    with their `break`s stay inside the (sorted) slice although `size` was read before sorting;
    the outcome is NotFoundException or a non-empty list of triples -/
theorem multi_select_total {F : Type} (o : FOps F) (sort : List (QR.FP F) → List (QR.FP F)) (hsort : IsPermSort sort)
    (centers : List (QR.FP F)) :
    Sat OnlyNotFound (fun ts => 0 < ts.length) (Multi.selectMultipleBestPatterns o sort centers) :=
  Multi.selectMultipleBestPatterns_sat o sort hsort.length centers

/-- `FindMulti` is total -/
theorem multi_find_total {F : Type} (o : FOps F) (sort : List (QR.FP F) → List (QR.FP F)) (hsort : IsPermSort sort)
    (img : Img) (tryHarder : Bool) :
    Sat OnlyNotFound (fun ts => 0 < ts.length) (Multi.findMulti o sort img.rdGo img.h img.w tryHarder) := by
  unfold Multi.findMulti
  refine sat_bind_true (Sat.mono (multi_scan_total o img tryHarder) (fun _ h => h.elim) (fun _ h => h)) ?_
  intro centers
  exact Multi.selectAndOrder_sat o sort hsort.length centers

/-- **`DetectMulti` up to the sampling calls is total**: scan, selection, `ProcessFinderPatternInfo` for
    every triple (NotFound / Format of one triple is skipped) — NotFoundException or a list of located
    symbols, each with a dimension 21..177 that is 1 mod 4 (what `SampleGrid`, C19, is then given) -/
theorem multi_detect_total {F : Type} (o : FOps F) (sort : List (QR.FP F) → List (QR.FP F)) (hsort : IsPermSort sort)
    (img : Img) (tryHarder : Bool) :
    Sat OnlyNotFound (fun ls => ∀ l ∈ ls, Int.tmod l.dimension 4 = 1 ∧ 21 ≤ l.dimension ∧ l.dimension ≤ 177)
      (Multi.detectMulti o sort img.rdGo img.w img.h tryHarder) :=
  Multi.detectMulti_sat o sort hsort.length (rdGo_ok img) img.w img.h tryHarder

theorem multi_detect_never_panics {F : Type} (o : FOps F) (sort : List (QR.FP F) → List (QR.FP F)) (hsort : IsPermSort sort)
    (img : Img) (tryHarder : Bool) :
    (∀ why, Multi.detectMulti o sort img.rdGo img.w img.h tryHarder ≠ .error (.panic why)) ∧
    Multi.detectMulti o sort img.rdGo img.w img.h tryHarder ≠ .error .fuel :=
  ⟨(multi_detect_total o sort hsort img tryHarder).no_panic onlyNotFound_no_panic,
   (multi_detect_total o sort hsort img tryHarder).no_fuel onlyNotFound_no_fuel⟩

/-- non-vacuity of `IsPermSort`: the insertion sort the driver runs (what `sort.Slice` does below 12
    elements) returns a permutation, for every float interpretation; so does the identity -/
theorem insertion_sort_is_perm {F : Type} (o : FOps F) : IsPermSort (Multi.sortBySizeDesc o) :=
  fun l => Multi.sortBySizeDesc_perm o l

example : IsPermSort (id : List (QR.FP Int) → List (QR.FP Int)) := fun _ => List.Perm.refl _

/-- the permutation hypothesis is needed: with a "sort" that drops an element the loops do index beyond
    the slice (four centres, `size = 4` read before sorting) -/
def outcome {α : Type} : Res α → String
  | .ok _ => "ok"
  | .error e => e.tag

example : outcome (Multi.selectMultipleBestPatterns toyOps (fun l => l.drop 1)
    [⟨0, 0, 1, 1⟩, ⟨10, 0, 1, 1⟩, ⟨0, 10, 1, 1⟩, ⟨10, 10, 1, 1⟩]) = "PANIC" := by decide +kernel

-- three centres are taken as they are; with four the loops run (the toy floats have 0.1 = 0, so every triple is
-- rejected by `vABBC >= 0.1` and the answer is NotFound — without any index fault)
example : (Multi.selectMultipleBestPatterns toyOps id
    [⟨0, 0, 1, 1⟩, ⟨14, 0, 1, 1⟩, ⟨0, 14, 1, 1⟩]).toOption.map List.length = some 1 := by decide +kernel
example : outcome (Multi.selectMultipleBestPatterns toyOps id
    [⟨0, 0, 1, 1⟩, ⟨14, 0, 1, 1⟩, ⟨0, 14, 1, 1⟩, ⟨14, 14, 1, 1⟩]) = "notfound" := by decide +kernel
example : outcome (Multi.selectMultipleBestPatterns toyOps id [⟨0, 0, 1, 1⟩, ⟨14, 0, 1, 1⟩]) = "notfound" := by decide +kernel

/-! ## processStructuredAppend -/

/-- **`processStructuredAppend` never panics, for ANY list of results with ANY metadata and ANY sort
    function** (not even a permutation is needed: lengths are taken after sorting), and it computes exactly:
    the results without STRUCTURED_APPEND_SEQUENCE unchanged and in order, followed by ONE result whose
    text / raw bytes / byte segments are the concatenations over the sorted structured-append results, with
    no result points, and BYTE_SEGMENTS metadata only if some segment byte exists.  The two-pass
    buffer filling (`make` with summed lengths, `copy(dst[index:], src)`) never slices beyond a buffer. -/
theorem sa_process_total (sort : List MultiSA.Result → List MultiSA.Result) (results : List MultiSA.Result) :
    MultiSA.process sort results =
      .ok (if results.any MultiSA.Result.hasSA
           then results.filter (fun r => !r.hasSA) ++ [MultiSA.merged (sort (results.filter MultiSA.Result.hasSA))]
           else results) :=
  MultiSA.process_eq sort results

theorem sa_process_never_panics (sort : List MultiSA.Result → List MultiSA.Result) (results : List MultiSA.Result) :
    ∀ why, MultiSA.process sort results ≠ .error (.panic why) := by
  intro why h
  rw [sa_process_total] at h
  cases h

/-- `DecodeMultiple` after `DetectMulti` (decode every located symbol, skip the undecodable ones, merge the
    structured-append parts) never panics, for every list of decoder outcomes and every sort -/
theorem multi_decode_total (sort : List MultiSA.Result → List MultiSA.Result) (drs : List (Option MultiSA.DecRes × Nat)) :
    ∃ out, MultiSA.decodeMultiple sort drs = .ok out := by
  unfold MultiSA.decodeMultiple
  simp only []
  split
  · rw [sa_process_total]; exact ⟨_, rfl⟩
  · exact ⟨_, rfl⟩

example : MultiSA.decodeMultiple MultiSA.sortBySeq
    [(some ⟨[66], [2], none, true, some (1, 7)⟩, 3), (none, 4), (some ⟨[65], [1], some [[9]], true, some (0, 7)⟩, 4)]
    = .ok [⟨[65, 66], [1, 2], 0, [(2, .segs [[9]])]⟩] := by decide

-- three parts arriving as 2, 0, 1 with a plain result in between; a wrongly typed sequence value counts as 0
example : MultiSA.process MultiSA.sortBySeq
    [⟨[67], [3], 4, [(9, .int 2)]⟩, ⟨[88], [9], 3, []⟩, ⟨[65], [1], 4, [(2, .segs [[7], []]), (9, .other "string")]⟩,
     ⟨[66], [2], 4, [(9, .int 1)]⟩]
    = .ok [⟨[88], [9], 3, []⟩, ⟨[65, 66, 67], [1, 2, 3], 0, [(2, .segs [[7]])]⟩] := by decide

end Gzx.Properties.C06Multi
