/-
  C06 — decoding is total, part "the pure-barcode path of the image-level readers" (work package detrest):
  `QRCodeReader.extractPureBits` / `moduleSize` (qrcode/qrcode_reader.go) and the Data Matrix
  `extractPureBits` / `moduleSize` (datamatrix/datamatrix_reader.go) on EVERY bit matrix.

  Models: Gzx/Model/PureBits.lean, tied to /repo by the `c06rest` correspondence commands
  (harness/zz_detrest_pure.go).  As in Properties/C06Det: `image.Get` is a `Reader`;
    * `Img.rdGo`     — the bounds-checked `BitMatrix.Get` of this tree (answers false outside);
    * `Img.rdStrict` — an unguarded `Get`: reading outside `[0,w) × [0,h)` is a panic.
  `…_total` theorems are about `rdGo` (the code as it is) and hold for every interpretation `FOps` of
  float64; `…_in_bounds` theorems are about `rdStrict`: no read leaves the image, i.e. the algorithm
  does not rely on the guard inside `Get`.  In both, the dropped error of `bits, _ := NewBitMatrix(…)`,
  every `bits.Set(x, y)` and every integer division are panics of the model unless proved safe.
-/
import Gzx.Proofs.PureBits
import Gzx.Properties.C06Det
namespace Gzx.Properties.C06Pure
open Gzx Gzx.Det Gzx.Det.Pure
open Gzx.Properties.C06Det (toyOps)

/-! ## GetTopLeftOnBit / GetBottomRightOnBit -/

/-- the corner scans return a SET cell INSIDE the image (or nil): `leftTopBlack[0..1]`,
    `rightBottomBlack[0..1]` are coordinates with `0 ≤ x < width`, `0 ≤ y < height` -/
theorem pure_corners_inside (img : Img) :
    (∀ p, topLeft img = some p → img.inside p.1 p.2 ∧ img.pix p.1 p.2 = true) ∧
    (∀ p, bottomRight img = some p → img.inside p.1 p.2 ∧ img.pix p.1 p.2 = true) :=
  ⟨fun p h => topLeft_spec img p h, fun p h => bottomRight_spec img p h⟩

/-! ## Data Matrix -/

/-- **Data Matrix `extractPureBits` reads only inside the image and never panics — for every image**
    (any width / height, also 0 or negative; all-black, 1xN, a single pixel in a corner, the last set
    cell left of / above the first one …), with an UNGUARDED `Get`: the outcome is NotFoundException or a
    well-formed matrix (`1 ≤ w`, `1 ≤ h`, exactly `h` rows of `w` cells).  Covered on the way: the
    module-size walk stops before `x == width`; `moduleSize ≠ 0` at both divisions; `NewBitMatrix` gets
    positive dimensions (its dropped error cannot occur); every sampled pixel
    `(left + nudge + x*ms, top + nudge + y*ms)` lies in `[left, right] × [top, bottom]`; every
    `bits.Set(x, y)` is inside the new matrix. -/
theorem dm_pure_in_bounds (img : Img) :
    Sat OnlyNotFound Bits.WF (DM.extractPureBits img.rdStrict img) :=
  DM.extractPureBits_sat img (rdStrict_ok img)

/-- the same for the code as it is (bounds-checked `Get`) -/
theorem dm_pure_total (img : Img) :
    Sat OnlyNotFound Bits.WF (DM.extractPureBits img.rdGo img) :=
  DM.extractPureBits_sat img (fun x y _ => rdGo_ok img x y trivial)

/-- the statement of C06 spelled out: never a panic, never out of fuel, result xor NotFound -/
theorem dm_pure_never_panics (img : Img) :
    (∀ why, DM.extractPureBits img.rdGo img ≠ .error (.panic why)) ∧
    DM.extractPureBits img.rdGo img ≠ .error .fuel ∧
    ((∃ b, DM.extractPureBits img.rdGo img = .ok b ∧ b.WF) ∨ DM.extractPureBits img.rdGo img = .error .notFound) := by
  have h := dm_pure_total img
  refine ⟨h.no_panic onlyNotFound_no_panic, h.no_fuel onlyNotFound_no_fuel, ?_⟩
  cases hr : DM.extractPureBits img.rdGo img with
  | ok b => rw [hr] at h; exact Or.inl ⟨b, rfl, h⟩
  | error e => rw [hr] at h; exact Or.inr (by rw [show e = Fault.notFound from h])

/-- Data Matrix `moduleSize` from ANY start (also outside the image): a module size `≠ 0` or NotFound -/
theorem dm_module_size_total (img : Img) (left top : Int) :
    Sat OnlyNotFound (fun ms => ms ≠ 0) (DM.moduleSize img.rdGo img.w left top) := by
  unfold DM.moduleSize
  refine sat_bind_true (walk_up_total (rdGo_ok img) _ _ _ _ _ _) ?_
  intro r
  simp only []
  split
  · exact rfl
  · split
    · exact rfl
    · rename_i h; exact Sat.ok h

/-! ### non-vacuity: images on which a matrix is read off / nothing is found -/

/-- 6x6: a 2x2-pixel-per-module rendering of the 2x2 module pattern `10 / 01`, one pixel of quiet zone -/
def dmToy : Img :=
  { w := 6, h := 6, pix := fun x y => decide ((1 ≤ x ∧ x ≤ 2 ∧ 1 ≤ y ∧ y ≤ 2) ∨ (3 ≤ x ∧ x ≤ 4 ∧ 3 ≤ y ∧ y ≤ 4)) }

def allBlack3 : Img := { w := 3, h := 3, pix := fun _ _ => true }
/-- the last set cell lies LEFT of the first one -/
def backwards : Img := { w := 3, h := 2, pix := fun x y => decide ((x = 2 ∧ y = 0) ∨ (x = 0 ∧ y = 1)) }
def onePixel : Img := { w := 1, h := 1, pix := fun _ _ => true }

example : DM.extractPureBits dmToy.rdStrict dmToy = .ok { w := 2, h := 2, rows := [[true, false], [false, true]] } := by decide
example : DM.extractPureBits allBlack3.rdStrict allBlack3 = .error .notFound := by decide
-- negative width: NotFound (no panic)
example : DM.extractPureBits backwards.rdStrict backwards = .error .notFound := by decide

/-! ## QR -/

/-- **QR `extractPureBits` is total — for every image and EVERY interpretation of float64**: no panic
    (the float module size, `MathUtils_Round`, the nudge and the un-nudge corrections may come out as
    anything — `matrixWidth ≤ 0` is rejected before `NewBitMatrix`, whose error is dropped; the loops run
    `x < matrixWidth`, `y < matrixHeight`, so every `bits.Set` is inside), the diagonal walk of
    `moduleSize` ends within `width - left` steps; the outcome is NotFoundException or a well-formed
    SQUARE matrix. -/
theorem qr_pure_total {F : Type} (o : FOps F) (img : Img) :
    Sat OnlyNotFound (fun b => b.WF ∧ b.w = b.h) (QR.extractPureBits o img.rdGo img) :=
  QR.extractPureBits_total o (rdGo_ok img) img

theorem qr_pure_never_panics {F : Type} (o : FOps F) (img : Img) :
    (∀ why, QR.extractPureBits o img.rdGo img ≠ .error (.panic why)) ∧
    QR.extractPureBits o img.rdGo img ≠ .error .fuel ∧
    ((∃ b, QR.extractPureBits o img.rdGo img = .ok b ∧ b.WF ∧ b.w = b.h) ∨
      QR.extractPureBits o img.rdGo img = .error .notFound) := by
  have h := qr_pure_total o img
  refine ⟨h.no_panic onlyNotFound_no_panic, h.no_fuel onlyNotFound_no_fuel, ?_⟩
  cases hr : QR.extractPureBits o img.rdGo img with
  | ok b => rw [hr] at h; exact Or.inl ⟨b, rfl, h⟩
  | error e => rw [hr] at h; exact Or.inr (by rw [show e = Fault.notFound from h])

/-- QR `moduleSize` from ANY start (also outside the image): a float or NotFound -/
theorem qr_module_size_total {F : Type} (o : FOps F) (img : Img) (left top : Int) :
    Sat OnlyNotFound (fun _ => True) (QR.moduleSize o img.rdGo img.w img.h left top) :=
  QR.moduleSize_total o (rdGo_ok img) img.w img.h left top

/-- **QR `extractPureBits` reads only inside the image**, with an UNGUARDED `Get`, for every image up to
    `N x N` and every float interpretation that is `PureFloat o N` (half-module nudge not negative; sample
    offsets `int(float64(a)*moduleSize)` non-negative and monotone over the indices used — true of IEEE
    binary64 for `N ≤ 2^31`; the correspondence command `qrpurestrict` checks it on every tested image).
    The module size is `float64(k)/7.0` with `k ≥ 1` because the walk starts on a set cell; the
    "nudged too far" corrections are exactly what keeps `left + offs(matrixWidth-1) ≤ right`. -/
theorem qr_pure_in_bounds {F : Type} (o : FOps F) (img : Img) (N : Int) (hN : img.w ≤ N ∧ img.h ≤ N)
    (hf : QR.PureFloat o N) :
    Sat OnlyNotFound (fun b => b.WF ∧ b.w = b.h) (QR.extractPureBits o img.rdStrict img) := by
  refine QR.extractPureBits_in_bounds o img N hN hf ?_
  intro x y ⟨h1, h2, h3, h4⟩
  have : img.outside x y = false := by
    simp only [Img.outside, Bool.or_eq_false_iff, decide_eq_false_iff_not]
    omega
  simp [Img.rdStrict, this]

/-- non-vacuity of `PureFloat`: the integer toy interpretation satisfies it for every `N` -/
theorem toy_pureFloat (N : Int) : QR.PureFloat toyOps N := by
  constructor
  · intro k hk _
    show 0 ≤ Int.tdiv (Int.tdiv k 7) 2
    exact Int.tdiv_nonneg (Int.tdiv_nonneg (by omega) (by decide)) (by decide)
  · intro k n a b hk _ _ _ ha hab _
    show 0 ≤ a * Int.tdiv k 7 ∧ a * Int.tdiv k 7 ≤ b * Int.tdiv k 7
    have h7 : 0 ≤ Int.tdiv k 7 := Int.tdiv_nonneg (by omega) (by decide)
    exact ⟨Int.mul_nonneg ha h7, Int.mul_le_mul_of_nonneg_right hab h7⟩

/-- 9x9: one 7x7 "module size 1" block pattern with a one-pixel quiet zone; under the toy floats the
    module size is 7/7 = 1 and a 7x7 matrix is read off -/
def qrToy : Img :=
  { w := 9, h := 9, pix := fun x y =>
      decide (1 ≤ x ∧ x ≤ 7 ∧ 1 ≤ y ∧ y ≤ 7 ∧ ¬ (2 ≤ x ∧ x ≤ 6 ∧ 2 ≤ y ∧ y ≤ 6 ∧ ¬ (3 ≤ x ∧ x ≤ 5 ∧ 3 ≤ y ∧ y ≤ 5))) }

example : (QR.extractPureBits toyOps qrToy.rdStrict qrToy).toOption.map (fun b => (b.w, b.h)) = some (7, 7) := by decide
example : QR.extractPureBits toyOps onePixel.rdStrict onePixel = .error .notFound := by decide
/-- the float hypothesis of `qr_pure_in_bounds` cannot be dropped: under an interpretation whose `int(…)` is not
    monotone (3 ↦ 50) the sampling loop reads `(1 + 50, …)` outside the 9x9 image — a panic with an unguarded
    `Get`, while the code as it is (guarded `Get`) still answers (`qr_pure_total`) -/
def badOps : FOps Int := { toyOps with toInt := fun a => if a = 3 then 50 else a }

def outcome {α : Type} : Res α → String
  | .ok _ => "ok"
  | .error e => e.tag

example : outcome (QR.extractPureBits badOps qrToy.rdStrict qrToy) = "PANIC" := by decide +kernel
example : outcome (QR.extractPureBits badOps qrToy.rdGo qrToy) = "ok" := by decide +kernel
example : ¬ QR.PureFloat badOps 9 := by
  intro h
  have := (h.sample_mono 7 8 3 4 (by decide) (by decide) (by decide) (by decide) (by decide) (by decide) (by decide)).2
  exact absurd this (by decide)

-- the hypotheses of `qr_pure_in_bounds` are satisfiable together: the toy floats on the 9x9 image
example : Sat OnlyNotFound (fun b => b.WF ∧ b.w = b.h) (QR.extractPureBits toyOps qrToy.rdStrict qrToy) :=
  qr_pure_in_bounds toyOps qrToy 9 ⟨by decide, by decide⟩ (toy_pureFloat 9)

/-! ## the readers' glue -/

/-- what a matrix decoder may answer -/
def DecodeFault : Fault → Prop := fun e => e = .notFound ∨ e = .format ∨ e = .checksum

/-- **`Decode` with PURE_BARCODE is total** whenever the matrix decoder is total on well-formed
    matrices (`qr_decode_total`, `dm_decode_total` of Properties/C06): the composition
    `extractPureBits → decoder.Decode` answers a result or NotFound / Format / Checksum, never a panic. -/
theorem pure_decode_total {α : Type} (extract : Res Bits) (decode : Bits → Res α) (P : Bits → Prop)
    (hx : Sat OnlyNotFound P extract) (hd : ∀ b, P b → Sat DecodeFault (fun _ => True) (decode b)) :
    Sat DecodeFault (fun _ => True) (pureDecode extract decode) := by
  unfold pureDecode
  exact Sat.bind (Sat.mono hx (fun e h => Or.inl h) (fun _ h => h)) hd

theorem pure_decode_never_panics {α : Type} (extract : Res Bits) (decode : Bits → Res α) (P : Bits → Prop)
    (hx : Sat OnlyNotFound P extract) (hd : ∀ b, P b → Sat DecodeFault (fun _ => True) (decode b)) :
    ∀ why, pureDecode extract decode ≠ .error (.panic why) :=
  (pure_decode_total extract decode P hx hd).no_panic
    (fun w h => by rcases h with h | h | h <;> cases h)

-- non-vacuity: the Data Matrix extraction with a decoder that answers FormatException on everything
example : Sat DecodeFault (fun _ => True) (pureDecode (DM.extractPureBits dmToy.rdGo dmToy) (fun _ => (.error .format : Res Unit))) :=
  pure_decode_total _ _ Bits.WF (dm_pure_total dmToy) (fun _ _ => Or.inr (Or.inl rfl))
example : pureDecode (DM.extractPureBits dmToy.rdGo dmToy) (fun _ => (.error .format : Res Unit)) = .error .format := by decide

end Gzx.Properties.C06Pure
