/-
  C06 — the pure-barcode READ path end to end (work package detrest): `extractPureBits` composed with the
  matrix decoders whose totality Properties/C06.lean proves (wp-total2):

    QRCodeReader.Decode(PURE_BARCODE)     = QR extractPureBits  → Decoder.Decode            (qr_decode_total)
    DataMatrixReader.Decode(PURE_BARCODE) = DM extractPureBits  → BitMatrixParser / readCodewords /
                                                                   getDataBlocks            (dm_decode_total)

  For EVERY image (and for QR every float interpretation) the composition answers a result or
  NotFound / Format / Checksum — never a panic, never out of fuel.  The matrix read off is handed over in
  the decoder models' own representation (`toQR`, `toGrid`).
-/
import Gzx.Properties.C06
import Gzx.Properties.C06Pure
namespace Gzx.Properties.C06PureRead
open Gzx Gzx.Det Gzx.Det.Pure
open Gzx.Properties.C06Pure (DecodeFault pure_decode_total qr_pure_total dm_pure_total)

/-- the matrix read off as the QR decoder model's (square) matrix -/
def toQR (b : Bits) : QRDec.Matrix :=
  ⟨b.w.toNat, fun x y => ((b.rows[y]?).bind (·[x]?)).getD false⟩

/-- **QR `Decode` with PURE_BARCODE is total** (up to the construction of the `Result`): for every image,
    every float interpretation, every hint, arbitrary format / version look-up tables and ECI registry,
    given the two decidable facts about VERSIONS that `Obligations.C06` checks on every run and a
    Reed-Solomon decoder that does not panic (C04: `rs_decode_total`) -/
theorem qr_pure_read_total {F : Type} (o : FOps F) (img : Img)
    (T : QRDec.Tables) (hT : QRDec.wfVersions T.versions = true)
    (hfit : T.versions.all Proofs.TotalQRFit.cwFitsB = true)
    (rs : List Nat → Nat → Res (List Nat)) (hrs : ∀ cw n w, rs cw n ≠ .error (.panic w)) (hint : ECI.Hint) :
    Sat DecodeFault (fun _ => True)
      (pureDecode (QR.extractPureBits o img.rdGo img) (fun b => QRDec.decode T rs hint (toQR b))) := by
  refine pure_decode_total _ _ (fun _ => True) (Sat.mono (qr_pure_total o img) (fun _ h => h) (fun _ _ => trivial)) ?_
  intro b _
  rcases C06.qr_decode_total T hT hfit rs hrs hint (toQR b) with ⟨d, h⟩ | h | h <;> rw [h]
  · exact Sat.ok trivial
  · exact Or.inr (Or.inl rfl)
  · exact Or.inr (Or.inr rfl)

theorem qr_pure_read_never_panics {F : Type} (o : FOps F) (img : Img)
    (T : QRDec.Tables) (hT : QRDec.wfVersions T.versions = true)
    (hfit : T.versions.all Proofs.TotalQRFit.cwFitsB = true)
    (rs : List Nat → Nat → Res (List Nat)) (hrs : ∀ cw n w, rs cw n ≠ .error (.panic w)) (hint : ECI.Hint) :
    ∀ why, pureDecode (QR.extractPureBits o img.rdGo img) (fun b => QRDec.decode T rs hint (toQR b)) ≠ .error (.panic why) :=
  (qr_pure_read_total o img T hT hfit rs hrs hint).no_panic (fun w h => by rcases h with h | h | h <;> cases h)

-- non-vacuity of the hypotheses: `hT` / `hfit` are the per-run obligations `Obligations.C06.versions_wf` /
-- `versions_fit` about the table regenerated from /repo; `hrs` holds e.g. of a decoder that always fails …
example : ∀ (cw : List Nat) (n : Nat) (w : String), (fun _ _ => (.error .checksum : Res (List Nat))) cw n ≠ .error (.panic w) := by
  intro _ _ _ h; cases h
-- … and of the verified Reed-Solomon model on in-range words (C04 `rs_decode_total`)

/-- the matrix read off as the Data Matrix decoder model's grid (row-major cell array) -/
def toGrid (b : Bits) : DMDec.BitGrid := ⟨b.w.toNat, b.h.toNat, b.rows.flatten.toArray⟩

theorem flatten_length_const {α : Type} (n : Nat) : ∀ (rows : List (List α)), (∀ r ∈ rows, r.length = n) →
    rows.flatten.length = n * rows.length := by
  intro rows
  induction rows with
  | nil => intro _; simp
  | cons r rs ih =>
    intro h
    simp only [List.flatten_cons, List.length_append, List.length_cons]
    rw [h r (by simp), ih (fun x hx => h x (by simp [hx])), Nat.mul_succ]
    omega

/-- a well-formed read-off satisfies the representation invariant `dm_decode_total` needs -/
theorem toGrid_size (b : Bits) (hb : b.WF) : (toGrid b).bits.size = (toGrid b).width * (toGrid b).height := by
  obtain ⟨_, _, hl, hr⟩ := hb
  simp only [toGrid, List.size_toArray]
  rw [flatten_length_const b.w.toNat b.rows hr, hl]

/-- the Data Matrix matrix chain after the read-off -/
def dmChain (g : DMDec.BitGrid) : Res (List (Nat × List Nat)) := do
  let (v, m) ← DMDec.newBitMatrixParser DMDec.versions g
  let cws ← DMDec.readCodewords v m
  DMDec.getDataBlocks cws v

/-- **Data Matrix `Decode` with PURE_BARCODE is total up to the data blocks**: for every image the read-off
    followed by `NewBitMatrixParser`, `readCodewords` and `DataBlocks_getDataBlocks` answers the blocks,
    NotFound (nothing to read off) or Format (dimensions no version has) — never a panic -/
theorem dm_pure_read_total (img : Img) :
    Sat DecodeFault (fun _ => True)
      (pureDecode (DM.extractPureBits img.rdGo img) (fun b => dmChain (toGrid b))) := by
  refine pure_decode_total _ _ Bits.WF (dm_pure_total img) ?_
  intro b hb
  unfold dmChain
  rcases C06.dm_decode_total_versions (toGrid b) (toGrid_size b hb) with h | ⟨v, m, cws, blocks, h1, _, h3, _, h5⟩
  · rw [h]; exact Or.inr (Or.inl rfl)
  · rw [h1]
    simp only [bind, Except.bind, h3, h5]
    exact Sat.ok trivial

end Gzx.Properties.C06PureRead
