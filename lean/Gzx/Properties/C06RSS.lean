/-
  C06 (wp rowsrest) — decoding is total: the RSS-14 row reader (oned/rss), the one reader whose instance state
  (`possibleLeftPairs` / `possibleRightPairs`) persists between rows.

  Model: Gzx/Model/RSS14.lean — `rss14Reader.DecodeRow` with `decodePair`, `findFinderPattern`, `parseFoundFinderPattern`,
  `decodeDataCharacter` (RecordPattern / RecordPatternInReverse with their error results ignored, as coded),
  `adjustOddEvenCounts`, `RSSReader_increment/decrement`, `RSSUtils_getRSSvalue`, `combins`, `addOrTally`,
  `checkChecksum`, `constructResult`, `Reset`; the pair history is an explicit `State` threaded through a sequence of
  calls (`run`).  Tied to /repo/oned/rss by suite `rowsrest-rss-*` (driver `c06rows rss`), tables by
  Obligations/C06Rows.lean.

  The theorems hold for EVERY row (any length ≥ 0), every row sequence, every history (no invariant on the state is
  needed), every interpretation `FOps` of float64 (so NaN from an all-zero counter set, the rounding of
  `value + 0.5`, the order of the rounding errors do not matter) and every table set of the right shape (`wfRSS`).
-/
import Gzx.Proofs.RSS14History
namespace Gzx.Properties.C06RSS
open Gzx Gzx.Det Gzx.RSS14 Gzx.Proofs.RSS14Total

/-- decidable shape condition on the RSS-14 tables (per-run obligation `gen_rss_tables_wf`) -/
abbrev wfRSS (T : Tables) : Bool := Gzx.Proofs.RSS14Total.wfRSS T

/-- **C06, RSS-14 `DecodeRow`.**  For every pair history the instance may hold, every row, row number and
    result-point-callback hint: a result or NotFoundException — never a panic (every `row.Get` of the finder search,
    of the backwards walk to element 1 and of the two RecordPattern scans stays inside `[0, size)`; no index of the
    counter arrays, of the rounding-error arrays, of the group tables or of the result buffer leaves its slice; no
    division by zero in `combins`), never out of fuel. -/
theorem rss14_decodeRow_total {F : Type} (o : FOps F) (T : Tables) (wf : wfRSS T = true) (st : State) (rn : Int)
    (row : List Bool) (cb : Bool) :
    (∃ res, (decodeRow o T st rn row cb).2.2 = .ok res) ∨ (decodeRow o T st rn row cb).2.2 = .error .notFound :=
  decodeRow_total o T (wfRSS_iff wf) st rn row cb

/-- **C06, RSS-14, every row SEQUENCE.**  Every outcome of every sequence of `DecodeRow` / `Reset` calls on one reader
    instance, started from any history, is a result or NotFoundException. -/
theorem rss14_run_total {F : Type} (o : FOps F) (T : Tables) (wf : wfRSS T = true) (st : State) (ops : List Op) :
    ∀ out ∈ (run o T st ops).1, (∃ res, out.2 = .ok res) ∨ out.2 = .error .notFound :=
  run_total o T (wfRSS_iff wf) ops st

/-- `decodePair` alone (one half of a row): a pair or nil, never a fault -/
theorem rss14_decodePair_total {F : Type} (o : FOps F) (T : Tables) (wf : wfRSS T = true) (row : List Bool)
    (right : Bool) (rn : Int) (cb : Bool) : ∃ p, (decodePair o T row right rn cb).2 = .ok p :=
  decodePair_ok o T (wfRSS_iff wf) row right rn cb

/-- `findFinderPattern` on every row: `start ≤ end < size` or NotFound -/
theorem rss14_findFinderPattern_total {F : Type} (o : FOps F) (row : List Bool) (right : Bool) :
    (∃ s e cs, findFinderPattern o row right = .ok ((s, e), cs) ∧ s ≤ e ∧ e < row.length) ∨
      findFinderPattern o row right = .error .notFound := by
  have := findFinderPattern_sat o row right
  cases hr : findFinderPattern o row right with
  | ok r => rw [hr] at this; exact Or.inl ⟨r.1.1, r.1.2, r.2, rfl, this⟩
  | error e => rw [hr] at this; exact Or.inr (congrArg _ this)

/-- `RSSUtils_getRSSvalue` and `combins` on ANY arguments (zero, negative, too wide widths included) return a value -/
theorem rss_getRSSvalue_total (widths : List Int) (maxWidth : Int) (noNarrow : Bool) :
    ∃ v, getRSSvalue widths maxWidth noNarrow = .ok v := getRSSvalue_ok widths maxWidth noNarrow

theorem rss_combins_total (n r : Int) : ∃ v, combins n r = .ok v := combins_ok n r

/-- `constructResult` for any two pairs: the 13-character buffer the check-digit loop reads always exists -/
theorem rss14_constructResult_total (l r : Pair) : ∃ res, constructResult l r = .ok res := constructResult_ok l r

/-- `Reset` forgets the history: what follows does not depend on what came before -/
theorem rss14_reset_forgets {F : Type} (o : FOps F) (T : Tables) (st st' : State) (ops : List Op) :
    run o T st (.reset :: ops) = run o T st' (.reset :: ops) := rfl

/-- **History: three sightings.**  A reader with an empty history (fresh, or after `Reset`) answers NotFoundException
    to its first TWO `DecodeRow` calls whatever the rows are — a pair is reported only when it has been tallied three
    times (`count > 1`, the count starting at 0).  (That the third call can succeed is what suite `rowsrest-rss-seq`
    observes on synthetic symbols.) -/
theorem rss14_fresh_reader_two_rows_not_found {F : Type} (o : FOps F) (T : Tables) (wf : wfRSS T = true)
    (rn1 rn2 : Int) (row1 row2 : List Bool) (cb1 cb2 : Bool) :
    (decodeRow o T State.empty rn1 row1 cb1).2.2 = .error .notFound ∧
    (decodeRow o T (decodeRow o T State.empty rn1 row1 cb1).1 rn2 row2 cb2).2.2 = .error .notFound := by
  have hw := wfRSS_iff wf
  refine ⟨(decodeRow_notFound_of_counts o T hw State.empty rn1 row1 cb1 (fun p hp => by simp [State.empty] at hp)).1, ?_⟩
  exact (decodeRow_notFound_of_counts o T hw _ rn2 row2 cb2 (decodeRow_empty_counts o T hw rn1 row1 cb1)).1

/-- the same inside any call sequence: the two calls after a `Reset` are NotFound -/
theorem rss14_after_reset_two_rows_not_found {F : Type} (o : FOps F) (T : Tables) (wf : wfRSS T = true) (st : State)
    (rn1 rn2 : Int) (row1 row2 : List Bool) (cb1 cb2 : Bool) (ops : List Op) :
    ∃ t1 t2 rest, (run o T st (.reset :: .row rn1 row1 cb1 :: .row rn2 row2 cb2 :: ops)).1 =
      (t1, .error .notFound) :: (t2, .error .notFound) :: rest := by
  have h := rss14_fresh_reader_two_rows_not_found o T wf rn1 rn2 row1 row2 cb1 cb2
  simp only [run]
  rw [h.1, h.2]
  exact ⟨_, _, _, rfl⟩

/-- **History invariant**: pairs are remembered by value — if the remembered left (right) values are pairwise distinct
    before a call they are after it, and a call adds at most one pair to each list (so the lists grow at most
    linearly in the number of rows since the last `Reset`). -/
theorem rss14_history_invariant {F : Type} (o : FOps F) (T : Tables) (wf : wfRSS T = true) (st : State) (rn : Int)
    (row : List Bool) (cb : Bool)
    (hl : (st.left.map (·.value)).Nodup) (hr : (st.right.map (·.value)).Nodup) :
    let st' := (decodeRow o T st rn row cb).1
    (st'.left.map (·.value)).Nodup ∧ (st'.right.map (·.value)).Nodup ∧
      st'.left.length ≤ st.left.length + 1 ∧ st'.right.length ≤ st.right.length + 1 := by
  have hw := wfRSS_iff wf
  obtain ⟨lp, hlp⟩ := decodePair_ok o T hw row false rn cb
  obtain ⟨rp, hrp⟩ := decodePair_ok o T hw row.reverse true rn cb
  simp only [decodeRow, hlp, hrp]
  have h1 := addOrTally_nodup hl lp
  have h2 := addOrTally_nodup hr rp
  exact ⟨h1.1, h2.1, h1.2, h2.2⟩

/-! ### non-vacuity -/

example : wfRSS refTables = true := by decide
/-- combinations as the standard's listing computes them -/
example : combins 10 3 = .ok 120 ∧ combins 5 0 = .ok 1 ∧ combins 4 2 = .ok 6 := by decide
example : getRSSvalue [2, 1, 3, 2] 6 false = .ok 17 := by decide
/-- the shape hypothesis is needed: with a three-run finder pattern the variance computation indexes past it -/
example : parseFinderValue FOps.float [1, 2, 3, 4] [[3, 8, 2]] 0 = .error (.panic "pattern[i] out of range") := by
  simp [parseFinderValue]

end Gzx.Properties.C06RSS
