/-
  wp rowsrest — RSSUtils against the standard (secondary): the model of the library's `RSSUtils_getRSSvalue`
  (Gzx/Model/RSS14.lean, tied to the Go function on its whole reachable domain by suite `rowsrest-rss-utils`) is the
  INVERSE of the standard's `getRSSwidths` (Gzx/Ref/RSS14.lean, ISO/IEC 24724 Annex B) on all eighteen element subsets of
  RSS-14 (value → widths → value is the identity for every data character the symbology has), with widths that obey the
  sum / widest-element / narrow-element rules of the characteristic tables.  Finite statements, evaluated by the kernel.
-/
import Gzx.Model.RSS14
import Gzx.Ref.RSS14
namespace Gzx.Properties.C06RSSRef
open Gzx

/-- (modules, widest element, a 1-module element required, number of tuples) -/
structure Subset where
  n : Nat
  widest : Nat
  narrow : Bool
  count : Nat

/-- the eighteen subsets: odd and even elements of the five outside and four inside groups -/
def subsets : List Subset :=
  (Ref.RSS14.outsideGroups.zip [161, 80, 31, 10, 1]).flatMap (fun (g, oddCount) =>
    [⟨g.oddModules, g.oddWidest, false, oddCount⟩, ⟨g.evenModules, g.evenWidest, true, g.t⟩]) ++
  (Ref.RSS14.insideGroups.zip [84, 35, 10, 1]).flatMap (fun (g, evenCount) =>
    [⟨g.oddModules, g.oddWidest, true, g.t⟩, ⟨g.evenModules, g.evenWidest, false, evenCount⟩])

/-- all 4-tuples of widths `1..widest` with sum `n` (with a 1 when required), by brute force -/
def tuples (s : Subset) : List (List Int) :=
  let r := (List.range s.widest).map (fun i => ((i + 1 : Nat) : Int))
  (r.flatMap fun a => r.flatMap fun b => r.flatMap fun c => r.map fun d => [a, b, c, d]).filter
    (fun t => decide (t.foldl (· + ·) 0 = (s.n : Int)) && (!s.narrow || t.any (· = 1)))

def validTuple (s : Subset) (t : List Int) : Bool :=
  decide (t.length = 4) && t.all (fun w => decide (1 ≤ w ∧ w ≤ (s.widest : Int))) &&
  decide (t.foldl (· + ·) 0 = (s.n : Int)) && (!s.narrow || t.any (· = 1))

/-- for every value of the subset: the reference widths are a valid tuple and the library's value function returns the value -/
def inverseOn (s : Subset) : Bool :=
  (List.range s.count).all fun v =>
    let w := Ref.RSS14.getRSSwidths v s.n 4 s.widest s.narrow
    validTuple s w && decide (RSS14.getRSSvalue w s.widest s.narrow = .ok (v : Int))

/-- **value ∘ widths = id** on every subset, with valid widths (outside characters: ten subsets) -/
theorem rss_value_inverts_reference_widths_outside : (subsets.take 10).all inverseOn = true := by decide +kernel

/-- … and the eight subsets of the inside characters -/
theorem rss_value_inverts_reference_widths_inside : (subsets.drop 10).all inverseOn = true := by decide +kernel

example : subsets.length = 18 := by decide

/-- the number of width tuples that satisfy the sum / widest / narrow rules of each subset: exactly the table's count,
    except for the odd elements of the two widest inside groups, where the tables use 48 of 52 and 81 of 100 tuples
    (so `getRSSwidths` is an injection into the valid tuples, a bijection for sixteen of the eighteen subsets) -/
theorem rss_subset_sizes_outside :
    (subsets.take 10).map (fun s => ((tuples s).length, s.count)) =
      [(161, 161), (1, 1), (80, 80), (10, 10), (31, 31), (34, 34), (10, 10), (70, 70), (1, 1), (126, 126)] := by
  decide +kernel

theorem rss_subset_sizes_inside :
    (subsets.drop 10).map (fun s => ((tuples s).length, s.count)) =
      [(4, 4), (84, 84), (20, 20), (35, 35), (52, 48), (10, 10), (100, 81), (1, 1)] := by decide +kernel

/-- the group sums are the running totals of (odd tuples) x (even tuples): 2841 outside and 1597 inside characters -/
theorem rss_group_sums :
    (Ref.RSS14.outsideGroups.zip [161, 80, 31, 10, 1]).foldl (fun acc p => acc + p.1.t * p.2) 0 = 2841 ∧
    (Ref.RSS14.insideGroups.zip [84, 35, 10, 1]).foldl (fun acc p => acc + p.1.t * p.2) 0 = 1597 ∧
    Ref.RSS14.outsideGroups.map (·.gsum) = [0, 161, 961, 2015, 2715] ∧
    Ref.RSS14.insideGroups.map (·.gsum) = [0, 336, 1036, 1516] ∧
    (2841 * 1597 = 4537077) := by decide

/-- the checksum weights are the powers of 3 modulo 79 the reader's `9^i` / `3·9^i` / `·4` / `·16` arithmetic produces -/
example : Ref.RSS14.checksumWeights.take 12 = [1, 3, 9, 27, 2, 6, 18, 54, 4, 12, 36, 29] := by decide

end Gzx.Properties.C06RSSRef
