/-
  C06 (wp oned128) — "Decoding is total … arbitrary pixel rows fed to each 1D row decoder, any hints: the call returns
  with a result or a typed error, never a panic" for the Code 128 and ITF ROW DECODERS as coded
  (models: Gzx/Model/OneDRow128.lean, OneDRowITF.lean; tied to oned/code128_reader.go and oned/itf_reader.go by the
  `row128` correspondence suites of harness/zz_oned128_*.go).

  Every theorem holds for EVERY interpretation `D` of the float64 variance arithmetic that does not panic on patterns at
  least as long as the counters — in particular the exact rationals (`exactDom`) and IEEE binary64 (`floatDom`).
  Table hypotheses are decidable shape facts (`Table128`, `TableITF`), discharged for the tables regenerated from /repo
  in Obligations/C06Row128.lean.
-/
import Gzx.Proofs.Row128Total
import Gzx.Proofs.RowITFTotal
namespace Gzx.Properties.C06Row128
open Gzx Gzx.Row128

/-- Clause "forall rows fed to each 1D row decoder, forall hint maps: result xor NotFound/Checksum/Format, never a panic",
    Code 128: `code128Reader.DecodeRow` on EVERY pixel row (any length, incl. 0) with or without the ASSUME_GS1 hint
    returns a result or a NotFound / Checksum / Format error.  In particular none of the slice operations of the Go text
    can fail: `counters[counterPosition]`, `code128CODE_PATTERNS[startCode]`, `pattern[i]` inside PatternMatchVariance,
    `counters[2:2+counterPosition-1]`, and `result[:resultLength-2]` (a printable last character in code set C always
    contributed two digits — invariant `J`); the `for !done` loop ends because every decoded code consumes ≥ 6 pixels. -/
theorem code128_decodeRow_total (D : VarDom) (hD : D.PmvOk) (P : List (List Nat)) (hP : Table128 P)
    (row : List Bool) (gs1 : Bool) : Typed (Row128.decodeRow D P row gs1) := by
  unfold Row128.decodeRow
  rcases findStartPattern_res D hD P hP row with hnf | ⟨s0, s1, sc, hok, hle⟩
  · rw [hnf]; exact Or.inr (Or.inl rfl)
  · rw [hok]
    simp only []
    cases hcs : codeSetOf sc with
    | none => exact Or.inr (Or.inr (Or.inr rfl))
    | some codeSet =>
      simp only []
      have hJ0 : J (st0 codeSet sc) := by intro _ _; simp [st0]
      rcases mainLoop_res D hD P hP row gs1 (row.length + 1) _ ⟨[sc], s0, s1⟩ hJ0 hle (by simp only []; omega)
        with h | h | ⟨s, p, h, hJ⟩
      · rw [h]; exact Or.inr (Or.inl rfl)
      · rw [h]; exact Or.inr (Or.inr (Or.inr rfl))
      · rw [h]
        simp only []
        split
        · exact Or.inr (Or.inl rfl)
        · rcases finish_typed s hJ with ⟨t, ht⟩ | ht | ht | ht
          · rw [ht]; exact Or.inl ⟨_, rfl⟩
          · rw [ht]; exact Or.inr (Or.inl rfl)
          · rw [ht]; exact Or.inr (Or.inr (Or.inl rfl))
          · rw [ht]; exact Or.inr (Or.inr (Or.inr rfl))

/-- the same, spelled as the model's never producing the two pseudo-results a Go panic / a non-terminating loop map to -/
theorem code128_decodeRow_no_panic (D : VarDom) (hD : D.PmvOk) (P : List (List Nat)) (hP : Table128 P)
    (row : List Bool) (gs1 : Bool) :
    (∀ w, decodeRow D P row gs1 ≠ .error (.panic w)) ∧ decodeRow D P row gs1 ≠ .error .fuel := by
  rcases code128_decodeRow_total D hD P hP row gs1 with ⟨a, h⟩ | h | h | h <;> rw [h] <;> simp

theorem typed_ite_format {α : Type} (c : Prop) [Decidable c] (a : α) :
    Typed (if c then (.error .format : Res α) else .ok a) := by
  split
  · exact Or.inr (Or.inr (Or.inr rfl))
  · exact Or.inl ⟨_, rfl⟩

theorem ite_format_ne_checksum {α : Type} (c : Prop) [Decidable c] (a : α) :
    (if c then (.error .format : Res α) else .ok a) ≠ .error .checksum := by
  split <;> simp

/-- Clause "forall rows fed to each 1D row decoder, forall hint maps …", ITF: `itfReader.DecodeRow` on EVERY pixel row
    (any length, incl. 0) and EVERY value of the ALLOWED_LENGTHS hint (absent, empty, any list of ints incl. negative ones)
    returns a result or a NotFound / Format error — never a panic: `counters[counterPosition]`, the counter shift
    `counters[2:2+counterPosition-1]`, `row.Get(i)` in validateQuietZone (on the row and on the REVERSED row),
    `itfReader_END_PATTERN_REVERSED[0]`/`[1]`, the ten-counter split of decodeMiddle, `pattern[i]` inside
    PatternMatchVariance all stay in range, and the `for payloadStart < payloadEnd` loop ends (≥ 10 pixels per pair). -/
theorem itf_decodeRow_total (D : VarDom) (hD : D.PmvOk) (T : RowITF.ItfT) (hT : RowITF.TableITF T)
    (row : List Bool) (allowed : Option (List Int)) : Typed (RowITF.decodeRow D T row allowed) := by
  unfold RowITF.decodeRow
  rcases RowITF.decodeStart_res D hD T hT row with h | ⟨sp, nlw, h, hlt⟩
  · rw [h]; exact Or.inr (Or.inl rfl)
  · rw [h]
    simp only []
    rcases RowITF.decodeEnd_res D hD T hT row nlw with ⟨er, he⟩ | he
    · rw [he]
      simp only []
      rcases RowITF.middleLoop_nf D hD T hT row er.1 (row.length + 1) sp.2 [] (by omega) (by omega) with ⟨res, hm⟩ | hm
      · rw [hm]
        simp only []
        exact typed_ite_format _ _
      · rw [hm]; exact Or.inr (Or.inl rfl)
    · rw [he]; exact Or.inr (Or.inl rfl)

theorem itf_decodeRow_no_panic (D : VarDom) (hD : D.PmvOk) (T : RowITF.ItfT) (hT : RowITF.TableITF T)
    (row : List Bool) (allowed : Option (List Int)) :
    (∀ w, RowITF.decodeRow D T row allowed ≠ .error (.panic w)) ∧ RowITF.decodeRow D T row allowed ≠ .error .fuel := by
  rcases itf_decodeRow_total D hD T hT row allowed with ⟨a, h⟩ | h | h | h <;> rw [h] <;> simp

/-- the errors of the ITF reader are NotFound or Format only (it has no checksum) -/
theorem itf_decodeRow_never_checksum (D : VarDom) (hD : D.PmvOk) (T : RowITF.ItfT) (hT : RowITF.TableITF T)
    (row : List Bool) (allowed : Option (List Int)) : RowITF.decodeRow D T row allowed ≠ .error .checksum := by
  unfold RowITF.decodeRow
  rcases RowITF.decodeStart_res D hD T hT row with h | ⟨sp, nlw, h, hlt⟩
  · rw [h]; simp
  · rw [h]
    simp only []
    rcases RowITF.decodeEnd_res D hD T hT row nlw with ⟨er, he⟩ | he
    · rw [he]
      simp only []
      rcases RowITF.middleLoop_nf D hD T hT row er.1 (row.length + 1) sp.2 [] (by omega) (by omega) with ⟨res, hm⟩ | hm
      · rw [hm]
        simp only []
        exact ite_format_ne_checksum _ _
      · rw [hm]; simp
    · rw [he]; simp

/-! ### non-vacuity -/
example : RowITF.TableITF RowITF.refItfT := RowITF.tableITF_of_B _ (by decide)
example : exactDom.PmvOk := exactDom_pmvOk
example : floatDom.PmvOk := floatDom_pmvOk
example : Table128 OneD.refTables.code128 := table128_of_B _ (by decide +kernel)

end Gzx.Properties.C06Row128
