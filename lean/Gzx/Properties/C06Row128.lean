/-
  C06 (wp oned128) — "Decoding is total … arbitrary pixel rows fed to each 1D row decoder, any hints: the call returns
  with a result or a typed error, never a panic" for the Code 128 and ITF ROW DECODERS as coded
  (models: Gzx/Model/OneDRow128.lean, OneDRowITF.lean; tied to oned/code128_reader.go and oned/itf_reader.go by the
  `row128` correspondence suites of harness/zz_oned128_*.go).

  Every theorem holds for EVERY interpretation `D` of the float64 variance arithmetic that does not panic on patterns at
  least as long as the counters — in particular the exact rationals (`exactDom`) and IEEE binary64 (`floatDom`).
  Table hypotheses are decidable shape facts (`Table128`, `TableITF`), discharged for the tables regenerated from /repo
  in Obligations/C06Row128.lean.
-/
import Gzx.Proofs.Row128Total
import Gzx.Proofs.RowITFTotal
namespace Gzx.Properties.C06Row128
open Gzx Gzx.Row128

/-- Clause "forall rows fed to each 1D row decoder, forall hint maps: result xor NotFound/Checksum/Format, never a panic",
    Code 128: `code128Reader.DecodeRow` on EVERY pixel row (any length, incl. 0) with or without the ASSUME_GS1 hint
    returns a result or a NotFound / Checksum / Format error.  In particular none of the slice operations of the Go text
    can fail: `counters[counterPosition]`, `code128CODE_PATTERNS[startCode]`, `pattern[i]` inside PatternMatchVariance,
    `counters[2:2+counterPosition-1]`, and `result[:resultLength-2]` (a printable last character in code set C always
    contributed two digits — invariant `J`); the `for !done` loop ends because every decoded code consumes ≥ 6 pixels. -/
theorem code128_decodeRow_total (D : VarDom) (hD : D.PmvOk) (P : List (List Nat)) (hP : Table128 P)
    (row : List Bool) (gs1 : Bool) : Typed (decodeRow D P row gs1) := by
  unfold decodeRow
  rcases findStartPattern_res D hD P hP row with hnf | ⟨s0, s1, sc, hok, hle⟩
  · rw [hnf]; exact Or.inr (Or.inl rfl)
  · rw [hok]
    simp only []
    split
    · exact Or.inr (Or.inr (Or.inr rfl))
    · rename_i codeSet _
      have hJ0 : J ⟨codeSet, [], true, false, false, false, 0, 0, sc, 0, 0⟩ := by
        intro _ _; simp
      rcases mainLoop_res D hD P hP row gs1 (row.length + 1) _ ⟨[sc], s0, s1⟩ hJ0 hle (by simp only []; omega)
        with h | h | ⟨s, p, h, hJ⟩
      · rw [h]; exact Or.inr (Or.inl rfl)
      · rw [h]; exact Or.inr (Or.inr (Or.inr rfl))
      · rw [h]
        simp only []
        split
        · exact Or.inr (Or.inl rfl)
        · split
          · exact Or.inr (Or.inr (Or.inl rfl))
          · split
            · exact Or.inr (Or.inl rfl)
            · rename_i hne
              by_cases hlp : s.lastPrintable = true
              · simp only [hlp, if_true]
                by_cases hC : s.codeSet = 99
                · have := hJ hlp hC
                  simp only [hC, if_true]
                  rw [if_neg (by simp only [List.length_reverse] at hne ⊢; omega)]
                  exact Or.inl ⟨_, rfl⟩
                · simp only [hC, if_false]
                  rw [if_neg (by simp only [List.length_reverse] at hne ⊢; omega)]
                  exact Or.inl ⟨_, rfl⟩
              · simp only [hlp]
                exact Or.inl ⟨_, rfl⟩

/-- the same, spelled as the model's never producing the two pseudo-results a Go panic / a non-terminating loop map to -/
theorem code128_decodeRow_no_panic (D : VarDom) (hD : D.PmvOk) (P : List (List Nat)) (hP : Table128 P)
    (row : List Bool) (gs1 : Bool) :
    (∀ w, decodeRow D P row gs1 ≠ .error (.panic w)) ∧ decodeRow D P row gs1 ≠ .error .fuel := by
  rcases code128_decodeRow_total D hD P hP row gs1 with ⟨a, h⟩ | h | h | h <;> rw [h] <;> simp

/-! ### non-vacuity -/
example : exactDom.PmvOk := exactDom_pmvOk
example : floatDom.PmvOk := floatDom_pmvOk
example : Table128 OneD.refTables.code128 := table128_of_B _ (by decide +kernel)

end Gzx.Properties.C06Row128
