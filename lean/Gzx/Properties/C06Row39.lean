/-
  C06 (work package oned39) — decoding is total, for the three row decoders whose pixel-level code is now inside
  the model (Gzx/Model/OneDRow39.lean, tied to oned/code39_reader.go, code93_reader.go, codabar_reader.go by the
  `row39` correspondence lines of harness/zz_oned39_rows.go):

    code39_decodeRow_total, code93_decodeRow_total, codabar_decodeRow_total —
      for EVERY row (any length ≥ 0, any pixels), every reader configuration / hint, the model of `DecodeRow`
      returns a result or one of the documented errors; it never reaches a panic value, i.e. every index and slice
      expression of findAsteriskPattern / toNarrowWidePattern / toPattern / patternToChar / setCounters /
      findStartPattern / validatePattern / checkChecksums / DecodeRow stays in range.
  The table hypotheses (`WF39`, `WF93`, `WFCbRead`: the alphabet string has a character for every encoding entry,
  entry 47 exists, 43 resp. 47 alphabet characters for the check characters) are decidable facts about DATA,
  discharged on every run for the tables regenerated from /repo by Obligations/C06Row39.lean; each is necessary
  (examples below).  Helper lemmas: Gzx/Proofs/Row39Total.lean.
-/
import Gzx.Proofs.Row39Total
namespace Gzx.Properties.C06Row39
open Gzx Gzx.OneD Gzx.Row39 Gzx.Det

/-- the three documented error kinds of a reader -/
def Documented (e : Fault) : Prop := e = .notFound ∨ e = .checksum ∨ e = .format

/-- a result, or NotFound / Checksum / Format -/
def Typed {α : Type} (r : Res α) : Prop :=
  (∃ a, r = .ok a) ∨ r = .error .notFound ∨ r = .error .checksum ∨ r = .error .format

theorem typed_of_sat {α : Type} {r : Res α} (h : Sat Documented (fun _ => True) r) : Typed r := by
  cases r with
  | ok a => exact Or.inl ⟨a, rfl⟩
  | error e =>
    rcases h with h | h | h
    · subst h; exact Or.inr (Or.inl rfl)
    · subst h; exact Or.inr (Or.inr (Or.inl rfl))
    · subst h; exact Or.inr (Or.inr (Or.inr rfl))

theorem typed_no_panic {α : Type} {r : Res α} (h : Typed r) : (∀ w, r ≠ .error (.panic w)) ∧ r ≠ .error .fuel := by
  rcases h with ⟨a, h⟩ | h | h | h <;> rw [h] <;> exact ⟨fun w => by simp, by simp⟩

/-! ## Code 39 -/

/-- C06 for `code39Reader.DecodeRow`, part 1: on EVERY row, for both flags (check digit, extended mode) and every
    well-formed table set, NO PANIC — `counters[counterPosition]`, `counters[2:2+counterPosition-1]`,
    `code39AlphabetString[i]`, `result[max]`, `code39AlphabetString[total%43]` (total ≥ 0 because every decoded
    character is an alphabet character), `encoded[i+1]` (repaired, D15) never leave their slices. -/
theorem code39_decodeRow_no_panic (T : Tables) (hT : WF39 T = true) (ck ext : Bool) (row : List Bool) :
    ∀ w, c39DecodeRow T ck ext row ≠ .error (.panic w) := by
  have h := c39DecodeRow_sat (E := fun e => Documented e ∨ e = .fuel) (Or.inl (Or.inl rfl))
    (Or.inl (Or.inr (Or.inl rfl))) (Or.inl (Or.inr (Or.inr rfl))) T hT ck ext row
    (fun cs _ => c39Pattern_sat (Or.inr rfl) cs)
  intro w hw
  rw [hw] at h
  rcases h with (h | h | h) | h <;> cases h

/-- C06 for `code39Reader.DecodeRow`, in full for every row a Go program can hold: for every row of at most
    2^31-1 pixels the outcome is a result, NotFound, Checksum or Format — in particular the classifier's
    `for { … if !(wideCounters > 3) break }` loop and the character loop END (no `.fuel`).
    The length bound is needed only for the literal `math.MaxInt32` in `code39ToNarrowWidePattern`: with four runs
    longer than that the Go loop does not terminate (`code39_classifier_needs_bound`). -/
theorem code39_decodeRow_total (T : Tables) (hT : WF39 T = true) (ck ext : Bool) (row : List Bool)
    (hlen : row.length ≤ 2147483647) : Typed (c39DecodeRow T ck ext row) := by
  apply typed_of_sat
  apply c39DecodeRow_sat (E := Documented) (Or.inl rfl) (Or.inr (Or.inl rfl)) (Or.inr (Or.inr rfl)) T hT ck ext row
  intro cs hb
  obtain ⟨p, hp⟩ := c39Pattern_ok cs (fun c hc => Nat.le_trans (hb c hc) hlen)
  rw [hp]; trivial

/-- the classifier alone, on any counters below 2^31: a pattern or -1 -/
theorem code39_classifier_total (cs : List Nat) (hb : ∀ c ∈ cs, c ≤ 2147483647) : ∃ p, c39Pattern cs = .ok p :=
  c39Pattern_ok cs hb

/-- four counters above `math.MaxInt32`: `minCounter` stays at MaxInt32 for ever, `wideCounters` stays 4 -/
theorem code39_classifier_needs_bound :
    c39Pattern [2147483648, 2147483649, 2147483650, 2147483651, 1, 1, 1, 1, 1] = .error .fuel := by decide

-- non-vacuity: "*A*" drawn by the writer model, one pixel per module, 2 white pixels either side; the same row
-- cut inside the stop character; the empty symbol "**"; check digit demanded and wrong
example : (code39Modules refTables [65]).map (fun m => c39DecodeRow refTables false false ([false, false] ++ m ++ [false, false])) =
    .ok (.ok ⟨[65], 16, 68⟩) := by decide +kernel
example : (code39Modules refTables [65]).map (fun m => c39DecodeRow refTables false false (([false, false] ++ m).take 35)) =
    .ok (.error .notFound) := by decide +kernel
example : (code39Modules refTables []).map (fun m => c39DecodeRow refTables false false m) =
    .ok (.error .notFound) := by decide +kernel
example : (code39Modules refTables [65]).map (fun m => c39DecodeRow refTables true false ([false, false] ++ m ++ [false, false])) =
    .ok (.error .checksum) := by decide +kernel
example : WF39 refTables = true := by decide
/-- the table hypothesis is needed: with a 42-character alphabet the symbol "*%*" indexes past the string -/
example : c39Char { refTables with code39Alphabet := refTables.code39Alphabet.take 42 } 0x02A =
    .error (.panic "index out of range") := by decide

/-! ## Code 93 -/

/-- C06 for `code93Reader.DecodeRow`: on EVERY row and every well-formed table set the outcome is a result,
    NotFound, Checksum or Format; never a panic (`theCounters[…]`, `code93Alphabet[i]`, `row.Get(nextStart)` with
    `nextStart < end`, `result[checkPosition]`, `code93Alphabet[total%47]`), and both loops end. -/
theorem code93_decodeRow_total (T : Tables) (hT : WF93 T = true) (row : List Bool) : Typed (c93DecodeRow T row) :=
  typed_of_sat (c93DecodeRow_sat (E := Documented) (Or.inl rfl) (Or.inr (Or.inl rfl)) (Or.inr (Or.inr rfl)) T hT row)

theorem code93_decodeRow_no_panic (T : Tables) (hT : WF93 T = true) (row : List Bool) :
    (∀ w, c93DecodeRow T row ≠ .error (.panic w)) ∧ c93DecodeRow T row ≠ .error .fuel :=
  typed_no_panic (code93_decodeRow_total T hT row)

-- non-vacuity: "*A<C><K>*|" (A, check characters '4' 'Y' … computed by the writer model), a cut row
example : (code93Modules refTables [65]).map (fun m => c93DecodeRow refTables (false :: m ++ [false])) =
    .ok (.ok ⟨[65], 11, 83⟩) := by decide +kernel
example : (code93Modules refTables [65]).map (fun m => c93DecodeRow refTables (m.take 40)) =
    .ok (.error .notFound) := by decide +kernel
example : WF93 refTables = true := by decide
/-- the table hypothesis is needed: `code93AsteriskEncoding = code93CharacterEncodings[47]` -/
example : c93DecodeRow { refTables with code93Enc := refTables.code93Enc.take 47 } [true] =
    .error (.panic "index out of range") := by decide

/-! ## Codabar -/

/-- C06 for `codabarReader.DecodeRow`: on EVERY row, with or without RETURN_CODABAR_START_END, for every table set
    whose alphabet covers the encodings: a result or NotFound; never a panic — `counters[j]` in
    `toNarrowWidePattern` (guarded by `end >= counterLength`), `counters[i-1]`, `counters[nextStart-1]`,
    `counters[nextStart-8 … nextStart-2]`, `counters[pos+j]` and `CHARACTER_ENCODINGS[decodeRowResult[i]]` in
    `validatePattern`, `ALPHABET[…]`, `decodeRowResult[0]`, `decodeRowResult[len-1]`, the two running sums —
    and the character loop ends. -/
theorem codabar_decodeRow_total (T : Tables) (hT : WFCbRead T = true) (retSE : Bool) (row : List Bool) :
    (∃ h, cbDecodeRow T retSE row = .ok h) ∨ cbDecodeRow T retSE row = .error .notFound := by
  have h := cbDecodeRow_sat (E := fun e => e = .notFound) rfl T hT retSE row
  cases hr : cbDecodeRow T retSE row with
  | ok a => exact Or.inl ⟨a, rfl⟩
  | error e => rw [hr] at h; exact Or.inr (by rw [show e = Fault.notFound from h])

theorem codabar_decodeRow_no_panic (T : Tables) (hT : WFCbRead T = true) (retSE : Bool) (row : List Bool) :
    (∀ w, cbDecodeRow T retSE row ≠ .error (.panic w)) ∧ cbDecodeRow T retSE row ≠ .error .fuel := by
  rcases codabar_decodeRow_total T hT retSE row with ⟨a, h⟩ | h <;> rw [h] <;> exact ⟨fun w => by simp, by simp⟩

-- non-vacuity: "A12B" written by the writer model, one white pixel either side; both hint settings; the bare
-- module row (no white pixel in front: the first bar is not counted) is NotFound
example : (codabarModules refTables [65, 49, 50, 66]).map (fun m => cbDecodeRow refTables false (false :: m ++ [false])) =
    .ok (.ok ⟨[49, 50], 2, 84⟩) := by decide +kernel
example : (codabarModules refTables [65, 49, 50, 66]).map (fun m => cbDecodeRow refTables true (false :: m ++ [false])) =
    .ok (.ok ⟨[65, 49, 50, 66], 2, 84⟩) := by decide +kernel
example : (codabarModules refTables [65, 49, 50, 66]).map (fun m => cbDecodeRow refTables false m) =
    .ok (.error .notFound) := by decide +kernel
example : WFCbRead refTables = true := by decide
/-- the table hypothesis is needed: an encoding without alphabet character -/
example : cbIsStartEnd { refTables with codabarAlphabet := refTables.codabarAlphabet.take 19 } 19 =
    .error (.panic "index out of range") := by decide

end Gzx.Properties.C06Row39
