/-
  C06 (wp rowsrest) — decoding is total: the WHOLE `DecodeRow` of the five UPC/EAN row readers.

  Model: Gzx/Model/OneDRowExt.lean — `upceanReader.DecodeRow` / `decodeRowWithStartRange` of the EAN-13, EAN-8, UPC-E
  readers, the UPC-A reader (`maybeReturnResult`), `multiFormatUPCEANReader.DecodeRow`, with the add-on reader
  (`UPCEANExtensionSupport` incl. the 2- and 5-digit supports, price and issue-number parsing), country lookup,
  ALLOWED_EAN_EXTENSIONS, result points, result-point callbacks.  Tied to /repo/oned by suite `rowsrest-upc-*`
  (driver `c06rows upc`), the tables by Obligations/C06Rows.lean.

  The theorems hold for EVERY row (any length ≥ 0, any pixels), every row number, every well-typed hint map, every
  interpretation `VarOps` of `PatternMatchVariance` and of `<` on its results (so they do not depend on float64
  rounding), and every table set satisfying the decidable shape condition `wfRow` (per-run obligation).
-/
import Gzx.Proofs.OneDRowExtMeta
namespace Gzx.Properties.C06RowUPC
open Gzx Gzx.CheckDigit Gzx.Det Gzx.OneDRowExt Gzx.Proofs.OneDRowExtTotal
open Gzx.OneD (Tables refTables notFoundOf)

/-- the outcome C06 demands of a row decoder: a result, or one of the three documented reader exceptions
    (in particular never `.panic`, never out of fuel) -/
def Total {α : Type} (r : Res α) : Prop :=
  (∃ a, r = .ok a) ∨ r = .error .notFound ∨ r = .error .checksum ∨ r = .error .format

theorem total_of_sat {α : Type} {P : α → Prop} {r : Res α} (h : Sat ReaderErr P r) : Total r := by
  cases r with
  | ok a => exact Or.inl ⟨a, rfl⟩
  | error e =>
    rcases h with h | h | h <;> subst h
    · exact Or.inr (Or.inl rfl)
    · exact Or.inr (Or.inr (Or.inl rfl))
    · exact Or.inr (Or.inr (Or.inr rfl))

theorem total_no_panic {α : Type} {r : Res α} (h : Total r) : (∀ w, r ≠ .error (.panic w)) ∧ r ≠ .error .fuel := by
  rcases h with ⟨a, rfl⟩ | rfl | rfl | rfl <;> exact ⟨fun _ h' => (by cases h'), fun h' => (by cases h')⟩

/-- **C06, UPC/EAN single-format readers.**  `DecodeRow` of the EAN-13, EAN-8, UPC-A and UPC-E reader on every row,
    every row number and every hint map returns a result or NotFound / Checksum / Format — it never panics (no index,
    slice, conversion or division fault anywhere in start-guard search, digit decoding, middle / end guard, quiet-zone
    test, check digit, add-on reader, price parsing, country lookup, UPC-A conversion) and the start-guard loop
    terminates within its fuel.  A result has the reader's own format and at least 8 (UPC-A: 7) characters. -/
theorem upcean_decodeRow_total {V : Type} (O : VarOps V) (T : Tables) (X : ExtTables) (wf : wfRow T X = true)
    (k : EanKind) (rn : Int) (row : List Bool) (h : Hints) :
    Total (decodeRow O T X k rn row h).2 ∧
    (∀ res, (decodeRow O T X k rn row h).2 = .ok res → res.format = k ∧ minLen k ≤ res.text.length) := by
  have hs := decodeRow_sat O T X (wfRow_iff wf) k rn row h
  refine ⟨total_of_sat hs, fun res hr => ?_⟩
  unfold SubOK at hs; rw [hr] at hs
  exact ⟨hs.2.1, hs.1⟩

/-- **C06, multi-format UPC/EAN reader**, for every list of sub-readers the constructor can build (any
    POSSIBLE_FORMATS, duplicates and foreign formats included): a result or NotFound / Checksum / Format. -/
theorem upcean_multi_decodeRow_total {V : Type} (O : VarOps V) (T : Tables) (X : ExtTables) (wf : wfRow T X = true)
    (possibleFormats : List (Option EanKind)) (rn : Int) (row : List Bool) (h : Hints) :
    Total (multiDecodeRow O T X (multiReaders possibleFormats) rn row h).2 := by
  unfold multiDecodeRow
  have hw := wfRow_iff wf
  have hs := nfo (findStartGuardPattern_sat O T hw.startEnd row)
  cases hsr : notFoundOf (findStartGuardPattern O T row) with
  | error e => rw [hsr] at hs; exact total_of_sat (P := fun _ => True) (Or.inl hs)
  | ok sg =>
    exact total_of_sat (multiLoopA_sat _ _ (fun k => readerWithStart_sat O T X hw k rn row h sg) _ _)

/-- the components, each on every row from every offset: guard search, digit, add-on reader -/
theorem upcean_findGuardPattern_total {V : Type} (O : VarOps V) (row : List Bool) (off : Nat) (whiteFirst : Bool)
    (pattern : List Nat) (h3 : 3 ≤ pattern.length) :
    (∃ s e, findGuardPattern O row off whiteFirst pattern = .ok (s, e) ∧ off < e ∧ e < row.length) ∨
      findGuardPattern O row off whiteFirst pattern = .error .notFound := by
  have := findGuardPattern_sat O row off whiteFirst pattern h3
  cases hr : findGuardPattern O row off whiteFirst pattern with
  | ok r => rw [hr] at this; exact Or.inl ⟨r.1, r.2, rfl, this⟩
  | error e => rw [hr] at this; exact Or.inr (congrArg _ this)

theorem upcean_extension_decodeRow_total {V : Type} (O : VarOps V) (T : Tables) (X : ExtTables) (wf : wfRow T X = true)
    (rn : Int) (row : List Bool) (off : Nat) : Total (extDecodeRow O T X rn row off) :=
  total_of_sat (extDecodeRow_sat O T X (wfRow_iff wf) rn row off)

/-- `parseExtension5String` / `parseExtensionString` never leave their string: no panic on ANY raw string of five bytes -/
theorem upcean_parseExtension5_total (raw : List Nat) : ∃ m, parseExtension5 raw = .ok m := parseExtension5_ok raw

/-- **ALLOWED_EAN_EXTENSIONS is respected**, on the observable result: with the hint `l` (a `[]int`), whatever any of the
    four single-format readers returns reports an add-on (`UPC_EAN_EXTENSION` metadata) whose length is in `l`, no add-on
    counting as length 0 — for every row; the country / symbology metadata written afterwards and the UPC-A conversion
    cannot disturb it. -/
theorem upcean_allowed_extensions_respected {V : Type} (O : VarOps V) (T : Tables) (X : ExtTables) (k : EanKind) (rn : Int)
    (row : List Bool) (h : Hints) (l : List Int) (hl : h.allowedExt = some l) (res : RowResult)
    (hr : (decodeRow O T X k rn row h).2 = .ok res) : ((extLen res : Nat) : Int) ∈ l := by
  unfold decodeRow at hr
  cases hs : notFoundOf (findStartGuardPattern O T row) with
  | error e => rw [hs] at hr; cases hr
  | ok sg => rw [hs] at hr; exact readerWithStart_allowed O T X k rn row h l hl sg res hr

/-- … and by the multi-format reader, for every sub-reader list -/
theorem upcean_multi_allowed_extensions_respected {V : Type} (O : VarOps V) (T : Tables) (X : ExtTables)
    (readers : List EanKind) (rn : Int) (row : List Bool) (h : Hints) (l : List Int) (hl : h.allowedExt = some l)
    (res : RowResult) (hr : (multiDecodeRow O T X readers rn row h).2 = .ok res) : ((extLen res : Nat) : Int) ∈ l := by
  unfold multiDecodeRow at hr
  cases hs : notFoundOf (findStartGuardPattern O T row) with
  | error e => rw [hs] at hr; cases hr
  | ok sg =>
    rw [hs] at hr
    exact multiLoopA_allowed (fun k => readerWithStart O T X k rn row h sg) h.canUPCA l
      (fun k r hk => readerWithStart_allowed O T X k rn row h l hl sg r hk) readers [] res hr

/-! ### non-vacuity: the reference tables satisfy the hypothesis; the hypothesis is needed; concrete rows -/

example : wfRow refTables refExt = true := by decide

/-- a two-run add-on guard makes the counter shift leave its slice: the shape hypothesis cannot be dropped -/
example : findGuardPattern VarOps.exact [true, true, true, true, false, true, false] 0 false [1, 1] =
    .error (.panic "slice bounds out of range") := by decide

/-- EAN-8 "96385074" at one pixel per module with quiet zones, read by the exact-arithmetic instance -/
def ean8Row : List Bool := parseBits
  "000000010100010110101111011110101101110101010011101110010100010010111001010000000"

example : ((decodeRow VarOps.exact refTables refExt .ean8 7 ean8Row {}).2.toOption.map (·.text)) =
    some (OneD.bytesOf "96385074") := by decide +kernel

example : ((decodeRow VarOps.exact refTables refExt .ean13 7 ean8Row {}).2.toOption.map (·.text)) = none := by decide +kernel

/-- EAN-8 "96385074" followed by the two-digit add-on "34": with ALLOWED_EAN_EXTENSIONS = [2] a result whose reported
    add-on has length 2; with [5] refused (instances of `upcean_allowed_extensions_respected`) -/
def ean8AddOnRow : List Bool := parseBits
  ("000000010100010110101111011110101101110101010011101110010100010010111001010000000" ++ "00" ++
   "1011" ++ "0100001" ++ "01" ++ "0100011" ++ "0000000")

example : ((decodeRow VarOps.exact refTables refExt .ean8 0 ean8AddOnRow { allowedExt := some [2] }).2.toOption.map extLen) =
    some 2 := by decide +kernel
example : ((decodeRow VarOps.exact refTables refExt .ean8 0 ean8AddOnRow { allowedExt := some [5] }).2.toOption.map extLen) =
    none := by decide +kernel

/-- price strings: the currency switch and the three special codes -/
example : parseExtension5String (OneD.bytesOf "51299") = .ok (OneD.bytesOf "$12.99") := by decide
example : parseExtension5String (OneD.bytesOf "99991") = .ok (OneD.bytesOf "0.00") := by decide
example : parseExtension5String (OneD.bytesOf "90000") = .ok [] := by decide
example : parseExtension5String (OneD.bytesOf "01205") = .ok ([0xC2, 0xA3] ++ OneD.bytesOf "12.05") := by decide
example : lookupCountry refCountries (OneD.bytesOf "4006381333931") = OneD.bytesOf "DE" := by decide

end Gzx.Properties.C06RowUPC
