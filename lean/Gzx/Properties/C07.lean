/-
  C07 — QR symbols conform to ISO/IEC 18004: theorems about the reference construction
  `Gzx.QRRef` (lean/Gzx/Ref/QR.lean, written from the standard).  Property theorems only; nothing
  here mentions the generated tables — the conformance of the library's tables and translated
  kernels to this reference is in Gzx/Obligations/C07.lean (re-checked every run), the equality of
  the library's matrices with `refMatrix` is the `c07` oracle suite.
-/
import Gzx.Ref.QR
import Gzx.Proofs.QRZigzag
import Gzx.Proofs.QRPlacement
import Gzx.Proofs.QRMatrix
import Gzx.Proofs.QRCodewords
import Gzx.Proofs.QRReadback
import Gzx.Proofs.QRPenalty
import Gzx.Proofs.QRCount0
import Gzx.Proofs.QRCount1
import Gzx.Proofs.QRCount2
import Gzx.Proofs.QRCount3
import Gzx.Proofs.QRCount4
import Gzx.Proofs.QRCount5
import Gzx.Proofs.QRCount6
import Gzx.Proofs.QRCount7
namespace Gzx.Properties.C07
open Gzx Gzx.QRRef

/-! ### block structure -/

/-- Σ count·(data + ecPerBlock) over the block groups -/
def groupCodewords (v : Nat) (ec : EC) : Nat :=
  ((blockGroups v ec).map (fun g => g.1 * (g.2 + ecPerBlock v ec))).foldl (· + ·) 0

/-- `std_blocks_sum`: for all 160 (version, level) pairs the reference block structure —
    `numBlocks` blocks of `ecPerBlock` EC codewords, data split into at most two groups whose block
    lengths differ by one, shorter blocks first — fills the codeword count derived from the
    function-pattern geometry, `rawDataModules v / 8`, exactly. -/
theorem std_blocks_sum :
    ∀ v ∈ List.range 40, ∀ ec ∈ EC.all,
      groupCodewords (v + 1) ec = rawDataModules (v + 1) / 8 ∧
      ((blockGroups (v + 1) ec).map (·.1)).foldl (· + ·) 0 = numBlocks (v + 1) ec ∧
      0 < numBlocks (v + 1) ec ∧ 0 < dataCodewords (v + 1) ec ∧
      (blockDataLengths (v + 1) ec).length = numBlocks (v + 1) ec ∧
      (blockDataLengths (v + 1) ec).foldl (· + ·) 0 = dataCodewords (v + 1) ec := by
  decide +kernel

/-- the same for `1 ≤ v ≤ 40` -/
theorem std_blocks_sum_version (v : Nat) (h1 : 1 ≤ v) (h40 : v ≤ 40) (ec : EC) :
    groupCodewords v ec = rawDataModules v / 8 := by
  have h := std_blocks_sum (v - 1) (List.mem_range.mpr (by omega)) ec (by cases ec <;> decide)
  have hv : v - 1 + 1 = v := by omega
  rw [hv] at h
  exact h.1

/-- remainder bits per version class (Table 1): 0, 7, 0, 3, 4, 3, 0 -/
theorem std_remainder_bits :
    ∀ v ∈ List.range 40,
      remainderBits (v + 1) =
        (if v + 1 = 1 then 0 else if v + 1 ≤ 6 then 7 else if v + 1 ≤ 13 then 0 else if v + 1 ≤ 20 then 3
         else if v + 1 ≤ 27 then 4 else if v + 1 ≤ 34 then 3 else 0) := by
  decide +kernel

/-- `final_codewords_length`: for versions 1..40 the reference codeword sequence of a full set of
    data codewords (split into the standard's blocks, Reed-Solomon parity per block, both
    interleaved) has exactly the symbol's total number of codewords -/
theorem final_codewords_length (v : Nat) (h1 : 1 ≤ v) (h40 : v ≤ 40) (ec : EC) (data : List Nat)
    (hd : data.length = dataCodewords v ec) :
    (finalCodewords v ec data).length = totalCodewords v := by
  have h := std_blocks_sum (v - 1) (List.mem_range.mpr (by omega)) ec (by cases ec <;> decide)
  have hv : v - 1 + 1 = v := by omega
  rw [hv] at h
  obtain ⟨_, _, _, hpos, hlen, hsum⟩ := h
  unfold finalCodewords
  simp only
  have hsplit := splitBlocks_lengths (blockDataLengths v ec) data (by rw [hd, hsum])
  rw [List.length_append, roundRobin_length _ _ (le_maxLen _), roundRobin_length _ _ (le_maxLen _)]
  rw [sumLens_eq, hsplit, hsum]
  rw [sumLens_const _ (ecPerBlock v ec) (by
    intro b hb
    obtain ⟨blk, _, rfl⟩ := List.mem_map.mp hb
    exact rsParity_length _ _)]
  have hnb : (splitBlocks (blockDataLengths v ec) data).length = numBlocks v ec := by
    have := congrArg List.length hsplit
    rw [List.length_map] at this
    rw [this, hlen]
  rw [List.length_map, hnb]
  unfold dataCodewords at hpos ⊢
  have hmul : numBlocks v ec * ecPerBlock v ec = ecPerBlock v ec * numBlocks v ec := Nat.mul_comm _ _
  rw [hmul]
  generalize ecPerBlock v ec * numBlocks v ec = p at hpos ⊢
  generalize totalCodewords v = t at hpos ⊢
  omega

/-- `terminate_fills`: terminator, bit padding and pad codewords yield exactly the data capacity -/
theorem terminate_fills (d : Nat) (bits : List Bool) (h : bits.length ≤ 8 * d) :
    (terminate d bits).length = d := terminate_length d bits h

/-! ### alignment centres -/

/-- the centres start at 6, end at `dimension - 7`, ascend, and every gap after the first is the
    same even number (the standard's spacing rule) -/
def alignRuleOK (v : Nat) : Bool :=
  match alignCentres v with
  | 6 :: c1 :: rest =>
    let cs := c1 :: rest
    let gaps := List.zipWith (fun a b => b - a) cs rest
    6 < c1 && cs.getLast? == some (dimension v - 7) && cs.length + 1 == v / 7 + 2 &&
      gaps.all (fun g => g == alignStep v && g % 2 == 0 && 0 < g) &&
      (List.zipWith (fun a b => decide (a < b)) cs rest).all id
  | _ => false

theorem std_alignment_rule : ∀ v ∈ List.range 39, alignRuleOK (v + 2) = true := by decide +kernel

/-! ### BCH codes -/

/-- `bch15_min_distance`: any two of the 32 format words differ in at least 7 bit positions
    (so up to 3 bit errors are corrected unambiguously) -/
theorem bch15_min_distance :
    ∀ d₁ ∈ List.range 32, ∀ d₂ ∈ List.range 32, d₁ ≠ d₂ →
      7 ≤ hamming 15 (formatWordOfData d₁) (formatWordOfData d₂) := by
  decide +kernel

/-- `bch18_min_distance`: any two of the 34 version words (versions 7..40) differ in at least 8
    bit positions -/
theorem bch18_min_distance :
    ∀ v₁ ∈ List.range 34, ∀ v₂ ∈ List.range 34, v₁ ≠ v₂ →
      8 ≤ hamming 18 (versionWord (v₁ + 7)) (versionWord (v₂ + 7)) := by
  decide +kernel

/-- every unmasked format word is a multiple of the generator x^10+x^8+x^5+x^4+x^2+x+1 whose
    five leading bits are the data, and is below 2^15 -/
theorem bch15_codewords :
    ∀ d ∈ List.range 32,
      polyMod2 formatPoly 10 5 (formatWordOfData d ^^^ formatMask) = 0 ∧
      (formatWordOfData d ^^^ formatMask) >>> 10 = d ∧ formatWordOfData d < 2 ^ 15 := by
  decide +kernel

/-- every version word is a multiple of x^12+x^11+x^10+x^9+x^8+x^5+x^2+1 whose six leading
    bits are the version number -/
theorem bch18_codewords :
    ∀ v ∈ List.range 34,
      polyMod2 versionPoly 12 6 (versionWord (v + 7)) = 0 ∧ versionWord (v + 7) >>> 12 = v + 7 ∧
      versionWord (v + 7) < 2 ^ 18 := by
  decide +kernel

/-! ### placement -/

/-- `std_zigzag_perm`: for EVERY version number the placement order lists every data module
    (every module of the symbol that is not part of a function pattern) exactly once, and nothing
    else. -/
theorem std_zigzag_perm (v : Nat) :
    (zigzag v).Nodup ∧
    ∀ x y, (x, y) ∈ zigzag v ↔ (x < dimension v ∧ y < dimension v ∧ isFunction v x y = false) :=
  ⟨nodup_zigzag v, mem_zigzag v⟩

theorem dataCount_all (v : Nat) (h1 : 1 ≤ v) (h40 : v ≤ 40) : dataCount v = rawDataModules v := by
  have h : v = 1 ∨ v = 2 ∨ v = 3 ∨ v = 4 ∨ v = 5 ∨ v = 6 ∨ v = 7 ∨ v = 8 ∨ v = 9 ∨ v = 10 ∨ v = 11 ∨ v = 12 ∨ v = 13 ∨ v = 14 ∨ v = 15 ∨ v = 16 ∨ v = 17 ∨ v = 18 ∨ v = 19 ∨ v = 20 ∨ v = 21 ∨ v = 22 ∨ v = 23 ∨ v = 24 ∨ v = 25 ∨ v = 26 ∨ v = 27 ∨ v = 28 ∨ v = 29 ∨ v = 30 ∨ v = 31 ∨ v = 32 ∨ v = 33 ∨ v = 34 ∨ v = 35 ∨ v = 36 ∨ v = 37 ∨ v = 38 ∨ v = 39 ∨ v = 40 := by omega
  rcases h with rfl | rfl | rfl | rfl | rfl | rfl | rfl | rfl | rfl | rfl | rfl | rfl | rfl | rfl | rfl | rfl | rfl | rfl | rfl | rfl | rfl | rfl | rfl | rfl | rfl | rfl | rfl | rfl | rfl | rfl | rfl | rfl | rfl | rfl | rfl | rfl | rfl | rfl | rfl | rfl
  · exact Count.dataCount_1
  · exact Count.dataCount_2
  · exact Count.dataCount_3
  · exact Count.dataCount_4
  · exact Count.dataCount_5
  · exact Count.dataCount_6
  · exact Count.dataCount_7
  · exact Count.dataCount_8
  · exact Count.dataCount_9
  · exact Count.dataCount_10
  · exact Count.dataCount_11
  · exact Count.dataCount_12
  · exact Count.dataCount_13
  · exact Count.dataCount_14
  · exact Count.dataCount_15
  · exact Count.dataCount_16
  · exact Count.dataCount_17
  · exact Count.dataCount_18
  · exact Count.dataCount_19
  · exact Count.dataCount_20
  · exact Count.dataCount_21
  · exact Count.dataCount_22
  · exact Count.dataCount_23
  · exact Count.dataCount_24
  · exact Count.dataCount_25
  · exact Count.dataCount_26
  · exact Count.dataCount_27
  · exact Count.dataCount_28
  · exact Count.dataCount_29
  · exact Count.dataCount_30
  · exact Count.dataCount_31
  · exact Count.dataCount_32
  · exact Count.dataCount_33
  · exact Count.dataCount_34
  · exact Count.dataCount_35
  · exact Count.dataCount_36
  · exact Count.dataCount_37
  · exact Count.dataCount_38
  · exact Count.dataCount_39
  · exact Count.dataCount_40

/-- `std_zigzag_count`: for versions 1..40 the number of data modules (counted over the grid with
    `isFunction`) is the number derived from the function-pattern geometry, so the placement order
    has room for exactly `totalCodewords` codewords plus the remainder bits. -/
theorem std_zigzag_count (v : Nat) (h1 : 1 ≤ v) (h40 : v ≤ 40) :
    (zigzag v).length = 8 * totalCodewords v + remainderBits v := by
  rw [zigzag_length, dataCount_all v h1 h40]
  unfold totalCodewords remainderBits
  omega

/-- `place_spec`: in the reference symbol the `i`-th module of the placement order shows bit `i` of
    the codeword stream (codeword bits msb first, then zero remainder bits) XOR the mask condition
    at that module; function modules do not depend on the data.  (Encoder half of C01's
    `place_read_inv`.) -/
theorem place_spec (v : Nat) (ec : EC) (mask : Nat) (cw : List Nat)
    (hlen : (bitsOfBytes cw).length ≤ (zigzag v).length) :
    (∀ i (hi : i < (zigzag v).length),
      moduleAt v ec mask cw ((zigzag v)[i]).1 ((zigzag v)[i]).2 =
        ((streamBits v cw)[i]'(by rw [streamBits_length v cw hlen]; exact hi)
          != maskBit mask ((zigzag v)[i]).1 ((zigzag v)[i]).2)) ∧
    (∀ x y, isFunction v x y = true → moduleAt v ec mask cw x y = functionModule v ec mask x y) :=
  ⟨fun i hi => moduleAt_data v ec mask cw hlen i hi, fun x y h => moduleAt_function v ec mask cw x y h⟩

/-- `ref_matrix_is_spec`: the matrix the driver prints and the oracle compares with the library
    (`refMatrix`, assembled through an array for speed) is, module for module, the functional
    specification `moduleAt` that `place_spec` is about. -/
theorem ref_matrix_is_spec (v : Nat) (ec : EC) (mask : Nat) (cw : List Nat) :
    refMatrix v ec mask cw =
      (List.range (dimension v)).map (fun y => (List.range (dimension v)).map (fun x => moduleAt v ec mask cw x y)) :=
  refMatrix_eq_spec v ec mask cw

/-- `ref_place_read_inv`: for versions 1..40, every level and mask and every sequence of
    `totalCodewords v` byte values: reading the non-function modules of the reference symbol in
    placement order, removing the mask (`readDataBits`) and grouping into bytes returns exactly
    the codewords; what follows are the zero remainder bits. -/
theorem ref_place_read_inv (v : Nat) (h1 : 1 ≤ v) (h40 : v ≤ 40) (ec : EC) (mask : Nat) (cw : List Nat)
    (hl : cw.length = totalCodewords v) (hb : ∀ b ∈ cw, b < 256) :
    bytesOfBits (totalCodewords v) (readDataBits v mask (moduleAt v ec mask cw)) = cw ∧
    (readDataBits v mask (moduleAt v ec mask cw)).drop (8 * totalCodewords v) =
      List.replicate (remainderBits v) false := by
  have hc := std_zigzag_count v h1 h40
  have := read_codewords v ec mask cw (by rw [hl, hc]; omega) hb
  rw [hl, hc] at this
  have e : 8 * totalCodewords v + remainderBits v - 8 * totalCodewords v = remainderBits v := by omega
  rw [e] at this
  exact this

/-- the same for the symbol the reference encoder builds from a full set of data codewords -/
theorem ref_place_read_inv_final (v : Nat) (h1 : 1 ≤ v) (h40 : v ≤ 40) (ec : EC) (mask : Nat) (data : List Nat)
    (hd : data.length = dataCodewords v ec) (hb : ∀ d ∈ data, d < 256) :
    bytesOfBits (totalCodewords v)
      (readDataBits v mask (moduleAt v ec mask (finalCodewords v ec data))) = finalCodewords v ec data :=
  (ref_place_read_inv v h1 h40 ec mask _ (final_codewords_length v h1 h40 ec data hd)
    (finalCodewords_lt v ec data hb)).1

/-- `ref_format_info_readback`: for versions 1..40 both copies of format bit `i` (positions of
    Figure 25: `formatPos1 i` around the upper-left finder, `formatPos2 (dimension v) i` split
    between the upper-right and lower-left finders) carry bit `i` of the BCH(15,5) word
    `formatWord ec mask` — whatever the data. -/
theorem ref_format_info_readback (v : Nat) (h1 : 1 ≤ v) (h40 : v ≤ 40) (ec : EC) (mask : Nat) (cw : List Nat)
    (i : Nat) (hi : i < 15) :
    moduleAt v ec mask cw (formatPos1 i).1 (formatPos1 i).2 = (formatWord ec mask).testBit i ∧
    moduleAt v ec mask cw (formatPos2 (dimension v) i).1 (formatPos2 (dimension v) i).2 =
      (formatWord ec mask).testBit i := by
  have h := formatPos_all (v - 1) (List.mem_range.mpr (by omega))
  have hv : v - 1 + 1 = v := by omega
  rw [hv] at h
  unfold formatPosOK at h
  simp only [List.all_eq_true, List.mem_range, Bool.and_eq_true, beq_iff_eq] at h
  obtain ⟨⟨⟨r1, r2⟩, f1⟩, f2⟩ := h i hi
  exact ⟨moduleAt_format v ec mask cw _ _ i r1 f1, moduleAt_format v ec mask cw _ _ i r2 f2⟩

/-- `ref_version_info_readback`: for versions 7..40 both copies of version bit `i` (lower-left
    block `versionPos1`, upper-right block `versionPos2`, Figures 26/27) carry bit `i` of the
    BCH(18,6) word `versionWord v`. -/
theorem ref_version_info_readback (v : Nat) (h7 : 7 ≤ v) (h40 : v ≤ 40) (ec : EC) (mask : Nat) (cw : List Nat)
    (i : Nat) (hi : i < 18) :
    moduleAt v ec mask cw (versionPos1 (dimension v) i).1 (versionPos1 (dimension v) i).2 = (versionWord v).testBit i ∧
    moduleAt v ec mask cw (versionPos2 (dimension v) i).1 (versionPos2 (dimension v) i).2 =
      (versionWord v).testBit i := by
  have h := versionPos_all (v - 7) (List.mem_range.mpr (by omega))
  have hv : v - 7 + 7 = v := by omega
  rw [hv] at h
  unfold versionPosOK at h
  simp only [List.all_eq_true, List.mem_range, Bool.and_eq_true, beq_iff_eq] at h
  obtain ⟨⟨⟨r1, r2⟩, f1⟩, f2⟩ := h i hi
  exact ⟨moduleAt_version v ec mask cw _ _ i r1 f1, moduleAt_version v ec mask cw _ _ i r2 f2⟩

/-- the format and version words are recovered from the symbol: reading bit by bit and
    reassembling gives `formatWord` (below 2^15) -/
theorem ref_format_word_readback (v : Nat) (h1 : 1 ≤ v) (h40 : v ≤ 40) (ec : EC) (mask : Nat) (cw : List Nat) :
    (List.range 15).map (fun i => moduleAt v ec mask cw (formatPos1 i).1 (formatPos1 i).2) =
      (List.range 15).map (fun i => (formatWord ec mask).testBit i) := by
  apply List.map_congr_left
  intro i hi
  exact (ref_format_info_readback v h1 h40 ec mask cw i (List.mem_range.mp hi)).1

/-- entry (x, y) of the driver's matrix (rows of modules) is `moduleAt x y`: every theorem above
    stated over `moduleAt` holds for the matrix the oracle compares with the library -/
theorem ref_matrix_at (v : Nat) (ec : EC) (mask : Nat) (cw : List Nat) (x y : Nat)
    (hx : x < dimension v) (hy : y < dimension v) :
    matrixAt (refMatrix v ec mask cw) x y = moduleAt v ec mask cw x y := by
  rw [refMatrix_eq_spec]; exact specMatrix_at v ec mask cw x y hx hy

/-! ### masks -/

/-- `mask_formula_equiv`, arithmetic content: the rewritings used by the decoder
    ("xy mod 6 == 0", "xy mod 6 < 3", "(x + y + xy mod 3) mod 2 == 0") are equal to the
    standard's conditions 101, 110, 111 for all naturals -/
theorem mask_alt_equiv (i j : Nat) :
    (maskBit 5 j i = ((i * j) % 6 == 0)) ∧
    (maskBit 6 j i = decide ((i * j) % 6 < 3)) ∧
    (maskBit 7 j i = ((i + j + (i * j) % 3) % 2 == 0)) := by
  simp only [maskBit]
  generalize i * j = t
  generalize i + j = s
  refine ⟨?_, ?_, ?_⟩ <;> rw [Bool.eq_iff_iff] <;> simp only [beq_iff_eq, decide_eq_true_eq] <;> omega

/-- masking is an involution on the data modules and conditions are periodic: condition `k` only
    depends on the residues of row and column modulo 12 -/
theorem mask_periodic (k x y : Nat) : maskBit k (x + 12) y = maskBit k x y ∧ maskBit k x (y + 12) = maskBit k x y := by
  have e1 : y * (x + 12) = y * x + 12 * y := by rw [Nat.mul_add, Nat.mul_comm y 12]
  have e2 : (y + 12) * x = y * x + 12 * x := by rw [Nat.add_mul]
  have small : ∀ k, k < 8 → maskBit k (x + 12) y = maskBit k x y ∧ maskBit k x (y + 12) = maskBit k x y := by
    intro k hk8
    have hk' : k = 0 ∨ k = 1 ∨ k = 2 ∨ k = 3 ∨ k = 4 ∨ k = 5 ∨ k = 6 ∨ k = 7 := by omega
    rcases hk' with h | h | h | h | h | h | h | h <;> subst h <;> simp only [maskBit, e1, e2] <;>
      generalize y * x = t <;> constructor <;> first | trivial | (rw [Bool.eq_iff_iff]; simp only [beq_iff_eq]; omega)
  by_cases hk8 : k < 8
  · exact small k hk8
  · unfold maskBit
    split <;> first | omega | exact ⟨rfl, rfl⟩

/-! ### mask evaluation (Table 11) -/

/-- N1: the run penalty of every row and column line is the sum over its maximal same-colour
    runs of `3 + (length − 5)` for runs of at least five modules (and the runs partition the line) -/
theorem penalty_n1 (row : List Bool) :
    runPenalty row none 0 = sumN ((lineRuns row).map runScore) ∧ sumN (lineRuns row) = row.length :=
  ⟨penalty_n1_line row, lineRuns_sum row⟩

/-- N2: a solid m x n block scores 3·(m−1)·(n−1), the standard's block formula -/
theorem penalty_n2 (c : Bool) (m n : Nat) (hm : 1 ≤ m) (hn : 1 ≤ n) :
    penalty2 (List.replicate m (solidRow c n)) = 3 * ((m - 1) * (n - 1)) := penalty_n2_block c m n hm hn

/-- N3: per line, the number of positions where 1:1:3:1:1 (dark-light-dark-light-dark) starts with
    four light modules (or the symbol edge) before or after it -/
theorem penalty_n3 (row : List Bool) :
    finderLike [] row =
      ((List.range row.length).filter (fun i => n3Here ((row.take i).reverse) (row.drop i))).length := by
  have := penalty_n3_line row []
  simpa using this

/-- N4: 10·k for a dark proportion between 50 ± 5k % and 50 ± 5(k+1) % -/
theorem penalty_n4 (m : List (List Bool)) (hpos : 0 < QRRef.sumL (m.map List.length)) :
    ∃ k, penalty4 m = 10 * k ∧
      k * QRRef.sumL (m.map List.length) ≤
        10 * (if 2 * QRRef.sumL (m.map (fun r => r.count true)) ≥ QRRef.sumL (m.map List.length)
              then 2 * QRRef.sumL (m.map (fun r => r.count true)) - QRRef.sumL (m.map List.length)
              else QRRef.sumL (m.map List.length) - 2 * QRRef.sumL (m.map (fun r => r.count true))) ∧
      10 * (if 2 * QRRef.sumL (m.map (fun r => r.count true)) ≥ QRRef.sumL (m.map List.length)
              then 2 * QRRef.sumL (m.map (fun r => r.count true)) - QRRef.sumL (m.map List.length)
              else QRRef.sumL (m.map List.length) - 2 * QRRef.sumL (m.map (fun r => r.count true)))
        < (k + 1) * QRRef.sumL (m.map List.length) :=
  penalty_n4_spec m _ _ rfl rfl hpos

/-! ### non-vacuity -/

example : zigzag 1 ≠ [] := by decide
example : blockGroups 5 .Q = [(2, 15), (2, 16)] := by decide
example : versionWord 7 = 0x07C94 := by decide
example : formatWordOfData 0 = 0x5412 := by decide
example : alignCentres 32 = [6, 34, 60, 86, 112, 138] := by decide

end Gzx.Properties.C07
