/-
  C07 / work package `qrenc` — THE ENCODER'S OWN LOOPS ARE THE REFERENCE CONSTRUCTION.

  `Gzx.QREnc` (Model/QREncMatrix.lean, Model/QREncMirror.lean) mirrors qrcode/encoder/*.go line by line: bit arrays as
  lists, the ByteMatrix with -1 = empty, panics as values, the zig-zag loop of `embedDataBits` with its `x == 6`
  skip and direction flips, `terminateBits`' three loops, the block loop and the two interleaving double loops of
  `interleaveWithECBytes`, `calculateBCHCode`/`findMSBSet`, the four penalty loops, `chooseMaskPattern`,
  `chooseVersion`/`recommendVersion`.  The theorems below prove, stage by stage and composed, that this model
  computes exactly the reference construction `Gzx.QRRef` (Ref/QR.lean, written from ISO/IEC 18004) — so C07's
  conformance theorems and C01's round-trip theorems, which are about the reference, are about a model that is tied
  to the Go code layer by layer (suite `c07m`).

  Parameters: `K : Kernels` are the two kernels the translator regenerates on every run; every theorem holds for
  every `K` with `KernelsOK K` (`Obligations/QREnc.lean` proves it for the regenerated ones, `refKernels_ok` for
  the hand mirror the driver runs).  `FuncOK v` is the per-version, decidable statement "the coded function-pattern
  loops, run with position tags for the format/version bits, leave exactly the standard's function modules"; it is
  a THEOREM for every version 1..40 (`mirror_funcOK_all`, wp `enc2`): the embed loops are written once over an
  abstract matrix interface (Proofs/QREncFuncGen.lean; at `ByteMatrix` they are the model's loops by `rfl`), a
  forward simulation (Proofs/QREncFuncSim.lean, QREncFuncBridge.lean) relates the `ByteMatrix` run to a run on a
  matrix packed into one natural number, which the kernel evaluates in seconds per version
  (Proofs/QREncFuncV*.lean); rows and columns that meet no function band are compared by general lemmas
  (Proofs/QREncFuncPlain.lean).  The compiled driver still evaluates `FuncOK v` on every run (`c07m funcok`).
-/
import Gzx.Proofs.QREncPipeline
import Gzx.Proofs.QREncEncode
import Gzx.Proofs.QREncVersion
import Gzx.Proofs.QREncKernels
import Gzx.Proofs.QREncFuncAll40
import Gzx.Proofs.QREncFront
namespace Gzx.Properties.C07Mirror
open Gzx Gzx.QRRef Gzx.QREnc

/-! ### terminateBits -/

/-- `mirror_terminate_eq_ref`: for every payload that fits `d` data codewords, the three loops of
    `terminateBits` (up to four terminator bits, zero bits to the byte boundary, alternating 0xEC / 0x11) produce
    exactly the reference data codewords `QRRef.terminate d bits`, as bits. -/
theorem mirror_terminate_eq_ref (d : Nat) (bits : List Bool) (h : bits.length ≤ 8 * d) :
    terminateBits (d : Int) bits = .ok (bitsOfBytes (terminate d bits)) := terminateBits_eq d bits h

/-- … and a payload beyond the capacity is refused (never truncated) -/
theorem mirror_terminate_refuses (d : Int) (bits : List Bool) (h : (bits.length : Int) > d * 8) :
    terminateBits d bits = .error .writer := terminateBits_refuses d bits h

example : terminateBits 2 [true, false, true] = .ok (bitsOfBytes [0xA0, 0xEC]) := by decide

/-! ### interleaveWithECBytes -/

/-- `mirror_interleave_eq_ref`: for every version 1..40, level and full set of data codewords, the block loop
    (block sizes from the regenerated kernel, `ToBytes`, Reed-Solomon parity through C04's encoder model) and
    the two interleaving double loops produce exactly `QRRef.finalCodewords` — the standard's block split, RS
    parity and codeword interleaving. -/
theorem mirror_interleave_eq_ref {K : Kernels} (hK : KernelsOK K) (v : Nat) (h1 : 1 ≤ v) (h40 : v ≤ 40) (ec : EC)
    (data : List Nat) (hlen : data.length = dataCodewords v ec) (hb : ∀ b ∈ data, b < 256) :
    interleaveWithECBytes K (bitsOfBytes data) (totalCodewords v : Nat) (dataCodewords v ec : Nat) (numBlocks v ec : Nat) =
      .ok (bitsOfBytes (finalCodewords v ec data)) := interleave_eq_ref hK v h1 h40 ec data hlen hb

example : ∃ data : List Nat, data.length = dataCodewords 5 .Q ∧ ∀ b ∈ data, b < 256 :=
  ⟨List.replicate (dataCodewords 5 .Q) 17, by simp, by intro b hb; rw [List.eq_of_mem_replicate hb]; decide⟩

/-! ### embedDataBits: the zig-zag loop -/

/-- `mirror_embedDataBits_eq_ref_placement`: for EVERY version number (every odd side ≥ 9, not only 1..40) the
    coded traversal — start at the lower right cell, two cells per row, `x == 6` skipped, direction reversed at the
    top and bottom — visits exactly the modules of the standard's placement order `zigzagAll`, in that order; and
    the loop with any cell action is the fold of that action over this order. -/
theorem mirror_embedDataBits_eq_ref_placement (v : Nat) :
    visitOrder (dimension v) (dimension v) = some (refOrder (dimension v)) ∧
    ∀ {σ : Type} (step : Int → Int → σ → Res σ) (s : σ),
      zigzagLoop step (dimension v) (dimension v) s = stepAll step (refOrder (dimension v)) s :=
  ⟨orderOK_all v, fun step s => zigzagLoop_eq step _ _ s _ (orderOK_all v)⟩

/-! ### BCH codes -/

/-- `mirror_bch_eq_ref`: the shift-and-xor division of `calculateBCHCode` (with `findMSBSet`) yields the BCH(15,5)
    check bits for all 32 type-info values and the BCH(18,6) check bits for all six-bit values; the 15 type-info
    bits and the 18 version-info bits are the reference words, most significant bit first. -/
theorem mirror_bch_eq_ref :
    (∀ d ∈ List.range 32, calculateBCHCode d typeInfoPoly = .ok (bch15 d)) ∧
    (∀ v ∈ List.range 64, calculateBCHCode v versionInfoPoly = .ok (bch18 v)) ∧
    (∀ ec ∈ EC.all, ∀ k ∈ List.range 8, makeTypeInfoBits ec ((k : Nat) : Int) = .ok (toBitsBE 15 (formatWord ec k))) ∧
    (∀ v ∈ List.range 34, makeVersionInfoBits (v + 7) = .ok (toBitsBE 18 (versionWord (v + 7)))) :=
  ⟨bch15_all, bch18_all, typeInfoBits_all, versionInfoBits_all⟩

/-! ### MatrixUtil_buildMatrix -/

/-- `mirror_funcOK_all` (wp `enc2`): for EVERY version 1..40 the coded function-pattern loops — embedBasicPatterns
    (finder patterns, separators with their emptiness checks, dark module, alignment patterns with the
    centre-is-empty test, timing patterns), the embedTypeInfo loop and the maybeEmbedVersionInfo double loop —
    started on the cleared matrix, run without error and leave at every module exactly what the standard puts there
    (format / version bit positions as tags), and -1 on exactly the data modules. -/
theorem mirror_funcOK_all (v : Nat) (h1 : 1 ≤ v) (h40 : v ≤ 40) : FuncOK v := funcOK_all v h1 h40

/-- `mirror_buildMatrix_eq_refMatrix`: for every version 1..40, level, mask and codeword stream that fits the data
    modules, `MatrixUtil_buildMatrix` on ANY matrix of the right size (whatever it held: `clearMatrix` first)
    returns the reference matrix — every module. -/
theorem mirror_buildMatrix_eq_refMatrix {K : Kernels} (hK : KernelsOK K) (v : Nat) (h1 : 1 ≤ v) (h40 : v ≤ 40)
    (ec : EC) (mask : Nat) (hk : mask < 8) (cw : List Nat) (hlen : (bitsOfBytes cw).length ≤ (zigzag v).length)
    (m0 : ByteMatrix) (hm0 : WFM (dimension v) m0) :
    buildMatrix K (bitsOfBytes cw) ec v (mask : Int) m0 = .ok (refByteMatrix v ec mask cw) :=
  buildMatrix_eq_ref hK v h1 h40 (funcOK_all v h1 h40) (orderOK_all v) ec mask hk cw hlen m0 hm0

/-- the ByteMatrix of the theorems above read as modules (1 = dark) IS the reference matrix -/
theorem refByteMatrix_modules (v : Nat) (ec : EC) (mask : Nat) (cw : List Nat) :
    (refByteMatrix v ec mask cw).bytes.map (fun r => r.map (· == 1)) = refMatrix v ec mask cw := by
  unfold refByteMatrix
  simp only [List.map_map]
  rw [List.map_congr_left (g := id)]
  · simp
  · intro r _
    simp only [Function.comp, id]
    rw [List.map_map, List.map_congr_left (g := id)]
    · simp
    · intro b _; cases b <;> rfl

example : WFM (dimension 1) (emptyMatrix (dimension 1)) := ⟨rfl, rfl, by simp [emptyMatrix], by
  intro r hr; simp only [emptyMatrix] at hr; rw [List.eq_of_mem_replicate hr]; simp⟩

/-! ### penalties and mask choice -/

/-- `mirror_penalty_eq_ref`: on every square 0/1 matrix (non-empty for rule 4) the four index loops of
    mask_util.go — run scanner with `prevBit = -1`, 2x2 comparison with short-circuit, the 1011101 test with
    `isWhiteHorizontal/Vertical` and their clamps counted for rows and columns in one pass, dark-module ratio
    with truncating division — compute the reference penalties N1..N4 of Table 11, and their sum. -/
theorem mirror_penalty_eq_ref {n : Nat} {rows : List (List Bool)} (hs : Square n rows) (hn : 0 < n) :
    applyMaskPenaltyRule1 (ofRows rows n) = .ok ((penalty1 rows : Nat) : Int) ∧
    applyMaskPenaltyRule2 (ofRows rows n) = .ok ((penalty2 rows : Nat) : Int) ∧
    applyMaskPenaltyRule3 (ofRows rows n) = .ok ((penalty3 rows : Nat) : Int) ∧
    applyMaskPenaltyRule4 (ofRows rows n) = .ok ((penalty4 rows : Nat) : Int) ∧
    calculateMaskPenalty (ofRows rows n) = .ok ((penalty rows : Nat) : Int) :=
  ⟨rule1_eq hs, rule2_eq hs, rule3_eq hs, rule4_eq hs hn, calculateMaskPenalty_eq hs hn⟩

example : Square 2 [[true, false], [false, true]] := ⟨rfl, by decide⟩

/-- `mirror_chooseMask_eq_ref`: for every version 1..40 `chooseMaskPattern` builds all eight matrices without error
    and returns the reference's choice — the lowest penalty, the lowest pattern reference on a tie; the
    `math.MaxInt32` start value is never met (penalty ≤ 85·n² + 100). -/
theorem mirror_chooseMask_eq_ref {K : Kernels} (hK : KernelsOK K) (v : Nat) (h1 : 1 ≤ v) (h40 : v ≤ 40)
    (ec : EC) (cw : List Nat) (hlen : (bitsOfBytes cw).length ≤ (zigzag v).length)
    (m0 : ByteMatrix) (hm0 : WFM (dimension v) m0) :
    ∃ pens m, chooseMaskPattern K (bitsOfBytes cw) ec v m0 = .ok (((chooseMask v ec cw : Nat) : Int), pens, m) ∧
      WFM (dimension v) m :=
  chooseMaskPattern_eq hK v h1 h40 (funcOK_all v h1 h40) ec cw hlen m0 hm0

/-! ### version choice -/

/-- `mirror_chooseVersion_eq_min` (links C13's `recommend_is_min` to the reference encoder): the two-pass
    `recommendVersion` over the `chooseVersion` loop returns the table row of the SMALLEST version whose capacity
    holds header + count indicator + data bits by the reference's `fitsBits`, and "Data too big" exactly when
    `QRRef.minVersion` finds none. -/
theorem mirror_chooseVersion_eq_min (ec : EC) (m : Mode) (hdr data : Nat) :
    QRVersionChoice.recommendVersion tables ec m hdr data =
      match minVersion ec m hdr data with
      | some v => .ok (versionInfo v)
      | none => .error .writer := recommendVersion_eq_min ec m hdr data

/-! ### data segments -/

/-- `mirror_segments_eq_ref`: the index loops of `appendNumericBytes` (3/2/1 digits in 10/7/4 bits),
    `appendAlphanumericBytes` (pairs in 11 bits, a single in 6, through `getAlphanumericCode` and the 96-entry
    table) and `append8BitBytes` produce the reference packings; `appendLengthInfo` writes the count in the version's
    count width. -/
theorem mirror_segments_eq_ref :
    (∀ (content : List Nat) (bits : List Bool), (∀ c ∈ content, isDigit c) →
      appendNumericBytes content bits = .ok (bits ++ packNumeric (content.map (· - 48)))) ∧
    (∀ (content codes : List Nat) (bits : List Bool), content.mapM alnumCode = some codes →
      appendAlphanumericBytes content bits = .ok (bits ++ packAlnum codes)) ∧
    (∀ (bs : List Nat) (bits : List Bool), append8BitBytes (some bs) bits = .ok (bits ++ bitsOfBytes bs)) ∧
    (∀ (v : Nat) (m : Mode) (count : Nat) (bits : List Bool), 1 ≤ v → v ≤ 40 → count < 2 ^ countBits m v →
      appendLengthInfo (count : Int) (versionInfo v) m bits = .ok (bits ++ toBitsBE (countBits m v) count)) :=
  ⟨fun c b h => appendNumericBytes_eq c h b, fun c k b h => appendAlphanumericBytes_eq c k h b,
   fun bs b => append8BitBytes_eq bs b, fun v m c b h1 h40 h => appendLengthInfo_eq v h1 h40 m c h b⟩

example : ∀ c ∈ [48, 49, 57], isDigit c := by intro c hc; unfold isDigit; simp at hc; omega

/-! ### composition -/

/-- `mirror_encodeBack_eq_ref`: for every version 1..40, everything `Encoder_encode` does once mode, header, data
    bits and version are fixed — terminateBits, interleaveWithECBytes, NewByteMatrix, the QR_MASK_PATTERN hint (int /
    string / other, valid or not) or chooseMaskPattern, the final MatrixUtil_buildMatrix — yields the reference symbol
    of the payload, `refMatrix` of `finalCodewords` of `terminate`, with the hinted mask or the reference's own choice. -/
theorem mirror_encodeBack_eq_ref {K : Kernels} (hK : KernelsOK K) (v : Nat) (h1 : 1 ≤ v) (h40 : v ≤ 40)
    (maskHint : Option HintVal) (f : FrontResult) (hv : f.version = versionInfo v)
    (hfit : f.headerAndDataBits.length ≤ 8 * dataCodewords v f.ec) :
    ∃ t, encodeBack K maskHint f = .ok t ∧ t.mode = f.mode ∧ t.version = v ∧ t.headerAndDataBits = f.headerAndDataBits ∧
      t.maskPattern = ((finalMask maskHint v f.ec f.headerAndDataBits : Nat) : Int) ∧
      t.terminated = bitsOfBytes (terminate (dataCodewords v f.ec) f.headerAndDataBits) ∧
      t.finalBits = bitsOfBytes (refCodewords v f.ec f.headerAndDataBits) ∧
      t.matrix = refByteMatrix v f.ec (finalMask maskHint v f.ec f.headerAndDataBits) (refCodewords v f.ec f.headerAndDataBits) :=
  encodeBack_eq_ref hK v h1 h40 (funcOK_all v h1 h40) maskHint f hv hfit

/-- `mirror_kanji_eq_packKanji` (wp `enc2`): `appendKanjiBytes` = the reference's `packKanji` for EVERY Shift_JIS byte
    string (bytes below 256), error returns included: no encoder result, an odd byte count or a pair outside
    0x8140..0x9FFC / 0xE040..0xEBBF is the WriterException "Invalid byte sequence" exactly when `packKanji` has no
    value; otherwise the 13-bit values of the reference are appended. -/
theorem mirror_kanji_eq_packKanji (sjis : Option (List Nat)) (hb : ∀ bytes, sjis = some bytes → ∀ b ∈ bytes, b < 256)
    (bits : List Bool) :
    appendKanjiBytes sjis bits =
      match sjis.bind packKanji with
      | some d => .ok (bits ++ d)
      | none => .error .writer := appendKanjiBytes_eq sjis hb bits

example : appendKanjiBytes (some [0x93, 0x5F]) [] = .ok (toBitsBE 13 0xD9F) := by decide
example : appendKanjiBytes (some [0x93]) [] = .error .writer ∧ appendKanjiBytes (some [0x80, 0x40]) [] = .error .writer := by decide

/-- `mirror_chooseMode_eq_ref` (wp `enc2`): for every content and CHARACTER_SET hint value `chooseMode` returns — never
    an error, never a panic — the mode of the reference mode analysis: Kanji iff the hint is Shift_JIS and
    `isOnlyDoubleByteKanji` (encoder result of even length whose bytes at even positions are lead bytes
    0x81..0x9F / 0xE0..0xEB), else numeric iff the content is non-empty and all digits, else alphanumeric iff it is
    non-empty and all characters are in the 45-character table (so: not all digits), else byte. -/
theorem mirror_chooseMode_eq_ref (content : List Nat) (isSJIS : Bool) (sjis : Option (List Nat)) :
    chooseMode content isSJIS sjis = .ok (refMode content isSJIS sjis) ∧
    isOnlyDoubleByteKanji sjis = .ok (onlyDoubleByteKanji sjis) ∧
    refMode content isSJIS sjis =
      (if isSJIS && onlyDoubleByteKanji sjis then Mode.kanji
       else if !content.isEmpty && content.all isDigitB then Mode.numeric
       else if !content.isEmpty && content.all inTable then Mode.alnum
       else Mode.byte) :=
  ⟨chooseMode_eq content isSJIS sjis, isOnlyDoubleByteKanji_eq sjis, rfl⟩

example : refMode [49, 50] false none = .numeric ∧ refMode [49, 65] false none = .alnum ∧
    refMode [49, 97] false none = .byte ∧ refMode [] false none = .byte ∧
    refMode [0x93, 0x5F] true (some [0x93, 0x5F]) = .kanji := by decide

/-- `mirror_encode_total` (wp `enc2`): the whole `Encoder_encode` mirror — level check, character set, `chooseMode`,
    header segments, the data-bit loop of the mode, QR_VERSION hint or `recommendVersion`, character count,
    `terminateBits`, blocks, mask, matrix — returns a symbol of a version 1..40 or a WriterException: never a panic
    (index, nil version, make), never out of fuel, for EVERY content, level value and hint values of any type. -/
theorem mirror_encode_total {K : Kernels} (hK : KernelsOK K) (inp : EncInput) :
    (∃ t, encode K inp = .ok t ∧ 1 ≤ t.version ∧ t.version ≤ 40) ∨ encode K inp = .error .writer :=
  encode_total hK inp

/-- `mirror_encode_eq_ref` — the whole `Encoder_encode` mirror = the reference construction, with NO hypothesis
    about mode or data segment: for every content, valid level, known CHARACTER_SET and GS1_FORMAT / QR_VERSION /
    QR_MASK_PATTERN hints of any dynamic type, with `modeOf inp` the reference mode analysis and `refSegment` the
    reference's data encodation of the mode's byte representation: where the reference has no segment (byte-mode
    encoder failure, a Shift_JIS pair outside the Kanji ranges) the call is a WriterException; otherwise it settles
    on the reference's version (`versionChoice`: the requested version iff it is in 1..40 and fits, else
    `minVersion`), writes the reference payload (header segments, character count, data) and returns the reference
    symbol with the hinted or the reference's own mask — and a WriterException exactly when no version is admissible.
    Codec parameters (outside the model): the Shift_JIS encoder yields bytes (< 256) and, in Kanji mode, one rune
    per byte pair; the registry's ECI value is below 128 (the code writes it in eight bits). -/
theorem mirror_encode_eq_ref {K : Kernels} (hK : KernelsOK K)
    (inp : EncInput) (ec : EC) (hec : ecOfInt inp.ecLevel = some ec)
    (hcs : ∀ cs, inp.charset = some cs → cs.known = true)
    (hsj : ∀ bs, inp.sjis = some bs → ∀ b ∈ bs, b < 256)
    (hrc : ∀ bs, inp.sjis = some bs → modeOf inp = .kanji → inp.runeCount = bs.length / 2)
    (he : ∀ e, eciOf inp (modeOf inp) = some e → e < 128) :
    match refSegment inp (modeOf inp) with
    | none => encode K inp = .error .writer
    | some (count, data) =>
      match versionChoice inp ec (modeOf inp) (headerBits (eciOf inp (modeOf inp)) (gs1OfHint inp.gs1) (modeOf inp)).length data.length with
      | some v =>
        ∃ t, encode K inp = .ok t ∧ t.mode = modeOf inp ∧ t.version = v ∧
          t.headerAndDataBits = payloadBits v (headerBits (eciOf inp (modeOf inp)) (gs1OfHint inp.gs1) (modeOf inp)) (modeOf inp) count data ∧
          t.maskPattern = ((finalMask inp.mask v ec t.headerAndDataBits : Nat) : Int) ∧
          t.finalBits = bitsOfBytes (refCodewords v ec t.headerAndDataBits) ∧
          t.matrix = refByteMatrix v ec (finalMask inp.mask v ec t.headerAndDataBits) (refCodewords v ec t.headerAndDataBits)
      | none => encode K inp = .error .writer :=
  encode_eq_ref_full hK inp ec hec hcs hsj hrc he

/-- `mirror_encode_eq_refEncode` — the sharpest form: the mirror of `Encoder_encode` IS the reference encoder
    `QRRef.refEncode` (written from ISO/IEC 18004) applied to the mode of the reference mode analysis, the mode's byte
    representation of the content (`modeBytes`: the content, the bytes of the encoding in force, the Shift_JIS bytes)
    and the configuration the hints amount to (`refConfig`): a WriterException exactly when the reference refuses
    (no encoder result, not encodable in the mode, version out of range or too small, nothing fits), otherwise the
    same mode, version, mask pattern, final codeword sequence and matrix — every module.  Same codec parameters. -/
theorem mirror_encode_eq_refEncode {K : Kernels} (hK : KernelsOK K)
    (inp : EncInput) (ec : EC) (hec : ecOfInt inp.ecLevel = some ec)
    (hcs : ∀ cs, inp.charset = some cs → cs.known = true)
    (hsj : ∀ bs, inp.sjis = some bs → ∀ b ∈ bs, b < 256)
    (hrc : ∀ bs, inp.sjis = some bs → modeOf inp = .kanji → inp.runeCount = bs.length / 2)
    (he : ∀ e, eciOf inp (modeOf inp) = some e → e < 128) :
    match (modeBytes inp (modeOf inp)).bind (fun bytes => refEncode (modeOf inp) bytes (refConfig inp ec (modeOf inp))) with
    | none => encode K inp = .error .writer
    | some s =>
      ∃ t, encode K inp = .ok t ∧ t.mode = s.mode ∧ t.version = s.version ∧ t.maskPattern = ((s.mask : Nat) : Int) ∧
        t.finalBits = bitsOfBytes s.codewords ∧ t.matrix = refByteMatrix s.version ec s.mask s.codewords ∧
        t.matrix.bytes.map (fun r => r.map (· == 1)) = s.matrix :=
  encode_eq_refEncode hK inp ec hec hcs hsj hrc he

/-- the same for a mode and segment given explicitly (any `Segment`, e.g. one of `mirror_segment_kinds`) -/
theorem mirror_encode_eq_ref_segment {K : Kernels} (hK : KernelsOK K)
    (inp : EncInput) (ec : EC) (hec : ecOfInt inp.ecLevel = some ec)
    (hcs : ∀ cs, inp.charset = some cs → cs.known = true) (m : Mode)
    (hmode : chooseMode inp.content (match inp.charset with | some cs => cs.isSJIS | none => false) inp.sjis = .ok m)
    (bytes : List Nat) (count : Nat) (data : List Bool) (seg : Segment inp m bytes count data)
    (he : ∀ e, eciOf inp m = some e → e < 128) :
    match versionChoice inp ec m (headerBits (eciOf inp m) (gs1OfHint inp.gs1) m).length data.length with
    | some v =>
      ∃ t, encode K inp = .ok t ∧ t.mode = m ∧ t.version = v ∧
        t.headerAndDataBits = payloadBits v (headerBits (eciOf inp m) (gs1OfHint inp.gs1) m) m count data ∧
        t.maskPattern = ((finalMask inp.mask v ec t.headerAndDataBits : Nat) : Int) ∧
        t.finalBits = bitsOfBytes (refCodewords v ec t.headerAndDataBits) ∧
        t.matrix = refByteMatrix v ec (finalMask inp.mask v ec t.headerAndDataBits) (refCodewords v ec t.headerAndDataBits)
    | none => encode K inp = .error .writer :=
  encode_eq_ref hK inp ec hec hcs m hmode bytes count data seg he
    (fun v hv => funcOK_all v (versionChoice_range hv).1 (versionChoice_range hv).2.1)

/-- non-vacuity of `mirror_encode_eq_ref`: a Kanji-mode input satisfying the codec parameters -/
example : ∃ inp : EncInput, ecOfInt inp.ecLevel = some .M ∧ modeOf inp = .kanji ∧
    (∀ bs, inp.sjis = some bs → ∀ b ∈ bs, b < 256) ∧
    (∀ bs, inp.sjis = some bs → modeOf inp = .kanji → inp.runeCount = bs.length / 2) ∧
    (∀ e, eciOf inp (modeOf inp) = some e → e < 128) :=
  ⟨{ content := [0xE7, 0x82, 0xB9], runeCount := 1, ecLevel := 0, charset := some ⟨true, true, some 20⟩,
     encoded := some [0x93, 0x5F], sjis := some [0x93, 0x5F] }, rfl, by decide, by
      intro bs h b hb; cases h; simp at hb; omega, by intro bs h _; cases h; rfl, by
      intro e h; simp [eciOf] at h; omega⟩

/-- the three proved segment kinds -/
theorem mirror_segment_kinds (inp : EncInput) :
    (∀ bs, inp.encoded = some bs → Segment inp .byte bs bs.length (bitsOfBytes bs)) ∧
    ((∀ c ∈ inp.content, isDigit c) →
      Segment inp .numeric inp.content inp.content.length (packNumeric (inp.content.map (· - 48)))) ∧
    (∀ codes, inp.content.mapM alnumCode = some codes →
      Segment inp .alnum inp.content inp.content.length (packAlnum codes)) :=
  ⟨fun bs h => segment_byte inp bs h, fun h => segment_numeric inp h, fun codes h => segment_alnum inp codes h⟩

example : ∃ inp : EncInput, ecOfInt inp.ecLevel = some .L ∧ inp.encoded = some [72, 105] :=
  ⟨{ content := [72, 105], runeCount := 2, ecLevel := 1, encoded := some [72, 105] }, rfl, rfl⟩

/-! ### the kernels -/

/-- the hand mirrors of the two regenerated kernels (what the driver runs) satisfy the kernel hypothesis -/
theorem mirror_kernels_ok : KernelsOK refKernels := refKernels_ok

example : (5 : Nat) ≤ 8 * dataCodewords 1 .L := by decide

end Gzx.Properties.C07Mirror
