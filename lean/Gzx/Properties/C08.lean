/-
  C08 — Data Matrix symbols conform to ISO/IEC 16022 ECC 200 (independent reference).
  Property theorems only.  Reference: Gzx/Ref/DM.lean + Gzx/Ref/DMPlacement.lean (written from the standard).
  Models: Gzx/Model/DMEncoder.lean, DMDecoder.lean, DMRead.lean (mirror the Go code; tied to it by the `c08`
  correspondence suites).  Regenerated tables/kernels are tied to the reference in Gzx/Obligations/C08.lean.
  Helper lemmas: Gzx/Proofs/DM*.lean (DMSize*/DMIlv* are per-size kernel evaluations).
-/
import Gzx.Proofs.DM
import Gzx.Proofs.DMEcc
import Gzx.Proofs.DMIlvIdx
import Gzx.Proofs.DMIlv2
import Gzx.Proofs.DMFinder
import Gzx.Proofs.DMBytes
import Gzx.Proofs.DMGF
import Gzx.Proofs.DMRS
import Gzx.Proofs.DMEncIlv
import Gzx.Proofs.DMFrame
import Gzx.Proofs.DMFrameA
import Gzx.Proofs.DMFrameB
import Gzx.Proofs.DMFrameC
import Gzx.Proofs.DMFrameD
import Gzx.Model.DMWriter
import Gzx.Proofs.DMSizeA
import Gzx.Proofs.DMSizeB
import Gzx.Proofs.DMSizeC
import Gzx.Proofs.DMSizeD
import Gzx.Proofs.DMSizeE
import Gzx.Proofs.DMSizeF
import Gzx.Proofs.DMSizeG
import Gzx.Proofs.DMSizeH
namespace Gzx.Properties.C08
open Gzx Gzx.DMRef

/-! ## the reference table is internally consistent (cross-checks of the transcription) -/

/-- every row of the reference table: regions x (region size + 2) = symbol size, regions = h x v,
    data + error codewords = mapping cells / 8 (remainder 0 or 4 = the fixed pattern), blocks x per-block
    error = error codewords, the per-block data lengths of the round-robin deal sum to the data codewords -/
theorem table7_geometry : table7.all Sym.geomOK = true := by decide

/-- the capacity order lists the same 30 rows, strictly by data capacity except the two ties (5 and 22
    codewords) where the square symbol precedes the rectangular one; the largest capacity is 1558 -/
theorem symbols_order :
    symbols.length = 30 ∧ symbols.all (fun s => table7.contains s) = true ∧
    (symbols.zip (symbols.drop 1)).all (fun p =>
      decide (p.1.nData < p.2.nData) || (p.1.nData == p.2.nData && !p.1.rect && p.2.rect)) = true ∧
    (symbols.getLast?.map (·.nData)) = some 1558 := by decide

/-- the parity lengths are exactly the per-block error counts occurring in Table 7 -/
theorem parityLengths_are_table7 :
    table7.all (fun s => parityLengths.contains s.blkErr) = true ∧
    parityLengths.all (fun n => table7.any (fun s => s.blkErr == n)) = true := by decide

/-- clause "the decoder's size table agrees with the encoder's": the version entry and the SymbolInfo entry
    that the standard prescribes for the same row describe the same symbol — rows, columns, data region size,
    total codewords, error codewords per block, and the list of per-block data lengths.
    (`Obligations.C08.gen_versions_eq` / `gen_symbols_eq` tie the Go tables to these two views.) -/
theorem decoder_table_agrees_with_encoder_table :
    (table7.zip DMDec.isoVersions).all (fun p =>
      let e := DMEnc.ofSym p.1
      let v := p.2
      v.symbolSizeRows == e.symbolHeight && v.symbolSizeColumns == e.symbolWidth &&
      v.dataRegionSizeRows == e.matrixHeight && v.dataRegionSizeColumns == e.matrixWidth &&
      v.totalCodewords == e.dataCapacity + e.errorCodewords && v.ecCodewords == e.rsBlockError &&
      (DMDec.blockShapes v).map (fun s => (s.1 : Int)) ==
        (List.range p.1.blocks).map (fun i => e.dataLengthForInterleavedBlock (i + 1)) &&
      e.interleavedBlockCount == .ok (p.1.blocks : Int)) = true ∧
    DMDec.isoVersions.length = 30 := by decide +kernel

/-- no two versions share their dimensions: `getVersionForDimensions` is unambiguous -/
theorem version_dimensions_distinct :
    (DMDec.versions.map (fun v => (v.symbolSizeRows, v.symbolSizeColumns))).Nodup := by decide +kernel

/-! ## Annex F placement -/

/-- the per-size kernel evaluations cover every row of Table 7 -/
theorem all_sizes_checked : ∀ s ∈ table7, DMProofs.sizeCheck s.mapRows s.mapCols s.total = true := by
  intro s hs
  simp only [table7, List.mem_cons, List.mem_nil_iff, or_false] at hs
  rcases hs with rfl | rfl | rfl | rfl | rfl | rfl | rfl | rfl | rfl | rfl | rfl | rfl | rfl | rfl | rfl | rfl | rfl | rfl | rfl | rfl | rfl | rfl | rfl | rfl | rfl | rfl | rfl | rfl | rfl | rfl
  · exact DMProofs.check_10x10
  · exact DMProofs.check_12x12
  · exact DMProofs.check_14x14
  · exact DMProofs.check_16x16
  · exact DMProofs.check_18x18
  · exact DMProofs.check_20x20
  · exact DMProofs.check_22x22
  · exact DMProofs.check_24x24
  · exact DMProofs.check_26x26
  · exact DMProofs.check_32x32
  · exact DMProofs.check_36x36
  · exact DMProofs.check_40x40
  · exact DMProofs.check_44x44
  · exact DMProofs.check_48x48
  · exact DMProofs.check_52x52
  · exact DMProofs.check_64x64
  · exact DMProofs.check_72x72
  · exact DMProofs.check_80x80
  · exact DMProofs.check_88x88
  · exact DMProofs.check_96x96
  · exact DMProofs.check_104x104
  · exact DMProofs.check_120x120
  · exact DMProofs.check_132x132
  · exact DMProofs.check_144x144
  · exact DMProofs.check_8x18
  · exact DMProofs.check_8x32
  · exact DMProofs.check_12x26
  · exact DMProofs.check_12x36
  · exact DMProofs.check_16x36
  · exact DMProofs.check_16x48

/-- clause "Annex F module placement with its four corner cases" (`placement_total_injective`):
    for each of the 30 sizes the placement program never leaves the mapping matrix, and every cell of the
    mapping matrix is assigned to exactly one (codeword, bit) or is one of the four cells of the fixed
    lower-right pattern; exactly `8 x (data + error codewords)` cells are assigned.
    Kernel-checked for all 30 sizes (144x144 = 17424 cells included). -/
theorem placement_total_injective : ∀ s ∈ table7,
    (placeState s.mapRows s.mapCols).bad = false ∧
    (placeSeq s.mapRows s.mapCols ++ (fixedCells s.mapRows s.mapCols).map (·.1)).Nodup ∧
    (∀ c, c ∈ placeSeq s.mapRows s.mapCols ++ (fixedCells s.mapRows s.mapCols).map (·.1) ↔
          c < s.mapRows * s.mapCols) ∧
    (placeSeq s.mapRows s.mapCols).length = 8 * s.total := by
  intro s hs
  have F := DMProofs.sizeFacts_of_check (all_sizes_checked s hs)
  exact ⟨F.nobad, DMProofs.placement_perm F⟩

/-- `read_order_eq_place_order`: the decoder's readCodewords (corner readers in a different order, extra
    wrap in readModule, else-if chain, separate read bitmap) visits the same cells in the same order as the
    reference placement, for each of the 30 sizes, and never leaves the mapping matrix -/
theorem read_order_eq_place_order : ∀ s ∈ table7,
    DMDec.readSeq s.mapRows s.mapCols = placeSeq s.mapRows s.mapCols ∧
    (DMDec.readState s.mapRows s.mapCols).oob = false := by
  intro s hs
  have F := DMProofs.sizeFacts_of_check (all_sizes_checked s hs)
  refine ⟨?_, F.nooob⟩
  unfold DMDec.readSeq placeSeq
  rw [F.readEq]

theorem ofSym_total : ∀ s ∈ table7, ∀ k, (DMDec.ofSym k s).totalCodewords = s.total := by
  intro s hs k
  have h : ∀ s ∈ table7, (DMDec.ofSym 0 s).totalCodewords = s.total := by decide +kernel
  exact h s hs

/-- consequence: `read (place cw) = cw` — for each of the 30 sizes and EVERY codeword vector of the symbol's
    length (bytes), readCodewords on the reference mapping matrix returns the vector -/
theorem read_place_inv : ∀ s ∈ table7, ∀ (k : Nat) (cw : List Nat), cw.length = s.total → (∀ x ∈ cw, x < 256) →
    DMDec.readCodewords (DMDec.ofSym k s) ⟨s.mapCols, s.mapRows, mappingBits s.mapRows s.mapCols cw⟩ = .ok cw := by
  intro s hs k cw hlen hb
  have ht := ofSym_total s hs k
  have F := DMProofs.sizeFacts_of_check (all_sizes_checked s hs)
  rw [← ht] at F hlen
  exact DMProofs.read_place (DMDec.ofSym k s) F cw hlen hb

/-- the decoder never panics and reads exactly `totalCodewords` codewords on the 18 DMRE versions as well
    (outside ISO 16022; decoder-only check) -/
theorem dmre_read_total : DMProofs.readOnlyCheck 6 44 33 = true ∧ DMProofs.readOnlyCheck 24 36 108 = true ∧
    DMProofs.readOnlyCheck 24 44 132 = true ∧ DMProofs.readOnlyCheck 24 56 168 = true :=
  ⟨DMProofs.check_dmre_8x48, DMProofs.check_dmre_26x40, DMProofs.check_dmre_26x48, DMProofs.check_dmre_26x64⟩

/-! ## Reed-Solomon parity and interleaving -/

/-- `createECCBlock_eq_polydiv`: the LFSR loop of createECCBlock (register low order first, reversed at the
    end) computes the remainder of `data(x)·x^n` modulo the monic polynomial with non-leading coefficients
    `poly` — generic in the multiplication and in the factor list (any `poly` of length `n ≥ 1`). -/
theorem createECCBlock_eq_polydiv (mul : Nat → Nat → Nat) (poly : List Nat) (hpos : 0 < poly.length)
    (data : List Nat) :
    (DMEnc.lfsr mul poly poly.length data).reverse =
      polyRem mul poly.reverse data.length (data ++ List.replicate poly.length 0) :=
  DMProofs.lfsr_eq_polyRem mul poly hpos data

/-- the modelled createECCBlock over arbitrary tables: when `numECWords = n` is found at `factorSets[t]` and
    `factors[t]` is a byte list of exactly that length, the result is that remainder (with the table
    multiplication `tabMul`) -/
theorem createECCBlock_model (factorSets : List Nat) (factors : List (List Nat)) (data : List Nat)
    (n t : Nat) (poly : List Nat) (ht : DMEnc.findTable n factorSets 0 = some t) (hp : factors[t]? = some poly)
    (hlen : poly.length = n) (hn : 0 < n) (hb : poly.all (· < 256) = true) :
    DMEnc.createECCBlock factorSets factors data n =
      .ok (polyRem DMEnc.tabMul poly.reverse data.length (data ++ List.replicate n 0)) := by
  unfold DMEnc.createECCBlock
  simp only [ht, hp]
  have htake : poly.take n = poly := List.take_of_length_le (by omega)
  cases data with
  | nil => simp [polyRem]
  | cons d ds =>
    have h1 : ¬ n = 0 := by omega
    have h2 : ¬ poly.length < n := by omega
    simp only [List.isEmpty_cons, Bool.false_eq_true, if_false, h1, h2, hb, Bool.not_true, htake]
    rw [← hlen, DMProofs.lfsr_eq_polyRem DMEnc.tabMul poly (by omega) (d :: ds)]

/-- the table multiplication of the modelled createECCBlock (log/alog tables built as `init()` builds them) is the
    reference field multiplication (shift-and-add, reduction by 0x12D) for all byte operands
    (kernel-evaluated in exponent order: 2^i·2^j = 2^((i+j) mod 255) for all 255x255 pairs) -/
theorem tabMul_is_field_mul (a b : Nat) (ha : a < 256) (hb : b < 256) : DMEnc.tabMul a b = gfMul a b :=
  DMProofs.tabMul_eq_gfMul a b ha hb

/-- the modelled createECCBlock with the standard's factor table returns the reference parity
    (remainder of data(x)·x^n modulo ∏(x-2^i)) for EVERY byte vector and each of the 16 parity lengths -/
theorem createECCBlock_eq_reference (n : Nat) (hn : n ∈ parityLengths) (data : List Nat)
    (hd : ∀ x ∈ data, x < 256) :
    DMEnc.createECCBlock parityLengths factorTable data n = .ok (eccBlock n data) :=
  DMProofs.createECCBlock_eq_ref n hn data hd

/-- the reference generator polynomials are monic of degree `n` and have no zero constant term -/
theorem genPoly_shape : parityLengths.all (fun n =>
    (genPoly n).length == n + 1 && (genPoly n).getLast? == some 1 && (genPoly n).head? != some 0 &&
    (genPoly n).all (· < 256)) = true := by decide +kernel

/-- every `2^i`, `i = 1..n`, is a root of the reference generator polynomial (Horner evaluation with the
    shift-and-add field multiplication), for each of the 16 parity lengths -/
theorem genPoly_roots : parityLengths.all (fun n =>
    (List.range n).all (fun i =>
      (genPoly n).foldr (fun c acc => gfMul acc (alpha (i + 1)) ^^^ c) 0 == 0)) = true := by decide +kernel

/-- the worked example of the standard: "123456" → data 142 164 186, error codewords 114 25 5 88 102 -/
theorem iso_example_ecc : codewords (table7.getD 0 default) [142, 164, 186] = [142, 164, 186, 114, 25, 5, 88, 102] := by
  decide +kernel

/-- `ecc_interleave_inv` at the level of index maps, for every row of Table 7 (decoder version = row number;
    144x144 = version 24 with its 8+2 blocks and the special branch of getDataBlocks included):
    the decoder's DataBlocks_getDataBlocks sends position `p` of the raw codeword stream to block `p mod B`,
    index `p / B` for a data codeword and `dataLen(block) + (p - nData) / B` for an error codeword — exactly
    where the reference interleaving (`DMRef.codewords`: data codeword `p` belongs to block `p mod B`, error
    codeword `k` is the `k / B`-th of block `(nData + k) mod B`) takes it from; no (block, index) is written
    twice and every position of every block is written; the block shapes are (dataLen b, dataLen b + blkErr).
    Kernel-evaluated (`DMProofs.idxCheck`). -/
theorem ecc_interleave_index_inv : ∀ p ∈ table7.zipIdx, DMProofs.idxCheck (p.2 + 1) p.1 = true := by
  intro p hp
  have h := DMProofs.idxCheck_all
  rw [List.all_eq_true] at h
  exact h p hp

/-- what `idxCheck` says, spelled out for one row: targets = reference owners -/
theorem ecc_interleave_targets : ∀ p ∈ table7.zipIdx,
    DMDec.dbTargets (DMDec.ofSym (p.2 + 1) p.1) = .ok ((List.range p.1.total).map (DMProofs.ownerRef p.1)) := by
  intro p hp
  exact (DMProofs.idxFacts_of_check (ecc_interleave_index_inv p hp)).targets

theorem dataLens_sum : ∀ p ∈ table7.zipIdx, p.1.dataLens.sum = p.1.nData := by decide +kernel

/-- `ecc_interleave_inv`: for every row of Table 7 (144x144 with its 8+2 blocks and the decoder's special
    version-24 branch included) and EVERY data vector `d` of the symbol's capacity, the decoder's
    DataBlocks_getDataBlocks applied to the reference codeword sequence `codewords s d` (data followed by the
    interleaved error codewords) returns for each block `b` its data count, its data codewords
    `d[b], d[b+B], …` and exactly the error codewords computed for that data; and the decoder's copy loop
    `resultBytes[i·B+j] = block_j[i]` then restores the data vector.
    (From the kernel-evaluated index maps by the generic scatter semantics of `fillBlocks`/`storeAll`.) -/
theorem ecc_interleave_inv : ∀ p ∈ table7.zipIdx, ∀ d : List Nat, d.length = p.1.nData →
    DMDec.getDataBlocks (codewords p.1 d) (DMDec.ofSym (p.2 + 1) p.1) =
      .ok ((List.range p.1.blocks).map (fun b => (p.1.dataLen b, blockData p.1 d b ++ blockEcc p.1 d b))) ∧
    DMDec.resultBytes
      ((List.range p.1.blocks).map (fun b => (p.1.dataLen b, blockData p.1 d b ++ blockEcc p.1 d b))) = .ok d := by
  intro p hp d hd
  have hc := ecc_interleave_index_inv p hp
  have F := DMProofs.idxFacts_of_check hc
  exact ⟨DMProofs.getDataBlocks_codewords (p.2 + 1) p.1 hc d hd,
    DMProofs.resultBytes_blocks p.1 F.hB F.hBn (dataLens_sum p hp) d hd⟩

/-- the decoder's version list for rows 1..30 is built from exactly these (number, row) pairs -/
theorem isoVersions_eq : DMDec.isoVersions = table7.zipIdx.map (fun p => DMDec.ofSym (p.2 + 1) p.1) := by
  decide +kernel

/-! ## finder / clock tracks, and the whole low-level chain -/

/-- the decoder's extractDataRegion coordinate map against the reference framing, kernel-evaluated per row:
    version found by dimensions = the row's version; the extracted matrix has the mapping-matrix size; its
    cell `(wx, wy)` is read from the symbol module that shows mapping cell `wy * mapCols + wx` -/
theorem extract_coords_checked : ∀ p ∈ table7.zipIdx, DMProofs.extractCheck (p.2 + 1) p.1 = true := by
  intro p hp
  have h := DMProofs.extractCheck_all
  rw [List.all_eq_true] at h
  exact h p hp

/-- clause "L-shaped finder and alternating clock tracks of every data region", decoder side: for every row
    and EVERY mapping matrix `m`, NewBitMatrixParser (dimension check, readVersion, extractDataRegion) applied
    to the reference symbol of `m` returns the row's version and `m` itself -/
theorem extract_inverts_framing : ∀ p ∈ table7.zipIdx, ∀ m : Array Bool, m.size = p.1.mapRows * p.1.mapCols →
    DMDec.newBitMatrixParser DMDec.versions (DMProofs.symbolGrid p.1 m) =
      .ok (DMDec.ofSym (p.2 + 1) p.1, ⟨p.1.mapCols, p.1.mapRows, m⟩) := by
  intro p hp m hm
  exact DMProofs.parser_of_symbolGrid (p.2 + 1) p.1 (extract_coords_checked p hp) m hm

theorem zipIdx_mem_table7 : ∀ p ∈ table7.zipIdx, p.1 ∈ table7 := by
  intro p hp
  have h := List.mem_zipIdx_iff_getElem?.1 hp
  exact List.mem_of_getElem? h

/-- THE LOW-LEVEL CHAIN: for each of the 30 ECC 200 sizes and EVERY data codeword vector `d` (bytes) of the
    symbol's capacity, the decoder model applied to the reference symbol `symbolBits s d` (reference ECC +
    interleaving + Annex F placement + finder/clock framing) recovers the version, the mapping matrix, the
    complete codeword sequence, the per-block (data ++ error) codewords and finally `d` itself
    (error correction of an undamaged block is the identity: C04/C05). -/
theorem decoder_inverts_reference_symbol : ∀ p ∈ table7.zipIdx, ∀ d : List Nat, d.length = p.1.nData →
    (∀ x ∈ d, x < 256) →
    let s := p.1
    let v := DMDec.ofSym (p.2 + 1) s
    let cw := codewords s d
    let m := mappingBits s.mapRows s.mapCols cw
    let blocks := (List.range s.blocks).map (fun b => (s.dataLen b, blockData s d b ++ blockEcc s d b))
    DMDec.newBitMatrixParser DMDec.versions ⟨s.cols, s.rows, (symbolBits s d).flatten.toArray⟩ =
        .ok (v, ⟨s.mapCols, s.mapRows, m⟩) ∧
    DMDec.readCodewords v ⟨s.mapCols, s.mapRows, m⟩ = .ok cw ∧
    DMDec.getDataBlocks cw v = .ok blocks ∧
    DMDec.resultBytes blocks = .ok d := by
  intro p hp d hd hb
  have hs := zipIdx_mem_table7 p hp
  have hcwlen : (codewords p.1 d).length = p.1.total := DMProofs.codewords_length p.1 d hd
  have hcwb : ∀ x ∈ codewords p.1 d, x < 256 := DMProofs.codewords_bytes p.1 d hb
  have hilv := ecc_interleave_inv p hp d hd
  refine ⟨?_, ?_, hilv.1, hilv.2⟩
  · exact extract_inverts_framing p hp _ (DMProofs.mappingBits_size _ _ _)
  · exact read_place_inv p.1 hs (p.2 + 1) _ hcwlen hcwb

/-! ## the ENCODER model equals the reference (round 2) -/

/-- "library ECC = standard ECC" as a theorem about the model: the modelled ErrorCorrection_EncodeECC200 — block
    extraction by stride, createECCBlock per block with the table multiplication, error codewords written by
    stride from the repaired start offset `(b + B - cap mod B) mod B` (D17) — run with the standard's factor table
    (= the regenerated Go table: `Obligations.C08.gen_factors_eq`) returns the reference codeword sequence, for
    every row of Table 7 (144x144 included) and EVERY byte vector of the symbol's capacity. -/
theorem encodeECC200_eq_reference : ∀ s ∈ table7, ∀ d : List Nat, d.length = s.nData → (∀ x ∈ d, x < 256) →
    DMEnc.encodeECC200 parityLengths factorTable d (DMEnc.ofSym s) = .ok (codewords s d) := by
  intro s hs d hd hb
  have h := DMProofs.encCheck_all
  rw [List.all_eq_true] at h
  exact DMProofs.encodeECC200_eq_codewords s (h s hs) d hd hb

theorem all_sizes_frame_checked : ∀ s ∈ table7, DMProofs.frameCheck s = true := by
  intro s hs
  simp only [table7, List.mem_cons, List.mem_nil_iff, or_false] at hs
  rcases hs with rfl | rfl | rfl | rfl | rfl | rfl | rfl | rfl | rfl | rfl | rfl | rfl | rfl | rfl | rfl | rfl | rfl | rfl | rfl | rfl | rfl | rfl | rfl | rfl | rfl | rfl | rfl | rfl | rfl | rfl
  · exact DMProofs.frame_10x10
  · exact DMProofs.frame_12x12
  · exact DMProofs.frame_14x14
  · exact DMProofs.frame_16x16
  · exact DMProofs.frame_18x18
  · exact DMProofs.frame_20x20
  · exact DMProofs.frame_22x22
  · exact DMProofs.frame_24x24
  · exact DMProofs.frame_26x26
  · exact DMProofs.frame_32x32
  · exact DMProofs.frame_36x36
  · exact DMProofs.frame_40x40
  · exact DMProofs.frame_44x44
  · exact DMProofs.frame_48x48
  · exact DMProofs.frame_52x52
  · exact DMProofs.frame_64x64
  · exact DMProofs.frame_72x72
  · exact DMProofs.frame_80x80
  · exact DMProofs.frame_88x88
  · exact DMProofs.frame_96x96
  · exact DMProofs.frame_104x104
  · exact DMProofs.frame_120x120
  · exact DMProofs.frame_132x132
  · exact DMProofs.frame_144x144
  · exact DMProofs.frame_8x18
  · exact DMProofs.frame_8x32
  · exact DMProofs.frame_12x26
  · exact DMProofs.frame_12x36
  · exact DMProofs.frame_16x36
  · exact DMProofs.frame_16x48

/-- clause "L-shaped finder and alternating clock tracks of every data region", encoder side: the modelled
    encodeLowLevel (row loop of datamatrix_writer.go, 0x0 request) applied to ANY mapping matrix `m` is the
    reference symbol of `m` (per-module definition `symbolModule`), for each of the 30 sizes -/
theorem encodeLowLevel_eq_reference_framing : ∀ s ∈ table7, ∀ m : Array Bool,
    DMEnc.encodeLowLevel (DMEnc.ofSym s) (fun x y => m.getD (y * (DMEnc.ofSym s).symbolDataWidth + x) false) =
      .ok (symbolOfMapping s m) :=
  fun s hs m => DMProofs.encodeLowLevel_eq_reference s (all_sizes_frame_checked s hs) m

theorem ofSym_mapping_size : ∀ s ∈ table7,
    (DMEnc.ofSym s).symbolDataHeight = s.mapRows ∧ (DMEnc.ofSym s).symbolDataWidth = s.mapCols := by
  decide +kernel

/-- `model_symbol_eq_reference_symbol`: for each of the 30 sizes and EVERY data codeword vector (bytes) of the
    symbol's capacity, the matrix produced by the Go-mirroring encoder model (EncodeECC200 → placement →
    encodeLowLevel, i.e. steps 2-4 of DataMatrixWriter.Encode) IS the reference matrix `symbolBits s d`. -/
theorem model_symbol_eq_reference_symbol : ∀ s ∈ table7, ∀ d : List Nat, d.length = s.nData →
    (∀ x ∈ d, x < 256) →
    DMEnc.encodeSymbol parityLengths factorTable d (DMEnc.ofSym s) = .ok (symbolBits s d) := by
  intro s hs d hd hb
  unfold DMEnc.encodeSymbol
  rw [encodeECC200_eq_reference s hs d hd hb]
  simp only
  rw [encodeLowLevel_eq_reference_framing s hs]
  obtain ⟨h1, h2⟩ := ofSym_mapping_size s hs
  rw [h1, h2]
  rfl

/-- encoder model followed by decoder model is the identity on data codewords: the low-level decoder applied to
    the symbol the encoder model produces for `d` recovers `d` (30 sizes, every byte vector) -/
theorem decoder_inverts_model_symbol : ∀ p ∈ table7.zipIdx, ∀ d : List Nat, d.length = p.1.nData →
    (∀ x ∈ d, x < 256) →
    ∃ rows m blocks, DMEnc.encodeSymbol parityLengths factorTable d (DMEnc.ofSym p.1) = .ok rows ∧
      DMDec.newBitMatrixParser DMDec.versions ⟨p.1.cols, p.1.rows, rows.flatten.toArray⟩ =
        .ok (DMDec.ofSym (p.2 + 1) p.1, m) ∧
      DMDec.readCodewords (DMDec.ofSym (p.2 + 1) p.1) m = .ok (codewords p.1 d) ∧
      DMDec.getDataBlocks (codewords p.1 d) (DMDec.ofSym (p.2 + 1) p.1) = .ok blocks ∧
      DMDec.resultBytes blocks = .ok d := by
  intro p hp d hd hb
  have h := decoder_inverts_reference_symbol p hp d hd hb
  exact ⟨_, _, _, model_symbol_eq_reference_symbol p.1 (zipIdx_mem_table7 p hp) d hd hb, h.1, h.2.1, h.2.2.1, h.2.2.2⟩

/-! ## link to C04 (Reed-Solomon over GF(256)/0x12D) -/

/-- the reference multiplication is C04's reference product `pmod 0x12D (clmul a b)` on bytes
    (C04 `gf_mul_eq_clmul_mod` then identifies it with the library's GenericGF.Multiply) -/
theorem gfMul_is_c04_product (a b : Nat) (ha : a < 256) (hb : b < 256) :
    gfMul a b = Gzx.Ref.GF.gmul 0x12D a b := DMProofs.gfMul_eq_gmul a b ha hb

/-- per-block parity = C04's Reed-Solomon encoder: `eccBlock n data = Gzx.RS.encode dataMatrix256 data n`
    for each of the 16 parity lengths and every non-empty byte vector with `|data| + n ≤ 255` -/
theorem parity_is_rs_encode (n : Nat) (hn : n ∈ parityLengths) (data : List Nat) (hne : data ≠ [])
    (hd : ∀ x ∈ data, x < 256) (hlen : data.length + n ≤ 255) :
    Gzx.RS.encode Gzx.GF.dataMatrix256 data n = .ok (eccBlock n data) :=
  DMProofs.eccBlock_eq_rs_encode n hn data hne hd hlen

/-- every block of every row fits a GF(256) code word and is non-empty -/
theorem block_shapes_fit : ∀ s ∈ table7, s.blkErr ∈ parityLengths ∧ 0 < s.blocks ∧ s.blocks ≤ s.nData ∧
    ∀ b, b < s.blocks → 1 ≤ s.dataLen b ∧ s.dataLen b + s.blkErr ≤ 255 := by decide +kernel

/-- for every row, every block `b` of the reference codeword sequence (what `ecc_interleave_inv` says the decoder
    reconstructs: `blockData s d b ++ blockEcc s d b`) is the code word `Gzx.RS.encodeWord` of its data — so C04's
    correction theorems (`rs_corrects…`) apply to each de-interleaved Data Matrix block. -/
theorem blocks_are_rs_codewords : ∀ s ∈ table7, ∀ d : List Nat, d.length = s.nData → (∀ x ∈ d, x < 256) →
    ∀ b, b < s.blocks →
      Gzx.RS.encode Gzx.GF.dataMatrix256 (blockData s d b) s.blkErr = .ok (blockEcc s d b) := by
  intro s hs d hd hb b hbB
  obtain ⟨hpar, hB, hBn, hfit⟩ := block_shapes_fit s hs
  obtain ⟨h1, h2⟩ := hfit b hbB
  have hl : (blockData s d b).length = s.dataLen b := DMProofs.blockData_length s hB d hd b (by omega)
  apply parity_is_rs_encode s.blkErr hpar
  · intro hnil
    rw [hnil] at hl
    simp at hl
    omega
  · exact DMProofs.blockData_bytes s d b hb
  · rw [hl]; exact h2

/-! ## randomising rules -/

/-- `randomize255_inv`: un-randomising inverts randomising for every byte and every position (reference) -/
theorem randomize255_inv (b p : Nat) (hb : b < 256) : unrandomize255 (randomize255 b p) p = b := by
  unfold unrandomize255 randomize255 pseudo255
  have h : 149 * p % 255 < 255 := Nat.mod_lt _ (by decide)
  generalize 149 * p % 255 = r at h
  omega

/-- the same for the modelled Go functions (`unrandomize255State ∘ base256Randomize255State`) -/
theorem randomize255_inv_model (b p : Nat) (hb : b < 256) :
    DMDec.unrandomize255State (DMEnc.randomize255State b p) p = b := by
  unfold DMDec.unrandomize255State DMEnc.randomize255State
  have e : Int.tmod (149 * (p : Int)) 255 = ((149 * p % 255 : Nat) : Int) := by
    rw [Int.tmod_eq_emod_of_nonneg (by omega)]; omega
  have h : 149 * p % 255 < 255 := Nat.mod_lt _ (by decide)
  simp only [e]
  generalize 149 * p % 255 = r at h
  split <;> split <;> omega

/-- `pad253_in_range`: a randomised pad codeword is a codeword value 1..254 at every position (reference) -/
theorem pad253_in_range (p : Nat) : 1 ≤ randomize253 p ∧ randomize253 p ≤ 254 := by
  unfold randomize253
  omega

/-- the modelled `randomize253State` equals the reference rule at every position, hence is in 1..254 -/
theorem pad253_model (p : Nat) : DMEnc.randomize253State p = (randomize253 p : Nat) := by
  unfold DMEnc.randomize253State randomize253 pseudo253
  have e : Int.tmod (149 * (p : Int)) 253 = ((149 * p % 253 : Nat) : Int) := by
    rw [Int.tmod_eq_emod_of_nonneg (by omega)]; omega
  have h : 149 * p % 253 < 253 := Nat.mod_lt _ (by decide)
  simp only [e]
  generalize 149 * p % 253 = r at h
  split <;> omega

/-- the modelled `base256Randomize255State` equals the reference rule for every byte and position -/
theorem rand255_model (b p : Nat) (hb : b < 256) : DMEnc.randomize255State b p = (randomize255 b p : Nat) := by
  unfold DMEnc.randomize255State randomize255 pseudo255
  have e : Int.tmod (149 * (p : Int)) 255 = ((149 * p % 255 : Nat) : Int) := by
    rw [Int.tmod_eq_emod_of_nonneg (by omega)]; omega
  have h : 149 * p % 255 < 255 := Nat.mod_lt _ (by decide)
  simp only [e]
  generalize 149 * p % 255 = r at h
  split <;> omega

/-! ## non-vacuity -/

example : (table7.getD 23 default) ∈ table7 := by decide
example : (table7.getD 23 default, 23) ∈ table7.zipIdx := by decide
example : DMEnc.findTable 5 parityLengths 0 = some 0 ∧ factorTable[0]? = some [228, 48, 15, 111, 62] := by decide +kernel
example : unrandomize255 (randomize255 200 1000) 1000 = 200 := by decide
example : randomize253 3 = 70 := by decide

end Gzx.Properties.C08
