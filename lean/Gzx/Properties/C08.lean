import Gzx.Ref.DM
import Gzx.Model.DMEncoder
import Gzx.Model.DMDecoder
namespace Gzx.Properties.C08
open Gzx

/-- the 30 rows of the reference table are internally consistent (geometry, capacity, block sums) -/
theorem table7_geometry : DMRef.table7.all DMRef.Sym.geomOK = true := by decide

end Gzx.Properties.C08
