/-
  C08 (work package dmmirror) — what can be said about the DMRE rows 31..48 of the decoder's version table without a
  reliable copy of ISO/IEC 21471: the table rows stay a transcription of version.go (`DMDec.dmreVersions`, tied to the
  regenerated table by `Obligations.C08.gen_versions_eq`), but every row is cross-checked against the GEOMETRY of its own
  symbol size, which is independent of the codeword counts: the data regions tile the symbol (each region framed by a
  finder/clock border of one module on every side), and the mapping matrix holds exactly `totalCodewords` codewords
  (8 modules each, at most 7 modules left over).  This fixes data + error codewords of every DMRE row; the split between
  the two is NOT cross-checked (no independent source), and no claim of conformance to ISO/IEC 21471 is made.
-/
import Gzx.Model.DMDecoder
namespace Gzx.C08Mirror
open Gzx

/-- geometry of one version row: regions tile the symbol, the mapping matrix carries `totalCodewords` codewords -/
def geometryOK (v : DMDec.Version) : Bool :=
  let nr := v.symbolSizeRows / v.dataRegionSizeRows
  let nc := v.symbolSizeColumns / v.dataRegionSizeColumns
  decide (0 < v.dataRegionSizeRows) && decide (0 < v.dataRegionSizeColumns) &&
  (nr * (v.dataRegionSizeRows + 2) == v.symbolSizeRows) && (nc * (v.dataRegionSizeColumns + 2) == v.symbolSizeColumns) &&
  ((nr * v.dataRegionSizeRows) * (nc * v.dataRegionSizeColumns) / 8 == v.totalCodewords)

/-- every DMRE row (31..48) passes the geometry check -/
theorem dmre_geometry : DMDec.dmreVersions.all geometryOK = true := by decide +kernel

/-- the same check accepts all 30 rows of ISO/IEC 16022 (which ARE tied to the standard's table): the check is the
    right one -/
theorem iso_geometry : DMDec.isoVersions.all geometryOK = true := by decide +kernel

/-- the check is not vacuous: one data codeword more in 8x48 is rejected -/
example : geometryOK ⟨31, 8, 48, 6, 22, 15, [⟨1, 19⟩]⟩ = false := by decide +kernel

end Gzx.C08Mirror
