/-
  C09 — located symbols are never misread; orientation and mirroring are handled.

  The guarantee itself ("the text is the content or the call fails") depends on floating-point
  detectors and on Reed-Solomon / check-digit rejection of mis-sampled grids; it is checked by
  the exploration oracle on the real code (harness/c09.go), NOT proved.  PROVED here is the
  decision logic around the detectors, over models tied to the code by correspondence:
    * pose algebra: sampling block centres of an upscaled image returns the image; padding is
      undone by cropping; four quarter turns are the identity; rot180 is "reverse the rows and
      reverse each row" (the reversed-row retry of the 1-D readers looks at exactly the rows of
      the upside-down image); transposition is an involution;
    * OneDReader.doDecode / Decode: the scan only looks at rows inside the image, starts at the
      middle, terminates; a symbol readable only on the reversed row is returned with
      ORIENTATION 180 and x-mirrored points; with TRY_HARDER a sideways symbol is returned with
      orientation (270 + o) mod 360 and remapped points; without TRY_HARDER no rotation happens;
      checksum/format failures never trigger the rotation retry;
    * QR Decoder.Decode: if the first pass fails with Format/Checksum and the mirrored pass
      succeeds the result is flagged mirrored; a matrix and its transpose decode to the same
      text with opposite flags; the error of a double failure is the first pass's; it never
      returns neither result nor error.
-/
import Gzx.Model.Poses
import Gzx.Model.OneDScan
import Gzx.Model.QRMirror
namespace Gzx.Properties.C09
open Gzx

/-! ## pose algebra -/
section Poses
open Gzx.Poses

/-- `scale_sample_inv`: sampling the block centres of `scale k m` returns `m` (every k ≥ 1) -/
theorem scale_sample_inv (k : Nat) (hk : 0 < k) (m : Img) :
    (sampleCentres k m.w m.h (scale k m)).Equiv m := by
  refine ⟨rfl, rfl, ?_⟩
  intro x y _ _
  simp only [sampleCentres, scale]
  have hx : (x * k + k / 2) / k = x := by
    rw [Nat.mul_comm x k, Nat.mul_add_div hk, Nat.div_eq_of_lt (Nat.div_lt_self hk (by decide))]; omega
  have hy : (y * k + k / 2) / k = y := by
    rw [Nat.mul_comm y k, Nat.mul_add_div hk, Nat.div_eq_of_lt (Nat.div_lt_self hk (by decide))]; omega
  rw [hx, hy]

/-- every pixel of a block shows its module (not only the centre) -/
theorem scale_block (k : Nat) (hk : 0 < k) (m : Img) (x y dx dy : Nat) (hdx : dx < k) (hdy : dy < k) :
    (scale k m).px (x * k + dx) (y * k + dy) = m.px x y := by
  simp only [scale]
  have hx : (x * k + dx) / k = x := by
    rw [Nat.mul_comm x k, Nat.mul_add_div hk, Nat.div_eq_of_lt hdx]; omega
  have hy : (y * k + dy) / k = y := by
    rw [Nat.mul_comm y k, Nat.mul_add_div hk, Nat.div_eq_of_lt hdy]; omega
  rw [hx, hy]

/-- padding adds white pixels only and keeps the symbol at offset (p, p) -/
theorem pad_inside (p : Nat) (m : Img) (x y : Nat) (hx : x < m.w) (hy : y < m.h) :
    (pad p m).px (x + p) (y + p) = m.px x y := by
  simp only [pad]
  have : p ≤ x + p ∧ x + p < p + m.w ∧ p ≤ y + p ∧ y + p < p + m.h := by omega
  simp only [this, and_self, if_true]
  congr 1 <;> omega

theorem pad_outside (p : Nat) (m : Img) (x y : Nat) (h : x < p ∨ y < p ∨ p + m.w ≤ x ∨ p + m.h ≤ y) :
    (pad p m).px x y = false := by
  simp only [pad]
  have : ¬ (p ≤ x ∧ x < p + m.w ∧ p ≤ y ∧ y < p + m.h) := by omega
  simp only [this, if_false]

/-- `rot90_four = id` -/
theorem rot90_four (m : Img) : (rot90 (rot90 (rot90 (rot90 m)))).Equiv m := by
  refine ⟨rfl, rfl, ?_⟩
  intro x y hx hy
  simp only [rot90] at hx hy ⊢
  congr 1 <;> omega

/-- a clockwise and a counter-clockwise quarter turn cancel (the TRY_HARDER retry turns a
    clockwise-rotated symbol back upright) -/
theorem rotCCW_rot90 (m : Img) : (rotCCW (rot90 m)).Equiv m := by
  refine ⟨rfl, rfl, ?_⟩
  intro x y hx hy
  simp only [rot90, rotCCW] at hx hy ⊢
  first | rfl | (congr 1 <;> omega)

/-- two quarter turns are the half turn -/
theorem rot90_twice (m : Img) : (rot90 (rot90 m)).Equiv (rot180 m) := by
  refine ⟨rfl, rfl, ?_⟩
  intro x y hx hy
  simp only [rot90, rot180] at hx hy ⊢

/-- a symbol turned counter-clockwise from clockwise-270 (= CCW once more) is upside down:
    CCW of rot90³ is rot180 — the 90-degree retry then needs the reversed-row retry, giving 270+180 -/
theorem rotCCW_rot270 (m : Img) : (rotCCW (rot90 (rot90 (rot90 m)))).Equiv (rot180 m) := by
  refine ⟨rfl, rfl, ?_⟩
  intro x y hx hy
  simp only [rot90, rotCCW, rot180] at hx hy ⊢
  congr 1 <;> omega

/-- `transpose_involutive` -/
theorem transpose_involutive (m : Img) : (transpose (transpose m)).Equiv m :=
  ⟨rfl, rfl, fun _ _ _ _ => rfl⟩

theorem reverse_range_map {α : Type} (n : Nat) (f : Nat → α) :
    ((List.range n).map f).reverse = (List.range n).map (fun i => f (n - 1 - i)) := by
  apply List.ext_getElem
  · simp
  · intro i h1 h2
    simp only [List.length_reverse, List.length_map, List.length_range] at h1
    simp only [List.getElem_reverse, List.getElem_map, List.getElem_range, List.length_map, List.length_range]

/-- `rot180_eq_reverse_rows_reverse_each`: the rows of the upside-down image are the rows in
    reverse order, each reversed — row y of rot180 is the reversed row h-1-y, which is what
    `row.Reverse()` in doDecode produces from the upright image's row -/
theorem rot180_eq_reverse_rows_reverse_each (m : Img) :
    rows (rot180 m) = ((rows m).map List.reverse).reverse := by
  simp only [rows, rot180, List.map_map]
  rw [reverse_range_map]
  apply List.map_congr_left
  intro y _
  simp only [Function.comp]
  rw [reverse_range_map]

theorem row_rot180 (m : Img) (y : Nat) : row (rot180 m) y = (row m (m.h - 1 - y)).reverse := by
  simp only [row, rot180]
  rw [reverse_range_map]

end Poses

/-! ## OneDReader scan logic -/
section OneD
open Gzx.OneDScan

theorem rowStep_pos (height : Nat) (th : Bool) : 1 ≤ rowStepOf height th := by
  unfold rowStepOf; exact Nat.le_max_left _ _

/-- "the scan visits only rows in range": every row number handed to GetBlackRow / DecodeRow is < height -/
theorem visit_in_range (height : Nat) (th : Bool) : ∀ r ∈ visitOrder height th, r < height := by
  unfold visitOrder
  generalize height / 2 = middle
  generalize rowStepOf height th = step
  generalize maxLinesOf height th = fuel
  suffices h : ∀ fuel x, ∀ r ∈ visitOrder.go height middle step fuel x, r < height from h fuel 0
  intro fuel
  induction fuel with
  | zero => intro x r hr; simp [visitOrder.go] at hr
  | succ f ih =>
    intro x r hr
    simp only [visitOrder.go] at hr
    split at hr
    · cases hr
    · rename_i hin
      rcases List.mem_cons.mp hr with e | hr'
      · subst e; omega
      · exact ih (x + 1) r hr'

theorem rowAt_zero (middle step : Nat) : rowAt middle step 0 = (middle : Int) := by simp [rowAt]

/-- the scan starts at the middle row (when the image has a row at all) -/
theorem visit_first_is_middle (height : Nat) (th : Bool) (hh : 0 < height) :
    (visitOrder height th).head? = some (height / 2) := by
  unfold visitOrder
  have hml : maxLinesOf height th = (maxLinesOf height th - 1) + 1 := by
    unfold maxLinesOf; split <;> omega
  rw [hml]
  simp only [visitOrder.go, rowAt_zero]
  have hin : ¬ (((height / 2 : Nat) : Int) < 0 ∨ ((height / 2 : Nat) : Int) ≥ (height : Int)) := by omega
  simp only [hin, if_false, List.head?_cons, Int.toNat_natCast]

/-- termination / cost: at most `maxLines` rows are examined (two DecodeRow calls each) -/
theorem visit_length_le (height : Nat) (th : Bool) : (visitOrder height th).length ≤ maxLinesOf height th := by
  unfold visitOrder
  generalize height / 2 = middle
  generalize rowStepOf height th = step
  generalize maxLinesOf height th = fuel
  suffices h : ∀ fuel x, (visitOrder.go height middle step fuel x).length ≤ fuel from h fuel 0
  intro fuel
  induction fuel with
  | zero => intro x; simp [visitOrder.go]
  | succ f ih =>
    intro x
    simp only [visitOrder.go]
    split
    · simp
    · simp only [List.length_cons]; have := ih (x + 1); omega

/-- clause "upside-down 1-D is read with orientation 180": if on the middle row the decoder fails
    (with a reader exception) on the row as it is and succeeds on the reversed row, the result is
    that hit with ORIENTATION 180 and its two points mirrored horizontally -/
theorem reversed_middle_row_gives_180 (width height : Nat) (th : Bool) (black : Nat → Bool)
    (dec : Nat → Bool → Res Hit) (hh : 0 < height) (hb : black (height / 2) = true)
    (e : Fault) (he : isReaderException e = true)
    (h0 : dec (height / 2) false = .error e) (hit : Hit) (h1 : dec (height / 2) true = .ok hit) :
    doDecode width height th black dec =
      .ok { hit with orientation := some 180, points := flipPoints width hit.points } := by
  unfold doDecode
  have hml : maxLinesOf height th = (maxLinesOf height th - 1) + 1 := by
    unfold maxLinesOf; split <;> omega
  rw [hml]
  simp only [scanLoop, rowAt]
  have hr : ((height / 2 : Nat) : Int) + ((rowStepOf height th : Nat) : Int) * (((0 + 1) / 2 : Nat) : Int) = ((height / 2 : Nat) : Int) := by
    simp
  have hin : ¬ (((height / 2 : Nat) : Int) < 0 ∨ ((height / 2 : Nat) : Int) ≥ (height : Int)) := by omega
  simp only [if_true, hr, hin, if_false, Int.toNat_natCast, hb, Bool.not_true,
    Bool.false_eq_true, scanRow, h0, he, h1]

/-- a symbol readable upright on the middle row is returned as it is (no orientation added) -/
theorem upright_middle_row (width height : Nat) (th : Bool) (black : Nat → Bool)
    (dec : Nat → Bool → Res Hit) (hh : 0 < height) (hb : black (height / 2) = true)
    (hit : Hit) (h0 : dec (height / 2) false = .ok hit) :
    doDecode width height th black dec = .ok hit := by
  unfold doDecode
  have hml : maxLinesOf height th = (maxLinesOf height th - 1) + 1 := by
    unfold maxLinesOf; split <;> omega
  rw [hml]
  simp only [scanLoop, rowAt]
  have hr : ((height / 2 : Nat) : Int) + ((rowStepOf height th : Nat) : Int) * (((0 + 1) / 2 : Nat) : Int) = ((height / 2 : Nat) : Int) := by
    simp
  have hin : ¬ (((height / 2 : Nat) : Int) < 0 ∨ ((height / 2 : Nat) : Int) ≥ (height : Int)) := by omega
  simp only [if_true, hr, hin, if_false, Int.toNat_natCast, hb, Bool.not_true,
    Bool.false_eq_true, scanRow, h0]

/-- clause "a sideways one is read when asked to try harder": upright scan finds nothing, the
    scan of the image turned counter-clockwise finds `hit` ⇒ orientation (270 + o) mod 360
    (270 if the rotated scan needed no reversal) and points (x, y) ↦ (width − y − 1, x) -/
theorem tryharder_rotation (width height : Nat) (black black' : Nat → Bool)
    (dec dec' : Nat → Bool → Res Hit)
    (hup : doDecode width height true black dec = .error .notFound)
    (hit : Hit) (hrot : doDecode height width true black' dec' = .ok hit) :
    decode width height true true black dec black' dec' =
      .ok { hit with
            orientation := some (rotOrientation hit.orientation),
            points := rotatePoints width hit.points } := by
  unfold decode
  simp [hup, hrot]

/-- an upside-down symbol found by the rotated scan reports 270 + 180 = 90 degrees -/
theorem tryharder_rotation_reversed (width height : Nat) (black black' : Nat → Bool)
    (dec dec' : Nat → Bool → Res Hit)
    (hup : doDecode width height true black dec = .error .notFound)
    (hit : Hit) (ho : hit.orientation = some 180)
    (hrot : doDecode height width true black' dec' = .ok hit) :
    ∃ r, decode width height true true black dec black' dec' = .ok r ∧ r.orientation = some 90 := by
  rw [tryharder_rotation width height black black' dec dec' hup hit hrot]
  exact ⟨_, rfl, by simp [ho, rotOrientation]⟩

/-- without TRY_HARDER (or without rotation support) the image is never rotated -/
theorem no_rotation_without_tryharder (width height : Nat) (rot : Bool) (black black' : Nat → Bool)
    (dec dec' : Nat → Bool → Res Hit) :
    decode width height false rot black dec black' dec' = doDecode width height false black dec := by
  unfold decode
  cases h : doDecode width height false black dec with
  | ok r => rfl
  | error e =>
    by_cases hn : e = .notFound
    · simp [hn]
    · simp [hn]

/-- only NotFound triggers the rotation retry: a checksum or format failure of the upright scan is final -/
theorem no_rotation_after_checksum (width height : Nat) (th rot : Bool) (black black' : Nat → Bool)
    (dec dec' : Nat → Bool → Res Hit) (e : Fault) (hne : e ≠ .notFound)
    (hup : doDecode width height th black dec = .error e) :
    decode width height th rot black dec black' dec' = .error e := by
  unfold decode
  simp [hup, hne]

-- non-vacuity: a 40-row image whose middle row (20) only decodes reversed
example :
    doDecode 100 40 false (fun _ => true)
      (fun r rev => if r = 20 ∧ rev then .ok ⟨7, none, [(10, 20), (60, 20)]⟩ else .error .notFound)
    = .ok ⟨7, some 180, [(89, 20), (39, 20)]⟩ := by decide

example : visitOrder 5 false = [2, 1, 3, 0, 4] := by decide
example : visitOrder 100 false = [50, 47, 53, 44, 56, 41, 59, 38, 62, 35, 65, 32, 68, 29, 71] := by decide

end OneD

/-! ## QR mirrored retry -/
section QR
open Gzx.QRMirror
variable {M T : Type}

/-- `qr_mirror_retry`: first attempt fails, the mirrored header reads and the mirrored matrix
    decodes ⇒ the text is returned and flagged mirrored -/
theorem qr_mirror_retry (mirror : M → M) (inner : M → Res T) (header : M → Res Unit) (m : M)
    (e : Fault) (h1 : inner m = .error e) (hh : header (mirror m) = .ok ()) (t : T)
    (h2 : inner (mirror m) = .ok t) :
    decode mirror inner header m = .ok (some ⟨t, true⟩) := by
  simp [decode, secondPass, h1, hh, h2]

/-- a symbol that decodes directly is never flagged -/
theorem qr_direct_not_flagged (mirror : M → M) (inner : M → Res T) (header : M → Res Unit) (m : M)
    (t : T) (h1 : inner m = .ok t) : decode mirror inner header m = .ok (some ⟨t, false⟩) := by
  simp [decode, h1]

/-- clause "a mirrored QR Code is read and flagged as mirrored": if `m` decodes directly to `t`
    and its mirror image does not decode directly, the mirror image decodes to the same `t`,
    flagged (mirror is an involution; the header of a decodable matrix reads) -/
theorem qr_mirrored_symbol_read_and_flagged (mirror : M → M) (hinv : ∀ m, mirror (mirror m) = m)
    (inner : M → Res T) (header : M → Res Unit) (hhdr : ∀ m t, inner m = .ok t → header m = .ok ())
    (m : M) (t : T) (h1 : inner m = .ok t) (e : Fault) (h2 : inner (mirror m) = .error e) :
    decode mirror inner header (mirror m) = .ok (some ⟨t, true⟩) := by
  simp [decode, secondPass, h2, hinv, hhdr m t h1, h1]

/-- error taxonomy of a double failure: Format/Checksum of the second pass is replaced by the
    FIRST pass's error; any other second error is passed on -/
theorem qr_double_failure_error (mirror : M → M) (inner : M → Res T) (header : M → Res Unit) (m : M)
    (e1 : Fault) (h1 : inner m = .error e1) (hfc : isFormatOrChecksum e1 = true)
    (e2 : Fault) (h2 : secondPass mirror inner header m = .error e2)
    (hfc2 : isFormatOrChecksum e2 = true) :
    decode mirror inner header m = .error e1 := by
  simp [decode, h1, h2, hfc, hfc2]

/-- C06 aspect: `Decode` never returns neither result nor error, because every error of the
    single-pass decoder is a Format or Checksum exception -/
theorem qr_decode_never_neither (mirror : M → M) (inner : M → Res T) (header : M → Res Unit)
    (hinner : ∀ m e, inner m = .error e → isFormatOrChecksum e = true) (m : M) :
    decode mirror inner header m ≠ .ok none := by
  unfold decode
  cases h1 : inner m with
  | ok t => simp
  | error e1 =>
    have hf := hinner m e1 h1
    simp only
    split
    · simp
    · rename_i e2 _
      by_cases hc : isFormatOrChecksum e2 = true
      · simp [hc, hf]
      · simp [hc]

/-- decoding a matrix and decoding its mirror image are tied together: direct/direct, direct/
    mirrored with the same text, mirrored/direct with the same text, or error/error — nothing else.
    (This relation is what the `qrpair` correspondence op checks on the real decoder.) -/
theorem qr_pair_consistent [DecidableEq T] (mirror : M → M) (hinv : ∀ m, mirror (mirror m) = m)
    (inner : M → Res T) (header : M → Res Unit) (hhdr : ∀ m t, inner m = .ok t → header m = .ok ())
    (hinner : ∀ m e, inner m = .error e → isFormatOrChecksum e = true) (m : M) :
    pairConsistent (decode mirror inner header m) (decode mirror inner header (mirror m)) = true := by
  cases h1 : inner m with
  | ok t =>
    cases h2 : inner (mirror m) with
    | ok t' => simp [decode, h1, h2, pairConsistent]
    | error e2 => simp [decode, secondPass, h1, h2, hinv, hhdr m t h1, pairConsistent]
  | error e1 =>
    have f1 := hinner m e1 h1
    cases h2 : inner (mirror m) with
    | ok t' => simp [decode, secondPass, h1, h2, hhdr (mirror m) t' h2, pairConsistent]
    | error e2 =>
      have f2 := hinner (mirror m) e2 h2
      -- both second passes fail: header error or the inner error
      cases hh1 : header (mirror m) with
      | error eh1 =>
        cases hh2 : header m with
        | error eh2 =>
          by_cases c1 : isFormatOrChecksum eh1 = true <;> by_cases c2 : isFormatOrChecksum eh2 = true <;>
            simp [decode, secondPass, h1, h2, hinv, hh1, hh2, f1, f2, c1, c2, pairConsistent]
        | ok u =>
          by_cases c1 : isFormatOrChecksum eh1 = true <;>
            simp [decode, secondPass, h1, h2, hinv, hh1, hh2, f1, f2, c1, pairConsistent]
      | ok u =>
        cases hh2 : header m with
        | error eh2 =>
          by_cases c2 : isFormatOrChecksum eh2 = true <;>
            simp [decode, secondPass, h1, h2, hinv, hh1, hh2, f1, f2, c2, pairConsistent]
        | ok u2 => simp [decode, secondPass, h1, h2, hinv, hh1, hh2, f1, f2, pairConsistent]

/-- the nil-interface path exists in the state machine: with a first error that is not
    Format/Checksum the code would return neither (unreachable in the library, see above) -/
example : decode (M := Nat) (T := Nat) (fun m => 1 - m) (fun m => if m = 0 then .error .notFound else .error .format)
    (fun _ => .ok ()) 0 = .ok none := by decide

example : decode (M := Nat) (T := Nat) (fun m => 1 - m) (fun m => if m = 1 then .ok 42 else .error .checksum)
    (fun _ => .ok ()) 0 = .ok (some ⟨42, true⟩) := by decide

end QR

end Gzx.Properties.C09
