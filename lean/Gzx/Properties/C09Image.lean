/-
  C09 (wp imgpath1d) — poses of the written 1-D image on the composed image-path model (Gzx/Model/Image1D.lean):
  "A 1D barcode turned upside down is read with its content and a 180-degree orientation, a sideways one is read when
  asked to try harder".

  * SIDEWAYS — full, all nine symbologies (`oned_sideways_tryharder_reads_<sym>`): the written image turned by 90°
    (clockwise) and read with TRY_HARDER gives the content with ORIENTATION 270.  Facts used: every pixel row of the turned
    picture has one colour — `GetBlackRow` answers NotFound on a black row (single histogram peak: contrast test) and
    NotFound or an all-white row on a white one; every `DecodeRow` refuses an all-white row with NotFound; so the upright
    scan of all rows finds nothing; `RotateCounterClockwise` of the turned picture's bitmap IS the bitmap of the written
    image; the rotated scan finds the symbol on its middle row.
  * UPSIDE DOWN — `oned_upside_down_outcome`: complete characterisation for all nine: the result is decided by what the
    reader's `DecodeRow` makes of the REVERSED rendered row (first attempt on the middle row).  The row read-back theorems
    do not talk about reversed symbols; what holds in general is the trichotomy.  `oned_upside_down_reads_partial`: when
    that first attempt is refused with a reader exception, the content comes back with ORIENTATION 180.
    FULL for Code 39 (`oned_upside_down_reads_code39`): the reversed symbol is refused by `code39FindAsteriskPattern` —
    the first window is the reversed asterisk, whose narrow/wide word differs from the asterisk's (table condition
    `revStar39`, per-run obligation), every later window fails the quiet-zone test (≤ 2 modules of white in front of a
    window ≥ 9 modules wide).
    That the first attempt IS refused is NOT a property of the pattern tables alone for Code 128 and Code 93: reversed
    DATA can contain a window that passes the start test (Code 128: e.g. the reversed pair (98, 73) at 2 px/module passes
    `code128FindStartPattern`'s variance and quiet-zone test; Code 93: a reversed first data character 1, 2, 3, 7, L, M
    or N followed by the reversed start character contains the asterisk pattern, and Code 93 has no quiet-zone test);
    the refusal then comes from the checksum / missing stop further on.  Evaluated instances below.
-/
import Gzx.Properties.C03Image
import Gzx.Proofs.Image1DWhite
import Gzx.Proofs.Image1DRev39
namespace Gzx.Properties.C09Image
open Gzx Gzx.OneD Gzx.Image1D Gzx.Image1DPath Gzx.Image1DWhite Gzx.Properties.C03Image

/-! ## upside down -/

/-- **`oned_upside_down_outcome`** (all nine symbologies, via `Readable` — the `<sym>_readable` lemmas of
    Properties/C03Image.lean): for the written image turned by 180°, either binariser, TRY_HARDER or not, `Decode` returns
    * what `DecodeRow` reads on the reversed rendered row, upright and without orientation, if it reads anything;
    * the written content with ORIENTATION 180 from the reversed middle row if `DecodeRow` refuses with a reader exception;
    * that failure otherwise. -/
theorem oned_upside_down_outcome {E : Env} {sym : Sym} {ext39 : Bool} {contents : List Nat} {width height : Nat}
    {margin forced : Option Nat} {canonical : List Nat} {mods : List Bool} {m : Nat}
    (hR : Readable E sym ext39 contents width height margin forced canonical mods m) (binz : Binz) (th : Bool) :
    ∃ lq s rq, OneD.renderRow mods width m = .ok (paddedRow lq s rq mods) ∧
      imagePath E sym contents width height (margin.map Int.ofNat) forced .upsideDown binz ext39 th =
        match rowRead E ext39 (scanSym sym) ((max 1 height / 2 : Nat) : Int) (paddedRow lq s rq mods).reverse with
        | .ok t =>
          (match finishRead sym t with
           | .error e => .error e
           | .ok r => .ok ⟨r.1, r.2, max 1 height / 2, false, false, none⟩)
        | .error e =>
          if OneDScan.isReaderException e then .ok ⟨sym, canonical, max 1 height / 2, true, false, some 180⟩
          else .error e :=
  upside_down_outcome hR binz th

/-- **`oned_upside_down_reads_partial`** — missing for the full statement: that `DecodeRow` refuses the reversed rendered
    row (hypothesis `hrefuse`); see the file header for why this is not a table property for Code 128 / Code 93. -/
theorem oned_upside_down_reads_partial {E : Env} {sym : Sym} {ext39 : Bool} {contents : List Nat} {width height : Nat}
    {margin forced : Option Nat} {canonical : List Nat} {mods : List Bool} {m : Nat}
    (hR : Readable E sym ext39 contents width height margin forced canonical mods m)
    (hrefuse : ∀ (lq s rq : Nat) (rn : Int), 1 ≤ s → m * s ≤ lq + rq → lq = (lq + rq) / 2 → s ≤ max 1 width →
      ∃ e, OneDScan.isReaderException e = true ∧
        rowRead E ext39 (scanSym sym) rn (paddedRow lq s rq mods).reverse = .error e)
    (binz : Binz) (th : Bool) :
    imagePath E sym contents width height (margin.map Int.ofNat) forced .upsideDown binz ext39 th =
      .ok ⟨sym, canonical, max 1 height / 2, true, false, some 180⟩ :=
  upside_down_of_readable hR hrefuse binz th

/-- Code 128 instance of the partial theorem, hypotheses spelled out on the Code 128 row decoder -/
theorem oned_upside_down_reads_code128_partial (E : Env) (hT : Row128.wfRow128B E.T.code128 = true) (contents : List Nat)
    (mods : List Bool) (hascii : ∀ c ∈ contents, c < 128) (h : code128Modules E.T contents none = .ok mods)
    (width height : Nat) (margin : Option Nat) (hm : 2 ≤ margin.getD 10)
    (hrefuse : ∀ (lq s rq : Nat), 1 ≤ s → ∃ e, OneDScan.isReaderException e = true ∧
      Row128.decodeRow Row128.exactDom E.T.code128 (paddedRow lq s rq mods).reverse false = .error e)
    (binz : Binz) (ext39 th : Bool) :
    imagePath E .code128 contents width height (margin.map Int.ofNat) none .upsideDown binz ext39 th =
      .ok ⟨.code128, contents, max 1 height / 2, true, false, some 180⟩ :=
  upside_down_of_readable (code128_readable E hT contents mods hascii h width height margin hm ext39)
    (fun lq s rq _ hs _ _ _ => by
      obtain ⟨e, he, hf⟩ := hrefuse lq s rq hs
      exact ⟨e, he, by simp only [scanSym, rowRead, hf, Except.map]⟩) binz th

/-- Code 93 instance of the partial theorem -/
theorem oned_upside_down_reads_code93_partial (E : Env) (hT : Row39.WF93Row E.T = true) (contents : List Nat)
    (mods : List Bool) (hne : contents ≠ []) (hascii : ∀ c ∈ contents, c < 128) (h : code93Modules E.T contents = .ok mods)
    (width height : Nat) (margin : Option Nat) (hm : 2 ≤ margin.getD 10)
    (hrefuse : ∀ (lq s rq : Nat), 1 ≤ s → ∃ e, OneDScan.isReaderException e = true ∧
      Row39.c93DecodeRow E.T (paddedRow lq s rq mods).reverse = .error e)
    (binz : Binz) (ext39 th : Bool) :
    imagePath E .code93 contents width height (margin.map Int.ofNat) none .upsideDown binz ext39 th =
      .ok ⟨.code93, contents, max 1 height / 2, true, false, some 180⟩ :=
  upside_down_of_readable (code93_readable E hT contents mods hne hascii h width height margin hm ext39)
    (fun lq s rq _ hs _ _ _ => by
      obtain ⟨e, he, hf⟩ := hrefuse lq s rq hs
      exact ⟨e, he, by simp only [scanSym, rowRead, hf, Except.map]⟩) binz th

/-- Code 39 instance of the partial theorem -/
theorem oned_upside_down_reads_code39_partial (E : Env) (hT : Row39.WF39Row E.T = true) (contents : List Nat)
    (mods : List Bool) (hne : contents ≠ []) (hascii : ∀ c ∈ contents, c < 128) (h : code39Modules E.T contents = .ok mods)
    (width height : Nat) (hw31 : width ≤ 2147483647) (margin : Option Nat) (hm : 2 ≤ margin.getD 10)
    (hrefuse : ∀ (lq s rq : Nat), 1 ≤ s → ∃ e, OneDScan.isReaderException e = true ∧
      Row39.c39DecodeRow E.T false (ext39Of E.T contents) (paddedRow lq s rq mods).reverse = .error e)
    (binz : Binz) (th : Bool) :
    imagePath E .code39 contents width height (margin.map Int.ofNat) none .upsideDown binz (ext39Of E.T contents) th =
      .ok ⟨.code39, contents, max 1 height / 2, true, false, some 180⟩ :=
  upside_down_of_readable (code39_readable E hT contents mods hne hascii h width height hw31 margin hm)
    (fun lq s rq _ hs _ _ _ => by
      obtain ⟨e, he, hf⟩ := hrefuse lq s rq hs
      exact ⟨e, he, by simp only [scanSym, rowRead, hf, Except.map]⟩) binz th

/-- **`oned_upside_down_reads_code39`** — FULL: every non-empty ASCII content the Code 39 writer accepts, every width
    ≤ 2^30-1 (twice the scale must fit the classifier's `math.MaxInt32`), every height ≥ 0, margin ≥ 2, either binariser,
    TRY_HARDER or not: the written image turned by 180° is read as the same content with ORIENTATION 180, from the
    reversed middle row.  Table conditions: `WF39Row` and `revStar39` (asterisk ≠ its mirror image). -/
theorem oned_upside_down_reads_code39 (E : Env) (hT : Row39.WF39Row E.T = true)
    (hrev : Image1DRev39.revStar39 E.T = true) (contents : List Nat)
    (mods : List Bool) (hne : contents ≠ []) (hascii : ∀ c ∈ contents, c < 128) (h : code39Modules E.T contents = .ok mods)
    (width height : Nat) (hw30 : width ≤ 1073741823) (margin : Option Nat) (hm : 2 ≤ margin.getD 10)
    (binz : Binz) (th : Bool) :
    imagePath E .code39 contents width height (margin.map Int.ofNat) none .upsideDown binz (ext39Of E.T contents) th =
      .ok ⟨.code39, contents, max 1 height / 2, true, false, some 180⟩ := by
  have f := Row39.wf39Facts E.T hT
  have hR := code39_readable E hT contents mods hne hascii h width height (by omega) margin hm
  -- the module pattern is the run list of a symbol
  have hmods : ∃ syms, mods = appendPattern (Row39.symbol39 E.T syms) true := by
    have h' := h
    unfold code39Modules at h'
    simp only [bind, Except.bind] at h'
    split at h'
    · cases h'
    · rename_i syms hsy
      have hlt : ∀ i ∈ syms, i < 43 := by
        intro i hi
        have := C03Row39.code39Symbols_lt E.T contents syms hsy i hi
        rw [f.alphaLen] at this
        exact this
      rw [Row39.code39Draw_runs E.T f syms hlt] at h'
      cases h'
      exact ⟨syms, rfl⟩
  obtain ⟨syms, rfl⟩ := hmods
  exact upside_down_of_readable hR
    (fun lq s rq _ hs _ _ hsw =>
      ⟨.notFound, rfl, by
        simp only [scanSym, rowRead,
          Image1DRev39.c39_reversed_refused E.T hT hrev syms lq s rq hs (by omega) false (ext39Of E.T contents), Except.map]⟩)
    binz th

/-! ## sideways -/

/-- **`oned_sideways_tryharder_reads`** (generic form) -/
theorem oned_sideways_tryharder_reads {E : Env} {sym : Sym} {ext39 : Bool} {contents : List Nat} {width height : Nat}
    {margin forced : Option Nat} {canonical : List Nat} {mods : List Bool} {m : Nat}
    (hR : Readable E sym ext39 contents width height margin forced canonical mods m)
    (h93 : Row39.WF93Row E.T = true) (binz : Binz) :
    imagePath E sym contents width height (margin.map Int.ofNat) forced .sideways binz ext39 true =
      .ok ⟨sym, canonical, max 1 height / 2, false, true, some 270⟩ :=
  sideways_of_readable hR h93 binz

theorem oned_sideways_tryharder_reads_code128 (E : Env) (hT : Row128.wfRow128B E.T.code128 = true)
    (h93 : Row39.WF93Row E.T = true) (contents : List Nat)
    (mods : List Bool) (hascii : ∀ c ∈ contents, c < 128) (h : code128Modules E.T contents none = .ok mods)
    (width height : Nat) (margin : Option Nat) (hm : 2 ≤ margin.getD 10) (binz : Binz) (ext39 : Bool) :
    imagePath E .code128 contents width height (margin.map Int.ofNat) none .sideways binz ext39 true =
      .ok ⟨.code128, contents, max 1 height / 2, false, true, some 270⟩ :=
  sideways_of_readable (code128_readable E hT contents mods hascii h width height margin hm ext39) h93 binz

theorem oned_sideways_tryharder_reads_code93 (E : Env) (hT : Row39.WF93Row E.T = true) (contents : List Nat)
    (mods : List Bool) (hne : contents ≠ []) (hascii : ∀ c ∈ contents, c < 128) (h : code93Modules E.T contents = .ok mods)
    (width height : Nat) (margin : Option Nat) (hm : 2 ≤ margin.getD 10) (binz : Binz) (ext39 : Bool) :
    imagePath E .code93 contents width height (margin.map Int.ofNat) none .sideways binz ext39 true =
      .ok ⟨.code93, contents, max 1 height / 2, false, true, some 270⟩ :=
  sideways_of_readable (code93_readable E hT contents mods hne hascii h width height margin hm ext39) hT binz

theorem oned_sideways_tryharder_reads_code39 (E : Env) (hT : Row39.WF39Row E.T = true) (h93 : Row39.WF93Row E.T = true)
    (contents : List Nat) (mods : List Bool) (hne : contents ≠ []) (hascii : ∀ c ∈ contents, c < 128)
    (h : code39Modules E.T contents = .ok mods) (width height : Nat) (hw31 : width ≤ 2147483647)
    (margin : Option Nat) (hm : 2 ≤ margin.getD 10) (binz : Binz) :
    imagePath E .code39 contents width height (margin.map Int.ofNat) none .sideways binz (ext39Of E.T contents) true =
      .ok ⟨.code39, contents, max 1 height / 2, false, true, some 270⟩ :=
  sideways_of_readable (code39_readable E hT contents mods hne hascii h width height hw31 margin hm) h93 binz

theorem oned_sideways_tryharder_reads_codabar (E : Env) (hT : Row39.WFCbRow E.T = true) (h93 : Row39.WF93Row E.T = true)
    (contents full : List Nat) (hne : contents ≠ []) (h : codabarFull contents = .ok full) (hlen : full.length > 3)
    (width height : Nat) (hw31 : width ≤ 2147483647) (margin : Option Nat) (hm : 2 ≤ margin.getD 10)
    (binz : Binz) (ext39 : Bool) :
    imagePath E .codabar contents width height (margin.map Int.ofNat) none .sideways binz ext39 true =
      .ok ⟨.codabar, (full.drop 1).dropLast, max 1 height / 2, false, true, some 270⟩ := by
  obtain ⟨mods, _, hR⟩ := codabar_readable E hT contents full hne h hlen width height hw31 margin hm ext39
  exact sideways_of_readable hR h93 binz

theorem oned_sideways_tryharder_reads_itf (E : Env) (hWF : RowITF.wfRowITFB E.T E.I = true) (h93 : Row39.WF93Row E.T = true)
    (hdef : E.I.defaultAllowed = [6, 8, 10, 12, 14]) (contents : List Nat)
    (hdig : CheckDigit.allDigits contents = true) (heven : contents.length % 2 = 0) (h6 : 6 ≤ contents.length)
    (hlen : contents.length ≤ 80) (width height : Nat) (margin : Option Nat) (hm : 2 ≤ margin.getD 10)
    (binz : Binz) (ext39 : Bool) :
    imagePath E .itf contents width height (margin.map Int.ofNat) none .sideways binz ext39 true =
      .ok ⟨.itf, contents, max 1 height / 2, false, true, some 270⟩ := by
  obtain ⟨mods, _, hR⟩ := itf_readable E hWF hdef contents hdig heven h6 hlen width height margin hm ext39
  exact sideways_of_readable hR h93 binz

theorem oned_sideways_tryharder_reads_ean13 (E : Env) (hT : OneD.WFUpcEan E.T = true)
    (wf : Gzx.Proofs.OneDRowExtTotal.wfRow E.T E.X = true) (h93 : Row39.WF93Row E.T = true)
    (contents full : List Nat) (hw : CheckDigit.writerContents .ean13 contents = .ok full)
    (width height : Nat) (margin : Option Nat) (hm : 2 ≤ margin.getD 9)
    (hm2 : margin.getD 9 ≥ 2 * OneD.sumL E.T.startEnd + 1) (binz : Binz) (ext39 : Bool) :
    imagePath E .ean13 contents width height (margin.map Int.ofNat) none .sideways binz ext39 true =
      .ok ⟨.ean13, full, max 1 height / 2, false, true, some 270⟩ := by
  obtain ⟨mods, _, hR⟩ := ean13_readable E hT wf contents full hw width height margin hm hm2 ext39
  exact sideways_of_readable hR h93 binz

theorem oned_sideways_tryharder_reads_ean8 (E : Env) (hT : OneD.WFUpcEan E.T = true)
    (wf : Gzx.Proofs.OneDRowExtTotal.wfRow E.T E.X = true) (h93 : Row39.WF93Row E.T = true)
    (contents full : List Nat) (hw : CheckDigit.writerContents .ean8 contents = .ok full)
    (width height : Nat) (margin : Option Nat) (hm : 2 ≤ margin.getD 9)
    (hm2 : margin.getD 9 ≥ 2 * OneD.sumL E.T.startEnd + 1) (binz : Binz) (ext39 : Bool) :
    imagePath E .ean8 contents width height (margin.map Int.ofNat) none .sideways binz ext39 true =
      .ok ⟨.ean8, full, max 1 height / 2, false, true, some 270⟩ := by
  obtain ⟨mods, _, hR⟩ := ean8_readable E hT wf contents full hw width height margin hm hm2 ext39
  exact sideways_of_readable hR h93 binz

theorem oned_sideways_tryharder_reads_upca (E : Env) (hT : OneD.WFUpcEan E.T = true)
    (wf : Gzx.Proofs.OneDRowExtTotal.wfRow E.T E.X = true) (h93 : Row39.WF93Row E.T = true)
    (contents full : List Nat) (hw : CheckDigit.writerContents .upca contents = .ok full)
    (width height : Nat) (margin : Option Nat) (hm : 2 ≤ margin.getD 9)
    (hm2 : margin.getD 9 ≥ 2 * OneD.sumL E.T.startEnd + 1) (binz : Binz) (ext39 : Bool) :
    imagePath E .upca contents width height (margin.map Int.ofNat) none .sideways binz ext39 true =
      .ok ⟨.upca, full.drop 1, max 1 height / 2, false, true, some 270⟩ := by
  obtain ⟨mods, _, hR⟩ := upca_readable E hT wf contents full hw width height margin hm hm2 ext39
  exact sideways_of_readable hR h93 binz

theorem oned_sideways_tryharder_reads_upce (E : Env) (hT : OneD.WFUpcEan E.T = true)
    (wf : Gzx.Proofs.OneDRowExtTotal.wfRow E.T E.X = true) (h93 : Row39.WF93Row E.T = true)
    (contents full : List Nat) (hw : CheckDigit.writerContents .upce contents = .ok full)
    (width height : Nat) (margin : Option Nat) (hm : 2 ≤ margin.getD 9)
    (hm1 : margin.getD 9 ≥ 2 * OneD.sumL E.T.startEnd)
    (hm2 : margin.getD 9 ≥ 2 * OneD.sumL E.T.upceMiddleEnd + 1) (binz : Binz) (ext39 : Bool) :
    imagePath E .upce contents width height (margin.map Int.ofNat) none .sideways binz ext39 true =
      .ok ⟨.upce, full, max 1 height / 2, false, true, some 270⟩ := by
  obtain ⟨mods, _, hR⟩ := upce_readable E hT wf contents full hw width height margin hm hm1 hm2 ext39
  exact sideways_of_readable hR h93 binz

/-! ## evaluated instances (kernel): non-vacuity of `hrefuse`, and the poses on concrete symbols -/

/-- the Code 128 row decoder refuses the reversed "A1234a" symbol at 1 and 2 px/module -/
example : (code128Modules refEnv.T [65, 49, 50, 51, 52, 97] none).map (fun mods =>
    ((Row128.decodeRow Row128.exactDom refEnv.T.code128 (paddedRow 5 1 5 mods).reverse false).toOption.isNone,
     (Row128.decodeRow Row128.exactDom refEnv.T.code128 (paddedRow 10 2 10 mods).reverse false).toOption.isNone)) =
    .ok (true, true) := by decide +kernel
example : imagePath refEnv .code128 [65, 49, 50, 51, 52, 97] 0 2 none none .upsideDown .hybrid false false =
    .ok ⟨.code128, [65, 49, 50, 51, 52, 97], 1, true, false, some 180⟩ := by decide +kernel
example : Image1DRev39.revStar39 refEnv.T = true := by decide
example : imagePath refEnv .code39 (bytesOf "A1") 0 3 none none .upsideDown .global false true =
    .ok ⟨.code39, bytesOf "A1", 1, true, false, some 180⟩ := by decide +kernel
example : imagePath refEnv .code93 (bytesOf "1a") 0 1 none none .upsideDown .hybrid false false =
    .ok ⟨.code93, bytesOf "1a", 0, true, false, some 180⟩ := by decide +kernel
/-- sideways: read with TRY_HARDER (ORIENTATION 270), not found without -/
example : imagePath refEnv .code39 (bytesOf "A") 0 2 (some 2) none .sideways .hybrid false true =
    .ok ⟨.code39, bytesOf "A", 1, false, true, some 270⟩ := by decide +kernel
example : imagePath refEnv .code39 (bytesOf "A") 0 2 (some 2) none .sideways .hybrid false false = .error .notFound := by
  decide +kernel
example : imagePath refEnv .ean8 (bytesOf "9638507") 0 1 none none .sideways .global false true =
    .ok ⟨.ean8, bytesOf "96385074", 0, false, true, some 270⟩ := by decide +kernel

end Gzx.Properties.C09Image
