/-
  C09 (wp imgpath1d) — poses of the written 1-D image on the composed model (Gzx/Model/Image1D.lean).
-/
import Gzx.Properties.C03Image
namespace Gzx.Properties.C09Image
open Gzx Gzx.OneD Gzx.Image1D Gzx.Image1DPath

end Gzx.Properties.C09Image
