/-
  C10 — check digits and checksums are computed, demanded and enforced.
  Property theorems only (helper lemmas: Gzx/Proofs/CheckDigit.lean).
  Model: Gzx/Model/CheckDigit.lean, tied to /repo/oned by the `c10` correspondence suite;
  parity tables are theorem parameters, instantiated with the regenerated tables in Obligations/C10.lean.
-/
import Gzx.Proofs.CheckDigit
import Gzx.Ref.UPCEAN
namespace Gzx.Properties.C10
open Gzx Gzx.CheckDigit

/-! ### UPC/EAN mod 10 -/

/-- Clause "every single-digit substitution in a UPC/EAN symbol is reported as an error": in a valid
    EAN-13 / EAN-8 / UPC-A number (any length ≥ 1, check digit last) replacing the digit at ANY position
    (including the check digit) by a different digit makes the number invalid.  All lengths, all
    positions, all digits: the weights 1 and 3 are units modulo 10. -/
theorem ean_detects_single_substitution (ds : List Nat) (i d' : Nat) (hi : i < ds.length)
    (hd : ∀ d ∈ ds, d < 10) (hd' : d' < 10) (hne : d' ≠ ds[i]) (hv : eanValid ds = true) :
    eanValid (ds.set i d') = false := by
  have hne0 : ds ≠ [] := by intro h; simp [h] at hi
  obtain ⟨body, c, rfl⟩ : ∃ body c, ds = body ++ [c] :=
    ⟨ds.dropLast, ds.getLast hne0, (List.dropLast_concat_getLast hne0).symm⟩
  rw [eanValid_concat] at hv
  have hc : c < 10 := hd c (by simp)
  by_cases hib : i < body.length
  · rw [List.set_append_left _ _ hib, eanValid_concat]
    have hget : (body ++ [c])[i] = body[i] := List.getElem_append_left hib
    have hbi : body[i] < 10 := hd _ (by simp [List.getElem_mem])
    have := eanCheckDigit_set_ne body i d' hib hbi hd' (by rw [← hget]; exact hne)
    simp only [beq_iff_eq] at hv
    simp only [beq_eq_false_iff_ne, ne_eq]
    rw [← hv]; exact this
  · have hil : i = body.length := by simp at hi; omega
    subst hil
    rw [List.set_append_right _ _ (Nat.le_refl _)]
    simp only [Nat.sub_self, List.set_cons_zero, eanValid_concat]
    have hget : (body ++ [c])[body.length] = c := by simp
    rw [hget] at hne
    simp only [beq_iff_eq] at hv
    simp only [beq_eq_false_iff_ne, ne_eq, hv]
    omega

/-- The same at byte level, as the readers see it: if a digit string passes
    `checkStandardUPCEANChecksum`, no string that differs from it in exactly one digit does. -/
theorem checkStandard_detects_single_substitution (s : List Nat) (i b' : Nat) (hi : i < s.length)
    (hs : allDigits s = true) (hb' : isDigitByte b' = true) (hne : b' ≠ s[i])
    (hv : checkStandardB s = .ok true) : checkStandardB (s.set i b') = .ok false := by
  obtain ⟨ds, rfl, hd⟩ := allDigits_exists s hs
  simp only [isDigitByte, Bool.and_eq_true, decide_eq_true_eq] at hb'
  have hi' : i < ds.length := by simpa [digitBytes] using hi
  have hb'e : b' = (b' - 48) + 48 := by omega
  rw [hb'e, digitBytes_set]
  rw [checkStandardB_digitBytes ds hd] at hv
  have hset : ∀ d ∈ ds.set i (b' - 48), d < 10 := by
    intro d hm
    rcases List.mem_or_eq_of_mem_set hm with h | h
    · exact hd d h
    · omega
  rw [checkStandardB_digitBytes _ hset]
  congr 1
  apply ean_detects_single_substitution ds i (b' - 48) hi' hd (by omega) _ (by simpa using hv)
  intro e
  apply hne
  simp only [digitBytes, List.getElem_map]
  omega

/-! ### UPC-E ↔ UPC-A -/

/-- Clause "UPC-E to UPC-A expansion is the inverse of zero-suppression": for every UPC-A digit string
    (11 digits, or 12 with check digit) that zero suppression accepts, `convertUPCEtoUPCA` of the
    suppressed number is the original number.  Case analysis over the four rules, no enumeration. -/
theorem expand_suppress_inv (a e : List Nat) (ha : allDigits a = true) (h : suppress a = some e) :
    convertUPCEtoUPCA e = .ok a := by
  unfold suppress at h
  split at h
  · rename_i n m1 m2 m3 m4 m5 p1 p2 p3 p4 p5 rest
    simp only [allDigits, List.all_cons, isDigitByte, Bool.and_eq_true, decide_eq_true_eq] at ha
    obtain ⟨hn, hm1, hm2, hm3, hm4, hm5, hp1, hp2, hp3, hp4, hp5, hrest⟩ := ha
    split at h
    · cases h
    · rename_i hlen
      have ht := take1_of_len_le rest hlen
      split at h
      · rename_i hc
        cases h
        obtain ⟨h3, rfl, rfl, rfl, rfl⟩ := hc
        have : m3 = 48 ∨ m3 = 49 ∨ m3 = 50 := by omega
        simp [convertUPCEtoUPCA, this, ht]
      · split at h
        · rename_i hc1 hc
          cases h
          obtain ⟨rfl, rfl, rfl, rfl, rfl⟩ := hc
          simp [convertUPCEtoUPCA, ht]
        · split at h
          · rename_i hc
            cases h
            obtain ⟨rfl, rfl, rfl, rfl, rfl⟩ := hc
            simp [convertUPCEtoUPCA, ht]
          · split at h
            · rename_i hc
              cases h
              obtain ⟨rfl, rfl, rfl, rfl, h5⟩ := hc
              have h1 : ¬ (p5 = 48 ∨ p5 = 49 ∨ p5 = 50) := by omega
              have h2 : ¬ p5 = 51 := by omega
              have h3 : ¬ p5 = 52 := by omega
              simp [convertUPCEtoUPCA, h1, h2, h3, ht]
            · cases h
  · cases h

/-- Converse direction: every canonical UPC-E digit string (7 or 8 digits) expands to a UPC-A number whose
    zero suppression is the string itself — all 2·10^6 canonical bodies, by case analysis.
    (`canonicalUPCE` excludes bodies like 121343 that the standard never produces: they expand to the
    same UPC-A number as the canonical 120341, see `expand_not_injective`.) -/
theorem suppress_expand_inv (e : List Nat) (hlen : e.length = 7 ∨ e.length = 8)
    (he : allDigits e = true) (hc : canonicalUPCE e = true) :
    ∃ a, convertUPCEtoUPCA e = .ok a ∧ suppress a = some e := by
  match e, hlen with
  | [n, a, b, c, d, x, l], _ | [n, a, b, c, d, x, l, _], _ =>
    simp only [allDigits, List.all_cons, List.all_nil, isDigitByte, Bool.and_eq_true, decide_eq_true_eq] at he
    simp only [canonicalUPCE] at hc
    simp only [convertUPCEtoUPCA]
    by_cases h012 : l = 48 ∨ l = 49 ∨ l = 50
    · have hl : l ≤ 50 := by omega
      simp [h012, suppress, hl]
    · by_cases h3 : l = 51
      · subst h3
        simp at hc
        have : ¬ c ≤ 50 := by omega
        simp [suppress, this]
      · by_cases h4 : l = 52
        · subst h4
          simp at hc
          simp [suppress, hc]
        · have hl : l ≥ 53 := by omega
          simp [h3, h4, hl] at hc
          simp [h012, h3, h4, suppress, hc, hl]
  | [], h | [_], h | [_, _], h | [_, _, _], h | [_, _, _, _], h | [_, _, _, _, _], h | [_, _, _, _, _, _], h => simp at h
  | _ :: _ :: _ :: _ :: _ :: _ :: _ :: _ :: _ :: _, h => simp at h

/-- zero suppression only produces canonical UPC-E numbers -/
theorem suppress_canonical (a e : List Nat) (ha : allDigits a = true) (h : suppress a = some e) :
    canonicalUPCE e = true := by
  unfold suppress at h
  split at h
  · rename_i n m1 m2 m3 m4 m5 p1 p2 p3 p4 p5 rest
    simp only [allDigits, List.all_cons, isDigitByte, Bool.and_eq_true, decide_eq_true_eq] at ha
    obtain ⟨hn, hm1, hm2, hm3, hm4, hm5, hp1, hp2, hp3, hp4, hp5, hrest⟩ := ha
    split at h
    · cases h
    · split at h
      · rename_i hc
        cases h
        have h1 : ¬ m3 = 51 := by omega
        have h2 : ¬ m3 = 52 := by omega
        have h3 : ¬ m3 ≥ 53 := by omega
        simp [canonicalUPCE, h1, h2, h3]
      · rename_i hc1
        split at h
        · rename_i hc
          cases h
          obtain ⟨rfl, rfl, rfl, rfl, rfl⟩ := hc
          simp [canonicalUPCE]
          simp at hc1; omega
        · rename_i hc2
          split at h
          · rename_i hc
            cases h
            obtain ⟨rfl, rfl, rfl, rfl, rfl⟩ := hc
            simp [canonicalUPCE]
            simp at hc2; omega
          · rename_i hc3
            split at h
            · rename_i hc
              cases h
              obtain ⟨rfl, rfl, rfl, rfl, h5⟩ := hc
              have h1 : ¬ p5 = 51 := by omega
              have h2 : ¬ p5 = 52 := by omega
              simp [canonicalUPCE, h1, h2, h5]
              simp at hc3; omega
            · cases h
  · cases h

/-- the expansion alone is not injective on arbitrary 6-digit bodies: "0121343" and "0120341" expand to
    the same UPC-A number; only the second is canonical -/
theorem expand_not_injective :
    convertUPCEtoUPCA [48, 49, 50, 49, 51, 52, 51] = convertUPCEtoUPCA [48, 49, 50, 48, 51, 52, 49] ∧
    canonicalUPCE [48, 49, 50, 49, 51, 52, 51] = false ∧ canonicalUPCE [48, 49, 50, 48, 51, 52, 49] = true := by
  decide

/-- the UPC-E reader's checksum test is the mod-10 test of the digit-level expansion -/
theorem upce_reader_accept_iff (ds : List Nat) (hlen : ds.length = 8) (hd : ∀ d ∈ ds, d < 10) :
    ∃ a, expandD ds = some a ∧
      readerAccept .upce (digitBytes ds) = (if eanValid a = true then .ok () else .error .checksum) := by
  obtain ⟨a, hea, hconv⟩ := convert_digitBytes ds (by omega)
  refine ⟨a, hea, ?_⟩
  have ha := expandD_lt ds a hd hea
  unfold readerAccept
  have hl : ¬ (digitBytes ds).length < 8 := by simp [digitBytes]; omega
  simp only [hl, if_false, hconv, checkStandardB_digitBytes a ha]
  cases eanValid a <;> simp

/-- Clause "for UPC-E [the check digit is computed] on the expanded UPC-A number": for a 7-digit UPC-E
    input with number system 0 or 1 the writer draws the input followed by the mod-10 check digit of
    its UPC-A expansion, and the UPC-E reader's checksum test (also on the expansion) accepts exactly that. -/
theorem upce_check_on_expansion (ds : List Nat) (hlen : ds.length = 7) (hd : ∀ d ∈ ds, d < 10)
    (hns : ds.head? = some 0 ∨ ds.head? = some 1) :
    ∃ a, ∃ c : Nat, expandD ds = some a ∧ c < 10 ∧ eanCheckDigit a = (c : Int) ∧
      upceWriterContents (digitBytes ds) = .ok (digitBytes (ds ++ [c])) ∧
      readerAccept .upce (digitBytes (ds ++ [c])) = .ok () := by
  obtain ⟨a, hea, hconv⟩ := convert_digitBytes ds (by omega)
  have ha := expandD_lt ds a hd hea
  match ds, hlen with
  | [n, a1, b, c1, d, e, l], _ =>
    have hal : a.length = 11 := by
      simp only [expandD] at hea
      cases hea
      simp only [List.take_nil, List.append_nil, List.length_cons]
      split
      · rfl
      · split
        · rfl
        · split <;> rfl
    have hs : eanSum a ≤ 1000 := by have := eanSum_le a ha; omega
    have hc : eanCheckDigit a = (((1000 - eanSum a) % 10 : Nat) : Int) := by
      unfold eanCheckDigit; exact goCheckOf_nonneg hs
    refine ⟨a, (1000 - eanSum a) % 10, hea, by omega, hc, ?_, ?_⟩
    · unfold upceWriterContents
      have hl7 : (digitBytes [n, a1, b, c1, d, e, l]).length = 7 := by simp [digitBytes]
      simp only [hl7, if_true, hconv, eanChecksumB_digitBytes a ha]
      rw [hc, itoaSmall_nat]
      have hd8 : ∀ x ∈ [n, a1, b, c1, d, e, l] ++ [(1000 - eanSum a) % 10], x < 10 := by
        intro x hm
        simp only [List.mem_append, List.mem_singleton] at hm
        rcases hm with hm | rfl
        · exact hd x hm
        · omega
      have hall := allDigits_digitBytes _ hd8
      rw [digitBytes_concat] at hall
      rw [Nat.add_comm 48 ((1000 - eanSum a) % 10)]
      simp only [hall, Bool.not_true, Bool.false_eq_true, if_false]
      rw [← digitBytes_concat]
      simp only [List.head?_cons, Option.some.injEq] at hns
      simp only [digitBytes, List.cons_append, List.map_cons]
      rcases hns with rfl | rfl <;> simp
    · have he8 := expandD_seven n a1 b c1 d e l a hea ((1000 - eanSum a) % 10)
      obtain ⟨a8, hea8, hconv8⟩ := convert_digitBytes ([n, a1, b, c1, d, e, l] ++ [(1000 - eanSum a) % 10]) (by simp)
      simp only [List.cons_append, List.nil_append] at hea8 hconv8 ⊢
      rw [he8] at hea8
      cases hea8
      unfold readerAccept
      have hl8 : ¬ (digitBytes [n, a1, b, c1, d, e, l, (1000 - eanSum a) % 10]).length < 8 := by simp [digitBytes]
      simp only [hl8, if_false, hconv8]
      have hd12 : ∀ x ∈ a ++ [(1000 - eanSum a) % 10], x < 10 := by
        intro x hm
        simp only [List.mem_append, List.mem_singleton] at hm
        rcases hm with hm | rfl
        · exact ha x hm
        · omega
      rw [checkStandardB_digitBytes _ hd12, eanValid_concat, hc]
      simp


/-- helper of `upce_detects_substitution`: one substituted position of the expansion -/
theorem sub_case (x : Nat) (hx : x < 10) (A : List Nat) (hA : ∀ y ∈ A, y < 10) (hv : eanValid A = true)
    (q : Nat) (hq : q < A.length) (hne : x ≠ A[q]) (E : Option (List Nat)) (hE : E = some (A.set q x)) :
    ∃ a', E = some a' ∧ eanValid a' = false :=
  ⟨_, hE, ean_detects_single_substitution A q x hq hA hx hne hv⟩


set_option linter.unusedSimpArgs false in
/-- Clause "every single-digit substitution in a UPC/EAN symbol is reported as an error", UPC-E: if the
    expansion of an 8-digit UPC-E number passes the mod-10 test, then after replacing ONE digit — the number
    system, any of the first five body digits, the check digit, or the sixth body digit by a digit that
    selects the same zero-suppression rule — it no longer does.
    NOT claimed (and false, see `upce_rule_digit_substitution_can_stay_valid`): a change of the sixth body
    digit that switches the suppression rule rearranges several digits of the protected UPC-A number. -/
theorem upce_detects_substitution (ds : List Nat) (hlen : ds.length = 8) (hd : ∀ d ∈ ds, d < 10)
    (p x : Nat) (hp : p < 8) (hx : x < 10) (hne : ds[p]? ≠ some x)
    (hclass : p = 6 → ds[6]?.map ruleClass = some (ruleClass x))
    (a : List Nat) (hea : expandD ds = some a) (hv : eanValid a = true) :
    ∃ a', expandD (ds.set p x) = some a' ∧ eanValid a' = false := by
  match ds, hlen with
  | [n, a1, b, c, d, e, l, k], _ =>
    have hn := hd n (by simp)
    have ha1 := hd a1 (by simp)
    have hb := hd b (by simp)
    have hc := hd c (by simp)
    have hdd := hd d (by simp)
    have he := hd e (by simp)
    have hl := hd l (by simp)
    have hk := hd k (by simp)
    have hcl : p = 6 → (l ≤ 2 → x ≤ 2) ∧ (l = 3 → x = 3) ∧ (l = 4 → x = 4) ∧ (5 ≤ l → 5 ≤ x) := by
      intro h6; have := hclass h6; simp at this; exact ruleClass_eq this
    simp only [expandD, List.take_succ_cons, List.take_zero, List.cons_append, List.nil_append] at hea
    by_cases h2 : l ≤ 2
    · simp only [h2, if_true, if_false] at hea
      cases hea
      have hA : ∀ y ∈ [n, a1, b, l, 0, 0, 0, 0, c, d, e, k], y < 10 := by intro y hy; simp at hy; omega
      match p, hp with
      | 0, _ => exact sub_case x hx [n, a1, b, l, 0, 0, 0, 0, c, d, e, k] hA hv 0 (by simp) (by simpa [eq_comm] using hne) _ (by simp [expandD, h2])
      | 1, _ => exact sub_case x hx [n, a1, b, l, 0, 0, 0, 0, c, d, e, k] hA hv 1 (by simp) (by simpa [eq_comm] using hne) _ (by simp [expandD, h2])
      | 2, _ => exact sub_case x hx [n, a1, b, l, 0, 0, 0, 0, c, d, e, k] hA hv 2 (by simp) (by simpa [eq_comm] using hne) _ (by simp [expandD, h2])
      | 3, _ => exact sub_case x hx [n, a1, b, l, 0, 0, 0, 0, c, d, e, k] hA hv 8 (by simp) (by simpa [eq_comm] using hne) _ (by simp [expandD, h2])
      | 4, _ => exact sub_case x hx [n, a1, b, l, 0, 0, 0, 0, c, d, e, k] hA hv 9 (by simp) (by simpa [eq_comm] using hne) _ (by simp [expandD, h2])
      | 5, _ => exact sub_case x hx [n, a1, b, l, 0, 0, 0, 0, c, d, e, k] hA hv 10 (by simp) (by simpa [eq_comm] using hne) _ (by simp [expandD, h2])
      | 6, _ =>
        have hx2 : x ≤ 2 := (hcl rfl).1 h2
        exact sub_case x hx [n, a1, b, l, 0, 0, 0, 0, c, d, e, k] hA hv 3 (by simp) (by simpa [eq_comm] using hne) _ (by simp [expandD, hx2])
      | 7, _ => exact sub_case x hx [n, a1, b, l, 0, 0, 0, 0, c, d, e, k] hA hv 11 (by simp) (by simpa [eq_comm] using hne) _ (by simp [expandD, h2])
    · by_cases h3 : l = 3
      · simp only [h2, h3, if_true, if_false] at hea
        cases hea
        have hA : ∀ y ∈ [n, a1, b, c, 0, 0, 0, 0, 0, d, e, k], y < 10 := by intro y hy; simp at hy; omega
        match p, hp with
        | 0, _ => exact sub_case x hx [n, a1, b, c, 0, 0, 0, 0, 0, d, e, k] hA hv 0 (by simp) (by simpa [eq_comm] using hne) _ (by simp [expandD, h2, h3])
        | 1, _ => exact sub_case x hx [n, a1, b, c, 0, 0, 0, 0, 0, d, e, k] hA hv 1 (by simp) (by simpa [eq_comm] using hne) _ (by simp [expandD, h2, h3])
        | 2, _ => exact sub_case x hx [n, a1, b, c, 0, 0, 0, 0, 0, d, e, k] hA hv 2 (by simp) (by simpa [eq_comm] using hne) _ (by simp [expandD, h2, h3])
        | 3, _ => exact sub_case x hx [n, a1, b, c, 0, 0, 0, 0, 0, d, e, k] hA hv 3 (by simp) (by simpa [eq_comm] using hne) _ (by simp [expandD, h2, h3])
        | 4, _ => exact sub_case x hx [n, a1, b, c, 0, 0, 0, 0, 0, d, e, k] hA hv 9 (by simp) (by simpa [eq_comm] using hne) _ (by simp [expandD, h2, h3])
        | 5, _ => exact sub_case x hx [n, a1, b, c, 0, 0, 0, 0, 0, d, e, k] hA hv 10 (by simp) (by simpa [eq_comm] using hne) _ (by simp [expandD, h2, h3])
        | 6, _ => exact absurd (by have := (hcl rfl); simp; omega) hne
        | 7, _ => exact sub_case x hx [n, a1, b, c, 0, 0, 0, 0, 0, d, e, k] hA hv 11 (by simp) (by simpa [eq_comm] using hne) _ (by simp [expandD, h2, h3])
      · by_cases h4 : l = 4
        · simp only [h2, h3, h4, if_true, if_false] at hea
          cases hea
          have hA : ∀ y ∈ [n, a1, b, c, d, 0, 0, 0, 0, 0, e, k], y < 10 := by intro y hy; simp at hy; omega
          match p, hp with
          | 0, _ => exact sub_case x hx [n, a1, b, c, d, 0, 0, 0, 0, 0, e, k] hA hv 0 (by simp) (by simpa [eq_comm] using hne) _ (by simp [expandD, h2, h3, h4])
          | 1, _ => exact sub_case x hx [n, a1, b, c, d, 0, 0, 0, 0, 0, e, k] hA hv 1 (by simp) (by simpa [eq_comm] using hne) _ (by simp [expandD, h2, h3, h4])
          | 2, _ => exact sub_case x hx [n, a1, b, c, d, 0, 0, 0, 0, 0, e, k] hA hv 2 (by simp) (by simpa [eq_comm] using hne) _ (by simp [expandD, h2, h3, h4])
          | 3, _ => exact sub_case x hx [n, a1, b, c, d, 0, 0, 0, 0, 0, e, k] hA hv 3 (by simp) (by simpa [eq_comm] using hne) _ (by simp [expandD, h2, h3, h4])
          | 4, _ => exact sub_case x hx [n, a1, b, c, d, 0, 0, 0, 0, 0, e, k] hA hv 4 (by simp) (by simpa [eq_comm] using hne) _ (by simp [expandD, h2, h3, h4])
          | 5, _ => exact sub_case x hx [n, a1, b, c, d, 0, 0, 0, 0, 0, e, k] hA hv 10 (by simp) (by simpa [eq_comm] using hne) _ (by simp [expandD, h2, h3, h4])
          | 6, _ => exact absurd (by have := (hcl rfl); simp; omega) hne
          | 7, _ => exact sub_case x hx [n, a1, b, c, d, 0, 0, 0, 0, 0, e, k] hA hv 11 (by simp) (by simpa [eq_comm] using hne) _ (by simp [expandD, h2, h3, h4])
        · simp only [h2, h3, h4, if_false] at hea
          cases hea
          have hA : ∀ y ∈ [n, a1, b, c, d, e, 0, 0, 0, 0, l, k], y < 10 := by intro y hy; simp at hy; omega
          match p, hp with
          | 0, _ => exact sub_case x hx [n, a1, b, c, d, e, 0, 0, 0, 0, l, k] hA hv 0 (by simp) (by simpa [eq_comm] using hne) _ (by simp [expandD, h2, h3, h4])
          | 1, _ => exact sub_case x hx [n, a1, b, c, d, e, 0, 0, 0, 0, l, k] hA hv 1 (by simp) (by simpa [eq_comm] using hne) _ (by simp [expandD, h2, h3, h4])
          | 2, _ => exact sub_case x hx [n, a1, b, c, d, e, 0, 0, 0, 0, l, k] hA hv 2 (by simp) (by simpa [eq_comm] using hne) _ (by simp [expandD, h2, h3, h4])
          | 3, _ => exact sub_case x hx [n, a1, b, c, d, e, 0, 0, 0, 0, l, k] hA hv 3 (by simp) (by simpa [eq_comm] using hne) _ (by simp [expandD, h2, h3, h4])
          | 4, _ => exact sub_case x hx [n, a1, b, c, d, e, 0, 0, 0, 0, l, k] hA hv 4 (by simp) (by simpa [eq_comm] using hne) _ (by simp [expandD, h2, h3, h4])
          | 5, _ => exact sub_case x hx [n, a1, b, c, d, e, 0, 0, 0, 0, l, k] hA hv 5 (by simp) (by simpa [eq_comm] using hne) _ (by simp [expandD, h2, h3, h4])
          | 6, _ =>
            have hx5 : 5 ≤ x := (hcl rfl).2.2.2 (by omega)
            have n2 : ¬ x ≤ 2 := by omega
            have n3 : ¬ x = 3 := by omega
            have n4 : ¬ x = 4 := by omega
            exact sub_case x hx [n, a1, b, c, d, e, 0, 0, 0, 0, l, k] hA hv 10 (by simp) (by simpa [eq_comm] using hne) _ (by simp [expandD, n2, n3, n4])
          | 7, _ => exact sub_case x hx [n, a1, b, c, d, e, 0, 0, 0, 0, l, k] hA hv 11 (by simp) (by simpa [eq_comm] using hne) _ (by simp [expandD, h2, h3, h4])

/-- 0 916871 0 and 0 916877 0 are both valid UPC-E numbers although they differ in one digit: the last body
    digit selects the expansion rule (property of the symbology, every conforming reader accepts both) -/
theorem upce_rule_digit_substitution_can_stay_valid :
    (expandD [0, 9, 1, 6, 8, 7, 1, 0]).map eanValid = some true ∧
    (expandD [0, 9, 1, 6, 8, 7, 7, 0]).map eanValid = some true := by decide

/-! ### parity tables (theorem parameters; instantiated with `Gen` in Obligations/C10.lean) -/

/-- Clause "EAN-13 first digit is carried by the parities": the writer's parity pattern of first digit `d`
    is decoded back to `d` by `determineFirstDigit`, and any pattern the reader accepts is the pattern
    of the digit it returns — for every table of ten distinct entries. -/
theorem ean13_parity_bijective (T : List Nat) (h : WFParity T = true) :
    (∀ d (_ : d < 10), ∃ hd' : d < T.length, determineFirstDigit T T[d] = .ok d) ∧
    (∀ lg d, determineFirstDigit T lg = .ok d → d < 10 ∧ T[d]? = some lg) :=
  ⟨fun d hd => scan10_getElem h d hd, fun _ _ hs => scan10_ok hs⟩

/-- Clause "UPC-E parity pattern encodes number system and check digit": the 20 patterns are decoded
    back to exactly the (number system, check digit) they were written for, and nothing else is
    accepted — for every 2×10 table with pairwise distinct entries. -/
theorem upce_parity_bijective (r0 r1 : List Nat) (h : WFParity2 [r0, r1] = true) :
    (∀ d (_ : d < 10), ∃ hd' : d < r0.length, determineNumSysAndCheckDigit [r0, r1] r0[d] = .ok (0, d)) ∧
    (∀ d (_ : d < 10), ∃ hd' : d < r1.length, determineNumSysAndCheckDigit [r0, r1] r1[d] = .ok (1, d)) ∧
    (∀ lg n d, determineNumSysAndCheckDigit [r0, r1] lg = .ok (n, d) →
       d < 10 ∧ ((n = 0 ∧ r0[d]? = some lg) ∨ (n = 1 ∧ r1[d]? = some lg))) := by
  simp only [WFParity2, Bool.and_eq_true, beq_iff_eq] at h
  obtain ⟨⟨hl0, hl1⟩, hdist⟩ := h
  have w0 : WFParity r0 = true := by simp [WFParity, hl0, distinct_append_left hdist]
  have w1 : WFParity r1 = true := by simp [WFParity, hl1, distinct_append_right hdist]
  refine ⟨?_, ?_, ?_⟩
  · intro d hd
    obtain ⟨hd', hs⟩ := scan10_getElem w0 d hd
    exact ⟨hd', by simp [determineNumSysAndCheckDigit, hs]⟩
  · intro d hd
    obtain ⟨hd', hs⟩ := scan10_getElem w1 d hd
    refine ⟨hd', ?_⟩
    have hnot : r1[d] ∉ r0 := by
      intro hm
      exact distinct_append_disjoint hdist _ hm (List.getElem_mem hd')
    have h0 : scan10 r0 r1[d] = .error .notFound := by
      unfold scan10
      rw [List.take_of_length_le (by omega)]
      cases hi : indexOf? r1[d] r0 with
      | some j => exact absurd (List.mem_of_getElem? (indexOf?_get hi)) hnot
      | none => simp [hl0]
    simp [determineNumSysAndCheckDigit, h0, hs]
  · intro lg n d hres
    unfold determineNumSysAndCheckDigit at hres
    simp only at hres
    split at hres
    · rename_i d' hs
      cases hres
      have := scan10_ok hs
      exact ⟨this.1, Or.inl ⟨rfl, this.2⟩⟩
    · split at hres
      · rename_i d' hs
        cases hres
        have := scan10_ok hs
        exact ⟨this.1, Or.inr ⟨rfl, this.2⟩⟩
      · cases hres
    · cases hres

/-! ### Code 128, modulo 103 -/

/-- Clause "every single-character substitution in a Code 128 symbol is reported as an error": replacing
    the data character at index `i` (weight `i+1`) by a different value changes the check character —
    provided the weight is below 103 (the symbol has at most 102 characters before the check character;
    103 is prime, weight and value difference are both in 1..102).  See `code128_weight_103_undetected`
    for why the bound cannot be dropped. -/
theorem code128_detects_single_substitution (start : Nat) (data : List Nat) (i v' : Nat)
    (hi : i < data.length) (hw : i + 1 < 103) (hv : data[i] < 103) (hv' : v' < 103) (hne : v' ≠ data[i]) :
    c128Check start (data.set i v') ≠ c128Check start data := by
  unfold c128Check
  have hs := wsumFrom_set 1 data i v' hi
  intro h
  -- both sides as (S + w·v) with the common part S
  have e1 : start + wsumFrom 1 (data.set i v') + (1 + i) * data[i] = start + wsumFrom 1 data + (1 + i) * v' := by omega
  have hdet := weighted_change_detected nzd103 (start + wsumFrom 1 (data.set i v')) (1 + i) data[i] v'
    (by omega) (by omega) hv hv' (fun e => hne e.symm)
  apply hdet
  rw [e1]
  -- (A + w·v') % 103 where A % 103 = B % 103
  rw [Nat.add_mod, ← h, ← Nat.add_mod]

/-- substitution of the start character (weight 1): another start code gives another check character -/
theorem code128_detects_start_substitution (start start' : Nat) (data : List Nat)
    (hs : start < 103 + 103) (hs' : start' < 103 + 103) (hlo : 103 ≤ start) (hlo' : 103 ≤ start')
    (hne : start ≠ start') : c128Check start' data ≠ c128Check start data := by
  unfold c128Check
  omega

/-- the reader's running-sum arithmetic accepts `start, data…, chk` iff `chk` is the writer's check character -/
theorem code128_reader_accepts_iff (start : Nat) (data : List Nat) (chk : Nat) :
    c128ReaderAccept start (data ++ [chk]) = (c128Check start data == chk) := by
  simp only [c128ReaderAccept, List.getLast?_concat, wsumFrom_append, List.length_append,
    List.length_cons, List.length_nil, c128Check]
  have : start + (wsumFrom 1 data + (1 + data.length) * chk) - (data.length + 0 + 1) * chk
      = start + wsumFrom 1 data := by
    have : (data.length + 0 + 1) * chk = (1 + data.length) * chk := by congr 1; omega
    omega
  rw [this]

/-- hence: a symbol the reader accepts is no longer accepted after any single data-character substitution
    at a position of weight < 103, nor after a substitution of its check character -/
theorem code128_reader_rejects_substitution (start : Nat) (data : List Nat) (chk i v' : Nat)
    (hacc : c128ReaderAccept start (data ++ [chk]) = true)
    (hi : i < data.length) (hw : i + 1 < 103) (hv : data[i] < 103) (hv' : v' < 103) (hne : v' ≠ data[i]) :
    c128ReaderAccept start (data.set i v' ++ [chk]) = false := by
  rw [code128_reader_accepts_iff] at hacc ⊢
  simp only [beq_iff_eq] at hacc
  simp only [beq_eq_false_iff_ne, ne_eq]
  rw [← hacc]
  exact code128_detects_single_substitution start data i v' hi hw hv hv' hne

/-- the weight bound is necessary: the 103rd data character has weight 103 ≡ 0, any substitution there is
    invisible to the check character (inherent to ISO/IEC 15417, not to this library) -/
theorem code128_weight_103_undetected (start : Nat) (pre : List Nat) (hpre : pre.length = 102) (v v' : Nat) :
    c128Check start (pre ++ [v']) = c128Check start (pre ++ [v]) := by
  unfold c128Check
  rw [wsumFrom_append, wsumFrom_append, hpre]
  omega

/-! ### Code 93, modulo 47 -/

/-- replacing one character changes a Code 93 check character, for every weight cycle 1..maxW with
    `maxW < 47` (C: 20, K: 15): 47 is prime, weights and value differences are in 1..46 -/
theorem code93_check_changes (maxW : Nat) (hm : 1 ≤ maxW) (hm' : maxW < 47) (vals : List Nat) (i v' : Nat)
    (hi : i < vals.length) (hv : vals[i] < 47) (hv' : v' < 47) (hne : v' ≠ vals[i]) :
    c93Check maxW (vals.set i v') ≠ c93Check maxW vals := by
  unfold c93Check
  obtain ⟨j, hj, hrev, hget⟩ := reverse_set_exists vals i v' hi
  rw [hrev]
  obtain ⟨u, hu1, hu2, hs⟩ := c93SumRev_set maxW 1 vals.reverse j v' hj hm ⟨Nat.le_refl 1, hm⟩
  rw [hget] at hs
  intro h
  have hdet := weighted_change_detected nzd47 (c93SumRev maxW 1 (vals.reverse.set j v')) u vals[i] v'
    (by omega) (by omega) hv hv' (fun e => hne e.symm)
  apply hdet
  rw [hs, Nat.add_mod, ← h, ← Nat.add_mod]

/-- Clause "every single-character substitution in a Code 93 symbol is reported as an error": a symbol
    `data ++ [C, K]` accepted by `code93CheckChecksums` is rejected after replacing any ONE of its
    characters (a data character, C, or K) by a different value. -/
theorem code93_detects_single_substitution (data : List Nat) (c k : Nat) (i v' : Nat)
    (hacc : c93ReaderAccept (data ++ [c, k]) = .ok true)
    (hi : i < data.length + 2) (hvals : ∀ v ∈ data ++ [c, k], v < 47) (hv' : v' < 47)
    (hne : (data ++ [c, k])[i]? ≠ some v') :
    c93ReaderAccept ((data ++ [c, k]).set i v') = .ok false := by
  rw [c93ReaderAccept_concat] at hacc
  simp only [Except.ok.injEq, Bool.and_eq_true, beq_iff_eq] at hacc
  obtain ⟨hc, hk⟩ := hacc
  by_cases h1 : i < data.length
  · -- data character: C no longer matches
    rw [List.set_append_left _ _ h1, c93ReaderAccept_concat]
    have hget : (data ++ [c, k])[i]? = some data[i] := by
      rw [List.getElem?_append_left h1]; simp [h1]
    rw [hget] at hne
    have hdi : data[i] < 47 := hvals _ (by simp [List.getElem_mem])
    have := code93_check_changes 20 (by omega) (by omega) data i v' h1 hdi hv' (fun e => hne (by rw [e]))
    rw [hc] at this
    simp [this]
  · by_cases h2 : i = data.length
    · -- C itself
      subst h2
      rw [List.set_append_right _ _ (Nat.le_refl _)]
      simp only [Nat.sub_self, List.set_cons_zero, c93ReaderAccept_concat]
      have hget : (data ++ [c, k])[data.length]? = some c := by simp
      rw [hget] at hne
      have : ¬ c93Check 20 data = v' := by rw [hc]; intro e; exact hne (by rw [e])
      simp [this]
    · -- K
      have h3 : i = data.length + 1 := by omega
      subst h3
      rw [List.set_append_right _ _ (by omega)]
      have : data.length + 1 - data.length = 1 := by omega
      simp only [this, List.set_cons_succ, List.set_cons_zero, c93ReaderAccept_concat]
      have hget : (data ++ [c, k])[data.length + 1]? = some k := by simp
      rw [hget] at hne
      have : ¬ c93Check 15 (data ++ [c]) = v' := by rw [hk]; intro e; exact hne (by rw [e])
      simp [this]

/-- what the writer appends is accepted by the reader -/
theorem code93_writer_checks_accepted (data : List Nat) :
    c93ReaderAccept (data ++ [(c93Checks data).1, (c93Checks data).2]) = .ok true := by
  rw [c93ReaderAccept_concat]
  simp [c93Checks]

/-! ### EAN-2 / EAN-5 add-ons -/

/-- Clause "2-digit add-ons are accepted only with their parity-encoded check value": accepted iff the
    L/G parities of the two digits spell `value mod 4` -/
theorem ean2_accept_iff (a b : Nat) (ga gb : Bool) :
    ext2Accept [(a, ga), (b, gb)] = .ok () ↔ parityBits [ga, gb] = (10 * a + b) % 4 := by
  simp only [ext2Accept]
  by_cases hp : (10 * a + b) % 4 = parityBits [ga, gb]
  · simp [hp]
  · simp only [hp, if_false]
    constructor
    · intro h; cases h
    · intro h; exact absurd h.symm hp


/-- Clause "5-digit add-ons are accepted only with their parity-encoded check value": accepted iff the
    parity pattern is the table entry of the checksum `(3·(d0+d2+d4) + 9·(d1+d3)) mod 10` — for every
    table of ten distinct patterns. -/
theorem ean5_accept_iff (T : List Nat) (h : WFParity T = true) (sym : List (Nat × Bool)) (hl : sym.length = 5) :
    ext5Accept T sym = .ok () ↔ T[ext5Checksum (sym.map (·.1))]? = some (parityBits (sym.map (·.2))) := by
  unfold ext5Accept determineCheckDigit5
  simp only [hl, ne_eq, not_true_eq_false, if_false]
  have hlt : ext5Checksum (sym.map (·.1)) < 10 := by unfold ext5Checksum; omega
  constructor
  · intro hacc
    split at hacc
    · cases hacc
    · rename_i d hs
      split at hacc
      · rename_i hc; rw [hc]; exact (scan10_ok hs).2
      · cases hacc
  · intro hget
    obtain ⟨hd', hs⟩ := scan10_getElem h _ hlt
    have : T[ext5Checksum (sym.map (·.1))] = parityBits (sym.map (·.2)) := by
      rw [List.getElem?_eq_getElem hd'] at hget
      exact Option.some.inj hget
    rw [this] at hs
    simp [hs]


/-- the checksum formula of the 5-digit add-on, spelled out -/
theorem ext5Checksum_formula (d0 d1 d2 d3 d4 : Nat) :
    ext5Checksum [d0, d1, d2, d3, d4] = (3 * (d0 + d2 + d4) + 9 * (d1 + d3)) % 10 := by
  simp [ext5Checksum, ext5SumAux]; omega


/-! ### writers: compute the check digit, refuse a wrong one -/

/-- Clause "writers compute the check digit by the standard formula": given `n−1` digits (n ≤ 38, in
    particular EAN-13: 13, EAN-8: 8, UPC-A: "0"+11), the EAN-13/EAN-8 encoder draws those digits
    followed by the mod-10 check digit, and the result is a valid number. -/
theorem writer_appends_check (n : Nat) (ds : List Nat) (hd : ∀ d ∈ ds, d < 10)
    (hn : ds.length + 1 = n) (hlen : ds.length ≤ 37) :
    ∃ c : Nat, c < 10 ∧ eanCheckDigit ds = (c : Int) ∧
      stdWriterContents n (digitBytes ds) = .ok (digitBytes (ds ++ [c])) ∧ eanValid (ds ++ [c]) = true := by
  have hs : eanSum ds ≤ 1000 := by have := eanSum_le ds hd; omega
  have hc : eanCheckDigit ds = (((1000 - eanSum ds) % 10 : Nat) : Int) := by
    unfold eanCheckDigit; exact goCheckOf_nonneg hs
  refine ⟨(1000 - eanSum ds) % 10, by omega, hc, ?_, ?_⟩
  · unfold stdWriterContents
    have hl : (digitBytes ds).length + 1 = n := by simpa [digitBytes] using hn
    simp only [hl, if_true, eanChecksumB_digitBytes ds hd]
    rw [hc, itoaSmall_nat]
    have hall : allDigits (digitBytes ds ++ [48 + (1000 - eanSum ds) % 10]) = true := by
      have := allDigits_digitBytes (ds ++ [(1000 - eanSum ds) % 10]) (by
        intro d hm
        simp only [List.mem_append, List.mem_singleton] at hm
        rcases hm with hm | rfl
        · exact hd d hm
        · omega)
      rw [digitBytes_concat] at this
      rw [Nat.add_comm 48]; exact this
    rw [if_pos hall, digitBytes_concat, Nat.add_comm 48]
  · rw [eanValid_concat, hc]
    simp


/-- Clause "writers refuse contents whose supplied check digit is wrong": given all `n` digits, the encoder
    accepts them unchanged iff the last one is the mod-10 check digit of the others, and fails with a
    WriterException otherwise. -/
theorem writer_rejects_wrong_check (n : Nat) (ds : List Nat) (c : Nat) (hd : ∀ d ∈ ds, d < 10) (hc : c < 10)
    (hn : ds.length + 1 = n) :
    stdWriterContents n (digitBytes (ds ++ [c])) =
      if eanCheckDigit ds = (c : Int) then .ok (digitBytes (ds ++ [c])) else .error .writer := by
  have hd' : ∀ d ∈ ds ++ [c], d < 10 := by
    intro d hm
    simp only [List.mem_append, List.mem_singleton] at hm
    rcases hm with hm | rfl
    · exact hd d hm
    · exact hc
  unfold stdWriterContents
  have hl : (digitBytes (ds ++ [c])).length = n := by simp [digitBytes]; omega
  have hl1 : ¬ (digitBytes (ds ++ [c])).length + 1 = n := by omega
  rw [if_neg hl1, if_pos hl, checkStandardB_digitBytes _ hd', eanValid_concat]
  by_cases he : eanCheckDigit ds = (c : Int)
  · have hb : (eanCheckDigit ds == (c : Int)) = true := by simp [he]
    rw [hb]; simp [he, allDigits_digitBytes _ hd']
  · have hb : (eanCheckDigit ds == (c : Int)) = false := by simp [he]
    rw [hb]; simp [he]

/-- every failure of the encoder head is a WriterException, and it never succeeds on a string that is not
    all digits or has the wrong length (clause "contents of the wrong length or alphabet are rejected") -/
theorem writer_rejects_length_and_alphabet (n : Nat) (s : List Nat) :
    (∀ e, stdWriterContents n s = .error e → e = .writer) ∧
    (∀ full, stdWriterContents n s = .ok full →
        allDigits s = true ∧ full.length = n ∧ (s.length = n ∨ s.length + 1 = n)) := by
  constructor
  · intro e h
    unfold stdWriterContents at h
    dsimp only at h
    repeat' (split at h)
    all_goals (first | (cases h; rfl) | cases h)
  · intro full h
    unfold stdWriterContents at h
    dsimp only at h
    split at h
    · rename_i hl
      split at h
      · cases h
      · rename_i c hc
        split at h
        · rename_i hall
          cases h
          have hall' : allDigits s = true := by
            simp only [allDigits, List.all_append, Bool.and_eq_true] at hall
            exact hall.1
          refine ⟨hall', ?_, Or.inr hl⟩
          unfold itoaSmall at hall ⊢
          split
          · rename_i hneg
            simp [hneg, allDigits, isDigitByte] at hall
          · simp; omega
        · cases h
    · split at h
      · rename_i hl
        split at h
        · cases h
        · cases h
        · split at h
          · rename_i hall; cases h; exact ⟨hall, hl, Or.inl hl⟩
          · cases h
      · cases h

set_option linter.unusedSimpArgs false in
/-- UPC-E, eight digits supplied: accepted unchanged iff the last digit is the check digit of the expansion
    (and the number system is 0 or 1), a WriterException otherwise. -/
theorem upce_writer_rejects_wrong_check (ds : List Nat) (hlen : ds.length = 8) (hd : ∀ d ∈ ds, d < 10) :
    ∃ a, expandD ds = some a ∧
      upceWriterContents (digitBytes ds) =
        (if eanValid a = true ∧ (ds.head? = some 0 ∨ ds.head? = some 1) then .ok (digitBytes ds)
         else .error .writer) := by
  obtain ⟨a, hea, hconv⟩ := convert_digitBytes ds (by omega)
  refine ⟨a, hea, ?_⟩
  have ha := expandD_lt ds a hd hea
  unfold upceWriterContents
  have h7 : ¬ (digitBytes ds).length = 7 := by simp [digitBytes]; omega
  have h8 : (digitBytes ds).length = 8 := by simp [digitBytes]; omega
  simp only [h7, if_false, h8, if_true, hconv, checkStandardB_digitBytes a ha]
  cases hv : eanValid a
  · simp
  · simp only [allDigits_digitBytes ds hd, Bool.not_true, Bool.false_eq_true, if_false, true_and]
    match ds, hlen with
    | [n, _, _, _, _, _, _, _], _ =>
      have hn := hd n (by simp)
      have hall := allDigits_digitBytes _ hd
      simp only [digitBytes, List.map_cons, List.map_nil] at hall
      simp only [digitBytes, List.map_cons, List.head?_cons, Option.some.injEq]
      by_cases h01 : n = 0 ∨ n = 1
      · have : n + 48 = 48 ∨ n + 48 = 49 := by omega
        simp [h01, this, hall]
      · have : ¬ (n + 48 = 48 ∨ n + 48 = 49) := by omega
        simp [h01, this, hall]

/-! ### non-vacuity: concrete instances meeting the hypotheses -/
example : eanValid [4, 0, 0, 6, 3, 8, 1, 3, 3, 3, 9, 3, 1] = true := by decide
example : eanValid ([4, 0, 0, 6, 3, 8, 1, 3, 3, 3, 9, 3, 1].set 5 7) = false := by decide
example : checkStandardB (digitBytes [9, 6, 3, 8, 5, 0, 7, 4]) = .ok true := by decide
example : suppress (digitBytes [0, 1, 2, 1, 0, 0, 0, 0, 0, 3, 4]) = some (digitBytes [0, 1, 2, 0, 3, 4, 1]) := by decide
example : convertUPCEtoUPCA (digitBytes [0, 1, 2, 0, 3, 4, 1]) = .ok (digitBytes [0, 1, 2, 1, 0, 0, 0, 0, 0, 3, 4]) := by decide
example : canonicalUPCE (digitBytes [0, 1, 2, 3, 4, 5, 6]) = true := by decide
example : WFParity Ref.UPCEAN.ean13FirstDigit = true ∧ WFParity Ref.UPCEAN.ean5CheckDigit = true ∧
    WFParity2 Ref.UPCEAN.upceParity = true := by decide
example : determineNumSysAndCheckDigit Ref.UPCEAN.upceParity 0x19 = .ok (1, 5) := by decide
example : c128Check 104 [33, 34] = 102 ∧ c128ReaderAccept 104 [33, 34, 102] = true := by decide
example : c128ReaderAccept 104 [33, 35, 102] = false := by decide
example : c93Checks [12, 24, 13, 14] = (c93Check 20 [12, 24, 13, 14], c93Check 15 [12, 24, 13, 14, c93Check 20 [12, 24, 13, 14]]) := rfl
example : c93ReaderAccept [1, 2, 3, 10, 26] = .ok true := by decide
example : c93ReaderAccept [1, 2, 4, 10, 26] = .ok false := by decide
example : ext2Accept [(1, false), (2, false)] = .ok () ∧ ext2Accept [(1, false), (3, false)] = .error .checksum := by decide
example : ext5Accept Ref.UPCEAN.ean5CheckDigit [(1, true), (2, false), (3, true), (4, false), (5, false)] = .ok () := by decide
example : ext5Accept Ref.UPCEAN.ean5CheckDigit [(1, true), (2, true), (3, false), (4, false), (5, false)] = .error .checksum := by decide
example : stdWriterContents 13 (digitBytes [4, 0, 0, 6, 3, 8, 1, 3, 3, 3, 9, 3]) = .ok (digitBytes [4, 0, 0, 6, 3, 8, 1, 3, 3, 3, 9, 3, 1]) := by decide
example : stdWriterContents 13 (digitBytes [4, 0, 0, 6, 3, 8, 1, 3, 3, 3, 9, 3, 2]) = .error .writer := by decide
/-- the D9 witness after the repair: "1460081" is drawn with check digit 0 -/
example : upceWriterContents (digitBytes [1, 4, 6, 0, 0, 8, 1]) = .ok (digitBytes [1, 4, 6, 0, 0, 8, 1, 0]) := by decide

end Gzx.Properties.C10
