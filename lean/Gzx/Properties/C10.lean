import Gzx.Model.CheckDigit
namespace Gzx.Properties.C10
end Gzx.Properties.C10
