/-
  C10 — the EAN-5 add-on check value under digit errors (round 5 addition).
  `ean5_accept_iff` says a 5-digit add-on is accepted iff its parity pattern is the table entry of
  `ext5Checksum`; here: the weights 3 and 9 are units modulo 10, so replacing any ONE digit changes the
  check value — hence, for a table of ten distinct patterns, an accepted add-on whose digit is misread
  while the parity pattern is kept is refused.  Any length, any position.
-/
import Gzx.Properties.C10
namespace Gzx.Properties.C10
open Gzx Gzx.CheckDigit

theorem ext5SumAux_set (l : List Nat) (i d' : Nat) (hi : i < l.length) :
    (ext5SumAux (l.set i d')).2 = (ext5SumAux l).2 ∧
    ∃ w, (w = 3 ∨ w = 9) ∧ (ext5SumAux (l.set i d')).1 + w * l[i] = (ext5SumAux l).1 + w * d' := by
  induction l generalizing i with
  | nil => simp at hi
  | cons x xs ih =>
    cases i with
    | zero =>
      simp only [List.set_cons_zero, ext5SumAux, List.getElem_cons_zero, true_and]
      cases (ext5SumAux xs).2
      · exact ⟨9, Or.inr rfl, by simp; omega⟩
      · exact ⟨3, Or.inl rfl, by simp; omega⟩
    | succ j =>
      have hj : j < xs.length := by simpa using hi
      obtain ⟨h2, w, hw, hs⟩ := ih j hj
      simp only [List.set_cons_succ, ext5SumAux, List.getElem_cons_succ, h2, true_and]
      exact ⟨w, hw, by omega⟩

/-- one replaced digit changes the add-on check value -/
theorem ext5_check_changes (ds : List Nat) (i d' : Nat) (hi : i < ds.length)
    (hd : ds[i] < 10) (hd' : d' < 10) (hne : d' ≠ ds[i]) :
    ext5Checksum (ds.set i d') ≠ ext5Checksum ds := by
  unfold ext5Checksum
  obtain ⟨_, w, hw, hs⟩ := ext5SumAux_set ds i d' hi
  rcases hw with rfl | rfl <;> omega

/-- the table of ten distinct patterns has one index per pattern -/
theorem parity_index_unique {T : List Nat} (h : WFParity T = true) (a b p : Nat) (ha : a < 10) (hb : b < 10)
    (h1 : T[a]? = some p) (h2 : T[b]? = some p) : a = b := by
  obtain ⟨ha', sa⟩ := scan10_getElem h a ha
  obtain ⟨hb', sb⟩ := scan10_getElem h b hb
  rw [List.getElem?_eq_getElem ha'] at h1
  rw [List.getElem?_eq_getElem hb'] at h2
  have e1 : T[a] = p := Option.some.inj h1
  have e2 : T[b] = p := Option.some.inj h2
  rw [e1] at sa; rw [e2] at sb
  rw [sa] at sb
  exact Except.ok.inj sb

/-- Clause "5-digit add-ons are accepted only with their parity-encoded check value", under faults:
    an accepted add-on with any ONE digit replaced (parity pattern as printed) is refused -/
theorem ean5_rejects_single_substitution (T : List Nat) (h : WFParity T = true) (sym : List (Nat × Bool))
    (hl : sym.length = 5) (i d' : Nat) (hi : i < sym.length) (hd : (sym[i]).1 < 10) (hd' : d' < 10)
    (hne : d' ≠ (sym[i]).1) (hacc : ext5Accept T sym = .ok ()) :
    ext5Accept T (sym.set i (d', (sym[i]).2)) ≠ .ok () := by
  intro hacc'
  rw [ean5_accept_iff T h sym hl] at hacc
  rw [ean5_accept_iff T h _ (by simpa using hl)] at hacc'
  have hm1 : (sym.set i (d', (sym[i]).2)).map (·.1) = (sym.map (·.1)).set i d' := by
    rw [List.map_set]
  have hm2 : (sym.set i (d', (sym[i]).2)).map (·.2) = sym.map (·.2) := by
    rw [List.map_set]
    apply List.ext_getElem (by simp)
    intro n h1 h2
    simp only [List.getElem_set, List.getElem_map]
    split
    · subst_vars; rfl
    · rfl
  rw [hm1, hm2] at hacc'
  have hi' : i < (sym.map (·.1)).length := by simpa using hi
  have hget : (sym.map (·.1))[i] = (sym[i]).1 := by simp
  have hch := ext5_check_changes (sym.map (·.1)) i d' hi' (by rw [hget]; exact hd) hd' (by rw [hget]; exact hne)
  apply hch
  exact parity_index_unique h _ _ _ (by unfold ext5Checksum; omega) (by unfold ext5Checksum; omega) hacc' hacc

example : ext5Checksum [5, 1, 2, 3, 4] ≠ ext5Checksum [5, 1, 7, 3, 4] := by decide

end Gzx.Properties.C10
