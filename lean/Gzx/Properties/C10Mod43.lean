/-
  C10 — the optional Code 39 mod-43 check character, at value level (round 5 addition).
  `code39_row_result_verifies` (C03Row39) shows the reader enforces `last = alphabet[Σ index mod 43]`;
  here: what that check buys.  43 is larger than every character value, and the weights are all 1, so
  EVERY single-character substitution (data or check position) is detected, for every length — and,
  because the sum is unweighted, NO reordering of the data characters is (stated as a theorem so that
  nobody reads more into the check than it gives).
-/
import Gzx.Proofs.CheckDigit
import Gzx.Proofs.OneDPost
namespace Gzx.Properties.C10
open Gzx Gzx.CheckDigit

theorem sumL_set (vals : List Nat) (i v' : Nat) (hi : i < vals.length) :
    sumL (vals.set i v') + vals[i] = sumL vals + v' := by
  induction vals generalizing i with
  | nil => simp at hi
  | cons x xs ih =>
    cases i with
    | zero => simp [sumL]; omega
    | succ i =>
      have := ih i (by simpa using hi)
      simp only [sumL, List.set_cons_succ, List.foldr_cons, List.getElem_cons_succ] at this ⊢
      omega

/-- a data character replaced by a different one changes the check character — all lengths, all positions -/
theorem code39_check_changes (vals : List Nat) (i v' : Nat) (hi : i < vals.length)
    (hv : vals[i] < 43) (hv' : v' < 43) (hne : v' ≠ vals[i]) :
    c39Check (vals.set i v') ≠ c39Check vals := by
  unfold c39Check
  have := sumL_set vals i v' hi
  omega

/-- a message `data ++ [check]` is accepted when the check value equals the sum mod 43 -/
def c39Valid (data : List Nat) (chk : Nat) : Bool := c39Check data == chk

/-- every single substitution in an accepted Code 39 message with check character is rejected:
    in the data part … -/
theorem code39_detects_data_substitution (data : List Nat) (chk i v' : Nat) (hi : i < data.length)
    (hv : data[i] < 43) (hv' : v' < 43) (hne : v' ≠ data[i]) (hok : c39Valid data chk = true) :
    c39Valid (data.set i v') chk = false := by
  unfold c39Valid at *
  have := code39_check_changes data i v' hi hv hv' hne
  simp only [beq_iff_eq] at hok
  simp only [beq_eq_false_iff_ne, ne_eq]
  omega

/-- … and in the check position -/
theorem code39_detects_check_substitution (data : List Nat) (chk chk' : Nat) (hne : chk' ≠ chk)
    (hok : c39Valid data chk = true) : c39Valid data chk' = false := by
  unfold c39Valid at *
  simp only [beq_iff_eq] at hok
  simp only [beq_eq_false_iff_ne, ne_eq]
  omega

theorem sumL_perm {a b : List Nat} (h : a.Perm b) : sumL a = sumL b := by
  induction h with
  | nil => rfl
  | cons x _ ih => simp only [sumL, List.foldr_cons] at ih ⊢; omega
  | swap x y l => simp only [sumL, List.foldr_cons]; omega
  | trans _ _ ih1 ih2 => omega

/-- the limit of the check: the sum is unweighted, so any reordering of the data characters
    (in particular every transposition) keeps the same check character -/
theorem code39_reordering_undetected (a b : List Nat) (chk : Nat) (h : a.Perm b) :
    c39Valid a chk = c39Valid b chk := by
  unfold c39Valid c39Check
  rw [sumL_perm h]


/-- character → value as the reader computes it (`strings.Index(alphabet, c)`), as a natural number -/
def c39Val (A : List Nat) (c : Nat) : Nat := (OneDPost.indexOf A c).toNat

theorem foldl_idx_eq (A s : List Nat) (h : ∀ c ∈ s, c ∈ A) (t : Nat) :
    s.foldl (fun t c => t + OneDPost.indexOf A c) (t : Int) = ((t + sumL (s.map (c39Val A)) : Nat) : Int) := by
  induction s generalizing t with
  | nil => simp [sumL]
  | cons c rest ih =>
    simp only [List.foldl_cons, List.map_cons]
    have hn := OneDPost.indexOf_nonneg A c (h c (by simp))
    have : (t : Int) + OneDPost.indexOf A c = ((t + c39Val A c : Nat) : Int) := by
      unfold c39Val; omega
    rw [this, ih (fun x hx => h x (by simp [hx]))]
    simp only [sumL, List.foldr_cons]
    congr 1; omega

/-- link to the tied row model: the index the reader looks up, `Σ index mod 43` in Go's truncated `%`,
    is the value-level `c39Check` of the character values — for every string over the alphabet -/
theorem reader_check_index_eq (A s : List Nat) (h : ∀ c ∈ s, c ∈ A) :
    Int.tmod (OneDPost.sumIdx A s) 43 = ((c39Check (s.map (c39Val A)) : Nat) : Int) := by
  unfold OneDPost.sumIdx c39Check
  have := foldl_idx_eq A s h 0
  simp only [Int.natCast_zero] at this
  rw [show (0:Int) = ((0:Nat):Int) from rfl] at *
  rw [this]
  simp only [Nat.zero_add]
  rw [Int.tmod_eq_emod_of_nonneg (by omega)]
  omega


theorem indexFrom_lt (as : List Nat) (c : Nat) (i : Nat) (h : c ∈ as) :
    OneDPost.indexFrom as c i < ((i + as.length : Nat) : Int) := by
  induction as generalizing i with
  | nil => simp at h
  | cons a as ih =>
    unfold OneDPost.indexFrom
    split
    · simp only [List.length_cons]; omega
    · rename_i e
      have : c ∈ as := by
        rcases List.mem_cons.mp h with h1 | h1
        · exact absurd h1.symm e
        · exact h1
      have := ih (i + 1) this
      simp only [List.length_cons]; omega

/-- the value of an alphabet character is below the alphabet size (43 for Code 39), so the
    hypotheses `< 43` of the detection theorems hold for everything the reader can have decoded -/
theorem c39Val_lt (A : List Nat) (c : Nat) (h : c ∈ A) : c39Val A c < A.length := by
  have := indexFrom_lt A c 0 h
  have hn := OneDPost.indexOf_nonneg A c h
  unfold c39Val OneDPost.indexOf at *
  omega

-- "AB" + check: A=10, B=11 → 21 = 'L'
example : c39Valid [10, 11] 21 = true := by decide
example : c39Valid [10, 12] 21 = false := by decide
example : c39Valid [11, 10] 21 = true := by decide

end Gzx.Properties.C10
