/-
  C10 (wp rowsrest) — check digits on the WHOLE row-decoder model (Gzx/Model/OneDRowExt.lean): whatever pixel row,
  row number and hint map is given, a result of `DecodeRow` of any of the five UPC/EAN readers carries a number that
  has passed the mod-10 test of its format, and the add-on reader accepts an add-on iff its parity word matches
  (the symbol-level acceptance predicates of Properties/C10.lean: `ean2_accept_iff`, `ean5_accept_iff`).
  For every interpretation of the variance arithmetic.
-/
import Gzx.Proofs.OneDRowExtTotal3
namespace Gzx.Properties.C10Row
open Gzx Gzx.CheckDigit Gzx.OneDRowExt Gzx.Proofs.OneDRowExtTotal
open Gzx.OneD (Tables refTables notFoundOf lgWord lAndG)

/-- the mod-10 statement behind `readerAccept`: EAN-13 / EAN-8 on the text, UPC-A on "0" + text, UPC-E on the
    UPC-A expansion -/
def Verifies : EanKind → List Nat → Prop
  | .ean13, s => checkStandardB s = .ok true
  | .ean8, s => checkStandardB s = .ok true
  | .upca, s => checkStandardB (48 :: s) = .ok true
  | .upce, s => ∃ a, convertUPCEtoUPCA s = .ok a ∧ checkStandardB a = .ok true

theorem acc_core (r : Res Bool)
    (h : (match r with
          | .ok true => (.ok () : Res Unit)
          | .ok false => .error .checksum
          | .error (.panic w) => .error (.panic w)
          | .error _ => .error .checksum) = .ok ()) : r = .ok true := by
  cases r with
  | ok b => cases b <;> simp at h ⊢
  | error e => cases e <;> simp at h

theorem verifies_of_accept {k : EanKind} {s : List Nat} (h : Accepted k s) : Verifies k s := by
  unfold Accepted readerAccept at h
  cases k with
  | ean13 =>
    simp only [reduceCtorEq, if_false] at h
    split at h
    · cases h
    · exact acc_core _ h
  | ean8 =>
    simp only [reduceCtorEq, if_false] at h
    split at h
    · cases h
    · exact acc_core _ h
  | upca =>
    simp only [if_true] at h
    split at h
    · cases h
    · exact acc_core _ h
  | upce =>
    simp only [reduceCtorEq, if_false] at h
    split at h
    · cases h
    · have := acc_core _ h
      cases hv : convertUPCEtoUPCA s with
      | error e => rw [hv] at this; cases this
      | ok a => rw [hv] at this; exact ⟨a, hv, this⟩

/-- **C10 on the whole row model, single-format readers**: any result of `DecodeRow` — whatever the row, the row
    number, the hints, the add-on that follows — carries a number that verifies: "readers never return a symbol whose
    check characters do not verify".  (The check is the last gate before the result is built; add-on, country and
    ALLOWED_EAN_EXTENSIONS handling cannot let an unverified number through.) -/
theorem reader_result_verifies_row {V : Type} (O : VarOps V) (T : Tables) (X : ExtTables) (wf : wfRow T X = true)
    (k : EanKind) (rn : Int) (row : List Bool) (h : Hints) (res : RowResult)
    (hr : (decodeRow O T X k rn row h).2 = .ok res) : res.format = k ∧ Verifies k res.text := by
  have hs := decodeRow_sat O T X (wfRow_iff wf) k rn row h
  unfold SubOK at hs; rw [hr] at hs
  exact ⟨hs.2.1, verifies_of_accept hs.2.2⟩

/-- **… and the multi-format reader**, for every sub-reader list: the returned text verifies as the format it is
    returned as (an EAN-13 "0…" re-labelled UPC-A verifies as UPC-A). -/
theorem multi_result_verifies_row {V : Type} (O : VarOps V) (T : Tables) (X : ExtTables) (wf : wfRow T X = true)
    (readers : List EanKind) (rn : Int) (row : List Bool) (h : Hints) (res : RowResult)
    (hr : (multiDecodeRow O T X readers rn row h).2 = .ok res) : Verifies res.format res.text := by
  unfold multiDecodeRow at hr
  have hw := wfRow_iff wf
  cases hsr : notFoundOf (findStartGuardPattern O T row) with
  | error e => rw [hsr] at hr; cases hr
  | ok sg =>
    rw [hsr] at hr
    have hs := multiLoopA_sat (fun k => readerWithStart O T X k rn row h sg) h.canUPCA
      (fun k => readerWithStart_sat O T X hw k rn row h sg) readers []
    simp only [] at hr
    rw [hr] at hs
    exact verifies_of_accept hs.2

/-! ## add-ons: accepted iff the parity matches -/

/-- the (digit, number set G?) pairs of decoded pattern indices 0..19 -/
def symOf (ms : List Nat) : List (Nat × Bool) := ms.map (fun m => (m % 10, decide (m ≥ 10)))

theorem lgWord2 (a b : Nat) : lgWord 2 [a, b] = parityBits [decide (a ≥ 10), decide (b ≥ 10)] := by
  by_cases ha : a ≥ 10 <;> by_cases hb : b ≥ 10 <;> simp [lgWord, parityBits, ha, hb, List.range_succ]

theorem lgWord5 (a b c d e : Nat) :
    lgWord 5 [a, b, c, d, e] =
      parityBits [decide (a ≥ 10), decide (b ≥ 10), decide (c ≥ 10), decide (d ≥ 10), decide (e ≥ 10)] := by
  by_cases ha : a ≥ 10 <;> by_cases hb : b ≥ 10 <;> by_cases hc : c ≥ 10 <;> by_cases hd : d ≥ 10 <;>
    by_cases he : e ≥ 10 <;> simp [lgWord, parityBits, ha, hb, hc, hd, he, List.range_succ]

/-- **Two-digit add-on, row level**: once two digits were decoded after the add-on guard, `decodeMiddle` of the
    two-digit support succeeds iff the symbol-level acceptance predicate of C10 holds — i.e. (`ean2_accept_iff`) iff
    the parity word equals `value mod 4`; otherwise it is a ChecksumException. -/
theorem ext2_row_accept_iff {V : Type} (O : VarOps V) (T : Tables) (row : List Bool) (s : Nat) (a b off : Nat)
    (hd : notFoundOf (extDigitsLoop O T row 2 s []) = .ok ([a, b], off)) :
    (ext2Accept (symOf [a, b]) = .ok () → ext2DecodeMiddle O T row s = .ok (off, [48 + a % 10, 48 + b % 10])) ∧
    (ext2Accept (symOf [a, b]) ≠ .ok () → ext2DecodeMiddle O T row s = .error .checksum) := by
  unfold ext2DecodeMiddle
  rw [hd]
  simp only [List.length_cons, List.length_nil, ne_eq, not_true_eq_false, if_false, List.map_cons, List.map_nil]
  have hv : atoi? [48 + a % 10, 48 + b % 10] = some (10 * (a % 10) + b % 10) := by
    have := digits_of_mod10 [a, b]
    simp only [List.map_cons, List.map_nil] at this
    simp [atoi?, this, List.foldl]
  rw [hv, lgWord2]
  simp only [symOf, List.map_cons, List.map_nil, ext2Accept]
  by_cases hp : (10 * (a % 10) + b % 10) % 4 = parityBits [decide (a ≥ 10), decide (b ≥ 10)]
  · simp [hp]
  · simp [hp]

/-- **Five-digit add-on, row level**: once five digits were decoded, `decodeMiddle` of the five-digit support succeeds
    iff the symbol-level acceptance predicate `ext5Accept` holds — i.e. (`ean5_accept_iff`) iff the parity word is the
    table entry of the add-on checksum. -/
theorem ext5_row_accept_iff {V : Type} (O : VarOps V) (T : Tables) (X : ExtTables) (row : List Bool) (s : Nat)
    (a b c d e off : Nat)
    (hd : notFoundOf (extDigitsLoop O T row 5 s []) = .ok ([a, b, c, d, e], off)) :
    (∃ r, ext5DecodeMiddle O T X row s = .ok r) ↔ ext5Accept X.ean5Check (symOf [a, b, c, d, e]) = .ok () := by
  unfold ext5DecodeMiddle ext5Accept
  rw [hd]
  simp only [List.length_cons, List.length_nil, ne_eq, not_true_eq_false, if_false, symOf, List.map_cons, List.map_nil]
  rw [lgWord5]
  cases hc : determineCheckDigit5 X.ean5Check
      (parityBits [decide (a ≥ 10), decide (b ≥ 10), decide (c ≥ 10), decide (d ≥ 10), decide (e ≥ 10)]) with
  | error err => simp
  | ok dg =>
    simp only []
    by_cases hk : ext5Checksum [a % 10, b % 10, c % 10, d % 10, e % 10] = dg
    · simp [hk]
    · simp [hk]

/-! ### non-vacuity -/

/-- EAN-8 "96385074" + two-digit add-on "34" (34 mod 4 = 2: parities G L) after a gap of 9 modules -/
def ean8AddOnRow : List Bool := parseBits
  ("000000010100010110101111011110101101110101010011101110010100010010111001010000000" ++ "00" ++
   "1011" ++ "0100001" ++ "01" ++ "0100011" ++ "0000000")

example : ((decodeRow VarOps.exact refTables refExt .ean8 0 ean8AddOnRow {}).2.toOption.map
    (fun r => (r.text, r.md.find? (·.1 = .upcEanExtension)))) =
    some (OneD.bytesOf "96385074", some (.upcEanExtension, .str (OneD.bytesOf "34"))) := by decide +kernel

/-- the same row with ALLOWED_EAN_EXTENSIONS = [5]: refused -/
example : ((decodeRow VarOps.exact refTables refExt .ean8 0 ean8AddOnRow { allowedExt := some [5] }).2.toOption.map (·.text)) =
    none := by decide +kernel

example : Verifies .ean8 (OneD.bytesOf "96385074") := by show checkStandardB _ = .ok true; decide
example : ¬ Verifies .ean8 (OneD.bytesOf "96385075") := by show ¬ checkStandardB _ = .ok true; decide

end Gzx.Properties.C10Row
