/-
  C10 (wp oned128) — "Readers never return a symbol whose check characters do not verify … every single-character
  substitution in a Code 128 symbol is reported as an error rather than as a different text", on the Code 128 ROW DECODER
  as coded (Gzx/Model/OneDRow128.lean), exact interpretation, at every scale and quiet zone.
-/
import Gzx.Proofs.Row128Check
namespace Gzx.Properties.C10Row128
open Gzx Gzx.OneD Gzx.Row128 Gzx.CheckDigit

/-- A drawn Code 128 symbol `start, data…, chk, STOP` (data and check values below 103, i.e. no start code / STOP inside)
    whose check character is NOT the mod-103 check of start and data is refused with ChecksumException by the row decoder
    — at every scale `s ≥ 1`, every quiet zone `lq, rq ≥ 0`, with and without ASSUME_GS1. -/
theorem code128_row_wrong_checksum_rejected (P : List (List Nat)) (hWF : wfRow128B P = true) (sc : Nat)
    (hsc : sc = 103 ∨ sc = 104 ∨ sc = 105) (data : List Nat) (chk : Nat) (hd : ∀ c ∈ data, c < 103) (hchk : chk < 103)
    (hbad : chk ≠ c128Check sc data) (lq s rq : Nat) (hs : 1 ≤ s) (gs1 : Bool) :
    Row128.decodeRow exactDom P (paddedRow lq s rq (appendPattern (fullRuns P (sc :: (data ++ [chk]) ++ [106])) true)) gs1
      = .error .checksum := by
  have hb : ∀ c ∈ data ++ [chk], c < 106 := by
    intro c hc
    simp only [List.mem_append, List.mem_singleton] at hc
    rcases hc with hc | rfl
    · have := hd c hc; omega
    · omega
  rw [decodeRow_symbol P hWF sc hsc (data ++ [chk]) hb lq s rq (by omega) gs1]
  obtain ⟨cs, hcs, hcs3⟩ := codeSetOf_start sc hsc
  have hCS : CS (st0 cs sc) := by unfold CS st0; simp only []; omega
  obtain ⟨s', hrun, h1, h2, h3⟩ := symRun_data gs1 (data ++ [chk]) (st0 cs sc) (by
    intro c hc
    simp only [List.mem_append, List.mem_singleton] at hc
    rcases hc with hc | rfl
    · exact hd c hc
    · exact hchk) hCS
  have hfin : finish s' = .error .checksum := by
    unfold finish
    have ht : s'.total = sc + wsumFrom 1 data + (data.length + 1) * chk := by
      rw [h1]
      simp only [st0, Nat.zero_add]
      rw [wsumFrom_append]
      have : 1 + data.length = data.length + 1 := by omega
      rw [this]; omega
    have hm : s'.mult = data.length + 1 := by rw [h2]; simp [st0]
    have hl : s'.lastCode = chk := by rw [h3]; simp
    rw [ht, hm, hl, Nat.add_sub_cancel]
    have : (sc + wsumFrom 1 data) % 103 ≠ chk := fun e => hbad (by unfold c128Check; exact e.symm)
    rw [if_pos this]
  unfold readSyms
  rw [hcs]
  simp only [hrun, hfin]

/-- in particular a single substituted data character (weight below 103) is never read as text: the check character
    drawn for the original data no longer verifies (C10 `code128_detects_single_substitution`) -/
theorem code128_row_single_substitution_rejected (P : List (List Nat)) (hWF : wfRow128B P = true) (sc : Nat)
    (hsc : sc = 103 ∨ sc = 104 ∨ sc = 105) (data : List Nat) (i v' : Nat) (hd : ∀ c ∈ data, c < 103)
    (hi : i < data.length) (hw : i + 1 < 103) (hv' : v' < 103) (hne : v' ≠ data[i])
    (lq s rq : Nat) (hs : 1 ≤ s) (gs1 : Bool) :
    Row128.decodeRow exactDom P
        (paddedRow lq s rq (appendPattern (fullRuns P (sc :: (data.set i v' ++ [c128Check sc data]) ++ [106])) true)) gs1
      = .error .checksum := by
  apply code128_row_wrong_checksum_rejected P hWF sc hsc (data.set i v') (c128Check sc data) _ _ _ lq s rq hs gs1
  · intro c hc
    rcases List.mem_or_eq_of_mem_set hc with h | rfl
    · exact hd c h
    · exact hv'
  · unfold c128Check; exact Nat.lt_of_lt_of_le (Nat.mod_lt _ (by omega)) (by omega)
  · exact (Properties.C10.code128_detects_single_substitution sc data i v' hi hw (hd _ (List.getElem_mem hi)) hv' hne).symm

/-! ### non-vacuity -/
/-- start B, "AB" (33, 34): the right check character is 102; drawn with 101 instead it is refused -/
example : c128Check 104 [33, 34] = 102 := by decide
example : Row128.decodeRow exactDom refTables.code128
    (paddedRow 3 2 0 (appendPattern (fullRuns refTables.code128 [104, 33, 34, 101, 106]) true)) false = .error .checksum := by
  decide +kernel
example : (Row128.decodeRow exactDom refTables.code128
    (paddedRow 3 2 0 (appendPattern (fullRuns refTables.code128 [104, 33, 34, 102, 106]) true)) false).map (·.text)
    = .ok [65, 66] := by decide +kernel
/-- OBSERVATION on the model (mirrors the code, verified on the real reader): with ASSUME_GS1 a symbol whose check
    character happens to be 102 (= FNC1) is returned with a trailing GS (29) — the reader processes the check character as
    data before it knows it is the check character, and only strips it when it was "printable".  "AB" reads as "AB\x1d".
    The property quantifies over readers without hints, so this is recorded, not reported. -/
example : (Row128.decodeRow exactDom refTables.code128
    (paddedRow 3 2 0 (appendPattern (fullRuns refTables.code128 [104, 33, 34, 102, 106]) true)) true).map (·.text)
    = .ok [65, 66, 29] := by decide +kernel

end Gzx.Properties.C10Row128
