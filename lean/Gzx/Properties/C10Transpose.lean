/-
  C10 — what the UPC/EAN mod-10 check does with the second classic keying error, the transposition of
  two adjacent digits (round 5 addition).  The weights alternate 3,1 so swapping neighbours a,b moves the
  sum by 2·|a−b|: detected for every length and every position unless a and b differ by 5 (or are
  equal, when nothing changed) — and in the differ-by-5 case provably NOT detected (witness below).
-/
import Gzx.Proofs.CheckDigit
namespace Gzx.Properties.C10
open Gzx Gzx.CheckDigit

theorem eanSumAux_append_congr (pre l1 l2 : List Nat) (h : (eanSumAux l1).2 = (eanSumAux l2).2) :
    (eanSumAux (pre ++ l1)).2 = (eanSumAux (pre ++ l2)).2 ∧
    (eanSumAux (pre ++ l1)).1 + (eanSumAux l2).1 = (eanSumAux (pre ++ l2)).1 + (eanSumAux l1).1 := by
  induction pre with
  | nil => exact ⟨by simpa using h, by simp; omega⟩
  | cons x xs ih =>
    obtain ⟨hf, hs⟩ := ih
    simp only [List.cons_append, eanSumAux, hf]
    refine ⟨trivial, ?_⟩
    split <;> omega

theorem eanSumAux_swap (a b : Nat) (post : List Nat) :
    (eanSumAux (a :: b :: post)).2 = (eanSumAux (b :: a :: post)).2 ∧
    ((eanSumAux (a :: b :: post)).1 + 2 * a = (eanSumAux (b :: a :: post)).1 + 2 * b ∨
     (eanSumAux (a :: b :: post)).1 + 2 * b = (eanSumAux (b :: a :: post)).1 + 2 * a) := by
  rcases hp : eanSumAux post with ⟨s, f⟩
  simp only [eanSumAux, hp]
  cases f <;> simp <;> omega

/-- Swapping two adjacent digits of the body changes the check digit — for every length and every
    position — unless the two digits are equal or differ by exactly 5. -/
theorem ean_detects_adjacent_transposition (pre post : List Nat) (a b : Nat) (ha : a < 10) (hb : b < 10)
    (hne : a ≠ b) (h5a : a + 5 ≠ b) (h5b : b + 5 ≠ a) :
    eanCheckDigit (pre ++ b :: a :: post) ≠ eanCheckDigit (pre ++ a :: b :: post) := by
  intro h
  have hm := goCheckOf_eq_mod h
  obtain ⟨hf, hs⟩ := eanSumAux_swap a b post
  obtain ⟨_, hc⟩ := eanSumAux_append_congr pre _ _ hf
  unfold eanSum at hm
  rcases hs with hs | hs <;> omega

/-- hence a valid number with two neighbouring body digits swapped is rejected -/
theorem ean_rejects_adjacent_transposition (pre post : List Nat) (a b c : Nat) (ha : a < 10) (hb : b < 10)
    (hne : a ≠ b) (h5a : a + 5 ≠ b) (h5b : b + 5 ≠ a)
    (hv : eanValid (pre ++ a :: b :: post ++ [c]) = true) :
    eanValid (pre ++ b :: a :: post ++ [c]) = false := by
  have e1 : pre ++ a :: b :: post ++ [c] = (pre ++ a :: b :: post) ++ [c] := by simp
  have e2 : pre ++ b :: a :: post ++ [c] = (pre ++ b :: a :: post) ++ [c] := by simp
  rw [e1, eanValid_concat] at hv
  rw [e2, eanValid_concat]
  have := ean_detects_adjacent_transposition pre post a b ha hb hne h5a h5b
  simp only [beq_iff_eq] at hv
  simp only [beq_eq_false_iff_ne, ne_eq]
  rw [← hv]; exact this

/-- the limit of the check: neighbours that differ by 5 can be swapped unnoticed (EAN-8 16000001 / 61000001) -/
theorem ean_transposition_differ_by_5_undetected :
    eanValid [1, 6, 0, 0, 0, 0, 0, 1] = true ∧ eanValid [6, 1, 0, 0, 0, 0, 0, 1] = true := by decide

example : eanValid [4, 0, 0, 6, 3, 8, 1, 3, 3, 3, 9, 3, 1] = true := by decide
example : eanValid [4, 0, 0, 6, 3, 8, 1, 3, 3, 3, 3, 9, 1] = false := by decide

end Gzx.Properties.C10
