/-
  C10 — Code 128: transposition of two adjacent data characters (round 5 addition).
  The weights grow by one per position, so swapping neighbours a,b moves the weighted sum by exactly
  |a−b| < 103: ALWAYS detected — every length, every position, no weight bound (unlike substitutions,
  cf. `code128_weight_103_undetected`).
-/
import Gzx.Properties.C10
namespace Gzx.Properties.C10
open Gzx Gzx.CheckDigit

theorem wsumFrom_append_list (w : Nat) (pre l : List Nat) :
    wsumFrom w (pre ++ l) = wsumFrom w pre + wsumFrom (w + pre.length) l := by
  induction pre generalizing w with
  | nil => simp [wsumFrom]
  | cons x xs ih =>
    simp only [List.cons_append, wsumFrom, ih, List.length_cons]
    have : w + 1 + xs.length = w + (xs.length + 1) := by omega
    rw [this]; omega

theorem wsumFrom_swap (w a b : Nat) (post : List Nat) :
    wsumFrom w (a :: b :: post) + a = wsumFrom w (b :: a :: post) + b := by
  simp only [wsumFrom, Nat.add_mul, Nat.one_mul]
  omega

/-- swapping two different adjacent data characters always changes the check character -/
theorem code128_detects_adjacent_transposition (start : Nat) (pre post : List Nat) (a b : Nat)
    (ha : a < 103) (hb : b < 103) (hne : a ≠ b) :
    c128Check start (pre ++ b :: a :: post) ≠ c128Check start (pre ++ a :: b :: post) := by
  unfold c128Check
  rw [wsumFrom_append_list, wsumFrom_append_list]
  have := wsumFrom_swap (1 + pre.length) a b post
  omega

/-- hence the reader rejects an accepted symbol after any such swap -/
theorem code128_reader_rejects_adjacent_transposition (start : Nat) (pre post : List Nat) (a b chk : Nat)
    (ha : a < 103) (hb : b < 103) (hne : a ≠ b)
    (hacc : c128ReaderAccept start ((pre ++ a :: b :: post) ++ [chk]) = true) :
    c128ReaderAccept start ((pre ++ b :: a :: post) ++ [chk]) = false := by
  rw [code128_reader_accepts_iff] at hacc ⊢
  simp only [beq_iff_eq] at hacc
  simp only [beq_eq_false_iff_ne, ne_eq]
  rw [← hacc]
  exact code128_detects_adjacent_transposition start pre post a b ha hb hne

example : c128ReaderAccept 104 ([33, 34] ++ [c128Check 104 [33, 34]]) = true := by decide
example : c128ReaderAccept 104 ([34, 33] ++ [c128Check 104 [33, 34]]) = false := by decide

end Gzx.Properties.C10
