/-
  C10 — Code 93: transposition of two adjacent characters (round 5 addition).
  Neighbouring weights differ by 1, or by maxW−1 where the weight cycle wraps (20→1 for C, 15→1 for K);
  both are units modulo the prime 47, so swapping two different neighbours always changes a check
  character — every length, every position, every weight cycle 2 ≤ maxW < 47.
-/
import Gzx.Properties.C10
namespace Gzx.Properties.C10
open Gzx Gzx.CheckDigit

theorem c93SumRev_swap (maxW : Nat) (hm : 1 ≤ maxW) (l1 l2 : List Nat) (x y w : Nat) (hw : 1 ≤ w ∧ w ≤ maxW) :
    ∃ R u, 1 ≤ u ∧ u ≤ maxW ∧
      c93SumRev maxW w (l1 ++ x :: y :: l2) = R + x * u + y * c93Next maxW u ∧
      c93SumRev maxW w (l1 ++ y :: x :: l2) = R + y * u + x * c93Next maxW u := by
  induction l1 generalizing w with
  | nil =>
    refine ⟨c93SumRev maxW (c93Next maxW (c93Next maxW w)) l2, w, hw.1, hw.2, ?_, ?_⟩ <;>
      simp only [List.nil_append, c93SumRev] <;> omega
  | cons c cs ih =>
    obtain ⟨R, u, h1, h2, e1, e2⟩ := ih (c93Next maxW w) (c93Next_range hm hw)
    refine ⟨c * w + R, u, h1, h2, ?_, ?_⟩ <;>
      simp only [List.cons_append, c93SumRev, e1, e2] <;> omega

/-- swapping two different adjacent characters changes a Code 93 check character -/
theorem code93_check_changes_on_transposition (maxW : Nat) (hm : 2 ≤ maxW) (hm' : maxW < 47)
    (pre post : List Nat) (a b : Nat) (ha : a < 47) (hb : b < 47) (hne : a ≠ b) :
    c93Check maxW (pre ++ b :: a :: post) ≠ c93Check maxW (pre ++ a :: b :: post) := by
  unfold c93Check
  have r1 : (pre ++ a :: b :: post).reverse = post.reverse ++ b :: a :: pre.reverse := by simp
  have r2 : (pre ++ b :: a :: post).reverse = post.reverse ++ a :: b :: pre.reverse := by simp
  rw [r1, r2]
  obtain ⟨R, u, h1, h2, e1, e2⟩ := c93SumRev_swap maxW (by omega) post.reverse pre.reverse b a 1 ⟨by omega, by omega⟩
  rw [e1, e2]
  unfold c93Next
  split
  · -- wrap: u = maxW, next weight 1
    have hu : u = maxW := by omega
    subst hu
    intro h
    have hdet := weighted_change_detected nzd47 (R + a + b) (u - 1) a b (by omega) (by omega) ha hb hne
    apply hdet
    have ea : R + a + b + (u - 1) * a = R + b * 1 + a * u := by
      have : (u - 1) * a + a = a * u := by rw [Nat.mul_comm a u, ← Nat.succ_mul]; congr 1; omega
      omega
    have eb : R + a + b + (u - 1) * b = R + a * 1 + b * u := by
      have : (u - 1) * b + b = b * u := by rw [Nat.mul_comm b u, ← Nat.succ_mul]; congr 1; omega
      omega
    rw [ea, eb]
    have := h
    omega
  · simp only [Nat.mul_add, Nat.mul_one]
    omega

/-- hence a symbol `data ++ [C, K]` the reader accepts is rejected after swapping two different
    neighbouring data characters -/
theorem code93_reader_rejects_adjacent_transposition (pre post : List Nat) (a b c k : Nat)
    (ha : a < 47) (hb : b < 47) (hne : a ≠ b)
    (hacc : c93ReaderAccept ((pre ++ a :: b :: post) ++ [c, k]) = .ok true) :
    c93ReaderAccept ((pre ++ b :: a :: post) ++ [c, k]) = .ok false := by
  rw [c93ReaderAccept_concat] at hacc ⊢
  simp only [Except.ok.injEq, Bool.and_eq_true, beq_iff_eq] at hacc
  have := code93_check_changes_on_transposition 20 (by omega) (by omega) pre post a b ha hb hne
  rw [hacc.1] at this
  simp [this]

example : c93Check 20 [10, 11, 12] ≠ c93Check 20 [11, 10, 12] := by decide

end Gzx.Properties.C10
