/-
  C11 — Aztec: conforming symbols of every size decode to their text.
  Property theorems only; helper lemmas live in Gzx/Proofs/Aztec*.lean.

  Reference encoder (from ISO/IEC 24778): Gzx/Ref/Aztec.lean, Gzx/Ref/AztecLayout.lean.
  Decoder model (aztec/decoder/decoder.go as coded): Gzx/Model/AztecDecoder.lean, AztecExtract.lean,
  tied to /repo by the `c11` correspondence suite and by the per-run obligations of
  Gzx/Obligations/C11.lean (the Go code tables = the reference tables).
  Reed-Solomon: the model of common/reedsolomon of property C04 (Gzx/Model/RS.lean, GF.lean), plugged into the
  decoder model by Gzx/Model/AztecRS.lean (`rsModel`, `decodeFull`); the reference encoder's check words are
  linked to it algebraically in Gzx/Proofs/AztecGF.lean + AztecRS.lean.  FULL theorems: `aztec_decode_ref`,
  `aztec_decode_text`, `aztec_tolerates_errors`, `aztec_tolerates_damage`, `mode_message_full`,
  `mode_message_tolerates_errors`.  The `_partial` theorems are their Reed-Solomon-parametric cores (kept
  because they hold for ANY decoder returning the reference codeword, e.g. the executable mirror `rsMirror`).
-/
import Gzx.Proofs.AztecHL
import Gzx.Proofs.AztecCompose
import Gzx.Proofs.AztecMode
import Gzx.Proofs.AztecGreedy
import Gzx.Proofs.AztecLayout
import Gzx.Proofs.AztecLayoutSizes1
import Gzx.Proofs.AztecLayoutSizes2
import Gzx.Proofs.AztecLayoutSizes3
import Gzx.Proofs.AztecLayoutSizes4
import Gzx.Proofs.AztecLayoutSizes5
import Gzx.Proofs.AztecLayoutSizes6
import Gzx.Proofs.AztecLayoutSizes7
import Gzx.Proofs.AztecLayoutSizes8
import Gzx.Proofs.AztecFull
import Gzx.Proofs.AztecModeRS
namespace Gzx.Properties.C11
open Gzx Gzx.AztecDecoder Gzx.Ref.Aztec Gzx.AztecLink Gzx.AztecStuff Gzx.AztecHL Gzx.AztecMode
open Gzx.Properties.C04 (hamming)

/-- the 36 sizes of the standard: compact with 1-4 layers, full-range with 1-32 layers -/
def ValidSize (compact : Bool) (layers : Nat) : Prop :=
  1 ≤ layers ∧ layers ≤ (if compact then 4 else 32)

/-- for each of the 36 sizes the decoder's read positions are exactly the reference layout's data
    cells, each once, in stream order (36 per-size kernel evaluations, `decide +kernel`, in
    Gzx/Proofs/AztecLayoutSizes*.lean) -/
theorem layoutOK_all (compact : Bool) (layers : Nat) (h : ValidSize compact layers) :
    AztecLayout.layoutOK compact layers = true := by
  obtain ⟨h1, h2⟩ := h
  cases compact with
  | true =>
    simp only [if_true] at h2
    obtain rfl | rfl | rfl | rfl : layers = 1 ∨ layers = 2 ∨ layers = 3 ∨ layers = 4 := by omega
    · exact AztecLayout.layoutOK_compact_1
    · exact AztecLayout.layoutOK_compact_2
    · exact AztecLayout.layoutOK_compact_3
    · exact AztecLayout.layoutOK_compact_4
  | false =>
    simp only [Bool.false_eq_true, if_false] at h2
    obtain rfl | rfl | rfl | rfl | rfl | rfl | rfl | rfl | rfl | rfl | rfl | rfl | rfl | rfl | rfl | rfl | rfl | rfl | rfl | rfl | rfl | rfl | rfl | rfl | rfl | rfl | rfl | rfl | rfl | rfl | rfl | rfl : layers = 1 ∨ layers = 2 ∨ layers = 3 ∨ layers = 4 ∨ layers = 5 ∨ layers = 6 ∨ layers = 7 ∨ layers = 8 ∨ layers = 9 ∨ layers = 10 ∨ layers = 11 ∨ layers = 12 ∨ layers = 13 ∨ layers = 14 ∨ layers = 15 ∨ layers = 16 ∨ layers = 17 ∨ layers = 18 ∨ layers = 19 ∨ layers = 20 ∨ layers = 21 ∨ layers = 22 ∨ layers = 23 ∨ layers = 24 ∨ layers = 25 ∨ layers = 26 ∨ layers = 27 ∨ layers = 28 ∨ layers = 29 ∨ layers = 30 ∨ layers = 31 ∨ layers = 32 := by omega
    · exact AztecLayout.layoutOK_full_1
    · exact AztecLayout.layoutOK_full_2
    · exact AztecLayout.layoutOK_full_3
    · exact AztecLayout.layoutOK_full_4
    · exact AztecLayout.layoutOK_full_5
    · exact AztecLayout.layoutOK_full_6
    · exact AztecLayout.layoutOK_full_7
    · exact AztecLayout.layoutOK_full_8
    · exact AztecLayout.layoutOK_full_9
    · exact AztecLayout.layoutOK_full_10
    · exact AztecLayout.layoutOK_full_11
    · exact AztecLayout.layoutOK_full_12
    · exact AztecLayout.layoutOK_full_13
    · exact AztecLayout.layoutOK_full_14
    · exact AztecLayout.layoutOK_full_15
    · exact AztecLayout.layoutOK_full_16
    · exact AztecLayout.layoutOK_full_17
    · exact AztecLayout.layoutOK_full_18
    · exact AztecLayout.layoutOK_full_19
    · exact AztecLayout.layoutOK_full_20
    · exact AztecLayout.layoutOK_full_21
    · exact AztecLayout.layoutOK_full_22
    · exact AztecLayout.layoutOK_full_23
    · exact AztecLayout.layoutOK_full_24
    · exact AztecLayout.layoutOK_full_25
    · exact AztecLayout.layoutOK_full_26
    · exact AztecLayout.layoutOK_full_27
    · exact AztecLayout.layoutOK_full_28
    · exact AztecLayout.layoutOK_full_29
    · exact AztecLayout.layoutOK_full_30
    · exact AztecLayout.layoutOK_full_31
    · exact AztecLayout.layoutOK_full_32

/-- **Layout** (clause "reference grid ... layer spiral ... of every size"): for all 36 sizes and
    every data-region bit stream, the decoder's `extractBits` reads back from the reference
    layout exactly the stream that was laid out (whatever the mode message). -/
theorem aztec_layout_inv (compact : Bool) (layers : Nat) (stream mode : List Bool)
    (h : ValidSize compact layers) (hlen : stream.length = totalBits compact layers) :
    extractBits (layout compact layers stream mode) layers compact = .ok stream :=
  AztecLayout.extract_layout compact layers stream mode (layoutOK_all compact layers h) hlen

/-- the reference encoder and the decoder agree on the geometry parameters of every size: symbol
    dimension (what `extractBits` expects of the sampled grid), data-region capacity, codeword size -/
theorem size_agrees (compact : Bool) (layers : Nat) (h : ValidSize compact layers) :
    symbolSize compact layers = matrixSize layers compact ∧
    totalBits compact layers = totalBitsInLayer layers compact ∧
    wordSize layers = codewordSize layers := by
  refine ⟨?_, rfl, rfl⟩
  obtain ⟨h1, h2⟩ := h
  cases compact with
  | true =>
    simp only [if_true] at h2
    have : layers = 1 ∨ layers = 2 ∨ layers = 3 ∨ layers = 4 := by omega
    rcases this with rfl | rfl | rfl | rfl <;> decide
  | false =>
    simp only [Bool.false_eq_true, if_false] at h2
    unfold symbolSize matrixSize baseMatrixSize halfBase
    simp only [Bool.false_eq_true, if_false]
    omega

/-- **Bit stuffing** (clause "bit-stuffed ... codewords"): for every bit string and every codeword
    size b ≥ 2 (in particular 6, 8, 10, 12), the decoder's un-stuffing of the reference encoder's
    stuffed codewords succeeds (no all-zero / all-one codeword) and returns the bits followed by
    fewer than b pad ones. -/
theorem stuff_unstuff_inv (b : Nat) (hb : 2 ≤ b) (bits : List Bool) :
    ∃ k, k < b ∧
      unstuff b ((stuffWords b bits).map fromBits) = .ok (bits ++ List.replicate k true) :=
  AztecCompose.stuffWords_unstuff b hb bits

/-- the four codeword sizes in use -/
theorem stuff_unstuff_inv_sizes (layers : Nat) (bits : List Bool) :
    ∃ k, k < 12 ∧
      unstuff (codewordSize layers) ((stuffWords (wordSize layers) bits).map fromBits) =
        .ok (bits ++ List.replicate k true) := by
  have hb := AztecCompose.wordSize_bounds layers
  obtain ⟨k, hk, h⟩ := stuff_unstuff_inv (wordSize layers) (by omega) bits
  exact ⟨k, by omega, h⟩

/-- **High-level decode** (clause "any mix of upper, lower, mixed, punctuation, digit and
    binary-shift encodings"): for every script of the reference encoder — any sequence of literal
    codes, latches, shifts, two-byte punctuation codes, binary shifts in short (1..31) and long
    (32..2078 bytes) form, FLG(0) and FLG(1..6) with registered ECI values — that the five code
    tables allow, `getEncodedData` run on the script's bits followed by up to 11 pad ones returns
    exactly the script's content.  Parametric in the decoder tables `T`; the per-run obligation
    `Obligations.C11.tables_eq_ref` supplies `T = refTables` for the tables /repo holds now. -/
theorem aztec_highlevel_inv (T : Tables) (hT : T = refTables) (reg : Nat → Bool)
    (ops : List Op) (bits : List Bool)
    (henc : encodeScript .upper ops = some bits) (hok : scriptOK reg ops)
    (k : Nat) (hk : k < 12) :
    getEncodedData T reg (bits ++ List.replicate k true) =
      .ok (segments ((scriptItems .upper ops).map toEvent)) := by
  subst hT
  exact AztecCompose.hld_script reg ops bits henc hok k hk

theorem plain_items (ops : List Op) (h : PlainScript ops) :
    ∀ m, ∃ bss : List (List Nat),
      (scriptItems m ops).map toEvent = bss.map Event.bytes ∧
      itemsBytes (scriptItems m ops) = bss.flatten := by
  induction ops with
  | nil => intro m; exact ⟨[], rfl, rfl⟩
  | cons op ops ih =>
    intro m
    have h1 := h op (by simp)
    obtain ⟨bss, h2, h3⟩ := ih (fun o ho => h o (by simp [ho])) (opMode m op)
    have key : ∃ b1 : List (List Nat), (opItems m op).map toEvent = b1.map Event.bytes ∧
        itemsBytes (opItems m op) = b1.flatten := by
      cases op with
      | ch c =>
        simp only [opItems]
        split
        · rename_i bs _; exact ⟨[bs], rfl, by simp [itemsBytes]⟩
        · exact ⟨[], rfl, rfl⟩
      | latch _ => exact ⟨[], rfl, rfl⟩
      | sh mt c =>
        simp only [opItems]
        split
        · rename_i bs _; exact ⟨[bs], rfl, by simp [itemsBytes]⟩
        · exact ⟨[], rfl, rfl⟩
      | bin bs => exact ⟨[bs], rfl, by simp [opItems, itemsBytes]⟩
      | flg _ _ => simp [isPlain] at h1
      | shFlg _ _ => simp [isPlain] at h1
    obtain ⟨b1, k1, k2⟩ := key
    refine ⟨b1 ++ bss, ?_, ?_⟩
    · simp only [scriptItems, List.map_append, k1, h2]
    · simp only [scriptItems, itemsBytes, List.flatMap_append, List.flatten_append] at k2 h3 ⊢
      rw [k2, h3]

/-- for scripts of data bytes only, the decoded string is the ISO-8859-1 text itself
    (as UTF-8, which is what Go's `string(result)` holds) -/
theorem aztec_highlevel_text (T : Tables) (hT : T = refTables) (reg : Nat → Bool)
    (ops : List Op) (bits : List Bool)
    (henc : encodeScript .upper ops = some bits) (hplain : PlainScript ops)
    (k : Nat) (hk : k < 12) :
    ∃ segs, getEncodedData T reg (bits ++ List.replicate k true) = .ok segs ∧
      renderDefault segs = some (latin1ToUtf8 (itemsBytes (scriptItems .upper ops))) := by
  have hok : scriptOK reg ops := by
    intro op hop
    have := hplain op hop
    cases op <;> first | trivial | (simp [isPlain] at this)
  refine ⟨_, aztec_highlevel_inv T hT reg ops bits henc hok k hk, ?_⟩
  obtain ⟨bss, h1, h2⟩ := plain_items ops hplain .upper
  rw [h1, h2, AztecCompose.segments_bytes, AztecCompose.latin1_render]

/-- **Every text**: for every byte string (ISO-8859-1 text, any mix of characters of the five
    tables and arbitrary bytes), the reference encoder's greedy script is accepted by the code
    tables, and `getEncodedData` on its bits (plus up to 11 pad ones) returns exactly the text. -/
theorem aztec_text_inv (T : Tables) (hT : T = refTables) (reg : Nat → Bool)
    (text : List Nat) (hb : ∀ b ∈ text, b < 256) (k : Nat) (hk : k < 12) :
    ∃ bits segs, encodeScript .upper (greedy text) = some bits ∧
      getEncodedData T reg (bits ++ List.replicate k true) = .ok segs ∧
      renderDefault segs = some (latin1ToUtf8 text) := by
  obtain ⟨h1, h2, h3⟩ := AztecGreedy.greedy_ok (text.length + 1) .upper text (by decide)
    (by omega) hb
  obtain ⟨bits, hbits⟩ := Option.isSome_iff_exists.mp h1
  obtain ⟨segs, hs1, hs2⟩ := aztec_highlevel_text T hT reg (greedy text) bits hbits h3 k hk
  refine ⟨bits, segs, hbits, hs1, ?_⟩
  rw [hs2]
  unfold greedy
  rw [h2]

theorem stuffWords_ne_nil (b : Nat) (bits : List Bool) : stuffWords b bits ≠ [] := by
  unfold stuffWords
  cases bits with
  | nil => simp
  | cons x xs =>
    simp only [List.isEmpty_cons, Bool.false_eq_true, if_false, List.length_cons, stuffAux]
    split
    · simp
    · split <;> simp

/-- **Whole decoder on reference symbols, Reed-Solomon-parametric core**: the Reed-Solomon decoder is a
    parameter `rs` and the hypothesis `hrs` says that it returns the reference codeword (data + check words as
    produced by the reference RS encoder) unchanged.  For each of the 36 sizes, every script that the tables
    allow and that fits, the decoder model `Decoder.Decode(AztecDetectorResult{matrix, compact, #data words,
    layers})` on the reference symbol returns the script's content.

    The FULL statement — `rs := rsModel` (the C04 model of the library's decoder), no `hrs` — is
    `aztec_decode_ref` below; with ≤ ⌊ec/2⌋ damaged codewords it is `aztec_tolerates_errors`. -/
theorem aztec_decode_ref_partial (T : Tables) (hT : T = refTables) (reg : Nat → Bool)
    (rs : RSDecoder) (compact : Bool) (layers : Nat) (ops : List Op) (minCheck : Nat)
    (sym : Symbol)
    (henc : encodeOps compact layers ops minCheck = .ok sym) (hok : scriptOK reg ops)
    (hrs : rs (wordSize layers) (sym.dataWords ++ sym.checkWords) sym.checkWords.length =
        .ok (sym.dataWords ++ sym.checkWords)) :
    ∃ d, decode T reg rs sym.matrix compact sym.dataWords.length layers = .ok d ∧
      d.segs = segments ((scriptItems .upper ops).map toEvent) := by
  subst hT
  unfold encodeOps at henc
  cases hs : encodeScript .upper ops with
  | none => rw [hs] at henc; cases henc
  | some hl =>
    rw [hs] at henc
    unfold encodeBits at henc
    cases hlay : badLayers compact layers with
    | true => simp only [hlay, if_true] at henc; cases henc
    | false =>
      simp only [hlay, Bool.false_eq_true, if_false] at henc
      cases hfit : tooLong compact (totalBits compact layers / wordSize layers)
          ((stuffWords (wordSize layers) hl).map fromBits).length minCheck with
      | true => simp only [hfit, if_true] at henc; cases henc
      | false =>
        simp only [hfit, Bool.false_eq_true, if_false] at henc
        cases hint : badShape (wordSize layers) (totalBits compact layers / wordSize layers -
            ((stuffWords (wordSize layers) hl).map fromBits).length)
            (rsParity (wordSize layers) (totalBits compact layers / wordSize layers -
              ((stuffWords (wordSize layers) hl).map fromBits).length)
              ((stuffWords (wordSize layers) hl).map fromBits)) with
        | true => simp only [hint, if_true] at henc; cases henc
        | false =>
          simp only [hint, Bool.false_eq_true, if_false] at henc
          injection henc with henc
          subst henc
          simp only at hrs ⊢
          have hvalid : ValidSize compact layers := by
            unfold ValidSize
            unfold badLayers at hlay
            cases compact <;> simp at hlay ⊢ <;> omega
          have hfit1 : ((stuffWords (wordSize layers) hl).map fromBits).length + minCheck ≤
              totalBits compact layers / wordSize layers := by
            unfold tooLong at hfit
            simp at hfit
            simp
            omega
          have hne := stuffWords_ne_nil (wordSize layers) hl
          have hwpos : 1 ≤ ((stuffWords (wordSize layers) hl).map fromBits).length := by
            cases h : stuffWords (wordSize layers) hl with
            | nil => exact absurd h hne
            | cons _ _ => simp
          have hfit' := hfit1
          have hchk : (rsParity (wordSize layers)
              (totalBits compact layers / wordSize layers -
                ((stuffWords (wordSize layers) hl).map fromBits).length)
              ((stuffWords (wordSize layers) hl).map fromBits)).length =
              totalBits compact layers / wordSize layers -
                ((stuffWords (wordSize layers) hl).map fromBits).length := by
            unfold badShape at hint
            simp at hint
            simpa using hint.1
          have hchklt : ∀ x ∈ rsParity (wordSize layers)
              (totalBits compact layers / wordSize layers -
                ((stuffWords (wordSize layers) hl).map fromBits).length)
              ((stuffWords (wordSize layers) hl).map fromBits), x < 2 ^ wordSize layers := by
            unfold badShape at hint
            simp at hint
            intro x hx
            exact hint.2 x (by simpa using hx)
          obtain ⟨k, c, hk, hcb, hbits⟩ := AztecCompose.correctBits_ref rs compact layers hl _
            minCheck hfit' hchk hchklt (by omega) hrs
          have hslen : (List.replicate (totalBits compact layers % wordSize layers) false ++
              ((stuffWords (wordSize layers) hl).map fromBits ++ rsParity (wordSize layers)
                (totalBits compact layers / wordSize layers -
                  ((stuffWords (wordSize layers) hl).map fromBits).length)
                ((stuffWords (wordSize layers) hl).map fromBits)).flatMap
                  (toBits (wordSize layers))).length = totalBits compact layers := by
            rw [List.length_append, List.length_replicate, AztecCompose.length_flatMap_toBits,
              List.length_append, hchk]
            have := Nat.mod_add_div (totalBits compact layers) (wordSize layers)
            rw [Nat.mul_comm] at this
            have : ((stuffWords (wordSize layers) hl).map fromBits).length +
                (totalBits compact layers / wordSize layers -
                  ((stuffWords (wordSize layers) hl).map fromBits).length) =
                totalBits compact layers / wordSize layers := by omega
            rw [this]; omega
          have hext := aztec_layout_inv compact layers _
            (modeMessage compact layers ((stuffWords (wordSize layers) hl).map fromBits).length)
            hvalid hslen
          have hhl := AztecCompose.hld_script reg ops hl hs hok k hk
          refine ⟨⟨segments ((scriptItems .upper ops).map toEvent), toByteArray c.bits,
            c.bits.length, c.ecLevel⟩, ?_, rfl⟩
          unfold decode
          rw [hext]
          simp only [bind, Except.bind]
          rw [hcb]
          simp only [hbits, hhl]
          rfl

/-- the same for a text through the greedy encoder: the decoded string is the text (Reed-Solomon-parametric
    core; FULL: `aztec_decode_text`) -/
theorem aztec_decode_text_partial (T : Tables) (hT : T = refTables) (reg : Nat → Bool)
    (rs : RSDecoder) (compact : Bool) (layers : Nat) (text : List Nat) (minCheck : Nat)
    (sym : Symbol) (hb : ∀ b ∈ text, b < 256)
    (henc : encodeText compact layers text minCheck = .ok sym)
    (hrs : rs (wordSize layers) (sym.dataWords ++ sym.checkWords) sym.checkWords.length =
        .ok (sym.dataWords ++ sym.checkWords)) :
    ∃ d, decode T reg rs sym.matrix compact sym.dataWords.length layers = .ok d ∧
      renderDefault d.segs = some (latin1ToUtf8 text) := by
  obtain ⟨_, h2, h3⟩ := AztecGreedy.greedy_ok (text.length + 1) .upper text (by decide)
    (by omega) hb
  have hok : scriptOK reg (greedy text) := by
    intro op hop
    have := h3 op hop
    cases op <;> first | trivial | (simp [isPlain] at this)
  obtain ⟨d, hd1, hd2⟩ := aztec_decode_ref_partial T hT reg rs compact layers (greedy text)
    minCheck sym henc hok hrs
  refine ⟨d, hd1, ?_⟩
  obtain ⟨bss, k1, k2⟩ := plain_items (greedy text) h3 .upper
  rw [hd2, k1, AztecCompose.segments_bytes, AztecCompose.latin1_render, ← k2]
  unfold greedy
  rw [h2]

/-! ## the whole decoder with the library's Reed-Solomon decoder (C04) plugged in

`rsModel w words r` = `Gzx.RS.decode (gfOf w) words r`: the model of `ReedSolomonDecoder.Decode` that
property C04 is about, over GF(16)/GF(64)/GF(256)/GF(1024)/GF(4096) chosen by codeword size exactly as
`correctBits` / `getCorrectedParameterData` choose it.  The link to C04 (Gzx/Proofs/AztecGF.lean, AztecRS.lean):
the reference encoder's field product is C04's `gmul`, its tables hold `x^i`, its generator polynomial
vanishes at `α^1 … α^n`, the LFSR division keeps the value at every root — hence `data ++ rsParity` has zero
syndromes over `gfOf w` for every `n` and every data word (algebraic; no enumeration of field elements). -/

/-- the reference check words are the check words the model of the library's own Reed-Solomon ENCODER
    (`Gzx.RS.encode`, property C04) computes over the field of that codeword size -/
theorem ref_parity_is_rs_encode (w : Nat) (hw : w = 4 ∨ w = 6 ∨ w = 8 ∨ w = 10 ∨ w = 12) (n : Nat)
    (data : List Nat) (hne : data ≠ []) (hn : 0 < n) (hd : ∀ x ∈ data, x < 2 ^ w)
    (hlen : data.length + n ≤ 2 ^ w - 1) :
    Gzx.RS.encode (gfOf w) data n = .ok (rsParity w n data) :=
  AztecRS.rsParity_eq_rs_encode w hw n data hne hn hd hlen

/-- **Damaged symbols, most general form** (clause "conforming symbols … decode", with the Reed-Solomon
    capacity of the symbol): take ANY module matrix `m` from which the decoder can read its data region, and
    look at the codewords `correctBits` cuts from it (`receivedWords`).  If they differ from the reference
    codeword sequence (data + check words) in at most ⌊check words / 2⌋ positions — whatever the wrong words
    are, whatever the mode message, pad bits, bull's eye or reference grid of `m` look like — the decoder model
    with the C04 Reed-Solomon decoder returns the script's content.  All 36 sizes. -/
theorem aztec_tolerates_damage (T : Tables) (hT : T = refTables) (reg : Nat → Bool)
    (compact : Bool) (layers : Nat) (ops : List Op) (minCheck : Nat) (sym : Symbol)
    (henc : encodeOps compact layers ops minCheck = .ok sym) (hok : scriptOK reg ops)
    (m : Matrix) (raw : List Bool) (hext : extractBits m layers compact = .ok raw)
    (hdam : 2 * hamming (sym.dataWords ++ sym.checkWords) (receivedWords layers raw) ≤
      sym.checkWords.length) :
    ∃ d, decode T reg rsModel m compact sym.dataWords.length layers = .ok d ∧
      d.segs = segments ((scriptItems .upper ops).map toEvent) := by
  subst hT
  obtain ⟨_, _, hvalid, _⟩ := AztecFull.encodeOps_shape compact layers ops minCheck sym henc
  exact AztecFull.decode_received reg compact layers ops minCheck sym henc hok
    (layoutOK_all compact layers hvalid) m raw hext hdam

/-- **Error tolerance** (`aztec_tolerates_errors`): replace at most ⌊check words / 2⌋ codewords of the
    symbol's codeword sequence by arbitrary words of the same size (`v` = the sequence after replacement), lay
    the result out as a symbol of the same size — with ANY pad bits and ANY mode message bits — and the decoder
    still returns the content.  "Replacing a codeword" at the matrix level means changing (any of) the `w`
    modules that the layout assigns to that codeword: by `aztec_layout_inv` the decoder reads back exactly the
    laid-out stream, so the damaged matrix is `layout … (pad ++ bits of v) mode`. -/
theorem aztec_tolerates_errors (T : Tables) (hT : T = refTables) (reg : Nat → Bool)
    (compact : Bool) (layers : Nat) (ops : List Op) (minCheck : Nat) (sym : Symbol)
    (henc : encodeOps compact layers ops minCheck = .ok sym) (hok : scriptOK reg ops)
    (v : List Nat) (pad mode : List Bool)
    (hvl : v.length = sym.dataWords.length + sym.checkWords.length)
    (hv : ∀ x ∈ v, x < 2 ^ wordSize layers)
    (hpad : pad.length = totalBits compact layers % wordSize layers)
    (hdam : 2 * hamming (sym.dataWords ++ sym.checkWords) v ≤ sym.checkWords.length) :
    ∃ d, decode T reg rsModel
        (layout compact layers (pad ++ v.flatMap (toBits (wordSize layers))) mode)
        compact sym.dataWords.length layers = .ok d ∧
      d.segs = segments ((scriptItems .upper ops).map toEvent) := by
  obtain ⟨_, _, hvalid, _⟩ := AztecFull.encodeOps_shape compact layers ops minCheck sym henc
  obtain ⟨_, hlen, _⟩ := AztecFull.ref_codewords compact layers ops minCheck sym henc
  have hb := AztecCompose.wordSize_bounds layers
  have hpadlt : pad.length < wordSize layers := by rw [hpad]; exact Nat.mod_lt _ (by omega)
  have hslen : (pad ++ v.flatMap (toBits (wordSize layers))).length = totalBits compact layers := by
    rw [List.length_append, AztecCompose.length_flatMap_toBits, hvl, ← List.length_append, hlen, hpad]
    have := Nat.mod_add_div (totalBits compact layers) (wordSize layers)
    rw [Nat.mul_comm] at this
    exact this
  have hext := aztec_layout_inv compact layers _ mode hvalid hslen
  refine aztec_tolerates_damage T hT reg compact layers ops minCheck sym henc hok _ _ hext ?_
  rw [AztecFull.receivedWords_stream layers pad v hpadlt hv]
  exact hdam

/-- **Whole decoder on reference symbols, FULL** (`aztec_decode_ref`; the property without the image path):
    for each of the 36 sizes, every script the code tables allow and that fits, the decoder model
    `Decoder.Decode(AztecDetectorResult{matrix, compact, #data words, layers})` — `extractBits`, `correctBits`
    with the C04 model of `ReedSolomonDecoder.Decode` over the field chosen by layer count, un-stuffing,
    `getEncodedData` — run on the reference symbol returns the script's content.  No hypothesis about
    Reed-Solomon is left. -/
theorem aztec_decode_ref (T : Tables) (hT : T = refTables) (reg : Nat → Bool)
    (compact : Bool) (layers : Nat) (ops : List Op) (minCheck : Nat) (sym : Symbol)
    (henc : encodeOps compact layers ops minCheck = .ok sym) (hok : scriptOK reg ops) :
    ∃ d, decode T reg rsModel sym.matrix compact sym.dataWords.length layers = .ok d ∧
      d.segs = segments ((scriptItems .upper ops).map toEvent) := by
  obtain ⟨_, _, _, _, _, _, hstream, _, hmat⟩ :=
    AztecFull.encodeOps_shape compact layers ops minCheck sym henc
  obtain ⟨hlt, _, _⟩ := AztecFull.ref_codewords compact layers ops minCheck sym henc
  rw [hmat, hstream]
  refine aztec_tolerates_errors T hT reg compact layers ops minCheck sym henc hok
    (sym.dataWords ++ sym.checkWords) _ sym.modeMsg (by simp) hlt (by simp) ?_
  unfold hamming
  rw [Gzx.Proofs.MinDist.weight_zipWith_self]
  omega

/-- `aztec_decode_text` (FULL): the same for a text through the greedy encoder — the decoded string is the text -/
theorem aztec_decode_text (T : Tables) (hT : T = refTables) (reg : Nat → Bool)
    (compact : Bool) (layers : Nat) (text : List Nat) (minCheck : Nat)
    (sym : Symbol) (hb : ∀ b ∈ text, b < 256)
    (henc : encodeText compact layers text minCheck = .ok sym) :
    ∃ d, decode T reg rsModel sym.matrix compact sym.dataWords.length layers = .ok d ∧
      renderDefault d.segs = some (latin1ToUtf8 text) := by
  obtain ⟨_, h2, h3⟩ := AztecGreedy.greedy_ok (text.length + 1) .upper text (by decide)
    (by omega) hb
  have hok : scriptOK reg (greedy text) := by
    intro op hop
    have := h3 op hop
    cases op <;> first | trivial | (simp [isPlain] at this)
  obtain ⟨d, hd1, hd2⟩ := aztec_decode_ref T hT reg compact layers (greedy text) minCheck sym henc hok
  refine ⟨d, hd1, ?_⟩
  obtain ⟨bss, k1, k2⟩ := plain_items (greedy text) h3 .upper
  rw [hd2, k1, AztecCompose.segments_bytes, AztecCompose.latin1_render, ← k2]
  unfold greedy
  rw [h2]

/-- damaged text symbols: ≤ ⌊check words / 2⌋ replaced codewords, the decoded string is still the text -/
theorem aztec_text_tolerates_errors (T : Tables) (hT : T = refTables) (reg : Nat → Bool)
    (compact : Bool) (layers : Nat) (text : List Nat) (minCheck : Nat)
    (sym : Symbol) (hb : ∀ b ∈ text, b < 256)
    (henc : encodeText compact layers text minCheck = .ok sym)
    (v : List Nat) (pad mode : List Bool)
    (hvl : v.length = sym.dataWords.length + sym.checkWords.length)
    (hv : ∀ x ∈ v, x < 2 ^ wordSize layers)
    (hpad : pad.length = totalBits compact layers % wordSize layers)
    (hdam : 2 * hamming (sym.dataWords ++ sym.checkWords) v ≤ sym.checkWords.length) :
    ∃ d, decode T reg rsModel
        (layout compact layers (pad ++ v.flatMap (toBits (wordSize layers))) mode)
        compact sym.dataWords.length layers = .ok d ∧
      renderDefault d.segs = some (latin1ToUtf8 text) := by
  obtain ⟨_, h2, h3⟩ := AztecGreedy.greedy_ok (text.length + 1) .upper text (by decide)
    (by omega) hb
  have hok : scriptOK reg (greedy text) := by
    intro op hop
    have := h3 op hop
    cases op <;> first | trivial | (simp [isPlain] at this)
  obtain ⟨d, hd1, hd2⟩ := aztec_tolerates_errors T hT reg compact layers (greedy text) minCheck sym henc hok
    v pad mode hvl hv hpad hdam
  refine ⟨d, hd1, ?_⟩
  obtain ⟨bss, k1, k2⟩ := plain_items (greedy text) h3 .upper
  rw [hd2, k1, AztecCompose.segments_bytes, AztecCompose.latin1_render, ← k2]
  unfold greedy
  rw [h2]

/-- **Mode message** (clause "with its mode message ... in any of the four orientations"), for the
    integer tail of the detector (`getRotation`, the parameter-bit flattening of
    `extractParameters`, `getCorrectedParameterData` and the field split) applied to an ideal
    sampling of the core ring of the reference symbol (`sidesAt`: the ring modules as the standard
    places them — orientation marks, 28/40 mode message bits clockwise from the top-left,
    reference-grid module in the middle of each full-range side — seen with the three-mark corner at
    image corner `s`):

    * for EVERY bit string of the right length as mode message and each of the four rotations, the
      rotation `s` is found and the flattened parameter word is exactly the mode message;
    * for the reference mode message of (layers, data words) the two fields are recovered.

    Parametric in `EXPECTED_CORNER_BITS` (`E`; per-run obligation `corner_bits_eq_ref`) and in the
    Reed-Solomon decoder over GF(16) (`rs`; hypothesis `hrs`: the received parameter words, which are
    the reference codeword, are returned unchanged).  With the C04 decoder plugged in and `hrs` discharged:
    `mode_message_full`; with wrong nibbles: `mode_message_tolerates_errors`.  The float part of the detector
    (locating the bull's eye, sampling the ring) is not modelled. -/
theorem mode_message_inv (E : List Nat) (hE : E = refExpectedCornerBits) (rs : RSDecoder)
    (compact : Bool) (layers dw s : Nat)
    (hl : 1 ≤ layers ∧ layers ≤ (if compact then 4 else 32))
    (hd : 1 ≤ dw ∧ dw ≤ (if compact then 64 else 2048)) (hs : s < 4)
    (hrs : rs 4 (paramWords compact (fromBits (modeMessage compact layers dw)))
        (if compact then 5 else 6) =
      .ok (paramWords compact (fromBits (modeMessage compact layers dw)))) :
    getRotation E (sidesAt compact (modeMessage compact layers dw) s) (if compact then 10 else 14) =
      .ok s ∧
    correctedParameters rs compact
      (parameterData compact (sidesAt compact (modeMessage compact layers dw) s) s) =
      .ok (layers, dw) := by
  subst hE
  have hlen := modeMessage_length compact layers dw
  cases compact with
  | true =>
    simp only [if_true] at hl hd hrs hlen ⊢
    obtain ⟨h1, h2⟩ := rotation_params_compact _ hlen s hs
    exact ⟨h1, by rw [h2]; exact mode_fields_compact rs layers dw hl hd hlen hrs⟩
  | false =>
    simp only [Bool.false_eq_true, if_false] at hl hd hrs hlen ⊢
    obtain ⟨h1, h2⟩ := rotation_params_full _ hlen s hs
    exact ⟨h1, by rw [h2]; exact mode_fields_full rs layers dw hl hd hlen hrs⟩

/-- the orientation / parameter-bit part for arbitrary mode message bits (no Reed-Solomon involved) -/
theorem mode_bits_inv (compact : Bool) (mm : List Bool)
    (h : mm.length = if compact then 28 else 40) (s : Nat) (hs : s < 4) :
    getRotation refExpectedCornerBits (sidesAt compact mm s) (if compact then 10 else 14) = .ok s ∧
    parameterData compact (sidesAt compact mm s) s = fromBits mm := by
  cases compact with
  | true => simp only [if_true] at h ⊢; exact rotation_params_compact mm h s hs
  | false => simp only [Bool.false_eq_true, if_false] at h ⊢; exact rotation_params_full mm h s hs

/-- **Mode message, FULL** (`mode_message_inv` with the C04 Reed-Solomon decoder over GF(16),
    `GenericGF_AZTEC_PARAM`, plugged in; no Reed-Solomon hypothesis left): for every size and data word count the
    mode message allows and each of the four rotations, the detector's integer tail — `getRotation`, parameter
    bit flattening, `getCorrectedParameterData` (2+5 or 4+6 four-bit words), field split — applied to an ideal
    sampling of the reference core ring finds the rotation and returns (layers, data words).
    (The 4-bit words cut from the reference mode message are header nibbles ++ `rsParity 4 …`, a code word of
    C04's code: `AztecModeRS.paramWords_ref`, `AztecRS.rsParity_codeword`.)  Locating and sampling the ring is
    float detector code: correspondence / oracle only. -/
theorem mode_message_full (E : List Nat) (hE : E = refExpectedCornerBits)
    (compact : Bool) (layers dw s : Nat)
    (hl : 1 ≤ layers ∧ layers ≤ (if compact then 4 else 32))
    (hd : 1 ≤ dw ∧ dw ≤ (if compact then 64 else 2048)) (hs : s < 4) :
    getRotation E (sidesAt compact (modeMessage compact layers dw) s) (if compact then 10 else 14) =
      .ok s ∧
    correctedParameters rsModel compact
      (parameterData compact (sidesAt compact (modeMessage compact layers dw) s) s) =
      .ok (layers, dw) :=
  mode_message_inv E hE rsModel compact layers dw s hl hd hs (AztecModeRS.mode_rs_clean compact layers dw)

/-- **Mode message error tolerance**: let `mm'` be ANY 28/40-bit string on the core ring whose 4-bit words
    differ from those of the reference mode message in at most 2 (compact: 5 check words) / 3 (full-range:
    6 check words) positions.  In each of the four rotations the detector tail still finds the rotation and
    `getCorrectedParameterData` + field split still return (layers, data words) — by C04's `rs_corrects`
    over GF(16). -/
theorem mode_message_tolerates_errors (E : List Nat) (hE : E = refExpectedCornerBits)
    (compact : Bool) (layers dw s : Nat)
    (hl : 1 ≤ layers ∧ layers ≤ (if compact then 4 else 32))
    (hd : 1 ≤ dw ∧ dw ≤ (if compact then 64 else 2048)) (hs : s < 4)
    (mm' : List Bool) (hlen : mm'.length = if compact then 28 else 40)
    (hdam : hamming (paramWords compact (fromBits (modeMessage compact layers dw)))
        (paramWords compact (fromBits mm')) ≤ (if compact then 2 else 3)) :
    getRotation E (sidesAt compact mm' s) (if compact then 10 else 14) = .ok s ∧
    correctedParameters rsModel compact (parameterData compact (sidesAt compact mm' s) s) =
      .ok (layers, dw) := by
  subst hE
  obtain ⟨hrot, hpd⟩ := mode_bits_inv compact mm' hlen s hs
  refine ⟨hrot, ?_⟩
  rw [hpd]
  -- the reference word list, as a constant "decoder"
  let c : RSDecoder := fun _ _ _ => .ok (paramWords compact (fromBits (modeMessage compact layers dw)))
  have href := (mode_message_inv refExpectedCornerBits rfl c compact layers dw s hl hd hs rfl).2
  rw [(mode_bits_inv compact (modeMessage compact layers dw) (modeMessage_length compact layers dw) s hs).2,
    AztecModeRS.correctedParameters_of_rs c compact _ _ rfl] at href
  rw [AztecModeRS.correctedParameters_of_rs rsModel compact (fromBits mm') _
    (AztecModeRS.mode_rs_corrects compact layers dw (fromBits mm') hdam)]
  exact href

/-! ### non-vacuity: concrete instances of the hypotheses -/

/-- "Hello, 123" followed by the bytes FF 00: upper, lower, a two-byte punct code, digits, binary shift -/
def exampleOps : List Op := greedy [72, 101, 108, 108, 111, 44, 32, 49, 50, 51, 255, 0]

/-- the greedy script of the example is accepted by the tables and is plain -/
example : (encodeScript .upper exampleOps).isSome = true ∧ PlainScript exampleOps := by decide

/-- a scripted example with FLG(0), FLG(2) ECI 26, P/L latch, U/S and D/L: accepted, registered -/
example : (encodeScript .upper
    [.ch 2, .latch .mixed, .latch .punct, .flg 0 [], .flg 2 [2, 6], .ch 6, .latch .upper,
     .latch .digit, .sh .upper 3, .ch 5, .shFlg 1 [3]]).isSome = true := by decide
example : scriptOK (fun n => n == 26 || n == 3)
    [.ch 2, .latch .mixed, .latch .punct, .flg 0 [], .flg 2 [2, 6], .ch 6, .latch .upper,
     .latch .digit, .sh .upper 3, .ch 5, .shFlg 1 [3]] := by
  intro op hop
  simp only [List.mem_cons, List.not_mem_nil, or_false] at hop
  rcases hop with h | h | h | h | h | h | h | h | h | h | h <;> subst h <;>
    simp [opOK, flgOK, digitsVal]

/-- the hypotheses of `aztec_decode_ref_partial` hold for the example in a compact 2-layer symbol with
    `rs := rsMirror` (the model's mirror of the Go Reed-Solomon decoder): the reference encoder
    accepts it and the mirror returns the reference codeword unchanged (kernel evaluation) -/
example : (match encodeOps true 2 exampleOps 3 with
    | .ok sym => decide (rsMirror (wordSize 2) (sym.dataWords ++ sym.checkWords)
        sym.checkWords.length = .ok (sym.dataWords ++ sym.checkWords))
    | .error _ => false) = true := by decide +kernel

/-- the Reed-Solomon hypothesis of `mode_message_inv` holds with `rs := rsMirror` for a compact
    (2 layers, 17 data words) and a full-range (21 layers, 845 data words) mode message -/
example : rsMirror 4 (paramWords true (fromBits (modeMessage true 2 17))) 5 =
    .ok (paramWords true (fromBits (modeMessage true 2 17))) := by decide +kernel
example : rsMirror 4 (paramWords false (fromBits (modeMessage false 21 845))) 6 =
    .ok (paramWords false (fromBits (modeMessage false 21 845))) := by decide +kernel

/-! non-vacuity of the FULL theorems -/

/-- hypotheses of `aztec_tolerates_errors` for the example in a compact 2-layer symbol (40 six-bit codewords):
    two codewords replaced (by the all-ones and the all-zero word, which no valid data codeword is): in range,
    Hamming distance exactly 2, within ⌊check words / 2⌋ -/
example : (match encodeOps true 2 exampleOps 3 with
    | .ok sym =>
      let c := sym.dataWords ++ sym.checkWords
      let v := (c.set 0 63).set 7 0
      decide (v.length = sym.dataWords.length + sym.checkWords.length ∧ (∀ x ∈ v, x < 2 ^ wordSize 2) ∧
        hamming c v = 2 ∧ 2 * hamming c v ≤ sym.checkWords.length)
    | .error _ => false) = true := by decide +kernel

/-- an instance of `aztec_tolerates_errors` executed in the kernel: "AZ" in a compact 1-layer symbol, two
    codewords replaced, arbitrary pad bits `11`, EMPTY mode message ring — the decoder model with the C04
    Reed-Solomon decoder (Euclid, Chien, Forney over GF(64)) returns the content -/
example : (match encodeOps true 1 (greedy [65, 90]) 3 with
    | .ok sym =>
      let c := sym.dataWords ++ sym.checkWords
      let v := (c.set 0 63).set 7 0
      match decodeFull refTables (fun _ => false)
        (layout true 1 ([true, true] ++ v.flatMap (toBits 6)) []) true sym.dataWords.length 1 with
      | .ok d => decide (d.segs = segments ((scriptItems .upper (greedy [65, 90])).map toEvent))
      | .error _ => false
    | .error _ => false) = true := by decide +kernel

/-- hypotheses of `mode_message_tolerates_errors`: a compact mode message with bits changed in two nibbles, a
    full-range one with bits changed in three nibbles (and the changed strings differ from the originals) -/
example : hamming (paramWords true (fromBits (modeMessage true 2 17)))
    (paramWords true (fromBits ((modeMessage true 2 17).set 0 true |>.set 9 false |>.set 10 true))) ≤ 2 ∧
    ((modeMessage true 2 17).set 0 true |>.set 9 false |>.set 10 true) ≠ modeMessage true 2 17 := by
  decide +kernel
example : hamming (paramWords false (fromBits (modeMessage false 21 845)))
    (paramWords false (fromBits ((modeMessage false 21 845).set 1 true |>.set 17 true |>.set 39 false))) ≤ 3 ∧
    ((modeMessage false 21 845).set 1 true |>.set 17 true |>.set 39 false) ≠ modeMessage false 21 845 := by
  decide +kernel
/-- … and the C04 decoder over GF(16) indeed restores (layers, data words) = (21, 845) from it -/
example : correctedParameters rsModel false
    (fromBits ((modeMessage false 21 845).set 1 true |>.set 17 true |>.set 39 false)) = .ok (21, 845) := by
  decide +kernel

end Gzx.Properties.C11
