import Gzx.Proofs.AztecLink
namespace Gzx.Properties.C11
end Gzx.Properties.C11
