/-
  C12 — Encoding is total: any content, size and hints give a symbol or an error.
  Property theorems for the writer FRONT ENDS (Gzx/Model/WriterFrontend.lean + Gzx/Model/Render.lean),
  parametric in a total encoder core.  What is NOT proved here: totality of the encoder cores themselves
  (QR: C01/C07/C13 models; Data Matrix: C02, loop termination watchdog-backed; 1-D: C03) — those enter as
  the hypotheses `CoreTotal…`; the whole real writers are explored by the `c12` oracle under a watchdog.

  A model result is an `Except`, so "either a matrix or an error, never neither/both" holds by
  construction of the model; on the real code it is checked by the oracle.
-/
import Gzx.Proofs.WriterCores
import Gzx.Properties.C14
namespace Gzx.Properties.C12
open Gzx Gzx.Render Gzx.WriterFrontend Gzx.Properties.C14

/-- the assertion is real: the pre-repair call `NewWriterException(encodingHint)` with an `int` hint (D14) -/
example : newWriterException [.int 5] = .panic "interface conversion: interface {} is not string" := by decide

/-! ## hint parsing never panics, and margins that pass are non-negative -/

theorem qrEcl_noPanic (hints : Hints) : NoPanic (qrEcl hints) := by
  unfold qrEcl
  split
  · exact noPanic_ok _
  · exact noPanic_ok _
  · split
    · exact noPanic_ok _
    · exact noPanic_lit _
  · exact noPanic_lit _

theorem qrQuiet_noPanic (hints : Hints) : NoPanic (qrQuiet hints) := by
  unfold qrQuiet
  split
  · exact noPanic_ok _
  · split
    · exact noPanic_lit _
    · exact noPanic_ok _
  · split
    · split
      · exact noPanic_lit _
      · exact noPanic_ok _
    · exact noPanic_lit _
  · exact noPanic_lit _

theorem qrQuiet_nonneg (hints : Hints) (q : Int) (h : qrQuiet hints = .ok q) : 0 ≤ q := by
  unfold qrQuiet at h
  split at h
  · cases h; omega
  · split at h
    · cases h
    · cases h; omega
  · split at h
    · split at h
      · cases h
      · cases h; omega
    · cases h
  · cases h

theorem onedMargin_noPanic (d : Int) (hints : Hints) : NoPanic (onedMargin d hints) := by
  unfold onedMargin
  split
  · rename_i f hf
    split at hf
    · cases hf
    · cases hf
    · split at hf
      · cases hf
      · cases hf; intro w h; cases h
    · cases hf; exact noPanic_lit _
  · split
    · exact noPanic_lit _
    · exact noPanic_ok _

theorem onedMargin_nonneg (d : Int) (hints : Hints) (m : Int) (h : onedMargin d hints = .ok m) : 0 ≤ m := by
  unfold onedMargin at h
  split at h
  · cases h
  · split at h
    · cases h
    · cases h; omega

/-! ## QR -/

theorem encoderEncode_noPanic (env : QREnv) (hc : QRCoreTotal env) (c : List Nat) (e : Int) (h : Hints) :
    NoPanic (encoderEncode env c e h) := by
  unfold encoderEncode
  split
  · exact noPanic_lit _
  · split
    · split
      · exact hc.noPanic _ _ _
      · exact noPanic_lit _
    · exact hc.noPanic _ _ _

theorem encoderEncode_ok (env : QREnv) (c : List Nat) (e : Int) (h : Hints) (md : Modules)
    (hok : encoderEncode env c e h = .ok md) : env.core c e h = .ok md := by
  unfold encoderEncode at hok
  split at hok
  · cases hok
  · split at hok
    · split at hok
      · exact hok
      · cases hok
    · exact hok

/-- C12 clause "terminates without panicking" for `QRCodeWriter.Encode`: for every content, format value,
    width, height (negative included) and every hint map, of whatever dynamic types -/
theorem encode_total_QR (env : QREnv) (hc : QRCoreTotal env) :
    ∀ content fmt w h hints, NoPanic (encodeQR env content fmt w h hints) := by
  intro content fmt w h hints
  unfold encodeQR
  split
  · exact noPanic_lit _
  · split
    · exact noPanic_lit _
    · split
      · exact noPanic_lit _
      · split
        · rename_i f hf; intro why hw; injection hw with hw; subst hw; exact qrEcl_noPanic hints why hf
        · split
          · rename_i f hf; intro why hw; injection hw with hw; subst hw; exact qrQuiet_noPanic hints why hf
          · rename_i quiet hq
            split
            · rename_i f hf; intro why hw; injection hw with hw; subst hw
              exact encoderEncode_noPanic env hc _ _ _ why hf
            · rename_i code hcode
              obtain ⟨h1, h2⟩ := hc.nonEmpty _ _ _ _ (encoderEncode_ok env _ _ _ _ hcode)
              rw [renderQR_eq code.mw code.mh code.m quiet w h (qrQuiet_nonneg hints quiet hq) h1 h2]
              exact noPanic_ok _

/-- C12 clause "a returned matrix is never smaller than the symbol it depicts, and for QR … never smaller
    than the requested width and height" (and never smaller than 1x1) -/
theorem encode_dims_QR (env : QREnv) (hc : QRCoreTotal env) :
    ∀ content fmt w h hints img, encodeQR env content fmt w h hints = .ok img →
      ∃ ecl md, env.core content ecl hints = .ok md ∧
        (md.mw : Int) ≤ img.w ∧ (md.mh : Int) ≤ img.h ∧ max w 1 ≤ img.w ∧ max h 1 ≤ img.h := by
  intro content fmt w h hints img hok
  unfold encodeQR at hok
  split at hok; · cases hok
  split at hok; · cases hok
  split at hok; · cases hok
  split at hok; · cases hok
  rename_i ecl _
  split at hok; · cases hok
  rename_i quiet hq
  split at hok; · cases hok
  rename_i code hcode
  have hcore := encoderEncode_ok env _ _ _ _ hcode
  obtain ⟨h1, h2⟩ := hc.nonEmpty _ _ _ _ hcore
  have hq0 := qrQuiet_nonneg hints quiet hq
  rw [renderQR_eq code.mw code.mh code.m quiet w h hq0 h1 h2] at hok
  cases hok
  refine ⟨ecl, code, hcore, ?_, ?_, ?_, ?_⟩ <;> simp only [outSize] <;> omega

/-! ## Data Matrix -/

/-- C12 "terminates without panicking" for `DataMatrixWriter.Encode` (front end; the termination of
    `EncodeHighLevel`'s mode loop is inside the core hypothesis and watchdog-backed on the real code) -/
theorem encode_total_DM (env : DMEnv) (hc : DMCoreTotal env) :
    ∀ content fmt w h hints, NoPanic (encodeDM env content fmt w h hints) := by
  intro content fmt w h hints
  unfold encodeDM
  split
  · exact noPanic_lit _
  · split
    · exact noPanic_lit _
    · split
      · exact noPanic_lit _
      · split
        · rename_i f hf; intro why hw; injection hw with hw; subst hw; exact hc.noPanic _ _ _ _ why hf
        · rename_i code hcode
          obtain ⟨h1, h2⟩ := hc.nonEmpty _ _ _ _ _ hcode
          rw [renderDM_eq code.mw code.mh code.m w h h1 h2]
          exact noPanic_ok _

/-- C12 "a returned matrix is never smaller than the symbol it depicts" for Data Matrix -/
theorem encode_dims_DM (env : DMEnv) (hc : DMCoreTotal env) :
    ∀ content fmt w h hints img, encodeDM env content fmt w h hints = .ok img →
      ∃ md, env.core content (dmShape hints) (dimOf (hints .minSize)) (dimOf (hints .maxSize)) = .ok md ∧
        (md.mw : Int) ≤ img.w ∧ (md.mh : Int) ≤ img.h := by
  intro content fmt w h hints img hok
  unfold encodeDM at hok
  split at hok; · cases hok
  split at hok; · cases hok
  split at hok; · cases hok
  split at hok; · cases hok
  rename_i code hcode
  obtain ⟨h1, h2⟩ := hc.nonEmpty _ _ _ _ _ hcode
  obtain ⟨img', himg, hfit, hsmall⟩ := renderDM_dims code.mw code.mh code.m w h h1 h2
  rw [himg] at hok; cases hok
  refine ⟨code, hcode, ?_, ?_⟩
  · by_cases hf : (code.mw : Int) ≤ w ∧ (code.mh : Int) ≤ h
    · rw [(hfit hf).1]; exact hf.1
    · rw [(hsmall hf).1]; exact Int.le_refl _
  · by_cases hf : (code.mw : Int) ≤ w ∧ (code.mh : Int) ≤ h
    · rw [(hfit hf).2]; exact hf.2
    · rw [(hsmall hf).2]; exact Int.le_refl _

/-! ## 1-D -/

/-- C12 "terminates without panicking" for `OneDimensionalCodeWriter.Encode` with any encoder whose
    `encodeWithHints` is total (Code 39, Code 93, Codabar, ITF, EAN-13, EAN-8, UPC-E; Code 128 below) -/
theorem encode_total_1D (cfg : OneDCfg) (hc : OneDCoreTotal cfg.core) :
    ∀ content fmt w h hints, NoPanic (encode1D cfg content fmt w h hints) := by
  intro content fmt w h hints
  unfold encode1D
  split
  · exact noPanic_lit _
  · split
    · exact noPanic_lit _
    · split
      · exact noPanic_lit _
      · split
        · rename_i f hf; intro why hw; injection hw with hw; subst hw
          exact onedMargin_noPanic _ hints why hf
        · rename_i margin hm
          split
          · rename_i f hf; intro why hw; injection hw with hw; subst hw; exact hc.noPanic _ _ why hf
          · rename_i code hcode
            rw [render1D_eq code w h margin (onedMargin_nonneg _ hints margin hm) (hc.nonEmpty _ _ _ hcode)]
            exact noPanic_ok _

/-- C12 dimension clause for the 1-D writers: never narrower than the code, never smaller than the request,
    never smaller than 1x1 -/
theorem encode_dims_1D (cfg : OneDCfg)
    (hne : ∀ c h code, cfg.core c h = .ok code → 1 ≤ code.length) :
    ∀ content fmt w h hints img, encode1D cfg content fmt w h hints = .ok img →
      ∃ code, cfg.core content hints = .ok code ∧
        (code.length : Int) ≤ img.w ∧ max w 1 ≤ img.w ∧ max h 1 ≤ img.h := by
  intro content fmt w h hints img hok
  unfold encode1D at hok
  split at hok; · cases hok
  split at hok; · cases hok
  split at hok; · cases hok
  split at hok; · cases hok
  rename_i margin hm
  split at hok; · cases hok
  rename_i code hcode
  have hm0 := onedMargin_nonneg _ hints margin hm
  have hl := hne _ _ _ hcode
  rw [render1D_eq code w h margin hm0 hl] at hok
  cases hok
  refine ⟨code, hcode, ?_, ?_, ?_⟩ <;> simp only [outSize] <;> omega

/-- Code 128's `encodeWithHints` head is total for every FORCE_CODE_SET value of whatever type
    (since the repair of the unchecked `codeSetHint.(string)`) -/
theorem code128Core_total (rc : List Nat → Nat) (inner : List Nat → Hints → Res (List Bool))
    (hi : OneDCoreTotal inner) : OneDCoreTotal (code128Core rc inner) := by
  constructor
  · intro c hints
    unfold code128Core
    dsimp only
    split
    · exact noPanic_lit _
    · split
      · exact hi.noPanic _ _
      · split
        · exact hi.noPanic _ _
        · exact noPanic_lit _
      · exact noPanic_lit _
  · intro c hints code hok
    unfold code128Core at hok
    dsimp only at hok
    split at hok
    · cases hok
    · split at hok
      · exact hi.nonEmpty _ _ _ hok
      · split at hok
        · exact hi.nonEmpty _ _ _ hok
        · cases hok
      · cases hok

/-- a non-string FORCE_CODE_SET is an error now (it was a panic) -/
example : code128Core (fun c => c.length) (fun _ _ => .ok [true]) [49]
    (fun k => if k = .forceCodeSet then some (.int 1) else none) = .error .writer := by decide

/-- C12 "terminates without panicking" for the Code 128 writer, for every hint map -/
theorem encode_total_Code128 (rc : List Nat → Nat) (inner : List Nat → Hints → Res (List Bool))
    (hi : OneDCoreTotal inner) :
    ∀ content fmt w h hints, NoPanic (encode1D (code128Writer rc inner) content fmt w h hints) :=
  encode_total_1D (code128Writer rc inner) (code128Core_total rc inner hi)

/-- C12 dimension clause for the Code 128 writer -/
theorem encode_dims_Code128 (rc : List Nat → Nat) (inner : List Nat → Hints → Res (List Bool))
    (hi : OneDCoreTotal inner) :
    ∀ content fmt w h hints img, encode1D (code128Writer rc inner) content fmt w h hints = .ok img →
      ∃ code, code128Core rc inner content hints = .ok code ∧
        (code.length : Int) ≤ img.w ∧ max w 1 ≤ img.w ∧ max h 1 ≤ img.h :=
  encode_dims_1D (code128Writer rc inner) (code128Core_total rc inner hi).nonEmpty

/-- the seven 1-D writers built directly on `OneDimensionalCodeWriter` / `NewUPCEANWriter`:
    Code 39, Code 93, Codabar, ITF, EAN-13, EAN-8, UPC-E -/
theorem encode_total_plain1D (core : List Nat → Hints → Res (List Bool)) (hc : OneDCoreTotal core)
    (cfg : OneDCfg) (hcfg : cfg ∈ [code39Writer core, code93Writer core, codabarWriter core, itfWriter core,
      ean13Writer core, ean8Writer core, upcEWriter core]) :
    ∀ content fmt w h hints, NoPanic (encode1D cfg content fmt w h hints) := by
  have hcore : cfg.core = core := by
    simp only [List.mem_cons, List.not_mem_nil, or_false] at hcfg
    rcases hcfg with h | h | h | h | h | h | h <;> rw [h] <;> rfl
  exact encode_total_1D cfg (by rw [hcore]; exact hc)

/-- C12 "terminates without panicking" for the UPC-A writer (format check, then EAN-13 on "0"+contents) -/
theorem encode_total_UPCA (ean13 : OneDCfg) (hc : OneDCoreTotal ean13.core) :
    ∀ content fmt w h hints, NoPanic (encodeUPCA ean13 content fmt w h hints) := by
  intro content fmt w h hints
  unfold encodeUPCA
  split
  · exact noPanic_lit _
  · exact encode_total_1D ean13 hc _ _ _ _ _

theorem encode_dims_UPCA (ean13 : OneDCfg) (hc : OneDCoreTotal ean13.core) :
    ∀ content fmt w h hints img, encodeUPCA ean13 content fmt w h hints = .ok img →
      ∃ code, ean13.core (48 :: content) hints = .ok code ∧
        (code.length : Int) ≤ img.w ∧ max w 1 ≤ img.w ∧ max h 1 ≤ img.h := by
  intro content fmt w h hints img hok
  unfold encodeUPCA at hok
  split at hok
  · cases hok
  · exact encode_dims_1D ean13 hc.nonEmpty _ _ _ _ _ _ hok

/-! ## concrete encoder cores: theorems without a core hypothesis

The 1-D module encoders of Gzx/Model/OneD.lean (C03; tied to oned/*_writer.go by the `c03` suite), over any
tables `T` satisfying the decidable well-formedness predicates of Gzx/Proofs/WriterCores.lean (the reference
tables do: `wfUpc_ref`, `wfItfW_ref`, `wf39_ref`, `wf93_ref`, `wfCodabar_ref`), are total, so for these eight
writers the front-end theorems hold unconditionally.  Code 128 stays parametric (its model's main loop is not
proved total here).  QR: unconditional over the reference encoder `QRRef.refEncode` of C07.  Data Matrix:
partial — the high-level encoder under an ASCII / Base-256 look-ahead oracle (C02's proved part), the back
end (ECC200, placement, module matrix) still a hypothesis. -/

open Gzx.OneD in
/-- EAN-13 writer (`NewEAN13Writer`): never panics, for every content, format, size and hint map -/
theorem encode_total_EAN13_concrete (T : Tables) (hT : WFUpc T = true) :
    ∀ content fmt w h hints,
      NoPanic (encode1D (ean13Writer (fun c _ => ean13Modules T c)) content fmt w h hints) :=
  encode_total_1D _ (ean13_core_total T hT)

open Gzx.OneD in
theorem encode_total_EAN8_concrete (T : Tables) (hT : WFUpc T = true) :
    ∀ content fmt w h hints,
      NoPanic (encode1D (ean8Writer (fun c _ => ean8Modules T c)) content fmt w h hints) :=
  encode_total_1D _ (ean8_core_total T hT)

open Gzx.OneD in
theorem encode_total_UPCE_concrete (T : Tables) (hT : WFUpc T = true) :
    ∀ content fmt w h hints,
      NoPanic (encode1D (upcEWriter (fun c _ => upceModules T c)) content fmt w h hints) :=
  encode_total_1D _ (upce_core_total T hT)

open Gzx.OneD in
/-- UPC-A writer (`NewUPCAWriter`): format check, then the EAN-13 writer on "0" + contents -/
theorem encode_total_UPCA_concrete (T : Tables) (hT : WFUpc T = true) :
    ∀ content fmt w h hints,
      NoPanic (upcAWriter (fun c _ => ean13Modules T c) content fmt w h hints) :=
  encode_total_UPCA _ (ean13_core_total T hT)

open Gzx.OneD in
theorem encode_total_ITF_concrete (T : Tables) (hT : WFItfW T = true) :
    ∀ content fmt w h hints,
      NoPanic (encode1D (itfWriter (fun c _ => itfModules T c)) content fmt w h hints) :=
  encode_total_1D _ (itf_core_total T hT)

open Gzx.OneD in
theorem encode_total_Code39_concrete (T : Tables) (hT : WF39 T = true) :
    ∀ content fmt w h hints,
      NoPanic (encode1D (code39Writer (fun c _ => code39Modules T c)) content fmt w h hints) :=
  encode_total_1D _ (code39_core_total T hT)

open Gzx.OneD in
theorem encode_total_Code93_concrete (T : Tables) (hT : WF93 T = true) :
    ∀ content fmt w h hints,
      NoPanic (encode1D (code93Writer (fun c _ => code93Modules T c)) content fmt w h hints) :=
  encode_total_1D _ (code93_core_total T hT)

open Gzx.OneD in
theorem encode_total_Codabar_concrete (T : Tables) (hT : WFCodabar T = true) :
    ∀ content fmt w h hints,
      NoPanic (encode1D (codabarWriter (fun c _ => codabarModules T c)) content fmt w h hints) :=
  encode_total_1D _ (codabar_core_total T hT)

open Gzx.OneD in
/-- dimension clause, unconditional, for the seven `encode1D` writers above: any `cfg` whose core is one of
    the proved-total module encoders -/
theorem encode_dims_concrete (T : Tables) (hU : WFUpc T = true) (hI : WFItfW T = true) (h39 : WF39 T = true)
    (h93 : WF93 T = true) (hC : WFCodabar T = true) (cfg : OneDCfg)
    (hcfg : cfg ∈ [ean13Writer (fun c _ => ean13Modules T c), ean8Writer (fun c _ => ean8Modules T c),
      upcEWriter (fun c _ => upceModules T c), itfWriter (fun c _ => itfModules T c),
      code39Writer (fun c _ => code39Modules T c), code93Writer (fun c _ => code93Modules T c),
      codabarWriter (fun c _ => codabarModules T c)]) :
    ∀ content fmt w h hints img, encode1D cfg content fmt w h hints = .ok img →
      ∃ code, cfg.core content hints = .ok code ∧
        (code.length : Int) ≤ img.w ∧ max w 1 ≤ img.w ∧ max h 1 ≤ img.h := by
  apply encode_dims_1D
  simp only [List.mem_cons, List.not_mem_nil, or_false] at hcfg
  rcases hcfg with h | h | h | h | h | h | h <;> rw [h]
  · exact (ean13_core_total T hU).nonEmpty
  · exact (ean8_core_total T hU).nonEmpty
  · exact (upce_core_total T hU).nonEmpty
  · exact (itf_core_total T hI).nonEmpty
  · exact (code39_core_total T h39).nonEmpty
  · exact (code93_core_total T h93).nonEmpty
  · exact (codabar_core_total T hC).nonEmpty

open Gzx.OneD in
theorem encode_dims_UPCA_concrete (T : Tables) (hT : WFUpc T = true) :
    ∀ content fmt w h hints img, upcAWriter (fun c _ => ean13Modules T c) content fmt w h hints = .ok img →
      ∃ code, ean13Modules T (48 :: content) = .ok code ∧
        (code.length : Int) ≤ img.w ∧ max w 1 ≤ img.w ∧ max h 1 ≤ img.h :=
  encode_dims_UPCA _ (ean13_core_total T hT)

/-- the well-formedness hypotheses hold for the reference tables (which C03's per-run obligations compare with
    the tables of /repo): the eight theorems above apply to them as they stand -/
example : ∀ content fmt w h hints,
    NoPanic (upcAWriter (fun c _ => Gzx.OneD.ean13Modules Gzx.OneD.refTables c) content fmt w h hints) :=
  encode_total_UPCA_concrete _ wfUpc_ref
example : Gzx.OneD.code39Modules Gzx.OneD.refTables [65] =
    .ok (Gzx.OneD.appendPattern [1,2,1,1,2,1,2,1,1] true ++ [false] ++
         (Gzx.OneD.appendPattern [2,1,1,1,1,2,1,1,2] true ++ [false]) ++
         Gzx.OneD.appendPattern [1,2,1,1,2,1,2,1,1] true) := by decide

/-- QR writer over the reference encoder of C07, any pre-processing `prep`, any charset registry: never panics -/
theorem encode_total_QR_concrete
    (prep : List Nat → Int → Hints → Option (QRRef.Mode × List Nat × QRRef.Config))
    (knownCharset : HintVal → Bool) :
    ∀ content fmt w h hints, NoPanic (encodeQR ⟨knownCharset, qrRefCore prep⟩ content fmt w h hints) :=
  encode_total_QR _ (qrRefCore_total prep knownCharset)

theorem encode_dims_QR_concrete
    (prep : List Nat → Int → Hints → Option (QRRef.Mode × List Nat × QRRef.Config))
    (knownCharset : HintVal → Bool) :
    ∀ content fmt w h hints img, encodeQR ⟨knownCharset, qrRefCore prep⟩ content fmt w h hints = .ok img →
      ∃ ecl md, qrRefCore prep content ecl hints = .ok md ∧
        (md.mw : Int) ≤ img.w ∧ (md.mh : Int) ≤ img.h ∧ max w 1 ≤ img.w ∧ max h 1 ≤ img.h :=
  encode_dims_QR _ (qrRefCore_total prep knownCharset)

/-- Data Matrix writer, PARTIAL: high-level encoder = the C02 model under a look-ahead oracle that proposes only
    ASCII and Base 256 (the part of `dm_terminates` that is proved); the back end `post` (symbol lookup, ECC200,
    placement, module matrix) remains a hypothesis.  Full statement (not proved): the same for the float
    look-ahead `laFloat` of the real code and the modelled back end — on the real code watchdog-backed. -/
theorem encode_total_DM_ascii_base256_partial (syms : List DMHighLevel.SymbolInfo) (la : DMHighLevel.LookAhead)
    (hla : DMHighLevel.LaAB la) (prep : List Nat → Option (List Nat))
    (post : List Nat → Int → Option (Int × Int) → Option (Int × Int) → Res Modules)
    (hpost : ∀ cw s mn mx, NoPanic (post cw s mn mx))
    (hne : ∀ cw s mn mx md, post cw s mn mx = .ok md → 1 ≤ md.mw ∧ 1 ≤ md.mh) :
    ∀ content fmt w h hints, NoPanic (encodeDM ⟨dmHLCore syms la prep post⟩ content fmt w h hints) :=
  encode_total_DM _ (dmHLCore_total syms la hla prep post hpost hne)

/-! ## non-vacuity -/

def demoQR : QREnv := ⟨fun _ => false, fun _ _ _ => .ok ⟨3, 3, diag3⟩⟩
def noHints : Hints := fun _ => none
def marginHint (v : HintVal) : Hints := fun k => if k = .margin then some v else none

/-- the hypotheses are satisfiable and the success path is reached: a 3x3 core, default margin 4, request 0x0 -/
example : QRCoreTotal demoQR :=
  ⟨fun _ _ _ w h => (by cases h), fun _ _ _ md h => (by cases h; exact ⟨by decide, by decide⟩)⟩
example : (encodeQR demoQR [65] fmtQR_CODE 0 0 noHints).map (fun i => (i.w, i.h)) = .ok (11, 11) := by decide
example : (encodeQR demoQR [65] fmtQR_CODE 40 0 (marginHint (.str [49]))).map (fun i => (i.w, i.h)) = .ok (40, 5) := by decide
/-- error paths: empty contents, wrong format, negative size, negative margin (int and numeric string), odd types -/
example : encodeQR demoQR [] fmtQR_CODE 0 0 noHints = .error .writer := by decide
example : encodeQR demoQR [65] fmtEAN_8 0 0 noHints = .error .writer := by decide
example : encodeQR demoQR [65] fmtQR_CODE (-1) 0 noHints = .error .writer := by decide
example : encodeQR demoQR [65] fmtQR_CODE 0 0 (marginHint (.int (-1))) = .error .writer := by decide
example : encodeQR demoQR [65] fmtQR_CODE 0 0 (marginHint (.str [45, 50])) = .error .writer := by decide
example : encodeQR demoQR [65] fmtQR_CODE 0 0 (marginHint (.other "float" [])) = .error .writer := by decide
/-- unknown CHARACTER_SET of type int: an error after the D14 repair -/
example : encodeQR demoQR [65] fmtQR_CODE 0 0 (fun k => if k = .characterSet then some (.int 5) else none) =
    .error .writer := by decide
/-- 1-D: MARGIN = −len(code) is now rejected before the division (D13); "abc" gives the non-WriterException error -/
def demo1D : OneDCfg := ⟨[fmtEAN_8], 9, fun _ _ => .ok [true, false, true]⟩
example : encode1D demo1D [49] fmtEAN_8 0 0 (marginHint (.int (-3))) = .error .writer := by decide
example : encode1D demo1D [49] fmtEAN_8 0 0 (marginHint (.str [97, 98, 99])) = .error .illegalArg := by decide
example : (encode1D demo1D [49] fmtEAN_8 0 0 noHints).map (fun i => (i.w, i.h)) = .ok (12, 1) := by decide
example : atoi [45, 54, 55] = some (-67) ∧ atoi [43] = none ∧ atoi [] = none ∧ atoi [49, 95, 48] = none := by decide

end Gzx.Properties.C12
