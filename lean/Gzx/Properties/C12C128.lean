/-
  C12 / work package `enc2` — the Code 128 writer is total over its MODEL, without a hypothesis about the inner
  encoder: `Properties/C12.lean` proves `encode_total_Code128` for every inner encoder that is total
  (`OneDCoreTotal inner`); here the inner encoder is the model of the rest of `code128Encoder.encodeWithHints`
  (`Gzx.OneD.code128Modules`: per-character checks, the `for position < length` loop with `code128ChooseCode`,
  check character, STOP, `onedWriter_appendPattern`) and it is PROVED total — for every content (any code points,
  any length), every FORCE_CODE_SET value and every pattern table of the right shape (`WF128`; the reference table
  and, by `Obligations/C03`, the table regenerated from /repo have it):
    * no pattern index is negative or beyond the table (code set B never sees a control character, code set C
      only digit pairs, code set A nothing above 95: `chooseCode_facts`, `c128CharOk`),
    * the loop terminates: a code-set switch does not consume input, but `chooseCode` is idempotent in the old code
      set (`chooseCode_idem_all`), so the next iteration consumes at least one character.
  The model is tied to oned/code128_writer.go by suite `c03` (writer layer: every class sequence, forced sets) and
  by the `enc2` additions (symbol characters for malformed / forced contents, the `chooseCode` automaton alone).
-/
import Gzx.Properties.C12
import Gzx.Proofs.C128Total
namespace Gzx.Properties.C12C128
open Gzx Gzx.OneD Gzx.WriterFrontend Gzx.Render

/-- the forced code set the checked hint stands for ("A" / "B" / "C"; everything else was refused before) -/
def forcedOfHints (hints : Hints) : Option Nat :=
  match hints .forceCodeSet with
  | some (.str s) => if s = [65] then some 101 else if s = [66] then some 100 else if s = [67] then some 99 else none
  | _ => none

/-- the rest of `encodeWithHints` after the hint switch: `runes` = `[]rune(contentsStr)` (UTF-8 decoding is outside the model) -/
def code128Inner (T : Tables) (runes : List Nat → List Nat) (content : List Nat) (hints : Hints) : Res (List Bool) :=
  code128Modules T (runes content) (forcedOfHints hints)

theorem forcedOfHints_ok (hints : Hints) : ForcedOK (forcedOfHints hints) := by
  unfold forcedOfHints ForcedOK
  split
  · repeat' split
    all_goals simp
  · simp

/-- `code128_model_total`: the model of the Code 128 encoder answers with a non-empty module pattern or a
    WriterException — for EVERY content and every forced code set (none, A, B, C); never a panic, never out of fuel. -/
theorem code128_model_total (T : Tables) (hT : WF128 T.code128 = true) (contents : List Nat) (forced : Option Nat)
    (hf : ForcedOK forced) :
    code128Modules T contents forced = .error .writer ∨
      ∃ code, code128Modules T contents forced = .ok code ∧ 1 ≤ code.length := by
  unfold code128Modules
  rcases code128Codes_total hf contents with ⟨codes, hc, hlen, hlt⟩ | he
  · right
    rw [hc]
    simp only [bind, Except.bind]
    simp only [WF128, Bool.and_eq_true, beq_iff_eq, decide_eq_true_eq] at hT
    obtain ⟨⟨⟨hl, h6⟩, h7⟩, _⟩ := hT
    unfold code128Draw
    have hm : codes.mapM (nth T.code128) = .ok (codes.map (fun c => T.code128.getD c [])) := by
      apply mapM_ok
      intro c hc
      exact nth_getD _ _ (by have := hlt c hc; omega)
    rw [hm]
    simp only [bind, Except.bind, pure, Except.pure]
    refine ⟨_, rfl, ?_⟩
    -- the first symbol character is drawn with at least one module
    cases codes with
    | nil => simp at hlen
    | cons k ks =>
      have hk : k < 107 := hlt k List.mem_cons_self
      simp only [List.map_cons, List.flatten_cons, List.length_append]
      have hpos : 1 ≤ (appendPattern (T.code128.getD k []) true).length := by
        by_cases h106 : k < 106
        · have := take_all_getD T.code128 106 _ h6 k h106 (by omega)
          simp only [Bool.and_eq_true, beq_iff_eq, List.all_eq_true, decide_eq_true_eq] at this
          cases hp : T.code128.getD k [] with
          | nil => rw [hp] at this; simp at this
          | cons w ws =>
            rw [hp] at this
            exact appendPattern_length_pos w ws true (this.2 w List.mem_cons_self)
        · have hk' : k = 106 := by omega
          subst hk'
          have hmem : T.code128.getD 106 [] ∈ T.code128.drop 106 := by
            have : (T.code128.drop 106)[0]'(by simp; omega) = T.code128.getD 106 [] := by
              simp [List.getD_eq_getElem?_getD, List.getElem?_eq_getElem (by omega : 106 < T.code128.length)]
            rw [← this]; exact List.getElem_mem _
          have := List.all_eq_true.mp h7 _ hmem
          simp only [Bool.and_eq_true, beq_iff_eq, List.all_eq_true, decide_eq_true_eq] at this
          cases hp : T.code128.getD 106 [] with
          | nil => rw [hp] at this; simp at this
          | cons w ws =>
            rw [hp] at this
            exact appendPattern_length_pos w ws true (this.2 w List.mem_cons_self)
      omega
  · left
    rw [he]; rfl

example : ForcedOK (some 99) := Or.inr (Or.inl rfl)
example : WF128 refTables.code128 = true := by decide +kernel

/-- the model of `encodeWithHints` after the hint switch is a total core -/
theorem code128Inner_total (T : Tables) (hT : WF128 T.code128 = true) (runes : List Nat → List Nat) :
    OneDCoreTotal (code128Inner T runes) := by
  constructor
  · intro c hints w hw
    unfold code128Inner at hw
    rcases code128_model_total T hT (runes c) _ (forcedOfHints_ok hints) with h | ⟨code, h, -⟩ <;>
      rw [h] at hw <;> cases hw
  · intro c hints code hok
    unfold code128Inner at hok
    rcases code128_model_total T hT (runes c) _ (forcedOfHints_ok hints) with h | ⟨code', h, hl⟩
    · rw [h] at hok; cases hok
    · rw [h] at hok; cases hok; exact hl

/-- `encode_total_CODE128` — C12 "terminates without panicking" for the Code 128 writer, UNCONDITIONAL over the
    model: for every content, format, size and hint map (FORCE_CODE_SET and MARGIN of any dynamic type),
    `OneDimensionalCodeWriter.Encode` over `code128Encoder.encodeWithHints` returns an image or a checked error. -/
theorem encode_total_CODE128 (T : Tables) (hT : WF128 T.code128 = true) (rc : List Nat → Nat) (runes : List Nat → List Nat) :
    ∀ content fmt w h hints,
      NoPanic (encode1D (code128Writer rc (code128Inner T runes)) content fmt w h hints) :=
  Gzx.Properties.C12.encode_total_Code128 rc (code128Inner T runes) (code128Inner_total T hT runes)

/-- the dimension clause, unconditional over the model -/
theorem encode_dims_CODE128 (T : Tables) (hT : WF128 T.code128 = true) (rc : List Nat → Nat) (runes : List Nat → List Nat) :
    ∀ content fmt w h hints img,
      encode1D (code128Writer rc (code128Inner T runes)) content fmt w h hints = .ok img →
      ∃ code, code128Core rc (code128Inner T runes) content hints = .ok code ∧
        (code.length : Int) ≤ img.w ∧ max w 1 ≤ img.w ∧ max h 1 ≤ img.h :=
  Gzx.Properties.C12.encode_dims_Code128 rc (code128Inner T runes) (code128Inner_total T hT runes)

/-- with the reference pattern table -/
theorem encode_total_CODE128_ref (rc : List Nat → Nat) (runes : List Nat → List Nat) :
    ∀ content fmt w h hints,
      NoPanic (encode1D (code128Writer rc (code128Inner refTables runes)) content fmt w h hints) :=
  encode_total_CODE128 refTables (by decide +kernel) rc runes

/-- the look-ahead automaton: range, admissibility of the character at hand, idempotence -/
theorem chooseCode_characterised (c : Nat) (rest : List Nat) (old : Nat) :
    (chooseCode (c :: rest) old = 99 ∨ chooseCode (c :: rest) old = 100 ∨ chooseCode (c :: rest) old = 101) ∧
    (chooseCode (c :: rest) old = 101 → c < 96 ∨ c = 0xF1 ∨ c = 0xF2 ∨ c = 0xF3 ∨ c = 0xF4) ∧
    (chooseCode (c :: rest) old = 100 → 32 ≤ c) ∧
    (chooseCode (c :: rest) old = 99 → c = 0xF1 ∨ (isDigitCp c = true ∧ ∃ c2 r2, rest = c2 :: r2 ∧ isDigitCp c2 = true)) ∧
    chooseCode (c :: rest) (chooseCode (c :: rest) old) = chooseCode (c :: rest) old :=
  ⟨(chooseCode_facts c rest old).1, (chooseCode_facts c rest old).2.1, (chooseCode_facts c rest old).2.2.1,
   (chooseCode_facts c rest old).2.2.2, chooseCode_idem_all _ old⟩

/-- the repaired case: forced code set C, a digit followed by FNC1 — an error, not an index beyond the table -/
example : code128Codes [49, 0xF1] (some 99) = .error .writer := by decide

end Gzx.Properties.C12C128
