/-
  C12 — Encoding is total, Data Matrix writer: front end + the WHOLE encoder core, unconditionally (wp dmenc).
  Model: `WriterFrontend.encodeDM` (argument checks, hint extraction, rendering) over `DMWriterCore.core`
  (EncodeHighLevel → SymbolInfo_Lookup → ErrorCorrection_EncodeECC200 → DefaultPlacement → encodeLowLevel; the symbol
  and factor tables are the standard's, tied to the library's by per-run obligations).
  Hypotheses: the look-ahead is exact arithmetic up to float rounding (`LaFloatLike`, the `laxr` correspondence of
  C02) and the ISO-8859-1 conversion `prep` returns bytes.  No hypothesis on contents, format, size or hints.
  Replaces `encode_total_DM_ascii_base256_partial` (oracle restricted to ASCII / Base 256, back end a hypothesis).
-/
import Gzx.Proofs.DMWriterCore
import Gzx.Properties.C12
namespace Gzx.Properties.C12
open Gzx Gzx.Render Gzx.WriterFrontend Gzx.DMHighLevel

/-- ISO-8859-1 conversion of contents given as code points: the bytes, or `none` for a character above U+00FF -/
def latin1 (c : List Nat) : Option (List Nat) := if c.all (· < 256) then some c else none

theorem latin1_bytes (c msg : List Nat) (h : latin1 c = some msg) : ∀ x ∈ msg, x < 256 := by
  unfold latin1 at h
  split at h
  · rename_i hall
    cases h
    intro x hx
    have := List.all_eq_true.mp hall x hx
    simpa using this
  · cases h

/-- C12 "terminates without panicking and returns either a matrix or an error" for `DataMatrixWriter.Encode`, the
    whole writer: for ANY contents, format value, width, height and hints the model returns an image or a
    WriterException — no panic anywhere (type assertions of the hints, nil symbol after the ignored second lookup,
    nil codewords after the ignored ECC200 error, placement, division by the symbol size in the renderer), and the
    mode loop of `EncodeHighLevel` does not run out of its fuel. -/
theorem encode_total_DM_real (la : LookAhead) (hla : LaFloatLike la) (prep : List Nat → Option (List Nat))
    (hprep : ∀ c msg, prep c = some msg → ∀ x ∈ msg, x < 256) :
    ∀ content fmt w h hints,
      encodeDM ⟨DMWriterCore.core la prep⟩ content fmt w h hints = .error .writer ∨
      ∃ img, encodeDM ⟨DMWriterCore.core la prep⟩ content fmt w h hints = .ok img := by
  intro content fmt w h hints
  have hc := DMWriterCore.core_total la hla prep hprep
  unfold encodeDM
  split
  · left; rfl
  · split
    · left; rfl
    · split
      · left; rfl
      · split
        · rename_i f hf
          left
          simp only [DMWriterCore.core] at hf
          split at hf
          · cases hf; rfl
          · rename_i msg hp
            rcases DMWriterCore.rowsOf_total la hla msg _ (hprep content msg hp) with h1 | ⟨_, _, _, _, _, _, h1⟩
            · rw [h1] at hf; cases hf; rfl
            · rw [h1] at hf; cases hf
        · rename_i code hcode
          obtain ⟨h1, h2⟩ := hc.nonEmpty _ _ _ _ _ hcode
          rw [Gzx.Properties.C14.renderDM_eq code.mw code.mh code.m w h h1 h2]
          exact Or.inr ⟨_, rfl⟩

/-- the same in the vocabulary of the other C12 theorems -/
theorem encode_noPanic_DM_real (la : LookAhead) (hla : LaFloatLike la) (prep : List Nat → Option (List Nat))
    (hprep : ∀ c msg, prep c = some msg → ∀ x ∈ msg, x < 256) :
    ∀ content fmt w h hints, NoPanic (encodeDM ⟨DMWriterCore.core la prep⟩ content fmt w h hints) :=
  encode_total_DM _ (DMWriterCore.core_total la hla prep hprep)

/-- C12 "a returned matrix is never smaller than the symbol it depicts", whole writer: the image is at least as
    large as the symbol, the symbol is the reference symbol (`DMRef.symbolBits`, C08) of a row `s` of the standard's
    table for the high-level codewords `cw`, and `s` is the FIRST FIT for `cw` (C13): the row `SymbolInfo_Lookup`
    returns for `len(cw)`, whose capacity is exactly `len(cw)`. -/
theorem encode_dims_DM_real (la : LookAhead) (hla : LaFloatLike la) (prep : List Nat → Option (List Nat))
    (hprep : ∀ c msg, prep c = some msg → ∀ x ∈ msg, x < 256) :
    ∀ content fmt w h hints img, encodeDM ⟨DMWriterCore.core la prep⟩ content fmt w h hints = .ok img →
      ∃ msg s cw, prep content = some msg ∧ s ∈ DMRef.table7 ∧
        encodeHL DMWriterCore.hlSyms la msg (DMWriterCore.cfgOf (dmShape hints) (dimOf (hints .minSize)) (dimOf (hints .maxSize)))
          = .ok cw ∧
        cw.length = s.nData ∧
        DMWriterCore.lookupRow (DMWriterCore.cfgOf (dmShape hints) (dimOf (hints .minSize)) (dimOf (hints .maxSize))) cw.length
          = some s ∧
        (s.cols : Int) ≤ img.w ∧ (s.rows : Int) ≤ img.h := by
  intro content fmt w h hints img hok
  obtain ⟨md, hmd, hw, hh⟩ := encode_dims_DM _ (DMWriterCore.core_total la hla prep hprep) content fmt w h hints img hok
  simp only [DMWriterCore.core] at hmd
  split at hmd
  · cases hmd
  · rename_i msg hp
    rcases DMWriterCore.rowsOf_total la hla msg _ (hprep content msg hp) with h1 | ⟨s, cw, hs, he, hn, hl, h1⟩
    · rw [h1] at hmd; cases hmd
    · rw [h1] at hmd
      simp only [Except.map, Except.ok.injEq] at hmd
      subst hmd
      obtain ⟨e1, e2, _, _⟩ := DMWriterCore.modulesOf_symbolBits s hs cw
      rw [e1] at hw; rw [e2] at hh
      exact ⟨msg, s, cw, hp, hs, he, hn, hl, hw, hh⟩

/-- non-vacuity: both hypotheses are satisfiable (exact look-ahead, Latin-1 conversion) … -/
example : LaFloatLike laExact := fun _ _ _ => ⟨noBump, rfl⟩
example : ∀ c msg, latin1 c = some msg → ∀ x ∈ msg, x < 256 := latin1_bytes
/-- … the success path is reached: "A" is rendered as the 10x10 symbol, also when a 4x4 image was asked for … -/
example : (encodeDM ⟨DMWriterCore.core laExact latin1⟩ [65] fmtDATA_MATRIX 4 4 (fun _ => none)).map (fun i => (i.w, i.h))
    = .ok (10, 10) := by decide +kernel
/-- … and the error paths: empty contents, a character outside Latin-1, a size hint nothing fits -/
example : (encodeDM ⟨DMWriterCore.core laExact latin1⟩ [] fmtDATA_MATRIX 0 0 (fun _ => none)).map (fun i => (i.w, i.h))
    = .error .writer := by decide +kernel
example : (encodeDM ⟨DMWriterCore.core laExact latin1⟩ [65, 8364] fmtDATA_MATRIX 0 0 (fun _ => none)).map (fun i => (i.w, i.h))
    = .error .writer := by decide +kernel
example : (encodeDM ⟨DMWriterCore.core laExact latin1⟩ [65, 66, 67, 68, 69, 70, 71] fmtDATA_MATRIX 0 0
    (fun k => if k = .maxSize then some (.other "dim" [10, 10]) else none)).map (fun i => (i.w, i.h))
    = .error .writer := by decide +kernel

end Gzx.Properties.C12
