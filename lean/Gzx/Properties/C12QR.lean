/-
  C12 / work package `qrenc` — the second half of `Encoder_encode` on the mirror model never panics.

  `encodeBack` (terminateBits, interleaveWithECBytes with its block loop and `ToBytes`, `generateECBytes` through the
  Reed-Solomon encoder model, `NewByteMatrix`, the mask hint of any dynamic type, `chooseMaskPattern` with eight
  `MatrixUtil_buildMatrix` calls and the four penalty loops over `array[y][x]`, the final `buildMatrix` with every
  `matrix.Get/Set` of the embed steps and of the zig-zag loop) returns a symbol or a WriterException for EVERY
  payload, level and mask hint once a version row of the table is fixed: index safety of every loop of the back half.
  The first half (`encodeFront`: mode choice, data-bit loops, hint parsing) is covered by the oracle of suite
  `qrenc-total` (no call may panic) and by the correspondence of whole calls; its totality is not a theorem.
-/
import Gzx.Proofs.QREncEncode
import Gzx.Proofs.QREncFuncAll40
namespace Gzx.Properties.C12QR
open Gzx Gzx.QRRef Gzx.QREnc

/-- `mirror_encodeBack_total`: for every version 1..40, every level, every payload of any length and every mask
    hint, `encodeBack` is `.ok _` or the checked error "data bits cannot fit in the QR Code" — never a panic, never
    out of fuel. -/
theorem mirror_encodeBack_total {K : Kernels} (hK : KernelsOK K) (v : Nat) (h1 : 1 ≤ v) (h40 : v ≤ 40)
    (maskHint : Option HintVal) (f : FrontResult) (hv : f.version = versionInfo v) :
    (∃ t, encodeBack K maskHint f = .ok t) ∨ encodeBack K maskHint f = .error .writer := by
  by_cases hfit : f.headerAndDataBits.length ≤ 8 * dataCodewords v f.ec
  · obtain ⟨t, ht, _⟩ := encodeBack_eq_ref hK v h1 h40 (funcOK_all v h1 h40) maskHint f hv hfit
    exact Or.inl ⟨t, ht⟩
  · right
    obtain ⟨b, hb, hnb, hnd, htotal⟩ := ecBlocks_facts v h1 h40 f.ec
    unfold encodeBack
    rw [hv, hb]
    rw [htotal] at hnd
    simp only [bind, Except.bind, htotal, hnd]
    rw [terminateBits_refuses _ _ (by omega)]

example : ∃ f : FrontResult, f.version = versionInfo 3 :=
  ⟨⟨.M, .byte, [], [], versionInfo 3, List.replicate 5000 true⟩, rfl⟩

end Gzx.Properties.C12QR
