/-
  C12 / work package `qrenc` — the second half of `Encoder_encode` on the mirror model never panics.

  `encodeBack` (terminateBits, interleaveWithECBytes with its block loop and `ToBytes`, `generateECBytes` through the
  Reed-Solomon encoder model, `NewByteMatrix`, the mask hint of any dynamic type, `chooseMaskPattern` with eight
  `MatrixUtil_buildMatrix` calls and the four penalty loops over `array[y][x]`, the final `buildMatrix` with every
  `matrix.Get/Set` of the embed steps and of the zig-zag loop) returns a symbol or a WriterException for EVERY
  payload, level and mask hint once a version row of the table is fixed: index safety of every loop of the back half.
  wp `enc2`: the first half (`encodeFront`: level check, character set, `chooseMode`, data-bit loops, QR_VERSION hint /
  `recommendVersion`, character count) is total as well (`mirror_encode_total`), and the QR writer front end of C12
  is total over the MIRROR of `Encoder_encode` as its core (`encode_total_QR_mirror`; `Properties/C12.lean` has it over
  the reference encoder).
-/
import Gzx.Proofs.QREncEncode
import Gzx.Proofs.QREncFuncAll40
import Gzx.Proofs.QREncWriter
import Gzx.Proofs.QREncKernels
import Gzx.Properties.C12
namespace Gzx.Properties.C12QR
open Gzx Gzx.QRRef Gzx.QREnc

/-- `mirror_encodeBack_total`: for every version 1..40, every level, every payload of any length and every mask
    hint, `encodeBack` is `.ok _` or the checked error "data bits cannot fit in the QR Code" — never a panic, never
    out of fuel. -/
theorem mirror_encodeBack_total {K : Kernels} (hK : KernelsOK K) (v : Nat) (h1 : 1 ≤ v) (h40 : v ≤ 40)
    (maskHint : Option HintVal) (f : FrontResult) (hv : f.version = versionInfo v) :
    (∃ t, encodeBack K maskHint f = .ok t) ∨ encodeBack K maskHint f = .error .writer := by
  by_cases hfit : f.headerAndDataBits.length ≤ 8 * dataCodewords v f.ec
  · obtain ⟨t, ht, _⟩ := encodeBack_eq_ref hK v h1 h40 (funcOK_all v h1 h40) maskHint f hv hfit
    exact Or.inl ⟨t, ht⟩
  · right
    obtain ⟨b, hb, hnb, hnd, htotal⟩ := ecBlocks_facts v h1 h40 f.ec
    unfold encodeBack
    rw [hv, hb]
    rw [htotal] at hnd
    simp only [bind, Except.bind, htotal, hnd]
    rw [terminateBits_refuses _ _ (by omega)]

example : ∃ f : FrontResult, f.version = versionInfo 3 :=
  ⟨⟨.M, .byte, [], [], versionInfo 3, List.replicate 5000 true⟩, rfl⟩

/-- `mirror_encode_total`: the whole `Encoder_encode` mirror (both halves) returns a symbol or a WriterException for
    EVERY content, level value, CHARACTER_SET / GS1_FORMAT / QR_VERSION / QR_MASK_PATTERN hint values of any dynamic
    type and any codec results: never a panic, never out of fuel. -/
theorem mirror_encode_total {K : Kernels} (hK : KernelsOK K) (inp : EncInput) :
    (∃ t, encode K inp = .ok t) ∨ encode K inp = .error .writer := by
  rcases encode_total hK inp with ⟨t, ht, _⟩ | he
  · exact Or.inl ⟨t, ht⟩
  · exact Or.inr he

/-- `encode_total_QR_mirror`: C12 "terminates without panicking" for `QRCodeWriter.Encode` with the MIRROR of
    `Encoder_encode` as its core — for every content, format, size and hint map, whatever the registry / codecs /
    hint conversion (`prep`, `knownCharset`) answer. -/
theorem encode_total_QR_mirror {K : Kernels} (hK : KernelsOK K)
    (prep : List Nat → Int → WriterFrontend.Hints → EncInput) (knownCharset : WriterFrontend.HintVal → Bool) :
    ∀ content fmt w h hints,
      WriterFrontend.NoPanic (WriterFrontend.encodeQR ⟨knownCharset, WriterFrontend.qrMirrorCore K prep⟩ content fmt w h hints) :=
  Gzx.Properties.C12.encode_total_QR _ (WriterFrontend.qrMirrorCore_total hK prep knownCharset)

/-- the dimension clause over the mirror -/
theorem encode_dims_QR_mirror {K : Kernels} (hK : KernelsOK K)
    (prep : List Nat → Int → WriterFrontend.Hints → EncInput) (knownCharset : WriterFrontend.HintVal → Bool) :
    ∀ content fmt w h hints img,
      WriterFrontend.encodeQR ⟨knownCharset, WriterFrontend.qrMirrorCore K prep⟩ content fmt w h hints = .ok img →
      ∃ ecl md, WriterFrontend.qrMirrorCore K prep content ecl hints = .ok md ∧
        (md.mw : Int) ≤ img.w ∧ (md.mh : Int) ≤ img.h ∧ max w 1 ≤ img.w ∧ max h 1 ≤ img.h :=
  Gzx.Properties.C12.encode_dims_QR _ (WriterFrontend.qrMirrorCore_total hK prep knownCharset)

example : KernelsOK refKernels := refKernels_ok

end Gzx.Properties.C12QR
