/-
  C13 — smallest adequate symbol; size hints and capacity limits honoured.
  Property theorems over the model `Gzx.QRVersionChoice` (lean/Gzx/Model/QRVersionChoice.lean,
  tied to qrcode/encoder/encoder.go and datamatrix/encoder/symbol_info.go by the `c13`
  correspondence suite), parametric in the library's tables.  The decidable table hypotheses
  (`wfB`, `monoB`, `guardB`, `sortedB`, …) are discharged for the regenerated tables in
  Gzx/Obligations/C13.lean and, below, for the tables the standard prescribes.
-/
import Gzx.Proofs.QRVersionChoice
namespace Gzx.Properties.C13
open Gzx Gzx.QRRef Gzx.QRVersionChoice

/-! ## QR Code: the recommended version is the smallest that fits -/

/-- payload bits of a single-segment message in version `v`: header, count indicator, data -/
def bitsNeeded (T : QRTables) (m : Mode) (hdr data v : Nat) : Nat := hdr + cbOf T m v + data

/-- the payload fits version `v` at level `ec`: ⌈bits/8⌉ ≤ data codewords -/
def fits (T : QRTables) (ec : EC) (m : Mode) (hdr data v : Nat) : Bool :=
  fitsBytes (dataBytes T v ec) (bitsNeeded T m hdr data v)

/-- the smallest version 1..40 the payload fits, judged with that version's own count width -/
def minFit (T : QRTables) (ec : EC) (m : Mode) (hdr data : Nat) : Option Nat :=
  ((List.range 40).map (· + 1)).find? (fits T ec m hdr data)

/-- `recommend_is_min`: for well-formed tables whose capacities strictly increase with the version
    and whose count widths grow by at most 8 bits over the three version classes, the two-pass
    `recommendVersion` (provisional version from the version-1 count width, then one correction)
    returns exactly the smallest fitting version, and "Data too big" exactly when none fits.
    The author's doubt in the source ("I am still not sure this works in 100% of cases") is
    settled: it does, for every header and data length. -/
theorem recommend_is_min (T : QRTables) (hwf : wfB T = true) (hmono : monoB T = true)
    (ec : EC) (m : Mode) (hdr data : Nat) :
    recommendVersion T ec m hdr data =
      match minFit T ec m hdr data with
      | some v => .ok (rowOf T v)
      | none => .error .writer := by
  unfold recommendVersion
  have h1 : getVersionForNumber T 1 = .ok (rowOf T 1) := getVersion_ok hwf (v := 1) (by omega) (by omega)
  rw [h1]
  simp only [bind, Except.bind, pure, Except.pure]
  rw [calculateBitsNeeded_ok hwf m hdr data (v := 1) (by omega) (by omega)]
  simp only
  rw [chooseVersion_eq hwf]
  have htp := two_pass (fun v => dataBytes T v ec) (fun v => hdr + cbOf T m v + data)
    (mono_D hmono ec)
    (fun u v hu huv hv => by have := (mono_w hmono m).1 u v hu huv hv; omega)
    (by have := (mono_w hmono m).2; omega)
  have hmin : minFit T ec m hdr data = firstFrom (fun v => fitsBytes (dataBytes T v ec) (hdr + cbOf T m v + data)) 40 1 := by
    unfold minFit; rw [firstFrom_eq_find]; rfl
  rw [hmin, ← htp]
  cases hp : firstFrom (fun v => fitsBytes (dataBytes T v ec) (hdr + cbOf T m 1 + data)) 40 1 with
  | none => rfl
  | some p =>
    simp only
    have hp' := firstFrom_some.mp hp
    rw [calculateBitsNeeded_ok hwf m hdr data (v := p) hp'.1 (by omega)]
    simp only
    rw [chooseVersion_eq hwf]
    rfl

/-- `… = none ↔ no version fits`: the recommendation fails exactly when the payload fits no version -/
theorem recommend_refuses_iff (T : QRTables) (hwf : wfB T = true) (hmono : monoB T = true)
    (ec : EC) (m : Mode) (hdr data : Nat) :
    recommendVersion T ec m hdr data = .error .writer ↔
      ∀ v, 1 ≤ v → v ≤ 40 → fits T ec m hdr data v = false := by
  rw [recommend_is_min T hwf hmono]
  have hmin : minFit T ec m hdr data = firstFrom (fits T ec m hdr data) 40 1 := by
    unfold minFit; rw [firstFrom_eq_find]
  rw [hmin]
  cases h : firstFrom (fits T ec m hdr data) 40 1 with
  | none =>
    simp only [true_iff]
    intro v h1 h40
    exact firstFrom_none.mp h v h1 (by omega)
  | some v =>
    have := firstFrom_some.mp h
    simp only [reduceCtorEq, false_iff]
    intro hall
    have h1 := this.2.2.1
    have h2 := hall v this.1 (by omega)
    rw [h1] at h2
    cases h2

/-- the recommended version fits, no smaller version does, and its row carries its number -/
theorem recommend_min_spec (T : QRTables) (hwf : wfB T = true) (hmono : monoB T = true)
    (ec : EC) (m : Mode) (hdr data : Nat) (r : VersionInfo)
    (h : recommendVersion T ec m hdr data = .ok r) :
    1 ≤ r.number ∧ r.number ≤ 40 ∧ r = rowOf T r.number ∧ fits T ec m hdr data r.number = true ∧
      ∀ u, 1 ≤ u → u < r.number → fits T ec m hdr data u = false := by
  rw [recommend_is_min T hwf hmono] at h
  have hmin : minFit T ec m hdr data = firstFrom (fits T ec m hdr data) 40 1 := by
    unfold minFit; rw [firstFrom_eq_find]
  rw [hmin] at h
  cases hf : firstFrom (fits T ec m hdr data) 40 1 with
  | none => rw [hf] at h; cases h
  | some v =>
    rw [hf] at h
    simp only [Except.ok.injEq] at h
    have hs := firstFrom_some.mp hf
    have hnum := (wf_row hwf hs.1 (by omega : v ≤ 40)).2.1
    subst h
    rw [hnum]
    exact ⟨hs.1, by omega, rfl, hs.2.2.1, hs.2.2.2⟩

/-- the recommendation never panics (no table access out of range) -/
theorem recommend_total (T : QRTables) (hwf : wfB T = true) (hmono : monoB T = true)
    (ec : EC) (m : Mode) (hdr data : Nat) (w : String) :
    recommendVersion T ec m hdr data ≠ .error (.panic w) := by
  rw [recommend_is_min T hwf hmono]
  split <;> simp

/-! ## the two guards after the version decision never fire -/

/-- `dataBitsLen` grows with the number of characters -/
theorem dataBitsLen_mono (m : Mode) {a b : Nat} (h : a ≤ b) : dataBitsLen m a ≤ dataBitsLen m b := by
  cases m <;> simp only [dataBitsLen]
  · repeat' split
    all_goals omega
  · omega
  · omega
  · omega

/-- per (mode, version, level): the shortest content whose length no longer fits the character
    count indicator (`2^width` characters) does not fit the version, even with the shortest header
    (the 4-bit mode indicator) -/
def guardB (T : QRTables) : Bool :=
  Mode.all.all (fun m => (List.range 40).all (fun i => EC.all.all (fun ec =>
    decide (dataBytes T (i + 1) ec * 8 < ((4 + cbOf T m (i + 1) + dataBitsLen m (2 ^ cbOf T m (i + 1)) : Nat) : Int)))))

/-- `length_guard_never_fires`: whatever fits a version has a character count that fits that
    version's count indicator — `appendLengthInfo`'s "is bigger than" error is unreachable after
    the version decision -/
theorem length_guard_never_fires (T : QRTables) (hg : guardB T = true)
    (ec : EC) (m : Mode) (hdr n v : Nat) (h1 : 1 ≤ v) (h40 : v ≤ 40) (hh : 4 ≤ hdr)
    (hfit : fits T ec m hdr (dataBitsLen m n) v = true) :
    n < 2 ^ cbOf T m v := by
  unfold guardB at hg
  rw [List.all_eq_true] at hg
  have := hg m (mem_Mode_all m)
  rw [List.all_eq_true] at this
  have := this (v - 1) (List.mem_range.mpr (by omega))
  rw [List.all_eq_true] at this
  have := this ec (mem_EC_all ec)
  have e1 : v - 1 + 1 = v := by omega
  rw [e1] at this
  simp only [decide_eq_true_eq] at this
  unfold fits fitsBytes bitsNeeded at hfit
  have hfit' := of_decide_eq_true hfit
  apply Classical.byContradiction
  intro hn
  have hmono := dataBitsLen_mono m (Nat.le_of_not_lt hn)
  omega

/-- the version decision of `Encoder_encode` without a QR_VERSION hint is `recommendVersion`: the
    length guard and `terminateBits`' capacity guard add no failure -/
theorem encode_version_auto (T : QRTables) (hwf : wfB T = true) (hmono : monoB T = true) (hg : guardB T = true)
    (ec : EC) (m : Mode) (hdr n : Nat) (hh : 4 ≤ hdr) :
    encodeVersion T ec m hdr (dataBitsLen m n) n none = recommendVersion T ec m hdr (dataBitsLen m n) := by
  unfold encodeVersion
  simp only [bind, Except.bind, pure, Except.pure]
  cases hr : recommendVersion T ec m hdr (dataBitsLen m n) with
  | error e => rfl
  | ok r =>
    simp only
    obtain ⟨h1, h40, hrow, hfit, _⟩ := recommend_min_spec T hwf hmono ec m hdr _ r hr
    rw [hrow, characterCountBits_ok hwf m h1 h40]
    simp only
    have hlt := length_guard_never_fires T hg ec m hdr n r.number h1 h40 hh hfit
    have hnl : ¬ n ≥ 2 ^ cbOf T m r.number := by omega
    simp only [hnl, if_false]
    rw [numDataBytes_ok hwf h1 h40]
    simp only
    unfold fits fitsBytes bitsNeeded at hfit
    have hfit' := of_decide_eq_true hfit
    have hcap : ¬ (((hdr + cbOf T m r.number + dataBitsLen m n : Nat) : Int) > dataBytes T r.number ec * 8) := by omega
    simp only [hcap, if_false]

/-- `forced_version_exact`: with a QR_VERSION hint the requested version is used exactly when it is
    one of 1..40 and the payload fits it; otherwise the request is refused (a WriterException) — never
    silently replaced by another version -/
theorem forced_version_exact (T : QRTables) (hwf : wfB T = true) (hg : guardB T = true)
    (ec : EC) (m : Mode) (hdr n : Nat) (hh : 4 ≤ hdr) (hint : HintVal) :
    encodeVersion T ec m hdr (dataBitsLen m n) n (some hint) =
      (if 1 ≤ hintInt hint ∧ hintInt hint ≤ 40 ∧ fits T ec m hdr (dataBitsLen m n) (hintInt hint).toNat = true
       then .ok (rowOf T (hintInt hint).toNat) else .error .writer) := by
  unfold encodeVersion
  simp only [bind, Except.bind, pure, Except.pure]
  by_cases hr : 1 ≤ hintInt hint ∧ hintInt hint ≤ 40
  · obtain ⟨v, hv⟩ : ∃ v : Nat, hintInt hint = (v : Int) := ⟨(hintInt hint).toNat, by omega⟩
    rw [hv] at hr ⊢
    have h1 : 1 ≤ v := by omega
    have h40 : v ≤ 40 := by omega
    rw [getVersion_ok hwf h1 h40]
    simp only [Int.toNat_natCast]
    rw [calculateBitsNeeded_ok hwf m hdr _ h1 h40]
    simp only
    rw [willFit_ok hwf h1 h40]
    simp only
    cases hfit : fitsBytes (dataBytes T v ec) (hdr + cbOf T m v + dataBitsLen m n)
    · have : fits T ec m hdr (dataBitsLen m n) v = false := hfit
      simp [this]
    · have hfit' : fits T ec m hdr (dataBitsLen m n) v = true := hfit
      simp only [Bool.not_true, Bool.false_eq_true, if_false]
      rw [characterCountBits_ok hwf m h1 h40]
      simp only
      have hlt := length_guard_never_fires T hg ec m hdr n v h1 h40 hh hfit'
      have hnl : ¬ n ≥ 2 ^ cbOf T m v := by omega
      simp only [hnl, if_false]
      rw [numDataBytes_ok hwf h1 h40]
      simp only
      unfold fitsBytes at hfit
      have hfit'' := of_decide_eq_true hfit
      have hcap : ¬ (((hdr + cbOf T m v + dataBitsLen m n : Nat) : Int) > dataBytes T v ec * 8) := by omega
      simp only [hcap, if_false]
      have : (1 : Int) ≤ (v : Int) ∧ (v : Int) ≤ 40 := by omega
      simp [this, hfit']
  · have hno : ¬ (1 ≤ hintInt hint ∧ hintInt hint ≤ 40 ∧ fits T ec m hdr (dataBitsLen m n) (hintInt hint).toNat = true) :=
      fun h => hr ⟨h.1, h.2.1⟩
    simp only [hno, if_false]
    unfold getVersionForNumber
    have : hintInt hint < 1 ∨ hintInt hint > 40 := by omega
    simp only [this, if_true]

/-! ## capacities -/

/-- number of characters of mode `m` whose data bits fit into `B` bits -/
def charsInBits (m : Mode) (B : Nat) : Nat :=
  match m with
  | .numeric => 3 * (B / 10) + (if B % 10 ≥ 7 then 2 else if B % 10 ≥ 4 then 1 else 0)
  | .alnum => 2 * (B / 11) + (if B % 11 ≥ 6 then 1 else 0)
  | .byte => B / 8
  | .kanji => B / 13

theorem charsInBits_spec (m : Mode) (n B : Nat) : dataBitsLen m n ≤ B ↔ n ≤ charsInBits m B := by
  cases m <;> simp only [dataBitsLen, charsInBits]
  · repeat' split
    all_goals omega
  · split <;> omega
  · omega
  · omega

/-- capacity in characters of a (version, level, mode) for a plain single-segment symbol
    (4-bit mode indicator, count indicator, data) -/
def capacity (T : QRTables) (ec : EC) (m : Mode) (v : Nat) : Nat :=
  charsInBits m ((dataBytes T v ec * 8).toNat - 4 - cbOf T m v)

/-- `capacity` is exact: `n` characters fit iff `n ≤ capacity` (whenever the header fits at all) -/
theorem capacity_spec (T : QRTables) (ec : EC) (m : Mode) (v n : Nat)
    (hroom : ((4 + cbOf T m v : Nat) : Int) ≤ dataBytes T v ec * 8) :
    fits T ec m 4 (dataBitsLen m n) v = true ↔ n ≤ capacity T ec m v := by
  unfold capacity
  rw [← charsInBits_spec]
  unfold fits fitsBytes bitsNeeded
  rw [decide_eq_true_eq]
  omega

/-! ## Data Matrix: first fit in table order = smallest admissible symbol -/

/-- `dm_lookup_first_fit`: `SymbolInfo_Lookup`'s loop returns the first row, in table order, that
    passes the shape / minimum / maximum filters and holds the codewords -/
theorem dm_lookup_first_fit (T : List SymbolInfo) (n : Nat) (shape : Shape) (minSize maxSize : Option (Nat × Nat)) :
    lookupLoop n shape minSize maxSize T =
      T.find? (fun s => admissible shape minSize maxSize s && decide (n ≤ s.dataCapacity)) := by
  induction T with
  | nil => rfl
  | cons s rest ih =>
    unfold lookupLoop
    rw [List.find?_cons, ← ih]
    unfold admissible
    cases shape <;> cases hr : s.rectangular <;> cases hb : belowMin minSize s <;> cases ha : aboveMax maxSize s <;>
      by_cases hn : n ≤ s.dataCapacity <;> simp [hn]

/-- capacities never decrease along the table -/
def sortedB (T : List SymbolInfo) : Bool :=
  match T with
  | [] => true
  | s :: rest => rest.all (fun r => decide (s.dataCapacity ≤ r.dataCapacity)) && sortedB rest

/-- `dm_order_is_capacity_order`: in a table sorted by capacity the row found is one of smallest
    capacity among ALL admissible rows that hold the codewords -/
theorem dm_order_is_capacity_order (T : List SymbolInfo) (hs : sortedB T = true) (n : Nat) (shape : Shape)
    (minSize maxSize : Option (Nat × Nat)) (s : SymbolInfo)
    (h : lookupLoop n shape minSize maxSize T = some s) :
    s ∈ T ∧ admissible shape minSize maxSize s = true ∧ n ≤ s.dataCapacity ∧
      ∀ r ∈ T, admissible shape minSize maxSize r = true → n ≤ r.dataCapacity → s.dataCapacity ≤ r.dataCapacity := by
  rw [dm_lookup_first_fit] at h
  induction T with
  | nil => cases h
  | cons a rest ih =>
    unfold sortedB at hs
    rw [Bool.and_eq_true, List.all_eq_true] at hs
    rw [List.find?_cons] at h
    cases hp : (admissible shape minSize maxSize a && decide (n ≤ a.dataCapacity)) with
    | true =>
      rw [hp] at h
      simp only [Option.some.injEq] at h
      subst h
      rw [Bool.and_eq_true, decide_eq_true_eq] at hp
      refine ⟨List.mem_cons_self, hp.1, hp.2, ?_⟩
      intro r hr _ _
      rcases List.mem_cons.mp hr with rfl | hr'
      · exact Nat.le_refl _
      · simpa using hs.1 r hr'
    | false =>
      rw [hp] at h
      obtain ⟨h1, h2, h3, h4⟩ := ih hs.2 h
      refine ⟨List.mem_cons_of_mem _ h1, h2, h3, ?_⟩
      intro r hr hadm hcap
      rcases List.mem_cons.mp hr with rfl | hr'
      · rw [hadm, Bool.true_and, decide_eq_false_iff_not] at hp
        exact absurd hcap hp
      · exact h4 r hr' hadm hcap

/-- refusal: `SymbolInfo_Lookup(…, fail=true)` errs exactly when no admissible row holds the codewords -/
theorem dm_lookup_refuses_iff (T : List SymbolInfo) (n : Nat) (shape : Shape) (minSize maxSize : Option (Nat × Nat)) :
    symbolLookup T n shape minSize maxSize true = .error .writer ↔
      ∀ r ∈ T, admissible shape minSize maxSize r = true → ¬ n ≤ r.dataCapacity := by
  unfold symbolLookup
  rw [dm_lookup_first_fit]
  cases h : T.find? (fun s => admissible shape minSize maxSize s && decide (n ≤ s.dataCapacity)) with
  | none =>
    simp only [if_true, true_iff]
    intro r hr hadm hcap
    have := List.find?_eq_none.mp h r hr
    simp [hadm, hcap] at this
  | some s =>
    simp only [reduceCtorEq, false_iff]
    intro hall
    have hmem := List.mem_of_find?_eq_some h
    have hp := List.find?_some h
    rw [Bool.and_eq_true, decide_eq_true_eq] at hp
    exact hall s hmem hp.1 hp.2

/-- looking the capacity of the found symbol up again (same filters) finds the same symbol: earlier
    admissible rows were too small for `n`, hence too small for the capacity -/
theorem dm_lookup_idempotent (T : List SymbolInfo) (n : Nat) (shape : Shape) (minSize maxSize : Option (Nat × Nat))
    (s : SymbolInfo) (h : lookupLoop n shape minSize maxSize T = some s) :
    lookupLoop s.dataCapacity shape minSize maxSize T = some s := by
  rw [dm_lookup_first_fit] at h ⊢
  induction T with
  | nil => cases h
  | cons a rest ih =>
    rw [List.find?_cons] at h ⊢
    cases hp : (admissible shape minSize maxSize a && decide (n ≤ a.dataCapacity)) with
    | true =>
      rw [hp] at h
      simp only [Option.some.injEq] at h
      subst h
      rw [Bool.and_eq_true] at hp
      simp [hp.1]
    | false =>
      rw [hp] at h
      have hs := List.find?_some h
      rw [Bool.and_eq_true, decide_eq_true_eq] at hs
      have : (admissible shape minSize maxSize a && decide (s.dataCapacity ≤ a.dataCapacity)) = false := by
        cases hadm : admissible shape minSize maxSize a
        · rfl
        · rw [hadm, Bool.true_and, decide_eq_false_iff_not] at hp
          simp only [Bool.true_and, decide_eq_false_iff_not]
          omega
      rw [this]
      exact ih h

/-- `dm_writer_symbol`: the symbol the Data Matrix WRITER renders (second lookup on the padded
    codewords, with the same shape and size constraints) is the first admissible symbol for the
    message's codeword count, in table order; the writer refuses exactly when none is admissible,
    and its ignored second-lookup error can never hide a nil symbol -/
theorem dm_writer_symbol (T : List SymbolInfo) (k : Nat) (shape : Shape) (minSize maxSize : Option (Nat × Nat)) :
    writerSymbol T k shape minSize maxSize =
      match lookupLoop k shape minSize maxSize T with
      | some s => .ok s
      | none => .error .writer := by
  unfold writerSymbol symbolLookup
  cases h : lookupLoop k shape minSize maxSize T with
  | none => rfl
  | some s =>
    simp only [bind, Except.bind, pure, Except.pure]
    rw [dm_lookup_idempotent T k shape minSize maxSize s h]

/-- `dm_max_1558`: beyond the largest capacity of the table nothing is found -/
theorem dm_max (T : List SymbolInfo) (cap : Nat) (hmax : T.all (fun s => decide (s.dataCapacity ≤ cap)) = true)
    (n : Nat) (hn : cap < n) (shape : Shape) (minSize maxSize : Option (Nat × Nat)) :
    lookupLoop n shape minSize maxSize T = none := by
  rw [dm_lookup_first_fit, List.find?_eq_none]
  intro s hs
  rw [List.all_eq_true] at hmax
  have := hmax s hs
  simp only [decide_eq_true_eq] at this
  have : ¬ n ≤ s.dataCapacity := by omega
  simp [this]

/-- `UpdateSymbolInfoByLength`: afterwards the context's symbol holds `len` codewords; it is the
    previous symbol if that was large enough, otherwise the first fit -/
theorem update_symbol_info_spec (T : List SymbolInfo) (cur : Option SymbolInfo) (len : Nat) (shape : Shape)
    (minSize maxSize : Option (Nat × Nat)) (r : Option SymbolInfo)
    (h : updateSymbolInfoByLength T cur len shape minSize maxSize = .ok r) :
    ∃ s, r = some s ∧ len ≤ s.dataCapacity ∧
      ((cur = some s) ∨ lookupLoop len shape minSize maxSize T = some s) := by
  unfold updateSymbolInfoByLength at h
  have key : ∀ r, symbolLookup T len shape minSize maxSize true = .ok r →
      ∃ s, r = some s ∧ len ≤ s.dataCapacity ∧ lookupLoop len shape minSize maxSize T = some s := by
    intro r hr
    unfold symbolLookup at hr
    cases hl : lookupLoop len shape minSize maxSize T with
    | none => rw [hl] at hr; simp at hr
    | some s =>
      rw [hl] at hr
      simp only [Except.ok.injEq] at hr
      refine ⟨s, hr.symm, ?_, rfl⟩
      rw [dm_lookup_first_fit] at hl
      have hp := List.find?_some hl
      rw [Bool.and_eq_true, decide_eq_true_eq] at hp
      exact hp.2
  cases cur with
  | none =>
    obtain ⟨s, h1, h2, h3⟩ := key r h
    exact ⟨s, h1, h2, Or.inr h3⟩
  | some c =>
    simp only at h
    by_cases hc : len > c.dataCapacity
    · simp only [hc, if_true] at h
      obtain ⟨s, h1, h2, h3⟩ := key r h
      exact ⟨s, h1, h2, Or.inr h3⟩
    · simp only [hc, if_false, Except.ok.injEq] at h
      exact ⟨c, h.symm, by omega, Or.inl rfl⟩

/-! ## the tables the standard prescribes satisfy every hypothesis; published capacities -/

theorem ref_wf : wfB refTables = true := by decide +kernel
theorem ref_mono : monoB refTables = true := by decide +kernel
theorem ref_guard : guardB refTables = true := by decide +kernel

/-- `qr_capacity_figures` for the standard's tables: numeric / alphanumeric / byte / Kanji capacities
    of version 40 at L, M, Q, H and of version 1 at L, as published in ISO/IEC 18004 Table 7 -/
theorem ref_capacity_figures :
    Mode.all.map (capacity refTables .L · 40) = [7089, 4296, 2953, 1817] ∧
    Mode.all.map (capacity refTables .M · 40) = [5596, 3391, 2331, 1435] ∧
    Mode.all.map (capacity refTables .Q · 40) = [3993, 2420, 1663, 1024] ∧
    Mode.all.map (capacity refTables .H · 40) = [3057, 1852, 1273, 784] ∧
    Mode.all.map (capacity refTables .L · 1) = [41, 25, 17, 10] ∧
    Mode.all.map (capacity refTables .H · 1) = [17, 10, 7, 4] ∧
    Mode.all.map (capacity refTables .M · 10) = [513, 311, 213, 131] ∧
    Mode.all.map (capacity refTables .Q · 27) = [1933, 1172, 805, 496] := by
  decide +kernel

/-! ## non-vacuity -/

example : recommendVersion refTables .L .numeric 4 (dataBitsLen .numeric 7089) = .ok (rowOf refTables 40) := by
  rw [recommend_is_min refTables ref_wf ref_mono]; decide +kernel
example : recommendVersion refTables .L .numeric 4 (dataBitsLen .numeric 7090) = .error .writer := by
  rw [recommend_is_min refTables ref_wf ref_mono]; decide +kernel
example : minFit refTables .M .alnum 4 (dataBitsLen .alnum 11) = some 1 := by decide +kernel

end Gzx.Properties.C13
