/-
  C13 — Data Matrix: the symbol the high-level ENCODER settles on is the first fit (wp dmenc, item d).
  C13's theorems (`dm_lookup_first_fit`, `dm_order_is_capacity_order`, `dm_lookup_idempotent`, `dm_writer_symbol`) are
  about `SymbolInfo_Lookup` / `UpdateSymbolInfoByLength` in isolation (model `QRVersionChoice.lookupLoop`); the premise of
  `dm_writer_symbol` — "EncodeHighLevel settles on SymbolInfo_Lookup(k, …) and pads to that symbol's capacity" — was
  prose.  Here it is a theorem about the whole run of the encoder model `DMHighLevel.encodeHL` (C02), for EVERY
  look-ahead oracle, every table and every hint configuration:
    * the two models of the lookup agree (`hl_lookup_is_lookupLoop`, `hl_update_is_updateSymbolInfoByLength`);
    * `dm_encoder_symbol_first_fit`: the stream `encodeHL` returns has exactly the capacity of a symbol `s` that
      `SymbolInfo_Lookup` returns for some codeword count `n ≤ |stream|` under the same hints, and the writer's second
      lookup on the padded length returns `s` again (so its ignored error never hides a nil symbol);
    * `dm_encoder_symbol_minimal`: in a table sorted by capacity `s` is a symbol of smallest capacity among all
      admissible symbols that hold those `n` codewords.
  Proofs: Gzx/Proofs/DMSymFF.lean (invariant `SymFF` through all six mode encoders and the dispatch loop).
-/
import Gzx.Proofs.DMSymFF
import Gzx.Properties.C13
namespace Gzx.Properties.C13
open Gzx Gzx.QRVersionChoice

/-- a row of C13's table as the high-level encoder model sees it -/
def toHL (s : SymbolInfo) : DMHighLevel.SymbolInfo :=
  ⟨s.rectangular, s.dataCapacity, s.errorCodewords, s.matrixWidth, s.matrixHeight, s.dataRegions⟩

def shapeNat : Shape → Nat
  | .none => 0
  | .square => 1
  | .rectangle => 2

def cfgOf (shape : Shape) (mn mx : Option (Nat × Nat)) : DMHighLevel.Cfg := ⟨shapeNat shape, mn, mx⟩

theorem hRegions_eq (s : SymbolInfo) : DMHighLevel.hRegions s.dataRegions = horizontalDataRegions s := by
  unfold DMHighLevel.hRegions horizontalDataRegions
  repeat' split
  all_goals first | rfl | omega | (simp_all; done)

theorem vRegions_eq (s : SymbolInfo) : DMHighLevel.vRegions s.dataRegions = verticalDataRegions s := by
  unfold DMHighLevel.vRegions verticalDataRegions
  repeat' split
  all_goals first | rfl | omega | (simp_all; done)

theorem toHL_width (s : SymbolInfo) : (toHL s).width = symbolWidth s := by
  unfold DMHighLevel.SymbolInfo.width symbolWidth toHL
  simp only [hRegions_eq]

theorem toHL_height (s : SymbolInfo) : (toHL s).height = symbolHeight s := by
  unfold DMHighLevel.SymbolInfo.height symbolHeight toHL
  simp only [vRegions_eq]

theorem toHL_admissible (shape : Shape) (mn mx : Option (Nat × Nat)) (s : SymbolInfo) :
    DMHighLevel.admissible (cfgOf shape mn mx) (toHL s) = admissible shape mn mx s := by
  unfold DMHighLevel.admissible admissible belowMin aboveMax cfgOf
  simp only [toHL_width, toHL_height]
  have hr : (toHL s).rect = s.rectangular := rfl
  rw [hr]
  cases shape <;> cases mn <;> cases mx <;> simp [shapeNat]

/-- the encoder model's `SymbolInfo_Lookup` is C13's loop -/
theorem hl_lookup_is_lookupLoop (T : List SymbolInfo) (n : Nat) (shape : Shape) (mn mx : Option (Nat × Nat)) :
    DMHighLevel.lookup (T.map toHL) (cfgOf shape mn mx) n = (lookupLoop n shape mn mx T).map toHL := by
  rw [dm_lookup_first_fit]
  unfold DMHighLevel.lookup
  rw [List.find?_map]
  have : ((fun s => DMHighLevel.admissible (cfgOf shape mn mx) s && decide (n ≤ s.cap)) ∘ toHL) =
      fun s => admissible shape mn mx s && decide (n ≤ s.dataCapacity) := by
    funext s
    simp only [Function.comp, toHL_admissible]
    rfl
  rw [this]

/-- the encoder model's `UpdateSymbolInfoByLength` is C13's, field by field -/
theorem hl_update_is_updateSymbolInfoByLength (T : List SymbolInfo) (cur : Option SymbolInfo) (len : Nat)
    (shape : Shape) (mn mx : Option (Nat × Nat)) (msg : List Nat) :
    (DMHighLevel.Ctx.update (T.map toHL) { msg := msg, cfg := cfgOf shape mn mx, sym := cur.map toHL } len).map (·.sym) =
      (updateSymbolInfoByLength T cur len shape mn mx).map (·.map toHL) := by
  unfold DMHighLevel.Ctx.update updateSymbolInfoByLength symbolLookup
  simp only
  rw [hl_lookup_is_lookupLoop]
  cases cur with
  | none =>
    simp only [Option.map_none]
    cases lookupLoop len shape mn mx T <;> rfl
  | some s =>
    simp only [Option.map_some]
    have : (toHL s).cap = s.dataCapacity := rfl
    rw [this]
    split
    · cases lookupLoop len shape mn mx T <;> rfl
    · rfl

/-- `dm_encoder_symbol_first_fit`: whatever the look-ahead does, the padded stream of `EncodeHighLevel` has exactly the
    capacity of a first-fit symbol `s` (C13's `SymbolInfo_Lookup` loop for some codeword count `n`, same shape and
    size hints), and the writer's second lookup on `len(encoded)` returns `s` again -/
theorem dm_encoder_symbol_first_fit (T : List SymbolInfo) (la : DMHighLevel.LookAhead) (msg : List Nat)
    (shape : Shape) (mn mx : Option (Nat × Nat)) (cw : List Nat)
    (h : DMHighLevel.encodeHL (T.map toHL) la msg (cfgOf shape mn mx) = .ok cw) :
    ∃ s n, lookupLoop n shape mn mx T = some s ∧ n ≤ cw.length ∧ cw.length = s.dataCapacity ∧
      symbolLookup T cw.length shape mn mx true = .ok (some s) := by
  obtain ⟨s', n, hn, hlen, _, _, _⟩ := DMHighLevel.encodeHL_symbol (T.map toHL) la msg (cfgOf shape mn mx) cw h
  rw [hl_lookup_is_lookupLoop] at hn
  cases hl : lookupLoop n shape mn mx T with
  | none => rw [hl] at hn; cases hn
  | some s =>
    rw [hl] at hn
    simp only [Option.map_some, Option.some.injEq] at hn
    have hcap : cw.length = s.dataCapacity := by rw [hlen, ← hn]; rfl
    have hidem := dm_lookup_idempotent T n shape mn mx s hl
    have hle : n ≤ s.dataCapacity := by
      rw [dm_lookup_first_fit] at hl
      have := List.find?_some hl
      simp only [Bool.and_eq_true, decide_eq_true_eq] at this
      exact this.2
    refine ⟨s, n, hl, by omega, hcap, ?_⟩
    unfold symbolLookup
    rw [hcap, hidem]

/-- in a table sorted by capacity the encoder's symbol is one of smallest capacity among all admissible symbols that
    hold the `n` codewords it was looked up for -/
theorem dm_encoder_symbol_minimal (T : List SymbolInfo) (hs : sortedB T = true) (la : DMHighLevel.LookAhead)
    (msg : List Nat) (shape : Shape) (mn mx : Option (Nat × Nat)) (cw : List Nat)
    (h : DMHighLevel.encodeHL (T.map toHL) la msg (cfgOf shape mn mx) = .ok cw) :
    ∃ s n, s ∈ T ∧ admissible shape mn mx s = true ∧ n ≤ cw.length ∧ cw.length = s.dataCapacity ∧
      ∀ r ∈ T, admissible shape mn mx r = true → n ≤ r.dataCapacity → cw.length ≤ r.dataCapacity := by
  obtain ⟨s, n, hl, hn, hcap, _⟩ := dm_encoder_symbol_first_fit T la msg shape mn mx cw h
  obtain ⟨h1, h2, _, h4⟩ := dm_order_is_capacity_order T hs n shape mn mx s hl
  exact ⟨s, n, h1, h2, hn, hcap, fun r hr ha hc => by rw [hcap]; exact h4 r hr ha hc⟩

/-- non-vacuity: a three-row table, "ABCDEFGH" under the all-ASCII oracle needs 8 codewords: the 8-codeword row -/
example : DMHighLevel.encodeHL ([⟨false, 5, 7, 10, 10, 1, 5, 7⟩, ⟨false, 8, 10, 12, 12, 1, 8, 10⟩,
      ⟨false, 12, 12, 14, 14, 1, 12, 12⟩].map toHL) (fun _ _ _ => 0) [65, 66, 67, 68, 69, 70, 71, 72] (cfgOf .none none none)
    = .ok [66, 67, 68, 69, 70, 71, 72, 73] := by decide
example : lookupLoop 8 .none none none [⟨false, 5, 7, 10, 10, 1, 5, 7⟩, ⟨false, 8, 10, 12, 12, 1, 8, 10⟩,
      ⟨false, 12, 12, 14, 14, 1, 12, 12⟩] = some ⟨false, 8, 10, 12, 12, 1, 8, 10⟩ := by decide

end Gzx.Properties.C13
