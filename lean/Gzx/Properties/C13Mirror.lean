/-
  C13 / work package `qrenc` — the version the mirror of `Encoder_encode` settles on is the smallest adequate one
  BY THE REFERENCE'S capacity rule: `recommendVersion` (C13's model of the two-pass loop, run by the mirror encoder
  `Gzx.QREnc.encode`) = `QRRef.minVersion`, the `find?` of the first version whose data capacity holds the payload.
-/
import Gzx.Proofs.QREncVersion
namespace Gzx.Properties.C13Mirror
open Gzx Gzx.QRRef Gzx.QREnc

/-- automatic version = the smallest version that fits (reference rule), refusal iff none of 1..40 fits -/
theorem mirror_recommend_eq_minVersion (ec : EC) (m : Mode) (hdr data : Nat) :
    QRVersionChoice.recommendVersion tables ec m hdr data =
      match minVersion ec m hdr data with
      | some v => .ok (versionInfo v)
      | none => .error .writer := recommendVersion_eq_min ec m hdr data

/-- what the reference calls "fits" is what C13's theorems call "fits" on the standard's tables -/
theorem mirror_fits_eq (v : Nat) (h1 : 1 ≤ v) (h40 : v ≤ 40) (ec : EC) (m : Mode) (hdr data : Nat) :
    Gzx.Properties.C13.fits QRVersionChoice.refTables ec m hdr data v = fitsBits v ec m hdr data :=
  fits_eq_fitsBits v h1 h40 ec m hdr data

/-- the version found is in 1..40 and does fit -/
theorem mirror_minVersion_fits {ec : EC} {m : Mode} {hdr data v : Nat} (h : minVersion ec m hdr data = some v) :
    1 ≤ v ∧ v ≤ 40 ∧ fitsBits v ec m hdr data = true := minVersion_range h

example : minVersion .L .byte 4 (8 * 17) = some 1 := by decide

end Gzx.Properties.C13Mirror
