/-
  C14 — Rendering geometry: size, integer scaling, centring and quiet zone.
  Property theorems only; helper lemmas live in Gzx/Proofs/Render.lean.
  Model: Gzx/Model/Render.lean (renderQR / renderDM / render1D, tied to qrcode_writer.go renderResult,
  datamatrix_writer.go convertByteMatrixToBitMatrix and one_dimensional_code_writer.go
  onedWriter_renderResult by the `c14` correspondence suite).

  Notation of the property: n = module count on an axis, Q = quiet modules on that axis in total
  (QR: 2·margin; Data Matrix: 0; 1-D: margin, shared between the two sides), out = max(req, n+Q),
  s = ⌊out/(n+Q)⌋ (2-D: min over both axes), pad = ⌊(out − n·s)/2⌋.
  `/` below is Lean's floor division on `Int`; all operands are non-negative under the hypotheses.
-/
import Gzx.Proofs.Render
namespace Gzx.Properties.C14
open Gzx Gzx.Render

/-! ## the quantities of the property statement -/

/-- out = max(req, n + Q) -/
def outSize (req : Int) (n : Nat) (Q : Int) : Int := max req ((n : Int) + Q)
/-- per-axis scale ⌊out / (n+Q)⌋ -/
def axisScale (req : Int) (n : Nat) (Q : Int) : Int := outSize req n Q / ((n : Int) + Q)
/-- pad = ⌊(out − n·s)/2⌋ -/
def padOf (out : Int) (n : Nat) (s : Int) : Int := (out - (n : Int) * s) / 2

/-- QR module size: min over both axes, Q = 2q -/
def qrScale (mw mh : Nat) (q reqW reqH : Int) : Int :=
  min (axisScale reqW mw (2 * q)) (axisScale reqH mh (2 * q))

/-! ## arithmetic facts shared by the three renderers -/

private theorem axis_facts (req : Int) (n : Nat) (Q : Int) (hn : 1 ≤ n) (hQ : 0 ≤ Q) :
    1 ≤ axisScale req n Q ∧ axisScale req n Q * ((n : Int) + Q) ≤ outSize req n Q ∧
    outSize req n Q < (axisScale req n Q + 1) * ((n : Int) + Q) := by
  have hA : 0 < (n : Int) + Q := by omega
  have hge : (n : Int) + Q ≤ outSize req n Q := by unfold outSize; omega
  refine ⟨?_, Int.ediv_mul_le _ (by omega), Int.lt_ediv_add_one_mul_self _ hA⟩
  unfold axisScale
  exact (Int.le_ediv_iff_mul_le hA).2 (by omega)

/-- a scale `s` between 1 and the axis scale leaves at least `Q·s` white pixels, split evenly -/
private theorem pad_facts (out : Int) (n : Nat) (Q s a : Int) (hQ : 0 ≤ Q)
    (h1 : 1 ≤ s) (hsa : s ≤ a) (ha : a * ((n : Int) + Q) ≤ out) :
    0 ≤ (n : Int) * s ∧ 0 ≤ Q * s ∧ (n : Int) * s + Q * s ≤ out := by
  have h0 : 0 ≤ (n : Int) + Q := by omega
  have e : s * ((n : Int) + Q) ≤ a * ((n : Int) + Q) := Int.mul_le_mul_of_nonneg_right hsa h0
  rw [Int.mul_add, Int.mul_comm s n, Int.mul_comm s Q] at e
  exact ⟨Int.mul_nonneg (by omega) (by omega), Int.mul_nonneg hQ (by omega), by omega⟩

/-- centre sampling follows from the pixel formula (shared by QR and Data Matrix) -/
private theorem centres_of_pixel (mw mh : Nat) (m : Nat → Nat → Bool) (img : Image) (s padX padY : Int)
    (hs1 : 1 ≤ s)
    (hpx : ∀ x y : Int, img.px x y = true ↔
        (padX ≤ x ∧ x < padX + (mw : Int) * s ∧ padY ≤ y ∧ y < padY + (mh : Int) * s ∧
          m ((x - padX) / s).toNat ((y - padY) / s).toNat = true)) :
    ∀ i j : Nat, i < mw → j < mh →
      img.px (padX + (i : Int) * s + s / 2) (padY + (j : Int) * s + s / 2) = m i j := by
  intro i j hi hj
  have hs0 : 0 < s := by omega
  have ei : ((i : Int) + 1) * s ≤ (mw : Int) * s := Int.mul_le_mul_of_nonneg_right (by omega) (by omega)
  have ej : ((j : Int) + 1) * s ≤ (mh : Int) * s := Int.mul_le_mul_of_nonneg_right (by omega) (by omega)
  rw [Int.add_mul] at ei ej
  have ni : 0 ≤ (i : Int) * s := Int.mul_nonneg (by omega) (by omega)
  have nj : 0 ≤ (j : Int) * s := Int.mul_nonneg (by omega) (by omega)
  have bi : ((padX + (i : Int) * s + s / 2 - padX) / s).toNat = i :=
    (block_index s _ i hs0 (by omega)).1 ⟨by omega, by omega⟩
  have bj : ((padY + (j : Int) * s + s / 2 - padY) / s).toNat = j :=
    (block_index s _ j hs0 (by omega)).1 ⟨by omega, by omega⟩
  have h := hpx (padX + (i : Int) * s + s / 2) (padY + (j : Int) * s + s / 2)
  rw [bi, bj] at h
  cases hm : m i j with
  | true => rw [h]; exact ⟨by omega, by omega, by omega, by omega, hm⟩
  | false =>
    cases hp : img.px (padX + (i : Int) * s + s / 2) (padY + (j : Int) * s + s / 2) with
    | false => rfl
    | true => rw [hp] at h; have := (h.1 rfl).2.2.2.2; rw [hm] at this; cases this

/-! ## QR -/

section QR
variable (mw mh : Nat) (m : Nat → Nat → Bool) (q reqW reqH : Int)

/-- The model's result in closed form: for a non-negative margin and a non-empty symbol the
    renderer succeeds with the image `max(req, n+2q)` per axis and one `s x s` block per dark module
    at `(padX + i·s, padY + j·s)`. -/
theorem renderQR_eq (hq : 0 ≤ q) (hw : 1 ≤ mw) (hh : 1 ≤ mh) :
    renderQR mw mh m q reqW reqH =
      .ok ⟨outSize reqW mw (2 * q), outSize reqH mh (2 * q),
           rowLoop m mw (padOf (outSize reqW mw (2 * q)) mw (qrScale mw mh q reqW reqH))
             (qrScale mw mh q reqW reqH) (qrScale mw mh q reqW reqH) (qrScale mw mh q reqW reqH) mh 0
             (padOf (outSize reqH mh (2 * q)) mh (qrScale mw mh q reqW reqH))⟩ := by
  obtain ⟨ax1, ax2, -⟩ := axis_facts reqW mw (2 * q) hw (by omega)
  obtain ⟨ay1, ay2, -⟩ := axis_facts reqH mh (2 * q) hh (by omega)
  have hs1 : 1 ≤ qrScale mw mh q reqW reqH := by unfold qrScale; omega
  obtain ⟨px1, px2, px3⟩ := pad_facts (outSize reqW mw (2 * q)) mw (2 * q) _ _ (by omega) hs1
    (by unfold qrScale; omega) ax2
  obtain ⟨py1, py2, py3⟩ := pad_facts (outSize reqH mh (2 * q)) mh (2 * q) _ _ (by omega) hs1
    (by unfold qrScale; omega) ay2
  have oW : (if (mw : Int) + q * 2 < reqW then reqW else (mw : Int) + q * 2) = outSize reqW mw (2 * q) := by
    unfold outSize; split <;> omega
  have oH : (if (mh : Int) + q * 2 < reqH then reqH else (mh : Int) + q * 2) = outSize reqH mh (2 * q) := by
    unfold outSize; split <;> omega
  have gW : (mw : Int) + q * 2 ≤ outSize reqW mw (2 * q) := by unfold outSize; omega
  have gH : (mh : Int) + q * 2 ≤ outSize reqH mh (2 * q) := by unfold outSize; omega
  have dW : (outSize reqW mw (2 * q)).tdiv ((mw : Int) + q * 2) = axisScale reqW mw (2 * q) := by
    rw [Int.tdiv_eq_ediv_of_nonneg (by omega)]; unfold axisScale
    rw [show (mw : Int) + q * 2 = (mw : Int) + 2 * q by omega]
  have dH : (outSize reqH mh (2 * q)).tdiv ((mh : Int) + q * 2) = axisScale reqH mh (2 * q) := by
    rw [Int.tdiv_eq_ediv_of_nonneg (by omega)]; unfold axisScale
    rw [show (mh : Int) + q * 2 = (mh : Int) + 2 * q by omega]
  have n1 : ¬ ((mw : Int) + q * 2 = 0) := by omega
  have n2 : ¬ ((mh : Int) + q * 2 = 0) := by omega
  unfold renderQR goDiv
  simp only [oW, oH, n1, n2, if_false, dW, dH, bind, Except.bind]
  have hmin : (if axisScale reqW mw (2 * q) > axisScale reqH mh (2 * q) then axisScale reqH mh (2 * q)
      else axisScale reqW mw (2 * q)) = qrScale mw mh q reqW reqH := by
    unfold qrScale; split <;> omega
  rw [hmin]
  have tX : (outSize reqW mw (2 * q) - (mw : Int) * qrScale mw mh q reqW reqH).tdiv 2 =
      padOf (outSize reqW mw (2 * q)) mw (qrScale mw mh q reqW reqH) := by
    rw [Int.tdiv_eq_ediv_of_nonneg (by omega)]; rfl
  have tY : (outSize reqH mh (2 * q) - (mh : Int) * qrScale mw mh q reqW reqH).tdiv 2 =
      padOf (outSize reqH mh (2 * q)) mh (qrScale mw mh q reqW reqH) := by
    rw [Int.tdiv_eq_ediv_of_nonneg (by omega)]; rfl
  rw [tX, tY]
  have nb : ¬ (outSize reqW mw (2 * q) < 1 ∨ outSize reqH mh (2 * q) < 1) := by omega
  simp only [nb, if_false]

/-- clause "the returned image measures max(requested, symbol + quiet zone) on each axis" -/
theorem renderQR_dims (hq : 0 ≤ q) (hw : 1 ≤ mw) (hh : 1 ≤ mh) :
    ∃ img, renderQR mw mh m q reqW reqH = .ok img ∧
      img.w = max reqW ((mw : Int) + 2 * q) ∧ img.h = max reqH ((mh : Int) + 2 * q) :=
  ⟨_, renderQR_eq mw mh m q reqW reqH hq hw hh, rfl, rfl⟩

/-- clause "largest integer module size that fits … centred with the leftover split evenly …
    leaving at least the configured quiet zone (the margin in modules on every side)":
    with s = qrScale and pad = padOf: s ≥ 1; s·(n+2q) fits on both axes and (s+1)·(n+2q) does not fit on
    at least one; the left/top pad is the right/bottom pad or one pixel less; every side keeps ≥ q·s. -/
theorem renderQR_quiet (hq : 0 ≤ q) (hw : 1 ≤ mw) (hh : 1 ≤ mh) :
    let W := outSize reqW mw (2 * q); let H := outSize reqH mh (2 * q)
    let s := qrScale mw mh q reqW reqH
    let padX := padOf W mw s; let padY := padOf H mh s
    1 ≤ s ∧ s * ((mw : Int) + 2 * q) ≤ W ∧ s * ((mh : Int) + 2 * q) ≤ H ∧
    (W < (s + 1) * ((mw : Int) + 2 * q) ∨ H < (s + 1) * ((mh : Int) + 2 * q)) ∧
    q * s ≤ padX ∧ q * s ≤ W - (padX + (mw : Int) * s) ∧
    q * s ≤ padY ∧ q * s ≤ H - (padY + (mh : Int) * s) ∧
    padX ≤ W - (padX + (mw : Int) * s) ∧ W - (padX + (mw : Int) * s) ≤ padX + 1 ∧
    padY ≤ H - (padY + (mh : Int) * s) ∧ H - (padY + (mh : Int) * s) ≤ padY + 1 := by
  intro W H s padX padY
  obtain ⟨ax1, ax2, ax3⟩ := axis_facts reqW mw (2 * q) hw (by omega)
  obtain ⟨ay1, ay2, ay3⟩ := axis_facts reqH mh (2 * q) hh (by omega)
  have hs1 : 1 ≤ s := by show 1 ≤ qrScale mw mh q reqW reqH; unfold qrScale; omega
  have hsx : s ≤ axisScale reqW mw (2 * q) := by show qrScale mw mh q reqW reqH ≤ _; unfold qrScale; omega
  have hsy : s ≤ axisScale reqH mh (2 * q) := by show qrScale mw mh q reqW reqH ≤ _; unfold qrScale; omega
  obtain ⟨px1, px2, px3⟩ := pad_facts W mw (2 * q) s _ (by omega) hs1 hsx ax2
  obtain ⟨py1, py2, py3⟩ := pad_facts H mh (2 * q) s _ (by omega) hs1 hsy ay2
  have eq : 2 * q * s = 2 * (q * s) := Int.mul_assoc 2 q s
  have fx : s * ((mw : Int) + 2 * q) = (mw : Int) * s + 2 * q * s := by
    rw [Int.mul_add, Int.mul_comm s mw, Int.mul_comm s (2 * q)]
  have fy : s * ((mh : Int) + 2 * q) = (mh : Int) * s + 2 * q * s := by
    rw [Int.mul_add, Int.mul_comm s mh, Int.mul_comm s (2 * q)]
  have hmax : s = axisScale reqW mw (2 * q) ∨ s = axisScale reqH mh (2 * q) := by
    show qrScale mw mh q reqW reqH = _ ∨ qrScale mw mh q reqW reqH = _; unfold qrScale; omega
  have hX : padX = (W - (mw : Int) * s) / 2 := rfl
  have hY : padY = (H - (mh : Int) * s) / 2 := rfl
  refine ⟨hs1, by omega, by omega, ?_, by omega, by omega, by omega, by omega, by omega, by omega,
    by omega, by omega⟩
  rcases hmax with h | h
  · left; rw [h]; exact ax3
  · right; rw [h]; exact ay3

/-- clause "every module as a uniform block of that size … and everything else is white":
    pixel(x,y) is black iff (x,y) lies in the symbol area and module(⌊(x−padX)/s⌋, ⌊(y−padY)/s⌋) is dark. -/
theorem renderQR_pixel (hq : 0 ≤ q) (hw : 1 ≤ mw) (hh : 1 ≤ mh) :
    ∃ img, renderQR mw mh m q reqW reqH = .ok img ∧
      let s := qrScale mw mh q reqW reqH
      let padX := padOf img.w mw s; let padY := padOf img.h mh s
      ∀ x y : Int, img.px x y = true ↔
        (padX ≤ x ∧ x < padX + (mw : Int) * s ∧ padY ≤ y ∧ y < padY + (mh : Int) * s ∧
          m ((x - padX) / s).toNat ((y - padY) / s).toNat = true) := by
  refine ⟨_, renderQR_eq mw mh m q reqW reqH hq hw hh, ?_⟩
  intro s padX padY x y
  obtain ⟨hs1, -, -, -, qx1, qx2, qy1, qy2, -⟩ := renderQR_quiet mw mh q reqW reqH hq hw hh
  have : 0 ≤ q * qrScale mw mh q reqW reqH := Int.mul_nonneg hq (by omega)
  exact grid_px mw mh m _ _ _ _ _ hs1 (by omega) (by omega) (by omega) (by omega) x y

/-- clause "sampling the centre of each module block gives back exactly the module matrix" -/
theorem renderQR_sample_centres_recover (hq : 0 ≤ q) (hw : 1 ≤ mw) (hh : 1 ≤ mh) :
    ∃ img, renderQR mw mh m q reqW reqH = .ok img ∧
      let s := qrScale mw mh q reqW reqH
      let padX := padOf img.w mw s; let padY := padOf img.h mh s
      ∀ i j : Nat, i < mw → j < mh →
        img.px (padX + (i : Int) * s + s / 2) (padY + (j : Int) * s + s / 2) = m i j := by
  obtain ⟨img, himg, hpx⟩ := renderQR_pixel mw mh m q reqW reqH hq hw hh
  refine ⟨img, himg, ?_⟩
  obtain ⟨hs1, -⟩ := renderQR_quiet mw mh q reqW reqH hq hw hh
  dsimp only at hpx hs1 ⊢
  generalize qrScale mw mh q reqW reqH = s at hpx hs1 ⊢
  generalize padOf img.w mw s = padX at hpx ⊢
  generalize padOf img.h mh s = padY at hpx ⊢
  exact centres_of_pixel mw mh m img s padX padY hs1 hpx

end QR

end Gzx.Properties.C14
