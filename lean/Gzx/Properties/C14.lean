/-
  C14 — Rendering geometry: size, integer scaling, centring and quiet zone.
  Property theorems only; helper lemmas live in Gzx/Proofs/Render.lean.
  Model: Gzx/Model/Render.lean (renderQR / renderDM / render1D, tied to qrcode_writer.go renderResult,
  datamatrix_writer.go convertByteMatrixToBitMatrix and one_dimensional_code_writer.go
  onedWriter_renderResult by the `c14` correspondence suite).

  Notation of the property: n = module count on an axis, Q = quiet modules on that axis in total
  (QR: 2·margin; Data Matrix: 0; 1-D: margin, shared between the two sides), out = max(req, n+Q),
  s = ⌊out/(n+Q)⌋ (2-D: min over both axes), pad = ⌊(out − n·s)/2⌋.
  `/` below is Lean's floor division on `Int`; all operands are non-negative under the hypotheses.
-/
import Gzx.Proofs.Render
namespace Gzx.Properties.C14
open Gzx Gzx.Render

/-! ## the quantities of the property statement: `outSize`, `axisScale`, `padOf` are defined in
    Gzx/Proofs/Render.lean next to the arithmetic lemmas about them:
    outSize req n Q = max req (n+Q);  axisScale req n Q = outSize req n Q / (n+Q);  padOf out n s = (out − n·s)/2 -/

/-- QR module size: min over both axes, Q = 2q -/
def qrScale (mw mh : Nat) (q reqW reqH : Int) : Int :=
  min (axisScale reqW mw (2 * q)) (axisScale reqH mh (2 * q))

/-! ## QR -/

section QR
variable (mw mh : Nat) (m : Nat → Nat → Bool) (q reqW reqH : Int)

/-- The model's result in closed form: for a non-negative margin and a non-empty symbol the
    renderer succeeds with the image `max(req, n+2q)` per axis and one `s x s` block per dark module
    at `(padX + i·s, padY + j·s)`. -/
theorem renderQR_eq (hq : 0 ≤ q) (hw : 1 ≤ mw) (hh : 1 ≤ mh) :
    renderQR mw mh m q reqW reqH =
      .ok ⟨outSize reqW mw (2 * q), outSize reqH mh (2 * q),
           rowLoop m mw (padOf (outSize reqW mw (2 * q)) mw (qrScale mw mh q reqW reqH))
             (qrScale mw mh q reqW reqH) (qrScale mw mh q reqW reqH) (qrScale mw mh q reqW reqH) mh 0
             (padOf (outSize reqH mh (2 * q)) mh (qrScale mw mh q reqW reqH))⟩ := by
  obtain ⟨ax1, ax2, -⟩ := axis_facts reqW mw (2 * q) hw (by omega)
  obtain ⟨ay1, ay2, -⟩ := axis_facts reqH mh (2 * q) hh (by omega)
  have hs1 : 1 ≤ qrScale mw mh q reqW reqH := by unfold qrScale; omega
  obtain ⟨px1, px2, px3⟩ := pad_facts (outSize reqW mw (2 * q)) mw (2 * q) _ _ (by omega) hs1
    (by unfold qrScale; omega) ax2
  obtain ⟨py1, py2, py3⟩ := pad_facts (outSize reqH mh (2 * q)) mh (2 * q) _ _ (by omega) hs1
    (by unfold qrScale; omega) ay2
  have oW : (if (mw : Int) + q * 2 < reqW then reqW else (mw : Int) + q * 2) = outSize reqW mw (2 * q) := by
    unfold outSize; split <;> omega
  have oH : (if (mh : Int) + q * 2 < reqH then reqH else (mh : Int) + q * 2) = outSize reqH mh (2 * q) := by
    unfold outSize; split <;> omega
  have gW : (mw : Int) + q * 2 ≤ outSize reqW mw (2 * q) := by unfold outSize; omega
  have gH : (mh : Int) + q * 2 ≤ outSize reqH mh (2 * q) := by unfold outSize; omega
  have dW : (outSize reqW mw (2 * q)).tdiv ((mw : Int) + q * 2) = axisScale reqW mw (2 * q) := by
    rw [Int.tdiv_eq_ediv_of_nonneg (by omega)]; unfold axisScale
    rw [show (mw : Int) + q * 2 = (mw : Int) + 2 * q by omega]
  have dH : (outSize reqH mh (2 * q)).tdiv ((mh : Int) + q * 2) = axisScale reqH mh (2 * q) := by
    rw [Int.tdiv_eq_ediv_of_nonneg (by omega)]; unfold axisScale
    rw [show (mh : Int) + q * 2 = (mh : Int) + 2 * q by omega]
  have n1 : ¬ ((mw : Int) + q * 2 = 0) := by omega
  have n2 : ¬ ((mh : Int) + q * 2 = 0) := by omega
  unfold renderQR goDiv
  simp only [oW, oH, n1, n2, if_false, dW, dH, bind, Except.bind]
  have hmin : (if axisScale reqW mw (2 * q) > axisScale reqH mh (2 * q) then axisScale reqH mh (2 * q)
      else axisScale reqW mw (2 * q)) = qrScale mw mh q reqW reqH := by
    unfold qrScale; split <;> omega
  rw [hmin]
  have tX : (outSize reqW mw (2 * q) - (mw : Int) * qrScale mw mh q reqW reqH).tdiv 2 =
      padOf (outSize reqW mw (2 * q)) mw (qrScale mw mh q reqW reqH) := by
    rw [Int.tdiv_eq_ediv_of_nonneg (by omega)]; rfl
  have tY : (outSize reqH mh (2 * q) - (mh : Int) * qrScale mw mh q reqW reqH).tdiv 2 =
      padOf (outSize reqH mh (2 * q)) mh (qrScale mw mh q reqW reqH) := by
    rw [Int.tdiv_eq_ediv_of_nonneg (by omega)]; rfl
  rw [tX, tY]
  have nb : ¬ (outSize reqW mw (2 * q) < 1 ∨ outSize reqH mh (2 * q) < 1) := by omega
  simp only [nb, if_false]

/-- clause "the returned image measures max(requested, symbol + quiet zone) on each axis" -/
theorem renderQR_dims (hq : 0 ≤ q) (hw : 1 ≤ mw) (hh : 1 ≤ mh) :
    ∃ img, renderQR mw mh m q reqW reqH = .ok img ∧
      img.w = max reqW ((mw : Int) + 2 * q) ∧ img.h = max reqH ((mh : Int) + 2 * q) :=
  ⟨_, renderQR_eq mw mh m q reqW reqH hq hw hh, rfl, rfl⟩

/-- clause "largest integer module size that fits … centred with the leftover split evenly …
    leaving at least the configured quiet zone (the margin in modules on every side)":
    with s = qrScale and pad = padOf: s ≥ 1; s·(n+2q) fits on both axes and (s+1)·(n+2q) does not fit on
    at least one; the left/top pad is the right/bottom pad or one pixel less; every side keeps ≥ q·s. -/
theorem renderQR_quiet (hq : 0 ≤ q) (hw : 1 ≤ mw) (hh : 1 ≤ mh) :
    let W := outSize reqW mw (2 * q); let H := outSize reqH mh (2 * q)
    let s := qrScale mw mh q reqW reqH
    let padX := padOf W mw s; let padY := padOf H mh s
    1 ≤ s ∧ s * ((mw : Int) + 2 * q) ≤ W ∧ s * ((mh : Int) + 2 * q) ≤ H ∧
    (W < (s + 1) * ((mw : Int) + 2 * q) ∨ H < (s + 1) * ((mh : Int) + 2 * q)) ∧
    q * s ≤ padX ∧ q * s ≤ W - (padX + (mw : Int) * s) ∧
    q * s ≤ padY ∧ q * s ≤ H - (padY + (mh : Int) * s) ∧
    padX ≤ W - (padX + (mw : Int) * s) ∧ W - (padX + (mw : Int) * s) ≤ padX + 1 ∧
    padY ≤ H - (padY + (mh : Int) * s) ∧ H - (padY + (mh : Int) * s) ≤ padY + 1 := by
  intro W H s padX padY
  obtain ⟨ax1, ax2, ax3⟩ := axis_facts reqW mw (2 * q) hw (by omega)
  obtain ⟨ay1, ay2, ay3⟩ := axis_facts reqH mh (2 * q) hh (by omega)
  have hs1 : 1 ≤ s := by show 1 ≤ qrScale mw mh q reqW reqH; unfold qrScale; omega
  have hsx : s ≤ axisScale reqW mw (2 * q) := by show qrScale mw mh q reqW reqH ≤ _; unfold qrScale; omega
  have hsy : s ≤ axisScale reqH mh (2 * q) := by show qrScale mw mh q reqW reqH ≤ _; unfold qrScale; omega
  obtain ⟨px1, px2, px3⟩ := pad_facts W mw (2 * q) s _ (by omega) hs1 hsx ax2
  obtain ⟨py1, py2, py3⟩ := pad_facts H mh (2 * q) s _ (by omega) hs1 hsy ay2
  have eq : 2 * q * s = 2 * (q * s) := Int.mul_assoc 2 q s
  have fx : s * ((mw : Int) + 2 * q) = (mw : Int) * s + 2 * q * s := by
    rw [Int.mul_add, Int.mul_comm s mw, Int.mul_comm s (2 * q)]
  have fy : s * ((mh : Int) + 2 * q) = (mh : Int) * s + 2 * q * s := by
    rw [Int.mul_add, Int.mul_comm s mh, Int.mul_comm s (2 * q)]
  have hmax : s = axisScale reqW mw (2 * q) ∨ s = axisScale reqH mh (2 * q) := by
    show qrScale mw mh q reqW reqH = _ ∨ qrScale mw mh q reqW reqH = _; unfold qrScale; omega
  have hX : padX = (W - (mw : Int) * s) / 2 := rfl
  have hY : padY = (H - (mh : Int) * s) / 2 := rfl
  refine ⟨hs1, by omega, by omega, ?_, by omega, by omega, by omega, by omega, by omega, by omega,
    by omega, by omega⟩
  rcases hmax with h | h
  · left; rw [h]; exact ax3
  · right; rw [h]; exact ay3

/-- clause "every module as a uniform block of that size … and everything else is white":
    pixel(x,y) is black iff (x,y) lies in the symbol area and module(⌊(x−padX)/s⌋, ⌊(y−padY)/s⌋) is dark. -/
theorem renderQR_pixel (hq : 0 ≤ q) (hw : 1 ≤ mw) (hh : 1 ≤ mh) :
    ∃ img, renderQR mw mh m q reqW reqH = .ok img ∧
      let s := qrScale mw mh q reqW reqH
      let padX := padOf img.w mw s; let padY := padOf img.h mh s
      ∀ x y : Int, img.px x y = true ↔
        (padX ≤ x ∧ x < padX + (mw : Int) * s ∧ padY ≤ y ∧ y < padY + (mh : Int) * s ∧
          m ((x - padX) / s).toNat ((y - padY) / s).toNat = true) := by
  refine ⟨_, renderQR_eq mw mh m q reqW reqH hq hw hh, ?_⟩
  intro s padX padY x y
  obtain ⟨hs1, -, -, -, qx1, qx2, qy1, qy2, -⟩ := renderQR_quiet mw mh q reqW reqH hq hw hh
  have : 0 ≤ q * qrScale mw mh q reqW reqH := Int.mul_nonneg hq (by omega)
  exact grid_px mw mh m _ _ _ _ _ hs1 (by omega) (by omega) (by omega) (by omega) x y

/-- clause "sampling the centre of each module block gives back exactly the module matrix" -/
theorem renderQR_sample_centres_recover (hq : 0 ≤ q) (hw : 1 ≤ mw) (hh : 1 ≤ mh) :
    ∃ img, renderQR mw mh m q reqW reqH = .ok img ∧
      let s := qrScale mw mh q reqW reqH
      let padX := padOf img.w mw s; let padY := padOf img.h mh s
      ∀ i j : Nat, i < mw → j < mh →
        img.px (padX + (i : Int) * s + s / 2) (padY + (j : Int) * s + s / 2) = m i j := by
  obtain ⟨img, himg, hpx⟩ := renderQR_pixel mw mh m q reqW reqH hq hw hh
  refine ⟨img, himg, ?_⟩
  obtain ⟨hs1, -⟩ := renderQR_quiet mw mh q reqW reqH hq hw hh
  dsimp only at hpx hs1 ⊢
  generalize qrScale mw mh q reqW reqH = s at hpx hs1 ⊢
  generalize padOf img.w mw s = padX at hpx ⊢
  generalize padOf img.h mh s = padY at hpx ⊢
  exact centres_of_pixel mw mh m img s padX padY hs1 hpx

end QR

/-! ## Data Matrix -/

section DM
variable (mw mh : Nat) (m : Nat → Nat → Bool) (reqW reqH : Int)

/-- "the symbol fits in both directions" -/
def dmFits (mw mh : Nat) (reqW reqH : Int) : Bool := decide ((mw : Int) ≤ reqW) && decide ((mh : Int) ≤ reqH)
/-- requested size when the symbol fits in both directions, the bare symbol's size otherwise -/
def dmOut (mw mh : Nat) (reqW reqH : Int) (req : Int) (n : Nat) : Int :=
  if dmFits mw mh reqW reqH then req else (n : Int)
/-- Data Matrix module size: min over both axes, no quiet zone -/
def dmScale (mw mh : Nat) (reqW reqH : Int) : Int := min (axisScale reqW mw 0) (axisScale reqH mh 0)

/-- when the request is too small on some axis the module size is 1 -/
theorem dmScale_small (hw : 1 ≤ mw) (hh : 1 ≤ mh) (h : dmFits mw mh reqW reqH = false) :
    dmScale mw mh reqW reqH = 1 := by
  obtain ⟨ax1, ax2, ax3⟩ := axis_facts reqW mw 0 hw (by omega)
  obtain ⟨ay1, ay2, ay3⟩ := axis_facts reqH mh 0 hh (by omega)
  simp only [dmFits, Bool.and_eq_false_iff, decide_eq_false_iff_not] at h
  unfold dmScale
  rcases h with h | h
  · have : outSize reqW mw 0 = (mw : Int) := by unfold outSize; omega
    rw [this] at ax2 ax3
    have e : axisScale reqW mw 0 = 1 := by
      have := Int.ediv_emod_unique (a := (mw : Int)) (b := (mw : Int)) (r := 0) (q := 1) (by omega)
      unfold axisScale outSize
      rw [show max reqW ((mw : Int) + 0) = (mw : Int) by omega, show (mw : Int) + 0 = (mw : Int) by omega]
      exact (this.2 ⟨by omega, by omega, by omega⟩).1
    omega
  · have e : axisScale reqH mh 0 = 1 := by
      have := Int.ediv_emod_unique (a := (mh : Int)) (b := (mh : Int)) (r := 0) (q := 1) (by omega)
      unfold axisScale outSize
      rw [show max reqH ((mh : Int) + 0) = (mh : Int) by omega, show (mh : Int) + 0 = (mh : Int) by omega]
      exact (this.2 ⟨by omega, by omega, by omega⟩).1
    omega

/-- closed form of the model's result (both branches) -/
theorem renderDM_eq (hw : 1 ≤ mw) (hh : 1 ≤ mh) :
    renderDM mw mh m reqW reqH =
      .ok ⟨dmOut mw mh reqW reqH reqW mw, dmOut mw mh reqW reqH reqH mh,
           rowLoop m mw (padOf (dmOut mw mh reqW reqH reqW mw) mw (dmScale mw mh reqW reqH))
             (dmScale mw mh reqW reqH) (dmScale mw mh reqW reqH) (dmScale mw mh reqW reqH) mh 0
             (padOf (dmOut mw mh reqW reqH reqH mh) mh (dmScale mw mh reqW reqH))⟩ := by
  obtain ⟨ax1, ax2, -⟩ := axis_facts reqW mw 0 hw (by omega)
  obtain ⟨ay1, ay2, -⟩ := axis_facts reqH mh 0 hh (by omega)
  have oW : (if reqW < (mw : Int) then (mw : Int) else reqW) = outSize reqW mw 0 := by
    unfold outSize; split <;> omega
  have oH : (if reqH < (mh : Int) then (mh : Int) else reqH) = outSize reqH mh 0 := by
    unfold outSize; split <;> omega
  have gW : (mw : Int) ≤ outSize reqW mw 0 := by unfold outSize; omega
  have gH : (mh : Int) ≤ outSize reqH mh 0 := by unfold outSize; omega
  have dW : (outSize reqW mw 0).tdiv (mw : Int) = axisScale reqW mw 0 := by
    rw [Int.tdiv_eq_ediv_of_nonneg (by omega)]; unfold axisScale
    rw [show (mw : Int) + 0 = (mw : Int) by omega]
  have dH : (outSize reqH mh 0).tdiv (mh : Int) = axisScale reqH mh 0 := by
    rw [Int.tdiv_eq_ediv_of_nonneg (by omega)]; unfold axisScale
    rw [show (mh : Int) + 0 = (mh : Int) by omega]
  have n1 : ¬ ((mw : Int) = 0) := by omega
  have n2 : ¬ ((mh : Int) = 0) := by omega
  unfold renderDM goDiv
  simp only [oW, oH, n1, n2, if_false, dW, dH, bind, Except.bind]
  have hmin : (if axisScale reqH mh 0 < axisScale reqW mw 0 then axisScale reqH mh 0
      else axisScale reqW mw 0) = dmScale mw mh reqW reqH := by
    unfold dmScale; split <;> omega
  rw [hmin]
  cases hf : dmFits mw mh reqW reqH with
  | true =>
    have hf' := hf
    simp only [dmFits, Bool.and_eq_true, decide_eq_true_eq] at hf'
    have sm : (decide (reqH < (mh : Int)) || decide (reqW < (mw : Int))) = false := by
      simp only [Bool.or_eq_false_iff, decide_eq_false_iff_not]; omega
    have hs1 : 1 ≤ dmScale mw mh reqW reqH := by unfold dmScale; omega
    have eW : outSize reqW mw 0 = reqW := by unfold outSize; omega
    have eH : outSize reqH mh 0 = reqH := by unfold outSize; omega
    obtain ⟨px1, px2, px3⟩ := pad_facts (outSize reqW mw 0) mw 0 _ _ (by omega) hs1
      (by unfold dmScale; omega) ax2
    obtain ⟨py1, py2, py3⟩ := pad_facts (outSize reqH mh 0) mh 0 _ _ (by omega) hs1
      (by unfold dmScale; omega) ay2
    simp only [sm, dmOut, hf, if_true, eW, eH, Bool.false_eq_true, if_false]
    rw [eW] at px3; rw [eH] at py3
    rw [Int.tdiv_eq_ediv_of_nonneg (by omega), Int.tdiv_eq_ediv_of_nonneg (by omega)]
    have nb : ¬ (reqW < 1 ∨ reqH < 1) := by omega
    simp only [nb, if_false, padOf]
  | false =>
    have hf' := hf
    simp only [dmFits, Bool.and_eq_false_iff, decide_eq_false_iff_not] at hf'
    have sm : (decide (reqH < (mh : Int)) || decide (reqW < (mw : Int))) = true := by
      simp only [Bool.or_eq_true, decide_eq_true_eq]; omega
    have s1 := dmScale_small mw mh reqW reqH hw hh hf
    simp only [sm, dmOut, hf, if_true, Bool.false_eq_true, if_false, s1, padOf]
    have nb : ¬ ((mw : Int) < 1 ∨ (mh : Int) < 1) := by omega
    simp only [nb, if_false]
    have z1 : ((mw : Int) - (mw : Int) * 1) / 2 = 0 := by omega
    have z2 : ((mh : Int) - (mh : Int) * 1) / 2 = 0 := by omega
    rw [z1, z2]

/-- clause "for Data Matrix it has the requested size when the symbol fits in both directions and the
    bare symbol's size otherwise" -/
theorem renderDM_dims (hw : 1 ≤ mw) (hh : 1 ≤ mh) :
    ∃ img, renderDM mw mh m reqW reqH = .ok img ∧
      (((mw : Int) ≤ reqW ∧ (mh : Int) ≤ reqH) → img.w = reqW ∧ img.h = reqH) ∧
      (¬ ((mw : Int) ≤ reqW ∧ (mh : Int) ≤ reqH) → img.w = (mw : Int) ∧ img.h = (mh : Int)) := by
  refine ⟨_, renderDM_eq mw mh m reqW reqH hw hh, ?_, ?_⟩
  · intro h
    have : dmFits mw mh reqW reqH = true := by simp [dmFits, h]
    simp [dmOut, this]
  · intro h
    have : dmFits mw mh reqW reqH = false := by
      simp only [dmFits, Bool.and_eq_false_iff, decide_eq_false_iff_not]; omega
    simp [dmOut, this]

/-- scale, fit, maximality and centring for Data Matrix (quiet zone is zero modules):
    s ≥ 1, the s-scaled symbol fits, s is the largest such size when the request fits, the symbol is
    centred with the leftover split evenly (pads ≥ 0). -/
theorem renderDM_quiet (hw : 1 ≤ mw) (hh : 1 ≤ mh) :
    let W := dmOut mw mh reqW reqH reqW mw; let H := dmOut mw mh reqW reqH reqH mh
    let s := dmScale mw mh reqW reqH
    let padX := padOf W mw s; let padY := padOf H mh s
    1 ≤ s ∧ s * (mw : Int) ≤ W ∧ s * (mh : Int) ≤ H ∧
    (W < (s + 1) * (mw : Int) ∨ H < (s + 1) * (mh : Int)) ∧
    0 ≤ padX ∧ 0 ≤ padY ∧
    padX ≤ W - (padX + (mw : Int) * s) ∧ W - (padX + (mw : Int) * s) ≤ padX + 1 ∧
    padY ≤ H - (padY + (mh : Int) * s) ∧ H - (padY + (mh : Int) * s) ≤ padY + 1 := by
  intro W H s padX padY
  obtain ⟨ax1, ax2, ax3⟩ := axis_facts reqW mw 0 hw (by omega)
  obtain ⟨ay1, ay2, ay3⟩ := axis_facts reqH mh 0 hh (by omega)
  have hX : padX = (W - (mw : Int) * s) / 2 := rfl
  have hY : padY = (H - (mh : Int) * s) / 2 := rfl
  have hsdef : s = dmScale mw mh reqW reqH := rfl
  have hWdef : W = dmOut mw mh reqW reqH reqW mw := rfl
  have hHdef : H = dmOut mw mh reqW reqH reqH mh := rfl
  cases hf : dmFits mw mh reqW reqH with
  | true =>
    have hf' := hf
    simp only [dmFits, Bool.and_eq_true, decide_eq_true_eq] at hf'
    have eW : outSize reqW mw 0 = W := by rw [hWdef]; unfold outSize dmOut; rw [hf]; simp; omega
    have eH : outSize reqH mh 0 = H := by rw [hHdef]; unfold outSize dmOut; rw [hf]; simp; omega
    rw [eW] at ax2 ax3; rw [eH] at ay2 ay3
    have hs1 : 1 ≤ s := by rw [hsdef]; unfold dmScale; omega
    have hsx : s ≤ axisScale reqW mw 0 := by rw [hsdef]; unfold dmScale; omega
    have hsy : s ≤ axisScale reqH mh 0 := by rw [hsdef]; unfold dmScale; omega
    obtain ⟨px1, px2, px3⟩ := pad_facts W mw 0 s _ (by omega) hs1 hsx ax2
    obtain ⟨py1, py2, py3⟩ := pad_facts H mh 0 s _ (by omega) hs1 hsy ay2
    have cx : s * (mw : Int) = (mw : Int) * s := Int.mul_comm _ _
    have cy : s * (mh : Int) = (mh : Int) * s := Int.mul_comm _ _
    have hmax : s = axisScale reqW mw 0 ∨ s = axisScale reqH mh 0 := by
      rw [hsdef]; unfold dmScale; omega
    refine ⟨hs1, by omega, by omega, ?_, by omega, by omega, by omega, by omega, by omega, by omega⟩
    rcases hmax with h | h
    · left; rw [h]; simpa using ax3
    · right; rw [h]; simpa using ay3
  | false =>
    have s1 : s = 1 := dmScale_small mw mh reqW reqH hw hh hf
    have eW : W = (mw : Int) := by rw [hWdef]; unfold dmOut; rw [hf]; simp
    have eH : H = (mh : Int) := by rw [hHdef]; unfold dmOut; rw [hf]; simp
    rw [s1] at hX hY ⊢
    rw [eW] at hX ⊢; rw [eH] at hY ⊢
    refine ⟨by omega, by omega, by omega, ?_, by omega, by omega, by omega, by omega, by omega, by omega⟩
    left; omega

/-- pixel formula for Data Matrix, both branches -/
theorem renderDM_pixel (hw : 1 ≤ mw) (hh : 1 ≤ mh) :
    ∃ img, renderDM mw mh m reqW reqH = .ok img ∧
      let s := dmScale mw mh reqW reqH
      let padX := padOf img.w mw s; let padY := padOf img.h mh s
      ∀ x y : Int, img.px x y = true ↔
        (padX ≤ x ∧ x < padX + (mw : Int) * s ∧ padY ≤ y ∧ y < padY + (mh : Int) * s ∧
          m ((x - padX) / s).toNat ((y - padY) / s).toNat = true) := by
  refine ⟨_, renderDM_eq mw mh m reqW reqH hw hh, ?_⟩
  intro s padX padY x y
  obtain ⟨hs1, f1, f2, -, p1, p2, c1, c2, c3, c4⟩ := renderDM_quiet mw mh reqW reqH hw hh
  exact grid_px mw mh m _ _ _ _ _ hs1 p1 p2 (by omega) (by omega) x y

/-- too small a request yields the bare symbol: pixel (x,y) = module (x,y) -/
theorem renderDM_bare (hw : 1 ≤ mw) (hh : 1 ≤ mh) (hsmall : ¬ ((mw : Int) ≤ reqW ∧ (mh : Int) ≤ reqH)) :
    ∃ img, renderDM mw mh m reqW reqH = .ok img ∧ img.w = (mw : Int) ∧ img.h = (mh : Int) ∧
      ∀ i j : Nat, i < mw → j < mh → img.px (i : Int) (j : Int) = m i j := by
  obtain ⟨img, himg, hpx⟩ := renderDM_pixel mw mh m reqW reqH hw hh
  obtain ⟨img', himg', -, hd⟩ := renderDM_dims mw mh m reqW reqH hw hh
  have : img' = img := by rw [himg] at himg'; cases himg'; rfl
  subst this
  obtain ⟨dw, dh⟩ := hd hsmall
  refine ⟨img', himg, dw, dh, ?_⟩
  have hf : dmFits mw mh reqW reqH = false := by
    simp only [dmFits, Bool.and_eq_false_iff, decide_eq_false_iff_not]; omega
  have s1 := dmScale_small mw mh reqW reqH hw hh hf
  dsimp only at hpx
  rw [s1, dw, dh] at hpx
  have z1 : padOf (mw : Int) mw 1 = 0 := by unfold padOf; omega
  have z2 : padOf (mh : Int) mh 1 = 0 := by unfold padOf; omega
  rw [z1, z2] at hpx
  intro i j hi hj
  have h := hpx (i : Int) (j : Int)
  simp only [Int.sub_zero, Int.ediv_one, Int.toNat_natCast, Int.mul_one, Int.zero_add] at h
  cases hm : m i j with
  | true => rw [h]; exact ⟨by omega, by omega, by omega, by omega, hm⟩
  | false =>
    cases hp : img'.px (i : Int) (j : Int) with
    | false => rfl
    | true => rw [hp] at h; have := (h.1 rfl).2.2.2.2; rw [hm] at this; cases this

/-- centre sampling recovers the module matrix (both branches) -/
theorem renderDM_sample_centres_recover (hw : 1 ≤ mw) (hh : 1 ≤ mh) :
    ∃ img, renderDM mw mh m reqW reqH = .ok img ∧
      let s := dmScale mw mh reqW reqH
      let padX := padOf img.w mw s; let padY := padOf img.h mh s
      ∀ i j : Nat, i < mw → j < mh →
        img.px (padX + (i : Int) * s + s / 2) (padY + (j : Int) * s + s / 2) = m i j := by
  obtain ⟨img, himg, hpx⟩ := renderDM_pixel mw mh m reqW reqH hw hh
  refine ⟨img, himg, ?_⟩
  obtain ⟨hs1, -⟩ := renderDM_quiet mw mh reqW reqH hw hh
  dsimp only at hpx hs1 ⊢
  generalize dmScale mw mh reqW reqH = s at hpx hs1 ⊢
  generalize padOf img.w mw s = padX at hpx ⊢
  generalize padOf img.h mh s = padY at hpx ⊢
  exact centres_of_pixel mw mh m img s padX padY hs1 hpx

end DM

/-! ## 1-D -/

section OneD
variable (code : List Bool) (reqW reqH margin : Int)

/-- closed form of the model's result: width max(req, n+margin), height max(req, 1), one full-height bar
    of width s = ⌊out/(n+margin)⌋ per dark module, starting at ⌊(out − n·s)/2⌋ -/
theorem render1D_eq (hm : 0 ≤ margin) (hn : 1 ≤ code.length) :
    render1D code reqW reqH margin =
      .ok ⟨outSize reqW code.length margin, max 1 reqH,
           barLoop (axisScale reqW code.length margin) (max 1 reqH) (axisScale reqW code.length margin) code
             (padOf (outSize reqW code.length margin) code.length (axisScale reqW code.length margin))⟩ := by
  obtain ⟨ax1, ax2, -⟩ := axis_facts reqW code.length margin hn hm
  obtain ⟨px1, px2, px3⟩ := pad_facts (outSize reqW code.length margin) code.length margin _ _ hm ax1
    (Int.le_refl _) ax2
  have oW : (if reqW ≥ (code.length : Int) + margin then reqW else (code.length : Int) + margin) =
      outSize reqW code.length margin := by unfold outSize; split <;> omega
  have oH : (if (1 : Int) ≥ reqH then 1 else reqH) = max 1 reqH := by split <;> omega
  have gW : (code.length : Int) + margin ≤ outSize reqW code.length margin := by unfold outSize; omega
  have dW : (outSize reqW code.length margin).tdiv ((code.length : Int) + margin) =
      axisScale reqW code.length margin := by
    rw [Int.tdiv_eq_ediv_of_nonneg (by omega)]; rfl
  have n1 : ¬ ((code.length : Int) + margin = 0) := by omega
  unfold render1D goDiv
  simp only [oW, oH, n1, if_false, dW, bind, Except.bind]
  rw [Int.tdiv_eq_ediv_of_nonneg (by omega)]
  have nb : ¬ (outSize reqW code.length margin < 1 ∨ max 1 reqH < 1) := by omega
  simp only [nb, if_false, padOf]

/-- clause "for … 1-D writers the returned image measures max(requested, symbol + quiet zone)" (height: ≥ 1) -/
theorem render1D_dims (hm : 0 ≤ margin) (hn : 1 ≤ code.length) :
    ∃ img, render1D code reqW reqH margin = .ok img ∧
      img.w = max reqW ((code.length : Int) + margin) ∧ img.h = max 1 reqH :=
  ⟨_, render1D_eq code reqW reqH margin hm hn, rfl, rfl⟩

/-- clause "largest integer module size that fits, … centred with the leftover split evenly, … leaving
    at least the configured quiet zone (1-D: the margin in modules shared between the two sides)" -/
theorem render1D_quiet (hm : 0 ≤ margin) (hn : 1 ≤ code.length) :
    let W := outSize reqW code.length margin
    let s := axisScale reqW code.length margin
    let left := padOf W code.length s
    let right := W - (left + (code.length : Int) * s)
    1 ≤ s ∧ s * ((code.length : Int) + margin) ≤ W ∧ W < (s + 1) * ((code.length : Int) + margin) ∧
    0 ≤ left ∧ margin * s ≤ left + right ∧ left ≤ right ∧ right ≤ left + 1 := by
  intro W s left right
  obtain ⟨ax1, ax2, ax3⟩ := axis_facts reqW code.length margin hn hm
  obtain ⟨px1, px2, px3⟩ := pad_facts W code.length margin s _ hm ax1 (Int.le_refl _) ax2
  have hL : left = (W - (code.length : Int) * s) / 2 := rfl
  have hR : right = W - (left + (code.length : Int) * s) := rfl
  exact ⟨ax1, ax2, ax3, by omega, by omega, by omega, by omega⟩

/-- clause "every module as … a full-height bar … and everything else is white" -/
theorem render1D_pixel (hm : 0 ≤ margin) (hn : 1 ≤ code.length) :
    ∃ img, render1D code reqW reqH margin = .ok img ∧
      let s := axisScale reqW code.length margin
      let left := padOf img.w code.length s
      ∀ x y : Int, img.px x y = true ↔
        (left ≤ x ∧ x < left + (code.length : Int) * s ∧ 0 ≤ y ∧ y < img.h ∧
          code[((x - left) / s).toNat]? = some true) := by
  refine ⟨_, render1D_eq code reqW reqH margin hm hn, ?_⟩
  intro s left x y
  obtain ⟨hs1, -, -, l0, -, lr, -⟩ := render1D_quiet code reqW margin hm hn
  exact bars_px code _ _ _ _ hs1 l0 (by omega) (by omega) x y

/-- clause "sampling the centre of each module block gives back exactly the module matrix" (any row) -/
theorem render1D_sample_centres_recover (hm : 0 ≤ margin) (hn : 1 ≤ code.length) :
    ∃ img, render1D code reqW reqH margin = .ok img ∧
      let s := axisScale reqW code.length margin
      let left := padOf img.w code.length s
      ∀ (i : Nat) (y : Int), i < code.length → 0 ≤ y → y < img.h →
        some (img.px (left + (i : Int) * s + s / 2) y) = code[i]? := by
  obtain ⟨img, himg, hpx⟩ := render1D_pixel code reqW reqH margin hm hn
  refine ⟨img, himg, ?_⟩
  obtain ⟨hs1, -⟩ := render1D_quiet code reqW margin hm hn
  dsimp only at hpx hs1 ⊢
  generalize axisScale reqW code.length margin = s at hpx hs1 ⊢
  generalize padOf img.w code.length s = left at hpx ⊢
  intro i y hi hy0 hyH
  have hs0 : 0 < s := by omega
  have ei : ((i : Int) + 1) * s ≤ (code.length : Int) * s :=
    Int.mul_le_mul_of_nonneg_right (by omega) (by omega)
  rw [Int.add_mul] at ei
  have ni : 0 ≤ (i : Int) * s := Int.mul_nonneg (by omega) (by omega)
  have bi : ((left + (i : Int) * s + s / 2 - left) / s).toNat = i :=
    (block_index s _ i hs0 (by omega)).1 ⟨by omega, by omega⟩
  have h := hpx (left + (i : Int) * s + s / 2) y
  rw [bi] at h
  rw [List.getElem?_eq_getElem hi]
  cases hc : code[i] with
  | true =>
    have : code[i]? = some true := by rw [List.getElem?_eq_getElem hi, hc]
    rw [h.2 ⟨by omega, by omega, hy0, hyH, this⟩]
  | false =>
    cases hp : img.px (left + (i : Int) * s + s / 2) y with
    | false => rfl
    | true =>
      rw [hp] at h
      have := (h.1 rfl).2.2.2.2
      rw [List.getElem?_eq_getElem hi, hc] at this
      cases this

end OneD

/-! ## non-vacuity: concrete instances (evaluated by the kernel) -/

/-- a 3x3 "symbol" with a dark diagonal -/
def diag3 : Nat → Nat → Bool := fun i j => i == j

/-- QR-style: n = 3, q = 1 (so n+2q = 5), request 12x17 → 12x17 image, s = min(2,3) = 2, pads 3 and 5 -/
example : (renderQR 3 3 diag3 1 12 17).map (fun img => (img.w, img.h, img.rows.map showBits)) =
    .ok (12, 17, ["000000000000", "000000000000", "000000000000", "000000000000", "000000000000",
                  "000110000000", "000110000000", "000001100000", "000001100000", "000000011000",
                  "000000011000", "000000000000", "000000000000", "000000000000", "000000000000",
                  "000000000000", "000000000000"]) := by decide
example : qrScale 3 3 1 12 17 = 2 ∧ padOf 12 3 2 = 3 ∧ padOf 17 3 2 = 5 := by decide
/-- Data Matrix: fits (7x4 → s = 1, pads 2 and 0) and too small (2x9 → bare 3x3 symbol) -/
example : (renderDM 3 3 diag3 7 4).map (fun img => (img.w, img.h, img.rows.map showBits)) =
    .ok (7, 4, ["0010000", "0001000", "0000100", "0000000"]) := by decide
example : (renderDM 3 3 diag3 2 9).map (fun img => (img.w, img.h, img.rows.map showBits)) =
    .ok (3, 3, ["100", "010", "001"]) := by decide
/-- 1-D: code 101, margin 2 (n+margin = 5), request 11x2 → s = 2, left pad ⌊(11−6)/2⌋ = 2, right pad 3 -/
example : (render1D [true, false, true] 11 2 2).map (fun img => (img.w, img.h, img.rows.map showBits)) =
    .ok (11, 2, ["00110011000", "00110011000"]) := by decide
/-- the hypotheses are needed: margin = −len(code) divides by zero (D13), a negative QR margin can
    yield an image smaller than the symbol -/
example : render1D [true, false, true] 0 0 (-3) = .error (.panic "integer divide by zero") := by decide
example : (renderQR 3 3 diag3 (-1) 0 0).map (fun img => (img.w, img.h)) = .ok (1, 1) := by decide

end Gzx.Properties.C14
