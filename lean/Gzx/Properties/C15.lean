/-
  C15 — character sets and ECI.  Property theorems only.
  Model: Gzx/Model/ECI.lean + the ECI branch of Gzx/Model/QRDecoder.lean (tied to
  common/character_set_eci.go, common/string_utils.go, qrcode/decoder/decoded_bit_stream_parser.go,
  qrcode/encoder/encoder.go by the `c15` correspondence suites).  Text codecs are parameters: a
  charset is a name here; "the text returns" is the codec assumption dec(enc t) = t, outside Lean.
-/
import Gzx.Proofs.ECILemmas
import Gzx.Proofs.GuessLemmas
import Gzx.Proofs.QRSegments
namespace Gzx.Properties.C15
open Gzx Gzx.QRDec Gzx.ECI Gzx.QRPack

/-! ## registry -/

/-- Clause "the ECI registry is consistent — every registered value, name and alias resolves to the same
    entry and back", for every registry that passes the decidable check `consistent` (per-run
    obligation `Obligations.C15.registry_consistent` for the regenerated registry): each value of
    each entry resolves to that entry through `GetCharacterSetECIByValue`, each of its names, aliases
    and its IANA name through `GetCharacterSetECIByName`, and the primary value (the one the encoder
    writes) is below 128, so the 8-bit ECI form of `appendECI` is lossless. -/
theorem registry_consistent (reg : Registry) (h : consistent reg = true) (e : Entry) (he : e ∈ reg) :
    (∀ v ∈ e.values, byValue reg (Int.ofNat v) = .ok (some e)) ∧
    (∀ n ∈ e.allNames, byName reg n = some e) ∧
    (∃ v, e.value = .ok v ∧ v < 128 ∧ v ∈ e.values) ∧ e.iana ≠ "" := by
  unfold consistent at h
  have h' := List.all_eq_true.mp h e he
  simp only [Bool.and_eq_true, List.all_eq_true, decide_eq_true_eq, beq_iff_eq] at h'
  obtain ⟨⟨h1, h2⟩, h3⟩ := h'
  refine ⟨?_, h3, ?_, ?_⟩
  · intro v hv
    have ⟨hlt, hl⟩ := h2 v hv
    unfold byValue
    have : ¬ ((Int.ofNat v) < 0 ∨ (Int.ofNat v) ≥ 900) := by
      simp only [Int.ofNat_eq_natCast]; omega
    simp only [this, if_false]
    rw [show (Int.ofNat v).toNat = v from rfl, hl]
  · cases hvs : e.values with
    | nil => rw [hvs] at h1; simp at h1
    | cons v vs =>
      rw [hvs] at h1
      simp only [Bool.and_eq_true, decide_eq_true_eq] at h1
      exact ⟨v, by simp [Entry.value, hvs], h1.1, by simp⟩
  · cases hvs : e.values with
    | nil => rw [hvs] at h1; simp at h1
    | cons v vs =>
      rw [hvs] at h1
      simp only [Bool.and_eq_true, bne_iff_ne, ne_eq] at h1
      exact h1.2

theorem lookup_of_consistent (reg : Registry) (h : consistent reg = true) (e : Entry) (he : e ∈ reg)
    (v : Nat) (hv : v ∈ e.values) : v < 900 ∧ lookupValue reg v = some e := by
  unfold consistent at h
  have h' := List.all_eq_true.mp h e he
  simp only [Bool.and_eq_true, List.all_eq_true, decide_eq_true_eq, beq_iff_eq] at h'
  exact h'.1.2 v hv

/-- "and back": a successful lookup by value returns a registered entry that lists the value — an
    unregistered number never yields an entry by accident -/
theorem byValue_sound (reg : Registry) (v : Int) (e : Entry) (h : byValue reg v = .ok (some e)) :
    e ∈ reg ∧ 0 ≤ v ∧ v < 900 ∧ v.toNat ∈ e.values := by
  unfold byValue at h
  split at h
  · cases h
  · rename_i hr
    have hf : lookupValue reg v.toNat = some e := by
      simpa using h
    unfold lookupValue at hf
    have hm := List.mem_of_find?_eq_some hf
    have hp := List.find?_some hf
    refine ⟨List.mem_reverse.mp hm, by omega, by omega, ?_⟩
    simpa using hp

/-- values (and names) of different entries are disjoint: two registered entries sharing a value or a
    name are the same entry -/
theorem values_disjoint (reg : Registry) (h : consistent reg = true) (e f : Entry) (he : e ∈ reg) (hf : f ∈ reg)
    (v : Nat) (hve : v ∈ e.values) (hvf : v ∈ f.values) : e = f := by
  have a := (registry_consistent reg h e he).1 v hve
  have b := (registry_consistent reg h f hf).1 v hvf
  rw [a] at b
  exact Option.some.inj (Except.ok.inj b)

theorem names_disjoint (reg : Registry) (h : consistent reg = true) (e f : Entry) (he : e ∈ reg) (hf : f ∈ reg)
    (n : String) (hne : n ∈ e.allNames) (hnf : n ∈ f.allNames) : e = f := by
  have a := (registry_consistent reg h e he).2.1 n hne
  have b := (registry_consistent reg h f hf).2.1 n hnf
  rw [a] at b
  exact Option.some.inj b

/-- `GetCharacterSetECIByValue` range rule: outside 0..899 is a FormatException -/
theorem byValue_range (reg : Registry) (v : Int) (h : v < 0 ∨ v ≥ 900) : byValue reg v = .error .format := by
  unfold byValue; simp [h]

/-! ## ECI designators -/

/-- Clause "forall ECI numbers 0..999999": every designator in each form the standard allows for it
    (1 byte below 128, 2 bytes below 16384, 3 bytes up to 999999 — indeed below 2^21) parses to
    exactly that number, whatever follows. -/
theorem eci_parse_total (form v : Nat) (rest : List Bool)
    (h : (form = 1 ∧ v < 128) ∨ (form = 2 ∧ v < 16384) ∨ (form = 3 ∧ v ≤ 999999)) :
    parseECIValue (encodeECIValue form v ++ rest) = .ok (v, rest) := by
  rcases h with ⟨rfl, hv⟩ | ⟨rfl, hv⟩ | ⟨rfl, hv⟩
  · exact parseECI_form1 v hv rest
  · exact parseECI_form2 v hv rest
  · exact parseECI_form3 v (by omega) rest

/-- one round of the segment loop on an ECI header: the designator is parsed and looked up; a
    registered number switches the current character set, anything else (≥ 900, or unregistered) is a
    FormatException — never a panic, never another entry -/
theorem parseLoop_eci (reg : Registry) (ver : Nat) (hint : Hint) (fuel : Nat) (st : PSt)
    (form v : Nat) (rest : List Bool)
    (h : (form = 1 ∧ v < 128) ∨ (form = 2 ∧ v < 16384) ∨ (form = 3 ∧ v ≤ 999999)) :
    parseLoop reg ver hint (fuel + 1) st (natToBits 4 7 ++ (encodeECIValue form v ++ rest)) =
      match lookupValue reg v with
      | some e => if v < 900 then parseLoop reg ver hint fuel { st with eci := some e } rest else .error .format
      | none => .error .format := by
  conv => lhs; unfold parseLoop
  have hl : ¬ (natToBits 4 7 ++ (encodeECIValue form v ++ rest)).length < 4 := by
    simp only [List.length_append, natToBits_length]; omega
  simp only [hl, if_false]
  rw [readBitsF_natToBits_lt 4 7 _ (by omega) (by omega) (by decide)]
  simp only [bind, Except.bind, modeForBits, wrapF]
  rw [eci_parse_total form v rest h]
  simp only [byValue]
  by_cases h9 : v < 900
  · have : ¬ ((v : Int) < 0 ∨ (v : Int) ≥ 900) := by omega
    simp only [this, if_false, Int.toNat_natCast, h9, if_true]
    cases lookupValue reg v <;> rfl
  · have : ((v : Int) < 0 ∨ (v : Int) ≥ 900) := by omega
    simp only [this, if_true, h9, if_false]
    cases lookupValue reg v <;> rfl

/-- Clause "an unregistered or out-of-range ECI number in a symbol is a format error" -/
theorem eci_unregistered_is_format_error (reg : Registry) (ver : Nat) (hint : Hint) (fuel : Nat) (st : PSt)
    (form v : Nat) (rest : List Bool)
    (h : (form = 1 ∧ v < 128) ∨ (form = 2 ∧ v < 16384) ∨ (form = 3 ∧ v ≤ 999999))
    (hu : v ≥ 900 ∨ lookupValue reg v = none) :
    parseLoop reg ver hint (fuel + 1) st (natToBits 4 7 ++ (encodeECIValue form v ++ rest)) = .error .format := by
  rw [parseLoop_eci reg ver hint fuel st form v rest h]
  rcases hu with h9 | hn
  · have : ¬ v < 900 := by omega
    cases lookupValue reg v <;> simp [this]
  · rw [hn]

/-- Clause "a QR Code … carries the registered ECI designator and decodes … whatever the decoder would
    otherwise have guessed" (header logic): for an entry `e` of a consistent registry, the header that
    `appendECI` writes is read back by the parser as exactly `e`, which then overrides guess and hint
    for the following byte segment. -/
theorem eci_header_inv (reg : Registry) (hc : consistent reg = true) (e : Entry) (he : e ∈ reg)
    (ver : Nat) (hint : Hint) (fuel : Nat) (st : PSt) (rest : List Bool) :
    ∃ hdr, appendECI e = .ok hdr ∧
      parseLoop reg ver hint (fuel + 1) st (hdr ++ rest) =
        parseLoop reg ver hint fuel { st with eci := some e } rest := by
  obtain ⟨_, _, ⟨v, hv, hlt, hmem⟩, _⟩ := registry_consistent reg hc e he
  refine ⟨natToBits 4 7 ++ natToBits 8 v, by simp [appendECI, hv, bind, Except.bind], ?_⟩
  have hl : lookupValue reg v = some e := (lookup_of_consistent reg hc e he v hmem).2
  have h := parseLoop_eci reg ver hint fuel st 1 v rest (Or.inl ⟨rfl, hlt⟩)
  simp only [encodeECIValue, if_true] at h
  rw [List.append_assoc, h, hl]
  simp [show v < 900 by omega]

/-- Clause "with a character-set hint naming any supported encoding, a QR Code … carries the registered
    ECI designator" (encoder side, `Encoder_encode`): the hint may be the name, any alias or the IANA
    name of an entry `e`; in byte mode the header written is `appendECI e` — the primary value of the
    same entry, although the code finds it again through the IANA name of the charset object. -/
theorem enc_header_carries_designator (reg : Registry) (hc : consistent reg = true) (e : Entry) (he : e ∈ reg)
    (n : String) (hn : n ∈ e.allNames) (isStr : Bool) :
    encCharset reg (some ⟨n, isStr⟩) = .ok (some e) ∧
    encEciHeader reg (some ⟨n, isStr⟩) .byte = appendECI e := by
  obtain ⟨_, hnames, _, hi⟩ := registry_consistent reg hc e he
  have h1 : byName reg n = some e := hnames n hn
  have h2 : byName reg e.iana = some e := hnames e.iana (by simp [Entry.allNames])
  constructor
  · simp [encCharset, h1]
  · simp [encEciHeader, encCharset, h1, bind, Except.bind, hi, byCharset, h2]

/-- an unknown charset name is refused (WriterException) -/
theorem enc_unknown_hint_refused (reg : Registry) (n : String) (h : byName reg n = none) :
    encCharset reg (some ⟨n, true⟩) = .error .writer := by
  simp [encCharset, h]

/-- … and with a current ECI entry the byte segment is decoded with that entry's charset, not with the
    guess and not with the decode-side hint -/
theorem eci_overrides_guess (reg : Registry) (count : Nat) (bits : List Bool) (e : Entry) (hint : Hint)
    (cs : Charset) (bytes : List Nat) (rest : List Bool)
    (h : decodeByte reg count bits (some e) hint = .ok (cs, bytes, rest)) : cs = .named e.name := by
  unfold decodeByte at h
  split at h
  · cases h
  · simp only [bind, Except.bind] at h
    split at h
    · cases h
    · simp only [Except.ok.injEq, Prod.mk.injEq] at h
      exact h.1.symm

/-! ## guessCharset -/

theorem first_byte_lt (chars : List (List Nat)) (h : ∀ c ∈ chars, wfChar c = true) (b : Nat) (rest : List Nat)
    (hb : chars.flatten = b :: rest) : b < 0xF8 := by
  induction chars with
  | nil => simp at hb
  | cons c cs ih =>
    have hc := h c (by simp)
    match c, hc with
    | [a], hc => simp only [wfChar, decide_eq_true_eq] at hc; simp at hb; omega
    | [l, _], hc =>
      simp only [wfChar, Bool.and_eq_true, decide_eq_true_eq] at hc; simp at hb; omega
    | [l, _, _], hc =>
      simp only [wfChar, Bool.and_eq_true, decide_eq_true_eq] at hc; simp at hb; omega
    | [l, _, _, _], hc =>
      simp only [wfChar, Bool.and_eq_true, decide_eq_true_eq] at hc; simp at hb; omega

/-- Clause "without a hint, UTF-8 text decodes as itself" — what `guessCharset` guarantees: a byte
    string made of structurally well-formed UTF-8 characters (every valid UTF-8 string is one) that
    contains at least one multi-byte character is guessed as UTF-8, for every registry and whatever
    the Shift_JIS / ISO-8859-1 statistics of the same bytes say. -/
theorem guess_utf8 (reg : Registry) (chars : List (List Nat)) (h : ∀ c ∈ chars, wfChar c = true)
    (hm : 0 < multiCount chars) : guessCharset reg chars.flatten .none = .ok .utf8 := by
  have hu : Good ((chars.flatten.foldl guessStep {}).u) (0 + multiCount chars) := by
    rw [foldl_guessStep_u]
    exact chars_step chars h {} 0 ⟨rfl, rfl, rfl⟩
  obtain ⟨hcan, hleft, hn⟩ := hu
  have hdec : guessDecide chars.flatten (chars.flatten.foldl guessStep {}) = .utf8 := by
    unfold guessDecide
    have : (chars.flatten.foldl guessStep {}).u.two + (chars.flatten.foldl guessStep {}).u.three +
        (chars.flatten.foldl guessStep {}).u.four > 0 := by omega
    simp [hcan, hleft, this]
  unfold guessCharset
  simp only
  split
  · rename_i x hx
    have := first_byte_lt chars h _ _ hx
    omega
  · rename_i x hx
    have := first_byte_lt chars h _ _ hx
    omega
  · rw [hdec]

/-- … and a 7-bit (ASCII-only) byte string is guessed as ISO-8859-1 (as Shift_JIS when it is empty):
    not UTF-8, but both decode 7-bit bytes to the same characters as UTF-8 does (codec assumption,
    validated by the `c15` single-byte sweeps), so the text still returns. -/
theorem guess_ascii (reg : Registry) (bytes : List Nat) (h : ∀ b ∈ bytes, b < 0x80) :
    guessCharset reg bytes .none = .ok (if bytes = [] then .sjis else .latin1) := by
  have hdec : guessDecide bytes (bytes.foldl guessStep {}) = (if bytes = [] then .sjis else .latin1) := by
    rw [foldl_guessStep_ascii bytes h]
    unfold guessDecide
    have hb : hasUtf8Bom bytes = false := by
      unfold hasUtf8Bom
      split
      · have := h 0xEF (by simp); omega
      · rfl
    simp only [hb]
    cases bytes with
    | nil => simp
    | cons b bs => simp
  unfold guessCharset
  simp only
  split
  · have := h 0xFE (by simp); omega
  · have := h 0xFF (by simp); omega
  · rw [hdec]

/-- what is NOT guaranteed, by counterexample: bytes that are not UTF-8 but happen to scan as UTF-8 are
    taken for UTF-8 (e.g. Latin-1 "Ã©" = C3 A9), and a UTF-8 byte-order mark alone decides for UTF-8 -/
example : guessCharset [] [0xC3, 0xA9] .none = .ok .utf8 := by decide
example : guessCharset [] [0xE9, 0x41] .none = .ok .latin1 := by decide
example : guessCharset [] [0xB1, 0xB2] .none = .ok .sjis := by decide

/-- non-vacuity of `guess_utf8`: "é" followed by "A" -/
example : (∀ c ∈ [[0xC3, 0xA9], [0x41]], wfChar c = true) ∧ 0 < multiCount [[0xC3, 0xA9], [0x41]] := by decide

/-- Clause "decode-side CHARACTER_SET hints are honoured for undesignated byte segments": with a hint
    naming a registered charset the guess is that entry, whatever the bytes are -/
theorem hint_honoured (reg : Registry) (bytes : List Nat) (n : String) (iana : Nat) (e : Entry)
    (h : byName reg n = some e) : guessCharset reg bytes (.name n iana) = .ok (.named e.name) := by
  simp [guessCharset, h]

theorem hint_object_honoured (reg : Registry) (bytes : List Nat) (id : String) :
    guessCharset reg bytes (.object id) = .ok (.object id) := rfl

/-! ## header + payload -/

/-- `eci_roundtrip` (up to the codec): with a CHARACTER_SET hint naming entry `e` by any of its names, the
    encoder's header followed by a byte segment carrying the bytes `bs` (the charset's encoding of the
    text) and a terminator parses to exactly one text segment `(charset of e, bs)` — whatever
    `guessCharset` would have said about `bs` and whatever decode-side hint is given.  With the codec
    assumption dec_e (enc_e t) = t the text returns. -/
theorem eci_roundtrip (reg : Registry) (hc : consistent reg = true) (e : Entry) (he : e ∈ reg)
    (n : String) (hn : n ∈ e.allNames) (isStr : Bool) (ver : Nat) (hint : Hint)
    (bs : List Nat) (hb : ∀ b ∈ bs, b < 256) (hlen : bs.length < 2 ^ countWidth 2 ver)
    (tail : List Bool) (ht : Terminated tail) :
    ∃ hdr, encEciHeader reg (some ⟨n, isStr⟩) .byte = .ok hdr ∧
      parseStream reg (hdr ++ (segment 4 (countWidth 2 ver) bs.length (packBytes bs) ++ tail)) ver hint =
        .ok ⟨[.text (.named e.name) bs], [bs], -1, -1, 2⟩ := by
  obtain ⟨_, _, ⟨v, hv, hlt, hmem⟩, _⟩ := registry_consistent reg hc e he
  have hl : lookupValue reg v = some e := (lookup_of_consistent reg hc e he v hmem).2
  refine ⟨natToBits 4 7 ++ natToBits 8 v, ?_, ?_⟩
  · rw [(enc_header_carries_designator reg hc e he n hn isStr).2]
    simp [appendECI, hv, bind, Except.bind]
  · unfold parseStream
    rw [List.append_assoc]
    have h1 := parseLoop_eci reg ver hint
      (natToBits 4 7 ++ (natToBits 8 v ++ (segment 4 (countWidth 2 ver) bs.length (packBytes bs) ++ tail))).length {}
      1 v (segment 4 (countWidth 2 ver) bs.length (packBytes bs) ++ tail) (Or.inl ⟨rfl, hlt⟩)
    simp only [encodeECIValue, if_true, hl, show v < 900 by omega] at h1
    rw [h1]
    obtain ⟨g, hg⟩ : ∃ g, (natToBits 4 7 ++ (natToBits 8 v ++ (segment 4 (countWidth 2 ver) bs.length (packBytes bs) ++ tail))).length = g + 1 + 1 := by
      refine ⟨(natToBits 4 7 ++ (natToBits 8 v ++ (segment 4 (countWidth 2 ver) bs.length (packBytes bs) ++ tail))).length - 2, ?_⟩
      simp [segment]; omega
    rw [hg, parseLoop_byte_eci reg ver hint (g + 1) _ e rfl bs hb hlen tail,
      parseLoop_terminated reg ver hint g _ tail ht]
    rfl

end Gzx.Properties.C15
