/-
  C16 — BitMatrix and BitArray behave as plain 2-D / 1-D bit containers.
  Property theorems only; helper lemmas live in Gzx/Proofs/Bits*.lean.
  Model: Gzx/Model/Bits.lean (word layer tied to bit_array.go / bit_matrix.go / go_image_bit_matrix.go
  by the `c16 wm` / `c16 wa` correspondence suites; spec layer = the naive containers, compared with
  the real code by the oracle of the same suites).

  Shape of the statements (DESIGN §7 C16):
    representation invariant + arguments in range  ⟹
      the word-level operation does not panic, keeps the invariant, and its result abstracts to the
      result of the naive operation on the abstracted state (`RefinesA` / `RefinesM`);
    queries return what the naive query returns.
  Operations whose Go code has a *checked* error (SetRange, IsRange, AppendBits, Xor, SetRegion) are
  stated for all arguments: the word level returns the same `illegalArg` exactly when the naive
  model does.
-/
import Gzx.Proofs.BitsSeq
namespace Gzx.Properties.C16
open Gzx Gzx.Bits

/-! ## Constructors -/

/-- `NewBitArray(n)`: invariant holds, `n` zero bits. -/
theorem newBitArray_refines (n : Nat) : InvA (WArr.new n) ∧ absA (WArr.new n) = List.replicate n false := by
  obtain ⟨a, b, c⟩ := WMat.new_props n
  refine ⟨a, ?_⟩
  apply absA_eq_of
  · simp [c]
  · intro i hi
    rw [c] at hi
    rw [List.getElem?_replicate, if_pos hi, b]

/-- `NewEmptyBitArray()`: invariant holds, no bits (one spare word). -/
theorem newEmptyBitArray_refines : InvA WArr.empty ∧ absA WArr.empty = [] := by
  refine ⟨⟨by decide, ?_, ?_⟩, rfl⟩
  · intro w hw; simp [WArr.empty, makeArray] at hw; rw [hw]; decide
  · intro g _; exact bitAt_zeros _ _

/-- `NewBitMatrix(w, h)`: same checked error as the naive constructor; otherwise the invariant
    holds and all cells are clear. -/
theorem newBitMatrix_refines (w h : Nat) :
    match SMat.new w h with
    | .ok s => RefinesM (WMat.new w h) s
    | .error e => WMat.new w h = .error e := by
  unfold SMat.new WMat.new
  by_cases hb : w < 1 ∨ h < 1
  · rw [if_pos hb, if_pos hb]
  · rw [if_neg hb, if_neg hb]
    simp only
    have hz : ∀ g, bitAt (List.replicate ((w + 31) / 32 * h) 0) g = false := fun g => bitAt_zeros _ g
    refine ⟨_, rfl, ⟨by show 1 ≤ w; omega, by show 1 ≤ h; omega, rfl, by simp, ?_, ?_⟩, ?_⟩
    · intro v hv; rw [(List.mem_replicate.mp hv).2]; decide
    · intro x y _ _; exact hz _
    · apply absM_eq_of
      · constructor
        · simp
        · intro r hr; rw [(List.mem_replicate.mp hr).2]; simp
      · rfl
      · rfl
      · intro x y hx hy
        have hx' : x < w := hx
        have hy' : y < h := hy
        show _ = bitAt _ _
        rw [hz]
        unfold SMat.get
        simp [hx', hy']

/-- `ParseBoolMapToBitMatrix(image)` for a non-empty rectangular image: same checked error (zero
    columns), otherwise the cells of the image. -/
theorem parseBoolMap_refines (r0 : List Bool) (rest : List (List Bool))
    (hrect : ∀ r ∈ r0 :: rest, r.length = r0.length) :
    match SMat.ofBoolMap (r0 :: rest) with
    | .ok s => RefinesM (WMat.ofBoolMap (r0 :: rest)) s
    | .error e => WMat.ofBoolMap (r0 :: rest) = .error e := WMat.ofBoolMap_refines r0 rest hrect

/-- `ParseBoolMapToBitMatrix` of the empty image is the checked error in both models. -/
theorem parseBoolMap_empty :
    SMat.ofBoolMap [] = .error .illegalArg ∧ WMat.ofBoolMap [] = .error .illegalArg := ⟨rfl, rfl⟩

/-- `ParseStringToBitMatrix(s, set, unset)` for every input: the same error as the naive parser
    (shared tokeniser), otherwise no panic, the invariant, and the same grid. -/
theorem parseString_refines (s set unset : List Nat) :
    match SMat.parse s set unset with
    | .ok g => RefinesM (WMat.parse s set unset) g
    | .error e => WMat.parse s set unset = .error e := WMat.parse_refines s set unset

/-! ## BitArray: operations -/

/-- `Set(i)`, `i < size`. -/
theorem bitarray_set (a : WArr) (i : Nat) (h : InvA a) (hi : i < a.size) :
    RefinesA (a.set i) (SArr.set (absA a) i) := WArr.set_refines a i h hi

/-- `Flip(i)`, `i < size`. -/
theorem bitarray_flip (a : WArr) (i : Nat) (h : InvA a) (hi : i < a.size) :
    RefinesA (a.flip i) (SArr.flip (absA a) i) := WArr.flip_refines a i h hi

/-- `SetBulk(i, v)`, `i < size`, `v` a 32-bit value without bits beyond `size`. -/
theorem bitarray_setBulk (a : WArr) (i v : Nat) (h : InvA a) (hi : i < a.size) (hv : v < W32)
    (hpad : ∀ j, j < 32 → a.size ≤ i / 32 * 32 + j → v.testBit j = false) :
    RefinesA (a.setBulk i v) (SArr.setBulk (absA a) i v) := WArr.setBulk_refines a i v h hi hv hpad

/-- `SetRange(start, end)` for all arguments (checked error included). -/
theorem bitarray_setRange (a : WArr) (s e : Nat) (h : InvA a) :
    match SArr.setRange (absA a) s e with
    | .ok r => RefinesA (a.setRange s e) r
    | .error err => a.setRange s e = .error err := WArr.setRange_refines a s e h

/-- `Clear()`. -/
theorem bitarray_clear (a : WArr) (h : InvA a) :
    InvA a.clear ∧ absA a.clear = SArr.clear (absA a) := WArr.clear_refines a h

/-- `AppendBit(b)` including the growth of the word slice. -/
theorem bitarray_appendBit (a : WArr) (b : Bool) (h : InvA a) :
    RefinesA (a.appendBit b) (SArr.appendBit (absA a) b) := WArr.appendBit_refines a b h

/-- `AppendBits(value, numBits)` for all arguments (checked error for `numBits > 32`). -/
theorem bitarray_appendBits (a : WArr) (value n : Nat) (h : InvA a) :
    match SArr.appendBits (absA a) value n with
    | .ok r => RefinesA (a.appendBits value n) r
    | .error err => a.appendBits value n = .error err := WArr.appendBits_refines a value n h

/-- `AppendBitArray(other)`. -/
theorem bitarray_appendBitArray (a o : WArr) (h : InvA a) (ho : InvA o) :
    RefinesA (a.appendBitArray o) (SArr.appendBitArray (absA a) (absA o)) :=
  WArr.appendBitArray_refines a o h ho

/-- `Xor(other)` for all arguments (checked error for different sizes; arrays of equal size but
    different capacity — the D3 witness — are covered). -/
theorem bitarray_xor (a o : WArr) (h : InvA a) (ho : InvA o) :
    match SArr.xor (absA a) (absA o) with
    | .ok r => RefinesA (a.xor o) r
    | .error err => a.xor o = .error err := WArr.xor_refines a o h ho

/-- `Reverse()` for every size, in particular 0 (D3) and multiples of 32. -/
theorem bitarray_reverse (a : WArr) (h : InvA a) :
    RefinesA a.reverse (SArr.reverse (absA a)) := WArr.reverse_refines a h

/-! ## BitArray: queries -/

/-- `Get(i)`, `i < size`. -/
theorem bitarray_get (a : WArr) (i : Nat) (h : InvA a) (hi : i < a.size) :
    a.get i = .ok (SArr.get (absA a) i) := WArr.get_refines a i h hi

/-- `GetNextSet(from)` for every `from` (also `from ≥ size`). -/
theorem bitarray_getNextSet (a : WArr) (frm : Nat) (h : InvA a) :
    a.getNextSet frm = .ok (SArr.nextSet (absA a) frm) := WArr.getNextSet_refines a frm h

/-- `GetNextUnset(from)` for every `from`. -/
theorem bitarray_getNextUnset (a : WArr) (frm : Nat) (h : InvA a) :
    a.getNextUnset frm = .ok (SArr.nextUnset (absA a) frm) := WArr.getNextUnset_refines a frm h

/-- `IsRange(start, end, value)` for all arguments (checked error included). -/
theorem bitarray_isRange (a : WArr) (s e : Nat) (v : Bool) (h : InvA a) :
    a.isRange s e v = SArr.isRange (absA a) s e v := WArr.isRange_refines a s e v h

/-- `GetSize()` / `GetSizeInBytes()`. -/
theorem bitarray_sizes (a : WArr) :
    a.getSize = SArr.size (absA a) ∧ a.getSizeInBytes = SArr.sizeInBytes (absA a) := by
  simp [WArr.getSize, WArr.getSizeInBytes, SArr.size, SArr.sizeInBytes, absA_length]

/-- `String()`. -/
theorem bitarray_toString (a : WArr) (h : InvA a) : a.toStr = .ok (SArr.toStr (absA a)) :=
  WArr.toStr_refines a h

/-- `ToBytes(bitOffset, array, offset, numBytes)` with all bits and all bytes in range. -/
theorem bitarray_toBytes (a : WArr) (bitOffset : Nat) (array : List Nat) (offset numBytes : Nat)
    (h : InvA a) (hbits : bitOffset + 8 * numBytes ≤ a.size) (harr : offset + numBytes ≤ array.length) :
    a.toBytes bitOffset array offset numBytes =
      .ok (SArr.toBytes (absA a) bitOffset array offset numBytes) :=
  WArr.toBytes_refines a bitOffset array offset numBytes h hbits harr

/-! ## BitArray: arbitrary operation sequences -/

/-- the mutating operations of the BitArray API -/
inductive AOp where
  | set (i : Nat)
  | flip (i : Nat)
  | setBulk (i v : Nat)
  | setRange (s e : Nat)
  | clear
  | appendBit (b : Bool)
  | appendBits (value n : Nat)
  | appendBitArray (o : WArr)
  | xor (o : WArr)
  | reverse

/-- arguments in range, judged on the naive state (an operand array must be a valid array) -/
def AOp.inRange (s : SArr) : AOp → Prop
  | .set i => i < s.length
  | .flip i => i < s.length
  | .setBulk i v => i < s.length ∧ v < W32 ∧ ∀ j, j < 32 → s.length ≤ i / 32 * 32 + j → v.testBit j = false
  | .appendBitArray o => InvA o
  | .xor o => InvA o
  | _ => True

def AOp.stepW (a : WArr) : AOp → Res WArr
  | .set i => a.set i
  | .flip i => a.flip i
  | .setBulk i v => a.setBulk i v
  | .setRange s e => a.setRange s e
  | .clear => .ok a.clear
  | .appendBit b => a.appendBit b
  | .appendBits v n => a.appendBits v n
  | .appendBitArray o => a.appendBitArray o
  | .xor o => a.xor o
  | .reverse => a.reverse

def AOp.stepS (s : SArr) : AOp → Res SArr
  | .set i => .ok (SArr.set s i)
  | .flip i => .ok (SArr.flip s i)
  | .setBulk i v => .ok (SArr.setBulk s i v)
  | .setRange b e => SArr.setRange s b e
  | .clear => .ok (SArr.clear s)
  | .appendBit b => .ok (SArr.appendBit s b)
  | .appendBits v n => SArr.appendBits s v n
  | .appendBitArray o => .ok (SArr.appendBitArray s (absA o))
  | .xor o => SArr.xor s (absA o)
  | .reverse => .ok (SArr.reverse s)

/-- one step of a sequence: a checked error leaves the container unchanged (as in Go), a panic
    aborts -/
def keepOnError {σ : Type} (old : σ) : Res σ → Res σ
  | .ok s => .ok s
  | .error (.panic w) => .error (.panic w)
  | .error _ => .ok old

def runAW : WArr → List AOp → Res WArr
  | a, [] => .ok a
  | a, op :: ops =>
    match keepOnError a (op.stepW a) with
    | .ok a' => runAW a' ops
    | .error e => .error e

def runAS : SArr → List AOp → SArr
  | s, [] => s
  | s, op :: ops =>
    match op.stepS s with
    | .ok s' => runAS s' ops
    | .error _ => runAS s ops

/-- every operation of the sequence has its arguments in range at the moment it is executed -/
def validA : SArr → List AOp → Prop
  | _, [] => True
  | s, op :: ops => op.inRange s ∧ validA (match op.stepS s with | .ok s' => s' | .error _ => s) ops

/-- one in-range step: no panic, same checked error, result refines the naive result -/
theorem aop_step (a : WArr) (op : AOp) (h : InvA a) (hr : op.inRange (absA a)) :
    match op.stepS (absA a) with
    | .ok s' => RefinesA (op.stepW a) s'
    | .error e => op.stepW a = .error e ∧ e = .illegalArg := by
  cases op with
  | set i => exact WArr.set_refines a i h (by simpa [AOp.inRange, absA_length] using hr)
  | flip i => exact WArr.flip_refines a i h (by simpa [AOp.inRange, absA_length] using hr)
  | setBulk i v =>
    simp only [AOp.inRange, absA_length] at hr
    exact WArr.setBulk_refines a i v h hr.1 hr.2.1 hr.2.2
  | setRange s e =>
    have := WArr.setRange_refines a s e h
    simp only [AOp.stepS, AOp.stepW]
    cases hx : SArr.setRange (absA a) s e with
    | ok r => rw [hx] at this; exact this
    | error err => rw [hx] at this; exact ⟨this, SArr.setRange_error hx⟩
  | clear =>
    obtain ⟨c1, c2⟩ := WArr.clear_refines a h
    exact ⟨_, rfl, c1, c2⟩
  | appendBit b => exact WArr.appendBit_refines a b h
  | appendBits v n =>
    have := WArr.appendBits_refines a v n h
    simp only [AOp.stepS, AOp.stepW]
    cases hx : SArr.appendBits (absA a) v n with
    | ok r => rw [hx] at this; exact this
    | error err => rw [hx] at this; exact ⟨this, SArr.appendBits_error hx⟩
  | appendBitArray o => exact WArr.appendBitArray_refines a o h hr
  | xor o =>
    have := WArr.xor_refines a o h hr
    simp only [AOp.stepS, AOp.stepW]
    cases hx : SArr.xor (absA a) (absA o) with
    | ok r => rw [hx] at this; exact this
    | error err => rw [hx] at this; exact ⟨this, SArr.xor_error hx⟩
  | reverse => exact WArr.reverse_refines a h

/-- **BitArray refines the naive bit list**: after any sequence of in-range operations, started
    from a valid array, the word-level run does not panic, the invariant holds, the contents are
    those of the naive run, and every query answers as the naive query does. -/
theorem bitarray_refines_spec (ops : List AOp) : ∀ (a : WArr), InvA a → validA (absA a) ops →
    ∃ a', runAW a ops = .ok a' ∧ InvA a' ∧ absA a' = runAS (absA a) ops ∧
      (∀ i, i < a'.size → a'.get i = .ok (SArr.get (absA a') i)) ∧
      (∀ f, a'.getNextSet f = .ok (SArr.nextSet (absA a') f)) ∧
      (∀ f, a'.getNextUnset f = .ok (SArr.nextUnset (absA a') f)) ∧
      (∀ s e v, a'.isRange s e v = SArr.isRange (absA a') s e v) ∧
      a'.getSize = SArr.size (absA a') ∧ a'.getSizeInBytes = SArr.sizeInBytes (absA a') ∧
      a'.toStr = .ok (SArr.toStr (absA a')) ∧
      (∀ bo arr off n, bo + 8 * n ≤ a'.size → off + n ≤ arr.length →
        a'.toBytes bo arr off n = .ok (SArr.toBytes (absA a') bo arr off n)) := by
  induction ops with
  | nil =>
    intro a h _
    exact ⟨a, rfl, h, rfl, fun i hi => WArr.get_refines a i h hi,
      fun f => WArr.getNextSet_refines a f h, fun f => WArr.getNextUnset_refines a f h,
      fun s e v => WArr.isRange_refines a s e v h, (bitarray_sizes a).1, (bitarray_sizes a).2,
      WArr.toStr_refines a h, fun bo arr off n h1 h2 => WArr.toBytes_refines a bo arr off n h h1 h2⟩
  | cons op ops ih =>
    intro a h hv
    obtain ⟨hr, hrest⟩ := hv
    have hstep := aop_step a op h hr
    unfold runAW runAS
    cases hs : op.stepS (absA a) with
    | ok s' =>
      rw [hs] at hstep hrest
      obtain ⟨a1, e1, i1, b1⟩ := hstep
      rw [e1]
      simp only [keepOnError]
      rw [← b1] at hrest ⊢
      exact ih a1 i1 hrest
    | error e =>
      rw [hs] at hstep hrest
      obtain ⟨e1, e2⟩ := hstep
      rw [e1, e2]
      simp only [keepOnError]
      exact ih a h hrest

/-! ## BitMatrix: operations -/

/-- `Set(x, y)` inside the matrix. -/
theorem bitmatrix_set (m : WMat) (x y : Nat) (h : InvM m) (hx : x < m.width) (hy : y < m.height) :
    RefinesM (m.set x y) ((absM m).set x y) := WMat.set_refines m x y h hx hy

/-- `Unset(x, y)` inside the matrix. -/
theorem bitmatrix_unset (m : WMat) (x y : Nat) (h : InvM m) (hx : x < m.width) (hy : y < m.height) :
    RefinesM (m.unset x y) ((absM m).unset x y) := WMat.unset_refines m x y h hx hy

/-- `Flip(x, y)` inside the matrix. -/
theorem bitmatrix_flip (m : WMat) (x y : Nat) (h : InvM m) (hx : x < m.width) (hy : y < m.height) :
    RefinesM (m.flip x y) ((absM m).flip x y) := WMat.flip_refines m x y h hx hy

/-- `FlipAll()` (with the D2 repair: padding stays clear). -/
theorem bitmatrix_flipAll (m : WMat) (h : InvM m) :
    RefinesM m.flipAll (absM m).flipAll := WMat.flipAll_refines m h

/-- `Clear()`. -/
theorem bitmatrix_clear (m : WMat) (h : InvM m) :
    InvM m.clear ∧ absM m.clear = (absM m).clear := WMat.clear_refines m h

/-- `Xor(mask)` for all masks (checked error for different dimensions). -/
theorem bitmatrix_xor (m mask : WMat) (h : InvM m) (hk : InvM mask) :
    match (absM m).xor (absM mask) with
    | .ok r => RefinesM (m.xor mask) r
    | .error err => m.xor mask = .error err := WMat.xor_refines m mask h hk

/-- `SetRegion(left, top, width, height)` for all non-negative arguments (checked errors included). -/
theorem bitmatrix_setRegion (m : WMat) (l t w ht : Nat) (h : InvM m) :
    match (absM m).setRegion l t w ht with
    | .ok r => RefinesM (m.setRegion l t w ht) r
    | .error err => m.setRegion l t w ht = .error err := WMat.setRegion_refines m l t w ht h

/-- `SetRow(y, row)`, `y < height`, `row` a valid array of exactly `width` bits. -/
theorem bitmatrix_setRow (m : WMat) (y : Nat) (row : WArr) (h : InvM m) (hy : y < m.height)
    (hrow : InvA row) (hsz : row.size = m.width) :
    RefinesM (m.setRow y row) ((absM m).setRow y (absA row)) := WMat.setRow_refines m y row h hy hrow hsz

/-- `Rotate180()` for every width, in particular multiples of 32 (D1). -/
theorem bitmatrix_rotate180 (m : WMat) (h : InvM m) :
    RefinesM m.rotate180 (absM m).rotate180 := WMat.rotate180_refines m h

/-- `Rotate90()` (counter-clockwise; dimensions swap, new row size). -/
theorem bitmatrix_rotate90 (m : WMat) (h : InvM m) :
    RefinesM m.rotate90 (absM m).rotate90 := WMat.rotate90_refines m h

/-! ## BitMatrix: queries -/

/-- `Get(x, y)` for all non-negative coordinates (outside the matrix: `false`). -/
theorem bitmatrix_get (m : WMat) (x y : Nat) (h : InvM m) :
    m.get x y = .ok ((absM m).get x y) := WMat.get_refines m x y h

/-- image view `At(x, y)`. -/
theorem bitmatrix_at (m : WMat) (x y : Nat) (h : InvM m) :
    m.atGray x y = .ok ((absM m).atGray x y) := by
  unfold WMat.atGray SMat.atGray
  rw [WMat.get_refines m x y h]; rfl

/-- `GetRow(y, row)`, `y < height`: the result is a valid array holding row `y` (a supplied array
    that is large enough is reused and keeps its size). -/
theorem bitmatrix_getRow (m : WMat) (y : Nat) (row : Option WArr) (h : InvM m) (hy : y < m.height)
    (hrow : ∀ r, row = some r → InvA r) :
    RefinesA (m.getRow y row) ((absM m).getRow y (row.map absA)) := WMat.getRow_refines m y row h hy hrow

/-- `ToStringWithLineSeparator(set, unset, sep)` (hence `ToString` and `String`). -/
theorem bitmatrix_toString (m : WMat) (h : InvM m) (set unset sep : List Nat) :
    m.toStr set unset sep = .ok ((absM m).toStr set unset sep) := WMat.toStr_refines m h set unset sep

/-- `GetEnclosingRectangle()`: `nil` for an all-clear matrix, otherwise the bounding box
    `[left, top, width, height]` of the set cells (needs the padding to be clear: D2). -/
theorem bitmatrix_enclosingRectangle (m : WMat) (h : InvM m) :
    m.getEnclosingRectangle = .ok (absM m).enclosingRectangle := WMat.encl_refines m h

/-- `GetTopLeftOnBit()`: the first set cell in row-major order (needs the padding to be clear). -/
theorem bitmatrix_topLeftOnBit (m : WMat) (h : InvM m) :
    m.getTopLeftOnBit = .ok (absM m).topLeftOnBit := WMat.topLeft_refines m h

/-- `GetBottomRightOnBit()`: the last set cell in row-major order. -/
theorem bitmatrix_bottomRightOnBit (m : WMat) (h : InvM m) :
    m.getBottomRightOnBit = .ok (absM m).bottomRightOnBit := WMat.bottomRight_refines m h

/-- `GetWidth()` / `GetHeight()` / `GetRowSize()` / `Bounds()`. -/
theorem bitmatrix_dims (m : WMat) (h : InvM m) :
    m.width = (absM m).width ∧ m.height = (absM m).height ∧ m.rowSize = ((absM m).width + 31) / 32 :=
  ⟨rfl, rfl, h.2.2.1⟩

/-! ## BitMatrix: arbitrary operation sequences -/

inductive MOp where
  | set (x y : Nat)
  | unset (x y : Nat)
  | flip (x y : Nat)
  | flipAll
  | clear
  | xor (mask : WMat)
  | setRegion (l t w h : Nat)
  | setRow (y : Nat) (row : WArr)
  | rotate180
  | rotate90

def MOp.inRange (s : SMat) : MOp → Prop
  | .set x y => x < s.width ∧ y < s.height
  | .unset x y => x < s.width ∧ y < s.height
  | .flip x y => x < s.width ∧ y < s.height
  | .xor mask => InvM mask
  | .setRow y row => y < s.height ∧ InvA row ∧ row.size = s.width
  | _ => True

def MOp.stepW (m : WMat) : MOp → Res WMat
  | .set x y => m.set x y
  | .unset x y => m.unset x y
  | .flip x y => m.flip x y
  | .flipAll => m.flipAll
  | .clear => .ok m.clear
  | .xor mask => m.xor mask
  | .setRegion l t w h => m.setRegion l t w h
  | .setRow y row => m.setRow y row
  | .rotate180 => m.rotate180
  | .rotate90 => m.rotate90

def MOp.stepS (s : SMat) : MOp → Res SMat
  | .set x y => .ok (s.set x y)
  | .unset x y => .ok (s.unset x y)
  | .flip x y => .ok (s.flip x y)
  | .flipAll => .ok s.flipAll
  | .clear => .ok s.clear
  | .xor mask => s.xor (absM mask)
  | .setRegion l t w h => s.setRegion l t w h
  | .setRow y row => .ok (s.setRow y (absA row))
  | .rotate180 => .ok s.rotate180
  | .rotate90 => .ok s.rotate90

def runMW : WMat → List MOp → Res WMat
  | m, [] => .ok m
  | m, op :: ops =>
    match keepOnError m (op.stepW m) with
    | .ok m' => runMW m' ops
    | .error e => .error e

def runMS : SMat → List MOp → SMat
  | s, [] => s
  | s, op :: ops =>
    match op.stepS s with
    | .ok s' => runMS s' ops
    | .error _ => runMS s ops

def validM : SMat → List MOp → Prop
  | _, [] => True
  | s, op :: ops => op.inRange s ∧ validM (match op.stepS s with | .ok s' => s' | .error _ => s) ops

theorem mop_step (m : WMat) (op : MOp) (h : InvM m) (hr : op.inRange (absM m)) :
    match op.stepS (absM m) with
    | .ok s' => RefinesM (op.stepW m) s'
    | .error e => op.stepW m = .error e ∧ e = .illegalArg := by
  cases op with
  | set x y => exact WMat.set_refines m x y h hr.1 hr.2
  | unset x y => exact WMat.unset_refines m x y h hr.1 hr.2
  | flip x y => exact WMat.flip_refines m x y h hr.1 hr.2
  | flipAll => exact WMat.flipAll_refines m h
  | clear =>
    obtain ⟨c1, c2⟩ := WMat.clear_refines m h
    exact ⟨_, rfl, c1, c2⟩
  | xor mask =>
    have := WMat.xor_refines m mask h hr
    simp only [MOp.stepS, MOp.stepW]
    cases hx : (absM m).xor (absM mask) with
    | ok r => rw [hx] at this; exact this
    | error err => rw [hx] at this; exact ⟨this, SMat.xor_error hx⟩
  | setRegion l t w ht =>
    have := WMat.setRegion_refines m l t w ht h
    simp only [MOp.stepS, MOp.stepW]
    cases hx : (absM m).setRegion l t w ht with
    | ok r => rw [hx] at this; exact this
    | error err => rw [hx] at this; exact ⟨this, SMat.setRegion_error hx⟩
  | setRow y row => exact WMat.setRow_refines m y row h hr.1 hr.2.1 hr.2.2
  | rotate180 => exact WMat.rotate180_refines m h
  | rotate90 => exact WMat.rotate90_refines m h

/-- **BitMatrix refines the naive grid**: after any sequence of in-range operations (all widths,
    all heights, rotations included) the word-level run does not panic, the invariant holds
    (so padding bits are clear), the cells are those of the naive run, and `Get`, the image view
    `At`, `GetRow` and the dimensions answer as the naive model does. -/
theorem bitmatrix_refines_spec (ops : List MOp) : ∀ (m : WMat), InvM m → validM (absM m) ops →
    ∃ m', runMW m ops = .ok m' ∧ InvM m' ∧ absM m' = runMS (absM m) ops ∧
      (∀ x y, m'.get x y = .ok ((absM m').get x y)) ∧
      (∀ x y, m'.atGray x y = .ok ((absM m').atGray x y)) ∧
      (∀ y row, y < m'.height → (∀ r, row = some r → InvA r) →
        RefinesA (m'.getRow y row) ((absM m').getRow y (row.map absA))) ∧
      m'.getEnclosingRectangle = .ok (absM m').enclosingRectangle ∧
      m'.getTopLeftOnBit = .ok (absM m').topLeftOnBit ∧
      m'.getBottomRightOnBit = .ok (absM m').bottomRightOnBit ∧
      (∀ set unset sep, m'.toStr set unset sep = .ok ((absM m').toStr set unset sep)) := by
  induction ops with
  | nil =>
    intro m h _
    exact ⟨m, rfl, h, rfl, fun x y => WMat.get_refines m x y h, fun x y => bitmatrix_at m x y h,
      fun y row hy hrow => WMat.getRow_refines m y row h hy hrow, WMat.encl_refines m h,
      WMat.topLeft_refines m h,
      WMat.bottomRight_refines m h, fun set unset sep => WMat.toStr_refines m h set unset sep⟩
  | cons op ops ih =>
    intro m h hv
    obtain ⟨hr, hrest⟩ := hv
    have hstep := mop_step m op h hr
    unfold runMW runMS
    cases hs : op.stepS (absM m) with
    | ok s' =>
      rw [hs] at hstep hrest
      obtain ⟨m1, e1, i1, b1⟩ := hstep
      rw [e1]
      simp only [keepOnError]
      rw [← b1] at hrest ⊢
      exact ih m1 i1 hrest
    | error e =>
      rw [hs] at hstep hrest
      obtain ⟨e1, e2⟩ := hstep
      rw [e1, e2]
      simp only [keepOnError]
      exact ih m h hrest

/-! ## Algebra of the naive model -/

/-- reversing twice is the identity -/
theorem reverse_reverse (a : SArr) : SArr.reverse (SArr.reverse a) = a := List.reverse_reverse a

/-- rotating by 180° twice is the identity -/
theorem rotate180_rotate180 (m : SMat) : m.rotate180.rotate180 = m := by
  obtain ⟨w, h, rows⟩ := m
  simp only [SMat.rotate180]
  congr 1
  rw [List.map_reverse, List.map_map, List.map_reverse, List.reverse_reverse]
  have : (List.reverse ∘ List.reverse : List Bool → List Bool) = id := by
    funext r; simp
  rw [this, List.map_id]

/-- two quarter turns are a half turn (well-formed grids) -/
theorem rotate90_rotate90 (m : SMat) (hm : m.WF) : m.rotate90.rotate90 = m.rotate180 := by
  have h1 := SMat.rotate90_WF m hm
  rw [SMat.rotate90_eq _ h1, SMat.rotate180_eq _ hm]
  show SMat.ofFn m.width m.height (fun x y => m.rotate90.get (m.height - 1 - y) x) = _
  apply SMat.eq_ofFn_of _ (SMat.ofFn_WF _ _ _) _ _ _ rfl rfl
  intro x y hx hy
  have hx' : x < m.width := hx
  have hy' : y < m.height := hy
  rw [SMat.get_ofFn _ _ _ _ _ hx' hy']
  exact SMat.get_rotate90 m hm _ _ (by omega) hx'

/-- four quarter turns are the identity (well-formed grids) -/
theorem rotate90_four (m : SMat) (hm : m.WF) : m.rotate90.rotate90.rotate90.rotate90 = m := by
  have h2 : m.rotate90.rotate90.WF := SMat.rotate90_WF _ (SMat.rotate90_WF m hm)
  rw [rotate90_rotate90 _ h2, rotate90_rotate90 m hm, rotate180_rotate180]

/-- `ParseStringToBitMatrix(ToString(m), set, unset) = m` on the naive model, for every well-formed
    non-empty grid and token strings that differ in their first byte and do not start with a line
    break (e.g. the defaults `"X "` / `"  "`). -/
theorem parse_toString (m : SMat) (hm : m.WF) (hw : 1 ≤ m.width) (hh : 1 ≤ m.height)
    (set unset : List Nat) (g : GoodToks set unset) :
    SMat.parse (m.toStr set unset [10]) set unset = .ok m := parse_toStr m hm hw hh set unset g

/-! ## Non-vacuity: the hypotheses are satisfiable by interesting states -/

example : InvA (WArr.new 33) := (newBitArray_refines 33).1
example : ∃ m, WMat.new 33 2 = .ok m ∧ InvM m ∧ m.rowSize = 2 := by
  have := newBitMatrix_refines 33 2
  obtain ⟨m, h1, h2, _⟩ : RefinesM (WMat.new 33 2) ⟨33, 2, List.replicate 2 (List.replicate 33 false)⟩ := by
    simpa [SMat.new] using this
  refine ⟨m, h1, h2, ?_⟩
  simp [WMat.new] at h1
  rw [← h1]
example : validA (absA (WArr.new 64)) [.set 63, .reverse, .appendBit true, .flip 64, .reverse] := by
  simp [validA, AOp.inRange, AOp.stepS, absA_length, WArr.new, SArr.set, SArr.reverse,
    SArr.appendBit]
example : SMat.WF ⟨3, 2, [[true, false, true], [false, false, true]]⟩ := by decide
example : GoodToks [88, 32] [32, 32] :=
  ⟨88, 32, [32], [32], rfl, rfl, by decide, ⟨by decide, by decide⟩, ⟨by decide, by decide⟩⟩

end Gzx.Properties.C16
