import Gzx.Model.Bits
namespace Gzx.Properties.C16
open Gzx Gzx.Bits

end Gzx.Properties.C16
