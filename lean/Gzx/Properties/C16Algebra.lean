/-
  C16 — more algebra of the naive container model (round 5 addition).  The word-level implementation
  refines this model (`bitarray_refines_spec`, `bitmatrix_refines_spec`), so each law holds for the real
  containers after any operation history.  `xor_xor` is the law QR/DM masking relies on (masking twice
  with the same mask is the identity).
-/
import Gzx.Properties.C16
namespace Gzx.Properties.C16
open Gzx Gzx.Bits

theorem zipXor_cancel : ∀ (a o : List Bool), a.length = o.length →
    List.zipWith (fun x y => x ^^ y) (List.zipWith (fun x y => x ^^ y) a o) o = a
  | [], [], _ => rfl
  | x :: a, y :: o, h => by
    simp only [List.zipWith_cons_cons, List.cons.injEq]
    exact ⟨by cases x <;> cases y <;> rfl, zipXor_cancel a o (by simpa using h)⟩
  | [], _ :: _, h => by simp at h
  | _ :: _, [], h => by simp at h

/-- BitArray.Xor with the same operand twice restores the array (equal sizes; otherwise Xor is refused) -/
theorem bitarray_xor_xor (a o : SArr) (h : a.length = o.length) :
    (SArr.xor a o).bind (fun r => SArr.xor r o) = .ok a := by
  have h1 : ¬ a.length ≠ o.length := by omega
  simp only [SArr.xor, h1, if_false, Except.bind]
  have h2 : ¬ (List.zipWith (fun x y => x ^^ y) a o).length ≠ o.length := by simp [h]
  simp only [h2, if_false, zipXor_cancel a o h]

/-- Xor with itself clears -/
theorem bitarray_xor_self (a : SArr) : SArr.xor a a = .ok (SArr.clear a) := by
  simp only [SArr.xor, ne_eq, not_true_eq_false, if_false, SArr.clear]
  congr 1
  induction a with
  | nil => rfl
  | cons x xs ih => simp only [List.zipWith_cons_cons, List.length_cons, List.replicate_succ, ih]; simp

/-- Flip is an involution at every index (also out of range, where the model leaves the list alone) -/
theorem bitarray_flip_flip (a : SArr) (i : Nat) : (a.flip i).flip i = a := by
  simp only [SArr.flip]
  induction a generalizing i with
  | nil => simp
  | cons x xs ih =>
    cases i with
    | zero => simp
    | succ i => simp [ih]

/-- Get after Set: the set index reads true, every other index is unchanged -/
theorem bitarray_get_set (a : SArr) (i j : Nat) (hi : i < a.length) :
    (a.set i).get j = if j = i then true else a.get j := by
  simp only [SArr.get, SArr.set]
  split
  · subst_vars; simp [hi]
  · rename_i hne
    rw [List.getElem?_set_ne (by omega)]

theorem zipRows_cancel : ∀ (r s : List (List Bool)), r.length = s.length →
    (∀ p ∈ List.zip r s, p.1.length = p.2.length) →
    List.zipWith (fun r s => List.zipWith (fun x y => x ^^ y) r s)
      (List.zipWith (fun r s => List.zipWith (fun x y => x ^^ y) r s) r s) s = r
  | [], [], _, _ => rfl
  | x :: r, y :: s, h, hp => by
    simp only [List.zipWith_cons_cons, List.cons.injEq]
    refine ⟨zipXor_cancel x y (hp (x, y) (by simp)), zipRows_cancel r s (by simpa using h) ?_⟩
    intro p hp'
    exact hp p (by simp [hp'])
  | [], _ :: _, h, _ => by simp at h
  | _ :: _, [], h, _ => by simp at h

/-- BitMatrix.Xor with the same mask twice restores the matrix — for all well-formed matrices of equal
    dimensions (any others are refused by Xor): masking is undone by masking -/
theorem bitmatrix_xor_xor (m mask : SMat) (hm : m.WF) (hk : mask.WF)
    (hw : m.width = mask.width) (hh : m.height = mask.height) :
    (m.xor mask).bind (fun r => r.xor mask) = .ok m := by
  have h1 : ¬ (m.width ≠ mask.width ∨ m.height ≠ mask.height) := by omega
  simp only [SMat.xor, h1, if_false, Except.bind]
  obtain ⟨w, h, rows⟩ := m
  obtain ⟨w', h', rows'⟩ := mask
  simp only at hw hh h1 ⊢
  congr 2
  apply zipRows_cancel rows rows' (by rw [hm.1, hk.1]; exact hh)
  intro p hp
  have h1 := hm.2 p.1 (List.of_mem_zip hp).1
  have h2 := hk.2 p.2 (List.of_mem_zip hp).2
  simp only at h1 h2
  omega

/-- flipping every bit twice is the identity -/
theorem bitmatrix_flipAll_flipAll (m : SMat) : m.flipAll.flipAll = m := by
  obtain ⟨w, h, rows⟩ := m
  simp only [SMat.flipAll, List.map_map]
  congr 1
  have : ((fun r : List Bool => r.map (fun b => !b)) ∘ (fun r : List Bool => r.map (fun b => !b))) = id := by
    funext r
    simp only [Function.comp, List.map_map, id]
    have : ((fun b : Bool => !b) ∘ (fun b : Bool => !b)) = id := by funext b; simp
    rw [this, List.map_id]
  rw [this, List.map_id]

/-- Flip on a matrix cell is an involution (every x, y — out of range the model leaves the grid alone) -/
theorem bitmatrix_flip_flip (m : SMat) (x y : Nat) : (m.flip x y).flip x y = m := by
  obtain ⟨w, h, rows⟩ := m
  simp only [SMat.flip]
  congr 1
  induction rows generalizing y with
  | nil => simp
  | cons r rs ih =>
    cases y with
    | zero =>
      simp only [List.modify_zero_cons, List.cons.injEq, and_true]
      exact bitarray_flip_flip r x
    | succ y => simp only [List.modify_succ_cons, List.cons.injEq, true_and]; exact ih y

/-- Get after Set on a matrix: the set cell reads true, every other cell is unchanged (cell inside a well-formed grid) -/
theorem bitmatrix_get_set (m : SMat) (hm : m.WF) (x y x' y' : Nat) (hx : x < m.width) (hy : y < m.height) :
    (m.set x y).get x' y' = if x' = x ∧ y' = y then true else m.get x' y' := by
  obtain ⟨w, h, rows⟩ := m
  obtain ⟨h1, h2⟩ := hm
  simp only at h1 h2 hx hy
  simp only [SMat.get, SMat.set]
  have hyl : y < rows.length := by omega
  by_cases hyy : y' = y
  · subst hyy
    have hr : (rows[y']).length = w := h2 _ (List.getElem_mem hyl)
    simp only [List.getElem?_modify, if_true, List.getElem?_eq_getElem hyl, Option.map_eq_map, Option.map_some, Option.getD_some]
    by_cases hxx : x' = x
    · subst hxx; simp [hr, hx]
    · simp only [hxx, false_and, if_false]
      rw [List.getElem?_set_ne (by omega)]
  · have : ¬ (x' = x ∧ y' = y) := fun c => hyy c.2
    simp only [this, if_false]
    rw [List.getElem?_modify]
    have : ¬ y = y' := fun c => hyy c.symm
    simp [this]

example : (SArr.xor [true, false, true] [true, true, false]).bind (fun r => SArr.xor r [true, true, false])
    = .ok [true, false, true] := by decide

end Gzx.Properties.C16
