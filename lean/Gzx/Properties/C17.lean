/-
  C17 — luminance views are consistent and bilevel images binarise exactly.
  Property theorems only; helper lemmas live in Gzx/Proofs/{ExceptList,Binarizer,Luminance}.lean.
  Models: Gzx/Model/Luminance.lean, Gzx/Model/Binarizer.lean (tied to the root package of gozxing by the
  `c17` correspondence suites; the models mirror the code after the D12 repair of Crop).
-/
import Gzx.Proofs.Binarizer
namespace Gzx.Properties.C17
open Gzx Gzx.Binarizer

/-! ## Part B — binarisers -/

/-- a luminance array containing only pure black (0) and pure white (255) -/
def Bilevel (lum : Array Nat) : Prop := ∀ (i p : Nat), lum[i]? = some p → p = 0 ∨ p = 255

/-- **Local (hybrid) method, any grey image of at least 40x40 pixels**: `HybridBinarizer.GetBlackMatrix`
    never panics (all block, neighbour and 5x5-window indices are in range, also for sizes that are not
    multiples of 8), only sets bits inside the matrix, never sets a pixel of value 255 and sets every
    pixel of value 0.  Key invariant: every 8x8 block black point is ≤ 254. -/
theorem hybrid_zero_black_255_white (lum : Array Nat) (w h : Nat) (hw : 40 ≤ w) (hh : 40 ≤ h)
    (hsz : lum.size = w * h) :
    ∃ sets, hybridSets lum w h = .ok sets ∧
      (∀ X Y, (X, Y) ∈ sets → X < w ∧ Y < h ∧ ∃ p, lum[Y * w + X]? = some p ∧ p % 256 ≠ 255) ∧
      (∀ X Y p, X < w → Y < h → lum[Y * w + X]? = some p → p % 256 = 0 → (X, Y) ∈ sets) := by
  obtain ⟨sets, hs, h1, h2⟩ := hybridSets_local lum w h hsz hw hh
  refine ⟨sets, hs, ?_, h2⟩
  intro X Y hXY
  obtain ⟨a, b, p, hp, hle⟩ := h1 X Y hXY
  exact ⟨a, b, p, hp, by omega⟩

/-- **`hybrid_bilevel_exact`** — property clause "an image containing only pure black and pure white is
    binarised to exactly its black pixels" for the local method (`w ≥ 40`, `h ≥ 40`):
    the set bits of the black matrix are exactly the pixels of luminance 0, for every image size
    (incl. sizes that are not multiples of 8, where the last block is clamped to `w-8` / `h-8`). -/
theorem hybrid_bilevel_exact (lum : Array Nat) (w h : Nat) (hw : 40 ≤ w) (hh : 40 ≤ h)
    (hsz : lum.size = w * h) (hbi : Bilevel lum) :
    ∃ sets, hybridSets lum w h = .ok sets ∧
      (∀ X Y, (X, Y) ∈ sets → X < w ∧ Y < h) ∧
      (∀ X Y, X < w → Y < h → ((X, Y) ∈ sets ↔ lum[Y * w + X]? = some 0)) := by
  obtain ⟨sets, hs, h1, h2⟩ := hybrid_zero_black_255_white lum w h hw hh hsz
  refine ⟨sets, hs, fun X Y hXY => ⟨(h1 X Y hXY).1, (h1 X Y hXY).2.1⟩, ?_⟩
  intro X Y hX hY
  constructor
  · intro hXY
    obtain ⟨_, _, p, hp, hne⟩ := h1 X Y hXY
    rcases hbi _ p hp with rfl | rfl
    · exact hp
    · simp at hne
  · intro hp
    exact h2 X Y 0 hX hY hp (by simp)

/-- non-vacuity: a 40x41 picture with both colours satisfies the hypotheses -/
example : let lum : Array Nat := Array.ofFn (n := 40 * 41) (fun i => if i.val % 3 = 0 then 0 else 255)
    lum.size = 40 * 41 ∧ Bilevel lum := by
  refine ⟨by simp, ?_⟩
  intro i p hp
  simp only [Array.getElem?_ofFn] at hp
  split at hp
  · cases hp; split <;> simp
  · cases hp

/-- **Global method, any grey image**: `GlobalHistogramBinarizer.GetBlackMatrix` never panics on a
    non-empty `w x h` image; it either answers NotFound (too little contrast between the two histogram
    peaks of the sampled pixels) or thresholds every pixel against one black point in `[8, 240]`. -/
theorem global_threshold_or_notfound (lum : Array Nat) (w h : Nat) (hw : 1 ≤ w) (hh : 1 ≤ h)
    (hsz : lum.size = w * h) :
    globalSets lum w h = .error .notFound ∨
    ∃ sets bp, globalSets lum w h = .ok sets ∧ 8 ≤ bp ∧ bp ≤ 240 ∧
      ∀ X Y, (X, Y) ∈ sets ↔ (X < w ∧ Y < h ∧ ∃ p, lum[Y * w + X]? = some p ∧ p % 256 < bp) :=
  globalSets_spec lum w h hsz hw hh

/-- **`global_bilevel_exact_or_notfound`** — the same clause for the global histogram method (used by
    `GlobalHistogramBinarizer` and by `HybridBinarizer` below 40 pixels): a pure black/white image is
    binarised to exactly its black pixels, or rejected with NotFound. -/
theorem global_bilevel_exact_or_notfound (lum : Array Nat) (w h : Nat) (hw : 1 ≤ w) (hh : 1 ≤ h)
    (hsz : lum.size = w * h) (hbi : Bilevel lum) :
    globalSets lum w h = .error .notFound ∨
    ∃ sets, globalSets lum w h = .ok sets ∧
      (∀ X Y, (X, Y) ∈ sets → X < w ∧ Y < h) ∧
      (∀ X Y, X < w → Y < h → ((X, Y) ∈ sets ↔ lum[Y * w + X]? = some 0)) := by
  rcases globalSets_spec lum w h hsz hw hh with hnf | ⟨sets, bp, hs, b1, b2, hmem⟩
  · left; exact hnf
  · right
    refine ⟨sets, hs, fun X Y hXY => ⟨((hmem X Y).mp hXY).1, ((hmem X Y).mp hXY).2.1⟩, ?_⟩
    intro X Y hX hY
    rw [hmem X Y]
    constructor
    · rintro ⟨_, _, p, hp, hlt⟩
      rcases hbi _ p hp with rfl | rfl
      · exact hp
      · simp at hlt; omega
    · intro hp
      exact ⟨hX, hY, 0, hp, by simp; omega⟩

/-- the hybrid binariser below 40 pixels in either dimension is the global method -/
theorem hybrid_small_is_global (lum : Array Nat) (w h : Nat) (hs : w < 40 ∨ h < 40) :
    hybridSets lum w h = globalSets lum w h := by
  unfold hybridSets MINIMUM_DIMENSION
  have : ¬ (w ≥ 40 ∧ h ≥ 40) := by omega
  simp [this]

/-- both binarisers, every non-empty size: exact or NotFound (the statement of the property) -/
theorem hybrid_bilevel_exact_or_notfound (lum : Array Nat) (w h : Nat) (hw : 1 ≤ w) (hh : 1 ≤ h)
    (hsz : lum.size = w * h) (hbi : Bilevel lum) :
    hybridSets lum w h = .error .notFound ∨
    ∃ sets, hybridSets lum w h = .ok sets ∧
      (∀ X Y, (X, Y) ∈ sets → X < w ∧ Y < h) ∧
      (∀ X Y, X < w → Y < h → ((X, Y) ∈ sets ↔ lum[Y * w + X]? = some 0)) := by
  by_cases hbig : 40 ≤ w ∧ 40 ≤ h
  · right; exact hybrid_bilevel_exact lum w h hbig.1 hbig.2 hsz hbi
  · rw [hybrid_small_is_global lum w h (by omega)]
    exact global_bilevel_exact_or_notfound lum w h hw hh hsz hbi

/-- the black point estimate, when there is one, is a multiple of 8 in `[8, 240]` for a 32-bucket histogram
    and lies strictly between the two peaks; the only failure is NotFound (never a panic) -/
theorem estimateBlackPoint_range (buckets : List Nat) (hl : buckets.length = 32) :
    estimateBlackPoint buckets = .error .notFound ∨
    ∃ bp, estimateBlackPoint buckets = .ok bp ∧ 8 ≤ bp ∧ bp ≤ 240 := by
  cases h : estimateBlackPoint buckets with
  | error e =>
    left
    unfold estimateBlackPoint at h
    simp only at h
    split at h
    · cases h; rfl
    · cases h
  | ok bp =>
    right
    obtain ⟨b1, b2⟩ := estimateBlackPoint_bounds buckets bp (by omega) h
    exact ⟨bp, rfl, b1, by omega⟩

/-- **Black rows of a pure black/white row** (`GetBlackRow`, the `-1 4 -1` sharpening filter): NotFound, or
    a row of the same width in which pixel `i` is black iff its luminance is 0 and — for rows of at least
    3 pixels — it is not one of the two border pixels (which the filter never sets). -/
theorem blackRow_bilevel (row : List Nat) (hbi : ∀ p ∈ row, p = 0 ∨ p = 255) :
    blackRow row = .error .notFound ∨
    ∃ bits, blackRow row = .ok bits ∧ bits.length = row.length ∧
      ∀ i (hi : i < row.length), bits[i]? =
        some (decide (row[i] = 0 ∧ (row.length < 3 ∨ (0 < i ∧ i + 1 < row.length)))) := by
  cases h : blackRow row with
  | error e => left; rw [blackRow_error row e h]
  | ok bits =>
    right
    refine ⟨bits, rfl, ?_⟩
    unfold blackRow at h
    split at h
    · cases h
    · rename_i bp hbp
      have hl : (histogram row).length = 32 := by simp [histogram, LUMINANCE_BUCKETS]
      obtain ⟨b1, b2⟩ := estimateBlackPoint_bounds _ bp (by omega) hbp
      rw [hl] at b2
      split at h
      · -- width < 3: plain threshold
        rename_i hlt
        cases h
        refine ⟨by simp, ?_⟩
        intro i hi
        have hp := hbi row[i] (List.getElem_mem hi)
        simp only [List.getElem?_map, List.getElem?_eq_getElem hi, Option.map_some, hlt, true_or, and_true]
        rcases hp with hp | hp <;> simp [hp] <;> omega
      · rename_i hge
        cases h
        have hsl := sharpen_length bp (row.map (· % 256))
        simp only [List.length_map] at hsl
        refine ⟨by simp [hsl]; omega, ?_⟩
        intro i hi
        have hnlt : ¬ row.length < 3 := hge
        simp only [hnlt, false_or]
        by_cases h0 : i = 0
        · subst h0; simp
        · by_cases hlast : i + 1 = row.length
          · have : i = (sharpen bp (row.map (· % 256))).length + 1 := by omega
            rw [List.cons_append, List.getElem?_cons, if_neg h0]
            rw [List.getElem?_append_right (by omega)]
            have e : i - 1 - (sharpen bp (row.map (· % 256))).length = 0 := by omega
            rw [e]
            simp; omega
          · -- interior pixel
            obtain ⟨j, rfl⟩ : ∃ j, i = j + 1 := ⟨i - 1, by omega⟩
            have hj : j + 2 < (row.map (· % 256)).length := by simp; omega
            rw [List.cons_append, List.getElem?_cons_succ, List.getElem?_append_left (by omega)]
            rw [sharpen_get bp _ j hj]
            simp only [List.getElem_map]
            have ha := hbi row[j] (List.getElem_mem (by omega))
            have hb := hbi row[j + 2] (List.getElem_mem (by omega))
            have hc := hbi row[j + 1] (List.getElem_mem (by omega))
            have m : ∀ p, (p = 0 ∨ p = 255) → p % 256 = p := by intro p hp; rcases hp with rfl | rfl <;> rfl
            rw [m _ ha, m _ hb, m _ hc]
            rw [sharpen_bilevel_decision bp b1 (by omega) _ _ _ ha hb hc]
            have : 0 < j + 1 ∧ j + 1 + 1 < row.length := by omega
            simp [this]

end Gzx.Properties.C17
