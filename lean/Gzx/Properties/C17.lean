/-
  C17 — luminance views are consistent and bilevel images binarise exactly.
-/
import Gzx.Model.Luminance
import Gzx.Model.Binarizer
namespace Gzx.Properties.C17
open Gzx Gzx.Luminance Gzx.Binarizer

/-- double inversion returns the original object -/
theorem invert_involutive (v : View) : invert (invert v) = v := by
  cases v; simp [invert]

end Gzx.Properties.C17
