/-
  C17 — luminance views are consistent and bilevel images binarise exactly.
  Property theorems only; helper lemmas live in Gzx/Proofs/{ExceptList,Binarizer,Luminance}.lean.
  Models: Gzx/Model/Luminance.lean, Gzx/Model/Binarizer.lean (tied to the root package of gozxing by the
  `c17` correspondence suites; the models mirror the code after the D12 repair of Crop).
-/
import Gzx.Proofs.Binarizer
import Gzx.Proofs.Luminance
namespace Gzx.Properties.C17
open Gzx Gzx.Binarizer Gzx.Luminance

/-! ## Part A — luminance views

`View.abs v` (Gzx/Proofs/Luminance.lean) is the naive `w x h` array a view denotes: row `y` is read straight
from the data at `(y+top)*dataW + left`, inverted if the view is wrapped.  `View.WF v`: the view rectangle
lies inside `dataW x dataH`, the data has at least that many bytes, all bytes ≤ 255.  The reference
operations on naive arrays (`Img.crop` = sub-array, `Img.invert` = 255 - v, `Img.rotCCW` = index
transform) are in Gzx/Ref/Luminance.lean. -/

/-- the constructors produce well-formed views: `NewRGBLuminanceSource` / `NewLuminanceSourceFromImage`
    (luminance array of exactly `w*h` bytes) -/
theorem ofLuminances_wf (k : Kind) (w h : Nat) (lum : List Nat) (hl : lum.length = w * h)
    (hb : ∀ p ∈ lum, p ≤ 255) : (ofLuminances k w h lum).WF :=
  ⟨by simp [ofLuminances, hl], by simp [ofLuminances], by simp [ofLuminances], hb⟩

/-- `NewPlanarYUVLuminanceSource` without mirroring: an error for a rectangle with negative origin or
    reaching outside `dataW x dataH`, else a well-formed view -/
theorem newYUV_wf (data : List Nat) (dataW dataH : Nat) (left top : Int) (w h : Nat)
    (hl : dataW * dataH ≤ data.length) (hb : ∀ p ∈ data, p ≤ 255) :
    (newYUV data dataW dataH left top w h false = .error (.fault .illegalArg) ∧
      (left < 0 ∨ top < 0 ∨ left + w > dataW ∨ top + h > dataH)) ∨
    ∃ v, newYUV data dataW dataH left top w h false = .ok v ∧ v.WF ∧ v.kind = .yuv ∧ v.w = w ∧ v.h = h := by
  unfold newYUV
  by_cases hc : left < 0 ∨ top < 0 ∨ left + w > dataW ∨ top + h > dataH
  · left; simp only [hc, if_true]; exact ⟨rfl, trivial⟩
  · right
    simp only [hc, if_false, Bool.false_eq_true]
    refine ⟨_, rfl, ⟨hl, ?_, ?_, hb⟩, rfl, rfl, rfl⟩
    · show left.toNat + w ≤ dataW; omega
    · show top.toNat + h ≤ dataH; omega

/-- **A row fetched singly equals the same row of the full matrix equals the naive array**
    (property clause 1), for every well-formed view — whichever of the three GetMatrix copy strategies
    applies and whether or not the view is inverted; with a caller buffer the row is followed by the
    untouched tail of a longer buffer (a too-short buffer is ignored). -/
theorem getRow_eq_matrix_row (v : View) (hv : v.WF) (y : Nat) (hy : y < v.h) (buf : Option (List Nat)) :
    ∃ m row, getMatrix v = .ok m ∧ v.abs.rows[y]? = some row ∧
      (m.drop (y * v.w)).take v.w = row ∧
      getRow v (y : Int) buf = .ok (row ++ bufTail v.w buf) := by
  obtain ⟨m, hm, hflat⟩ := getMatrix_ok v hv
  have hwf := abs_WF v hv
  have hlen : v.abs.rows.length = v.h := by rw [hwf.1, abs_h]
  have hy' : y < v.abs.rows.length := by omega
  refine ⟨m, v.abs.rows[y], hm, by simp [hy'], ?_, ?_⟩
  · -- row y of the matrix
    have hrl : ∀ r ∈ v.abs.rows, r.length = v.w := by intro r hr; rw [hwf.2 r hr, abs_w]
    have hun := unflatten v.abs.rows v.w hrl
    have : ((List.range v.abs.rows.length).map (fun y => (v.abs.rows.flatten.drop (y * v.w)).take v.w))[y]? =
        v.abs.rows[y]? := by rw [hun]
    simp only [List.getElem?_map, List.getElem?_range hy', Option.map_some, List.getElem?_eq_getElem hy',
      Option.some.injEq] at this
    rw [← this, ← hflat, List.drop_take, List.take_take]
    congr 1
    have : (y + 1) * v.w ≤ v.h * v.w := Nat.mul_le_mul_right _ hy
    rw [Nat.succ_mul] at this
    rw [Nat.mul_comm v.w v.h]
    omega
  · rw [getRow_ok v hv y hy buf]
    simp [List.getD, hy']

/-- **a row outside the view is reported as an error — never a crash, never pixels** -/
theorem getRow_outside_error (v : View) (y : Int) (hy : y < 0 ∨ y ≥ v.h) (buf : Option (List Nat)) :
    getRow v y buf = .error (.fault .illegalArg) :=
  getRow_outside v y hy buf

/-! ### operations against the naive array -/

/-- the reference semantics of one view operation on a naive array; `none` = invalid crop rectangle
    (negative origin or reaching outside the image) -/
def specOp (m : Img) : Op → Option Img
  | .crop l t w h => if m.ValidCrop l t w h then some (m.crop l.toNat t.toNat w h) else none
  | .invert => some m.invert
  | .rotate => some m.rotCCW

def specOps (m : Img) : List Op → Option Img
  | [] => some m
  | op :: ops => (specOp m op).bind (fun m' => specOps m' ops)

/-- which operations a source kind implements: everything crops and inverts, only Go-image sources rotate -/
def supported (k : Kind) : Op → Bool
  | .rotate => k == .img
  | _ => true

/-- **one operation** (property clauses 2-4): on a well-formed view every operation either
    * is an invalid crop and returns IllegalArgumentException,
    * is a rotation of a source that does not rotate (RGB ints, YUV) and returns the "unsupported" error,
    * or succeeds with a well-formed view of the same kind that denotes exactly the reference result
      (cropped pixel = original pixel at the offset position; inversion = 255 - v; rotation = index transform).
    It never panics and never yields other pixels. -/
theorem view_op_refines (v : View) (hv : v.WF) (op : Op) :
    match specOp v.abs op with
    | none => applyOp v op = .error (.fault .illegalArg)
    | some m =>
      if supported v.kind op then
        ∃ v', applyOp v op = .ok v' ∧ v'.WF ∧ v'.kind = v.kind ∧ v'.abs = m
      else applyOp v op = .error .unsupported := by
  cases op with
  | crop l t w h =>
    simp only [specOp]
    by_cases hval : v.abs.ValidCrop l t w h
    · simp only [hval, if_true, supported]
      obtain ⟨v', h1, h2, h3, _, h5⟩ := crop_valid v hv l t w h hval
      exact ⟨v', h1, h2, h3, h5⟩
    · simp only [hval, if_false]
      exact crop_invalid v l t w h hval
  | invert =>
    simp only [specOp, supported, if_true, applyOp]
    exact ⟨invert v, rfl, invert_wf v hv, rfl, abs_invert v hv⟩
  | rotate =>
    simp only [specOp, supported, applyOp]
    by_cases hk : v.kind = .img
    · simp only [hk, beq_self_eq_true, if_true]
      obtain ⟨v', h1, h2, h3, _, h5⟩ := rotate_ok v hv hk
      exact ⟨v', h1, h2, h3, h5⟩
    · have : (v.kind == Kind.img) = false := by
        cases hkk : v.kind <;> simp_all
      simp only [this, Bool.false_eq_true, if_false]
      exact rotate_unsupported v hk

/-- a crop rectangle with a negative width or height is an IllegalArgumentException, otherwise `cropI` is
    `crop` (so everything above applies to Go's `int` arguments) -/
theorem cropI_spec (v : View) (l t w h : Int) :
    cropI v l t w h = if w < 0 ∨ h < 0 then .error (.fault .illegalArg) else crop v l t w.toNat h.toNat := by
  unfold cropI; split <;> rfl

/-- **`view_refines_array`** — any sequence of operations on a well-formed view: either it runs through
    and the resulting view is well-formed and denotes the reference result of the same sequence on the
    naive array (so, by `getRow_eq_matrix_row`, GetRow y = row y of GetMatrix = naive array), or it stops at
    the first invalid crop with IllegalArgumentException / at a rotation of a non-rotating source with the
    "unsupported" error.  Never `.panic`. -/
theorem view_refines_array (v : View) (hv : v.WF) (ops : List Op) :
    (∃ v', applyOps v ops = .ok v' ∧ v'.WF ∧ v'.kind = v.kind ∧ specOps v.abs ops = some v'.abs) ∨
    applyOps v ops = .error (.fault .illegalArg) ∨ applyOps v ops = .error .unsupported := by
  induction ops generalizing v with
  | nil => left; exact ⟨v, rfl, hv, rfl, rfl⟩
  | cons op ops ih =>
    have hstep := view_op_refines v hv op
    unfold applyOps
    cases hs : specOp v.abs op with
    | none =>
      rw [hs] at hstep
      simp only at hstep
      right; left
      rw [hstep]; rfl
    | some m =>
      rw [hs] at hstep
      simp only at hstep
      split at hstep
      · obtain ⟨v', h1, h2, h3, h4⟩ := hstep
        rw [h1]
        show (∃ v'', applyOps v' ops = _ ∧ _) ∨ applyOps v' ops = _ ∨ applyOps v' ops = _
        rcases ih v' h2 with ⟨v'', g1, g2, g3, g4⟩ | g | g
        · left
          refine ⟨v'', g1, g2, by rw [g3, h3], ?_⟩
          simp only [specOps, hs, Option.bind_some]
          rw [← h4]; exact g4
        · right; left; exact g
        · right; right; exact g
      · right; right
        rw [hstep]; rfl

/-- for Go-image sources (which implement every operation) the sequence fails **iff** the reference
    sequence meets an invalid crop -/
theorem view_refines_array_img (v : View) (hv : v.WF) (hk : v.kind = .img) (ops : List Op) :
    (∃ v', applyOps v ops = .ok v' ∧ v'.WF ∧ specOps v.abs ops = some v'.abs) ∨
    (applyOps v ops = .error (.fault .illegalArg) ∧ specOps v.abs ops = none) := by
  induction ops generalizing v with
  | nil => left; exact ⟨v, rfl, hv, rfl⟩
  | cons op ops ih =>
    have hstep := view_op_refines v hv op
    unfold applyOps
    cases hs : specOp v.abs op with
    | none =>
      rw [hs] at hstep
      simp only at hstep
      right
      refine ⟨by rw [hstep]; rfl, by simp [specOps, hs]⟩
    | some m =>
      rw [hs] at hstep
      have hsup : supported v.kind op = true := by rw [hk]; cases op <;> rfl
      simp only [hsup, if_true] at hstep
      obtain ⟨v', h1, h2, h3, h4⟩ := hstep
      rw [h1]
      show (∃ v'', applyOps v' ops = _ ∧ _) ∨ (applyOps v' ops = _ ∧ _)
      rcases ih v' h2 (by rw [h3, hk]) with ⟨v'', g1, g2, g3⟩ | ⟨g1, g2⟩
      · left
        refine ⟨v'', g1, g2, ?_⟩
        simp only [specOps, hs, Option.bind_some]
        rw [← h4]; exact g3
      · right
        refine ⟨g1, ?_⟩
        simp only [specOps, hs, Option.bind_some]
        rw [← h4]; exact g2

/-- crop ∘ crop composes by adding offsets (the D12 scenario): a second crop is judged against the
    *current* view, and the pixels are those of the original at the summed offset -/
theorem crop_crop (m : Img) (l1 t1 w1 h1 l2 t2 w2 h2 : Nat) (hw : l2 + w2 ≤ w1) (hh : t2 + h2 ≤ h1) :
    ((m.crop l1 t1 w1 h1).crop l2 t2 w2 h2) = m.crop (l1 + l2) (t1 + t2) w2 h2 := by
  simp only [Img.crop, Img.mk.injEq, true_and, List.map_drop, List.map_take, List.map_map]
  rw [List.drop_take, List.take_take, List.drop_drop]
  have e : min h2 (h1 - t2) = h2 := by omega
  rw [e]
  congr 2
  apply List.map_congr_left
  intro r _
  simp only [Function.comp]
  rw [List.drop_take, List.take_take, List.drop_drop]
  congr 1
  omega

/-- **`invert_involutive`** — double inversion returns the original object (model), and on the naive
    array `255 - (255 - v) = v` for byte values -/
theorem invert_involutive (v : View) : invert (invert v) = v := by
  cases v; simp [invert]

theorem invert_involutive_spec (m : Img) (hb : ∀ r ∈ m.rows, ∀ p ∈ r, p ≤ 255) : m.invert.invert = m := by
  obtain ⟨w, h, rows⟩ := m
  simp only [Img.invert, Img.mk.injEq, true_and]
  exact invert_invert_rows rows hb

/-- inversion maps every pixel `v` to `255 - v` -/
theorem invert_px (m : Img) (hm : m.WF) (x y : Nat) (hx : x < m.w) (hy : y < m.h) :
    m.invert.px x y = 255 - m.px x y := by
  have hy' : y < m.rows.length := by rw [hm.1]; exact hy
  have hl := hm.2 _ (List.getElem_mem hy')
  have hx' : x < m.rows[y].length := by omega
  simp [Img.px, Img.invert, List.getD, hy', hx']

/-- a cropped pixel equals the original pixel at the offset position -/
theorem crop_px (m : Img) (hm : m.WF) (l t w h x y : Nat) (hw : l + w ≤ m.w) (hh : t + h ≤ m.h)
    (hx : x < w) (hy : y < h) : (m.crop l t w h).px x y = m.px (l + x) (t + y) := by
  have hy' : t + y < m.rows.length := by rw [hm.1]; omega
  have hl := hm.2 _ (List.getElem_mem hy')
  simp only [Img.px, Img.crop, List.getD, List.getElem?_map, List.getElem?_take, hy, if_true,
    List.getElem?_drop, List.getElem?_eq_getElem hy', Option.map_some, Option.getD_some, hx]

/-- **`rot4_id`** — four quarter turns restore the original: on the naive array … -/
theorem rot4_id_spec (m : Img) (hm : m.WF) : m.rotCCW.rotCCW.rotCCW.rotCCW = m := Img.rot4 m hm

/-- … and on the model: four `RotateCounterClockwise` calls on a Go-image source succeed and the result
    denotes the same array (the data array itself is a fresh copy, as in Go) -/
theorem rot4_id (v : View) (hv : v.WF) (hk : v.kind = .img) :
    ∃ v', applyOps v [.rotate, .rotate, .rotate, .rotate] = .ok v' ∧ v'.WF ∧ v'.abs = v.abs := by
  obtain ⟨v1, a1, b1, c1, _, e1⟩ := rotate_ok v hv hk
  obtain ⟨v2, a2, b2, c2, _, e2⟩ := rotate_ok v1 b1 c1
  obtain ⟨v3, a3, b3, c3, _, e3⟩ := rotate_ok v2 b2 c2
  obtain ⟨v4, a4, b4, c4, _, e4⟩ := rotate_ok v3 b3 c3
  refine ⟨v4, ?_, b4, ?_⟩
  · simp only [applyOps, applyOp, a1, a2, a3, a4, bind, Except.bind]
  · rw [e4, e3, e2, e1]
    exact Img.rot4 _ (abs_WF v hv)

/-- rotation is the index transform `new(x, y) = old(w - 1 - y, x)` -/
theorem rot_px (m : Img) (hm : m.WF) (x y : Nat) (hx : x < m.h) (hy : y < m.w) :
    m.rotCCW.px x y = m.px (m.w - 1 - y) x := Img.px_rot m hm x y hx hy

/-! ### non-vacuity and witnesses -/

/-- a 4x3 Go-image source over the bytes 0..11 -/
def exView : View := ofLuminances .img 4 3 [0, 1, 2, 3, 4, 5, 6, 7, 8, 9, 10, 11]

example : exView.WF := ofLuminances_wf .img 4 3 _ (by decide) (by decide)

/-- crop(1,1,3,2) ; invert ; rotate ; crop(0,1,2,2) on the model = the same on the naive array -/
example : (applyOps exView [.crop 1 1 3 2, .invert, .rotate, .crop 0 1 2 2]).toOption.map View.abs =
    specOps exView.abs [.crop 1 1 3 2, .invert, .rotate, .crop 0 1 2 2] := by decide

example : (applyOps exView [.crop 1 1 3 2, .invert, .rotate, .crop 0 1 2 2]).toOption.map (fun v => v.abs.rows) =
    some [[249, 245], [250, 246]] := by decide

/-- crop of a crop that leaves the current view is refused (it stays inside the 4x3 data: the
    unrepaired code accepted it) -/
example : applyOps exView [.crop 1 0 2 2, .crop 1 0 2 2] = .error (.fault .illegalArg) := by decide

example : applyOps exView [.crop (-1) 0 2 2] = .error (.fault .illegalArg) := by decide

/-- **D12 witness** (unchanged tree): the original bounds test of `RGBLuminanceSource.Crop`,
    `left+width > dataWidth || top+height > dataHeight` with the *view-relative* `left`/`top`, accepts
    `Crop(3,3,5,5)` on the 5x5 view at offset (5,5) of 10x10 data although the rectangle ends at column
    13 > 10; its last row would start at byte `12*10+8 = 128 > 100` (index panic, reproduced on the real
    code by the harness: corpus/C17).  It also accepts any negative origin. -/
example : ¬ (3 + 5 > 10 ∨ 3 + 5 > 10) ∧ (5 + 3) + 5 > 10 ∧ ((3 + 5 + 4) * 10 + (5 + 3) > 10 * 10) := by decide
example : ¬ ((-1 : Int) + 3 > 10 ∨ (0 : Int) + 3 > 10) := by decide

/-! ### colour → luminance -/

/-- RGB ints: a grey pixel `0xVVVVVV` — without alpha bits, with alpha `0xff`, or as a negative Go int
    (sign bits above the colour) — has luminance `V` -/
theorem lumOfRGBInt_grey : ∀ v : Fin 256,
    lumOfRGBInt ((v.val : Int) * 65793) = v.val ∧
    lumOfRGBInt ((v.val : Int) * 65793 + 4278190080) = v.val ∧
    lumOfRGBInt ((v.val : Int) * 65793 - 16777216) = v.val := by decide +kernel

theorem lumOfRGBInt_byte (p : Int) : lumOfRGBInt p < 256 := by
  unfold lumOfRGBInt; simp only; omega

/-- Go images: an opaque grey `(v·257, v·257, v·257, 0xffff)` has luminance `v`; a fully transparent pixel
    is white (white background) -/
theorem lumOfRGBA16_grey : ∀ v : Fin 256,
    lumOfRGBA16 (v.val * 257) (v.val * 257) (v.val * 257) 65535 = v.val := by decide +kernel

theorem lumOfRGBA16_transparent (r g b : Nat) (hr : r ≤ 65535) (hg : g ≤ 65535) (hb : b ≤ 65535) :
    lumOfRGBA16 r g b 0 = 255 := by
  unfold lumOfRGBA16
  simp only
  omega

theorem lumOfRGBA16_byte (r g b a : Nat) : lumOfRGBA16 r g b a < 256 := by
  unfold lumOfRGBA16; simp only; omega

/-! ## Part B — binarisers -/

/-- a luminance array containing only pure black (0) and pure white (255) -/
def Bilevel (lum : Array Nat) : Prop := ∀ (i p : Nat), lum[i]? = some p → p = 0 ∨ p = 255

/-- **Local (hybrid) method, any grey image of at least 40x40 pixels**: `HybridBinarizer.GetBlackMatrix`
    never panics (all block, neighbour and 5x5-window indices are in range, also for sizes that are not
    multiples of 8), only sets bits inside the matrix, never sets a pixel of value 255 and sets every
    pixel of value 0.  Key invariant: every 8x8 block black point is ≤ 254. -/
theorem hybrid_zero_black_255_white (lum : Array Nat) (w h : Nat) (hw : 40 ≤ w) (hh : 40 ≤ h)
    (hsz : lum.size = w * h) :
    ∃ sets, hybridSets lum w h = .ok sets ∧
      (∀ X Y, (X, Y) ∈ sets → X < w ∧ Y < h ∧ ∃ p, lum[Y * w + X]? = some p ∧ p % 256 ≠ 255) ∧
      (∀ X Y p, X < w → Y < h → lum[Y * w + X]? = some p → p % 256 = 0 → (X, Y) ∈ sets) := by
  obtain ⟨sets, hs, h1, h2⟩ := hybridSets_local lum w h hsz hw hh
  refine ⟨sets, hs, ?_, h2⟩
  intro X Y hXY
  obtain ⟨a, b, p, hp, hle⟩ := h1 X Y hXY
  exact ⟨a, b, p, hp, by omega⟩

/-- **`hybrid_bilevel_exact`** — property clause "an image containing only pure black and pure white is
    binarised to exactly its black pixels" for the local method (`w ≥ 40`, `h ≥ 40`):
    the set bits of the black matrix are exactly the pixels of luminance 0, for every image size
    (incl. sizes that are not multiples of 8, where the last block is clamped to `w-8` / `h-8`). -/
theorem hybrid_bilevel_exact (lum : Array Nat) (w h : Nat) (hw : 40 ≤ w) (hh : 40 ≤ h)
    (hsz : lum.size = w * h) (hbi : Bilevel lum) :
    ∃ sets, hybridSets lum w h = .ok sets ∧
      (∀ X Y, (X, Y) ∈ sets → X < w ∧ Y < h) ∧
      (∀ X Y, X < w → Y < h → ((X, Y) ∈ sets ↔ lum[Y * w + X]? = some 0)) := by
  obtain ⟨sets, hs, h1, h2⟩ := hybrid_zero_black_255_white lum w h hw hh hsz
  refine ⟨sets, hs, fun X Y hXY => ⟨(h1 X Y hXY).1, (h1 X Y hXY).2.1⟩, ?_⟩
  intro X Y hX hY
  constructor
  · intro hXY
    obtain ⟨_, _, p, hp, hne⟩ := h1 X Y hXY
    rcases hbi _ p hp with rfl | rfl
    · exact hp
    · simp at hne
  · intro hp
    exact h2 X Y 0 hX hY hp (by simp)

/-- the same as a statement about the rendered `w x h` bit picture (`render` replays the `BitMatrix.Set`
    calls): **blackMatrix = { p = 0 }** -/
theorem hybrid_bilevel_exact_matrix (lum : Array Nat) (w h : Nat) (hw : 40 ≤ w) (hh : 40 ≤ h)
    (hsz : lum.size = w * h) (hbi : Bilevel lum) :
    ∃ sets, hybridSets lum w h = .ok sets ∧
      ∀ X Y, X < w → Y < h →
        (render w h sets)[Y * w + X]? = some (decide (lum[Y * w + X]? = some 0)) := by
  obtain ⟨sets, hs, _, hiff⟩ := hybrid_bilevel_exact lum w h hw hh hsz hbi
  refine ⟨sets, hs, ?_⟩
  intro X Y hX hY
  rw [render_spec w h sets X Y hX hY]
  congr 1
  exact decide_eq_decide.mpr (hiff X Y hX hY)

/-- non-vacuity: a 40x41 picture with both colours satisfies the hypotheses -/
example : let lum : Array Nat := Array.ofFn (n := 40 * 41) (fun i => if i.val % 3 = 0 then 0 else 255)
    lum.size = 40 * 41 ∧ Bilevel lum := by
  refine ⟨by simp, ?_⟩
  intro i p hp
  simp only [Array.getElem?_ofFn] at hp
  split at hp
  · cases hp; split <;> simp
  · cases hp

/-- **Global method, any grey image**: `GlobalHistogramBinarizer.GetBlackMatrix` never panics on a
    non-empty `w x h` image; it either answers NotFound (too little contrast between the two histogram
    peaks of the sampled pixels) or thresholds every pixel against one black point in `[8, 240]`. -/
theorem global_threshold_or_notfound (lum : Array Nat) (w h : Nat) (hw : 1 ≤ w) (hh : 1 ≤ h)
    (hsz : lum.size = w * h) :
    globalSets lum w h = .error .notFound ∨
    ∃ sets bp, globalSets lum w h = .ok sets ∧ 8 ≤ bp ∧ bp ≤ 240 ∧
      ∀ X Y, (X, Y) ∈ sets ↔ (X < w ∧ Y < h ∧ ∃ p, lum[Y * w + X]? = some p ∧ p % 256 < bp) :=
  globalSets_spec lum w h hsz hw hh

/-- **`global_bilevel_exact_or_notfound`** — the same clause for the global histogram method (used by
    `GlobalHistogramBinarizer` and by `HybridBinarizer` below 40 pixels): a pure black/white image is
    binarised to exactly its black pixels, or rejected with NotFound. -/
theorem global_bilevel_exact_or_notfound (lum : Array Nat) (w h : Nat) (hw : 1 ≤ w) (hh : 1 ≤ h)
    (hsz : lum.size = w * h) (hbi : Bilevel lum) :
    globalSets lum w h = .error .notFound ∨
    ∃ sets, globalSets lum w h = .ok sets ∧
      (∀ X Y, (X, Y) ∈ sets → X < w ∧ Y < h) ∧
      (∀ X Y, X < w → Y < h → ((X, Y) ∈ sets ↔ lum[Y * w + X]? = some 0)) := by
  rcases globalSets_spec lum w h hsz hw hh with hnf | ⟨sets, bp, hs, b1, b2, hmem⟩
  · left; exact hnf
  · right
    refine ⟨sets, hs, fun X Y hXY => ⟨((hmem X Y).mp hXY).1, ((hmem X Y).mp hXY).2.1⟩, ?_⟩
    intro X Y hX hY
    rw [hmem X Y]
    constructor
    · rintro ⟨_, _, p, hp, hlt⟩
      rcases hbi _ p hp with rfl | rfl
      · exact hp
      · simp at hlt; omega
    · intro hp
      exact ⟨hX, hY, 0, hp, by simp; omega⟩

/-- the hybrid binariser below 40 pixels in either dimension is the global method -/
theorem hybrid_small_is_global (lum : Array Nat) (w h : Nat) (hs : w < 40 ∨ h < 40) :
    hybridSets lum w h = globalSets lum w h := by
  unfold hybridSets MINIMUM_DIMENSION
  have : ¬ (w ≥ 40 ∧ h ≥ 40) := by omega
  simp [this]

/-- both binarisers, every non-empty size: exact or NotFound (the statement of the property) -/
theorem hybrid_bilevel_exact_or_notfound (lum : Array Nat) (w h : Nat) (hw : 1 ≤ w) (hh : 1 ≤ h)
    (hsz : lum.size = w * h) (hbi : Bilevel lum) :
    hybridSets lum w h = .error .notFound ∨
    ∃ sets, hybridSets lum w h = .ok sets ∧
      (∀ X Y, (X, Y) ∈ sets → X < w ∧ Y < h) ∧
      (∀ X Y, X < w → Y < h → ((X, Y) ∈ sets ↔ lum[Y * w + X]? = some 0)) := by
  by_cases hbig : 40 ≤ w ∧ 40 ≤ h
  · right; exact hybrid_bilevel_exact lum w h hbig.1 hbig.2 hsz hbi
  · rw [hybrid_small_is_global lum w h (by omega)]
    exact global_bilevel_exact_or_notfound lum w h hw hh hsz hbi

/-- the black point estimate, when there is one, is a multiple of 8 in `[8, 240]` for a 32-bucket histogram
    and lies strictly between the two peaks; the only failure is NotFound (never a panic) -/
theorem estimateBlackPoint_range (buckets : List Nat) (hl : buckets.length = 32) :
    estimateBlackPoint buckets = .error .notFound ∨
    ∃ bp, estimateBlackPoint buckets = .ok bp ∧ 8 ≤ bp ∧ bp ≤ 240 := by
  cases h : estimateBlackPoint buckets with
  | error e =>
    left
    unfold estimateBlackPoint at h
    simp only at h
    split at h
    · cases h; rfl
    · cases h
  | ok bp =>
    right
    obtain ⟨b1, b2⟩ := estimateBlackPoint_bounds buckets bp (by omega) h
    exact ⟨bp, rfl, b1, by omega⟩

/-- **Black rows of a pure black/white row** (`GetBlackRow`, the `-1 4 -1` sharpening filter): NotFound, or
    a row of the same width in which pixel `i` is black iff its luminance is 0 and — for rows of at least
    3 pixels — it is not one of the two border pixels (which the filter never sets). -/
theorem blackRow_bilevel (row : List Nat) (hbi : ∀ p ∈ row, p = 0 ∨ p = 255) :
    blackRow row = .error .notFound ∨
    ∃ bits, blackRow row = .ok bits ∧ bits.length = row.length ∧
      ∀ i (hi : i < row.length), bits[i]? =
        some (decide (row[i] = 0 ∧ (row.length < 3 ∨ (0 < i ∧ i + 1 < row.length)))) := by
  cases h : blackRow row with
  | error e => left; rw [blackRow_error row e h]
  | ok bits =>
    right
    refine ⟨bits, rfl, ?_⟩
    unfold blackRow at h
    split at h
    · cases h
    · rename_i bp hbp
      have hl : (histogram row).length = 32 := by simp [histogram, LUMINANCE_BUCKETS]
      obtain ⟨b1, b2⟩ := estimateBlackPoint_bounds _ bp (by omega) hbp
      rw [hl] at b2
      split at h
      · -- width < 3: plain threshold
        rename_i hlt
        cases h
        refine ⟨by simp, ?_⟩
        intro i hi
        have hp := hbi row[i] (List.getElem_mem hi)
        simp only [List.getElem?_map, List.getElem?_eq_getElem hi, Option.map_some, hlt, true_or, and_true]
        rcases hp with hp | hp <;> simp [hp] <;> omega
      · rename_i hge
        cases h
        have hsl := sharpen_length bp (row.map (· % 256))
        simp only [List.length_map] at hsl
        refine ⟨by simp [hsl]; omega, ?_⟩
        intro i hi
        have hnlt : ¬ row.length < 3 := hge
        simp only [hnlt, false_or]
        by_cases h0 : i = 0
        · subst h0; simp
        · by_cases hlast : i + 1 = row.length
          · have : i = (sharpen bp (row.map (· % 256))).length + 1 := by omega
            rw [List.cons_append, List.getElem?_cons, if_neg h0]
            rw [List.getElem?_append_right (by omega)]
            have e : i - 1 - (sharpen bp (row.map (· % 256))).length = 0 := by omega
            rw [e]
            simp; omega
          · -- interior pixel
            obtain ⟨j, rfl⟩ : ∃ j, i = j + 1 := ⟨i - 1, by omega⟩
            have hj : j + 2 < (row.map (· % 256)).length := by simp; omega
            rw [List.cons_append, List.getElem?_cons_succ, List.getElem?_append_left (by omega)]
            rw [sharpen_get bp _ j hj]
            simp only [List.getElem_map]
            have ha := hbi row[j] (List.getElem_mem (by omega))
            have hb := hbi row[j + 2] (List.getElem_mem (by omega))
            have hc := hbi row[j + 1] (List.getElem_mem (by omega))
            have m : ∀ p, (p = 0 ∨ p = 255) → p % 256 = p := by intro p hp; rcases hp with rfl | rfl <;> rfl
            rw [m _ ha, m _ hb, m _ hc]
            rw [sharpen_bilevel_decision bp b1 (by omega) _ _ _ ha hb hc]
            have : 0 < j + 1 ∧ j + 1 + 1 < row.length := by omega
            simp [this]

end Gzx.Properties.C17
