/-
  C18 — independent readers and writers can run concurrently.

  PROVED (about the abstract machine of Model/Interference.lean, unbounded in the number of
  goroutines, program lengths and schedule length): if no step writes a shared (package-level)
  location and every other location is touched by its owner only, then under EVERY interleaving
  each goroutine computes exactly what it computes when run alone, the final state does not
  depend on the schedule (in particular equals the sequential one), shared state is unchanged,
  and there is no read-write or write-write conflict on any location (data-race freedom).

  NOT proved / cannot be exhibited by this model: that the Go code satisfies the premise.  That
  is established per run by the C18 scanner's effect summary (syntactic, unsound for flows it
  does not track) and validated dynamically by result comparison under real concurrency and the
  Go race detector — "partial".
-/
import Gzx.Proofs.Interference
namespace Gzx.Properties.C18
open Gzx Gzx.Interference

/-- clause "every call returns exactly what it returns when run alone": under every schedule,
    the private store (results) of every goroutine equals its solo execution up to the same
    number of steps -/
theorem noninterference (prog : Gid → List Step) (Shared : Loc → Prop) (owner : Loc → Gid)
    (P0 : Gid → PStore) (G0 : GStore) (hI : Independent prog Shared owner) (sched : List Gid) (g : Gid) :
    (run prog sched (init P0 G0)).P g
      = (alone (prog g) (P0 g) G0 ((run prog sched (init P0 G0)).pc g)).1 :=
  (inv_run prog Shared owner P0 G0 hI sched _ (inv_init prog Shared owner P0 G0)).priv g

/-- shared (package-level) state is never changed by any interleaving -/
theorem shared_unchanged (prog : Gid → List Step) (Shared : Loc → Prop) (owner : Loc → Gid)
    (P0 : Gid → PStore) (G0 : GStore) (hI : Independent prog Shared owner) (sched : List Gid)
    (loc : Loc) (h : Shared loc) : (run prog sched (init P0 G0)).G loc = G0 loc :=
  (inv_run prog Shared owner P0 G0 hI sched _ (inv_init prog Shared owner P0 G0)).shared loc h

/-- every goroutine has executed all its steps -/
def Complete (prog : Gid → List Step) (sched : List Gid) : Prop :=
  ∀ g, (prog g).length ≤ countG g sched

theorem pc_complete (prog : Gid → List Step) (P0 : Gid → PStore) (G0 : GStore) (sched : List Gid)
    (hc : Complete prog sched) (g : Gid) : (run prog sched (init P0 G0)).pc g = (prog g).length := by
  rw [pc_run prog sched (init P0 G0) (fun _ => Nat.zero_le _) g]
  have := hc g
  simp only [init]
  omega

/-- clause "results schedule = results sequential": any two complete interleavings — e.g. an
    arbitrary one and the sequential one — end in the same private stores and the same global store -/
theorem results_schedule_independent (prog : Gid → List Step) (Shared : Loc → Prop) (owner : Loc → Gid)
    (P0 : Gid → PStore) (G0 : GStore) (hI : Independent prog Shared owner) (s1 s2 : List Gid)
    (h1 : Complete prog s1) (h2 : Complete prog s2) :
    (run prog s1 (init P0 G0)).P = (run prog s2 (init P0 G0)).P ∧
    (run prog s1 (init P0 G0)).G = (run prog s2 (init P0 G0)).G := by
  have i1 := inv_run prog Shared owner P0 G0 hI s1 _ (inv_init prog Shared owner P0 G0)
  have i2 := inv_run prog Shared owner P0 G0 hI s2 _ (inv_init prog Shared owner P0 G0)
  have pc1 := pc_complete prog P0 G0 s1 h1
  have pc2 := pc_complete prog P0 G0 s2 h2
  constructor
  · funext g
    rw [i1.priv g, i2.priv g, pc1 g, pc2 g]
  · funext loc
    by_cases hs : Shared loc
    · rw [i1.shared loc hs, i2.shared loc hs]
    · rw [i1.owned loc hs, i2.owned loc hs, pc1, pc2]

theorem countG_append (g : Gid) (a b : List Gid) : countG g (a ++ b) = countG g a + countG g b := by
  simp [countG, List.filter_append]

theorem countG_replicate_self (g n : Nat) : countG g (List.replicate n g) = n := by
  induction n with
  | zero => simp [countG]
  | succ n ih =>
    simp only [List.replicate_succ, countG, List.filter_cons, beq_self_eq_true, if_true, List.length_cons]
    simp only [countG] at ih
    omega

theorem sequential_count (prog : Gid → List Step) (g : Gid) (gs : List Gid) (hg : g ∈ gs) :
    (prog g).length ≤ countG g (sequential prog gs) := by
  induction gs with
  | nil => cases hg
  | cons x rest ih =>
    simp only [sequential, List.flatMap_cons, countG_append]
    rcases List.mem_cons.mp hg with e | hr
    · subst e
      rw [countG_replicate_self]
      omega
    · have := ih hr
      simp only [sequential] at this
      omega

/-- the sequential schedule (each listed goroutine runs to completion before the next starts) is complete -/
theorem sequential_complete (prog : Gid → List Step) (gs : List Gid)
    (h : ∀ g, g ∈ gs ∨ prog g = []) : Complete prog (sequential prog gs) := by
  intro g
  rcases h g with hg | he
  · exact sequential_count prog g gs hg
  · simp [he]

/-- the statement in the form of the property: an arbitrary complete interleaving gives the
    results of the sequential execution -/
theorem results_eq_sequential (prog : Gid → List Step) (Shared : Loc → Prop) (owner : Loc → Gid)
    (P0 : Gid → PStore) (G0 : GStore) (hI : Independent prog Shared owner) (sched gs : List Gid)
    (hc : Complete prog sched) (hgs : ∀ g, g ∈ gs ∨ prog g = []) :
    (run prog sched (init P0 G0)).P = (run prog (sequential prog gs) (init P0 G0)).P :=
  (results_schedule_independent prog Shared owner P0 G0 hI sched _ hc (sequential_complete prog gs hgs)).1

/-- corollary "no data race": two steps of different goroutines never conflict (same location,
    at least one a write) — on shared locations because nobody writes, elsewhere because of ownership -/
theorem no_conflict (prog : Gid → List Step) (Shared : Loc → Prop) (owner : Loc → Gid)
    (hI : Independent prog Shared owner) (g1 g2 : Gid) (hne : g1 ≠ g2) (s1 s2 : Step)
    (h1 : s1 ∈ prog g1) (h2 : s2 ∈ prog g2) (loc : Loc)
    (a1 : s1.accesses loc) (a2 : s2.accesses loc) : ¬ (s1.writes loc ∨ s2.writes loc) := by
  intro hw
  have hns : ¬ Shared loc := by
    rcases hw with w | w
    · exact hI.noSharedWrite g1 s1 h1 loc w
    · exact hI.noSharedWrite g2 s2 h2 loc w
  have o1 := hI.ownInstances g1 s1 h1 loc a1 hns
  have o2 := hI.ownInstances g2 s2 h2 loc a2 hns
  exact hne (o1.symm.trans o2)

/-! ### non-vacuity: a concrete two-goroutine system satisfying the premise, and one violating it -/

/-- goroutine 0 and 1 both read the shared table entry 0 and work on their own cell (10 / 11) -/
def demoProg : Gid → List Step
  | 0 => [.read 0 0, .write 10 (fun p => p 0 + 1), .read 1 10]
  | 1 => [.read 0 0, .write 11 (fun p => p 0 * 2), .read 1 11]
  | _ => []

def demoShared : Nat → Prop := fun l => l < 10
def demoOwner : Nat → Nat := fun l => if l = 11 then 1 else 0

theorem demo_independent : Independent demoProg demoShared demoOwner := by
  constructor
  · intro g s hs loc hw
    match g with
    | 0 =>
      simp only [demoProg, List.mem_cons, List.not_mem_nil, or_false] at hs
      rcases hs with rfl | rfl | rfl <;> simp only [Step.writes] at hw <;> (unfold demoShared; omega)
    | 1 =>
      simp only [demoProg, List.mem_cons, List.not_mem_nil, or_false] at hs
      rcases hs with rfl | rfl | rfl <;> simp only [Step.writes] at hw <;> (unfold demoShared; omega)
    | n + 2 => simp [demoProg] at hs
  · intro g s hs loc ha hn
    unfold demoShared at hn
    match g with
    | 0 =>
      simp only [demoProg, List.mem_cons, List.not_mem_nil, or_false] at hs
      rcases hs with rfl | rfl | rfl <;>
        simp only [Step.accesses, Step.reads, Step.writes, or_false, false_or] at ha <;>
        (simp only [demoOwner]; split <;> first | rfl | (exfalso; omega))
    | 1 =>
      simp only [demoProg, List.mem_cons, List.not_mem_nil, or_false] at hs
      rcases hs with rfl | rfl | rfl <;>
        simp only [Step.accesses, Step.reads, Step.writes, or_false, false_or] at ha <;>
        (simp only [demoOwner]; split <;> first | rfl | (exfalso; omega))
    | n + 2 => simp [demoProg] at hs

def demoG0 : GStore := fun l => if l = 0 then 7 else 0

example : (run demoProg [0, 1, 1, 0, 1, 0] (init (fun _ _ => 0) demoG0)).P 0 1 = 8 := by decide
example : (run demoProg [1, 1, 1, 0, 0, 0] (init (fun _ _ => 0) demoG0)).P 1 1 = 14 := by decide

/-- the premise is necessary: hoist the scratch cell into ONE shared location (both goroutines
    write location 5) and the result depends on the schedule -/
def racyProg : Gid → List Step
  | 0 => [.write 5 (fun _ => 1), .read 1 5]
  | 1 => [.write 5 (fun _ => 2), .read 1 5]
  | _ => []

theorem racy_depends_on_schedule :
    (run racyProg [0, 0, 1, 1] (init (fun _ _ => 0) (fun _ => 0))).P 0 1 ≠
    (run racyProg [0, 1, 0, 1] (init (fun _ _ => 0) (fun _ => 0))).P 0 1 := by decide

end Gzx.Properties.C18
