/-
  C18 (wp c18gen) — read-only sharing of init-time tables: is "reads of shared locations commute" covered?

  Yes, and here it is made explicit.  `Independent` never restricted READS of shared locations — any goroutine may read
  any package-level table at any time — and the invariant of Proofs/Interference.lean says more than the theorems of
  Properties/C18.lean extract from it: a reachable state is a FUNCTION OF THE PROGRAM COUNTERS.  Consequences proved here:
    * `state_determined_by_pcs`      two reachable states with the same program counters are equal;
    * `schedules_with_equal_counts`  two schedules that give every goroutine the same number of turns end in the same
                                     state — complete or not (Properties/C18 had this for complete schedules only);
    * `adjacent_steps_commute`       swapping two neighbouring turns anywhere in a schedule changes nothing
                                     (the commutation that partial-order reduction / the race detector's
                                     happens-before reasoning rely on);
    * `shared_reads_commute`         from ANY state, without any premise: two goroutines whose next steps are reads
                                     (of the same shared location or not) commute.
-/
import Gzx.Properties.C18
namespace Gzx.Properties.C18Commute
open Gzx Gzx.Interference

theorem state_ext (a b : State) (hP : a.P = b.P) (hG : a.G = b.G) (hpc : a.pc = b.pc) : a = b := by
  cases a; cases b; simp only at hP hG hpc; subst hP; subst hG; subst hpc; rfl

/-- a reachable state is a function of the program counters -/
theorem state_determined_by_pcs (prog : Gid → List Step) (Shared : Loc → Prop) (owner : Loc → Gid)
    (P0 : Gid → PStore) (G0 : GStore) (st1 st2 : State)
    (h1 : Inv prog Shared owner P0 G0 st1) (h2 : Inv prog Shared owner P0 G0 st2) (hpc : st1.pc = st2.pc) :
    st1 = st2 := by
  apply state_ext _ _ _ _ hpc
  · funext g
    rw [h1.priv g, h2.priv g, hpc]
  · funext loc
    by_cases hs : Shared loc
    · rw [h1.shared loc hs, h2.shared loc hs]
    · rw [h1.owned loc hs, h2.owned loc hs, hpc]

/-- schedules that give every goroutine the same number of turns end in the same state -/
theorem schedules_with_equal_counts (prog : Gid → List Step) (Shared : Loc → Prop) (owner : Loc → Gid)
    (P0 : Gid → PStore) (G0 : GStore) (hI : Independent prog Shared owner) (s1 s2 : List Gid)
    (h : ∀ g, countG g s1 = countG g s2) :
    run prog s1 (init P0 G0) = run prog s2 (init P0 G0) := by
  have i1 := inv_run prog Shared owner P0 G0 hI s1 _ (inv_init prog Shared owner P0 G0)
  have i2 := inv_run prog Shared owner P0 G0 hI s2 _ (inv_init prog Shared owner P0 G0)
  apply state_determined_by_pcs prog Shared owner P0 G0 _ _ i1 i2
  funext g
  rw [pc_run prog s1 (init P0 G0) (fun _ => Nat.zero_le _) g, pc_run prog s2 (init P0 G0) (fun _ => Nat.zero_le _) g, h g]

/-- swapping two neighbouring turns anywhere in a schedule changes nothing -/
theorem adjacent_steps_commute (prog : Gid → List Step) (Shared : Loc → Prop) (owner : Loc → Gid)
    (P0 : Gid → PStore) (G0 : GStore) (hI : Independent prog Shared owner) (a b : List Gid) (g1 g2 : Gid) :
    run prog (a ++ g1 :: g2 :: b) (init P0 G0) = run prog (a ++ g2 :: g1 :: b) (init P0 G0) := by
  apply schedules_with_equal_counts prog Shared owner P0 G0 hI
  intro g
  simp only [countG, List.filter_append, List.filter_cons, List.length_append]
  split <;> split <;> simp

theorem upd_comm {α : Type} (f : Nat → α) (i j : Nat) (x y : α) (h : i ≠ j) :
    upd (upd f i x) j y = upd (upd f j y) i x := by
  funext k
  simp only [upd]
  by_cases e1 : k = j
  · subst e1
    have : k ≠ i := fun e => h e.symm
    simp [this]
  · simp [e1]

/-- from ANY state: two goroutines whose next steps are both reads commute -/
theorem shared_reads_commute (prog : Gid → List Step) (st : State) (g1 g2 : Gid) (hne : g1 ≠ g2)
    (r1 l1 r2 l2 : Nat) (h1 : (prog g1)[st.pc g1]? = some (.read r1 l1))
    (h2 : (prog g2)[st.pc g2]? = some (.read r2 l2)) :
    stepOf prog (stepOf prog st g1) g2 = stepOf prog (stepOf prog st g2) g1 := by
  have hne' : g2 ≠ g1 := fun e => hne e.symm
  have e1 : stepOf prog st g1 = ⟨upd st.P g1 (upd (st.P g1) r1 (st.G l1)), st.G, upd st.pc g1 (st.pc g1 + 1)⟩ := by
    simp [stepOf, h1, exec]
  have e2 : stepOf prog st g2 = ⟨upd st.P g2 (upd (st.P g2) r2 (st.G l2)), st.G, upd st.pc g2 (st.pc g2 + 1)⟩ := by
    simp [stepOf, h2, exec]
  rw [e1, e2]
  simp only [stepOf, upd_other _ _ _ _ hne, upd_other _ _ _ _ hne', h1, h2, exec]
  apply state_ext
  · exact upd_comm _ _ _ _ _ hne
  · rfl
  · exact upd_comm _ _ _ _ _ hne

/-- non-vacuity: the demo system of Properties/C18 in two interleavings that are not complete -/
example : run C18.demoProg [0, 1, 1] (init (fun _ _ => 0) C18.demoG0) = run C18.demoProg [1, 0, 1] (init (fun _ _ => 0) C18.demoG0) :=
  schedules_with_equal_counts C18.demoProg C18.demoShared C18.demoOwner _ _ C18.demo_independent _ _ (by
    intro g
    simp only [countG, List.filter_cons, List.filter_nil]
    by_cases h0 : g = 0
    · subst h0; simp
    · by_cases h1 : g = 1
      · subst h1; simp
      · have a : (0 == g) = false := by simpa using fun e => h0 e.symm
        have b : (1 == g) = false := by simpa using fun e => h1 e.symm
        simp [a, b])

end Gzx.Properties.C18Commute
