/-
  C18 (wp c18gen) — first-use initialisation: WHEN IT IS SAFE.

  PROVED about the machine of Model/LazyInit.lean (any number of goroutines, any schedule): under `LazySafe`
    (1) lazy state is shared state, written by `once` steps only — atomically, if the group's flag is unset, all cells of
        the group get values that do not depend on the caller — and by no plain write, guarded or not;
    (2) FIRST-USE DISCIPLINE: in program order every read of a lazy cell is preceded by `once` of its group;
        the flags themselves are never read by plain steps;
    (3) the rest as before: init-only shared state is never written, other locations are touched by their owner only;
  every goroutine computes exactly what it computes alone (`lazy_noninterference`), init-only shared state keeps its
  value (`lazy_init_only_unchanged`), every lazy cell whose group some goroutine has passed holds its value
  (`lazy_initialised`).  The base theorems are the special case without `once` (`lrun_embed`).

  Each clause is NEEDED (counterexamples by evaluation):
    * the unsynchronised form `if !ready { ready = true; fill() }` with plain guarded writes — the seeded lazily built
      GenericGF tables — lets a second goroutine read a cell that is not filled yet (`unsynchronised_lazy_init_interferes`);
    * reading a lazy cell without passing `once` first sees whatever another goroutine left (`first_use_discipline_needed`).

  NOT shown: that Go code using sync.Once maps to `once` steps (sync.Once is trusted to be atomic and to publish the
  writes of the initialiser), nor that the initialiser is caller-independent — that is the review the allow-lists
  corpus/C18/allowed-sync-uses.txt / allowed-shared-type-writes.txt ask for; today both are empty
  (`Obligations.C18.no_first_use_initialisation`).
-/
import Gzx.Proofs.LazyInit
namespace Gzx.Properties.C18Lazy
open Gzx Gzx.Interference Gzx.LazyInit

/-- first-use initialisation under `LazySafe` does not interfere: under every schedule the private store of every
    goroutine equals its solo execution up to the same number of steps -/
theorem lazy_noninterference (L : Lazy) (prog : Gid → List LStep) (Shared : Loc → Prop) (owner : Loc → Gid)
    (P0 : Gid → PStore) (G0 : GStore) (hS : LazySafe L prog Shared owner) (hc : Consistent L G0)
    (sched : List Gid) (g : Gid) :
    (lrun L prog sched (init P0 G0)).P g
      = (lalone L (prog g) (P0 g) G0 ((lrun L prog sched (init P0 G0)).pc g)).1 :=
  (linv_run L prog Shared owner P0 G0 hS hc sched _ (linv_init L prog Shared owner P0 G0 hc)).priv g

/-- shared state that is not lazy is never changed -/
theorem lazy_init_only_unchanged (L : Lazy) (prog : Gid → List LStep) (Shared : Loc → Prop) (owner : Loc → Gid)
    (P0 : Gid → PStore) (G0 : GStore) (hS : LazySafe L prog Shared owner) (hc : Consistent L G0)
    (sched : List Gid) (loc : Loc) (h : Shared loc) (hl : ¬ L.IsLazy loc) :
    (lrun L prog sched (init P0 G0)).G loc = G0 loc :=
  (linv_run L prog Shared owner P0 G0 hS hc sched _ (linv_init L prog Shared owner P0 G0 hc)).shared loc h hl

/-- once ANY goroutine has passed `once k`, every cell of group `k` holds its value — whoever reads it, whenever -/
theorem lazy_initialised (L : Lazy) (prog : Gid → List LStep) (Shared : Loc → Prop) (owner : Loc → Gid)
    (P0 : Gid → PStore) (G0 : GStore) (hS : LazySafe L prog Shared owner) (hc : Consistent L G0)
    (sched : List Gid) (g : Gid) (k j : Nat) (hj : j < (lrun L prog sched (init P0 G0)).pc g)
    (hjs : (prog g)[j]? = some (.once k)) (loc : Loc) (v : Val) (hcell : L.cell loc = some (k, v)) :
    (lrun L prog sched (init P0 G0)).G loc = v := by
  have inv := linv_run L prog Shared owner P0 G0 hS hc sched _ (linv_init L prog Shared owner P0 G0 hc)
  exact inv.cons loc k v hcell (inv.passed g k j hj hjs)

/-- every goroutine has executed all its steps -/
def LComplete (prog : Gid → List LStep) (sched : List Gid) : Prop :=
  ∀ g, (prog g).length ≤ countG g sched

/-- with first-use initialisation too, any two complete interleavings — e.g. an arbitrary one and the sequential one —
    give every goroutine the same results -/
theorem lazy_results_schedule_independent (L : Lazy) (prog : Gid → List LStep) (Shared : Loc → Prop) (owner : Loc → Gid)
    (P0 : Gid → PStore) (G0 : GStore) (hS : LazySafe L prog Shared owner) (hc : Consistent L G0)
    (s1 s2 : List Gid) (h1 : LComplete prog s1) (h2 : LComplete prog s2) :
    (lrun L prog s1 (init P0 G0)).P = (lrun L prog s2 (init P0 G0)).P := by
  funext g
  rw [lazy_noninterference L prog Shared owner P0 G0 hS hc s1 g, lazy_noninterference L prog Shared owner P0 G0 hS hc s2 g,
    lpc_run L prog s1 (init P0 G0) (fun _ => Nat.zero_le _) g, lpc_run L prog s2 (init P0 G0) (fun _ => Nat.zero_le _) g]
  have a := h1 g
  have b := h2 g
  simp only [init]
  rw [Nat.min_eq_right (by omega), Nat.min_eq_right (by omega)]

/-- the base machine is the special case: no guards, no `once` -/
theorem base_machine_embeds (L : Lazy) (prog : Gid → List Step) (sched : List Gid) (st : State) :
    lrun L (embed prog) sched st = run prog sched st := lrun_embed L prog sched st

/-! ### non-vacuity: two goroutines that both do `once 0` and then use the table -/

/-- group 0: flag at location 0, one cell at location 1 holding 5 after first use -/
def demoL : Lazy := ⟨fun k => 2 * k, fun loc => if loc = 1 then some (0, 5) else none⟩

/-- shared: the even locations (flags) and location 1 (the table cell); instances live at odd locations ≥ 3 -/
def demoShared : Loc → Prop := fun l => l % 2 = 0 ∨ l = 1
def demoOwner : Loc → Gid := fun l => if l = 13 then 1 else 0

def demoProg : Gid → List LStep
  | 0 => [.once 0, .read 1 1, .write (fun _ => true) 11 (fun p => p 1 + 1)]
  | 1 => [.once 0, .read 1 1, .write (fun _ => true) 13 (fun p => p 1 * 2)]
  | _ => []

theorem demo_safe : LazySafe demoL demoProg demoShared demoOwner := by
  refine ⟨?_, ?_, ?_, ?_, ?_, ?_, ?_⟩
  · intro k k' h
    have h' : 2 * k = 2 * k' := h
    omega
  · intro k
    show (if 2 * k = 1 then some ((0 : Nat), (5 : Val)) else none) = none
    split
    · omega
    · rfl
  · intro loc h
    rcases h with ⟨k, rfl⟩ | h
    · left
      show (2 * k) % 2 = 0
      omega
    · right
      simp only [demoL] at h
      split at h
      · assumption
      · cases h
  · intro g s hs loc hw
    match g with
    | 0 =>
      simp only [demoProg, List.mem_cons, List.not_mem_nil, or_false] at hs
      rcases hs with rfl | rfl | rfl <;> simp only [LStep.writes] at hw
      subst hw; simp [demoShared]
    | 1 =>
      simp only [demoProg, List.mem_cons, List.not_mem_nil, or_false] at hs
      rcases hs with rfl | rfl | rfl <;> simp only [LStep.writes] at hw
      subst hw; simp [demoShared]
    | n + 2 => simp [demoProg] at hs
  · intro g s hs loc ha hn
    match g with
    | 0 =>
      simp only [demoProg, List.mem_cons, List.not_mem_nil, or_false] at hs
      rcases hs with rfl | rfl | rfl <;>
        simp only [LStep.accesses, LStep.reads, LStep.writes, or_false, false_or, or_self] at ha
      · subst ha; simp [demoShared] at hn
      · subst ha; simp [demoOwner]
    | 1 =>
      simp only [demoProg, List.mem_cons, List.not_mem_nil, or_false] at hs
      rcases hs with rfl | rfl | rfl <;>
        simp only [LStep.accesses, LStep.reads, LStep.writes, or_false, false_or, or_self] at ha
      · subst ha; simp [demoShared] at hn
      · subst ha; simp [demoOwner]
    | n + 2 => simp [demoProg] at hs
  · intro g s hs k hr
    match g with
    | 0 =>
      simp only [demoProg, List.mem_cons, List.not_mem_nil, or_false] at hs
      rcases hs with rfl | rfl | rfl <;> simp only [LStep.reads] at hr
      have hr' : 1 = 2 * k := hr
      omega
    | 1 =>
      simp only [demoProg, List.mem_cons, List.not_mem_nil, or_false] at hs
      rcases hs with rfl | rfl | rfl <;> simp only [LStep.reads] at hr
      have hr' : 1 = 2 * k := hr
      omega
    | n + 2 => simp [demoProg] at hs
  · intro g i r loc k v hi hcell
    have hk : k = 0 := by
      simp only [demoL] at hcell
      split at hcell
      · cases hcell; rfl
      · cases hcell
    subst hk
    match g with
    | 0 =>
      match i with
      | 0 => simp [demoProg] at hi
      | 1 => exact ⟨0, by omega, rfl⟩
      | 2 => simp [demoProg] at hi
      | n + 3 => simp [demoProg] at hi
    | 1 =>
      match i with
      | 0 => simp [demoProg] at hi
      | 1 => exact ⟨0, by omega, rfl⟩
      | 2 => simp [demoProg] at hi
      | n + 3 => simp [demoProg] at hi
    | n + 2 => simp [demoProg] at hi

theorem demo_cold_consistent : Consistent demoL (fun _ => 0) := fun _ _ _ _ h => absurd rfl h

/-- the demo system satisfies the hypotheses of `lazy_results_schedule_independent` for these two complete schedules -/
example : (lrun demoL demoProg [0, 1, 1, 0, 1, 0] (init (fun _ _ => 0) (fun _ => 0))).P =
    (lrun demoL demoProg [0, 0, 0, 1, 1, 1] (init (fun _ _ => 0) (fun _ => 0))).P :=
  lazy_results_schedule_independent demoL demoProg demoShared demoOwner _ _ demo_safe demo_cold_consistent _ _
    (by intro g; match g with
      | 0 => decide
      | 1 => decide
      | n + 2 => simp [demoProg])
    (by intro g; match g with
      | 0 => decide
      | 1 => decide
      | n + 2 => simp [demoProg])

/-- whatever the interleaving, both goroutines see the initialised table -/
example : (lrun demoL demoProg [0, 1, 1, 0, 1, 0] (init (fun _ _ => 0) (fun _ => 0))).P 0 1 = 5 := by decide
example : (lrun demoL demoProg [1, 0, 0, 1, 0, 1] (init (fun _ _ => 0) (fun _ => 0))).G 13 = 10 := by decide

/-! ### the clauses are needed -/

/-- the UNSYNCHRONISED lazy initialisation (the seeded GenericGF change): location 0 = "table allocated", location 1 =
    a table entry.  Each goroutine: r0 := G[0]; if r0 = 0 then G[0] := 1; if r0 = 0 then G[1] := 5; r1 := G[1].
    Alone, each reads 5.  Interleaved, goroutine 1 can find the table allocated but not yet filled and reads 0. -/
def unsyncProg : Gid → List LStep
  | 0 => [.read 0 0, .write (fun p => p 0 == 0) 0 (fun _ => 1), .write (fun p => p 0 == 0) 1 (fun _ => 5), .read 1 1]
  | 1 => [.read 0 0, .write (fun p => p 0 == 0) 0 (fun _ => 1), .write (fun p => p 0 == 0) 1 (fun _ => 5), .read 1 1]
  | _ => []

theorem unsynchronised_lazy_init_interferes :
    (lalone demoL (unsyncProg 1) (fun _ => 0) (fun _ => 0) 4).1 1 = 5 ∧
    (lrun demoL unsyncProg [0, 0, 1, 1, 1, 1, 0, 0] (init (fun _ _ => 0) (fun _ => 0))).P 1 1 = 0 := by decide

/-- the same four operations with `once` in place of the hand-written check: every schedule gives 5 -/
example : (lrun demoL demoProg [0, 1, 1, 0] (init (fun _ _ => 0) (fun _ => 0))).P 1 1 = 5 := by decide

/-- FIRST-USE DISCIPLINE is needed: goroutine 1 reads the table cell without `once`: alone it reads the
    uninitialised 0, after goroutine 0's `once` it reads 5 -/
def noDisciplineProg : Gid → List LStep
  | 0 => [.once 0, .read 1 1]
  | 1 => [.read 1 1]
  | _ => []

theorem first_use_discipline_needed :
    (lrun demoL noDisciplineProg [1, 0, 0] (init (fun _ _ => 0) (fun _ => 0))).P 1 1 ≠
    (lrun demoL noDisciplineProg [0, 1, 0] (init (fun _ _ => 0) (fun _ => 0))).P 1 1 := by decide

end Gzx.Properties.C18Lazy
