/-
  C18 (wp c18gen) — LINK theorems: non-interference for every program whose steps are drawn from the summarised
  functions of the library.

  Parametric in the summary `S` and the reviewed lists `A`; `Obligations/C18.lean` instantiates `S` with the
  module regenerated from the Go working tree on every run and discharges `Covered S A` in the kernel, so a new
  package-level write in the Go code breaks the NAMED obligation `Obligations.C18.shared_writes_allowed` (a
  new escape `escapes_allowed`, a lazily written field of a shared object `shared_type_writes_allowed`).

  Trusted (hypothesis `hsound`): the scanner's summary is sound for the program.  Assumed (hypothesis `hexcl`):
  the program does not run the reviewed exceptions (the documented setter).  Hypothesis `hown`: each goroutine
  touches only instances it owns (the property's premise).
-/
import Gzx.Model.EffectLink
import Gzx.Properties.C18
namespace Gzx.Properties.C18Link
open Gzx Gzx.Interference Gzx.EffectLink

/-- an accounted effect of a covered summary is a reviewed one -/
theorem accounted_mono (S A : Summary) (hc : Covered S A) (t : TStep) (v : Nat)
    (h : Accounted S t v) : Accounted A t v := by
  unfold Accounted at h ⊢
  cases hp : t.path with
  | direct => rw [hp] at h; exact hc.writes _ h
  | viaStored f => rw [hp] at h; exact hc.escapes _ h
  | viaParam tf => rw [hp] at h; exact hc.typeWrites _ h

/-- premise (1) of `Independent` from the summary: no step of a program drawn from the summarised functions
    (minus the reviewed exceptions) writes a package-level location -/
theorem no_shared_write_of_summary (S A : Summary) (hc : Covered S A) (prog : Gid → List TStep)
    (hsound : ∀ g t, t ∈ prog g → SoundFor S t) (hexcl : ∀ g t, t ∈ prog g → Excluded A t) :
    ∀ g s, s ∈ erase prog g → ∀ loc, s.writes loc → ¬ S.Shared loc := by
  intro g s hs loc hw hsh
  obtain ⟨t, ht, rfl⟩ := List.mem_map.mp hs
  have hlt : loc < S.vars.length := hsh
  have hv : S.vars[loc]? = some S.vars[loc] := List.getElem?_eq_getElem hlt
  exact hexcl g t ht _ (accounted_mono S A hc t _ (hsound g t ht loc _ hw hv))

/-- the premise of the non-interference theorems, for programs drawn from the summarised functions -/
theorem independent_of_summary (S A : Summary) (hc : Covered S A) (prog : Gid → List TStep) (owner : Loc → Gid)
    (hsound : ∀ g t, t ∈ prog g → SoundFor S t) (hexcl : ∀ g t, t ∈ prog g → Excluded A t)
    (hown : ∀ g s, s ∈ erase prog g → ∀ loc, s.accesses loc → ¬ S.Shared loc → owner loc = g) :
    Independent (erase prog) S.Shared owner :=
  ⟨no_shared_write_of_summary S A hc prog hsound hexcl, hown⟩

/-- LINK, clause "every call returns exactly what it returns when run alone" -/
theorem summarised_noninterference (S A : Summary) (hc : Covered S A) (prog : Gid → List TStep) (owner : Loc → Gid)
    (hsound : ∀ g t, t ∈ prog g → SoundFor S t) (hexcl : ∀ g t, t ∈ prog g → Excluded A t)
    (hown : ∀ g s, s ∈ erase prog g → ∀ loc, s.accesses loc → ¬ S.Shared loc → owner loc = g)
    (P0 : Gid → PStore) (G0 : GStore) (sched : List Gid) (g : Gid) :
    (run (erase prog) sched (init P0 G0)).P g
      = (alone (erase prog g) (P0 g) G0 ((run (erase prog) sched (init P0 G0)).pc g)).1 :=
  C18.noninterference _ _ owner P0 G0 (independent_of_summary S A hc prog owner hsound hexcl hown) sched g

/-- LINK: the package-level variables keep their init-time values under every interleaving -/
theorem summarised_shared_unchanged (S A : Summary) (hc : Covered S A) (prog : Gid → List TStep) (owner : Loc → Gid)
    (hsound : ∀ g t, t ∈ prog g → SoundFor S t) (hexcl : ∀ g t, t ∈ prog g → Excluded A t)
    (hown : ∀ g s, s ∈ erase prog g → ∀ loc, s.accesses loc → ¬ S.Shared loc → owner loc = g)
    (P0 : Gid → PStore) (G0 : GStore) (sched : List Gid) (loc : Loc) (h : loc < S.vars.length) :
    (run (erase prog) sched (init P0 G0)).G loc = G0 loc :=
  C18.shared_unchanged _ _ owner P0 G0 (independent_of_summary S A hc prog owner hsound hexcl hown) sched loc h

/-- LINK, clause "results equal the sequential results" -/
theorem summarised_results_eq_sequential (S A : Summary) (hc : Covered S A) (prog : Gid → List TStep) (owner : Loc → Gid)
    (hsound : ∀ g t, t ∈ prog g → SoundFor S t) (hexcl : ∀ g t, t ∈ prog g → Excluded A t)
    (hown : ∀ g s, s ∈ erase prog g → ∀ loc, s.accesses loc → ¬ S.Shared loc → owner loc = g)
    (P0 : Gid → PStore) (G0 : GStore) (sched gs : List Gid)
    (hcomp : C18.Complete (erase prog) sched) (hgs : ∀ g, g ∈ gs ∨ erase prog g = []) :
    (run (erase prog) sched (init P0 G0)).P = (run (erase prog) (sequential (erase prog) gs) (init P0 G0)).P :=
  C18.results_eq_sequential _ _ owner P0 G0 (independent_of_summary S A hc prog owner hsound hexcl hown) sched gs hcomp hgs

/-- LINK, clause "no data race" -/
theorem summarised_no_conflict (S A : Summary) (hc : Covered S A) (prog : Gid → List TStep) (owner : Loc → Gid)
    (hsound : ∀ g t, t ∈ prog g → SoundFor S t) (hexcl : ∀ g t, t ∈ prog g → Excluded A t)
    (hown : ∀ g s, s ∈ erase prog g → ∀ loc, s.accesses loc → ¬ S.Shared loc → owner loc = g)
    (g1 g2 : Gid) (hne : g1 ≠ g2) (s1 s2 : Step) (h1 : s1 ∈ erase prog g1) (h2 : s2 ∈ erase prog g2) (loc : Loc)
    (a1 : s1.accesses loc) (a2 : s2.accesses loc) : ¬ (s1.writes loc ∨ s2.writes loc) :=
  C18.no_conflict _ _ owner (independent_of_summary S A hc prog owner hsound hexcl hown) g1 g2 hne s1 s2 h1 h2 loc a1 a2

/-! ### non-vacuity: a summary of the shape of the library's (one reviewed setter), a program drawn from two
    other functions that satisfies all hypotheses, and the necessity of `Excluded` -/

/-- variables 100 (the sampler) and 101 (a table); function 7 is the reviewed setter of variable 100 -/
def demoS : Summary := ⟨[100, 101], [(7, 100)], [], []⟩
def demoA : Summary := ⟨[], [(7, 100)], [], []⟩

theorem demo_covered : Covered demoS demoA := ⟨fun _ h => h, fun _ h => h, fun _ h => h⟩

/-- goroutine 0 runs function 1, goroutine 1 function 2: both read the table (location 1) and the sampler
    (location 0) and write their own instance cell (10 / 11) -/
def demoProg : Gid → List TStep
  | 0 => [⟨1, .direct, .read 0 1⟩, ⟨1, .direct, .read 1 0⟩, ⟨1, .viaParam 55, .write 10 (fun p => p 0 + p 1)⟩]
  | 1 => [⟨2, .direct, .read 0 1⟩, ⟨2, .viaParam 55, .write 11 (fun p => p 0 * 2)⟩]
  | _ => []

def demoOwner : Loc → Gid := fun l => if l = 11 then 1 else 0

theorem demo_sound : ∀ g t, t ∈ demoProg g → SoundFor demoS t := by
  intro g t ht loc v hw hv
  have hlt : loc < 2 := by
    rcases Nat.lt_or_ge loc 2 with h | h
    · exact h
    · rw [List.getElem?_eq_none (by simpa [demoS] using h)] at hv; cases hv
  match g with
  | 0 =>
    simp only [demoProg, List.mem_cons, List.not_mem_nil, or_false] at ht
    rcases ht with rfl | rfl | rfl <;> simp only [Step.writes] at hw <;> omega
  | 1 =>
    simp only [demoProg, List.mem_cons, List.not_mem_nil, or_false] at ht
    rcases ht with rfl | rfl <;> simp only [Step.writes] at hw <;> omega
  | n + 2 => simp [demoProg] at ht

theorem demo_excluded : ∀ g t, t ∈ demoProg g → Excluded demoA t := by
  intro g t ht v
  match g with
  | 0 =>
    simp only [demoProg, List.mem_cons, List.not_mem_nil, or_false] at ht
    rcases ht with rfl | rfl | rfl <;> simp [Accounted, demoA]
  | 1 =>
    simp only [demoProg, List.mem_cons, List.not_mem_nil, or_false] at ht
    rcases ht with rfl | rfl <;> simp [Accounted, demoA]
  | n + 2 => simp [demoProg] at ht

theorem demo_own : ∀ g s, s ∈ erase demoProg g → ∀ loc, s.accesses loc → ¬ demoS.Shared loc → demoOwner loc = g := by
  intro g s hs loc ha hn
  have hn' : ¬ loc < 2 := hn
  match g with
  | 0 =>
    simp only [erase, demoProg, List.map_cons, List.map_nil, List.mem_cons, List.not_mem_nil, or_false] at hs
    rcases hs with rfl | rfl | rfl <;>
      simp only [Step.accesses, Step.reads, Step.writes, or_false, false_or] at ha <;>
      (simp only [demoOwner]; split <;> first | rfl | omega | (subst ha; simp_all))
  | 1 =>
    simp only [erase, demoProg, List.map_cons, List.map_nil, List.mem_cons, List.not_mem_nil, or_false] at hs
    rcases hs with rfl | rfl <;>
      simp only [Step.accesses, Step.reads, Step.writes, or_false, false_or] at ha <;>
      (simp only [demoOwner]; split <;> first | rfl | omega | (subst ha; simp_all))
  | n + 2 => simp [erase, demoProg] at hs

/-- all hypotheses of the link theorems hold of the demo system -/
example : Independent (erase demoProg) demoS.Shared demoOwner :=
  independent_of_summary demoS demoA demo_covered demoProg demoOwner demo_sound demo_excluded demo_own

/-- `Excluded` is necessary: two goroutines that both run the reviewed setter (function 7 writing variable
    100 = location 0) satisfy `SoundFor` and `Covered`, and their result depends on the schedule -/
def setterProg : Gid → List TStep
  | 0 => [⟨7, .direct, .write 0 (fun _ => 1)⟩, ⟨1, .direct, .read 1 0⟩]
  | 1 => [⟨7, .direct, .write 0 (fun _ => 2)⟩, ⟨2, .direct, .read 1 0⟩]
  | _ => []

theorem setter_sound : ∀ g t, t ∈ setterProg g → SoundFor demoS t := by
  intro g t ht loc v hw hv
  match g with
  | 0 =>
    simp only [setterProg, List.mem_cons, List.not_mem_nil, or_false] at ht
    rcases ht with rfl | rfl <;> simp only [Step.writes] at hw
    subst hw
    simp only [demoS, List.getElem?_cons_zero, Option.some.injEq] at hv
    subst hv
    simp [Accounted, demoS]
  | 1 =>
    simp only [setterProg, List.mem_cons, List.not_mem_nil, or_false] at ht
    rcases ht with rfl | rfl <;> simp only [Step.writes] at hw
    subst hw
    simp only [demoS, List.getElem?_cons_zero, Option.some.injEq] at hv
    subst hv
    simp [Accounted, demoS]
  | n + 2 => simp [setterProg] at ht

theorem setter_depends_on_schedule :
    (run (erase setterProg) [0, 0, 1, 1] (init (fun _ _ => 0) (fun _ => 0))).P 0 1 ≠
    (run (erase setterProg) [0, 1, 0, 1] (init (fun _ _ => 0) (fun _ => 0))).P 0 1 := by decide

end Gzx.Properties.C18Link
