/-
  C19 — grid sampling is bounded: decision logic of GridSampler_checkAndNudgePoints and
  DefaultGridSampler.SampleGridWithTransform.  Property theorems only (core Lean); helper lemmas in
  Gzx/Proofs/GridSampler.lean; the algebra of the perspective transform is in GzxM/Perspective.lean.

  Model: Gzx/Model/GridSampler.lean, Gzx/Model/Perspective.lean (tied to common/*.go by the `c19`
  correspondence suite).  Coordinates are exact rationals; `trunc` is Go's `int(float64)`.
  Everything is stated on pixel indices `trunc x`: index -1 / n is "one pixel outside".
  Image sizes are ≥ 1 (NewBitMatrix refuses anything else).

  Honest limit (recorded as known finding `nudge-trunc-grey`): because `int()` truncates toward zero,
  index -1 stands for the coordinates (-2,-1], so on the left/top side a point up to (just under) two
  pixels outside is still pulled back, whereas on the right/bottom side the tolerance is one pixel.
  See `trunc_grey_zone` below.
-/
import Gzx.Proofs.GridSampler
namespace Gzx.Properties.C19
open Gzx Gzx.Perspective Gzx.GridSampler

/-! ## checkAndNudgePoints -/

/-- "pulled back onto the edge … on all four sides alike" (structure): whenever the check succeeds,
    the FIRST and the LAST point of the row have both been replaced by `clampPt` of themselves —
    one and the same function for both passes and both ends — and every other point is either
    untouched or replaced by that same `clampPt` (and then it was at most one pixel index outside). -/
theorem nudge_symmetric (w h : Int) (hw : 1 ≤ w) (hh : 1 ≤ h) (ps ps' : List Pt)
    (hok : checkAndNudge w h ps = .ok ps') :
    ps'.head? = ps.head?.map (clampPt w h) ∧ ps'.getLast? = ps.getLast?.map (clampPt w h) ∧
    All2 (Moved w h) ps ps' := by
  obtain ⟨e1, e2⟩ := checkAndNudge_ends hw hh hok
  have hall := checkAndNudge_moved hw hh hok
  have hlen := hall.length_eq
  refine ⟨?_, ?_, hall⟩
  · cases hp : ps.head? with
    | none =>
      have : ps = [] := by simpa using hp
      subst this
      cases hall; rfl
    | some p => simpa using (e1 p hp).2
  · cases hq : ps.getLast? with
    | none =>
      have : ps = [] := by simpa using hq
      subst this
      cases hall; rfl
    | some q => simpa using (e2 q hq).2

/-- what `clampPt` is, on pixel indices: index -1 becomes 0, index n becomes n-1, an index inside the
    image is not touched — the same for x (n = w) and y (n = h). -/
theorem clamp_edges (n : Int) (hn : 1 ≤ n) (x : Rat) :
    (trunc x = -1 → trunc (clampCoord n x) = 0) ∧
    (trunc x = n → trunc (clampCoord n x) = n - 1) ∧
    (0 ≤ trunc x → trunc x < n → clampCoord n x = x) := by
  refine ⟨?_, ?_, ?_⟩
  · intro h; rw [clampCoord_low h, trunc_zero]
  · intro h
    have h1 : trunc x ≠ -1 := by omega
    rw [clampCoord_high h1 h, trunc_intCast]
  · intro h0 h1; exact clampCoord_inside h0 h1

/-- the four edges of one end point, on pixel indices -/
def PulledOnto (w h : Int) (p p' : Pt) : Prop :=
  (trunc p.1 = -1 → trunc p'.1 = 0) ∧ (trunc p.1 = w → trunc p'.1 = w - 1) ∧
  (trunc p.2 = -1 → trunc p'.2 = 0) ∧ (trunc p.2 = h → trunc p'.2 = h - 1) ∧
  (0 ≤ trunc p.1 → trunc p.1 < w → p'.1 = p.1) ∧ (0 ≤ trunc p.2 → trunc p.2 < h → p'.2 = p.2)

theorem pulledOnto_clamp (w h : Int) (hw : 1 ≤ w) (hh : 1 ≤ h) (p : Pt) : PulledOnto w h p (clampPt w h p) := by
  obtain ⟨a1, a2, a3⟩ := clamp_edges w hw p.1
  obtain ⟨b1, b2, b3⟩ := clamp_edges h hh p.2
  exact ⟨a1, a2, b1, b2, a3, b3⟩

/-- "x = -1, x = w, y = -1, y = h are pulled to 0 / w-1 / 0 / h-1 in BOTH passes alike": the first point
    of the row (handled by the loop from the start) and the last point (handled by the loop from the
    end) satisfy the very same four-edge statement; both end up inside the image. -/
theorem nudge_four_edges_both_ends (w h : Int) (hw : 1 ≤ w) (hh : 1 ≤ h) (ps ps' : List Pt)
    (hok : checkAndNudge w h ps = .ok ps') :
    (∀ p, ps.head? = some p → ∃ p', ps'.head? = some p' ∧ PulledOnto w h p p' ∧ inImage w h p') ∧
    (∀ q, ps.getLast? = some q → ∃ q', ps'.getLast? = some q' ∧ PulledOnto w h q q' ∧ inImage w h q') := by
  obtain ⟨e1, e2⟩ := checkAndNudge_ends hw hh hok
  constructor
  · intro p hp
    exact ⟨_, (e1 p hp).2, pulledOnto_clamp w h hw hh p, inImage_clampPt hw hh (e1 p hp).1⟩
  · intro q hq
    exact ⟨_, (e2 q hq).2, pulledOnto_clamp w h hw hh q, inImage_clampPt hw hh (e2 q hq).1⟩

/-- "anything farther is a not-found error": if the first or the last point of the row has a pixel
    index below -1 or above w (resp. h), the result is NotFound. -/
theorem nudge_rejects_beyond (w h : Int) (hw : 1 ≤ w) (hh : 1 ≤ h) (ps : List Pt) (p : Pt)
    (hend : ps.head? = some p ∨ ps.getLast? = some p)
    (hfar : trunc p.1 < -1 ∨ trunc p.1 > w ∨ trunc p.2 < -1 ∨ trunc p.2 > h) :
    checkAndNudge w h ps = .error .notFound := by
  cases hres : checkAndNudge w h ps with
  | error e => rw [checkAndNudge_error hres]
  | ok ps' =>
    exfalso
    obtain ⟨e1, e2⟩ := checkAndNudge_ends hw hh hres
    have hb : beyond w h p = false := by
      rcases hend with hp | hp
      · exact (e1 p hp).1
      · exact (e2 p hp).1
    have := not_beyond_iff.mp hb
    omega

/-- …and nothing else is: a row in which every point is at most one pixel index outside is accepted. -/
theorem nudge_accepts_within (w h : Int) (hw : 1 ≤ w) (hh : 1 ≤ h) (ps : List Pt)
    (hall : ∀ p ∈ ps, -1 ≤ trunc p.1 ∧ trunc p.1 ≤ w ∧ -1 ≤ trunc p.2 ∧ trunc p.2 ≤ h) :
    ∃ ps', checkAndNudge w h ps = .ok ps' := by
  obtain ⟨ps1, h1, a1⟩ := nudgePass_within hw hh ps (fun p hp => not_beyond_iff.mpr (hall p hp))
  obtain ⟨ps2, h2, _⟩ := nudgePass_within hw hh ps1.reverse (fun p hp => a1 p (by simpa using hp))
  exact ⟨ps2.reverse, checkAndNudge_ok_iff.mpr ⟨ps1, ps2, h1, h2, rfl⟩⟩

/-- the check never panics: its only failure is NotFound -/
theorem nudge_total (w h : Int) (ps : List Pt) (e : Fault) (herr : checkAndNudge w h ps = .error e) :
    e = .notFound := checkAndNudge_error herr

/-- points inside the image are left alone: if the first and the last point are inside, nothing at
    all is modified (in particular when every point is inside). -/
theorem nudge_idempotent_inside (w h : Int) (ps : List Pt)
    (hfirst : ∀ p, ps.head? = some p → inImage w h p) (hlast : ∀ p, ps.getLast? = some p → inImage w h p) :
    checkAndNudge w h ps = .ok ps := by
  cases ps with
  | nil => simp [checkAndNudge, nudgePass, nudgePassG]
  | cons p rest =>
    have h1 : nudgePass w h (p :: rest) = .ok (p :: rest) := nudgePass_inside_head (hfirst p rfl)
    cases hr : (p :: rest).reverse with
    | nil => simp at hr
    | cons q r =>
      have hq : (p :: rest).getLast? = some q := by
        rw [← List.head?_reverse, hr]; rfl
      have h2 : nudgePass w h (q :: r) = .ok (q :: r) := nudgePass_inside_head (hlast q hq)
      apply checkAndNudge_ok_iff.mpr
      refine ⟨p :: rest, q :: r, h1, by rw [hr]; exact h2, ?_⟩
      rw [← hr, List.reverse_reverse]

theorem nudge_idempotent_all_inside (w h : Int) (ps : List Pt) (hall : ∀ p ∈ ps, inImage w h p) :
    checkAndNudge w h ps = .ok ps :=
  nudge_idempotent_inside w h ps (fun p hp => hall p (List.mem_of_mem_head? hp))
    (fun p hp => hall p (List.mem_of_getLast? hp))

/-- The exported function on an even-length interleaved slice is `checkAndNudge` on the points. -/
theorem checkAndNudgePoints_even (w h : Int) (ps : List Pt) :
    checkAndNudgePoints w h (fromPairs ps) =
      (match checkAndNudge w h ps with
       | .ok ps' => .ok (fromPairs ps')
       | .error e => .error e) := by
  have tp : ∀ l : List Pt, toPairs (fromPairs l) = (l, []) := by
    intro l
    induction l with
    | nil => rfl
    | cons a l ih => simp [fromPairs, toPairs, ih]
  have ev : ∀ l : List Pt, (fromPairs l).length % 2 = 0 := by
    intro l
    induction l with
    | nil => rfl
    | cons a l ih => simp only [fromPairs, List.length_cons]; omega
  unfold checkAndNudgePoints passFwd checkAndNudge
  rw [tp]
  cases h1 : nudgePass w h ps with
  | error e => rfl
  | ok ps1 =>
    simp only [List.append_nil]
    unfold passBwd
    rw [if_pos (ev ps1)]
    unfold passBwdEven
    rw [tp]
    cases h2 : nudgePass w h ps1.reverse with
    | error e => rfl
    | ok ps2 => simp

/-- D8, the tree before the repair: the loop from the start sent `y == height` to `height`, the loop
    from the end to `height - 1`; first point (5,10) of a 10x10 image stays at row 10 (outside). -/
example : checkAndNudgeD8 10 10 [(5, 10), (5, 5)] = .ok [(5, 10), (5, 5)] := by decide
/-- …after the repair it is pulled onto row 9 like every other edge. -/
example : checkAndNudge 10 10 [(5, 10), (5, 5)] = .ok [(5, 9), (5, 5)] := by decide
/-- all four edges, both ends (the repository's own unit-test row) -/
example : checkAndNudge 10 10 [(-1, -1), (10, 10), (0, 0), (-1, -1), (10, 10)]
    = .ok [(0, 0), (9, 9), (0, 0), (0, 0), (9, 9)] := by decide
/-- non-vacuity of `nudge_rejects_beyond` / `nudge_accepts_within` -/
example : checkAndNudge 10 10 [(5, 5), (11, 0)] = .error .notFound := by decide
example : checkAndNudge 10 10 [(5, 5), (-2, 0)] = .error .notFound := by decide

/-- Truncation toward zero: the coordinate -3/2 is one and a half pixels left of the image, its pixel
    index `int(-1.5)` is -1, so it is accepted and pulled onto column 0 (known finding
    `nudge-trunc-grey`; on the right/bottom side 10 + 1 = 11 is already rejected, see above).
    On coordinates: NotFound is guaranteed for x ≤ -2 and x ≥ n + 1 only. -/
theorem trunc_grey_zone :
    trunc (-3/2 : Rat) = -1 ∧ checkAndNudge 10 10 [((-3/2 : Rat), 0)] = .ok [(0, 0)] := by decide +kernel

/-! ## SampleGridWithTransform -/

/-- "no pixel outside the image is ever read": the result — bits, NotFound, or whatever failure a
    pixel access may raise — is the same for any two images that agree on `[0,w) × [0,h)`.
    Since `get` lives in `Except` and evaluation is left-to-right, this includes reads made before a
    later NotFound: an access outside the image could be made to fail and would change the result. -/
theorem sample_reads_in_bounds (img img' : Image) (hw : img'.w = img.w) (hh : img'.h = img.h)
    (hagree : ∀ x y, 0 ≤ x → x < img.w → 0 ≤ y → y < img.h → img'.get x y = img.get x y)
    (dimX dimY : Int) (t : PT Rat) :
    sampleGridWithTransform img' dimX dimY t = sampleGridWithTransform img dimX dimY t := by
  have hr : readPoint img' = readPoint img := by
    funext p
    simp only [readPoint, readPointG, hw, hh, Bool.true_and]
    split
    · rfl
    · next hc =>
      simp only [Bool.or_eq_true, decide_eq_true_eq, not_or, Int.not_le, Int.not_lt] at hc
      exact hagree _ _ (by omega) (by omega) (by omega) (by omega)
  have hrow : sampleRow img' t = sampleRow img t := by
    funext dx y
    simp only [sampleRow, hw, hh, hr]
  simp only [sampleGridWithTransform, hrow]

/-- in particular an image whose accessor panics outside `[0,w) × [0,h)` (Java's behaviour) never
    makes the sampler panic: the only failure is NotFound. -/
theorem sample_total (img : Image)
    (hget : ∀ x y, 0 ≤ x → x < img.w → 0 ≤ y → y < img.h → ∃ b, img.get x y = .ok b)
    (dimX dimY : Int) (t : PT Rat) (e : Fault)
    (herr : sampleGridWithTransform img dimX dimY t = .error e) : e = .notFound := by
  unfold sampleGridWithTransform at herr
  split at herr
  · cases herr; rfl
  · obtain ⟨y, _, hy⟩ := mapRes_error herr
    unfold sampleRow at hy
    split at hy
    · cases hy; rfl
    · split at hy
      · next e' hc => cases hy; exact checkAndNudge_error hc
      · obtain ⟨p, _, hp⟩ := mapRes_error hy
        simp only [readPoint, readPointG, Bool.true_and] at hp
        split at hp
        · cases hp; rfl
        · next hc =>
          simp only [Bool.or_eq_true, decide_eq_true_eq, not_or, Int.not_le, Int.not_lt] at hc
          obtain ⟨b, hb⟩ := hget (trunc p.1) (trunc p.2) (by omega) (by omega) (by omega) (by omega)
          rw [hb] at hp; cases hp

/-- "returns, for each cell, the image pixel under the transformed cell centre": if sampling succeeds,
    the result has `dimY` rows of `dimX` bits and bit (i, j) is the pixel whose indices are the
    truncated coordinates of `clampPt (T (i + 1/2, j + 1/2))`; those indices are inside the image;
    and `clampPt` is the identity whenever the transformed centre itself is inside (`clampPt_of_inImage`),
    where truncation equals floor (`trunc_eq_floor_of_nonneg`). -/
theorem sample_is_pixel_under_centre (img : Image) (hw : 1 ≤ img.w) (hh : 1 ≤ img.h)
    (dimX dimY : Int) (t : PT Rat) (bits : List (List Bool))
    (hok : sampleGridWithTransform img dimX dimY t = .ok bits) :
    bits.length = dimY.toNat ∧
    ∀ (j : Nat) (hj : j < bits.length), bits[j].length = dimX.toNat ∧
      ∀ (i : Nat) (hi : i < bits[j].length),
        ∃ c : Pt, t.apply? ((i : Int) + 1/2 : Rat) ((j : Int) + 1/2 : Rat) = some c ∧
          inImage img.w img.h (clampPt img.w img.h c) ∧
          img.get (trunc (clampPt img.w img.h c).1) (trunc (clampPt img.w img.h c).2) = .ok bits[j][i] := by
  unfold sampleGridWithTransform at hok
  split at hok
  · cases hok
  · have hrows := mapRes_ok hok
    have hlen : (List.range dimY.toNat).length = bits.length := hrows.length_eq
    refine ⟨by simpa using hlen.symm, ?_⟩
    intro j hj
    have hj' : j < (List.range dimY.toNat).length := by omega
    have hrow := hrows.get j hj' hj
    simp only [List.getElem_range] at hrow
    unfold sampleRow at hrow
    split at hrow
    · cases hrow
    · next pts htr =>
      split at hrow
      · cases hrow
      · next pts' hcn =>
        have a1 := transformRow_some htr
        have a2 := checkAndNudge_moved hw hh hcn
        have a3 := mapRes_ok hrow
        have l1 : (rowCentres dimX.toNat j).length = pts.length := a1.length_eq
        have l2 : pts.length = pts'.length := a2.length_eq
        have l3 : pts'.length = bits[j].length := a3.length_eq
        have l0 : (rowCentres dimX.toNat j).length = dimX.toNat := by simp [rowCentres]
        refine ⟨by omega, ?_⟩
        intro i hi
        have b1 := a1.get i (by omega) (by omega)
        have b2 := a2.get i (by omega) (by omega)
        have b3 := a3.get i (by omega) hi
        have hc : (rowCentres dimX.toNat j)[i]'(by omega) = (((i : Int) : Rat) + 1/2, ((j : Int) : Rat) + 1/2) := by
          simp [rowCentres]
        rw [hc] at b1
        refine ⟨pts[i]'(by omega), b1, ?_⟩
        -- the point actually read is inside the image, hence equals the clamp of the transformed centre
        simp only [readPoint, readPointG, Bool.true_and] at b3
        split at b3
        · cases b3
        · next hcond =>
          simp only [Bool.or_eq_true, decide_eq_true_eq, not_or, Int.not_le, Int.not_lt] at hcond
          have hin : inImage img.w img.h (pts'[i]'(by omega)) := ⟨by omega, by omega, by omega, by omega⟩
          have heq : pts'[i]'(by omega) = clampPt img.w img.h (pts[i]'(by omega)) := by
            rcases b2 with h | ⟨_, h⟩
            · rw [h] at hin ⊢; exact (clampPt_of_inImage hin).symm
            · exact h
          rw [← heq]
          exact ⟨hin, b3⟩

/-- non-vacuity: a 2x2 grid over a 4x4 image, scale 2 (cell centres land on pixels (1,1),(3,1),(1,3),(3,3)) -/
example :
    sampleGridWithTransform
      (Image.ofRows 4 4 [[false, false, false, false], [false, true, false, false],
                         [false, false, false, false], [false, true, false, true]])
      2 2 (quadrilateralToQuadrilateral 0 0 2 0 2 2 0 2 0 0 4 0 4 4 0 4)
    = .ok [[true, false], [true, true]] := by decide +kernel

end Gzx.Properties.C19
