import Gzx.Model.GridSampler
namespace Gzx.Properties.C19
end Gzx.Properties.C19
