/-
  C20 — 1-D run-length primitives obey their contract at every scale.
  Property theorems only; helper lemmas live in Gzx/Proofs/RunLength.lean.
  Model: Gzx/Model/RunLength.lean (tied to oned/oned_reader.go by the `c20` correspondence suite).
-/
import Gzx.Proofs.RunLength
namespace Gzx.Properties.C20
open Gzx Gzx.RunLength

/-- RecordPattern returns exactly the first `n` maximal same-colour run lengths from `start`
    (the last one possibly cut by the end of the row), or NotFound when the row ends first —
    for every row, every start offset and every counter count `n ≥ 1`. -/
theorem recordPattern_eq_runs (row : List Bool) (start n : Nat) (hn : 0 < n) :
    recordPattern row start n =
      (let rs := runs (row.drop start)
       if rs.length ≥ n then .ok (rs.take n) else .error .notFound) := by
  unfold recordPattern
  have hn' : ¬ n = 0 := by omega
  simp only [hn', if_false]
  cases hd : row.drop start with
  | nil => simp [runs]; omega
  | cons b bs =>
    simp only [runs]
    rw [rpLoop_spec n bs b [] 1 (by simpa using hn)]
    simp only [List.length_nil, Nat.zero_add, List.nil_append]
    by_cases h1 : (runsAux bs b 1).length > n
    · have : (runsAux bs b 1).length ≥ n := by omega
      simp [h1, this]
    · simp only [h1, if_false]
      by_cases h2 : (runsAux bs b 1).length = n
      · have : (runsAux bs b 1).take n = runsAux bs b 1 := List.take_of_length_le (by omega)
        simp [h2, this]
      · have : ¬ (runsAux bs b 1).length ≥ n := by omega
        simp [h2, this]

/-- never a panic for n ≥ 1 -/
theorem recordPattern_total (row : List Bool) (start n : Nat) (hn : 0 < n) :
    ∀ w, recordPattern row start n ≠ .error (.panic w) := by
  intro w
  rw [recordPattern_eq_runs row start n hn]
  simp only
  split <;> simp

/-- reverse recording is forward recording from the position found by walking back -/
theorem recordPatternInReverse_is_forward (row : List Bool) (start n : Nat) (hs : start < row.length)
    (cs : List Nat) (h : recordPatternInReverse row start n = .ok cs) :
    ∃ s, s ≤ start ∧ recordPattern row (s + 1) n = .ok cs := by
  unfold recordPatternInReverse at h
  have : ¬ start ≥ row.length := by omega
  simp only [this, if_false] at h
  generalize hrs : revScan (getBit row) (start + 1) start (getBit row start) (Int.ofNat n) = r at h
  obtain ⟨s, left⟩ := r
  simp only at h
  split at h
  · cases h
  · refine ⟨s, ?_, h⟩
    -- revScan never increases `start`
    have key : ∀ fuel st last l, (revScan (getBit row) fuel st last l).1 ≤ st := by
      intro fuel
      induction fuel with
      | zero => intro st last l; simp [revScan]
      | succ f ih =>
        intro st last l
        unfold revScan
        split
        · dsimp only
          split
          · exact Nat.le_trans (ih _ _ _) (Nat.sub_le _ _)
          · exact Nat.le_trans (ih _ _ _) (Nat.sub_le _ _)
        · exact Nat.le_refl _
    have := key (start + 1) start (getBit row start) (Int.ofNat n)
    rw [hrs] at this
    exact this

/-! ### PatternMatchVariance -/

/-- fewer pixels than pattern modules ⇒ +Inf -/
theorem pmv_inf_underresolved (c p : List Nat) (a b : Nat) (hl : c.length ≤ p.length)
    (h : sumL c < sumL (p.take c.length)) :
    patternMatchVariance c p a b = .ok none := by
  unfold patternMatchVariance
  have : ¬ p.length < c.length := by omega
  simp [this, h]

/-- some run deviates by more than the allowed individual variance ⇒ +Inf -/
theorem pmv_inf_individual (c p : List Nat) (a b : Nat) (hl : c.length ≤ p.length)
    (d : Nat) (hd : d ∈ devs (sumL c) (sumL (p.take c.length)) c (p.take c.length))
    (hbig : b * d > a * sumL c) :
    patternMatchVariance c p a b = .ok none := by
  unfold patternMatchVariance
  have h0 : ¬ p.length < c.length := by omega
  simp only [h0, if_false]
  split
  · rfl
  · have : (devs (sumL c) (sumL (p.take c.length)) c (p.take c.length)).any
        (fun d => decide (b * d > a * sumL c)) = true := by
      rw [List.any_eq_true]; exact ⟨d, hd, by simpa using hbig⟩
    simp [this]

/-- otherwise the score is Σ|c_i − p_i·T/P| / T, i.e. the fraction (Σ|c_i·P − p_i·T|) / (P·T) -/
theorem pmv_formula (c p : List Nat) (a b : Nat) (hl : c.length ≤ p.length)
    (hres : sumL (p.take c.length) ≤ sumL c)
    (hall : ∀ d ∈ devs (sumL c) (sumL (p.take c.length)) c (p.take c.length), b * d ≤ a * sumL c) :
    patternMatchVariance c p a b =
      .ok (some (sumL (devs (sumL c) (sumL (p.take c.length)) c (p.take c.length)),
                 sumL (p.take c.length) * sumL c)) := by
  unfold patternMatchVariance
  have h0 : ¬ p.length < c.length := by omega
  have h1 : ¬ sumL c < sumL (p.take c.length) := by omega
  simp only [h0, h1, if_false]
  have : (devs (sumL c) (sumL (p.take c.length)) c (p.take c.length)).any
      (fun d => decide (b * d > a * sumL c)) = false := by
    rw [List.any_eq_false]
    intro d hd
    have := hall d hd
    simp; omega
  simp [this]

theorem devs_scale (k T P : Nat) (c p : List Nat) :
    devs (k * T) P (c.map (k * ·)) p = (devs T P c p).map (k * ·) := by
  induction c generalizing p with
  | nil => simp [devs]
  | cons x xs ih =>
    cases p with
    | nil => simp [devs]
    | cons y ys =>
      simp only [devs, List.map_cons, ih]
      congr 1
      have e1 : k * x * P = k * (x * P) := Nat.mul_assoc _ _ _
      have e2 : y * (k * T) = k * (y * T) := by
        rw [← Nat.mul_assoc, Nat.mul_comm y k, Nat.mul_assoc]
      rw [e1, e2, absDiff_mul]

theorem devs_multiple (k P : Nat) (p : List Nat) :
    ∀ d ∈ devs (k * P) P (p.map (k * ·)) p, d = 0 := by
  induction p with
  | nil => simp [devs]
  | cons y ys ih =>
    intro d hd
    simp only [List.map_cons, devs, List.mem_cons] at hd
    cases hd with
    | inl h =>
      rw [h]
      have : k * y * P = y * (k * P) := by
        rw [Nat.mul_comm k y, Nat.mul_assoc]
      rw [this, absDiff_self]
    | inr h => exact ih d h

theorem sumL_zero_of_all_zero (xs : List Nat) (h : ∀ d ∈ xs, d = 0) : sumL xs = 0 := by
  induction xs with
  | nil => simp [sumL]
  | cons x xs ih =>
    have hx : x = 0 := h x (by simp)
    have := ih (fun d hd => h d (by simp [hd]))
    simp only [sumL, List.foldr_cons] at this ⊢
    omega

/-- an exact integer multiple `k ≥ 1` of the pattern scores zero, whatever the variance limit -/
theorem pmv_zero_on_multiple (p : List Nat) (k a b : Nat) (hk : 0 < k) :
    ∃ den, patternMatchVariance (p.map (k * ·)) p a b = .ok (some (0, den)) := by
  have hlen : (p.map (k * ·)).length = p.length := by simp
  have htake : p.take (p.map (k * ·)).length = p := by simp
  have hT : sumL (p.map (k * ·)) = k * sumL p := sumL_map_mul k p
  refine ⟨sumL p * (k * sumL p), ?_⟩
  have hz := devs_multiple k (sumL p) p
  have := pmv_formula (p.map (k * ·)) p a b (by simp)
    (by rw [htake, hT]; exact Nat.le_mul_of_pos_left _ hk)
    (by
      rw [htake, hT]
      intro d hd
      rw [hz d hd]; simp)
  rw [this, htake, hT, sumL_zero_of_all_zero _ hz]

/-- scaling every observed run by `k > 0` does not change the score (as a rational number:
    `num' · den = num · den'`), nor whether it is +Inf — provided the unscaled observation is not
    under-resolved (that case is +Inf by `pmv_inf_underresolved`, and scaling can lift it out). -/
theorem pmv_scale_invariant (c p : List Nat) (k a b : Nat) (hk : 0 < k) (hl : c.length ≤ p.length)
    (hres : sumL (p.take c.length) ≤ sumL c) :
    match patternMatchVariance c p a b, patternMatchVariance (c.map (k * ·)) p a b with
    | .ok none, .ok none => True
    | .ok (some (n, d)), .ok (some (n', d')) => n' * d = n * d'
    | _, _ => False := by
  have hlen : (c.map (k * ·)).length = c.length := by simp
  have hT : sumL (c.map (k * ·)) = k * sumL c := sumL_map_mul k c
  have hres' : sumL (p.take (c.map (k * ·)).length) ≤ sumL (c.map (k * ·)) := by
    rw [hlen, hT]
    exact Nat.le_trans hres (Nat.le_mul_of_pos_left _ hk)
  by_cases hall : ∀ d ∈ devs (sumL c) (sumL (p.take c.length)) c (p.take c.length), b * d ≤ a * sumL c
  · rw [pmv_formula c p a b hl hres hall]
    have hall' : ∀ d ∈ devs (sumL (c.map (k * ·))) (sumL (p.take (c.map (k * ·)).length))
        (c.map (k * ·)) (p.take (c.map (k * ·)).length), b * d ≤ a * sumL (c.map (k * ·)) := by
      rw [hlen, hT, devs_scale]
      intro d hd
      rw [List.mem_map] at hd
      obtain ⟨d0, hd0, rfl⟩ := hd
      have := hall d0 hd0
      calc b * (k * d0) = k * (b * d0) := by rw [← Nat.mul_assoc, Nat.mul_comm b k, Nat.mul_assoc]
        _ ≤ k * (a * sumL c) := Nat.mul_le_mul_left k this
        _ = a * (k * sumL c) := by rw [← Nat.mul_assoc, Nat.mul_comm k a, Nat.mul_assoc]
    rw [pmv_formula (c.map (k * ·)) p a b (by simpa using hl) hres' hall']
    simp only
    rw [hlen, hT, devs_scale, sumL_map_mul]
    generalize sumL (devs (sumL c) (sumL (p.take c.length)) c (p.take c.length)) = N
    generalize sumL (p.take c.length) = P
    generalize sumL c = T
    -- k*N*(P*T) = N*(P*(k*T))
    calc k * N * (P * T) = N * (k * (P * T)) := by rw [Nat.mul_comm k N, Nat.mul_assoc]
      _ = N * (P * (k * T)) := by rw [Nat.mul_left_comm k P T]
  · have hex : ∃ d ∈ devs (sumL c) (sumL (p.take c.length)) c (p.take c.length), b * d > a * sumL c := by
      apply Classical.byContradiction
      intro hne
      apply hall
      intro d hd
      apply Classical.byContradiction
      intro hgt
      exact hne ⟨d, hd, by omega⟩
    obtain ⟨d, hd, hbig⟩ := hex
    rw [pmv_inf_individual c p a b hl d hd hbig]
    have hd' : k * d ∈ devs (sumL (c.map (k * ·))) (sumL (p.take (c.map (k * ·)).length))
        (c.map (k * ·)) (p.take (c.map (k * ·)).length) := by
      rw [hlen, hT, devs_scale]
      exact List.mem_map_of_mem hd
    have hbig' : b * (k * d) > a * sumL (c.map (k * ·)) := by
      rw [hT]
      calc a * (k * sumL c) = k * (a * sumL c) := by rw [Nat.mul_left_comm]
        _ < k * (b * d) := Nat.mul_lt_mul_of_pos_left hbig hk
        _ = b * (k * d) := by rw [Nat.mul_left_comm]
    rw [pmv_inf_individual (c.map (k * ·)) p a b (by simpa using hl) (k * d) hd' hbig']
    trivial

/-- the score never panics when the pattern is at least as long as the counters -/
theorem pmv_total (c p : List Nat) (a b : Nat) (hl : c.length ≤ p.length) :
    ∃ r, patternMatchVariance c p a b = .ok r := by
  unfold patternMatchVariance
  have : ¬ p.length < c.length := by omega
  simp only [this, if_false]
  split
  · exact ⟨_, rfl⟩
  · split <;> exact ⟨_, rfl⟩

/-! ### non-vacuity: concrete instances meeting the hypotheses -/
example : recordPattern [false, false, true, true, true, false] 1 3 = .ok [1, 3, 1] := by decide
example : recordPattern [false, false, true] 0 3 = .error .notFound := by decide
example : patternMatchVariance [2, 2, 2] [1, 1, 1] 7 10 = .ok (some (0, 18)) := by decide
example : patternMatchVariance [1, 1, 1] [2, 2, 2] 7 10 = .ok none := by decide   -- D7 witness
example : patternMatchVariance [2, 3, 2] [1, 1, 1] 7 10 = .ok (some (4, 21)) := by decide
example : patternMatchVariance [1, 5, 1] [1, 1, 1] 7 10 = .ok none := by decide

end Gzx.Properties.C20
