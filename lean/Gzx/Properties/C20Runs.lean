/-
  C20 — structural contract of the recorded counters (round 5 addition).
  The runs specification itself is characterised: every run is at least one pixel wide, the runs
  partition the row (their lengths add up to the row length), and expanding the runs with
  alternating colours gives the row back — so `runs` loses nothing but is not an arbitrary function,
  and `recordPattern_eq_runs` pins RecordPattern to the one sensible meaning of "run lengths".
  Consequences for every successful RecordPattern: exactly `n` counters, all positive, covering at
  most the pixels between `start` and the end of the row.
-/
import Gzx.Properties.C20
namespace Gzx.Properties.C20
open Gzx Gzx.RunLength

theorem runsAux_pos (bs : List Bool) (cur : Bool) (cnt : Nat) (hc : 0 < cnt) :
    ∀ r ∈ runsAux bs cur cnt, 0 < r := by
  induction bs generalizing cur cnt with
  | nil => intro r hr; simp [runsAux] at hr; omega
  | cons b bs ih =>
    intro r hr
    unfold runsAux at hr
    split at hr
    · exact ih cur (cnt + 1) (by omega) r hr
    · rcases List.mem_cons.mp hr with h | h
      · omega
      · exact ih b 1 (by omega) r h

/-- every run is at least one pixel wide -/
theorem runs_pos (row : List Bool) : ∀ r ∈ runs row, 0 < r := by
  cases row with
  | nil => intro r hr; simp [runs] at hr
  | cons b bs => simpa [runs] using runsAux_pos bs b 1 (by omega)

theorem runsAux_sum (bs : List Bool) (cur : Bool) (cnt : Nat) :
    sumL (runsAux bs cur cnt) = cnt + bs.length := by
  induction bs generalizing cur cnt with
  | nil => simp [runsAux, sumL]
  | cons b bs ih =>
    unfold runsAux
    split
    · rw [ih]; simp; omega
    · simp only [sumL, List.foldr_cons] at ih ⊢
      rw [ih]; simp; omega

/-- the runs partition the row: their lengths add up to the number of pixels -/
theorem runs_sum (row : List Bool) : sumL (runs row) = row.length := by
  cases row with
  | nil => simp [runs, sumL]
  | cons b bs => simp [runs, runsAux_sum]; omega

/-- paint run lengths with alternating colours, starting with `c` -/
def paint : Bool → List Nat → List Bool
  | _, [] => []
  | c, r :: rs => List.replicate r c ++ paint (!c) rs

theorem paint_runsAux (bs : List Bool) (cur : Bool) (cnt : Nat) :
    paint cur (runsAux bs cur cnt) = List.replicate cnt cur ++ bs := by
  induction bs generalizing cur cnt with
  | nil => simp [runsAux, paint]
  | cons b bs ih =>
    unfold runsAux
    split
    · rename_i h
      rw [ih, h, List.replicate_succ', List.append_assoc]; simp
    · rename_i h
      have hb : b = !cur := by cases b <;> cases cur <;> simp_all
      simp only [paint]
      rw [← hb, ih]; simp

/-- nothing is lost: painting the runs of a row, starting with the colour of its first pixel,
    gives the row back — for every row -/
theorem paint_runs (b : Bool) (bs : List Bool) : paint b (runs (b :: bs)) = b :: bs := by
  simp [runs, paint_runsAux]

theorem sumL_take_le (xs : List Nat) (n : Nat) : sumL (xs.take n) ≤ sumL xs := by
  induction xs generalizing n with
  | nil => simp
  | cons x xs ih =>
    cases n with
    | zero => simp [sumL]
    | succ n =>
      have := ih n
      simp only [sumL, List.take_succ_cons, List.foldr_cons] at this ⊢
      omega

/-- a successful RecordPattern delivers exactly `n` counters, each at least 1, that together cover
    no more than the pixels from `start` to the end of the row — for every row, start and `n ≥ 1` -/
theorem recordPattern_contract (row : List Bool) (start n : Nat) (hn : 0 < n) (cs : List Nat)
    (h : recordPattern row start n = .ok cs) :
    cs.length = n ∧ (∀ c ∈ cs, 0 < c) ∧ sumL cs ≤ row.length - start := by
  rw [recordPattern_eq_runs row start n hn] at h
  simp only at h
  split at h
  · rename_i hge
    cases h
    refine ⟨by simp; omega, ?_, ?_⟩
    · intro c hc
      exact runs_pos _ c (List.mem_of_mem_take hc)
    · have := sumL_take_le (runs (row.drop start)) n
      rw [runs_sum] at this
      simpa using this
  · cases h

/-- and it fails (NotFound) exactly when fewer than `n` runs remain -/
theorem recordPattern_notFound_iff (row : List Bool) (start n : Nat) (hn : 0 < n) :
    recordPattern row start n = .error .notFound ↔ (runs (row.drop start)).length < n := by
  rw [recordPattern_eq_runs row start n hn]
  simp only
  split <;> simp <;> omega

example : runs [true, true, false, true] = [2, 1, 1] := by decide
example : paint true [2, 1, 1] = [true, true, false, true] := by decide
example : ∃ cs, recordPattern [false, true, true, false, false, false, true] 1 2 = .ok cs ∧
    cs = [2, 3] := ⟨_, by decide, rfl⟩

end Gzx.Properties.C20
